//go:build verif

package lib

// C06, the transport kind as a dimension: registrations of a CONNECTING transport (DTLS-style: the station
// reaches out to the client and then runs Proxy on that connection) next to the wrapping ones.  A stub
// connecting transport is registered under TransportType_DTLS; registration messages (C2SWrapper) with
// permitted / refused / host-name / malformed covert strings, from every registration source, go through the
// real parseRegMessage + ingestRegistration; the stub's Connect tells the harness that a dial-back goroutine
// was launched and which string it found in reg.Covert, then the real Proxy dials and the recorder / the
// in-process DNS server observe where it connects.  Oracle as for the wrapping transports: every address that
// is dialed is the literal admission returned for that registration; nothing is dialed (no dial-back is
// launched) for a registration whose covert was refused.  Model line `cdialback|…` (CJ.Covert.launched).

import (
	"context"
	"encoding/hex"
	"errors"
	"fmt"
	"net"
	"os"
	"path/filepath"
	"runtime"
	"sort"
	"strconv"
	"strings"
	"sync"
	"time"

	"github.com/refraction-networking/conjure/internal/vlib"
	"github.com/refraction-networking/conjure/pkg/phantoms"
	"github.com/refraction-networking/conjure/pkg/station/geoip"
	"github.com/refraction-networking/conjure/pkg/transports"
	pb "github.com/refraction-networking/conjure/proto"
	"google.golang.org/protobuf/proto"
)

// ---- the stub connecting transport

type c06DBCall struct {
	reg        *DecoyRegistration
	covertSeen string        // reg.Covert when the dial-back goroutine reached Connect
	release    chan error    // what Connect answers (nil: hand over the connection)
	client     net.Conn      // the "client" end of the connection
	station    net.Conn      // the end handed to the station
	closed     chan struct{} // the station closed its end: the dial-back goroutine is finished with Proxy
}

type c06SigConn struct {
	net.Conn
	once   sync.Once
	closed chan struct{}
}

func (c *c06SigConn) Close() error {
	c.once.Do(func() { close(c.closed) })
	return c.Conn.Close()
}

type c06DialBack struct {
	mockTransport
	calls chan *c06DBCall
}

func (*c06DialBack) Name() string      { return "c06-dial-back" }
func (*c06DialBack) LogPrefix() string { return "C06DB" }

func (d *c06DialBack) Connect(ctx context.Context, r transports.Registration) (net.Conn, error) {
	reg, _ := r.(*DecoyRegistration)
	station, client := net.Pipe()
	call := &c06DBCall{reg: reg, release: make(chan error, 1), client: client, closed: make(chan struct{})}
	if reg != nil {
		call.covertSeen = reg.Covert
	}
	call.station = &c06SigConn{Conn: station, closed: call.closed}
	d.calls <- call
	select {
	case err := <-call.release:
		if err != nil {
			station.Close()
			client.Close()
			return nil, err
		}
		return call.station, nil
	case <-ctx.Done():
		station.Close()
		client.Close()
		return nil, ctx.Err()
	}
}

type c06NoStats struct{}

func (c06NoStats) AddCreatedConnecting(uint, string, string)               {}
func (c06NoStats) AddCreatedToSuccessfulConnecting(uint, string, string)   {}
func (c06NoStats) AddCreatedToTimeoutConnecting(uint, string, string)      {}
func (c06NoStats) AddSuccessfulToDiscardedConnecting(uint, string, string) {}
func (c06NoStats) AddOtherFailConnecting(uint, string, string)             {}

// ---- a manager that can take registration messages

func (w *c06World) dialbackSetup() {
	if w.dialback != nil {
		return
	}
	w.dialback = &c06DialBack{calls: make(chan *c06DBCall, 16)}
	p := filepath.Join(w.tmp(), "subnets-dialback.toml")
	if err := os.WriteFile(p, []byte(c06SubnetsOK), 0o644); err != nil {
		w.t.Fatal(err)
	}
	os.Setenv("PHANTOM_SUBNET_LOCATION", p)
	sel, err := phantoms.NewPhantomIPSelector()
	if err != nil {
		w.t.Fatalf("the harness' subnets file must load: %v", err)
	}
	w.selector = sel
}

// dialbackManager: the manager of parsePolicy, equipped for parseRegMessage and for connecting transports
func (w *c06World) dialbackManager(p c06Policy) *c06Parsed {
	w.dialbackSetup()
	pp := w.parsePolicy(p)
	pp.conf.EnableIPv4, pp.conf.EnableIPv6 = true, true
	pp.rm.GeoIP = &geoip.EmptyDatabase{}
	pp.rm.connectingStats = c06NoStats{}
	pp.rm.PhantomSelector = w.selector
	pp.rm.registeredDecoys.transports[pb.TransportType_DTLS] = w.dialback
	return pp
}

func c06RegMessage(secret []byte, covert string, transport pb.TransportType, src int32) []byte {
	s := pb.RegistrationSource(src)
	m := &pb.C2SWrapper{
		SharedSecret: secret,
		RegistrationPayload: &pb.ClientToStation{
			ClientLibVersion:    proto.Uint32(2),
			DecoyListGeneration: proto.Uint32(1),
			CovertAddress:       proto.String(covert),
			Transport:           &transport,
			V4Support:           proto.Bool(true),
			V6Support:           proto.Bool(false),
			// scanned by the station that shared it: no liveness probe of the phantom
			Flags: &pb.RegistrationFlags{Prescanned: proto.Bool(true)},
		},
		RegistrationSource:  &s,
		RegistrationAddress: net.ParseIP("192.0.2.77").To4(),
	}
	b, err := proto.Marshal(m)
	if err != nil {
		return nil // e.g. a covert string that is not valid UTF-8 cannot be put into a message
	}
	return b
}

// settle waits (briefly) until no goroutine of an earlier case is left
func (w *c06World) settle() {
	for i := 0; i < 400 && runtime.NumGoroutine() > w.idleGoroutines; i++ {
		time.Sleep(50 * time.Microsecond)
	}
}

// runDialback: one registration message for the connecting (or, for comparison, the wrapping) transport
// dup: the covert string of a second message for the same session, sent afterwards ("\x00" = none)
func (w *c06World) runDialback(out *vlib.Out, pp *c06Parsed, provided string, gen int, src int32, connecting bool, dup string) {
	replay := fmt.Sprintf("c06db|gen=%d|%s|%s|%d|%s|%s", gen, pp.pol.String(), hex.EncodeToString([]byte(provided)), src, vlib.B(connecting), hex.EncodeToString([]byte(dup)))
	kind := map[bool]string{true: "connecting", false: "wrapping"}[connecting]
	fail := func(sig, what string) {
		c06Fail(out, sig, what+" — "+kind+" transport, registration source "+pb.RegistrationSource(src).String()+", covert "+strconv.Quote(provided)+" policy "+pp.pol.String(), replay)
	}
	tt := pb.TransportType_Min
	if connecting {
		tt = pb.TransportType_DTLS
	}
	// ---- the answers of the standard library, and admission on its own (the literal that is "checked")
	w.dns.gen.Store(int64(gen))
	a := w.answers(pp.conf, provided)
	w.dns.gen.Store(int64(gen))
	w.dns.beginCall()
	got, _ := pp.conf.ParseOrResolveBlocklisted(provided)

	// ---- the message through parseRegMessage (a phantom cannot be selected for every secret: take the next one)
	var reg *DecoyRegistration
	var secret []byte
	for try := 0; try < 8 && reg == nil; try++ {
		secret = w.newSecret()
		msg := c06RegMessage(secret, provided, tt, src)
		if msg == nil {
			out.Count("dialback:covert-not-encodable")
			return
		}
		regs, err := pp.rm.parseRegMessage(msg)
		if err == nil && len(regs) == 1 && regs[0] != nil {
			reg = regs[0]
		}
	}
	if reg == nil {
		out.Count("dialback:no-registration-built")
		return
	}
	if reg.Covert != provided {
		fail("C06:harness-covert-not-carried", "parseRegMessage built a registration with covert "+strconv.Quote(reg.Covert))
		return
	}
	// ingest one registration object and observe the dial-back it launches, if any.  A dial-back goroutine stays
	// alive until the stub's Connect is released, so either its call has arrived, or it is still on its way (more
	// goroutines than before), or there is none.
	type observation struct {
		call    *c06DBCall
		dests   []*net.TCPAddr
		dialDNS int
		dialed  bool
	}
	ingest := func(reg *DecoyRegistration, mustCome func() bool) (o observation) {
		w.settle()
		base := runtime.NumGoroutine()
		w.dns.gen.Store(int64(gen))
		w.dns.beginCall()
		pp.rm.ingestRegistration(reg)
		expected := mustCome()
		limit := 300 * time.Millisecond
		if expected {
			limit = 30 * time.Second // it has to come
		}
		for start := time.Now(); o.call == nil; {
			select {
			case c := <-w.dialback.calls:
				if c.reg != reg {
					// the dial-back of an earlier registration that showed up after the harness had stopped waiting for it
					c.release <- errors.New("too late")
					out.Count("dialback:straggler")
					continue
				}
				o.call = c
				continue
			default:
			}
			if !expected && runtime.NumGoroutine() <= base {
				break
			}
			if time.Since(start) > limit {
				break
			}
			time.Sleep(20 * time.Microsecond)
		}
		if call := o.call; call != nil {
			out.Count("dialback:launched")
			// names are re-pointed, then the goroutine goes on to the real Proxy — if the connection cannot leave the machine
			w.dns.gen.Store(1)
			w.dns.beginCall()
			w.rec.drain()
			q0 := w.dns.totalQueries()
			if w.mayDial(call.covertSeen) {
				o.dialed = true
				call.release <- nil
				select {
				case d := <-w.rec.ch:
					o.dests = append(o.dests, d)
				case <-call.closed:
				case <-time.After(10 * time.Second):
				}
				call.client.Close()
				select {
				case <-call.closed:
				case <-time.After(10 * time.Second):
				}
				o.dests = append(o.dests, w.rec.drain()...)
				o.dialDNS = w.dns.totalQueries() - q0
			} else {
				call.release <- errors.New("the harness does not let this dial-back proceed")
				out.Count("dialback:not-dialed-by-harness")
			}
			w.settle()
		}
		return o
	}
	valid := false
	var stored *DecoyRegistration
	obs := ingest(reg, func() bool {
		stored = pp.rm.registeredDecoys.RegistrationExists(reg)
		valid = stored != nil && stored.Valid
		return valid && connecting
	})
	pp.checkAnnounced(out, fail, got)
	call, dests, dialDNS, dialed := obs.call, obs.dests, obs.dialDNS, obs.dialed
	launchedF := "-"
	if call != nil {
		launchedF = "D," + c06Hex(call.covertSeen)
	}
	// ---- the same session registers again with another covert string: a duplicate launches nothing, and what is
	// stored keeps the checked address
	var dupObs observation
	dupSent := false
	if dup != "\x00" {
		if msg := c06RegMessage(secret, dup, tt, src); msg != nil {
			if regs, err := pp.rm.parseRegMessage(msg); err == nil && len(regs) == 1 && regs[0] != nil {
				dupSent = true
				dupObs = ingest(regs[0], func() bool { return false })
				pp.checkAnnounced(out, fail, "")
				out.Count("dialback:re-sent")
			}
		}
	}

	// ---- correspondence
	line := "cdialback|" + vlib.B(pp.conf.enableCovertAllowlist) + "|" + strings.Join(a.fields, "|") + "|" + vlib.B(connecting)
	out.Case(line, c06Hex(got)+"|"+vlib.B(valid)+"|"+launchedF, valid)

	// ---- property oracle
	out.Checked()
	out.Count("dialback:" + kind + ":" + map[bool]string{true: "valid", false: "refused"}[valid])
	if valid {
		if _, _, problem, detail := pp.literal(stored.Covert); problem != "" {
			fail("C06:valid-registration-unchecked-covert:"+problem, "a valid registration holds the covert "+detail)
		}
		if got == "" {
			fail("C06:rejected-covert-registered", "the covert was rejected but the registration became valid with covert "+strconv.Quote(stored.Covert))
		}
	}
	if dupSent {
		after := pp.rm.registeredDecoys.RegistrationExists(reg)
		if valid && after != nil && after.Valid && after.Covert != got {
			fail("C06:resent-registration-changes-covert", "after the session registered again with covert "+strconv.Quote(dup)+" the valid registration stores "+strconv.Quote(after.Covert)+", the checked address was "+strconv.Quote(got))
		}
		if !valid && after != nil && after.Valid {
			if _, _, problem, detail := pp.literal(after.Covert); problem != "" {
				fail("C06:valid-registration-unchecked-covert:"+problem, "after the session registered again with covert "+strconv.Quote(dup)+" a valid registration holds the covert "+detail)
			}
		}
		if dc := dupObs.call; dc != nil {
			// whatever launched it: its Proxy is handed the re-sent object's Covert, which must then be a checked literal
			if _, _, problem, detail := pp.literal(dc.covertSeen); problem != "" || (after != nil && after.Valid && dc.covertSeen != after.Covert) || after == nil || !after.Valid {
				fail("C06:dialback-for-unadmitted-registration", fmt.Sprintf("the re-sent registration (covert %q) launched a dial-back whose Proxy is handed reg.Covert = %q (%s); stored registration: %v; connections recorded: %v, DNS queries at dial time: %d",
					dup, dc.covertSeen, detail, after != nil && after.Valid, dupObs.dests, dupObs.dialDNS))
			}
			for _, d := range dupObs.dests {
				if ok, inBlock, inAllow := pp.permitted(d.IP); !ok {
					fail("C06:dialed-forbidden-address", fmt.Sprintf("the dial-back of the re-sent registration connected to %s (inBlocklist=%v inAllowlist=%v)", d, inBlock, inAllow))
				}
			}
			if dupObs.dialDNS > 0 {
				fail("C06:resolved-at-dial", fmt.Sprintf("the dial-back of the re-sent registration sent %d DNS queries when dialing %q", dupObs.dialDNS, dc.covertSeen))
			}
		}
	}
	if call == nil {
		return
	}
	if !valid {
		fail("C06:dialback-for-unadmitted-registration", fmt.Sprintf("a dial-back was launched for a registration that did not become valid (admission answered %q); its Proxy is handed reg.Covert = %q; connections recorded: %v, DNS queries at dial time: %d",
			got, call.covertSeen, dests, dialDNS))
		return
	}
	if call.covertSeen != stored.Covert || call.covertSeen != got {
		fail("C06:dialback-dials-unchecked", fmt.Sprintf("the dial-back found reg.Covert = %q, the checked address is %q (stored %q)", call.covertSeen, got, stored.Covert))
	}
	if dialed {
		checkedIP, checkedPort, _, _ := pp.literal(got)
		if dialDNS > 0 {
			fail("C06:resolved-at-dial", fmt.Sprintf("the dial-back sent %d DNS queries when dialing %q", dialDNS, call.covertSeen))
		}
		for _, d := range dests {
			out.Count("dialback:recorded")
			if ok, inBlock, inAllow := pp.permitted(d.IP); !ok {
				fail("C06:dialed-forbidden-address", fmt.Sprintf("the dial-back connected to %s (inBlocklist=%v inAllowlist=%v); checked address %q", d, inBlock, inAllow, got))
			} else if checkedIP != nil && (!d.IP.Equal(checkedIP) || d.Port != checkedPort) {
				fail("C06:dialed-not-checked", fmt.Sprintf("the dial-back connected to %s but the address that was checked is %q", d, got))
			}
		}
	}
}

var c06DialbackCoverts = []string{"198.51.100.7:%d", "127.0.0.1:%d", "127.0.0.2:%d", "10.1.2.3:%d", "[::1]:%d", "[2001:db8:1::7]:%d", "203.0.113.77:%d",
	"ok.test:%d", "blocked.test:%d", "loop.test:%d", "rebind.test:%d", "rebind2.test:%d", "localhost:%d", "x.blocked.com:%d", "nx.test:%d",
	"no port here", "", "0.0.0.0:%d", "198.51.100.7:99999", "198.51.100.7"}

// every value of the RegistrationSource enum and one outside it
func c06Sources() []int32 {
	var sources []int32
	maxV := int32(0)
	for v := range pb.RegistrationSource_name {
		sources = append(sources, v)
		if v > maxV {
			maxV = v
		}
	}
	sort.Slice(sources, func(i, j int) bool { return sources[i] < sources[j] })
	return append(sources, maxV+1)
}

// dialbackPart: coverts x policies x transport kind x every registration source
func (w *c06World) dialbackPart(out *vlib.Out, r *vlib.Rand, freePort string) {
	w.dialbackSetup()
	w.settle()
	w.idleGoroutines = runtime.NumGoroutine()
	sources := c06Sources()
	pickDup := func() string {
		if !r.Chance(1, 2) {
			return "\x00"
		}
		c := c06DialbackCoverts[r.Intn(len(c06DialbackCoverts))]
		if strings.Contains(c, "%d") {
			p, _ := strconv.Atoi(freePort)
			c = fmt.Sprintf(c, p)
		}
		return c
	}
	ports := []string{freePort, "443"}
	fixed := []c06Policy{c06FixedPolicies[1], c06FixedPolicies[2], c06FixedPolicies[3], c06FixedPolicies[4], c06FixedPolicies[9], c06FixedPolicies[0]}
	for pi, pol := range fixed {
		pp := w.dialbackManager(pol)
		for ci, c := range c06DialbackCoverts {
			if strings.Contains(c, "%d") {
				p, _ := strconv.Atoi(ports[(pi+ci)%len(ports)])
				c = fmt.Sprintf(c, p)
			}
			// every source for the connecting transport on the first two policies, one random source otherwise
			for _, src := range sources {
				if pi >= 2 && vlib.Tier() != "thorough" && src != sources[r.Intn(len(sources))] {
					continue
				}
				w.runDialback(out, pp, c, 0, src, true, pickDup())
			}
			w.runDialback(out, pp, c, r.Intn(2), sources[r.Intn(len(sources))], false, pickDup())
		}
	}
	for i, n := 0, vlib.Budget(150, 6000); i < n; i++ {
		pp := w.dialbackManager(c06RandomPolicy(r))
		for j := 0; j < 4; j++ {
			port := []string{"80", "443", freePort, "65535"}[r.Intn(4)]
			var c string
			switch r.Intn(4) {
			case 0:
				c = c06Frame(c06Hosts[r.Intn(len(c06Hosts))], port, r.Intn(3))
			case 1:
				c = c06Frame(c06RandomLiteral(r), port, r.Intn(2))
			default:
				c = c06DialbackCoverts[r.Intn(len(c06DialbackCoverts))]
				if strings.Contains(c, "%d") {
					p, _ := strconv.Atoi(port)
					c = fmt.Sprintf(c, p)
				}
			}
			w.runDialback(out, pp, c, r.Intn(2), sources[r.Intn(len(sources))], r.Chance(3, 4), pickDup())
		}
	}
}
