//go:build verif

package lib

// C06, "every station configuration": configurations that are put in force by a reload.  A running
// manager (start-up policy) is taken through a chain of reloads on the real SIGHUP path (ParseConfig, and
// OnReload iff it returned no error); in every reload an arbitrary subset of the three loading steps
// {configuration, phantom subnets file, GeoIP databases} fails.  After every reload covert strings are
// admitted / ingested / dialed exactly as in the other parts of the harness, and the oracle evaluates the
// output against the harness's own parse of the LAST CONFIGURATION THAT LOADED.  The model side is
// `creload|…`: CJ.Config.reloads decides which configuration's policy is in force, parseOrResolve decides
// under that policy; the answers of the library under every configuration of the chain are carried along.

import (
	"errors"
	"fmt"
	"net"
	"os"
	"path/filepath"
	"regexp"
	"strconv"
	"strings"

	"github.com/refraction-networking/conjure/internal/vlib"
	"github.com/refraction-networking/conjure/pkg/phantoms"
	"github.com/refraction-networking/conjure/pkg/station/geoip"
)

// one reload: the policy its configuration file describes and which loading steps fail
// (c: the configuration file is malformed / unreadable, s: the subnets file, g: the GeoIP databases)
type c06Step struct {
	pol   c06Policy
	fails string
}

func (s c06Step) has(c byte) bool { return strings.IndexByte(s.fails, c) >= 0 }

func c06ChainString(start c06Policy, steps []c06Step) string {
	parts := []string{start.String()}
	for _, s := range steps {
		parts = append(parts, s.fails+"!"+s.pol.String())
	}
	return strings.Join(parts, "~~")
}

func c06ParseChain(s string) (c06Policy, []c06Step, bool) {
	parts := strings.Split(s, "~~")
	start := c06ParsePolicy(parts[0])
	var steps []c06Step
	for _, p := range parts[1:] {
		f := strings.SplitN(p, "!", 2)
		if len(f) != 2 {
			return start, nil, false
		}
		steps = append(steps, c06Step{pol: c06ParsePolicy(f[1]), fails: f[0]})
	}
	return start, steps, true
}

// the marker of configuration k: a host route nobody else uses, appended to its blocklist, by which the
// harness reads off the live manager which configuration's lists are installed
func c06Marker(k int) string { return fmt.Sprintf("198.18.%d.%d/32", k/250, k%250+1) }

func c06WithMarker(p c06Policy, k int) c06Policy {
	q := p
	q.block = append(append([]string(nil), p.block...), c06Marker(k))
	return q
}

func c06Toml(p c06Policy, extra string) string {
	var sb strings.Builder
	list := func(key string, l []string) {
		if len(l) == 0 {
			return
		}
		var q []string
		for _, e := range l {
			q = append(q, strconv.Quote(e))
		}
		fmt.Fprintf(&sb, "%s = [%s]\n", key, strings.Join(q, ", "))
	}
	sb.WriteString("enable_v4 = true\n")
	list("covert_blocklist_subnets", p.block)
	list("covert_allowlist_subnets", p.allow)
	list("covert_blocklist_domains", p.domains)
	if p.public {
		sb.WriteString("covert_blocklist_public_addrs = true\n")
	}
	sb.WriteString(extra)
	return sb.String()
}

const c06SubnetsOK = "[Networks]\n  [Networks.1]\n    Generation = 1\n    [[Networks.1.WeightedSubnets]]\n      Weight = 1\n      Subnets = [\"192.122.190.0/24\", \"2001:48a8:687f:1::/64\"]\n"

func (w *c06World) tmp() string {
	if w.dir == "" {
		d, err := os.MkdirTemp("", "c06")
		if err != nil {
			w.t.Fatal(err)
		}
		w.dir = d
		w.t.Cleanup(func() { os.RemoveAll(d) })
	}
	return w.dir
}

// setOracle: the harness's own parse of the policy that must be in force
func (w *c06World) setOracle(pp *c06Parsed, p c06Policy) {
	pp.pol = p
	pp.block, pp.allow, pp.domain = nil, nil, nil
	for _, s := range p.block {
		if _, n, err := net.ParseCIDR(s); err == nil {
			pp.block = append(pp.block, n)
		}
	}
	if p.public {
		pp.block = append(pp.block, w.ifaces...)
	}
	for _, s := range p.allow {
		if _, n, err := net.ParseCIDR(s); err == nil {
			pp.allow = append(pp.allow, n)
		}
	}
	for _, s := range p.domains {
		if re, err := regexp.Compile(s); err == nil {
			pp.domain = append(pp.domain, re)
		}
	}
}

// liveIndex: which configuration's lists are installed in the running manager (by marker)
func c06LiveIndex(conf *RegConfig, n int) string {
	conf.policyMu.RLock()
	defer conf.policyMu.RUnlock()
	var found []string
	for k := 0; k <= n; k++ {
		for _, m := range conf.covertBlocklistSubnets {
			if m.String() == c06Marker(k) {
				found = append(found, strconv.Itoa(k))
				break
			}
		}
	}
	if len(found) == 1 {
		return "p" + found[0]
	}
	return "p?" + strings.Join(found, "+")
}

// c06Chain: a running manager and what the harness knows about the configurations it was given
type c06Chain struct {
	pp      *c06Parsed
	start   c06Policy
	steps   []c06Step    // the reloads performed so far
	events  []string     // per reload `<conf>,<sel>,<geo>` as the three loading steps answered
	configs []*RegConfig // configuration k parsed on its own (nil: it does not parse), for the model's answers
	inForce int          // index of the last configuration that loaded (harness's account)
	dead    bool
}

func (w *c06World) newChain(start c06Policy) *c06Chain {
	p0 := c06WithMarker(start, 0)
	pp := w.parsePolicy(p0)
	pp.chain = c06ChainString(start, nil)
	return &c06Chain{pp: pp, start: start, configs: []*RegConfig{w.parsePolicy(p0).conf}}
}

// reload performs one reload on the real SIGHUP path
func (w *c06World) reload(out *vlib.Out, ch *c06Chain, st c06Step) {
	k := len(ch.steps) + 1
	dir := w.tmp()
	pk := c06WithMarker(st.pol, k)
	extra := ""
	if st.has('g') {
		switch k % 3 {
		case 0:
			extra = "geoip_cc_db_path = \"/nonexistent/cc.mmdb\"\n"
		case 1:
			g := filepath.Join(dir, "garbage.mmdb")
			_ = os.WriteFile(g, []byte("this is not a MaxMind database\n"), 0o644)
			extra = fmt.Sprintf("geoip_cc_db_path = %q\ngeoip_asn_db_path = %q\n", g, g)
		default:
			extra = fmt.Sprintf("geoip_asn_db_path = %q\n", dir)
		}
	}
	confPath := filepath.Join(dir, "conf.toml")
	content := c06Toml(pk, extra)
	if st.has('c') {
		bad := pk
		switch k % 5 {
		case 0:
			bad.block = append(append([]string(nil), pk.block...), "10.0.0.0/99")
			content = c06Toml(bad, extra)
		case 1:
			bad.allow = append(append([]string(nil), pk.allow...), "not a subnet")
			content = c06Toml(bad, extra)
		case 2:
			bad.domains = append(append([]string(nil), pk.domains...), "(unclosed")
			content = c06Toml(bad, extra)
		case 3:
			content += "this is = = not toml\n"
		default:
			confPath = filepath.Join(dir, "does-not-exist.toml")
		}
	}
	if err := os.WriteFile(filepath.Join(dir, "conf.toml"), []byte(content), 0o644); err != nil {
		w.t.Fatal(err)
	}
	subPath := filepath.Join(dir, "subnets.toml")
	sub := c06SubnetsOK
	if st.has('s') {
		if k%2 == 0 {
			sub = "[Networks\n  broken"
		} else {
			subPath = filepath.Join(dir, "no-such-subnets.toml")
		}
	}
	if err := os.WriteFile(filepath.Join(dir, "subnets.toml"), []byte(sub), 0o644); err != nil {
		w.t.Fatal(err)
	}
	os.Setenv("CJ_STATION_CONFIG", confPath)
	os.Setenv("PHANTOM_SUBNET_LOCATION", subPath)

	// what the three loading steps answer (oracle inputs of the model)
	selF, geoF := "o", "e"
	if _, err := phantoms.NewPhantomIPSelector(); err != nil {
		selF = "e"
	}
	// the SIGHUP branch of main, on the real functions
	confF := "e"
	func() {
		defer func() {
			if r := recover(); r != nil {
				confF = "p"
			}
		}()
		newConf, err := ParseConfig()
		if err != nil {
			return
		}
		if _, gerr := geoip.New(newConf.RegConfig.DBConfig); gerr == nil {
			geoF = "o"
		} else if errors.Is(gerr, geoip.ErrMissingDB) {
			geoF = "m"
		}
		confF = "o"
		ch.pp.rm.OnReload(newConf.RegConfig)
	}()
	ch.steps = append(ch.steps, st)
	ch.events = append(ch.events, confF+","+selF+","+geoF)
	ch.pp.chain = c06ChainString(ch.start, ch.steps)
	out.Count("reload:conf=" + confF + ",subnets=" + selF + ",geoip=" + geoF)
	if confF == "p" {
		// a reload that panics is C19's finding; the chain ends here
		ch.dead = true
		ch.configs = append(ch.configs, nil)
		return
	}
	// configuration k parsed on its own: the lists the model consults if k is in force
	ck := &RegConfig{CovertBlocklistSubnets: append([]string(nil), pk.block...), CovertAllowlistSubnets: append([]string(nil), pk.allow...),
		CovertBlocklistDomains: append([]string(nil), pk.domains...), CovertBlocklistPublicAddrs: pk.public}
	if err := ck.ParseBlocklists(); err != nil {
		ck = nil
	}
	ch.configs = append(ch.configs, ck)
	// "in force" = the last configuration the station accepted (whether a file ought to be accepted is C19's
	// subject): its policy, as the harness parses it, is what the oracle of every following case evaluates
	if confF == "o" {
		ch.inForce = k
		w.setOracle(ch.pp, pk)
	}
}

// runReloaded: one covert string on the reloaded manager — the usual case (oracle against the configuration
// in force) plus the `creload` correspondence line
func (w *c06World) runReloaded(out *vlib.Out, ch *c06Chain, provided string, gen int, dup string) {
	if ch.dead {
		return
	}
	// the model line: events, then per configuration the answers of the library under its lists
	fields := []string{"creload", strings.Join(ch.events, ";")}
	for _, c := range ch.configs {
		if c == nil {
			// a configuration that does not parse is never in force: carry the start-up answers in its place
			c = ch.configs[0]
		}
		w.dns.gen.Store(int64(gen))
		a := w.answers(c, provided)
		fields = append(fields, "P", vlib.B(c.enableCovertAllowlist))
		fields = append(fields, a.fields...)
	}
	w.dns.gen.Store(int64(gen))
	w.dns.beginCall()
	got, lookup := ch.pp.rm.ParseOrResolveBlocklisted(provided)
	out.Case(strings.Join(fields, "|"), c06LiveIndex(ch.pp.conf, len(ch.steps))+"|"+c06Hex(got)+"|"+vlib.B(lookup), got != "")
	w.runC06(out, ch.pp, provided, gen, dup)
	out.Count("reload:covert-cases")
}

// coverts worth trying after a reload: addresses inside the entries of the configurations of the chain
// (what one configuration forbids another may permit), names, a few grid hosts
func (w *c06World) reloadCoverts(r *vlib.Rand, ch *c06Chain, port string, n int) []string {
	var pool []string
	add := func(p c06Policy) {
		for _, l := range [][]string{p.block, p.allow} {
			for _, e := range l {
				if _, nw, err := net.ParseCIDR(e); err == nil {
					ip := append(net.IP(nil), nw.IP...)
					if r.Bool() {
						// an address further inside
						for i := range ip {
							ip[i] |= byte(r.U64()) &^ nw.Mask[i]
						}
					} else if ip.IsUnspecified() {
						ip[len(ip)-1] |= 1 &^ nw.Mask[len(ip)-1]
					}
					pool = append(pool, net.JoinHostPort(ip.String(), port))
				}
			}
		}
	}
	add(ch.start)
	for _, s := range ch.steps {
		add(s.pol)
	}
	pool = append(pool, "ok.test:"+port, "blocked.test:"+port, "loop.test:"+port, "rebind.test:"+port, "localhost:"+port, "x.blocked.com:"+port,
		"198.51.100.7:"+port, "127.0.0.1:"+port, "10.1.2.3:"+port, "[2001:db8:1::7]:"+port, "[::1]:"+port, "203.0.113.77:"+port)
	var outl []string
	for i := 0; i < n; i++ {
		if r.Chance(1, 6) {
			outl = append(outl, c06Frame(c06Hosts[r.Intn(len(c06Hosts))], port, r.Intn(3)))
		} else {
			outl = append(outl, pool[r.Intn(len(pool))])
		}
	}
	return outl
}

func c06RandomPolicy(r *vlib.Rand) c06Policy {
	var p c06Policy
	for _, s := range c06BlockPool {
		if r.Chance(1, 4) {
			p.block = append(p.block, s)
		}
	}
	if r.Chance(1, 2) {
		for _, s := range c06AllowPool {
			if r.Chance(1, 4) {
				p.allow = append(p.allow, s)
			}
		}
	}
	for _, s := range c06DomainPool {
		if r.Chance(1, 6) {
			p.domains = append(p.domains, s)
		}
	}
	p.public = r.Chance(1, 8)
	// the order of the entries of a list is a dimension of its own
	if r.Bool() {
		for _, l := range [][]string{p.block, p.allow, p.domains} {
			for i := len(l) - 1; i > 0; i-- {
				j := r.Intn(i + 1)
				l[i], l[j] = l[j], l[i]
			}
		}
	}
	return p
}

// reloadPart: every subset of failing loading steps for a single reload and for pairs of reloads over fixed
// policy pairs that disagree on many addresses; then random chains of random policies
func (w *c06World) reloadPart(out *vlib.Out, r *vlib.Rand, freePort string) {
	subsets := []string{"", "c", "s", "g", "cs", "cg", "sg", "csg"}
	pairs := [][2]c06Policy{
		{c06FixedPolicies[0], c06FixedPolicies[2]},  // nothing -> blocklist + patterns
		{c06FixedPolicies[2], c06FixedPolicies[0]},  // … and back
		{c06FixedPolicies[1], c06FixedPolicies[3]},  // shipped blocklist -> allowlist
		{c06FixedPolicies[3], c06FixedPolicies[1]},  // allowlist -> blocklist
		{c06FixedPolicies[4], c06FixedPolicies[9]},  // allowlist of one host -> blocklist + patterns
		{c06FixedPolicies[2], c06FixedPolicies[11]}, // -> public addresses under an allowlist
		{c06FixedPolicies[5], c06FixedPolicies[7]},  // public addresses -> everything blocklisted
	}
	ports := []string{"443", freePort, "80"}
	per := vlib.Budget(5, 14)
	for pi, pr := range pairs {
		for _, f1 := range subsets {
			ch := w.newChain(pr[0])
			w.reload(out, ch, c06Step{pol: pr[1], fails: f1})
			for _, c := range w.reloadCoverts(r, ch, ports[pi%len(ports)], per) {
				w.runReloaded(out, ch, c, r.Intn(2), "\x00")
			}
			// a second reload back to the first policy, every subset again (thorough) / one random subset (quick)
			for _, f2 := range subsets {
				if vlib.Tier() != "thorough" && !r.Chance(1, 8) {
					continue
				}
				ch2 := w.newChain(pr[0])
				w.reload(out, ch2, c06Step{pol: pr[1], fails: f1})
				w.reload(out, ch2, c06Step{pol: pr[0], fails: f2})
				for _, c := range w.reloadCoverts(r, ch2, ports[pi%len(ports)], per) {
					w.runReloaded(out, ch2, c, r.Intn(2), "\x00")
				}
			}
		}
	}
	for i, n := 0, vlib.Budget(40, 1500); i < n; i++ {
		ch := w.newChain(c06RandomPolicy(r))
		port := []string{"80", "443", freePort, "65535"}[r.Intn(4)]
		for j, l := 0, r.Range(1, 4); j < l && !ch.dead; j++ {
			w.reload(out, ch, c06Step{pol: c06RandomPolicy(r), fails: subsets[r.Intn(len(subsets))]})
			for _, c := range w.reloadCoverts(r, ch, port, vlib.Budget(4, 8)) {
				dup := "\x00"
				if r.Chance(1, 3) {
					dup = fmt.Sprintf(c06DupPool[r.Intn(7)], 443)
				}
				w.runReloaded(out, ch, c, r.Intn(2), dup)
			}
		}
	}
}
