//go:build verif

package lib

// C06, growth: the address-literal functions of the standard library that ParseOrResolveBlocklisted,
// ParseBlocklists and net.Dial stand on are modelled in Lean (CJ/Model/NetAddr.lean) instead of being
// handed to the model as per-case answers.  This part
//
//   - runs netip.ParseAddr / net.ParseIP / net.SplitHostPort / strconv.ParseUint(.,10,16) / net.ParseCIDR /
//     the literal path of net.ResolveIPAddr on one string (line `netaddr|s|`), IP.String / IsUnspecified /
//     ParseIP∘String on 4- and 16-byte addresses (`netaddr|ip|`), ParseCIDR + Contains (`netaddr|con|`) and
//     JoinHostPort + SplitHostPort (`netaddr|jhp|`) next to the Lean functions on structured, mutated and
//     malformed inputs;
//   - runs the real ParseBlocklists + ParseOrResolveBlocklisted on configurations given as *text* and covert
//     strings with literal hosts (line `cadmit|`): the Lean side decides from the text alone
//     (CJ.CovertLit.admitLit), no library answer is on the line.  The oracle judges the real answer with the
//     harness' own integer arithmetic on the configured prefixes (no IPNet.Contains).
//
// Strings that are not valid UTF-8 stay with the answer-carrying `covert|` line (the Lean model reads characters).

import (
	"encoding/hex"
	"fmt"
	"math/big"
	"net"
	"net/netip"
	"strconv"
	"strings"
	"unicode/utf8"

	"github.com/refraction-networking/conjure/internal/vlib"
)

var c06naCorpus = []string{
	"", "::", "::1", "1.2.3.4", "01.2.3.4", "1.2.3.04", "1.2.3.00", "0.0.0.0", "256.1.1.1", "1.2.3.256", "1.2.3", "1.2.3.4.5", "1..2.3", ".1.2.3", "1.2.3.",
	"1.2.3.4.", "1.2.3.a", "0001.2.3.4", "::ffff:1.2.3.4", "::1.2.3.4", "1:2:3:4:5:6:1.2.3.4", "1:2:3:4:5:6:7:1.2.3.4", "1:2:3:4:5:1.2.3.4", "1:2:3:4:5:6:7:8",
	"1:2:3:4:5:6:7:8::", "::1:2:3:4:5:6:7:8", "1::2:3:4:5:6:7:8", "1:2:3:4::5:6:7:8", "1::2::3", "12345::", "1234::", "fe80::1%eth0", "fe80::1%", "%eth0", "1.2.3.4%eth0",
	"::%eth0", "::%", "fe80::1%%", "fe80::1%eth0%x", "[::1]:80", "[::1]", "[::1]:", "::1:80", "a:80", ":80", "a:", ":", "a:b:80", "[a]:b]:80", "[[a]:80", "[a]b:80", "[a]::80",
	"[a:80", "a]:80", "a[:80", "[]:80", "[:]:80", "[::1%eth0]:80", "[1.2.3.4]:80", "10.0.0.0/8", "10.0.0.0/08", "10.0.0.0/008", "10.0.0.0/33", "10.0.0.0/32", "10.0.0.0/0",
	"10.0.0.0/", "/8", "/", "10.0.0.0//8", "10.0.0.0/8/8", "::/0", "::/128", "::/129", "::ffff:10.0.0.0/104", "::ffff:10.0.0.0/96", "::ffff:10.0.0.0/90", "::ffff:0:0/96",
	"1.2.3.4/-1", "1.2.3.4/+8", "1.2.3.4/99999999999", "1.2.3.4/16777215", "1.2.3.4/16777214", "fe80::1%eth0/64", "10.1.2.3/8", "2001:db8::1/33", "65535", "65536", "0", "00080", "+80", "-80", "8_0",
	"99999999999999999999", "000000000000000000000000000080", "ＡＢ", "1.2.3.４", "ABCD:EF01::", "abcd:ef01::g", ":::", "::1::", "1:", ":1", "0:0:0:0:0:0:0:0", "0:0:0:0:0:0:0:0:0",
	"::0.0.0.0", "::ffff:0.0.0.0", "1.2.3.4:80", "::ffff:1.2.3", "::ffff:1.2.3.4.5", "::ffff:01.2.3.4", "1::1.2.3.4", "1:2:3:4:5:6:7::1.2.3.4", "::1.2.3.4:5", "0::0", "00000::", "0000::",
	"a:b:c:d:e:f:0:1", "A:B:C:D:E:F:0:1", "1:0:0:2:0:0:0:3", "1:0:0:0:2:0:0:3", "0:0:1:0:0:1:0:0", "1:2:3:4:5:6:7:0", "0:1:2:3:4:5:6:7", "1:0:2:0:3:0:4:0", " 1.2.3.4", "1.2.3.4 ", "1.2.3.4\x00",
	"[::ffff:1.2.3.4]:443", "[2001:DB8::1]:443", "[2001:db8:0:0:0:0:0:1]:443", "localhost:80", "example.com:443", "example.com", "[example.com]:443", "1.2.3.4:http", "1.2.3.4:", "1.2.3.4:080",
}

func c06naHexB(b []byte) string {
	if len(b) == 0 {
		return "-"
	}
	return hex.EncodeToString(b)
}

// a 16-byte address with interesting structure
func c06naIP16(r *vlib.Rand) []byte {
	b := r.Bytes(16)
	switch r.Intn(8) {
	case 0: // zero groups sprinkled in
		for g := 0; g < 8; g++ {
			if r.Chance(3, 5) {
				b[2*g], b[2*g+1] = 0, 0
			}
		}
	case 1: // small groups
		for g := 0; g < 8; g++ {
			switch r.Intn(4) {
			case 0:
				b[2*g], b[2*g+1] = 0, 0
			case 1:
				b[2*g] = 0
			case 2:
				b[2*g], b[2*g+1] = 0, b[2*g+1]&15
			}
		}
	case 2: // IPv4-mapped
		copy(b, []byte{0, 0, 0, 0, 0, 0, 0, 0, 0, 0, 0xff, 0xff})
	case 3: // IPv4-compatible / almost mapped
		copy(b, []byte{0, 0, 0, 0, 0, 0, 0, 0, 0, 0, 0xff, byte(0xfe + r.Intn(2))})
	case 4:
		for i := range b {
			b[i] = 0
		}
		if r.Bool() {
			b[r.Intn(16)] = byte(1 + r.Intn(255))
		}
	case 5:
		copy(b, []byte{0x20, 0x01, 0x0d, 0xb8, 0, byte(r.Intn(2))})
		for i := 6; i < 14; i++ {
			if r.Bool() {
				b[i] = 0
			}
		}
	case 6: // two zero runs of related lengths
		for i := range b {
			b[i] = byte(1 + r.Intn(255))
		}
		a, l1 := r.Intn(8), 1+r.Intn(4)
		c, l2 := r.Intn(8), 1+r.Intn(4)
		for g := a; g < a+l1 && g < 8; g++ {
			b[2*g], b[2*g+1] = 0, 0
		}
		for g := c; g < c+l2 && g < 8; g++ {
			b[2*g], b[2*g+1] = 0, 0
		}
	}
	return b
}

// some textual form of a 16-byte address (not necessarily a valid one)
func c06naText16(r *vlib.Rand, b []byte) string {
	var g [8]uint16
	for i := 0; i < 8; i++ {
		g[i] = uint16(b[2*i])<<8 | uint16(b[2*i+1])
	}
	fm := []string{"%x", "%X", "%04x", "%02x", "%05x"}[r.Intn(5)]
	if r.Chance(3, 4) {
		fm = "%x"
	}
	part := func(lo, hi int) string {
		var p []string
		for i := lo; i < hi; i++ {
			p = append(p, fmt.Sprintf(fm, g[i]))
		}
		return strings.Join(p, ":")
	}
	tail := 8
	suffix := ""
	if r.Chance(1, 4) { // embedded IPv4
		tail = 6
		suffix = net.IP(b[12:16]).String()
	}
	var s string
	switch r.Intn(4) {
	case 0:
		s = net.IP(b).String()
		suffix, tail = "", 8
	case 1: // full
		s = part(0, tail)
	default: // an ellipsis over groups [a, c) — zero or not, possibly empty
		a := r.Intn(tail + 1)
		c := a + r.Intn(tail+1-a)
		if r.Chance(4, 5) { // usually over zeros only
			c = a
			for c < tail && g[c] == 0 {
				c++
			}
		}
		s = part(0, a) + "::" + part(c, tail)
		if c == tail && suffix != "" {
			s = part(0, a) + "::"
		}
	}
	if suffix != "" {
		if s != "" && !strings.HasSuffix(s, ":") {
			s += ":"
		}
		s += suffix
	}
	if r.Chance(1, 8) {
		s += "%" + []string{"lo", "eth0", "1", "", "a%b"}[r.Intn(5)]
	}
	return s
}

func c06naText4(r *vlib.Rand, b []byte) string {
	switch r.Intn(8) {
	case 0:
		return fmt.Sprintf("%d.%d.%d.%03d", b[0], b[1], b[2], b[3])
	case 1:
		return fmt.Sprintf("%d.%d.%d", b[0], b[1], b[2])
	case 2:
		return fmt.Sprintf("%d.%d.%d.%d", int(b[0])+r.Intn(3)*100, b[1], b[2], int(b[3])+r.Intn(2)*200)
	default:
		return net.IP(b).String()
	}
}

func c06naMutate(r *vlib.Rand, s string) string {
	b := []byte(s)
	const alpha = "[]:%./0 x19afAF-+"
	for k := 1 + r.Intn(2); k > 0 && len(b) > 0; k-- {
		switch r.Intn(3) {
		case 0:
			b[r.Intn(len(b))] = alpha[r.Intn(len(alpha))]
		case 1:
			j := r.Intn(len(b) + 1)
			b = append(b[:j], append([]byte{alpha[r.Intn(len(alpha))]}, b[j:]...)...)
		default:
			j := r.Intn(len(b))
			b = append(b[:j], b[j+1:]...)
		}
	}
	return string(b)
}

func c06naString(out *vlib.Out, r *vlib.Rand) string {
	var s string
	switch k := r.Intn(12); {
	case k < 3:
		s = c06naText16(r, c06naIP16(r))
		out.Count("netaddr-gen:v6-text")
	case k < 5:
		s = c06naText4(r, r.Bytes(4))
		out.Count("netaddr-gen:v4-text")
	case k < 6:
		s = c06RandomLiteral(r)
		out.Count("netaddr-gen:literal")
	case k < 7:
		s = strconv.Itoa(r.Intn(70000))
		if r.Chance(1, 4) {
			s = strings.Repeat("0", r.Intn(4)) + s
		}
		out.Count("netaddr-gen:number")
	case k < 10:
		s = c06naMutate(r, c06naCorpus[r.Intn(len(c06naCorpus))])
		out.Count("netaddr-gen:mutated-corpus")
	default:
		const alpha = "0123456789abcdefABCDEFg:.%[]/ x"
		n := r.Intn(14)
		b := make([]byte, n)
		for i := range b {
			b[i] = alpha[r.Intn(len(alpha))]
		}
		s = string(b)
		out.Count("netaddr-gen:alphabet-soup")
	}
	// frames
	switch r.Intn(10) {
	case 0:
		s = "[" + s + "]:" + strconv.Itoa(r.Intn(70000))
		out.Count("netaddr-frame:bracket-port")
	case 1:
		s = s + ":" + strconv.Itoa(r.Intn(70000))
		out.Count("netaddr-frame:port")
	case 2:
		s = s + "/" + strconv.Itoa(r.Intn(140))
		out.Count("netaddr-frame:prefix")
	case 3:
		s = c06naMutate(r, s)
		out.Count("netaddr-frame:mutated")
	default:
		out.Count("netaddr-frame:none")
	}
	return s
}

func c06naSplit(s string) string {
	h, p, err := net.SplitHostPort(s)
	if err != nil {
		return "E"
	}
	return c06Hex(h) + "," + c06Hex(p)
}

// the answers of the real library about one string
// c06naLine picks the line family for a string: a string that is not valid UTF-8 (or holds a line break) goes to
// the byte reading of the model (`netaddrb|` / `cadmitb|`: CJ.NetAddrBytes), a valid one to the character reading
// and, one in eight (by its bytes, so that a replay takes the same way), to both.
func c06naLine(out *vlib.Out, fam string, ss ...string) (chars, bytes bool) {
	sum, valid := 0, true
	for _, s := range ss {
		if !utf8.ValidString(s) || strings.ContainsAny(s, "\n\r") {
			valid = false
		}
		for i := 0; i < len(s); i++ {
			sum += int(s[i])
		}
	}
	if !valid {
		out.Count(fam + "b:not-utf8-or-newline")
		return false, true
	}
	if sum%8 == 3 {
		out.Count(fam + "b:valid-utf8-sampled")
		return true, true
	}
	return true, false
}

func c06naOnString(out *vlib.Out, s string) {
	chars, bytes := c06naLine(out, "netaddr", s)
	var sb strings.Builder
	a, err := netip.ParseAddr(s)
	switch {
	case err != nil:
		sb.WriteString("pa=E")
	case a.Is4():
		b := a.As4()
		sb.WriteString("pa=4," + c06naHexB(b[:]))
		out.Count("netaddr:ParseAddr-v4")
	default:
		b := a.As16()
		sb.WriteString("pa=6," + c06naHexB(b[:]) + "," + c06Hex(a.Zone()))
		out.Count("netaddr:ParseAddr-v6")
	}
	if ip := net.ParseIP(s); ip == nil {
		sb.WriteString(";pip=E")
	} else {
		sb.WriteString(";pip=" + c06naHexB(ip))
	}
	sp := c06naSplit(s)
	if sp != "E" {
		out.Count("netaddr:SplitHostPort-ok")
	}
	sb.WriteString(";shp=" + sp)
	if v, err := strconv.ParseUint(s, 10, 16); err != nil {
		sb.WriteString(";u16=E")
	} else {
		sb.WriteString(";u16=" + strconv.FormatUint(v, 10))
		out.Count("netaddr:ParseUint-ok")
	}
	if _, n, err := net.ParseCIDR(s); err != nil {
		sb.WriteString(";cidr=E")
	} else {
		sb.WriteString(";cidr=" + c06naHexB(n.IP) + "/" + c06naHexB(n.Mask))
		out.Count("netaddr:ParseCIDR-ok")
	}
	// the literal path of ResolveIPAddr: the real call is made whenever it cannot reach the resolver
	switch {
	case s == "" || err == nil:
		ra, rerr := net.ResolveIPAddr("ip", s)
		switch {
		case rerr != nil || ra == nil:
			sb.WriteString(";res=E")
		case ra.IP == nil:
			sb.WriteString(";res=N")
		default:
			sb.WriteString(";res=A," + c06naHexB(ra.IP) + "," + c06Hex(ra.Zone))
		}
	default:
		sb.WriteString(";res=name")
	}
	if chars {
		out.Case("netaddr|s|"+c06Hex(s), sb.String(), err == nil || sp != "E")
	}
	if bytes {
		out.Case("netaddrb|s|"+c06Hex(s), sb.String(), err == nil || sp != "E")
	}
}

func c06naOnIP(out *vlib.Out, b []byte) {
	ip := net.IP(b)
	txt := ip.String()
	back := net.ParseIP(txt)
	bs := "E"
	if back != nil {
		bs = c06naHexB(back)
	}
	// the contract accepted_parses_back / dialed_is_checked_literal lean on: ParseIP ∘ IP.String is the identity
	out.Checked()
	if back == nil || !back.Equal(ip) {
		c06Fail(out, "C06:stdlib-parse-after-string", fmt.Sprintf("ParseIP(IP.String()) of % x gave %v (text %q)", b, back, txt), "")
	}
	if ip.To4() != nil {
		out.Count("netaddr:String-dotted")
	} else if strings.Contains(txt, "::") {
		out.Count("netaddr:String-compressed")
	} else {
		out.Count("netaddr:String-full")
	}
	out.Case("netaddr|ip|"+c06naHexB(b), "str="+c06Hex(txt)+";uns="+vlib.B(ip.IsUnspecified())+";back="+bs, true)
}

func c06naOnContains(out *vlib.Out, cidr string, b []byte) {
	chars, bytes := c06naLine(out, "netaddr", cidr)
	_, n, err := net.ParseCIDR(cidr)
	ans := "E"
	if err == nil {
		ans = vlib.B(n.Contains(net.IP(b)))
		out.Count("netaddr:Contains-" + ans)
	}
	if chars {
		out.Case("netaddr|con|"+c06Hex(cidr)+"|"+c06naHexB(b), ans, err == nil)
	}
	if bytes {
		out.Case("netaddrb|con|"+c06Hex(cidr)+"|"+c06naHexB(b), ans, err == nil)
	}
}

// a random CIDR in one of the textual forms ParseCIDR accepts (and some it does not)
func c06naCIDR(r *vlib.Rand) (string, []byte, int) {
	if r.Bool() {
		b := r.Bytes(4)
		n := r.Intn(33)
		switch r.Intn(6) {
		case 0: // IPv4-mapped spelling of an IPv4 network
			return fmt.Sprintf("::ffff:%s/%d", net.IP(b).String(), 96+n), b, n
		case 1:
			return fmt.Sprintf("::ffff:%s/%d", net.IP(b).String(), 80+r.Intn(20)), b, n
		}
		return fmt.Sprintf("%s/%d", net.IP(b).String(), n), b, n
	}
	b := c06naIP16(r)
	n := r.Intn(129)
	return fmt.Sprintf("%s/%d", c06naText16(r, b), n), b, n
}

// an address at a chosen distance from the prefix boundary of (b, n): equal on the first n bits, or differing
// in exactly one bit before / at / after the boundary
func c06naNear(r *vlib.Rand, b []byte, n int) []byte {
	x := append([]byte(nil), b...)
	for i := range x { // random host part
		for bit := 0; bit < 8; bit++ {
			if i*8+bit >= n && r.Bool() {
				x[i] ^= 0x80 >> bit
			}
		}
	}
	if len(x)*8 > 0 && r.Chance(2, 3) {
		k := n - 1 - r.Intn(3)
		if r.Bool() {
			k = r.Intn(len(x) * 8)
		}
		if k >= 0 && k < len(x)*8 {
			x[k/8] ^= 0x80 >> (k % 8)
		}
	}
	return x
}

// ---- ground truth: the configured prefix as integers, evaluated without the net package's IPNet ----

type c06naNet struct {
	v4   bool
	bits int
	val  *big.Int // the address, 32 or 128 bits
}

// c06naGround parses "addr/len" with the harness' own rules: an IPv4 network is one written in dotted form, or
// in IPv4-mapped form with a length of at least 96 (the mapped prefix is then entirely inside the network bits)
func c06naGround(cidr string) (c06naNet, bool) {
	i := strings.IndexByte(cidr, '/')
	if i < 0 {
		return c06naNet{}, false
	}
	a, err := netip.ParseAddr(cidr[:i])
	if err != nil || a.Zone() != "" {
		return c06naNet{}, false
	}
	l, err := strconv.Atoi(cidr[i+1:])
	if err != nil || l < 0 || strings.ContainsAny(cidr[i+1:], "+-") {
		return c06naNet{}, false
	}
	switch {
	case a.Is4():
		if l > 32 {
			return c06naNet{}, false
		}
		b := a.As4()
		return c06naNet{true, l, new(big.Int).SetBytes(b[:])}, true
	case l > 128:
		return c06naNet{}, false
	case a.Is4In6() && l >= 96:
		b := a.As16()
		return c06naNet{true, l - 96, new(big.Int).SetBytes(b[12:])}, true
	default:
		b := a.As16()
		return c06naNet{false, l, new(big.Int).SetBytes(b[:])}, true
	}
}

func (n c06naNet) has(ip net.IP) bool {
	total := 128
	var x *big.Int
	if ip4 := ip.To4(); ip4 != nil {
		if !n.v4 {
			return false
		}
		total, x = 32, new(big.Int).SetBytes(ip4)
	} else {
		if n.v4 {
			return false
		}
		x = new(big.Int).SetBytes(ip.To16())
	}
	sh := uint(total - n.bits)
	return new(big.Int).Rsh(x, sh).Cmp(new(big.Int).Rsh(n.val, sh)) == 0
}

func c06naPermitted(block, allow []string, ip net.IP) bool {
	if len(allow) > 0 {
		for _, c := range allow {
			if n, ok := c06naGround(c); ok && n.has(ip) {
				return true
			}
		}
		return false
	}
	for _, c := range block {
		if n, ok := c06naGround(c); ok && n.has(ip) {
			return false
		}
	}
	return true
}

func c06naList(l []string) string {
	if len(l) == 0 {
		return "-"
	}
	var h []string
	for _, s := range l {
		h = append(h, hex.EncodeToString([]byte(s)))
	}
	return strings.Join(h, ",")
}

// one admission decided from text: real ParseBlocklists + ParseOrResolveBlocklisted against CJ.CovertLit.admitLit
func c06naAdmit(out *vlib.Out, block, allow []string, provided string) {
	chars, bytes := c06naLine(out, "cadmit", provided)
	replay := "c06na|" + c06naList(block) + "|" + c06naList(allow) + "|" + c06Hex(provided) + "\n"
	line := "cadmit|" + c06naList(block) + "|" + c06naList(allow) + "|" + c06Hex(provided)
	lineB := "cadmitb|" + strings.TrimPrefix(line, "cadmit|")
	emit := func(ans string, nontrivial bool) {
		if chars {
			out.Case(line, ans, nontrivial)
		}
		if bytes {
			out.Case(lineB, ans, nontrivial)
		}
	}
	conf := &RegConfig{CovertBlocklistSubnets: append([]string(nil), block...), CovertAllowlistSubnets: append([]string(nil), allow...)}
	if err := conf.ParseBlocklists(); err != nil {
		out.Count("cadmit:configuration-refused")
		emit("badcidr", false)
		return
	}
	// a host name that the call would resolve is outside this line (the resolver's answer is not text)
	host, port, serr := net.SplitHostPort(provided)
	if net.ParseIP(provided) == nil && serr == nil && host != "" {
		if _, perr := strconv.ParseUint(port, 10, 16); perr == nil {
			if _, aerr := netip.ParseAddr(host); aerr != nil {
				out.Count("cadmit:name")
				emit("name", false)
				return
			}
		}
	}
	got, lookup := conf.ParseOrResolveBlocklisted(provided)
	emit(c06Hex(got)+"|"+vlib.B(lookup), got != "")

	// ---- the property, on the real answer
	out.Checked()
	if got != "" {
		out.Count("cadmit:accepted")
		oh, op, err := net.SplitHostPort(got)
		oip := net.ParseIP(oh)
		if err != nil || oip == nil {
			c06Fail(out, "C06:literal-out-not-literal", fmt.Sprintf("%q accepted as %q, which is not a literal IP:port", provided, got), replay)
			return
		}
		if _, err := strconv.ParseUint(op, 10, 16); err != nil {
			c06Fail(out, "C06:literal-out-not-literal", fmt.Sprintf("%q accepted as %q: port is not a uint16", provided, got), replay)
			return
		}
		if !c06naPermitted(block, allow, oip) {
			c06Fail(out, "C06:literal-accepted-forbidden", fmt.Sprintf("%q accepted as %q under blocklist %q allowlist %q: the configured prefixes forbid %v", provided, got, block, allow, oip), replay)
			return
		}
		// the address that was checked is the address the client named
		if hip, err := netip.ParseAddr(host); serr == nil && err == nil && !net.IP(hip.AsSlice()).Equal(oip) {
			c06Fail(out, "C06:literal-accepted-other-address", fmt.Sprintf("%q accepted as %q: another address", provided, got), replay)
			return
		}
	} else {
		out.Count("cadmit:rejected")
	}
	// a well-formed permitted IP:port is accepted unchanged
	if serr == nil {
		if ip := net.ParseIP(host); ip != nil && !ip.IsUnspecified() {
			if _, perr := strconv.ParseUint(port, 10, 16); perr == nil && provided == net.JoinHostPort(ip.String(), port) && c06naPermitted(block, allow, ip) {
				out.Count("cadmit:canonical-permitted")
				if got != provided {
					c06Fail(out, "C06:literal-not-unchanged", fmt.Sprintf("well-formed permitted %q answered %q under blocklist %q allowlist %q", provided, got, block, allow), replay)
				}
			}
		}
	}
}

var c06naBadCIDRs = []string{"10.0.0.0/33", "fe80::1%eth0/64", "10.0.0.0", "10.0.0/8", "::/129", "1.2.3.4/+8", "010.0.0.0/8", ""}

func c06naPolicy(out *vlib.Out, r *vlib.Rand) (block, allow []string) {
	pick := func(pool []string) string {
		switch r.Intn(4) {
		case 0:
			c, _, _ := c06naCIDR(r)
			return c
		default:
			return pool[r.Intn(len(pool))]
		}
	}
	for k := r.Intn(5); k > 0; k-- {
		block = append(block, pick(c06BlockPool))
	}
	if r.Chance(1, 3) {
		for k := 1 + r.Intn(3); k > 0; k-- {
			allow = append(allow, pick(c06AllowPool))
		}
	}
	if r.Chance(1, 25) {
		bad := c06naBadCIDRs[r.Intn(len(c06naBadCIDRs))]
		if r.Bool() {
			block = append(block, bad)
		} else {
			allow = append(allow, bad)
		}
	}
	return
}

// covert strings aimed at the entries of the policy: addresses at and around the prefix boundaries, in canonical
// and other textual forms
func c06naCovert(r *vlib.Rand, block, allow []string) string {
	all := append(append([]string(nil), block...), allow...)
	port := []string{"80", "443", "65535", "0", "65536", "080", "", "http"}[r.Intn(8)]
	if r.Chance(3, 4) {
		port = []string{"80", "443", "65535"}[r.Intn(3)]
	}
	var host string
	switch k := r.Intn(10); {
	case k < 5 && len(all) > 0:
		c := all[r.Intn(len(all))]
		if _, n, err := net.ParseCIDR(c); err == nil {
			ones, _ := n.Mask.Size()
			x := c06naNear(r, []byte(n.IP), ones)
			if r.Chance(1, 5) && len(x) == 4 {
				host = "::ffff:" + net.IP(x).String()
			} else if r.Chance(1, 5) && len(x) == 16 {
				host = c06naText16(r, x)
			} else {
				host = net.IP(x).String()
			}
		} else {
			host = c06RandomLiteral(r)
		}
	case k < 7:
		host = c06RandomLiteral(r)
	case k < 8:
		host = c06naText16(r, c06naIP16(r))
	case k < 9:
		host = c06Hosts[r.Intn(len(c06Hosts))]
	default:
		return c06naMutate(r, c06Frame(c06RandomLiteral(r), port, 0))
	}
	return c06Frame(host, port, r.Intn(3))
}

func (w *c06World) netAddrPart(out *vlib.Out, r *vlib.Rand) {
	for _, s := range c06naCorpus {
		c06naOnString(out, s)
		c06naOnString(out, "["+s+"]:80")
		c06naOnString(out, s+":80")
		c06naOnString(out, s+"/24")
		c06naOnString(out, s+"%eth0")
	}
	for _, h := range c06Hosts {
		c06naOnString(out, h)
		for _, p := range c06Ports {
			c06naOnString(out, c06Frame(h, p, 0))
		}
	}
	for _, p := range c06Ports {
		c06naOnString(out, p)
	}
	for i, n := 0, vlib.Budget(6000, 400000); i < n; i++ {
		c06naOnString(out, c06naString(out, r))
	}
	// every position and length of one zero run, and pairs of runs: the choice of the run IP.String compresses
	for a := 0; a <= 8; a++ {
		for l := 0; a+l <= 8; l++ {
			for c := 0; c <= 8; c++ {
				for l2 := 0; c+l2 <= 8 && l2 <= 3; l2++ {
					b := make([]byte, 16)
					for g := 0; g < 8; g++ {
						if (g >= a && g < a+l) || (g >= c && g < c+l2) {
							continue
						}
						b[2*g+1] = byte(g + 1)
					}
					c06naOnIP(out, b)
				}
			}
		}
	}
	for i, n := 0, vlib.Budget(3000, 200000); i < n; i++ {
		if r.Chance(1, 4) {
			c06naOnIP(out, r.Bytes(4))
		} else {
			c06naOnIP(out, c06naIP16(r))
		}
	}
	for i, n := 0, vlib.Budget(3000, 200000); i < n; i++ {
		cidr, b, bits := c06naCIDR(r)
		x := c06naNear(r, b, bits)
		switch r.Intn(6) {
		case 0: // the other family / the mapped spelling
			if len(x) == 4 {
				x = append([]byte{0, 0, 0, 0, 0, 0, 0, 0, 0, 0, 0xff, 0xff}, x...)
			} else {
				x = x[12:]
			}
		case 1:
			x = r.Bytes(len(x))
		}
		c06naOnContains(out, cidr, x)
	}
	for i, n := 0, vlib.Budget(800, 50000); i < n; i++ {
		var host string
		switch r.Intn(4) {
		case 0:
			host = net.IP(r.Bytes(4)).String()
		case 1:
			host = net.IP(c06naIP16(r)).String()
		default:
			host = c06naString(out, r)
		}
		port := strconv.Itoa(r.Intn(70000))
		if r.Chance(1, 5) {
			port = c06naString(out, r)
		}
		chars, bytes := c06naLine(out, "netaddr", host, port)
		j := net.JoinHostPort(host, port)
		if chars {
			out.Case("netaddr|jhp|"+c06Hex(host)+"|"+c06Hex(port), c06Hex(j)+";"+c06naSplit(j), true)
		}
		if bytes {
			out.Case("netaddrb|jhp|"+c06Hex(host)+"|"+c06Hex(port), c06Hex(j)+";"+c06naSplit(j), true)
		}
	}

	// ---- admission decided from text
	var block, allow []string
	for i, n := 0, vlib.Budget(8000, 500000); i < n; i++ {
		if i%8 == 0 {
			block, allow = c06naPolicy(out, r)
		}
		c06naAdmit(out, block, allow, c06naCovert(r, block, allow))
	}
	for _, pol := range c06FixedPolicies {
		for _, h := range c06Hosts {
			c06naAdmit(out, pol.block, pol.allow, c06Frame(h, "443", 0))
		}
	}
}

func (w *c06World) netAddrReplay(out *vlib.Out, line string) bool {
	f := strings.Split(line, "|")
	if len(f) != 4 {
		return false
	}
	dec := func(s string) []string {
		if s == "-" {
			return nil
		}
		var l []string
		for _, h := range strings.Split(s, ",") {
			b, _ := hex.DecodeString(h)
			l = append(l, string(b))
		}
		return l
	}
	prov := ""
	if f[3] != "-" {
		b, _ := hex.DecodeString(f[3])
		prov = string(b)
	}
	block, allow := dec(f[1]), dec(f[2])
	c06naAdmit(out, block, allow, prov)
	fmt.Printf("REPLAY covert %q blocklist %q allowlist %q\n", prov, block, allow)
	return true
}
