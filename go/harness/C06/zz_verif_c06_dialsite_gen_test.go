//go:build verif

package lib

// Extractor for C06: which strings reach a dial on the connection path, across package borders.
//
// The step order of ingestRegistration (C06Ingest.lean) is a fact about package lib only.  The wrapping
// transports are served from cmd/application (handleNewConn -> cj.Proxy), which is another package in another
// module.  This extractor reads the non-test sources of
//
//	cmd/application, pkg/station/lib, pkg/transports/wrapping/*, pkg/transports/connecting/*
//
// and writes CJ/Gen/C06DialSites.lean:
//
//   - dialSites: every call whose callee is named Dial* (net.Dial, d.DialContext, reuseport.Dial, x.Dial ..):
//     (directory, enclosing function, receiver type of that function or "", callee as written,
//     arguments as written, "param" if the root identifier of the last argument .. is judged below);
//   - addrRoot: for each site, the root identifier of the address argument (last string-ish argument =
//     argument number 1 for the two-argument forms, the last one for reuseport's three-argument form) and
//     whether that identifier is a parameter of the enclosing function that is never assigned in it;
//   - proxyCalls: every call of a function named Proxy: (directory, enclosing function, first argument as written,
//     "param" if it is a never-assigned parameter of the enclosing function declaration, else "local");
//   - regFlows: for every Proxy call whose first argument is a local identifier: every assignment to that
//     identifier in the enclosing function (right-hand side as written), and for a right-hand side that is a
//     type assertion `y.(T)`: every assignment to y (callee name of its right-hand side);
//   - covertWrites: every assignment to a `.Covert` field or a composite-literal key `Covert:` in those
//     directories: (directory, function, right-hand side as written).
//
// Theorem CJ.Props.C06Sites.only_checked_covert_reaches_a_dial (decide) states over these lists what the
// model's `World.proxyDial` assumes: the one tcp dial of the station takes `reg.Covert` of Proxy's own first
// parameter, Proxy is handed either a never-assigned parameter (dial-back) or the registration object a
// transport's WrapConnection returned, and nothing outside package lib writes a Covert field.

import (
	"bytes"
	"fmt"
	"go/ast"
	"go/parser"
	"go/printer"
	"go/token"
	"os"
	"path/filepath"
	"sort"
	"strings"
	"testing"
)

type c06Site struct {
	dir, fn, recv, callee string
	args                  []string
	root, rootKind        string
}

type c06DialFacts struct {
	sites        []c06Site
	proxyCalls   [][4]string
	regFlows     [][4]string // dir, func, kind (assign|source), text
	covertWrites [][3]string
}

func c06Src(fset *token.FileSet, n ast.Node) string {
	var b bytes.Buffer
	_ = printer.Fprint(&b, fset, n)
	return strings.Join(strings.Fields(b.String()), " ")
}

func c06RootIdent(e ast.Expr) string {
	for {
		switch x := e.(type) {
		case *ast.Ident:
			return x.Name
		case *ast.SelectorExpr:
			e = x.X
		case *ast.CallExpr:
			e = x.Fun
		case *ast.ParenExpr:
			e = x.X
		case *ast.StarExpr:
			e = x.X
		case *ast.UnaryExpr:
			e = x.X
		case *ast.IndexExpr:
			e = x.X
		default:
			return ""
		}
	}
}

func c06RecvType(fd *ast.FuncDecl) string {
	if fd.Recv == nil || len(fd.Recv.List) == 0 {
		return ""
	}
	t := fd.Recv.List[0].Type
	if s, ok := t.(*ast.StarExpr); ok {
		t = s.X
	}
	if id, ok := t.(*ast.Ident); ok {
		return id.Name
	}
	return "?"
}

// every assignment (=, :=, var, range) whose left side is the bare identifier `name` inside fd, as
// right-hand-side expressions (nil for forms without one)
func c06AssignsTo(fd *ast.FuncDecl, name string) []ast.Expr {
	var out []ast.Expr
	ast.Inspect(fd.Body, func(n ast.Node) bool {
		switch s := n.(type) {
		case *ast.AssignStmt:
			for i, l := range s.Lhs {
				if id, ok := l.(*ast.Ident); ok && id.Name == name {
					if len(s.Rhs) == len(s.Lhs) {
						out = append(out, s.Rhs[i])
					} else if len(s.Rhs) == 1 {
						out = append(out, s.Rhs[0])
					} else {
						out = append(out, nil)
					}
				}
			}
		case *ast.RangeStmt:
			for _, l := range []ast.Expr{s.Key, s.Value} {
				if id, ok := l.(*ast.Ident); ok && id.Name == name {
					out = append(out, nil)
				}
			}
		case *ast.ValueSpec:
			for i, id := range s.Names {
				if id.Name == name && len(s.Values) > 0 {
					if len(s.Values) == len(s.Names) {
						out = append(out, s.Values[i])
					} else {
						out = append(out, s.Values[0])
					}
				}
			}
		case *ast.IncDecStmt:
			if id, ok := s.X.(*ast.Ident); ok && id.Name == name {
				out = append(out, nil)
			}
		case *ast.UnaryExpr:
			if s.Op == token.AND {
				if id, ok := s.X.(*ast.Ident); ok && id.Name == name {
					out = append(out, nil) // address taken: may be written through the pointer
				}
			}
		}
		return true
	})
	return out
}

func c06IsParam(fd *ast.FuncDecl, name string) bool {
	if fd.Type.Params == nil {
		return false
	}
	for _, f := range fd.Type.Params.List {
		for _, id := range f.Names {
			if id.Name == name {
				return true
			}
		}
	}
	return false
}

func c06IdentKind(fd *ast.FuncDecl, name string) string {
	if name == "" {
		return "none"
	}
	if c06IsParam(fd, name) && len(c06AssignsTo(fd, name)) == 0 {
		return "param"
	}
	return "local"
}

func c06ExtractDialSites(root string) (*c06DialFacts, error) {
	dirs := []string{"cmd/application", "pkg/station/lib"}
	for _, g := range []string{"pkg/transports/wrapping/*", "pkg/transports/connecting/*"} {
		m, _ := filepath.Glob(filepath.Join(root, g))
		sort.Strings(m)
		for _, d := range m {
			if st, err := os.Stat(d); err == nil && st.IsDir() {
				rel, _ := filepath.Rel(root, d)
				dirs = append(dirs, filepath.ToSlash(rel))
			}
		}
	}
	facts := &c06DialFacts{}
	for _, dir := range dirs {
		fset := token.NewFileSet()
		pkgs, err := parser.ParseDir(fset, filepath.Join(root, dir), func(fi os.FileInfo) bool {
			return !strings.HasSuffix(fi.Name(), "_test.go")
		}, 0)
		if err != nil {
			return nil, err
		}
		var pnames []string
		for n := range pkgs {
			pnames = append(pnames, n)
		}
		sort.Strings(pnames)
		for _, pn := range pnames {
			var fnames []string
			for n := range pkgs[pn].Files {
				fnames = append(fnames, n)
			}
			sort.Strings(fnames)
			for _, fnm := range fnames {
				for _, d := range pkgs[pn].Files[fnm].Decls {
					fd, ok := d.(*ast.FuncDecl)
					if !ok || fd.Body == nil {
						continue
					}
					ast.Inspect(fd.Body, func(n ast.Node) bool {
						switch x := n.(type) {
						case *ast.CallExpr:
							name := c06CallName(x)
							if strings.HasPrefix(name, "Dial") {
								s := c06Site{dir: dir, fn: fd.Name.Name, recv: c06RecvType(fd), callee: c06Src(fset, x.Fun)}
								for _, a := range x.Args {
									s.args = append(s.args, c06Src(fset, a))
								}
								// the address argument: the last argument that is not a literal / dialer / args bag
								// is not knowable without types; record the root of argument 1 for the (network, address)
								// forms and of the last argument otherwise
								var addr ast.Expr
								if len(x.Args) == 2 {
									addr = x.Args[1]
								} else if len(x.Args) > 0 {
									addr = x.Args[len(x.Args)-1]
								}
								if addr != nil {
									s.root = c06RootIdent(addr)
								}
								s.rootKind = c06IdentKind(fd, s.root)
								facts.sites = append(facts.sites, s)
							}
							if name == "Proxy" && len(x.Args) > 0 {
								arg := c06Src(fset, x.Args[0])
								kind := "expr"
								if id, ok := x.Args[0].(*ast.Ident); ok {
									kind = c06IdentKind(fd, id.Name)
									if kind == "local" {
										for _, rhs := range c06AssignsTo(fd, id.Name) {
											if rhs == nil {
												facts.regFlows = append(facts.regFlows, [4]string{dir, fd.Name.Name, "assign", "?"})
												continue
											}
											facts.regFlows = append(facts.regFlows, [4]string{dir, fd.Name.Name, "assign", c06Src(fset, rhs)})
											if ta, ok := rhs.(*ast.TypeAssertExpr); ok {
												if y, ok := ta.X.(*ast.Ident); ok {
													for _, r2 := range c06AssignsTo(fd, y.Name) {
														txt := "?"
														if c, ok := r2.(*ast.CallExpr); ok {
															txt = c06CallName(c)
														}
														facts.regFlows = append(facts.regFlows, [4]string{dir, fd.Name.Name, "source", txt})
													}
												} else {
													facts.regFlows = append(facts.regFlows, [4]string{dir, fd.Name.Name, "source", "?"})
												}
											}
										}
									}
								}
								facts.proxyCalls = append(facts.proxyCalls, [4]string{dir, fd.Name.Name, arg, kind})
							}
						case *ast.AssignStmt:
							for i, l := range x.Lhs {
								if c06IsCovertField(l) {
									rhs := "?"
									if len(x.Rhs) == len(x.Lhs) {
										rhs = c06Src(fset, x.Rhs[i])
									}
									facts.covertWrites = append(facts.covertWrites, [3]string{dir, fd.Name.Name, rhs})
								}
							}
						case *ast.KeyValueExpr:
							if id, ok := x.Key.(*ast.Ident); ok && id.Name == "Covert" {
								facts.covertWrites = append(facts.covertWrites, [3]string{dir, fd.Name.Name, c06Src(fset, x.Value)})
							}
						}
						return true
					})
				}
			}
		}
	}
	return facts, nil
}

func TestVerifC06GenDialSites(t *testing.T) {
	root := os.Getenv("VERIF_SCRATCH_REPO")
	if root == "" {
		root = "../../.."
	}
	f, err := c06ExtractDialSites(root)
	if err != nil {
		t.Fatal(err)
	}
	q := func(s string) string { return fmt.Sprintf("%q", s) }
	var sb strings.Builder
	sb.WriteString("/-! GENERATED by /verif/go/harness/C06/zz_verif_c06_dialsite_gen_test.go from the non-test files of cmd/application, pkg/station/lib, pkg/transports/{wrapping,connecting}/*. Do not edit. -/\n")
	sb.WriteString("namespace CJ.Gen.C06DialSites\n\n")
	sb.WriteString("/-- a call of a function named `Dial*` -/\nstructure Site where\n  dir : String\n  fn : String\n  recv : String\n  callee : String\n  args : List String\n  addrRoot : String\n  addrRootKind : String\nderiving DecidableEq, Repr\n\n")
	sb.WriteString("def dialSites : List Site := [\n")
	for i, s := range f.sites {
		var as []string
		for _, a := range s.args {
			as = append(as, q(a))
		}
		sep := ","
		if i == len(f.sites)-1 {
			sep = ""
		}
		fmt.Fprintf(&sb, "  ⟨%s, %s, %s, %s, [%s], %s, %s⟩%s\n", q(s.dir), q(s.fn), q(s.recv), q(s.callee), strings.Join(as, ", "), q(s.root), q(s.rootKind), sep)
	}
	sb.WriteString("]\n\n/-- every call of a function named `Proxy`: (directory, calling function, first argument, param | local | expr) -/\ndef proxyCalls : List (String × String × String × String) := [")
	for i, c := range f.proxyCalls {
		if i > 0 {
			sb.WriteString(", ")
		}
		fmt.Fprintf(&sb, "(%s, %s, %s, %s)", q(c[0]), q(c[1]), q(c[2]), q(c[3]))
	}
	sb.WriteString("]\n\n/-- where a local first argument of a `Proxy` call comes from: (directory, function, assign | source, text) -/\ndef regFlows : List (String × String × String × String) := [")
	for i, c := range f.regFlows {
		if i > 0 {
			sb.WriteString(", ")
		}
		fmt.Fprintf(&sb, "(%s, %s, %s, %s)", q(c[0]), q(c[1]), q(c[2]), q(c[3]))
	}
	sb.WriteString("]\n\n/-- every write of a `Covert` field (assignment or composite-literal key): (directory, function, right-hand side) -/\ndef covertWrites : List (String × String × String) := [")
	for i, c := range f.covertWrites {
		if i > 0 {
			sb.WriteString(", ")
		}
		fmt.Fprintf(&sb, "(%s, %s, %s)", q(c[0]), q(c[1]), q(c[2]))
	}
	sb.WriteString("]\n\nend CJ.Gen.C06DialSites\n")
	dir := os.Getenv("VERIF_OUT")
	if dir == "" {
		dir = os.TempDir()
	}
	if err := os.WriteFile(filepath.Join(dir, "C06DialSites.lean"), []byte(sb.String()), 0o644); err != nil {
		t.Fatal(err)
	}
}
