// Package vlib is the shared part of the verification harnesses. It exists only in the scratch
// copy of the repository (copied there by /verif/check), never in /repo itself.
package vlib

import (
	"bufio"
	"encoding/hex"
	"encoding/json"
	"fmt"
	"hash/fnv"
	"os"
	"path/filepath"
	"sort"
	"strconv"
	"strings"
	"sync"
)

// ---------------------------------------------------------------------------------------------
// PRNG: every random choice of a harness comes from one splitmix64 state derived from VERIF_SEED
// and a stream name, so a disagreement replays exactly.

type Rand struct{ s uint64 }

func Seed() int64 {
	v, err := strconv.ParseInt(os.Getenv("VERIF_SEED"), 10, 64)
	if err != nil {
		return 1
	}
	return v
}

func NewRand(stream string) *Rand {
	h := fnv.New64a()
	h.Write([]byte(stream))
	return &Rand{s: uint64(Seed())*0x9E3779B97F4A7C15 ^ h.Sum64()}
}

func (r *Rand) U64() uint64 {
	r.s += 0x9E3779B97F4A7C15
	z := r.s
	z = (z ^ (z >> 30)) * 0xBF58476D1CE4E5B9
	z = (z ^ (z >> 27)) * 0x94D049BB133111EB
	return z ^ (z >> 31)
}

// Intn returns a value in [0,n).
func (r *Rand) Intn(n int) int {
	if n <= 0 {
		return 0
	}
	return int(r.U64() % uint64(n))
}

// Range returns a value in [lo,hi].
func (r *Rand) Range(lo, hi int) int { return lo + r.Intn(hi-lo+1) }

func (r *Rand) Bool() bool { return r.U64()&1 == 1 }

// Chance is true with probability num/den.
func (r *Rand) Chance(num, den int) bool { return r.Intn(den) < num }

func (r *Rand) Bytes(n int) []byte {
	b := make([]byte, n)
	for i := range b {
		b[i] = byte(r.U64())
	}
	return b
}

// Read implements io.Reader.
func (r *Rand) Read(p []byte) (int, error) {
	for i := range p {
		p[i] = byte(r.U64())
	}
	return len(p), nil
}

// ---------------------------------------------------------------------------------------------
// tier / budget

func Tier() string {
	if t := os.Getenv("VERIF_TIER"); t == "thorough" {
		return "thorough"
	}
	return "quick"
}

// Budget picks the case count for the tier; VERIF_SEARCH=1 (targeted search after a broken proof
// or correspondence) multiplies the quick budget.
// A Budget is a number of cases. Never take an enumeration depth or a sequence length from it: the
// search multiplier turns depth 4 into depth 16 (seed C05-10 took 1100 s that way); pick depths by Tier().
func Budget(quick, thorough int) int {
	n := quick
	if Tier() == "thorough" {
		n = thorough
	}
	if os.Getenv("VERIF_SEARCH") == "1" {
		n *= 4
	}
	return n
}

// ---------------------------------------------------------------------------------------------
// output: cases for the Lean driver, the implementation's canonical answers, oracle failures,
// and generator statistics.

type Out struct {
	mu       sync.Mutex
	dir      string
	cases    *bufio.Writer
	impl     *bufio.Writer
	oracle   *bufio.Writer
	files    []*os.File
	n        int
	hist     map[string]int
	distinct map[uint64]struct{}
	samples  []string
	oracleN  int
	checks   int
	notes    []string
	perSig   map[string]int
}

func Open(prop string) *Out {
	dir := os.Getenv("VERIF_OUT")
	if dir == "" {
		dir = filepath.Join(os.TempDir(), "verif-out-"+prop)
	}
	_ = os.MkdirAll(dir, 0o755)
	o := &Out{dir: dir, hist: map[string]int{}, distinct: map[uint64]struct{}{}}
	mk := func(name string) *bufio.Writer {
		f, err := os.Create(filepath.Join(dir, prop+"."+name))
		if err != nil {
			panic(err)
		}
		o.files = append(o.files, f)
		return bufio.NewWriterSize(f, 1<<20)
	}
	o.cases = mk("cases.txt")
	o.impl = mk("impl.txt")
	o.oracle = mk("oracle.txt")
	return o
}

func clean(s string) string {
	s = strings.ReplaceAll(s, "\n", " ")
	return strings.ReplaceAll(s, "\r", " ")
}

// Case records one correspondence case: the line for the Lean driver and the implementation's
// answer in the driver's canonical output form. nontrivial says whether the case reached a
// non-error branch (counted as distinct by hash of the model line).
func (o *Out) Case(modelLine, implOut string, nontrivial bool) {
	o.mu.Lock()
	defer o.mu.Unlock()
	o.cases.WriteString(clean(modelLine))
	o.cases.WriteByte('\n')
	o.impl.WriteString(clean(implOut))
	o.impl.WriteByte('\n')
	o.n++
	if nontrivial {
		h := fnv.New64a()
		h.Write([]byte(modelLine))
		o.distinct[h.Sum64()] = struct{}{}
	}
	if len(o.samples) < 3 || (o.n%997 == 0 && len(o.samples) < 8) {
		s := modelLine + "  =>  " + implOut
		if len(s) > 600 {
			s = s[:600] + "…"
		}
		o.samples = append(o.samples, s)
	}
}

// Count adds to the generator histogram (operations, branches, error kinds hit).
func (o *Out) Count(key string) {
	o.mu.Lock()
	o.hist[key]++
	o.mu.Unlock()
}

// Checked counts one evaluation of the property oracle on the implementation.
func (o *Out) Checked() {
	o.mu.Lock()
	o.checks++
	o.mu.Unlock()
}

// Note adds a free-text note to the evidence.
func (o *Out) Note(s string) {
	o.mu.Lock()
	o.notes = append(o.notes, s)
	o.mu.Unlock()
}

// OracleFail records a violation of the property itself observed on the implementation.
// sig is the canonical signature of the failing input class (matched against known_findings.txt),
// replay is everything needed to reproduce it.
func (o *Out) OracleFail(sig, what, replay string) {
	o.mu.Lock()
	defer o.mu.Unlock()
	o.oracleN++
	if o.perSig == nil {
		o.perSig = map[string]int{}
	}
	o.perSig[sig]++
	// keep every distinct signature visible: at most 25 records per signature, 600 in total
	if o.perSig[sig] > 25 || o.oracleN > 600 {
		return
	}
	fmt.Fprintf(o.oracle, "%s\t%s\t%s\n", clean(sig), clean(what), clean(replay))
	// findings survive a run that is killed by its timeout
	o.oracle.Flush()
	o.cases.Flush()
	o.impl.Flush()
}

func (o *Out) Close() {
	o.mu.Lock()
	defer o.mu.Unlock()
	o.cases.Flush()
	o.impl.Flush()
	o.oracle.Flush()
	for _, f := range o.files {
		f.Close()
	}
	keys := make([]string, 0, len(o.hist))
	for k := range o.hist {
		keys = append(keys, k)
	}
	sort.Strings(keys)
	stats := map[string]any{
		"cases":               o.n,
		"distinct_nontrivial": len(o.distinct),
		"histogram":           o.hist,
		"samples":             o.samples,
		"oracle_failures":     o.oracleN,
		"oracle_checks":       o.checks,
		"notes":               o.notes,
		"seed":                Seed(),
		"tier":                Tier(),
	}
	b, _ := json.MarshalIndent(stats, "", " ")
	// the property id is the prefix of the file names in dir; stats are merged by the check script
	name := "stats.json"
	if len(o.files) > 0 {
		base := filepath.Base(o.files[0].Name())
		name = strings.TrimSuffix(base, "cases.txt") + "stats.json"
	}
	_ = os.WriteFile(filepath.Join(o.dir, name), b, 0o644)
}

// ---------------------------------------------------------------------------------------------
// small helpers

func Hex(b []byte) string {
	if len(b) == 0 {
		return "-"
	}
	return hex.EncodeToString(b)
}

func B(b bool) string {
	if b {
		return "1"
	}
	return "0"
}

func SortedJoin(l []string, sep string) string {
	c := append([]string(nil), l...)
	sort.Strings(c)
	return strings.Join(c, sep)
}

// Replay returns the value of VERIF_REPLAY (a path to a replay file) or "".
func Replay() string { return os.Getenv("VERIF_REPLAY") }
