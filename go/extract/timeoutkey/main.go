// timeoutkey: syntactic fact extractor (go/ast only) for C02.
// usage: timeoutkey <dir of pkg/station/lib> <out.lean>
//
// The Lean registry model keys both maps by the PAIR (phantom address, identifier). The code keys its
// timeout records by ONE string, timeoutIndex(phantom, identifier), and the identifier is raw key material
// (any byte value). The pair abstraction is sound when (a) the key function is `phantom ++ sep ++ identifier`
// with a separator that no phantom address contains (then it is injective: CJ.Props.C02.timeoutIndex_injective),
// and (b) nothing ever takes a key apart again — the removal finds the registration through the pair the
// record itself carries. This extractor records the shape those two statements rest on:
//
//   - timeoutIndexOperands: the operands of the `+` chain timeoutIndex returns (parameters by position,
//     string literals by value);
//   - removalDecoysKeys: every index expression applied to `decoys` (outer and inner level) in
//     removeRegistration, rendered;
//   - removalRecordVar: the variable removeRegistration binds to `decoysTimeouts[<its parameter>]`;
//   - removalCalls: every function / method removeRegistration calls (rendered callee), sorted, without
//     duplicates — a helper that parses the key would show up here;
//   - recordKeyFieldInits: how track's DecoyTimeout literal initialises the fields that are not the time /
//     status / id bookkeeping, as (field, rendered value);
//   - trackKeyUses: the rendered arguments of the timeoutIndex call and of the `decoys[..][..] = d` store in
//     track.
package main

import (
	"fmt"
	"go/ast"
	"go/parser"
	"go/token"
	"os"
	"sort"
	"strconv"
	"strings"
)

func render(e ast.Expr) string {
	switch x := e.(type) {
	case *ast.Ident:
		return x.Name
	case *ast.SelectorExpr:
		return render(x.X) + "." + x.Sel.Name
	case *ast.CallExpr:
		var a []string
		for _, y := range x.Args {
			a = append(a, render(y))
		}
		return render(x.Fun) + "(" + strings.Join(a, ", ") + ")"
	case *ast.BasicLit:
		return x.Value
	case *ast.IndexExpr:
		return render(x.X) + "[" + render(x.Index) + "]"
	case *ast.SliceExpr:
		return render(x.X) + "[:]"
	case *ast.BinaryExpr:
		return render(x.X) + " " + x.Op.String() + " " + render(x.Y)
	case *ast.ParenExpr:
		return "(" + render(x.X) + ")"
	case *ast.UnaryExpr:
		return x.Op.String() + render(x.X)
	case *ast.StarExpr:
		return "*" + render(x.X)
	}
	return "expr"
}

func leanList(l []string) string {
	q := make([]string, len(l))
	for i, s := range l {
		q[i] = strconv.Quote(s)
	}
	return "[" + strings.Join(q, ", ") + "]"
}

func leanPairs(l [][2]string) string {
	q := make([]string, len(l))
	for i, s := range l {
		q[i] = "(" + strconv.Quote(s[0]) + ", " + strconv.Quote(s[1]) + ")"
	}
	return "[" + strings.Join(q, ", ") + "]"
}

func isDecoys(e ast.Expr) bool {
	s, ok := e.(*ast.SelectorExpr)
	return ok && s.Sel.Name == "decoys"
}

func main() {
	dir, out := os.Args[1], os.Args[2]
	fset := token.NewFileSet()
	pkgs, err := parser.ParseDir(fset, dir, func(fi os.FileInfo) bool { return !strings.HasSuffix(fi.Name(), "_test.go") }, 0)
	if err != nil {
		panic(err)
	}
	funcs := map[string]*ast.FuncDecl{}
	for _, p := range pkgs {
		for _, f := range p.Files {
			for _, d := range f.Decls {
				if fd, ok := d.(*ast.FuncDecl); ok && fd.Body != nil {
					switch fd.Name.Name {
					case "timeoutIndex", "removeRegistration", "track":
						funcs[fd.Name.Name] = fd
					}
				}
			}
		}
	}
	for _, n := range []string{"timeoutIndex", "removeRegistration", "track"} {
		if funcs[n] == nil {
			panic("function not found: " + n)
		}
	}
	// ---- timeoutIndex
	ti := funcs["timeoutIndex"]
	var params []string
	for _, f := range ti.Type.Params.List {
		for _, n := range f.Names {
			params = append(params, n.Name)
		}
	}
	operands := []string{"unrecognised body"}
	if len(ti.Body.List) == 1 {
		if rs, ok := ti.Body.List[0].(*ast.ReturnStmt); ok && len(rs.Results) == 1 {
			operands = nil
			var walk func(e ast.Expr)
			walk = func(e ast.Expr) {
				if b, ok := e.(*ast.BinaryExpr); ok && b.Op == token.ADD {
					walk(b.X)
					walk(b.Y)
					return
				}
				switch x := e.(type) {
				case *ast.Ident:
					for i, p := range params {
						if p == x.Name {
							operands = append(operands, fmt.Sprintf("param:%d", i))
							return
						}
					}
					operands = append(operands, "name:"+x.Name)
				case *ast.BasicLit:
					if x.Kind == token.STRING {
						v, _ := strconv.Unquote(x.Value)
						operands = append(operands, "lit:"+v)
						return
					}
					operands = append(operands, "other:"+x.Value)
				default:
					operands = append(operands, "other:"+render(e))
				}
			}
			walk(rs.Results[0])
		}
	}
	// ---- removeRegistration
	rr := funcs["removeRegistration"]
	rparam := ""
	if len(rr.Type.Params.List) == 1 && len(rr.Type.Params.List[0].Names) == 1 {
		rparam = rr.Type.Params.List[0].Names[0].Name
	}
	var keys []string
	calls := map[string]bool{}
	recVar := "none"
	ast.Inspect(rr.Body, func(n ast.Node) bool {
		switch x := n.(type) {
		case *ast.IndexExpr:
			if isDecoys(x.X) {
				keys = append(keys, "outer:"+render(x.Index))
			} else if in, ok := x.X.(*ast.IndexExpr); ok && isDecoys(in.X) {
				keys = append(keys, "inner:"+render(x.Index))
			}
		case *ast.CallExpr:
			calls[render(x.Fun)] = true
			if id, ok := x.Fun.(*ast.Ident); ok && id.Name == "delete" && len(x.Args) == 2 {
				if isDecoys(x.Args[0]) {
					keys = append(keys, "outer:"+render(x.Args[1]))
				} else if in, ok := x.Args[0].(*ast.IndexExpr); ok && isDecoys(in.X) {
					keys = append(keys, "inner:"+render(x.Args[1]))
				}
			}
		case *ast.AssignStmt:
			if len(x.Rhs) == 1 && len(x.Lhs) >= 1 {
				if ix, ok := x.Rhs[0].(*ast.IndexExpr); ok {
					if s, ok := ix.X.(*ast.SelectorExpr); ok && s.Sel.Name == "decoysTimeouts" && render(ix.Index) == rparam {
						recVar = render(x.Lhs[0])
					}
				}
			}
		}
		return true
	})
	ks := map[string]bool{}
	for _, k := range keys {
		ks[k] = true
	}
	keys = nil
	for k := range ks {
		keys = append(keys, k)
	}
	sort.Strings(keys)
	var cl []string
	for c := range calls {
		cl = append(cl, c)
	}
	sort.Strings(cl)
	// ---- track
	tr := funcs["track"]
	var inits [][2]string
	var uses []string
	ast.Inspect(tr.Body, func(n ast.Node) bool {
		switch x := n.(type) {
		case *ast.CompositeLit:
			if id, ok := x.Type.(*ast.Ident); ok && id.Name == "DecoyTimeout" {
				for _, el := range x.Elts {
					if kv, ok := el.(*ast.KeyValueExpr); ok {
						k := render(kv.Key)
						if k == "registrationTime" || k == "status" || k == "regID" {
							continue
						}
						inits = append(inits, [2]string{k, render(kv.Value)})
					} else {
						inits = append(inits, [2]string{"positional", render(el)})
					}
				}
			}
		case *ast.CallExpr:
			if id, ok := x.Fun.(*ast.Ident); ok && id.Name == "timeoutIndex" {
				uses = append(uses, "key:"+render(x))
			}
		case *ast.AssignStmt:
			for _, l := range x.Lhs {
				if ix, ok := l.(*ast.IndexExpr); ok {
					if in, ok := ix.X.(*ast.IndexExpr); ok && isDecoys(in.X) {
						uses = append(uses, "store:"+render(in.Index)+","+render(ix.Index))
					}
				}
			}
		}
		return true
	})
	sort.Slice(inits, func(i, j int) bool { return inits[i][0] < inits[j][0] })
	sort.Strings(uses)
	var b strings.Builder
	b.WriteString("/-! GENERATED by go/extract/timeoutkey from pkg/station/lib (go/ast facts) — do not edit. -/\nnamespace CJ.Gen\n\n")
	b.WriteString("/-- the operands of the `+` chain `timeoutIndex` returns: parameters by position, string literals by value -/\n")
	fmt.Fprintf(&b, "def timeoutIndexOperands : List String := %s\n\n", leanList(operands))
	b.WriteString("/-- every index applied to `decoys` (outer / inner level) in `removeRegistration`, indexing and `delete` -/\n")
	fmt.Fprintf(&b, "def removalDecoysKeys : List String := %s\n\n", leanList(keys))
	b.WriteString("/-- the variable `removeRegistration` binds to `decoysTimeouts[<its parameter>]` -/\n")
	fmt.Fprintf(&b, "def removalRecordVar : String := %s\n\n", strconv.Quote(recVar))
	b.WriteString("/-- every function / method `removeRegistration` calls -/\n")
	fmt.Fprintf(&b, "def removalCalls : List String := %s\n\n", leanList(cl))
	b.WriteString("/-- the fields of track's `DecoyTimeout` literal besides registrationTime / status / regID: (field, value) -/\n")
	fmt.Fprintf(&b, "def recordKeyFieldInits : List (String × String) := %s\n\n", leanPairs(inits))
	b.WriteString("/-- track: the call that builds the record's key, and the store into `decoys[·][·]` -/\n")
	fmt.Fprintf(&b, "def trackKeyUses : List String := %s\n\nend CJ.Gen\n", leanList(uses))
	if err := os.WriteFile(out, []byte(b.String()), 0o644); err != nil {
		panic(err)
	}
}
