module timeoutkey

go 1.21
