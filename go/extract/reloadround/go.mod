module reloadround

go 1.21
