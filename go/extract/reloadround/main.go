// reloadround: the control structure of one reload of the registration server, as a Lean fact (C13).
//
//	go run . <repo> <out.lean>
//
// From cmd/registration-server/main.go (go/ast only): the body of `if sig == syscall.SIGHUP { … }` inside the
// goroutine of main that receives from the channel given to signal.Notify, and the body of loadConfig, each as
// a statement tree (calls, assignments from calls, if/else with structured conditions, returns, logging).  Any
// statement or condition outside that grammar makes the extraction fail.
package main

import (
	"bytes"
	"fmt"
	"go/ast"
	"go/parser"
	"go/printer"
	"go/token"
	"os"
	"path/filepath"
	"strings"
)

var fset = token.NewFileSet()

func src(n ast.Node) string {
	var b bytes.Buffer
	printer.Fprint(&b, fset, n)
	return b.String()
}

func die(f string, a ...any) {
	fmt.Fprintf(os.Stderr, "reloadround: "+f+"\n", a...)
	os.Exit(1)
}

func q(s string) string { return fmt.Sprintf("%q", s) }

func qlist(l []string) string {
	for i := range l {
		l[i] = q(l[i])
	}
	return "[" + strings.Join(l, ", ") + "]"
}

func isLog(c *ast.CallExpr) bool {
	s := src(c.Fun)
	return strings.HasPrefix(s, "log.") || strings.HasPrefix(s, "fmt.Print") || strings.HasPrefix(s, "logger.")
}

func cond(e ast.Expr) string {
	switch x := e.(type) {
	case *ast.ParenExpr:
		return cond(x.X)
	case *ast.UnaryExpr:
		if x.Op == token.NOT {
			return "(.not " + cond(x.X) + ")"
		}
	case *ast.BinaryExpr:
		switch x.Op {
		case token.LAND:
			return "(.and " + cond(x.X) + " " + cond(x.Y) + ")"
		case token.LOR:
			return "(.or " + cond(x.X) + " " + cond(x.Y) + ")"
		case token.NEQ, token.EQL:
			if id, ok := x.Y.(*ast.Ident); ok && id.Name == "nil" {
				c := "(.nonNil " + q(src(x.X)) + ")"
				if x.Op == token.EQL {
					c = "(.not " + c + ")"
				}
				return c
			}
		}
	case *ast.Ident:
		return "(.flag " + q(x.Name) + ")"
	}
	die("unsupported condition %s at %s", src(e), fset.Position(e.Pos()))
	return ""
}

func block(l []ast.Stmt) string {
	var out []string
	for _, s := range l {
		out = append(out, stmt(s))
	}
	return "[" + strings.Join(out, ", ") + "]"
}

func stmt(s ast.Stmt) string {
	switch x := s.(type) {
	case *ast.ExprStmt:
		if c, ok := x.X.(*ast.CallExpr); ok {
			if isLog(c) {
				return ".log"
			}
			var args []string
			for _, a := range c.Args {
				args = append(args, src(a))
			}
			return ".call " + q(src(c.Fun)) + " " + qlist(args)
		}
	case *ast.AssignStmt:
		var lhs []string
		for _, l := range x.Lhs {
			lhs = append(lhs, src(l))
		}
		if len(x.Rhs) == 1 {
			if c, ok := x.Rhs[0].(*ast.CallExpr); ok {
				var args []string
				for _, a := range c.Args {
					args = append(args, src(a))
				}
				return ".assign " + qlist(lhs) + " " + q(src(c.Fun)) + " " + qlist(args)
			}
			return ".set " + qlist(lhs) + " " + q(src(x.Rhs[0]))
		}
	case *ast.IfStmt:
		if x.Init != nil {
			break
		}
		els := "[]"
		switch e := x.Else.(type) {
		case nil:
		case *ast.BlockStmt:
			els = block(e.List)
		default:
			els = "[" + stmt(e) + "]"
		}
		return ".iff " + cond(x.Cond) + " " + block(x.Body.List) + " " + els
	case *ast.ReturnStmt:
		var rs []string
		for _, r := range x.Results {
			rs = append(rs, src(r))
		}
		return ".ret " + qlist(rs)
	}
	die("unsupported statement %s at %s", src(s), fset.Position(s.Pos()))
	return ""
}

func main() {
	if len(os.Args) != 3 {
		die("usage: reloadround <repo> <out.lean>")
	}
	file := filepath.Join(os.Args[1], "cmd", "registration-server", "main.go")
	f, err := parser.ParseFile(fset, file, nil, 0)
	if err != nil {
		die("%v", err)
	}
	var mainFn, loadFn *ast.FuncDecl
	for _, d := range f.Decls {
		if fd, ok := d.(*ast.FuncDecl); ok && fd.Recv == nil {
			switch fd.Name.Name {
			case "main":
				mainFn = fd
			case "loadConfig":
				loadFn = fd
			}
		}
	}
	if mainFn == nil || loadFn == nil {
		die("main / loadConfig not found in %s", file)
	}
	// the channel given to signal.Notify
	ch := ""
	ast.Inspect(mainFn, func(n ast.Node) bool {
		if c, ok := n.(*ast.CallExpr); ok && src(c.Fun) == "signal.Notify" && len(c.Args) > 0 {
			ch = src(c.Args[0])
		}
		return true
	})
	if ch == "" {
		die("no signal.Notify in main")
	}
	// the goroutine that receives from it, and the SIGHUP branch of its loop
	var handlers []*ast.IfStmt
	sigVar := ""
	ast.Inspect(mainFn, func(n ast.Node) bool {
		g, ok := n.(*ast.GoStmt)
		if !ok {
			return true
		}
		fl, ok := g.Call.Fun.(*ast.FuncLit)
		if !ok {
			return true
		}
		ast.Inspect(fl, func(m ast.Node) bool {
			if a, ok := m.(*ast.AssignStmt); ok && len(a.Rhs) == 1 && len(a.Lhs) == 1 {
				if u, ok := a.Rhs[0].(*ast.UnaryExpr); ok && u.Op == token.ARROW && src(u.X) == ch {
					sigVar = src(a.Lhs[0])
				}
			}
			if i, ok := m.(*ast.IfStmt); ok && sigVar != "" && i.Init == nil {
				c := strings.ReplaceAll(src(i.Cond), " ", "")
				if c == sigVar+"==syscall.SIGHUP" || c == "syscall.SIGHUP=="+sigVar {
					handlers = append(handlers, i)
				}
			}
			return true
		})
		return true
	})
	if len(handlers) != 1 {
		die("expected one `if %s == syscall.SIGHUP` in a goroutine of main receiving from %s, found %d", sigVar, ch, len(handlers))
	}
	if handlers[0].Else != nil {
		die("the SIGHUP branch has an else")
	}
	var b strings.Builder
	b.WriteString("import CJ.Model.ReloadStmt\n")
	b.WriteString("/-! GENERATED by go/extract/reloadround from cmd/registration-server/main.go - do not edit.\n")
	b.WriteString("`handler`: the body of the SIGHUP branch of main's signal goroutine; `loadConfig`: the body of loadConfig. -/\n")
	b.WriteString("namespace CJ.Gen.ReloadRound\nopen CJ.ReloadStmt\n\n")
	b.WriteString("def handler : List Node := " + block(handlers[0].Body.List) + "\n\n")
	var params []string
	for _, p := range loadFn.Type.Params.List {
		for _, n := range p.Names {
			params = append(params, n.Name)
		}
	}
	b.WriteString("def loadConfigParams : List String := " + qlist(params) + "\n\n")
	b.WriteString("def loadConfig : List Node := " + block(loadFn.Body.List) + "\n\n")
	b.WriteString("end CJ.Gen.ReloadRound\n")
	if err := os.WriteFile(os.Args[2], []byte(b.String()), 0o644); err != nil {
		die("%v", err)
	}
}
