// assetslocks regenerates the lock table of pkg/client/assets/assets.go (go/ast only):
// for every function of the file, the flattened sequence of events that matter to the mutex discipline of
// the `assets` struct — lock / unlock / deferred unlock (write or read side), reads / writes / mutations of the
// fields, calls of the struct's own methods and of package functions, os.* / proto.* calls, go statements,
// sync.Once use — each tagged with whether it sits inside a function literal.
//
//	usage: assetslocks <repo>/pkg/client/assets <out>/C20Locks.lean
package main

import (
	"fmt"
	"go/ast"
	"go/parser"
	"go/token"
	"os"
	"path/filepath"
	"sort"
	"strings"
)

type ev struct {
	k, a string
	lit  bool
}

var fields = map[string]bool{"config": true, "path": true, "filenameClientConf": true, "socksAddr": true}

type walker struct {
	bases map[string]bool // identifiers that denote the assets object in this function
	evs   []ev
	lit   int
}

func (w *walker) emit(k, a string) { w.evs = append(w.evs, ev{k, a, w.lit > 0}) }

func (w *walker) isBase(e ast.Expr) bool {
	id, ok := e.(*ast.Ident)
	return ok && w.bases[id.Name]
}

// field returns the field name if e is <base>.<field>
func (w *walker) field(e ast.Expr) (string, bool) {
	s, ok := e.(*ast.SelectorExpr)
	if ok && w.isBase(s.X) && fields[s.Sel.Name] {
		return s.Sel.Name, true
	}
	return "", false
}

// lhs classifies an assignment target
func (w *walker) lhs(e ast.Expr) {
	if f, ok := w.field(e); ok {
		w.emit("write", f)
		return
	}
	// <base>.<field>.X... = : a mutation of the object the field points to
	cur := e
	for {
		switch x := cur.(type) {
		case *ast.SelectorExpr:
			if f, ok := w.field(x.X); ok {
				w.emit("mutate", f)
				return
			}
			cur = x.X
			continue
		case *ast.IndexExpr:
			cur = x.X
			continue
		case *ast.StarExpr:
			cur = x.X
			continue
		case *ast.ParenExpr:
			cur = x.X
			continue
		}
		break
	}
	if id, ok := e.(*ast.Ident); ok && id.Name == "assetsInstance" {
		w.emit("publish", "assetsInstance")
		return
	}
	w.expr(e)
}

func (w *walker) call(c *ast.CallExpr, deferred, gostmt bool) {
	for _, a := range c.Args {
		w.expr(a)
	}
	pre := ""
	if gostmt {
		pre = "go-"
	}
	switch f := c.Fun.(type) {
	case *ast.SelectorExpr:
		if w.isBase(f.X) {
			switch f.Sel.Name {
			case "Lock", "RLock":
				side := "W"
				if f.Sel.Name == "RLock" {
					side = "R"
				}
				w.emit(pre+"lock", side)
			case "Unlock", "RUnlock":
				side := "W"
				if f.Sel.Name == "RUnlock" {
					side = "R"
				}
				if deferred {
					w.emit("defer-unlock", side)
				} else {
					w.emit(pre+"unlock", side)
				}
			default:
				if deferred {
					pre = "defer-"
				}
				w.emit(pre+"call", f.Sel.Name)
			}
			return
		}
		if id, ok := f.X.(*ast.Ident); ok {
			switch {
			case id.Name == "assetsOnce":
				arg := "?"
				if len(c.Args) == 1 {
					if a, ok := c.Args[0].(*ast.Ident); ok {
						arg = a.Name
					}
				}
				w.emit("once", f.Sel.Name+":"+arg)
			case id.Name == "os" || id.Name == "proto" || id.Name == "ioutil":
				w.emit(pre+"ext", id.Name+"."+f.Sel.Name)
			}
			return
		}
		w.expr(f.X)
	case *ast.Ident:
		if f.Obj != nil && f.Obj.Kind == ast.Var {
			w.emit(pre+"callvar", f.Name) // a local closure
		} else if f.Obj != nil && f.Obj.Kind == ast.Fun {
			w.emit(pre+"call", f.Name) // package-level function of this file
		} else if f.Obj == nil {
			switch f.Name {
			case "make", "len", "append", "copy", "uint32", "int", "int64", "string", "byte", "cap", "new", "delete", "panic":
			default:
				w.emit(pre+"call", f.Name) // package-level function of another file of the package
			}
		}
	case *ast.FuncLit:
		w.lit++
		w.block(f.Body)
		w.lit--
	default:
		w.expr(c.Fun)
	}
}

func (w *walker) expr(e ast.Expr) {
	if e == nil {
		return
	}
	ast.Inspect(e, func(n ast.Node) bool {
		switch x := n.(type) {
		case *ast.CallExpr:
			w.call(x, false, false)
			return false
		case *ast.FuncLit:
			w.lit++
			w.block(x.Body)
			w.lit--
			return false
		case *ast.SelectorExpr:
			if f, ok := w.field(x); ok {
				w.emit("read", f)
				return false
			}
		case *ast.CompositeLit:
			if id, ok := x.Type.(*ast.Ident); ok && id.Name == "assets" {
				w.emit("new", "assets")
			}
		}
		return true
	})
}

func (w *walker) stmt(s ast.Stmt) {
	switch x := s.(type) {
	case nil:
	case *ast.AssignStmt:
		for _, r := range x.Rhs {
			w.expr(r)
		}
		for _, l := range x.Lhs {
			w.lhs(l)
		}
	case *ast.IncDecStmt:
		w.lhs(x.X)
	case *ast.DeferStmt:
		w.call(x.Call, true, false)
	case *ast.GoStmt:
		w.emit("go", "stmt")
		w.call(x.Call, false, true)
	case *ast.ExprStmt:
		w.expr(x.X)
	case *ast.ReturnStmt:
		for _, r := range x.Results {
			w.expr(r)
		}
		w.emit("return", "")
	case *ast.BlockStmt:
		w.block(x)
	case *ast.IfStmt:
		w.stmt(x.Init)
		w.expr(x.Cond)
		w.block(x.Body)
		w.stmt(x.Else)
	case *ast.ForStmt:
		w.stmt(x.Init)
		w.expr(x.Cond)
		w.block(x.Body)
		w.stmt(x.Post)
	case *ast.RangeStmt:
		w.expr(x.X)
		w.block(x.Body)
	case *ast.SwitchStmt:
		w.stmt(x.Init)
		w.expr(x.Tag)
		w.block(x.Body)
	case *ast.CaseClause:
		for _, e := range x.List {
			w.expr(e)
		}
		for _, b := range x.Body {
			w.stmt(b)
		}
	case *ast.DeclStmt:
		if g, ok := x.Decl.(*ast.GenDecl); ok {
			for _, sp := range g.Specs {
				if v, ok := sp.(*ast.ValueSpec); ok {
					for _, e := range v.Values {
						w.expr(e)
					}
				}
			}
		}
	default:
		// any other statement kind: walk it generically so that no access is lost
		ast.Inspect(s, func(n ast.Node) bool {
			if e, ok := n.(ast.Expr); ok {
				w.expr(e)
				return false
			}
			return true
		})
	}
}

func (w *walker) block(b *ast.BlockStmt) {
	if b == nil {
		return
	}
	for _, s := range b.List {
		w.stmt(s)
	}
}

func q(s string) string { return fmt.Sprintf("%q", s) }

func main() {
	if len(os.Args) != 3 {
		fmt.Fprintln(os.Stderr, "usage: assetslocks <pkgdir> <out.lean>")
		os.Exit(2)
	}
	fset := token.NewFileSet()
	file, err := parser.ParseFile(fset, filepath.Join(os.Args[1], "assets.go"), nil, 0)
	if err != nil {
		fmt.Fprintln(os.Stderr, err)
		os.Exit(1)
	}
	type row struct {
		name string
		recv bool
		evs  []ev
	}
	var rows []row
	mutexEmbedded := false
	var structFields []string
	for _, d := range file.Decls {
		switch x := d.(type) {
		case *ast.GenDecl:
			for _, sp := range x.Specs {
				ts, ok := sp.(*ast.TypeSpec)
				if !ok || ts.Name.Name != "assets" {
					continue
				}
				st, ok := ts.Type.(*ast.StructType)
				if !ok {
					continue
				}
				for _, f := range st.Fields.List {
					if len(f.Names) == 0 {
						if se, ok := f.Type.(*ast.SelectorExpr); ok {
							if id, ok := se.X.(*ast.Ident); ok && id.Name == "sync" && se.Sel.Name == "RWMutex" {
								mutexEmbedded = true
							}
						}
						continue
					}
					for _, n := range f.Names {
						structFields = append(structFields, n.Name)
					}
				}
			}
		case *ast.FuncDecl:
			w := &walker{bases: map[string]bool{"assetsInstance": true}}
			recv := false
			if x.Recv != nil && len(x.Recv.List) == 1 {
				t := x.Recv.List[0].Type
				if st, ok := t.(*ast.StarExpr); ok {
					t = st.X
				}
				if id, ok := t.(*ast.Ident); ok && id.Name == "assets" {
					recv = true
					for _, n := range x.Recv.List[0].Names {
						w.bases[n.Name] = true
					}
				}
			}
			w.block(x.Body)
			rows = append(rows, row{x.Name.Name, recv, w.evs})
		}
	}
	sort.SliceStable(rows, func(i, j int) bool { return rows[i].name < rows[j].name })
	var b strings.Builder
	b.WriteString("/-! GENERATED by go/extract/assetslocks from pkg/client/assets/assets.go (go/ast facts) — do not edit. -/\n")
	b.WriteString("namespace CJ.Gen\n\n")
	fmt.Fprintf(&b, "/-- `assets` embeds `sync.RWMutex` -/\ndef assetsMutexEmbedded : Bool := %v\n\n", mutexEmbedded)
	var fq []string
	for _, f := range structFields {
		fq = append(fq, q(f))
	}
	fmt.Fprintf(&b, "/-- the named fields of `assets` -/\ndef assetsFields : List String := [%s]\n\n", strings.Join(fq, ", "))
	b.WriteString("/-- every function of assets.go: (name, is a method of *assets, flattened events (kind, argument, inside a function literal)) -/\n")
	b.WriteString("def assetsLockTable : List (String × Bool × List (String × String × Bool)) := [\n")
	for i, r := range rows {
		var es []string
		for _, e := range r.evs {
			es = append(es, fmt.Sprintf("(%s, %s, %v)", q(e.k), q(e.a), e.lit))
		}
		sep := ","
		if i == len(rows)-1 {
			sep = ""
		}
		fmt.Fprintf(&b, "  (%s, %v, [%s])%s\n", q(r.name), r.recv, strings.Join(es, ", "), sep)
	}
	b.WriteString("]\n\nend CJ.Gen\n")
	if err := os.WriteFile(os.Args[2], []byte(b.String()), 0644); err != nil {
		fmt.Fprintln(os.Stderr, err)
		os.Exit(1)
	}
}
