module assetslocks

go 1.21
