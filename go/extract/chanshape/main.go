// chanshape: syntactic extractor (go/ast only) of the channel-operation shape of the ingest pipeline, for C09.
// usage: chanshape <dir of pkg/station/lib> <out.lean>
//
// CJ/Model/PipelineMsg.lean models one iteration of the distributor loop of HandleRegUpdates and one pass of a
// worker (startIngestThread) through its select as atomic actions.  This extractor regenerates the *shape* those
// actions are read off: the statements in front of the loop, the loop condition, the select cases (communication +
// body, with the nested hand-off select), what follows the loop, every close() and every go statement.  The
// output is a value of the types of CJ/Model/ChanShape.lean; CJ/Props/C09Shape.lean proves it equal to the reviewed
// shape, whose meaning is proved to be PipelineMsg.step.
//
// Resolution of names (the only interpretation made here):
//   done   = <ctx parameter>.Done()
//   input  = the channel parameter of HandleRegUpdates
//   buffer = the local defined by `x := make(chan …, cap)` in HandleRegUpdates; in the worker, the parameter at the
//            position where that local is passed in the `go` statement that starts the worker
//   callee classes: *.addIngestMessage, *.addDroppedMessage, *.parseRegMessage, *.ingestRegistration, logger.*, wg.Wait
// Everything the extractor does not recognise becomes `.opaque "<text>"` / `.other "<text>"`, which no theorem accepts.
package main

import (
	"bytes"
	"fmt"
	"go/ast"
	"go/parser"
	"go/printer"
	"go/token"
	"os"
	"strconv"
	"strings"
)

var fset = token.NewFileSet()

func text(n ast.Node) string {
	if n == nil {
		return ""
	}
	var b bytes.Buffer
	_ = printer.Fprint(&b, fset, n)
	return strings.Join(strings.Fields(b.String()), "")
}

func q(s string) string {
	if len(s) > 160 {
		s = s[:160] + "…"
	}
	return strconv.Quote(s)
}

type env struct {
	ctx, input, buffer, label, okVar string
}

func (e *env) chanOf(x ast.Expr) string {
	t := text(x)
	switch {
	case e.ctx != "" && t == e.ctx+".Done()":
		return ".done"
	case e.input != "" && t == e.input:
		return ".input"
	case e.buffer != "" && t == e.buffer:
		return ".buffer"
	}
	return "(.other " + q(t) + ")"
}

func callee(c *ast.CallExpr) string {
	t := text(c.Fun)
	switch {
	case strings.HasSuffix(t, ".addIngestMessage"):
		return ".addIngestMessage"
	case strings.HasSuffix(t, ".addDroppedMessage"):
		return ".addDroppedMessage"
	case strings.HasSuffix(t, ".parseRegMessage"):
		return ".parseRegMessage"
	case strings.HasSuffix(t, ".ingestRegistration"):
		return ".ingestRegistration"
	case strings.HasPrefix(t, "logger."):
		return ".log"
	case t == "wg.Wait":
		return ".wgWait"
	}
	return "(.other " + q(t) + ")"
}

// harmless: no channel operation, select, go, defer, return, goto, labelled break/continue, close() inside n.
func harmless(n ast.Node) bool {
	ok := true
	ast.Inspect(n, func(m ast.Node) bool {
		switch t := m.(type) {
		case *ast.SendStmt, *ast.SelectStmt, *ast.GoStmt, *ast.DeferStmt, *ast.ReturnStmt, *ast.FuncLit:
			ok = false
		case *ast.UnaryExpr:
			if t.Op == token.ARROW {
				ok = false
			}
		case *ast.BranchStmt:
			if t.Tok == token.GOTO || t.Label != nil || t.Tok == token.BREAK && false {
				ok = false
			}
		case *ast.RangeStmt:
			// ranging over a channel is a receive; the extractor cannot type the operand: only accept identifiers
			// that are not one of the resolved channels (checked by the caller through the text)
		case *ast.CallExpr:
			if id, isID := t.Fun.(*ast.Ident); isID && id.Name == "close" {
				ok = false
			}
		}
		return ok
	})
	return ok
}

// breaksOutOfIf: an unlabelled `break` directly inside an if inside a select leaves the select, not the loop; an
// unlabelled break inside a nested for leaves that for.  Only flag the first kind.
func hasBareBreak(n ast.Node) bool {
	found := false
	var walk func(n ast.Node)
	walk = func(n ast.Node) {
		ast.Inspect(n, func(m ast.Node) bool {
			switch t := m.(type) {
			case *ast.ForStmt, *ast.RangeStmt, *ast.SwitchStmt, *ast.TypeSwitchStmt:
				if m != n {
					return false
				}
			case *ast.BranchStmt:
				if t.Tok == token.BREAK && t.Label == nil {
					found = true
				}
			}
			return true
		})
	}
	walk(n)
	return found
}

func callsIn(n ast.Node) []string {
	var out []string
	ast.Inspect(n, func(m ast.Node) bool {
		if c, ok := m.(*ast.CallExpr); ok {
			out = append(out, callee(c))
		}
		return true
	})
	return out
}

func (e *env) mentionsChan(n ast.Node) bool {
	hit := false
	ast.Inspect(n, func(m ast.Node) bool {
		if id, ok := m.(*ast.Ident); ok && (id.Name == e.input && e.input != "" || id.Name == e.buffer && e.buffer != "") {
			hit = true
		}
		return true
	})
	return hit
}

func (e *env) leaf(s ast.Stmt) string {
	opaque := ".opaque " + q(text(s))
	switch t := s.(type) {
	case *ast.ExprStmt:
		if c, ok := t.X.(*ast.CallExpr); ok && harmless(c) && !e.mentionsChan(c) {
			return ".call " + callee(c)
		}
	case *ast.AssignStmt:
		if len(t.Rhs) == 1 {
			if c, ok := t.Rhs[0].(*ast.CallExpr); ok && harmless(c) && !e.mentionsChan(c) {
				return ".call " + callee(c)
			}
		}
	case *ast.BranchStmt:
		switch {
		case t.Tok == token.BREAK && t.Label != nil && t.Label.Name == e.label:
			return ".brk"
		case t.Tok == token.CONTINUE && (t.Label == nil || t.Label.Name == e.label):
			return ".cont"
		}
	case *ast.ReturnStmt:
		if len(t.Results) == 0 {
			return ".ret"
		}
	case *ast.IfStmt:
		if t.Init == nil && t.Else == nil && e.okVar != "" && text(t.Cond) == "!"+e.okVar && len(t.Body.List) == 1 {
			if b, ok := t.Body.List[0].(*ast.BranchStmt); ok && b.Tok == token.BREAK && b.Label != nil && b.Label.Name == e.label {
				return ".ifClosedBreak"
			}
		}
		if t.Else == nil && len(t.Body.List) > 0 && harmless(t) && !hasBareBreak(t) && !e.mentionsChan(t) {
			if b, ok := t.Body.List[len(t.Body.List)-1].(*ast.BranchStmt); ok && b.Tok == token.CONTINUE {
				return ".ifCont"
			}
		}
	case *ast.ForStmt, *ast.RangeStmt:
		if harmless(t) && !e.mentionsChan(t) {
			var body ast.Node
			if f, ok := t.(*ast.ForStmt); ok {
				body = f.Body
			} else {
				body = t.(*ast.RangeStmt).Body
			}
			return ".each [" + strings.Join(callsIn(body), ", ") + "]"
		}
	}
	return opaque
}

func (e *env) comm(cc *ast.CommClause) (string, string) {
	switch t := cc.Comm.(type) {
	case nil:
		return ".dflt", ""
	case *ast.SendStmt:
		return ".send " + e.chanOf(t.Chan), ""
	case *ast.ExprStmt:
		if u, ok := t.X.(*ast.UnaryExpr); ok && u.Op == token.ARROW {
			return ".recv " + e.chanOf(u.X), ""
		}
	case *ast.AssignStmt:
		if len(t.Rhs) == 1 {
			if u, ok := t.Rhs[0].(*ast.UnaryExpr); ok && u.Op == token.ARROW {
				okv := ""
				if len(t.Lhs) == 2 {
					okv = text(t.Lhs[1])
				}
				return ".recv " + e.chanOf(u.X), okv
			}
		}
	}
	return ".recv (.other " + q(text(cc.Comm)) + ")", ""
}

func (e *env) innerCases(sel *ast.SelectStmt) string {
	var cs []string
	for _, c := range sel.Body.List {
		cc := c.(*ast.CommClause)
		cm, _ := e.comm(cc)
		var ls []string
		for _, s := range cc.Body {
			ls = append(ls, e.leaf(s))
		}
		cs = append(cs, "("+cm+", ["+strings.Join(ls, ", ")+"])")
	}
	return "[" + strings.Join(cs, ", ") + "]"
}

func (e *env) loop(f *ast.ForStmt) string {
	cond := ".other " + q(text(f.Cond))
	switch {
	case f.Init != nil || f.Post != nil:
		cond = ".other " + q(text(f.Init)+";"+text(f.Cond)+";"+text(f.Post))
	case f.Cond == nil:
		cond = ".forever"
	case e.ctx != "" && text(f.Cond) == e.ctx+".Err()==nil":
		cond = ".ctxErrNil"
	}
	if len(f.Body.List) != 1 {
		return "{ cond := .other " + q("body:"+text(f.Body)) + ", cases := [] }"
	}
	sel, ok := f.Body.List[0].(*ast.SelectStmt)
	if !ok {
		return "{ cond := .other " + q("body:"+text(f.Body)) + ", cases := [] }"
	}
	var cs []string
	for _, c := range sel.Body.List {
		cc := c.(*ast.CommClause)
		cm, okv := e.comm(cc)
		e.okVar = okv
		var ss []string
		for _, s := range cc.Body {
			if in, isSel := s.(*ast.SelectStmt); isSel {
				ss = append(ss, ".sel "+e.innerCases(in))
			} else {
				ss = append(ss, ".leaf ("+e.leaf(s)+")")
			}
		}
		e.okVar = ""
		cs = append(cs, "      ("+cm+", ["+strings.Join(ss, ",\n        ")+"])")
	}
	return "{ cond := " + cond + ", cases := [\n" + strings.Join(cs, ",\n") + "] }"
}

type goStmt struct {
	callee string
	bufPos int
}

func (e *env) fn(fd *ast.FuncDecl, chanParamPos int) string {
	var pre []string
	var post []string
	var loopTxt string
	seenLoop := false
	for _, s := range fd.Body.List {
		label := ""
		st := s
		if l, ok := s.(*ast.LabeledStmt); ok {
			label, st = l.Label.Name, l.Stmt
		}
		if f, ok := st.(*ast.ForStmt); ok && !seenLoop {
			hasSel := false
			for _, b := range f.Body.List {
				if _, ok := b.(*ast.SelectStmt); ok {
					hasSel = true
				}
			}
			if hasSel {
				seenLoop = true
				e.label = label
				loopTxt = e.loop(f)
				continue
			}
		}
		if !seenLoop {
			pre = append(pre, q(text(s)))
		} else {
			post = append(post, e.leaf(s))
		}
	}
	if !seenLoop {
		loopTxt = "{ cond := .other \"no select loop found\", cases := [] }"
	}
	// every close() and every go statement of the function
	var closes, spawns []string
	var walk func(n ast.Node, deferred bool)
	walk = func(n ast.Node, deferred bool) {
		ast.Inspect(n, func(m ast.Node) bool {
			switch t := m.(type) {
			case *ast.DeferStmt:
				walk(t.Call, true)
				return false
			case *ast.GoStmt:
				pos := "none"
				for i, a := range t.Call.Args {
					if e.buffer != "" && text(a) == e.buffer {
						pos = "some " + strconv.Itoa(i)
					}
				}
				spawns = append(spawns, "("+q(text(t.Call.Fun))+", "+pos+")")
			case *ast.CallExpr:
				if id, ok := t.Fun.(*ast.Ident); ok && id.Name == "close" && len(t.Args) == 1 {
					closes = append(closes, "("+e.chanOf(t.Args[0])+", "+strconv.FormatBool(deferred)+")")
				}
			}
			return true
		})
	}
	walk(fd.Body, false)
	cp := "none"
	if chanParamPos >= 0 {
		cp = "some " + strconv.Itoa(chanParamPos)
	}
	return "{ name := " + q(fd.Name.Name) + ",\n  pre := [\n    " + strings.Join(pre, ",\n    ") + "],\n  loop := " + loopTxt +
		",\n  post := [" + strings.Join(post, ", ") + "],\n  closes := [" + strings.Join(closes, ", ") + "],\n  spawns := [" +
		strings.Join(spawns, ", ") + "],\n  chanParam := " + cp + " }"
}

// params flattens the parameter list: (name, type text)
func params(fd *ast.FuncDecl) [][2]string {
	var out [][2]string
	for _, f := range fd.Type.Params.List {
		for _, n := range f.Names {
			out = append(out, [2]string{n.Name, text(f.Type)})
		}
	}
	return out
}

func main() {
	if len(os.Args) != 3 {
		fmt.Fprintln(os.Stderr, "usage: chanshape <pkg/station/lib> <out.lean>")
		os.Exit(2)
	}
	pkgs, err := parser.ParseDir(fset, os.Args[1], func(fi os.FileInfo) bool { return !strings.HasSuffix(fi.Name(), "_test.go") }, 0)
	if err != nil {
		panic(err)
	}
	fns := map[string]*ast.FuncDecl{}
	consts := map[string]string{}
	for _, p := range pkgs {
		for _, f := range p.Files {
			for _, d := range f.Decls {
				switch t := d.(type) {
				case *ast.FuncDecl:
					if t.Body != nil {
						fns[t.Name.Name] = t
					}
				case *ast.GenDecl:
					if t.Tok == token.CONST {
						for _, sp := range t.Specs {
							vs := sp.(*ast.ValueSpec)
							for i, n := range vs.Names {
								if i < len(vs.Values) {
									consts[n.Name] = text(vs.Values[i])
								}
							}
						}
					}
				}
			}
		}
	}
	num := func(name string) string {
		if v, err := strconv.ParseUint(consts[name], 10, 32); err == nil {
			return strconv.FormatUint(v, 10)
		}
		fmt.Fprintf(os.Stderr, "chanshape: constant %s is not a plain number: %q\n", name, consts[name])
		os.Exit(1)
		return ""
	}
	d := fns["HandleRegUpdates"]
	if d == nil {
		fmt.Fprintln(os.Stderr, "chanshape: HandleRegUpdates not found")
		os.Exit(1)
	}
	de := &env{}
	dpos := -1
	for i, p := range params(d) {
		if p[1] == "context.Context" {
			de.ctx = p[0]
		}
		if strings.Contains(p[1], "chan") && de.input == "" {
			de.input, dpos = p[0], i
		}
	}
	capExpr := ""
	for _, s := range d.Body.List {
		if a, ok := s.(*ast.AssignStmt); ok && a.Tok == token.DEFINE && len(a.Lhs) == 1 && len(a.Rhs) == 1 {
			if c, ok := a.Rhs[0].(*ast.CallExpr); ok && text(c.Fun) == "make" && len(c.Args) >= 1 {
				if _, isChan := c.Args[0].(*ast.ChanType); isChan && de.buffer == "" {
					de.buffer = text(a.Lhs[0])
					if len(c.Args) == 2 {
						capExpr = text(c.Args[1])
					}
				}
			}
		}
	}
	dist := de.fn(d, dpos)

	// the worker: the function started by the go statement that is handed the buffer
	wname, wpos := "", -1
	ast.Inspect(d.Body, func(m ast.Node) bool {
		if g, ok := m.(*ast.GoStmt); ok {
			for i, a := range g.Call.Args {
				if text(a) == de.buffer && de.buffer != "" {
					if sel, ok := g.Call.Fun.(*ast.SelectorExpr); ok {
						wname, wpos = sel.Sel.Name, i
					} else if id, ok := g.Call.Fun.(*ast.Ident); ok {
						wname, wpos = id.Name, i
					}
				}
			}
		}
		return true
	})
	w := fns[wname]
	if w == nil {
		fmt.Fprintln(os.Stderr, "chanshape: no worker function is started with the buffer")
		os.Exit(1)
	}
	we := &env{}
	wp := params(w)
	for _, p := range wp {
		if p[1] == "context.Context" {
			we.ctx = p[0]
		}
	}
	if wpos < len(wp) && strings.Contains(wp[wpos][1], "chan") {
		we.buffer = wp[wpos][0]
	}
	wk := we.fn(w, wpos)

	var b strings.Builder
	b.WriteString("import CJ.Model.ChanShape\n")
	b.WriteString("/-! GENERATED on every run by go/extract/chanshape from pkg/station/lib of the tree under check (go/ast): the\n")
	b.WriteString("channel-operation shape of `HandleRegUpdates` and of the worker it starts.  Do not edit. -/\n")
	b.WriteString("namespace CJ.Gen.C09ChanShape\nopen CJ.ChanShape\n\n")
	fmt.Fprintf(&b, "def defaultWorkerCount : Nat := %s\n", num("defaultWorkerCount"))
	fmt.Fprintf(&b, "def jobBufferDivisor : Nat := %s\n", num("jobBufferDivisor"))
	fmt.Fprintf(&b, "/-- capacity expression of the `make` that defines the buffer -/\ndef bufferCapExpr : String := %s\n\n", q(capExpr))
	fmt.Fprintf(&b, "def distributor : Fn :=\n%s\n\n", dist)
	fmt.Fprintf(&b, "def worker : Fn :=\n%s\n\n", wk)
	b.WriteString("end CJ.Gen.C09ChanShape\n")
	if err := os.WriteFile(os.Args[2], []byte(b.String()), 0o644); err != nil {
		panic(err)
	}
}
