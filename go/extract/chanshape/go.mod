module chanshape

go 1.21
