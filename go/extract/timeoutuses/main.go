// timeoutuses: syntactic fact extractor (go/ast only) for C08.
// usage: timeoutuses <dir of pkg/station/lib> <out.lean>
//
// C08's string-index theorems (CJ/Props/C08Index.lean) are about a registry whose timeout map is only ever
// indexed by `timeoutIndex(phantom, identifier)` or by an index string that a sweep collected from the map
// itself. This extractor lists, over the non-test files of the package:
//   - every indexing of a `.decoysTimeouts` selector (load / store / delete) with the enclosing function and
//     the class of the index expression: `timeoutIndex` (a two-argument call of that function), `param:N`
//     (the function's N-th parameter, never assigned in the body), `other:<kind>`;
//   - every `range` over `.decoysTimeouts`: function, what is appended in the loop (`key` = the range key),
//     the slice appended to, and what the function returns;
//   - every call of `.removeRegistration(x)`: function and the class of x — `collected` when x is the value
//     variable of a `for _, x := range S` whose S is bound once, to `<recv>.getExpiredRegistrations()`;
//   - every other mention of `.decoysTimeouts` (len, make, field declaration are counted by kind).
package main

import (
	"fmt"
	"go/ast"
	"go/parser"
	"go/token"
	"os"
	"sort"
	"strings"
)

const field = "decoysTimeouts"

func isMap(e ast.Expr) bool {
	s, ok := e.(*ast.SelectorExpr)
	return ok && s.Sel.Name == field
}

func paramIndex(fd *ast.FuncDecl, name string) int {
	i := 0
	for _, f := range fd.Type.Params.List {
		for _, n := range f.Names {
			if n.Name == name {
				return i
			}
			i++
		}
	}
	return -1
}

// assigned reports whether `name` is the target of any assignment / inc-dec / range clause / address-of in body.
func assigned(body *ast.BlockStmt, name string) bool {
	found := false
	ast.Inspect(body, func(n ast.Node) bool {
		switch x := n.(type) {
		case *ast.AssignStmt:
			for _, l := range x.Lhs {
				if id, ok := l.(*ast.Ident); ok && id.Name == name {
					found = true
				}
			}
		case *ast.IncDecStmt:
			if id, ok := x.X.(*ast.Ident); ok && id.Name == name {
				found = true
			}
		case *ast.RangeStmt:
			for _, l := range []ast.Expr{x.Key, x.Value} {
				if id, ok := l.(*ast.Ident); ok && id.Name == name {
					found = true
				}
			}
		case *ast.UnaryExpr:
			if id, ok := x.X.(*ast.Ident); ok && x.Op == token.AND && id.Name == name {
				found = true
			}
		}
		return true
	})
	return found
}

func classify(fd *ast.FuncDecl, e ast.Expr) string {
	switch x := e.(type) {
	case *ast.CallExpr:
		if id, ok := x.Fun.(*ast.Ident); ok && id.Name == "timeoutIndex" && len(x.Args) == 2 {
			return "timeoutIndex"
		}
		return "other:call"
	case *ast.Ident:
		if i := paramIndex(fd, x.Name); i >= 0 && !assigned(fd.Body, x.Name) {
			return fmt.Sprintf("param:%d", i)
		}
		return "other:ident"
	}
	return "other:expr"
}

func q(ss []string) string {
	out := make([]string, len(ss))
	for i, s := range ss {
		out[i] = fmt.Sprintf("%q", s)
	}
	return "[" + strings.Join(out, ", ") + "]"
}

func main() {
	dir, out := os.Args[1], os.Args[2]
	fset := token.NewFileSet()
	pkgs, err := parser.ParseDir(fset, dir, func(fi os.FileInfo) bool { return !strings.HasSuffix(fi.Name(), "_test.go") }, 0)
	if err != nil {
		panic(err)
	}
	var indexings, ranges, removals, mentions []string
	for _, p := range pkgs {
		for _, f := range p.Files {
			for _, d := range f.Decls {
				fd, ok := d.(*ast.FuncDecl)
				if !ok || fd.Body == nil {
					continue
				}
				fn := fd.Name.Name
				handled := map[ast.Expr]bool{} // selector nodes accounted for
				stores := map[*ast.IndexExpr]bool{}
				ast.Inspect(fd.Body, func(n ast.Node) bool {
					if as, ok := n.(*ast.AssignStmt); ok {
						for _, l := range as.Lhs {
							if ix, ok := l.(*ast.IndexExpr); ok && isMap(ix.X) {
								stores[ix] = true
							}
						}
					}
					return true
				})
				ast.Inspect(fd.Body, func(n ast.Node) bool {
					switch x := n.(type) {
					case *ast.IndexExpr:
						if isMap(x.X) {
							handled[x.X] = true
							kind := "load"
							if stores[x] {
								kind = "store"
							}
							indexings = append(indexings, fn+":"+kind+":"+classify(fd, x.Index))
						}
					case *ast.CallExpr:
						if id, ok := x.Fun.(*ast.Ident); ok && len(x.Args) >= 1 && isMap(x.Args[0]) {
							handled[x.Args[0]] = true
							switch {
							case id.Name == "delete" && len(x.Args) == 2:
								indexings = append(indexings, fn+":delete:"+classify(fd, x.Args[1]))
							default:
								mentions = append(mentions, fn+":"+id.Name)
							}
						}
						if sel, ok := x.Fun.(*ast.SelectorExpr); ok && sel.Sel.Name == "removeRegistration" && len(x.Args) == 1 {
							removals = append(removals, fn+":"+removalArg(fd, x.Args[0]))
						}
					case *ast.RangeStmt:
						if isMap(x.X) {
							handled[x.X] = true
							ranges = append(ranges, fn+":"+rangeFact(fd, x))
						}
					}
					return true
				})
				ast.Inspect(fd.Body, func(n ast.Node) bool {
					if s, ok := n.(*ast.SelectorExpr); ok && s.Sel.Name == field && !handled[s] {
						mentions = append(mentions, fn+":other")
					}
					return true
				})
			}
		}
	}
	sort.Strings(indexings)
	sort.Strings(ranges)
	sort.Strings(removals)
	sort.Strings(mentions)
	var b strings.Builder
	b.WriteString("/-! GENERATED by go/extract/timeoutuses from pkg/station/lib (go/ast facts) — do not edit. -/\nnamespace CJ.Gen.TimeoutUses\n\n")
	b.WriteString("/-- every indexing of `.decoysTimeouts` (function:load|store|delete:class of the index expression) -/\n")
	fmt.Fprintf(&b, "def indexings : List String := %s\n\n", q(indexings))
	b.WriteString("/-- every `range` over `.decoysTimeouts`: function:appended values:slice appended to:returned -/\n")
	fmt.Fprintf(&b, "def ranges : List String := %s\n\n", q(ranges))
	b.WriteString("/-- every call of `.removeRegistration(x)`: function:class of x -/\n")
	fmt.Fprintf(&b, "def removalArgs : List String := %s\n\n", q(removals))
	b.WriteString("/-- every other mention of `.decoysTimeouts` in a function body (function:builtin applied to it | other) -/\n")
	fmt.Fprintf(&b, "def otherMentions : List String := %s\n\nend CJ.Gen.TimeoutUses\n", q(mentions))
	if err := os.WriteFile(out, []byte(b.String()), 0o644); err != nil {
		panic(err)
	}
}

// rangeFact: "append=<args of every append in the loop, `key` for the range key>:to=<targets>:ret=<returned idents>"
func rangeFact(fd *ast.FuncDecl, rs *ast.RangeStmt) string {
	key := ""
	if id, ok := rs.Key.(*ast.Ident); ok {
		key = id.Name
	}
	var apps, tos, rets []string
	ast.Inspect(rs.Body, func(n ast.Node) bool {
		as, ok := n.(*ast.AssignStmt)
		if !ok || len(as.Lhs) != 1 || len(as.Rhs) != 1 {
			return true
		}
		c, ok := as.Rhs[0].(*ast.CallExpr)
		if !ok {
			return true
		}
		if id, ok := c.Fun.(*ast.Ident); !ok || id.Name != "append" {
			return true
		}
		if l, ok := as.Lhs[0].(*ast.Ident); ok {
			tos = append(tos, l.Name)
		} else {
			tos = append(tos, "?")
		}
		for _, a := range c.Args[1:] {
			if id, ok := a.(*ast.Ident); ok && id.Name == key && key != "" && key != "_" {
				apps = append(apps, "key")
			} else {
				apps = append(apps, "?")
			}
		}
		if c.Ellipsis != token.NoPos {
			apps = append(apps, "?...")
		}
		return true
	})
	// appends to the same slices outside the loop would add foreign indices
	outside := 0
	ast.Inspect(fd.Body, func(n ast.Node) bool {
		if n == ast.Node(rs) {
			return false
		}
		if c, ok := n.(*ast.CallExpr); ok {
			if id, ok := c.Fun.(*ast.Ident); ok && id.Name == "append" {
				outside++
			}
		}
		if r, ok := n.(*ast.ReturnStmt); ok {
			for _, e := range r.Results {
				if id, ok := e.(*ast.Ident); ok {
					rets = append(rets, id.Name)
				} else {
					rets = append(rets, "?")
				}
			}
		}
		return true
	})
	return fmt.Sprintf("append=%s:to=%s:ret=%s:appendsOutside=%d", strings.Join(apps, ","), strings.Join(tos, ","), strings.Join(rets, ","), outside)
}

// removalArg: `collected` iff the argument is the value variable of `for _, x := range S` (x not assigned in the
// loop body) and S is bound exactly once in the function, by `var S = <recv>.getExpiredRegistrations()` or `S := …`.
func removalArg(fd *ast.FuncDecl, arg ast.Expr) string {
	id, ok := arg.(*ast.Ident)
	if !ok {
		return "other:expr"
	}
	if i := paramIndex(fd, id.Name); i >= 0 {
		return fmt.Sprintf("param:%d", i)
	}
	res := "other:ident"
	ast.Inspect(fd.Body, func(n ast.Node) bool {
		rs, ok := n.(*ast.RangeStmt)
		if !ok {
			return true
		}
		v, ok := rs.Value.(*ast.Ident)
		if !ok || v.Name != id.Name || assigned(rs.Body, id.Name) {
			return true
		}
		s, ok := rs.X.(*ast.Ident)
		if !ok {
			return true
		}
		if boundToCollection(fd, s.Name) {
			res = "collected"
		}
		return true
	})
	return res
}

func isCollectCall(e ast.Expr) bool {
	c, ok := e.(*ast.CallExpr)
	if !ok || len(c.Args) != 0 {
		return false
	}
	sel, ok := c.Fun.(*ast.SelectorExpr)
	return ok && sel.Sel.Name == "getExpiredRegistrations"
}

func boundToCollection(fd *ast.FuncDecl, name string) bool {
	binds, good := 0, 0
	ast.Inspect(fd.Body, func(n ast.Node) bool {
		switch x := n.(type) {
		case *ast.ValueSpec:
			for i, nm := range x.Names {
				if nm.Name == name {
					binds++
					if len(x.Values) == len(x.Names) && isCollectCall(x.Values[i]) {
						good++
					}
				}
			}
		case *ast.AssignStmt:
			for i, l := range x.Lhs {
				if id, ok := l.(*ast.Ident); ok && id.Name == name {
					binds++
					if len(x.Lhs) == len(x.Rhs) && isCollectCall(x.Rhs[i]) {
						good++
					}
				}
			}
		case *ast.CallExpr:
			// append(S, …) / passing &S would change it
			if id, ok := x.Fun.(*ast.Ident); ok && id.Name == "append" && len(x.Args) > 0 {
				if a, ok := x.Args[0].(*ast.Ident); ok && a.Name == name {
					binds++
				}
			}
		case *ast.UnaryExpr:
			if id, ok := x.X.(*ast.Ident); ok && x.Op == token.AND && id.Name == name {
				binds++
			}
		}
		return true
	})
	return binds == 1 && good == 1
}
