module timeoutuses

go 1.21
