package main

// The SIGHUP goroutine of cmd/registration-server: found by what it does (a goroutine started by main that
// receives from the channel main gave to signal.Notify), not by where it stands in the file.

import (
	"fmt"
	"go/ast"
	"go/token"
	"go/types"
	"sort"
)

type sighup struct {
	found, endless, handlesHUP bool
	where                      string
	root                       string // the name the goroutine has in the table of lock programs
	exits                      []string
	rounds                     [][]op
	errs                       []string
}

func usesObj(p *pkgInfo, n ast.Node, obj types.Object) bool {
	found := false
	ast.Inspect(n, func(m ast.Node) bool {
		if id, ok := m.(*ast.Ident); ok && p.info.Uses[id] == obj {
			found = true
		}
		return !found
	})
	return found
}

// receivesFrom: the subtree receives from the channel (<-ch, range ch, case … <-ch)
func receivesFrom(p *pkgInfo, n ast.Node, ch types.Object) bool {
	found := false
	ast.Inspect(n, func(m ast.Node) bool {
		switch v := m.(type) {
		case *ast.UnaryExpr:
			if v.Op == token.ARROW && usesObj(p, v.X, ch) {
				found = true
			}
		case *ast.RangeStmt:
			if usesObj(p, v.X, ch) {
				found = true
			}
		}
		return !found
	})
	return found
}

var fatalNames = map[string]bool{"Fatal": true, "Fatalf": true, "Fatalln": true, "Panic": true, "Panicf": true, "Panicln": true}

// exitCall: the call ends the process or the goroutine
func exitCall(p *pkgInfo, c *ast.CallExpr, withPanic bool) string {
	switch f := unparen(c.Fun).(type) {
	case *ast.Ident:
		if _, isB := p.info.Uses[f].(*types.Builtin); isB && f.Name == "panic" && withPanic {
			return "panic"
		}
	case *ast.SelectorExpr:
		if fn, ok := p.info.Uses[f.Sel].(*types.Func); ok && fn.Pkg() != nil {
			switch fn.Pkg().Path() + "." + fn.Name() {
			case "os.Exit", "runtime.Goexit", "syscall.Exit":
				return fn.Pkg().Name() + "." + fn.Name()
			}
		}
		if fatalNames[f.Sel.Name] {
			if f.Sel.Name[0] == 'P' && !withPanic {
				return ""
			}
			return "." + f.Sel.Name
		}
	}
	return ""
}

// calleeExits: exit calls inside a function of the repository and the functions it calls
func calleeExits(x *ex, fi *funcInfo, depth int, seen map[*ast.FuncDecl]bool, via string, out *[]string) {
	if seen[fi.decl] || depth > 8 {
		return
	}
	seen[fi.decl] = true
	saveP, saveF := x.cur, x.curFn
	defer func() { x.cur, x.curFn = saveP, saveF }()
	x.cur, x.curFn = fi.pkg, fi.decl
	ast.Inspect(fi.decl.Body, func(n ast.Node) bool {
		c, ok := n.(*ast.CallExpr)
		if !ok {
			return true
		}
		if k := exitCall(fi.pkg, c, fi.pkg.root); k != "" {
			*out = append(*out, fmt.Sprintf("%s@%s (in %s, called %s)", k, x.w.pos(c), fi.key, via))
		}
		x.cur, x.curFn = fi.pkg, fi.decl
		fis, _, _ := x.callees(c)
		for _, g := range fis {
			calleeExits(x, g, depth+1, seen, via, out)
		}
		return true
	})
}

func analyseSighup(x *ex, mp *pkgInfo) sighup {
	var sh sighup
	var mainFn *ast.FuncDecl
	for _, af := range mp.files {
		for _, d := range af.Decls {
			if fd, ok := d.(*ast.FuncDecl); ok && fd.Recv == nil && fd.Name.Name == "main" && fd.Body != nil {
				mainFn = fd
			}
		}
	}
	if mainFn == nil {
		sh.errs = append(sh.errs, "cmd/registration-server has no func main")
		return sh
	}
	// channels given to signal.Notify
	var chans []types.Object
	ast.Inspect(mainFn.Body, func(n ast.Node) bool {
		c, ok := n.(*ast.CallExpr)
		if !ok || len(c.Args) == 0 {
			return true
		}
		if sel, ok := unparen(c.Fun).(*ast.SelectorExpr); ok {
			if fn, ok := mp.info.Uses[sel.Sel].(*types.Func); ok && fn.Pkg() != nil && fn.Pkg().Path() == "os/signal" && fn.Name() == "Notify" {
				if id, ok := unparen(c.Args[0]).(*ast.Ident); ok {
					if o := mp.info.Uses[id]; o != nil {
						chans = append(chans, o)
					}
				}
			}
		}
		return true
	})
	// the goroutine that receives from one of them
	var body *ast.BlockStmt
	var bodyPkg *pkgInfo
	var bodyFn *ast.FuncDecl
	var ch types.Object
	ast.Inspect(mainFn.Body, func(n ast.Node) bool {
		g, ok := n.(*ast.GoStmt)
		if !ok || body != nil {
			return true
		}
		if fl, ok := unparen(g.Call.Fun).(*ast.FuncLit); ok {
			for _, c := range chans {
				if receivesFrom(mp, fl.Body, c) {
					body, bodyPkg, bodyFn, ch = fl.Body, mp, mainFn, c
					sh.where = x.w.pos(g)
					sh.root = "go@" + x.w.pos(g)
				}
			}
			return true
		}
		// go handle(ch, …): the channel is a parameter of the callee
		x.cur, x.curFn = mp, mainFn
		fis, _, _ := x.callees(g.Call)
		for _, fi := range fis {
			for ai, a := range g.Call.Args {
				id, ok := unparen(a).(*ast.Ident)
				if !ok {
					continue
				}
				for _, c := range chans {
					if mp.info.Uses[id] != c {
						continue
					}
					// the ai-th parameter
					k := 0
					for _, fld := range fi.decl.Type.Params.List {
						for _, nm := range fld.Names {
							if k == ai {
								if po := fi.pkg.info.Defs[nm]; po != nil && receivesFrom(fi.pkg, fi.decl.Body, po) {
									body, bodyPkg, bodyFn, ch = fi.decl.Body, fi.pkg, fi.decl, po
									sh.where = x.w.pos(g)
									sh.root = "go " + fi.key + "@" + x.w.pos(g)
								}
							}
							k++
						}
					}
				}
			}
		}
		return true
	})
	if body == nil {
		return sh
	}
	sh.found = true
	// the loop: the first top-level statement of the goroutine that receives from the channel
	var loopBody *ast.BlockStmt
	var loopLabel string
	endless := false
	before := true
	for _, st := range body.List {
		s := st
		label := ""
		if ls, ok := s.(*ast.LabeledStmt); ok {
			label, s = ls.Label.Name, ls.Stmt
		}
		switch v := s.(type) {
		case *ast.ForStmt:
			if receivesFrom(bodyPkg, v, ch) {
				loopBody, loopLabel, endless, before = v.Body, label, v.Cond == nil, false
			}
		case *ast.RangeStmt:
			if usesObj(bodyPkg, v.X, ch) {
				// ranges over the signal channel: endless as long as nobody closes it
				closed := false
				for _, af := range bodyPkg.files {
					ast.Inspect(af, func(n ast.Node) bool {
						if c, ok := n.(*ast.CallExpr); ok {
							if id, ok := unparen(c.Fun).(*ast.Ident); ok && id.Name == "close" && len(c.Args) == 1 && usesObj(bodyPkg, c.Args[0], ch) {
								closed = true
							}
						}
						return true
					})
				}
				loopBody, loopLabel, endless, before = v.Body, label, !closed, false
			}
		}
		if loopBody != nil {
			break
		}
		if before && (containsFlow(st) || hasExitCall(x, bodyPkg, bodyFn, st)) {
			sh.exits = append(sh.exits, "the goroutine may end before it enters the loop@"+x.w.pos(st))
		}
	}
	if loopBody == nil {
		sh.errs = append(sh.errs, x.w.pos(body)+": the goroutine that receives the reload signal has no top-level loop around the receive")
		return sh
	}
	sh.endless = endless
	ast.Inspect(loopBody, func(n ast.Node) bool {
		if s, ok := n.(*ast.SelectorExpr); ok && s.Sel.Name == "SIGHUP" {
			sh.handlesHUP = true
		}
		return true
	})

	// ---- what could leave the loop
	innerLabels := map[string]bool{}
	ast.Inspect(loopBody, func(n ast.Node) bool {
		if ls, ok := n.(*ast.LabeledStmt); ok {
			innerLabels[ls.Label.Name] = true
		}
		return true
	})
	seen := map[*ast.FuncDecl]bool{}
	var scan func(n ast.Node, breakable int, inLit bool)
	scan = func(n ast.Node, breakable int, inLit bool) {
		if n == nil {
			return
		}
		switch v := n.(type) {
		case *ast.FuncLit:
			scan(v.Body, 0, true)
			return
		case *ast.ReturnStmt:
			if !inLit {
				sh.exits = append(sh.exits, "return@"+x.w.pos(v))
			}
		case *ast.BranchStmt:
			if inLit {
				return
			}
			switch v.Tok {
			case token.BREAK:
				if v.Label != nil {
					if !innerLabels[v.Label.Name] {
						sh.exits = append(sh.exits, "break "+v.Label.Name+"@"+x.w.pos(v))
					}
				} else if breakable == 0 {
					sh.exits = append(sh.exits, "break@"+x.w.pos(v))
				}
			case token.GOTO:
				sh.exits = append(sh.exits, "goto@"+x.w.pos(v))
			case token.CONTINUE:
				if v.Label != nil && !innerLabels[v.Label.Name] && v.Label.Name != loopLabel {
					sh.exits = append(sh.exits, "continue "+v.Label.Name+"@"+x.w.pos(v))
				}
			}
			return
		case *ast.ForStmt:
			scan(v.Init, breakable, inLit)
			scan(v.Cond, breakable, inLit)
			scan(v.Post, breakable, inLit)
			scan(v.Body, breakable+1, inLit)
			return
		case *ast.RangeStmt:
			scan(v.X, breakable, inLit)
			scan(v.Body, breakable+1, inLit)
			return
		case *ast.SwitchStmt:
			scan(v.Init, breakable, inLit)
			scan(v.Tag, breakable, inLit)
			scan(v.Body, breakable+1, inLit)
			return
		case *ast.TypeSwitchStmt:
			scan(v.Init, breakable, inLit)
			scan(v.Assign, breakable, inLit)
			scan(v.Body, breakable+1, inLit)
			return
		case *ast.SelectStmt:
			scan(v.Body, breakable+1, inLit)
			return
		case *ast.CallExpr:
			if k := exitCall(bodyPkg, v, true); k != "" {
				sh.exits = append(sh.exits, k+"@"+x.w.pos(v))
			}
			x.cur, x.curFn = bodyPkg, bodyFn
			fis, _, _ := x.callees(v)
			for _, fi := range fis {
				calleeExits(x, fi, 0, seen, "at "+x.w.pos(v), &sh.exits)
			}
		}
		// children
		ast.Inspect(n, func(m ast.Node) bool {
			if m == n || m == nil {
				return true
			}
			scan(m, breakable, inLit)
			return false
		})
	}
	scan(loopBody, 0, false)
	sort.Strings(sh.exits)

	// ---- one round of the loop: lock operations and writes to the registrar's objects
	x.trackWrites = true
	x.memo = map[ast.Node]bool{}
	x.cur, x.curFn = bodyPkg, bodyFn
	var rets, brk, cont []state
	x.ret = &rets
	x.tgt = []targets{{brk: &brk, cont: &cont}}
	if loopLabel != "" {
		x.labels[loopLabel] = x.tgt[0]
	}
	out := x.stmts(loopBody.List, []state{{}})
	x.tgt = nil
	all := append(append(append(out, cont...), brk...), rets...)
	seenR := map[string]bool{}
	for _, s := range all {
		k := opsKey(s.ops)
		if !seenR[k] {
			seenR[k] = true
			sh.rounds = append(sh.rounds, s.ops)
		}
	}
	sort.Slice(sh.rounds, func(i, j int) bool { return opsKey(sh.rounds[i]) < opsKey(sh.rounds[j]) })
	x.trackWrites = false
	x.memo = map[ast.Node]bool{}
	return sh
}

func hasExitCall(x *ex, p *pkgInfo, fn *ast.FuncDecl, n ast.Node) bool {
	found := false
	ast.Inspect(n, func(m ast.Node) bool {
		if c, ok := m.(*ast.CallExpr); ok && exitCall(p, c, true) != "" {
			found = true
		}
		return !found
	})
	return found
}
