// reloadpath: fact extractor (go/ast + go/types, standard library only) for C13 - the reload path of the
// registration server as a whole.
//
//	usage: reloadpath <repo> <out.lean>
//
// Scope: cmd/registration-server and every package of the repository it imports, transitively.
//
//  1. Lock programs. Roots are the entry points of cmd/registration-server and pkg/regserver/* (exported
//     functions and methods, main / init, every function whose value is taken - HTTP handlers, the DNS
//     responder's callback -, every goroutine started and every closure created on the way, among them the
//     SIGHUP goroutine of main). For each root, every path: the operations on every sync.Mutex / sync.RWMutex
//     of the repository it reaches, in execution order, callees inlined across packages (a call made while a
//     lock is held contributes the callee's acquisitions nested inside), defer expanded. Mutexes are
//     identified by owner type and field. Every lock-operation call site on one of these mutexes anywhere in
//     scope has to be visited from a root (coverage), and no function value may be called while a lock is held
//     (the walker could not follow it).
//  2. The SIGHUP goroutine: the goroutine of main that receives from the channel given to signal.Notify. Is its
//     loop endless; which statements could leave it (return, break, goto, os.Exit, log.Fatal*, panic,
//     runtime.Goexit - also inside the functions of the repository it calls); and, per path through one round
//     of the loop, the lock operations and the writes to fields of the registrar's objects in execution order
//     (where the phantom selector is replaced, where the ClientConf generation is published).
package main

import (
	"fmt"
	"go/ast"
	"go/token"
	"go/types"
	"os"
	"path/filepath"
	"sort"
	"strings"
)

func isRootDir(repo, dir string) bool {
	rel, err := filepath.Rel(repo, dir)
	if err != nil {
		return false
	}
	rel = filepath.ToSlash(rel)
	return rel == "cmd/registration-server" || strings.HasPrefix(rel, "pkg/regserver/")
}

func funcKey(p *pkgInfo, fd *ast.FuncDecl) string {
	k := p.tpkg.Name() + "."
	if fd.Recv != nil && len(fd.Recv.List) == 1 {
		t := fd.Recv.List[0].Type
		for {
			switch v := t.(type) {
			case *ast.StarExpr:
				t = v.X
				continue
			case *ast.ParenExpr:
				t = v.X
				continue
			case *ast.IndexExpr:
				t = v.X
				continue
			}
			break
		}
		if id, ok := t.(*ast.Ident); ok {
			k += id.Name + "."
		}
	}
	return k + fd.Name.Name
}

type program struct {
	root string
	ops  []op
}

func main() {
	if len(os.Args) != 3 {
		fmt.Fprintln(os.Stderr, "usage: reloadpath <repo> <out.lean>")
		os.Exit(2)
	}
	repo, _ := filepath.Abs(os.Args[1])
	w := newWorld(repo)
	mainDir := filepath.Join(repo, "cmd", "registration-server")
	mainPath := w.pathOfDir(mainDir)
	if mainPath == "" {
		fmt.Fprintln(os.Stderr, "cannot find the module of cmd/registration-server")
		os.Exit(1)
	}
	mp, err := w.load(mainPath, mainDir)
	if err != nil || mp == nil {
		fmt.Fprintln(os.Stderr, "cannot load cmd/registration-server:", err)
		os.Exit(1)
	}
	// the registrar packages are roots even if main stops importing one of them
	dirs, _ := filepath.Glob(filepath.Join(repo, "pkg", "regserver", "*"))
	for _, d := range dirs {
		if st, err := os.Stat(d); err == nil && st.IsDir() {
			if p := w.pathOfDir(d); p != "" {
				_, _ = w.load(p, d)
			}
		}
	}
	x := &ex{w: w, funcs: map[*types.Func]*funcInfo{}, mutexIdx: map[string]int{}, memo: map[ast.Node]bool{}, busy: map[*ast.FuncDecl]bool{},
		visited: map[token.Pos]bool{}, opaque: map[string]bool{}, seenRoots: map[token.Pos]bool{}, writePkgs: map[string]bool{}, labels: map[string]targets{}}
	sort.Strings(w.order)
	for _, path := range w.order {
		p := w.pkgs[path]
		p.root = isRootDir(repo, p.dir)
		if p.root {
			x.writePkgs[path] = true
		}
		for _, af := range p.files {
			for _, d := range af.Decls {
				fd, ok := d.(*ast.FuncDecl)
				if !ok || fd.Body == nil {
					continue
				}
				if obj, ok := p.info.Defs[fd.Name].(*types.Func); ok {
					x.funcs[obj] = &funcInfo{key: funcKey(p, fd), decl: fd, pkg: p, obj: obj}
				}
			}
		}
		if p.tpkg != nil {
			sc := p.tpkg.Scope()
			for _, n := range sc.Names() {
				if tn, ok := sc.Lookup(n).(*types.TypeName); ok && !tn.IsAlias() {
					if nt, ok := tn.Type().(*types.Named); ok {
						x.named = append(x.named, nt)
					}
				}
			}
		}
	}
	if m, _ := isSyncMutex(lookupSync(w)); !m {
		fmt.Fprintln(os.Stderr, "cannot type-check package sync from source: the extractor would not recognise mutex operations")
		os.Exit(1)
	}

	// ---- roots
	var roots []rootBody
	rootSeen := map[*ast.FuncDecl]bool{}
	addFunc := func(fi *funcInfo, why string) {
		if rootSeen[fi.decl] {
			return
		}
		rootSeen[fi.decl] = true
		roots = append(roots, rootBody{name: fi.key + why, body: fi.decl.Body, pkg: fi.pkg, fn: fi.decl})
	}
	var fis []*funcInfo
	for _, fi := range x.funcs {
		fis = append(fis, fi)
	}
	sort.Slice(fis, func(i, j int) bool { return fis[i].key < fis[j].key })
	for _, fi := range fis {
		n := fi.decl.Name.Name
		if fi.pkg.root && (ast.IsExported(n) || (fi.decl.Recv == nil && (n == "main" || n == "init"))) {
			addFunc(fi, "")
		}
	}
	// functions whose value is taken in a root package (handlers, callbacks)
	for _, path := range w.order {
		p := w.pkgs[path]
		if !p.root {
			continue
		}
		for _, af := range p.files {
			callFuns := map[ast.Expr]bool{}
			ast.Inspect(af, func(n ast.Node) bool {
				if c, ok := n.(*ast.CallExpr); ok {
					callFuns[unparen(c.Fun)] = true
				}
				return true
			})
			ast.Inspect(af, func(n ast.Node) bool {
				var obj types.Object
				var e ast.Expr
				switch v := n.(type) {
				case *ast.SelectorExpr:
					e = v
					if s := p.info.Selections[v]; s != nil && s.Kind() == types.MethodVal {
						obj = s.Obj()
					} else if s == nil {
						obj = p.info.Uses[v.Sel]
					}
				case *ast.Ident:
					e = v
					obj = p.info.Uses[v]
				default:
					return true
				}
				fn, ok := obj.(*types.Func)
				if !ok || callFuns[e] {
					return true
				}
				if id, isId := e.(*ast.Ident); isId {
					// the Sel of a selector that is itself the callee is visited as an Ident as well
					for c := range callFuns {
						if s, ok := c.(*ast.SelectorExpr); ok && s.Sel == id {
							return true
						}
					}
				}
				if fi := x.funcs[fn.Origin()]; fi != nil {
					addFunc(fi, "")
				}
				return true
			})
		}
	}

	// ---- walk (lock operations only)
	var progs []program
	var rootNames []string
	walk := func(r rootBody) {
		x.cur, x.curFn = r.pkg, r.fn
		if !x.hasOps(r.body) {
			// still look for goroutines and closures below it
			x.stmts(r.body.List, []state{{}})
			return
		}
		rootNames = append(rootNames, r.name)
		seen := map[string]bool{}
		for _, e := range x.run(r.body, state{}, r.pkg, r.fn) {
			k := opsKey(e.ops)
			if seen[k] {
				continue
			}
			seen[k] = true
			progs = append(progs, program{r.name, e.ops})
		}
	}
	for _, r := range roots {
		var sink []state
		x.ret = &sink
		walk(r)
	}
	for i := 0; i < len(x.extraRoots) && i < 500; i++ {
		var sink []state
		x.ret = &sink
		walk(x.extraRoots[i])
	}

	// ---- coverage: every lock-operation call site on a mutex of the table is visited or on a fresh object
	type cov struct{ total, ok int }
	covs := map[string]*cov{}
	var missing []string
	for _, path := range w.order {
		p := w.pkgs[path]
		for _, af := range p.files {
			for _, d := range af.Decls {
				fd, ok := d.(*ast.FuncDecl)
				if !ok || fd.Body == nil {
					continue
				}
				x.cur, x.curFn = p, fd
				ast.Inspect(fd.Body, func(n ast.Node) bool {
					c, ok := n.(*ast.CallExpr)
					if !ok {
						return true
					}
					_, id, _, recv, isM := x.mutexOf(c)
					if !isM {
						return true
					}
					if _, known := x.mutexIdx[id]; !known {
						return true
					}
					cv := covs[id]
					if cv == nil {
						cv = &cov{}
						covs[id] = cv
					}
					cv.total++
					switch {
					case x.visited[c.Pos()], x.isFresh(recv):
						cv.ok++
					default:
						missing = append(missing, fmt.Sprintf("%s: operation on %s that no root reaches", w.pos(c), id))
					}
					return true
				})
			}
		}
	}

	// ---- the SIGHUP goroutine
	sh := analyseSighup(x, mp)

	errs := append([]string(nil), x.errs...)
	errs = append(errs, sh.errs...)
	if len(progs) == 0 {
		errs = append(errs, "no root reaches a mutex")
	}
	if len(errs) > 0 {
		fmt.Fprintln(os.Stderr, "reloadpath: extraction failed:\n"+strings.Join(errs, "\n"))
		os.Exit(1)
	}

	// ---- stable mutex numbering (sorted by name)
	names := append([]string(nil), x.mutexNames...)
	sort.Strings(names)
	newIdx := map[int]int{}
	for old, n := range x.mutexNames {
		for i, m := range names {
			if m == n {
				newIdx[old] = i
			}
		}
	}
	rwOf := map[string]bool{}
	for i, n := range x.mutexNames {
		rwOf[n] = x.mutexRW[i]
	}
	leanOps := func(ops []op) string {
		var f []string
		for _, o := range ops {
			if o.mu >= 0 {
				f = append(f, fmt.Sprintf("(%d, .%s)", newIdx[o.mu], o.kind))
			}
		}
		return "[" + strings.Join(f, ", ") + "]"
	}
	leanEffs := func(ops []op) string {
		var f []string
		for _, o := range ops {
			if o.mu >= 0 {
				f = append(f, fmt.Sprintf(".lk %d .%s", newIdx[o.mu], o.kind))
			} else {
				f = append(f, fmt.Sprintf(".wr %q", o.kind))
			}
		}
		return "[" + strings.Join(f, ", ") + "]"
	}
	strList := func(l []string) string {
		var f []string
		for _, s := range l {
			f = append(f, fmt.Sprintf("%q", s))
		}
		return "[" + strings.Join(f, ", ") + "]"
	}
	sort.SliceStable(progs, func(i, j int) bool { return progs[i].root < progs[j].root })
	var b strings.Builder
	b.WriteString("import CJ.Model.ReloadPath\n")
	b.WriteString("/-! GENERATED on every run of `./check C13` by go/extract/reloadpath (go/ast + go/types) from\n")
	b.WriteString("cmd/registration-server and every package of the repository it imports — do not edit.\n")
	b.WriteString("`lockPaths`: per entry point of cmd/registration-server and pkg/regserver/* (exported functions and methods,\n")
	b.WriteString("functions whose value is taken, goroutines, closures), every path: the operations on every mutex of the\n")
	b.WriteString("repository it reaches (index into `mutexes`), callees inlined across packages, `defer` expanded, loops taken\n")
	b.WriteString("0, 1 and 2 times.  `sighup*`: the goroutine of main that receives the reload signal. -/\n")
	b.WriteString("namespace CJ.Gen.ReloadPath\nopen CJ.RW CJ.ReloadPath\n\n")
	b.WriteString("/-- the mutexes the entry points reach: owner type and field, and whether it is a `sync.RWMutex` -/\n")
	b.WriteString("def mutexes : List (String × Bool) := [\n")
	for i, n := range names {
		sep := ","
		if i == len(names)-1 {
			sep = ""
		}
		fmt.Fprintf(&b, "  (%q, %v)%s\n", n, rwOf[n], sep)
	}
	b.WriteString("]\n\n")
	b.WriteString("def lockPaths : List (String × List (Nat × Op)) := [\n")
	for i, p := range progs {
		sep := ","
		if i == len(progs)-1 {
			sep = ""
		}
		fmt.Fprintf(&b, "  (%q, %s)%s\n", p.root, leanOps(p.ops), sep)
	}
	b.WriteString("]\n\n")
	var opq []string
	for k := range x.opaque {
		opq = append(opq, k)
	}
	sort.Strings(opq)
	b.WriteString("/-- calls through a function value made while a lock is held (the walker cannot follow them) -/\n")
	b.WriteString("def opaqueCallsUnderLock : List String := " + strList(opq) + "\n\n")
	b.WriteString("/-- per mutex: lock-operation call sites in scope, and how many of them a root visits (or are on an object under construction) -/\n")
	b.WriteString("def coverage : List (String × Nat × Nat) := [\n")
	for i, n := range names {
		sep := ","
		if i == len(names)-1 {
			sep = ""
		}
		cv := covs[n]
		if cv == nil {
			cv = &cov{}
		}
		fmt.Fprintf(&b, "  (%q, %d, %d)%s\n", n, cv.total, cv.ok, sep)
	}
	b.WriteString("]\n\n")
	sort.Strings(missing)
	b.WriteString("def unreached : List String := " + strList(missing) + "\n\n")
	fmt.Fprintf(&b, "/-- the goroutine of `main` that receives from the channel given to `signal.Notify` (%s) -/\n", sh.where)
	fmt.Fprintf(&b, "def sighupFound : Bool := %v\n", sh.found)
	fmt.Fprintf(&b, "/-- its name in `lockPaths` -/\ndef sighupRoot : String := %q\n", sh.root)
	fmt.Fprintf(&b, "/-- its loop has no condition (and the goroutine does nothing that could end before it enters the loop) -/\n")
	fmt.Fprintf(&b, "def sighupEndless : Bool := %v\n", sh.endless)
	b.WriteString("/-- statements that leave the loop or end the goroutine / the process, in the loop body and in the functions of the repository it calls -/\n")
	b.WriteString("def sighupExits : List String := " + strList(sh.exits) + "\n")
	b.WriteString("/-- the reload is handled in the loop body itself, for the signal SIGHUP -/\n")
	fmt.Fprintf(&b, "def sighupHandlesSIGHUP : Bool := %v\n\n", sh.handlesHUP)
	b.WriteString("/-- per path through one round of the loop: lock operations and writes to fields of the registrar's objects -/\n")
	b.WriteString("def sighupRounds : List (List Eff) := [\n")
	for i, r := range sh.rounds {
		sep := ","
		if i == len(sh.rounds)-1 {
			sep = ""
		}
		fmt.Fprintf(&b, "  %s%s\n", leanEffs(r), sep)
	}
	b.WriteString("]\n\nend CJ.Gen.ReloadPath\n")
	if err := os.WriteFile(os.Args[2], []byte(b.String()), 0o644); err != nil {
		fmt.Fprintln(os.Stderr, err)
		os.Exit(1)
	}
	fmt.Printf("reloadpath: %d packages, %d roots with lock operations, %d programs, %d mutexes, %d SIGHUP rounds\n", len(w.order), len(rootNames), len(progs), len(names), len(sh.rounds))
}

func lookupSync(w *world) types.Type {
	p, err := w.std.Import("sync")
	if err != nil || p == nil {
		return types.Typ[types.Invalid]
	}
	o := p.Scope().Lookup("RWMutex")
	if o == nil {
		return types.Typ[types.Invalid]
	}
	return o.Type()
}
