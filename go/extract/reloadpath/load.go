package main

// Loading: the packages of the repository's module that cmd/registration-server imports (transitively),
// parsed (non-test files that the default build selects) and type-checked with go/types. Standard-library
// imports are type-checked from source; third-party imports are empty stand-ins (their types are
// "invalid", calls into them have no callee in scope) and type errors are ignored: what the extractor needs
// is the identity of functions, methods, struct fields and variables *declared in the repository*.

import (
	"fmt"
	"go/ast"
	"go/build"
	"go/importer"
	"go/parser"
	"go/token"
	"go/types"
	"os"
	"path/filepath"
	"sort"
	"strings"
)

type pkgInfo struct {
	path  string
	dir   string
	files []*ast.File
	tpkg  *types.Package
	info  *types.Info
	root  bool // a package whose entry points are roots (cmd/registration-server, pkg/regserver/*)
}

type world struct {
	fset    *token.FileSet
	repo    string
	modules map[string]string // module path -> directory
	pkgs    map[string]*pkgInfo
	order   []string
	std     types.Importer
	fake    map[string]*types.Package
	loading map[string]bool
	errs    []string
}

func modulePath(gomod string) string {
	b, err := os.ReadFile(gomod)
	if err != nil {
		return ""
	}
	for _, ln := range strings.Split(string(b), "\n") {
		ln = strings.TrimSpace(ln)
		if strings.HasPrefix(ln, "module ") {
			return strings.TrimSpace(strings.TrimPrefix(ln, "module "))
		}
	}
	return ""
}

func newWorld(repo string) *world {
	w := &world{fset: token.NewFileSet(), repo: repo, modules: map[string]string{}, pkgs: map[string]*pkgInfo{},
		fake: map[string]*types.Package{}, loading: map[string]bool{}}
	// the modules of the workspace: the root module and the ones under cmd/
	if m := modulePath(filepath.Join(repo, "go.mod")); m != "" {
		w.modules[m] = repo
	}
	subs, _ := filepath.Glob(filepath.Join(repo, "cmd", "*", "go.mod"))
	for _, g := range subs {
		if m := modulePath(g); m != "" {
			w.modules[m] = filepath.Dir(g)
		}
	}
	w.std = importer.ForCompiler(w.fset, "source", nil)
	return w
}

// dirOf: the directory of an import path inside the workspace ("" = not ours). The longest module path wins.
func (w *world) dirOf(path string) string {
	best, dir := "", ""
	for m, d := range w.modules {
		if (path == m || strings.HasPrefix(path, m+"/")) && len(m) > len(best) {
			best, dir = m, filepath.Join(d, strings.TrimPrefix(strings.TrimPrefix(path, m), "/"))
		}
	}
	if best == "" {
		return ""
	}
	if st, err := os.Stat(dir); err != nil || !st.IsDir() {
		return ""
	}
	return dir
}

func (w *world) pathOfDir(dir string) string {
	best, p := "", ""
	for m, d := range w.modules {
		if (dir == d || strings.HasPrefix(dir, d+string(filepath.Separator))) && len(d) > len(best) {
			best = d
			p = m + filepath.ToSlash(strings.TrimPrefix(dir, d))
		}
	}
	return p
}

func (w *world) Import(path string) (*types.Package, error) {
	if path == "unsafe" {
		return types.Unsafe, nil
	}
	if path == "C" {
		return w.fakePkg(path), nil
	}
	if dir := w.dirOf(path); dir != "" {
		p, err := w.load(path, dir)
		if err != nil || p == nil {
			return w.fakePkg(path), nil
		}
		return p.tpkg, nil
	}
	if first := strings.SplitN(path, "/", 2)[0]; !strings.Contains(first, ".") {
		if p, err := w.std.Import(path); err == nil {
			return p, nil
		}
	}
	return w.fakePkg(path), nil
}

func (w *world) fakePkg(path string) *types.Package {
	if p, ok := w.fake[path]; ok {
		return p
	}
	name := path[strings.LastIndex(path, "/")+1:]
	if len(name) > 1 && name[0] == 'v' && strings.Trim(name[1:], "0123456789") == "" {
		// …/v2: the package is named after the element before
		rest := strings.TrimSuffix(path, "/"+name)
		name = rest[strings.LastIndex(rest, "/")+1:]
	}
	name = strings.TrimPrefix(name, "go-")
	name = strings.ReplaceAll(name, "-", "_")
	name = strings.ReplaceAll(name, ".", "_")
	p := types.NewPackage(path, name)
	p.MarkComplete()
	w.fake[path] = p
	return p
}

func (w *world) load(path, dir string) (*pkgInfo, error) {
	if p, ok := w.pkgs[path]; ok {
		return p, nil
	}
	if w.loading[path] {
		return nil, fmt.Errorf("import cycle through %s", path)
	}
	w.loading[path] = true
	defer delete(w.loading, path)
	names, _ := filepath.Glob(filepath.Join(dir, "*.go"))
	sort.Strings(names)
	ctx := build.Default
	p := &pkgInfo{path: path, dir: dir}
	pkgName := ""
	for _, f := range names {
		base := filepath.Base(f)
		if strings.HasSuffix(base, "_test.go") {
			continue
		}
		if ok, err := ctx.MatchFile(dir, base); err != nil || !ok {
			continue
		}
		af, err := parser.ParseFile(w.fset, f, nil, parser.SkipObjectResolution)
		if err != nil {
			return nil, err
		}
		if af.Name.Name == "main" && pkgName != "" && pkgName != "main" {
			continue
		}
		if pkgName == "" {
			pkgName = af.Name.Name
		}
		if af.Name.Name != pkgName {
			continue
		}
		p.files = append(p.files, af)
	}
	if len(p.files) == 0 {
		return nil, nil
	}
	p.info = &types.Info{Types: map[ast.Expr]types.TypeAndValue{}, Defs: map[*ast.Ident]types.Object{}, Uses: map[*ast.Ident]types.Object{},
		Selections: map[*ast.SelectorExpr]*types.Selection{}, Implicits: map[ast.Node]types.Object{}}
	conf := types.Config{Importer: w, Error: func(error) {}, FakeImportC: true, DisableUnusedImportCheck: true}
	tp, _ := conf.Check(path, w.fset, p.files, p.info)
	p.tpkg = tp
	w.pkgs[path] = p
	w.order = append(w.order, path)
	return p, nil
}

func (w *world) pos(n ast.Node) string {
	p := w.fset.Position(n.Pos())
	rel, err := filepath.Rel(w.repo, p.Filename)
	if err != nil {
		rel = p.Filename
	}
	return fmt.Sprintf("%s:%d", filepath.ToSlash(rel), p.Line)
}
