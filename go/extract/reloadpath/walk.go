package main

// The path walker: for a function body, every sequence of operations on sync.Mutex / sync.RWMutex objects
// (and, in write mode, of writes to fields of the registrar's objects) along one path, with the calls it
// makes into the repository inlined - across packages, through interfaces (every type of the repository that
// has the interface's methods is a candidate) and through deferred calls and closures. Loops are taken 0, 1
// and 2 times (an acquisition that is not released inside the body shows up as a nested acquisition in the
// second round), switch / select clauses are alternatives.

import (
	"fmt"
	"go/ast"
	"go/token"
	"go/types"
	"sort"
	"strings"
)

type op struct {
	mu   int    // index into ex.mutexNames; -1 for a write
	kind string // rlock runlock lock unlock tryrlock trylock | the field written
}

type state struct {
	ops    []op
	defers [][]op
	cut    bool // the path is inside a loop that never ends: the function does not return
}

func (s state) clone() state {
	c := state{ops: append([]op(nil), s.ops...), cut: s.cut}
	for _, d := range s.defers {
		c.defers = append(c.defers, append([]op(nil), d...))
	}
	return c
}

func opsKey(ops []op) string {
	var b strings.Builder
	for _, o := range ops {
		fmt.Fprintf(&b, "%d:%s,", o.mu, o.kind)
	}
	return b.String()
}

func (s state) key() string {
	k := opsKey(s.ops) + "|"
	for _, d := range s.defers {
		k += opsKey(d) + ";"
	}
	if s.cut {
		k += "!"
	}
	return k
}

func dedup(in []state) []state {
	seen := map[string]bool{}
	var out []state
	for _, s := range in {
		k := s.key()
		if !seen[k] {
			seen[k] = true
			out = append(out, s)
		}
	}
	return out
}

func (s state) held() []int {
	cnt := map[int]int{}
	for _, o := range s.ops {
		switch o.kind {
		case "rlock", "lock", "tryrlock", "trylock":
			cnt[o.mu]++
		case "runlock", "unlock":
			cnt[o.mu]--
		}
	}
	var h []int
	for m, c := range cnt {
		if c > 0 {
			h = append(h, m)
		}
	}
	sort.Ints(h)
	return h
}

type funcInfo struct {
	key  string
	decl *ast.FuncDecl
	pkg  *pkgInfo
	obj  *types.Func
}

type targets struct {
	brk, cont *[]state
}

type ex struct {
	w           *world
	funcs       map[*types.Func]*funcInfo
	named       []*types.Named
	mutexNames  []string
	mutexRW     []bool
	mutexIdx    map[string]int
	trackWrites bool
	writePkgs   map[string]bool // packages whose struct fields are tracked in write mode
	memo        map[ast.Node]bool
	busy        map[*ast.FuncDecl]bool
	errs        []string
	visited     map[token.Pos]bool
	opaque      map[string]bool
	depth       int
	cur         *pkgInfo
	curFn       *ast.FuncDecl
	ret         *[]state
	tgt         []targets
	labels      map[string]targets
	extraRoots  []rootBody
	seenRoots   map[token.Pos]bool
	fall        *[]state // states that leave a switch clause through fallthrough
}

type rootBody struct {
	name string
	body *ast.BlockStmt
	pkg  *pkgInfo
	fn   *ast.FuncDecl
}

func (x *ex) fail(n ast.Node, msg string) {
	x.errs = append(x.errs, fmt.Sprintf("%s: %s", x.w.pos(n), msg))
}

func unparen(e ast.Expr) ast.Expr {
	for {
		p, ok := e.(*ast.ParenExpr)
		if !ok {
			return e
		}
		e = p.X
	}
}

func typeKey(t types.Type) string {
	for {
		if p, ok := t.(*types.Pointer); ok {
			t = p.Elem()
			continue
		}
		break
	}
	if n, ok := t.(*types.Named); ok {
		if n.Obj().Pkg() != nil {
			return n.Obj().Pkg().Name() + "." + n.Obj().Name()
		}
		return n.Obj().Name()
	}
	return ""
}

func isSyncMutex(t types.Type) (bool, bool) {
	for {
		if p, ok := t.(*types.Pointer); ok {
			t = p.Elem()
			continue
		}
		break
	}
	n, ok := t.(*types.Named)
	if !ok || n.Obj().Pkg() == nil || n.Obj().Pkg().Path() != "sync" {
		return false, false
	}
	switch n.Obj().Name() {
	case "Mutex":
		return true, false
	case "RWMutex":
		return true, true
	}
	return false, false
}

var lockOps = map[string]string{"RLock": "rlock", "RUnlock": "runlock", "Lock": "lock", "Unlock": "unlock", "TryRLock": "tryrlock", "TryLock": "trylock"}

// baseIdent: the identifier an access path starts from (x in x.a.b[i].c)
func baseIdent(e ast.Expr) *ast.Ident {
	for {
		switch v := unparen(e).(type) {
		case *ast.Ident:
			return v
		case *ast.SelectorExpr:
			e = v.X
		case *ast.IndexExpr:
			e = v.X
		case *ast.StarExpr:
			e = v.X
		case *ast.UnaryExpr:
			e = v.X
		default:
			return nil
		}
	}
}

// isFresh: the access path starts from a local variable that this function has just constructed (composite
// literal, &composite literal, new): the object is not shared yet, operations on it carry no obligation.
func (x *ex) isFresh(e ast.Expr) bool {
	id := baseIdent(e)
	if id == nil || x.curFn == nil {
		return false
	}
	obj, _ := x.cur.info.Uses[id].(*types.Var)
	if obj == nil || obj.IsField() || obj.Parent() == nil || obj.Parent() == x.cur.tpkg.Scope() {
		return false
	}
	fresh := false
	ast.Inspect(x.curFn, func(n ast.Node) bool {
		as, ok := n.(*ast.AssignStmt)
		if !ok || as.Tok != token.DEFINE {
			if vs, ok := n.(*ast.ValueSpec); ok {
				for i, nm := range vs.Names {
					if x.cur.info.Defs[nm] == obj {
						if len(vs.Values) == 0 {
							if _, isPtr := obj.Type().(*types.Pointer); !isPtr {
								fresh = true // var v T: a zero value of its own
							}
						} else if i < len(vs.Values) && isConstruction(vs.Values[i]) {
							fresh = true
						}
					}
				}
			}
			return true
		}
		for i, l := range as.Lhs {
			li, ok := l.(*ast.Ident)
			if !ok || x.cur.info.Defs[li] != obj {
				continue
			}
			if len(as.Rhs) == len(as.Lhs) && isConstruction(as.Rhs[i]) {
				fresh = true
			}
		}
		return true
	})
	return fresh
}

func isConstruction(e ast.Expr) bool {
	e = unparen(e)
	if u, ok := e.(*ast.UnaryExpr); ok && u.Op == token.AND {
		e = unparen(u.X)
	}
	switch v := e.(type) {
	case *ast.CompositeLit:
		return true
	case *ast.CallExpr:
		if id, ok := v.Fun.(*ast.Ident); ok && id.Name == "new" {
			return true
		}
	}
	return false
}

// mutexOf: the call is <expr>.Lock() etc. on a sync mutex; returns the operation, the identity of the mutex
// (owner type and field, or package and variable) and whether it is an RWMutex.
func (x *ex) mutexOf(call *ast.CallExpr) (kind, id string, rw bool, recv ast.Expr, ok bool) {
	sel, isSel := unparen(call.Fun).(*ast.SelectorExpr)
	if !isSel {
		return
	}
	kind, isOp := lockOps[sel.Sel.Name]
	if !isOp {
		return
	}
	s := x.cur.info.Selections[sel]
	if s == nil || s.Kind() != types.MethodVal {
		return
	}
	fn, _ := s.Obj().(*types.Func)
	if fn == nil || fn.Pkg() == nil || fn.Pkg().Path() != "sync" {
		return
	}
	recv = sel.X
	// the mutex object: the field (possibly embedded, then the call is promoted) or variable
	if len(s.Index()) > 1 {
		// promoted through embedded field(s): walk the struct
		t := s.Recv()
		var name string
		for _, i := range s.Index()[:len(s.Index())-1] {
			for {
				if p, okp := t.(*types.Pointer); okp {
					t = p.Elem()
					continue
				}
				break
			}
			owner := typeKey(t)
			st, okst := t.Underlying().(*types.Struct)
			if !okst {
				return
			}
			f := st.Field(i)
			name = owner + "." + f.Name()
			t = f.Type()
		}
		m, isRW := isSyncMutex(t)
		if !m {
			return
		}
		return kind, name, isRW, recv, true
	}
	m, isRW := isSyncMutex(s.Recv())
	if !m {
		return
	}
	switch r := unparen(sel.X).(type) {
	case *ast.SelectorExpr:
		if fs := x.cur.info.Selections[r]; fs != nil && fs.Kind() == types.FieldVal {
			return kind, typeKey(fs.Recv()) + "." + fs.Obj().Name(), isRW, recv, true
		}
		if v, okv := x.cur.info.Uses[r.Sel].(*types.Var); okv && v.Pkg() != nil {
			return kind, v.Pkg().Name() + "." + v.Name(), isRW, recv, true
		}
	case *ast.Ident:
		if v, okv := x.cur.info.Uses[r].(*types.Var); okv {
			if v.Pkg() != nil && v.Parent() == v.Pkg().Scope() {
				return kind, v.Pkg().Name() + "." + v.Name(), isRW, recv, true
			}
			fn := "func"
			if x.curFn != nil {
				fn = x.curFn.Name.Name
			}
			return kind, "local:" + x.cur.tpkg.Name() + "." + fn + "." + v.Name(), isRW, recv, true
		}
	}
	return kind, "unknown@" + x.w.pos(call), isRW, recv, true
}

func (x *ex) mutexIndex(id string, rw bool) int {
	if i, ok := x.mutexIdx[id]; ok {
		return i
	}
	i := len(x.mutexNames)
	x.mutexIdx[id] = i
	x.mutexNames = append(x.mutexNames, id)
	x.mutexRW = append(x.mutexRW, rw)
	return i
}

// callees: the functions of the repository a call may enter; opaque = a call through a function value
func (x *ex) callees(call *ast.CallExpr) (fis []*funcInfo, lit *ast.FuncLit, opaque bool) {
	switch f := unparen(call.Fun).(type) {
	case *ast.FuncLit:
		return nil, f, false
	case *ast.Ident:
		switch o := x.cur.info.Uses[f].(type) {
		case *types.Func:
			if fi := x.funcs[o.Origin()]; fi != nil {
				return []*funcInfo{fi}, nil, false
			}
		case *types.Var:
			if _, isFunc := o.Type().Underlying().(*types.Signature); isFunc {
				return nil, nil, true
			}
		}
	case *ast.SelectorExpr:
		if s := x.cur.info.Selections[f]; s != nil {
			switch s.Kind() {
			case types.MethodVal:
				fn, _ := s.Obj().(*types.Func)
				if fn == nil {
					return
				}
				if iface, isI := s.Recv().Underlying().(*types.Interface); isI {
					return x.implementations(iface, fn.Name()), nil, false
				}
				if fi := x.funcs[fn.Origin()]; fi != nil {
					return []*funcInfo{fi}, nil, false
				}
			case types.FieldVal:
				if _, isFunc := s.Type().Underlying().(*types.Signature); isFunc {
					return nil, nil, true
				}
			}
			return
		}
		// qualified identifier pkg.F
		if o, okf := x.cur.info.Uses[f.Sel].(*types.Func); okf {
			if fi := x.funcs[o.Origin()]; fi != nil {
				return []*funcInfo{fi}, nil, false
			}
		}
	}
	return
}

func (x *ex) implementations(iface *types.Interface, method string) []*funcInfo {
	var names []string
	for i := 0; i < iface.NumMethods(); i++ {
		names = append(names, iface.Method(i).Name())
	}
	var out []*funcInfo
	for _, n := range x.named {
		if _, isI := n.Underlying().(*types.Interface); isI {
			continue
		}
		ms := types.NewMethodSet(types.NewPointer(n))
		all := true
		var hit *types.Func
		for _, nm := range names {
			found := false
			for i := 0; i < ms.Len(); i++ {
				if ms.At(i).Obj().Name() == nm {
					found = true
					if nm == method {
						hit, _ = ms.At(i).Obj().(*types.Func)
					}
				}
			}
			if !found {
				all = false
				break
			}
		}
		if all && hit != nil {
			if fi := x.funcs[hit.Origin()]; fi != nil {
				out = append(out, fi)
			}
		}
	}
	return out
}

// writeTarget: the field an assignment / atomic store writes, as "pkg.Type.field", if it is a field of a type
// of the tracked packages reached through something other than a freshly constructed local.
func (x *ex) writeTarget(lhs ast.Expr) string {
	e := unparen(lhs)
	for {
		switch v := e.(type) {
		case *ast.IndexExpr:
			e = unparen(v.X)
			continue
		case *ast.StarExpr:
			e = unparen(v.X)
			continue
		case *ast.UnaryExpr:
			if v.Op == token.AND {
				e = unparen(v.X)
				continue
			}
		}
		break
	}
	sel, ok := e.(*ast.SelectorExpr)
	if !ok {
		return ""
	}
	s := x.cur.info.Selections[sel]
	if s == nil || s.Kind() != types.FieldVal {
		return ""
	}
	v, _ := s.Obj().(*types.Var)
	if v == nil || v.Pkg() == nil || !x.writePkgs[v.Pkg().Path()] {
		return ""
	}
	if x.isFresh(sel.X) {
		return ""
	}
	return typeKey(s.Recv()) + "." + v.Name()
}

func (x *ex) atomicWrite(call *ast.CallExpr) string {
	sel, ok := unparen(call.Fun).(*ast.SelectorExpr)
	if !ok {
		return ""
	}
	name := sel.Sel.Name
	isW := strings.HasPrefix(name, "Store") || strings.HasPrefix(name, "Add") || strings.HasPrefix(name, "Swap") || strings.HasPrefix(name, "CompareAndSwap")
	if !isW {
		return ""
	}
	if fn, okf := x.cur.info.Uses[sel.Sel].(*types.Func); okf && fn.Pkg() != nil && fn.Pkg().Path() == "sync/atomic" && len(call.Args) > 0 {
		if s := x.cur.info.Selections[sel]; s == nil {
			return x.writeTarget(call.Args[0]) // atomic.StoreUint32(&x.f, v)
		}
	}
	if s := x.cur.info.Selections[sel]; s != nil && s.Kind() == types.MethodVal {
		if fn, _ := s.Obj().(*types.Func); fn != nil && fn.Pkg() != nil && fn.Pkg().Path() == "sync/atomic" {
			return x.writeTarget(sel.X) // x.f.Store(v)
		}
	}
	return ""
}

// hasOps: does the subtree (with the calls it makes) contain anything the walker records?
func (x *ex) hasOps(n ast.Node) bool {
	if n == nil {
		return false
	}
	if v, ok := x.memo[n]; ok {
		return v
	}
	found := false
	ast.Inspect(n, func(m ast.Node) bool {
		if found {
			return false
		}
		switch e := m.(type) {
		case *ast.CallExpr:
			if _, _, _, recv, ok := x.mutexOf(e); ok && !x.isFresh(recv) {
				found = true
				return false
			}
			if x.trackWrites && x.atomicWrite(e) != "" {
				found = true
				return false
			}
			fis, _, _ := x.callees(e)
			for _, fi := range fis {
				if x.busy[fi.decl] {
					continue
				}
				x.busy[fi.decl] = true
				saveP, saveF := x.cur, x.curFn
				x.cur, x.curFn = fi.pkg, fi.decl
				if x.hasOps(fi.decl.Body) {
					found = true
				}
				x.cur, x.curFn = saveP, saveF
				delete(x.busy, fi.decl)
			}
		case *ast.AssignStmt:
			if x.trackWrites {
				for _, l := range e.Lhs {
					if x.writeTarget(l) != "" {
						found = true
					}
				}
			}
		case *ast.IncDecStmt:
			if x.trackWrites && x.writeTarget(e.X) != "" {
				found = true
			}
		}
		return !found
	})
	// a result computed while a callee further up is still being examined is not final
	if len(x.busy) == 0 || found {
		x.memo[n] = found
	}
	return found
}

func appendOp(in []state, o op) []state {
	out := make([]state, len(in))
	for i, s := range in {
		c := s.clone()
		c.ops = append(c.ops, o)
		out[i] = c
	}
	return out
}

// containsFlow: return / break / continue / goto in the subtree (outside function literals)
func containsFlow(n ast.Node) bool {
	found := false
	ast.Inspect(n, func(m ast.Node) bool {
		switch m.(type) {
		case *ast.ReturnStmt, *ast.BranchStmt:
			found = true
		case *ast.FuncLit:
			return false
		}
		return !found
	})
	return found
}

func (x *ex) exprs(list []ast.Expr, in []state) []state {
	for _, e := range list {
		in = x.expr(e, in)
	}
	return in
}

// expr appends the operations of evaluating e, in evaluation order.
func (x *ex) expr(e ast.Node, in []state) []state {
	if e == nil || len(in) == 0 {
		return in
	}
	if !x.hasOps(e) {
		// closures that are only created here are roots of their own
		x.collectClosures(e)
		return in
	}
	switch v := e.(type) {
	case *ast.CallExpr:
		if kind, id, rw, recv, ok := x.mutexOf(v); ok {
			if x.isFresh(recv) {
				return in
			}
			if kind == "tryrlock" || kind == "trylock" {
				x.fail(v, "Try* acquisition whose result is not tested directly by the condition of an if")
				return in
			}
			in = x.expr(recv, in)
			x.visited[v.Pos()] = true
			return appendOp(in, op{x.mutexIndex(id, rw), kind})
		}
		if sel, ok := unparen(v.Fun).(*ast.SelectorExpr); ok {
			in = x.expr(sel.X, in)
		}
		in = x.exprs(v.Args, in)
		if x.trackWrites {
			if f := x.atomicWrite(v); f != "" {
				return appendOp(in, op{-1, f})
			}
		}
		fis, lit, opaque := x.callees(v)
		if lit != nil {
			return x.inlineBody(lit.Body, in, nil, nil)
		}
		if opaque {
			for _, s := range in {
				if h := s.held(); len(h) > 0 {
					x.opaque[fmt.Sprintf("%s: a function value is called while %s is held", x.w.pos(v), x.mutexNames[h[0]])] = true
				}
			}
			return in
		}
		var out []state
		any := false
		for _, fi := range fis {
			saveP, saveF := x.cur, x.curFn
			x.cur, x.curFn = fi.pkg, fi.decl
			has := x.hasOps(fi.decl.Body)
			x.cur, x.curFn = saveP, saveF
			if !has {
				continue
			}
			any = true
			out = append(out, x.inlineBody(fi.decl.Body, in, fi.pkg, fi.decl)...)
		}
		if !any {
			return in
		}
		if len(fis) > 1 {
			// an interface call: candidates without operations are alternatives too
			out = append(out, in...)
		}
		return dedup(out)
	case *ast.FuncLit:
		x.collectClosures(v)
		return in
	case *ast.ParenExpr:
		return x.expr(v.X, in)
	case *ast.UnaryExpr:
		return x.expr(v.X, in)
	case *ast.BinaryExpr:
		in = x.expr(v.X, in)
		if v.Op == token.LAND || v.Op == token.LOR {
			// the right operand may or may not be evaluated
			return dedup(append(x.expr(v.Y, in), in...))
		}
		return x.expr(v.Y, in)
	case *ast.SelectorExpr:
		return x.expr(v.X, in)
	case *ast.StarExpr:
		return x.expr(v.X, in)
	case *ast.IndexExpr:
		in = x.expr(v.X, in)
		return x.expr(v.Index, in)
	case *ast.SliceExpr:
		in = x.expr(v.X, in)
		in = x.expr(v.Low, in)
		in = x.expr(v.High, in)
		return x.expr(v.Max, in)
	case *ast.TypeAssertExpr:
		return x.expr(v.X, in)
	case *ast.KeyValueExpr:
		in = x.expr(v.Key, in)
		return x.expr(v.Value, in)
	case *ast.CompositeLit:
		return x.exprs(v.Elts, in)
	case *ast.Ident, *ast.BasicLit:
		return in
	}
	x.fail(e, fmt.Sprintf("unsupported expression form %T with lock operations", e))
	return in
}

// collectClosures: function literals that are created (stored, passed on) rather than called here are walked
// as roots of their own.
func (x *ex) collectClosures(n ast.Node) {
	ast.Inspect(n, func(m ast.Node) bool {
		fl, ok := m.(*ast.FuncLit)
		if !ok {
			return true
		}
		if !x.seenRoots[fl.Pos()] {
			x.seenRoots[fl.Pos()] = true
			x.extraRoots = append(x.extraRoots, rootBody{name: "closure@" + x.w.pos(fl), body: fl.Body, pkg: x.cur, fn: x.curFn})
		}
		return false
	})
}

// inlineBody runs a callee (or a called closure) on every state; its exits are the caller's continuations.
func (x *ex) inlineBody(body *ast.BlockStmt, in []state, pkg *pkgInfo, fn *ast.FuncDecl) []state {
	if x.depth >= 12 {
		x.fail(body, "inlining depth exceeded (recursion?)")
		return in
	}
	var out []state
	for _, s := range in {
		x.depth++
		exits := x.run(body, state{ops: s.ops}, pkg, fn)
		x.depth--
		for _, e := range exits {
			c := s.clone()
			c.ops = e.ops
			if e.cut {
				// the callee never returns: neither does the caller
				c.cut = true
				*x.ret = append(*x.ret, c)
				continue
			}
			out = append(out, c)
		}
	}
	return dedup(out)
}

// run executes a body from one state and returns its exits with the deferred operations appended.
func (x *ex) run(body *ast.BlockStmt, s0 state, pkg *pkgInfo, fn *ast.FuncDecl) []state {
	saveP, saveF, saveRet, saveTgt, saveLab := x.cur, x.curFn, x.ret, x.tgt, x.labels
	if pkg != nil {
		x.cur, x.curFn = pkg, fn
	}
	var rets []state
	x.ret, x.tgt, x.labels = &rets, nil, map[string]targets{}
	ft := x.stmts(body.List, []state{s0})
	rets = append(rets, ft...)
	x.cur, x.curFn, x.ret, x.tgt, x.labels = saveP, saveF, saveRet, saveTgt, saveLab
	var out []state
	for _, s := range rets {
		e := state{ops: append([]op(nil), s.ops...), cut: s.cut}
		if !s.cut {
			for i := len(s.defers) - 1; i >= 0; i-- {
				e.ops = append(e.ops, s.defers[i]...)
			}
		}
		out = append(out, e)
	}
	return dedup(out)
}

func (x *ex) stmts(list []ast.Stmt, in []state) []state {
	cur := in
	for _, st := range list {
		if len(cur) == 0 {
			return cur
		}
		cur = dedup(x.stmt(st, cur))
	}
	return cur
}

func (x *ex) deferredOps(d *ast.DeferStmt) []op {
	var exits []state
	if fl, ok := unparen(d.Call.Fun).(*ast.FuncLit); ok {
		exits = x.run(fl.Body, state{}, nil, nil)
	} else {
		var rets []state
		saveRet := x.ret
		x.ret = &rets
		// the call itself runs at exit (its arguments were evaluated at the defer statement)
		out := x.expr(&ast.CallExpr{Fun: d.Call.Fun, Lparen: d.Call.Lparen, Rparen: d.Call.Rparen}, []state{{}})
		x.ret = saveRet
		exits = append(out, rets...)
	}
	seen := map[string]bool{}
	var progs [][]op
	for _, e := range exits {
		k := opsKey(e.ops)
		if !seen[k] {
			seen[k] = true
			progs = append(progs, e.ops)
		}
	}
	if len(progs) != 1 {
		x.fail(d, "deferred call with branching lock operations")
		return nil
	}
	return progs[0]
}

// tryCond: the condition is X.TryLock() / X.TryRLock(), possibly negated
func (x *ex) tryCond(cond ast.Expr) (*ast.CallExpr, bool) {
	neg := false
	for {
		switch v := unparen(cond).(type) {
		case *ast.UnaryExpr:
			if v.Op == token.NOT {
				neg = !neg
				cond = v.X
				continue
			}
		case *ast.CallExpr:
			if kind, _, _, recv, ok := x.mutexOf(v); ok && (kind == "tryrlock" || kind == "trylock") && !x.isFresh(recv) {
				return v, neg
			}
		}
		return nil, false
	}
}

func (x *ex) stmt(st ast.Stmt, in []state) []state {
	if st == nil {
		return in
	}
	if !x.hasOps(st) && !containsFlow(st) {
		x.collectClosures(st)
		if g, ok := st.(*ast.GoStmt); ok {
			x.goRoot(g)
		}
		return in
	}
	switch v := st.(type) {
	case *ast.ReturnStmt:
		in = x.exprs(v.Results, in)
		*x.ret = append(*x.ret, in...)
		return nil
	case *ast.DeferStmt:
		if !x.hasOps(v) {
			return in
		}
		if _, ok := unparen(v.Call.Fun).(*ast.FuncLit); !ok {
			in = x.exprs(v.Call.Args, in)
		}
		ops := x.deferredOps(v)
		out := make([]state, len(in))
		for i, s := range in {
			c := s.clone()
			c.defers = append(c.defers, ops)
			out[i] = c
		}
		return out
	case *ast.ExprStmt:
		if call, ok := unparen(v.X).(*ast.CallExpr); ok {
			if id, ok := unparen(call.Fun).(*ast.Ident); ok && id.Name == "panic" {
				if _, isB := x.cur.info.Uses[id].(*types.Builtin); isB {
					return nil // the path ends here
				}
			}
		}
		return x.expr(v.X, in)
	case *ast.AssignStmt:
		in = x.exprs(v.Rhs, in)
		for _, l := range v.Lhs {
			in = x.expr(l, in)
			if x.trackWrites {
				if f := x.writeTarget(l); f != "" {
					in = appendOp(in, op{-1, f})
				}
			}
		}
		return in
	case *ast.IncDecStmt:
		in = x.expr(v.X, in)
		if x.trackWrites {
			if f := x.writeTarget(v.X); f != "" {
				in = appendOp(in, op{-1, f})
			}
		}
		return in
	case *ast.DeclStmt:
		if gd, ok := v.Decl.(*ast.GenDecl); ok {
			for _, sp := range gd.Specs {
				if vs, ok := sp.(*ast.ValueSpec); ok {
					in = x.exprs(vs.Values, in)
				}
			}
		}
		return in
	case *ast.BlockStmt:
		return x.stmts(v.List, in)
	case *ast.IfStmt:
		in = x.stmt(v.Init, in)
		if call, neg := x.tryCond(v.Cond); call != nil {
			kind, id, rw, recv, _ := x.mutexOf(call)
			in = x.expr(recv, in)
			x.visited[call.Pos()] = true
			got := appendOp(in, op{x.mutexIndex(id, rw), kind})
			thenIn, elseIn := got, in
			if neg {
				thenIn, elseIn = in, got
			}
			out := x.stmts(v.Body.List, thenIn)
			if v.Else != nil {
				return append(out, x.stmt(v.Else, elseIn)...)
			}
			return append(out, elseIn...)
		}
		in = x.expr(v.Cond, in)
		out := x.stmts(v.Body.List, in)
		if v.Else != nil {
			return append(out, x.stmt(v.Else, in)...)
		}
		return append(out, in...)
	case *ast.ForStmt:
		in = x.stmt(v.Init, in)
		return x.loop(v.Cond, v.Post, v.Body, in, v.Cond == nil, "")
	case *ast.RangeStmt:
		in = x.expr(v.X, in)
		return x.loop(&ast.Ident{Name: "range"}, nil, v.Body, in, false, "")
	case *ast.SwitchStmt:
		in = x.stmt(v.Init, in)
		in = x.expr(v.Tag, in)
		return x.clauses(v.Body, in, false)
	case *ast.TypeSwitchStmt:
		in = x.stmt(v.Init, in)
		in = x.stmt(v.Assign, in)
		return x.clauses(v.Body, in, false)
	case *ast.SelectStmt:
		return x.clauses(v.Body, in, true)
	case *ast.GoStmt:
		if _, ok := unparen(v.Call.Fun).(*ast.FuncLit); !ok {
			in = x.exprs(v.Call.Args, in)
		}
		x.goRoot(v)
		return in
	case *ast.LabeledStmt:
		switch inner := v.Stmt.(type) {
		case *ast.ForStmt:
			in = x.stmt(inner.Init, in)
			return x.loop(inner.Cond, inner.Post, inner.Body, in, inner.Cond == nil, v.Label.Name)
		case *ast.RangeStmt:
			in = x.expr(inner.X, in)
			return x.loop(&ast.Ident{Name: "range"}, nil, inner.Body, in, false, v.Label.Name)
		}
		return x.stmt(v.Stmt, in)
	case *ast.BranchStmt:
		switch v.Tok {
		case token.BREAK, token.CONTINUE:
			var t targets
			ok := false
			if v.Label != nil {
				t, ok = x.labels[v.Label.Name]
			} else if n := len(x.tgt); n > 0 {
				// continue skips switch / select frames (their cont is nil)
				for i := n - 1; i >= 0; i-- {
					if v.Tok == token.BREAK || x.tgt[i].cont != nil {
						t, ok = x.tgt[i], true
						break
					}
				}
			}
			if !ok {
				x.fail(v, "break / continue without a target the walker knows")
				return nil
			}
			if v.Tok == token.BREAK {
				*t.brk = append(*t.brk, in...)
			} else if t.cont != nil {
				*t.cont = append(*t.cont, in...)
			}
			return nil
		case token.GOTO:
			x.fail(v, "goto in a function with lock operations")
			return nil
		case token.FALLTHROUGH:
			if x.fall == nil {
				x.fail(v, "fallthrough outside a switch clause")
				return in
			}
			*x.fall = append(*x.fall, in...)
			return nil
		}
		return in
	case *ast.SendStmt:
		in = x.expr(v.Chan, in)
		return x.expr(v.Value, in)
	case *ast.EmptyStmt:
		return in
	}
	x.fail(st, fmt.Sprintf("unsupported statement form %T with lock operations", st))
	return in
}

func (x *ex) clauses(body *ast.BlockStmt, in []state, isSelect bool) []state {
	var brk []state
	x.tgt = append(x.tgt, targets{brk: &brk})
	var out []state
	hasDefault := false
	var fell []state
	saveFall := x.fall
	defer func() { x.fall = saveFall }()
	for _, c := range body.List {
		switch cc := c.(type) {
		case *ast.CaseClause:
			if cc.List == nil {
				hasDefault = true
			}
			s := append(x.exprs(cc.List, in), fell...)
			var next []state
			x.fall = &next
			out = append(out, x.stmts(cc.Body, dedup(s))...)
			fell = next
		case *ast.CommClause:
			if cc.Comm == nil {
				hasDefault = true
			}
			s := x.stmt(cc.Comm, in)
			out = append(out, x.stmts(cc.Body, s)...)
		}
	}
	x.tgt = x.tgt[:len(x.tgt)-1]
	if !hasDefault && !isSelect {
		// no case applies (a select without default waits for one of its cases instead)
		out = append(out, in...)
	}
	return dedup(append(out, brk...))
}

// loop: the body 0, 1 and 2 times. An endless loop (no condition) is left through break / return only; what is
// still inside after the second round is a path that never returns (cut).
func (x *ex) loop(cond ast.Expr, post ast.Stmt, body *ast.BlockStmt, in []state, endless bool, label string) []state {
	var exits []state
	cur := in
	for round := 0; round < 2; round++ {
		if id, ok := cond.(*ast.Ident); !(ok && id.Name == "range") {
			cur = x.expr(cond, cur)
		}
		if !endless {
			exits = append(exits, cur...)
		}
		var brk, cont []state
		t := targets{brk: &brk, cont: &cont}
		x.tgt = append(x.tgt, t)
		if label != "" {
			x.labels[label] = t
		}
		out := x.stmts(body.List, cur)
		x.tgt = x.tgt[:len(x.tgt)-1]
		exits = append(exits, brk...)
		cur = dedup(append(out, cont...))
		cur = x.stmt(post, cur)
		if len(cur) == 0 {
			break
		}
	}
	if endless {
		for _, s := range cur {
			c := s.clone()
			c.cut = true
			*x.ret = append(*x.ret, c)
		}
	} else {
		if id, ok := cond.(*ast.Ident); !(ok && id.Name == "range") {
			cur = x.expr(cond, cur)
		}
		exits = append(exits, cur...)
	}
	return dedup(exits)
}

func (x *ex) goRoot(g *ast.GoStmt) {
	if x.seenRoots[g.Pos()] {
		return
	}
	x.seenRoots[g.Pos()] = true
	if fl, ok := unparen(g.Call.Fun).(*ast.FuncLit); ok {
		x.seenRoots[fl.Pos()] = true
		x.extraRoots = append(x.extraRoots, rootBody{name: "go@" + x.w.pos(g), body: fl.Body, pkg: x.cur, fn: x.curFn})
		return
	}
	fis, _, _ := x.callees(g.Call)
	for _, fi := range fis {
		x.extraRoots = append(x.extraRoots, rootBody{name: "go " + fi.key + "@" + x.w.pos(g), body: fi.decl.Body, pkg: fi.pkg, fn: fi.decl})
	}
}
