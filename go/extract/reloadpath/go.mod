module reloadpath

go 1.21
