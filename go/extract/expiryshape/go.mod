module expiryshape

go 1.21
