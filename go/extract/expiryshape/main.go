// expiryshape: syntactic fact extractor (go/ast only) for C08 / C02.
// usage: expiryshape <dir of pkg/station/lib> <out.lean>
//
// The Lean registry model says: the sweep decides on nothing but the timeout record (used flag,
// creation time) and the two lifetimes; it looks at every record and removes every expired one; the
// removal re-evaluates expiry under the write lock; the record's creation time is written once, when
// the registration is first tracked, its used flag only by a connection; the Valid flag is cleared by
// track and set by register and by nothing else. The harness tests that on the inputs it generates;
// this extractor records the SHAPE of the code those statements rest on, so that a dependency on
// something the generator does not vary (another field of the registration, a counter, a cap) shows
// up as a changed fact:
//
//   - skipGuards: for getExpiredRegistrations, isExpired, removeRegistration, removeOldRegistrations —
//     every `if` / `for` / `switch` whose body can leave early (return / break / continue / goto), with
//     the fields, methods and package-level names its condition reads (locals are not listed);
//   - expiryDecisionReads: everything isExpired's conditions and results read;
//   - removeRechecksBeforeDelete: removeRegistration has a leaving guard that calls isExpired, before its
//     first delete;
//   - fieldWriters: every assignment to / composite-literal initialisation of the fields registrationTime,
//     status (DecoyTimeout) and Valid (DecoyRegistration) in the package: (field, function, how);
//   - mapWrites: which functions assign into / delete from r.decoys and r.decoysTimeouts;
//   - registryLockAcquisitions: every call of a method of the registry lock r.m (Lock / RLock / Unlock /
//     RUnlock — or a Try* variant, which can refuse instead of wait).
package main

import (
	"fmt"
	"go/ast"
	"go/parser"
	"go/token"
	"os"
	"path"
	"sort"
	"strconv"
	"strings"
)

var sweepFuncs = []string{"getExpiredRegistrations", "isExpired", "removeRegistration", "removeOldRegistrations"}

type fn struct {
	decl *ast.FuncDecl
	pkgs map[string]bool // import names of the file
}

func locals(fd *ast.FuncDecl) map[string]bool {
	l := map[string]bool{}
	add := func(fl *ast.FieldList) {
		if fl == nil {
			return
		}
		for _, f := range fl.List {
			for _, n := range f.Names {
				l[n.Name] = true
			}
		}
	}
	add(fd.Recv)
	add(fd.Type.Params)
	add(fd.Type.Results)
	ast.Inspect(fd.Body, func(n ast.Node) bool {
		switch x := n.(type) {
		case *ast.AssignStmt:
			if x.Tok == token.DEFINE {
				for _, e := range x.Lhs {
					if id, ok := e.(*ast.Ident); ok {
						l[id.Name] = true
					}
				}
			}
		case *ast.ValueSpec:
			for _, n := range x.Names {
				l[n.Name] = true
			}
		case *ast.RangeStmt:
			if x.Tok == token.DEFINE {
				for _, e := range []ast.Expr{x.Key, x.Value} {
					if id, ok := e.(*ast.Ident); ok {
						l[id.Name] = true
					}
				}
			}
		}
		return true
	})
	return l
}

// atoms: the fields / methods (".name"), package members ("pkg.Name") and non-local identifiers an
// expression reads.
func atoms(e ast.Expr, f fn, loc map[string]bool, acc map[string]bool) {
	if e == nil {
		return
	}
	ast.Inspect(e, func(n ast.Node) bool {
		switch x := n.(type) {
		case *ast.FuncLit:
			return false
		case *ast.SelectorExpr:
			if id, ok := x.X.(*ast.Ident); ok {
				if f.pkgs[id.Name] && !loc[id.Name] {
					acc[id.Name+"."+x.Sel.Name] = true
				} else {
					acc["."+x.Sel.Name] = true
				}
				return false
			}
			acc["."+x.Sel.Name] = true
			atoms(x.X, f, loc, acc)
			return false
		case *ast.Ident:
			switch x.Name {
			case "true", "false", "nil", "_":
			default:
				if !loc[x.Name] {
					acc[x.Name] = true
				}
			}
		}
		return true
	})
}

func leaves(n ast.Node) bool {
	found := false
	ast.Inspect(n, func(m ast.Node) bool {
		switch x := m.(type) {
		case *ast.FuncLit:
			return false
		case *ast.ReturnStmt:
			found = true
		case *ast.BranchStmt:
			if x.Tok != token.FALLTHROUGH {
				found = true
			}
		case *ast.CallExpr:
			if id, ok := x.Fun.(*ast.Ident); ok && id.Name == "panic" {
				found = true
			}
		}
		return !found
	})
	return found
}

func sorted(m map[string]bool) []string {
	var l []string
	for k := range m {
		l = append(l, k)
	}
	sort.Strings(l)
	return l
}

func leanList(l []string) string {
	q := make([]string, len(l))
	for i, s := range l {
		q[i] = strconv.Quote(s)
	}
	return "[" + strings.Join(q, ", ") + "]"
}

func render(e ast.Expr) string {
	switch x := e.(type) {
	case *ast.Ident:
		return x.Name
	case *ast.SelectorExpr:
		return render(x.X) + "." + x.Sel.Name
	case *ast.CallExpr:
		return render(x.Fun) + "()"
	case *ast.BasicLit:
		return x.Value
	}
	return "expr"
}

func main() {
	dir, out := os.Args[1], os.Args[2]
	fset := token.NewFileSet()
	pkgs, err := parser.ParseDir(fset, dir, func(fi os.FileInfo) bool { return !strings.HasSuffix(fi.Name(), "_test.go") }, 0)
	if err != nil {
		panic(err)
	}
	funcs := map[string]fn{}
	var all []fn
	for _, p := range pkgs {
		for _, f := range p.Files {
			imp := map[string]bool{}
			for _, i := range f.Imports {
				name := path.Base(strings.Trim(i.Path.Value, `"`))
				if i.Name != nil {
					name = i.Name.Name
				}
				imp[name] = true
			}
			for _, d := range f.Decls {
				fd, ok := d.(*ast.FuncDecl)
				if !ok || fd.Body == nil {
					continue
				}
				x := fn{fd, imp}
				all = append(all, x)
				if fd.Recv != nil && len(fd.Recv.List) == 1 {
					if st, ok := fd.Recv.List[0].Type.(*ast.StarExpr); ok {
						if id, ok := st.X.(*ast.Ident); ok && id.Name == "RegisteredDecoys" {
							funcs[fd.Name.Name] = x
						}
					}
				}
			}
		}
	}
	var b strings.Builder
	b.WriteString("/-! GENERATED by go/extract/expiryshape from pkg/station/lib (go/ast facts) — do not edit. -/\nnamespace CJ.Gen\n\n")

	// ---- leaving guards of the sweep functions
	b.WriteString("/-- per sweep function: every `if` / `for` / `switch` that can leave early (return / break / continue /\ngoto / panic in its body), with the fields (`.f`), methods, package members and package-level names its\ncondition reads -/\n")
	b.WriteString("def skipGuards : List (String × List (List String)) := [\n")
	recheck := false
	for i, name := range sweepFuncs {
		f, ok := funcs[name]
		var guards []string
		if ok {
			loc := locals(f.decl)
			firstDelete := token.Pos(0)
			ast.Inspect(f.decl.Body, func(n ast.Node) bool {
				if c, ok := n.(*ast.CallExpr); ok {
					if id, ok := c.Fun.(*ast.Ident); ok && id.Name == "delete" && firstDelete == 0 {
						firstDelete = c.Pos()
					}
				}
				return true
			})
			ast.Inspect(f.decl.Body, func(n ast.Node) bool {
				acc := map[string]bool{}
				switch x := n.(type) {
				case *ast.FuncLit:
					return false
				case *ast.IfStmt:
					if !(leaves(x.Body) || (x.Else != nil && leaves(x.Else))) {
						return true
					}
					atoms(x.Cond, f, loc, acc)
					if name == "removeRegistration" && acc[".isExpired"] && leaves(x.Body) && (firstDelete == 0 || x.Pos() < firstDelete) && firstDelete != 0 {
						recheck = true
					}
				case *ast.ForStmt:
					if x.Cond == nil && !leaves(x.Body) {
						return true
					}
					if x.Cond == nil {
						return true // the leaving `if` inside is listed itself
					}
					atoms(x.Cond, f, loc, acc)
				case *ast.SwitchStmt:
					if !leaves(x.Body) {
						return true
					}
					atoms(x.Tag, f, loc, acc)
					for _, c := range x.Body.List {
						for _, e := range c.(*ast.CaseClause).List {
							atoms(e, f, loc, acc)
						}
					}
				default:
					return true
				}
				guards = append(guards, leanList(sorted(acc)))
				return true
			})
		}
		sep := ","
		if i == len(sweepFuncs)-1 {
			sep = ""
		}
		if !ok {
			fmt.Fprintf(&b, "  (%q, [[\"<function missing>\"]])%s\n", name, sep)
		} else {
			fmt.Fprintf(&b, "  (%q, [%s])%s\n", name, strings.Join(guards, ", "), sep)
		}
	}
	b.WriteString("]\n\n")

	// ---- what the expiry predicate reads
	dec := map[string]bool{}
	if f, ok := funcs["isExpired"]; ok {
		loc := locals(f.decl)
		ast.Inspect(f.decl.Body, func(n ast.Node) bool {
			switch x := n.(type) {
			case *ast.IfStmt:
				atoms(x.Cond, f, loc, dec)
			case *ast.ReturnStmt:
				for _, e := range x.Results {
					atoms(e, f, loc, dec)
				}
			case *ast.AssignStmt:
				for _, e := range x.Rhs {
					atoms(e, f, loc, dec)
				}
			case *ast.SwitchStmt:
				atoms(x.Tag, f, loc, dec)
			case *ast.CaseClause:
				for _, e := range x.List {
					atoms(e, f, loc, dec)
				}
			}
			return true
		})
	} else {
		dec["<function missing>"] = true
	}
	b.WriteString("/-- everything the conditions, assignments and results of `isExpired` read -/\n")
	fmt.Fprintf(&b, "def expiryDecisionReads : List String := %s\n\n", leanList(sorted(dec)))
	b.WriteString("/-- `removeRegistration` has a leaving guard that calls `isExpired`, placed before its first `delete` -/\n")
	fmt.Fprintf(&b, "def removeRechecksBeforeDelete : Bool := %v\n\n", recheck)

	// ---- writers of the fields the model's record / validity consist of
	fields := map[string]string{"registrationTime": "DecoyTimeout", "status": "DecoyTimeout", "Valid": "DecoyRegistration"}
	var writers, mapw []string
	for _, f := range all {
		fname := f.decl.Name.Name
		ast.Inspect(f.decl.Body, func(n ast.Node) bool {
			switch x := n.(type) {
			case *ast.AssignStmt:
				for i, l := range x.Lhs {
					if sel, ok := l.(*ast.SelectorExpr); ok {
						if _, ok := fields[sel.Sel.Name]; ok {
							rhs := "expr"
							if len(x.Rhs) == len(x.Lhs) {
								rhs = render(x.Rhs[i])
							}
							writers = append(writers, fmt.Sprintf("(%q, %q, %q)", sel.Sel.Name, fname, "assign "+x.Tok.String()+" "+rhs))
						}
					}
					if ix, ok := l.(*ast.IndexExpr); ok {
						root := ix.X
						for {
							if in, ok := root.(*ast.IndexExpr); ok {
								root = in.X
								continue
							}
							break
						}
						if sel, ok := root.(*ast.SelectorExpr); ok && (sel.Sel.Name == "decoys" || sel.Sel.Name == "decoysTimeouts") {
							mapw = append(mapw, fmt.Sprintf("(%q, %q, %q)", sel.Sel.Name, fname, "assign"))
						}
					}
				}
			case *ast.IncDecStmt:
				if sel, ok := x.X.(*ast.SelectorExpr); ok {
					if _, ok := fields[sel.Sel.Name]; ok {
						writers = append(writers, fmt.Sprintf("(%q, %q, %q)", sel.Sel.Name, fname, x.Tok.String()))
					}
				}
			case *ast.UnaryExpr:
				if x.Op == token.AND {
					if sel, ok := x.X.(*ast.SelectorExpr); ok {
						if _, ok := fields[sel.Sel.Name]; ok {
							writers = append(writers, fmt.Sprintf("(%q, %q, %q)", sel.Sel.Name, fname, "address taken"))
						}
					}
				}
			case *ast.CompositeLit:
				tn := ""
				switch t := x.Type.(type) {
				case *ast.Ident:
					tn = t.Name
				case *ast.SelectorExpr:
					tn = t.Sel.Name
				}
				for _, el := range x.Elts {
					kv, ok := el.(*ast.KeyValueExpr)
					if !ok {
						continue
					}
					if k, ok := kv.Key.(*ast.Ident); ok && fields[k.Name] == tn && tn != "" {
						writers = append(writers, fmt.Sprintf("(%q, %q, %q)", k.Name, fname, "literal "+render(kv.Value)))
					}
				}
			case *ast.CallExpr:
				if id, ok := x.Fun.(*ast.Ident); ok && id.Name == "delete" && len(x.Args) == 2 {
					root := x.Args[0]
					for {
						if in, ok := root.(*ast.IndexExpr); ok {
							root = in.X
							continue
						}
						break
					}
					if sel, ok := root.(*ast.SelectorExpr); ok && (sel.Sel.Name == "decoys" || sel.Sel.Name == "decoysTimeouts") {
						depth := "delete"
						if _, ok := x.Args[0].(*ast.IndexExpr); ok {
							depth = "delete inner"
						}
						mapw = append(mapw, fmt.Sprintf("(%q, %q, %q)", sel.Sel.Name, fname, depth))
					}
				}
			}
			return true
		})
	}
	// ---- acquisitions of the registry lock (the field `m` of RegisteredDecoys): x.m.<Method>() anywhere in the package
	var locks []string
	for _, f := range all {
		fname := f.decl.Name.Name
		ast.Inspect(f.decl.Body, func(n ast.Node) bool {
			c, ok := n.(*ast.CallExpr)
			if !ok {
				return true
			}
			sel, ok := c.Fun.(*ast.SelectorExpr)
			if !ok {
				return true
			}
			inner, ok := sel.X.(*ast.SelectorExpr)
			if !ok || inner.Sel.Name != "m" {
				return true
			}
			// only the lock of a RegisteredDecoys: the holder is the receiver of one of its methods, or a
			// `….registeredDecoys` field, or a variable named rd / r of such a method
			isReg := false
			if _, ok := funcs[fname]; ok && f.decl.Recv != nil {
				if id, ok := inner.X.(*ast.Ident); ok && len(f.decl.Recv.List) == 1 && len(f.decl.Recv.List[0].Names) == 1 && id.Name == f.decl.Recv.List[0].Names[0].Name {
					if st, ok := f.decl.Recv.List[0].Type.(*ast.StarExpr); ok {
						if tid, ok := st.X.(*ast.Ident); ok && tid.Name == "RegisteredDecoys" {
							isReg = true
						}
					}
				}
			}
			if h, ok := inner.X.(*ast.SelectorExpr); ok && h.Sel.Name == "registeredDecoys" {
				isReg = true
			}
			if isReg {
				locks = append(locks, fmt.Sprintf("(%q, %q)", fname, sel.Sel.Name))
			}
			return true
		})
	}
	sort.Strings(locks)
	sort.Strings(writers)
	sort.Strings(mapw)
	b.WriteString("/-- every write to the fields `registrationTime`, `status` (DecoyTimeout) and `Valid` (DecoyRegistration)\nin the package (non-test files): (field, function, how) -/\n")
	fmt.Fprintf(&b, "def fieldWriters : List (String × String × String) := [\n  %s\n]\n\n", strings.Join(writers, ",\n  "))
	b.WriteString("/-- which functions assign into / delete from `decoys` and `decoysTimeouts`: (map, function, how) -/\n")
	fmt.Fprintf(&b, "def registryMapWrites : List (String × String × String) := [\n  %s\n]\n\n", strings.Join(mapw, ",\n  "))
	b.WriteString("/-- every call of a method of the registry lock (`RegisteredDecoys.m`): (function, method) -/\n")
	fmt.Fprintf(&b, "def registryLockAcquisitions : List (String × String) := [\n  %s\n]\n\nend CJ.Gen\n", strings.Join(locks, ",\n  "))
	if err := os.WriteFile(out, []byte(b.String()), 0o644); err != nil {
		panic(err)
	}
}
