module connactivation

go 1.21
