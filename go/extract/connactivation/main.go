// connactivation: syntactic fact extractor (go/ast only) for C08.
// usage: connactivation <dir of cmd/application> <out.lean>
//
// "Has carried a connection" is what gives a registration its six hours. In the station that is one
// call: the TCP connection handler (handleNewTCPConn) calls MarkActive for the registration a wrapping
// transport has identified and then hands the connection to Proxy, which blocks for the whole session.
// The registry histories of the C08 harness call markActive themselves; WHEN the handler calls it —
// before the session, not after it — is the shape recorded here:
//
//   - connHandlerEvents: the calls WrapConnection / MarkActive / Proxy, the blocking calls (Read, io.Copy,
//     time.Sleep), `return`s and labelled `break`s / `continue`s of handleNewTCPConn in source order, each
//     with the nesting depth of loops it sits in;
//   - connActivationTail: the statements that follow the last early exit in the block in which MarkActive
//     is called, up to the end of that block (one word per statement);
//   - connAfterLoop: the statements of the function after the labelled read loop (one word each).
package main

import (
	"fmt"
	"go/ast"
	"go/parser"
	"go/token"
	"os"
	"strconv"
	"strings"
)

func render(e ast.Expr) string {
	switch x := e.(type) {
	case *ast.Ident:
		return x.Name
	case *ast.SelectorExpr:
		return render(x.X) + "." + x.Sel.Name
	case *ast.CallExpr:
		return render(x.Fun) + "()"
	case *ast.StarExpr:
		return "*" + render(x.X)
	case *ast.ParenExpr:
		return render(x.X)
	}
	return "expr"
}

func leaves(n ast.Node) bool {
	found := false
	ast.Inspect(n, func(m ast.Node) bool {
		switch x := m.(type) {
		case *ast.FuncLit:
			return false
		case *ast.ReturnStmt:
			found = true
		case *ast.BranchStmt:
			if x.Tok != token.FALLTHROUGH {
				found = true
			}
		}
		return !found
	})
	return found
}

// word: one statement as one word
func word(s ast.Stmt) string {
	switch x := s.(type) {
	case *ast.ExprStmt:
		return render(x.X)
	case *ast.AssignStmt:
		if len(x.Rhs) == 1 {
			if c, ok := x.Rhs[0].(*ast.CallExpr); ok {
				return "=" + render(c)
			}
			if _, ok := x.Rhs[0].(*ast.TypeAssertExpr); ok {
				return "=type-assertion"
			}
		}
		return "="
	case *ast.IfStmt:
		if leaves(x) {
			return "if-that-can-leave"
		}
		return "if"
	case *ast.BranchStmt:
		w := x.Tok.String()
		if x.Label != nil {
			w += " " + x.Label.Name
		}
		return w
	case *ast.ReturnStmt:
		return "return"
	case *ast.ForStmt, *ast.RangeStmt:
		return "loop"
	case *ast.LabeledStmt:
		return x.Label.Name + ":" + word(x.Stmt)
	case *ast.GoStmt:
		return "go " + render(x.Call)
	case *ast.DeferStmt:
		return "defer " + render(x.Call)
	case *ast.DeclStmt:
		return "var"
	case *ast.SwitchStmt, *ast.TypeSwitchStmt, *ast.SelectStmt:
		if leaves(x) {
			return "switch-that-can-leave"
		}
		return "switch"
	}
	return "stmt"
}

func leanList(l []string) string {
	q := make([]string, len(l))
	for i, s := range l {
		q[i] = strconv.Quote(s)
	}
	return "[" + strings.Join(q, ", ") + "]"
}

func main() {
	dir, out := os.Args[1], os.Args[2]
	fset := token.NewFileSet()
	pkgs, err := parser.ParseDir(fset, dir, func(fi os.FileInfo) bool { return !strings.HasSuffix(fi.Name(), "_test.go") }, 0)
	if err != nil {
		panic(err)
	}
	var fd *ast.FuncDecl
	for _, p := range pkgs {
		for _, f := range p.Files {
			for _, d := range f.Decls {
				if x, ok := d.(*ast.FuncDecl); ok && x.Name.Name == "handleNewTCPConn" && x.Body != nil {
					fd = x
				}
			}
		}
	}
	var events, tail, after []string
	if fd == nil {
		events, tail, after = []string{"<function missing>"}, []string{"<function missing>"}, []string{"<function missing>"}
	} else {
		// ---- events in source order with loop depth
		var walk func(n ast.Node, depth int)
		walk = func(n ast.Node, depth int) {
			ast.Inspect(n, func(m ast.Node) bool {
				if m == nil || m == n {
					return true
				}
				switch x := m.(type) {
				case *ast.FuncLit:
					return false
				case *ast.ForStmt:
					walk(x.Body, depth+1)
					return false
				case *ast.RangeStmt:
					walk(x.Body, depth+1)
					return false
				case *ast.CallExpr:
					name := render(x.Fun)
					last := name[strings.LastIndexByte(name, '.')+1:]
					switch {
					case last == "WrapConnection" || last == "MarkActive" || last == "Proxy":
						events = append(events, fmt.Sprintf("%s@%d", last, depth))
					case last == "Read" || name == "io.Copy" || name == "time.Sleep":
						events = append(events, fmt.Sprintf("blocks:%s@%d", name, depth))
					}
				case *ast.ReturnStmt:
					events = append(events, fmt.Sprintf("return@%d", depth))
				case *ast.BranchStmt:
					if x.Label != nil {
						events = append(events, fmt.Sprintf("%s %s@%d", x.Tok, x.Label.Name, depth))
					}
				}
				return true
			})
		}
		walk(fd.Body, 0)
		// ---- the block in which MarkActive is called
		var blocks []*ast.BlockStmt
		ast.Inspect(fd.Body, func(n ast.Node) bool {
			if b, ok := n.(*ast.BlockStmt); ok {
				for _, s := range b.List {
					if es, ok := s.(*ast.ExprStmt); ok {
						if c, ok := es.X.(*ast.CallExpr); ok && strings.HasSuffix(render(c.Fun), ".MarkActive") {
							blocks = append(blocks, b)
						}
					}
				}
			}
			return true
		})
		if len(blocks) != 1 {
			tail = []string{fmt.Sprintf("<MarkActive is a statement of %d blocks>", len(blocks))}
		} else {
			lastLeave := -1
			for i, s := range blocks[0].List {
				if _, ok := s.(*ast.BranchStmt); ok {
					continue
				}
				if leaves(s) {
					lastLeave = i
				}
			}
			for _, s := range blocks[0].List[lastLeave+1:] {
				tail = append(tail, word(s))
			}
		}
		// ---- after the labelled loop
		seen := false
		for _, s := range fd.Body.List {
			if ls, ok := s.(*ast.LabeledStmt); ok {
				if _, ok := ls.Stmt.(*ast.ForStmt); ok {
					seen = true
					after = nil
					continue
				}
			}
			if seen {
				after = append(after, word(s))
			}
		}
		if !seen {
			after = []string{"<no labelled loop>"}
		}
	}
	var b strings.Builder
	b.WriteString("/-! GENERATED by go/extract/connactivation from cmd/application (go/ast facts) — do not edit. -/\nnamespace CJ.Gen\n\n")
	b.WriteString("/-- `handleNewTCPConn`: WrapConnection / MarkActive / Proxy, the blocking calls, `return`s and labelled\nbranches in source order, each `@` the number of loops around it -/\n")
	fmt.Fprintf(&b, "def connHandlerEvents : List String := %s\n\n", leanList(events))
	b.WriteString("/-- the statements after the last early exit of the block in which MarkActive is called, to its end -/\n")
	fmt.Fprintf(&b, "def connActivationTail : List String := %s\n\n", leanList(tail))
	b.WriteString("/-- the statements of the handler after its labelled read loop -/\n")
	fmt.Fprintf(&b, "def connAfterLoop : List String := %s\n\nend CJ.Gen\n", leanList(after))
	if err := os.WriteFile(out, []byte(b.String()), 0o644); err != nil {
		panic(err)
	}
}
