module lockset

go 1.21
