// lockset: syntactic fact extractor (go/ast only) for C09's lockset theorems.
// usage: lockset <dir of package> [<dir>…] <out.lean>
//
// For every function (and every `go func(){…}` closure, which is a row of its own) of the packages'
// non-test files it records
//   - the LOCK-OPERATION PROGRAM: each acquisition `<x>.<mu>.Lock()` / `RLock()` of a tracked mutex
//     must be a statement that is either directly followed by `defer <x>.<mu>.Unlock()` (region = up to
//     the end of the function) or paired with a later `<x>.<mu>.Unlock()` in the same statement list
//     with nothing in between that can leave the region (return / break / continue / goto / panic / go /
//     another operation on the same mutex); anything else — an unmatched Unlock, a lock taken inside
//     an expression, a second acquisition inside a region — makes the row `structured := false`;
//   - every access to a protected field (selector named decoys / decoysTimeouts / Valid / regCount /
//     status / registrationTime / …) with whether it is a write and the mode in which the function
//     itself holds the guarding mutex AT THAT POSITION;
//   - every call of a package function / method (by short name) with the mutexes held at the call.
//
// The Lean side decides that every access happens under (or is only reachable under) the lock.
package main

import (
	"fmt"
	"go/ast"
	"go/parser"
	"go/token"
	"os"
	"sort"
	"strings"
)

// protected field -> name of the mutex field that guards it
var protected = map[string]string{
	"decoys": "m", "decoysTimeouts": "m", "Valid": "m", "regCount": "m",
	"status": "m", "registrationTime": "m",
	"PhantomSelector": "reloadMu", "GeoIP": "reloadMu",
	"covertBlocklistSubnets": "policyMu", "covertAllowlistSubnets": "policyMu", "enableCovertAllowlist": "policyMu",
	"covertBlocklistDomains": "policyMu", "phantomBlocklist": "policyMu",
	"generations": "genMutex", "lvStats": "lvMutex", "ttStats": "ttMutex",
	"ingestChan": "ingestChanMu",
}

var mutexes = map[string]bool{"m": true, "reloadMu": true, "policyMu": true, "genMutex": true, "lvMutex": true, "ttMutex": true, "ingestChanMu": true}

var muOrder = []string{"m", "policyMu", "reloadMu", "genMutex", "lvMutex", "ttMutex", "ingestChanMu"}

type span struct{ from, to token.Pos }

// a lock region: the positions at which the mutex is held by the function itself
type region struct {
	mu, mode string
	spans    []span
}

type access struct {
	field string
	write bool
	held  string
}

type call struct {
	callee string
	held   map[string]string
	pos    token.Pos
}

type row struct {
	name       string
	regions    []region
	accesses   []access
	calls      []call
	structured bool
}

// lockOp recognises `<x>.<mu>.<Lock|RLock|Unlock|RUnlock>()` on a tracked mutex.
func lockOp(e ast.Expr) (mu, op string, ok bool) {
	c, isCall := e.(*ast.CallExpr)
	if !isCall {
		return
	}
	sel, isSel := c.Fun.(*ast.SelectorExpr)
	if !isSel {
		return
	}
	inner, isSel := sel.X.(*ast.SelectorExpr)
	if !isSel || !mutexes[inner.Sel.Name] {
		return
	}
	switch sel.Sel.Name {
	case "Lock", "RLock", "Unlock", "RUnlock":
		return inner.Sel.Name, sel.Sel.Name, true
	}
	return
}

func stmtLockOp(s ast.Stmt) (mu, op string, ok bool) {
	if es, isExpr := s.(*ast.ExprStmt); isExpr {
		return lockOp(es.X)
	}
	return
}

func deferLockOp(s ast.Stmt) (mu, op string, ok bool) {
	if ds, isDefer := s.(*ast.DeferStmt); isDefer {
		return lockOp(ds.Call)
	}
	return
}

func rank(m string) int {
	switch m {
	case "W":
		return 2
	case "R":
		return 1
	}
	return 0
}

type analyzer struct {
	funcs    map[string]bool
	rows     []*row
	consumed map[ast.Node]bool // lock-operation call expressions that were matched by a pattern
}

// escapes reports whether the statements can leave a paired region other than by falling through,
// or touch the same mutex again. Function literals are not entered.
func escapes(stmts []ast.Stmt, mu string) bool {
	bad := false
	for _, st := range stmts {
		ast.Inspect(st, func(n ast.Node) bool {
			switch x := n.(type) {
			case *ast.FuncLit:
				return false
			case *ast.ReturnStmt, *ast.GoStmt, *ast.DeferStmt:
				bad = true
			case *ast.BranchStmt:
				bad = true
			case *ast.CallExpr:
				if id, ok := x.Fun.(*ast.Ident); ok && id.Name == "panic" {
					bad = true
				}
				if m, _, ok := lockOp(x); ok && m == mu {
					bad = true
				}
			}
			return true
		})
	}
	return bad
}

// scan finds the lock regions of one function scope (body of a FuncDecl or FuncLit) by descending
// through its statement structure. Nested function literals are scopes of their own (their defers run
// at their own end); `go` closures are cut out into rows of their own by the caller.
//
// A deferred release holds the mutex for the rest of the statement list it stands in and for
// everything that follows the enclosing statements — not for sibling branches (else, other cases).
func (a *analyzer) scan(r *row, body *ast.BlockStmt, goLits map[*ast.FuncLit]bool) {
	var visitList func(list []ast.Stmt, listEnd token.Pos, outer []span, inLoop bool)
	var visitStmt func(st ast.Stmt, outer []span, inLoop bool)
	visitStmt = func(st ast.Stmt, outer []span, inLoop bool) {
		switch y := st.(type) {
		case *ast.BlockStmt:
			visitList(y.List, y.End(), outer, inLoop)
		case *ast.IfStmt:
			visitList(y.Body.List, y.Body.End(), outer, inLoop)
			if y.Else != nil {
				visitStmt(y.Else, outer, inLoop)
			}
		case *ast.ForStmt:
			visitList(y.Body.List, y.Body.End(), outer, true)
		case *ast.RangeStmt:
			visitList(y.Body.List, y.Body.End(), outer, true)
		case *ast.SwitchStmt:
			visitStmt(y.Body, outer, inLoop)
		case *ast.TypeSwitchStmt:
			visitStmt(y.Body, outer, inLoop)
		case *ast.SelectStmt:
			visitStmt(y.Body, outer, inLoop)
		case *ast.CaseClause:
			visitList(y.Body, y.End(), outer, inLoop)
		case *ast.CommClause:
			visitList(y.Body, y.End(), outer, inLoop)
		case *ast.LabeledStmt:
			visitStmt(y.Stmt, outer, inLoop)
		}
	}
	visitList = func(list []ast.Stmt, listEnd token.Pos, outer []span, inLoop bool) {
		for i, st := range list {
			after := append([]span{{st.End(), listEnd}}, outer...)
			if _, isCase := st.(*ast.CaseClause); isCase {
				after = outer // the other cases of a switch do not follow this one
			}
			if _, isComm := st.(*ast.CommClause); isComm {
				after = outer
			}
			mu, op, ok := stmtLockOp(st)
			if !ok || (op != "Lock" && op != "RLock") {
				visitStmt(st, after, inLoop)
				continue
			}
			mode, unlock := "W", "Unlock"
			if op == "RLock" {
				mode, unlock = "R", "RUnlock"
			}
			callExpr := st.(*ast.ExprStmt).X
			if r.held(mu, st.Pos()) != "" {
				r.structured = false // acquired again inside a region of the same mutex: self-deadlock
			}
			// pattern A: directly followed by the deferred release
			if i+1 < len(list) {
				if m2, op2, ok2 := deferLockOp(list[i+1]); ok2 && m2 == mu && op2 == unlock {
					r.regions = append(r.regions, region{mu, mode, after})
					a.consumed[callExpr] = true
					a.consumed[list[i+1].(*ast.DeferStmt).Call] = true
					if inLoop {
						r.structured = false // the next iteration would acquire it again before the release
					}
					continue
				}
			}
			// pattern B: paired with a later release in the same statement list
			matched := false
			for j := i + 1; j < len(list); j++ {
				if m2, op2, ok2 := stmtLockOp(list[j]); ok2 && m2 == mu {
					if op2 == unlock && !escapes(list[i+1:j], mu) {
						r.regions = append(r.regions, region{mu, mode, []span{{st.End(), list[j].Pos()}}})
						a.consumed[callExpr] = true
						a.consumed[list[j].(*ast.ExprStmt).X] = true
						matched = true
					}
					break
				}
			}
			if !matched {
				r.structured = false
			}
		}
	}
	visitList(body.List, body.End(), nil, false)
	// function literals (other than `go` closures) are scopes of their own
	ast.Inspect(body, func(x ast.Node) bool {
		if fl, ok := x.(*ast.FuncLit); ok {
			if goLits[fl] {
				return false
			}
			visitList(fl.Body.List, fl.Body.End(), nil, false)
		}
		return true
	})
}

func (r *row) held(mu string, pos token.Pos) string {
	best := ""
	for _, g := range r.regions {
		if g.mu != mu || rank(g.mode) <= rank(best) {
			continue
		}
		for _, sp := range g.spans {
			if sp.from <= pos && pos < sp.to {
				best = g.mode
				break
			}
		}
	}
	return best
}

// analyse builds the row of one function scope and, recursively, the rows of its `go` closures.
func (a *analyzer) analyse(name string, body *ast.BlockStmt) {
	r := &row{name: name, structured: true}
	a.rows = append(a.rows, r)
	// `go func(){…}()` closures run in another goroutine: rows of their own
	goLits := map[*ast.FuncLit]bool{}
	goCalls := map[*ast.CallExpr]bool{} // `go f(x)`: the callee does not inherit the caller's locks
	n := 0
	ast.Inspect(body, func(x ast.Node) bool {
		if g, ok := x.(*ast.GoStmt); ok {
			if fl, ok := g.Call.Fun.(*ast.FuncLit); ok && !goLits[fl] {
				goLits[fl] = true
				n++
				a.analyse(fmt.Sprintf("%s$go%d", name, n), fl.Body)
				return false
			}
			goCalls[g.Call] = true
		}
		return true
	})
	a.scan(r, body, goLits)
	// writes: selectors that are (the base of) an assignment target, inc/dec, delete, or whose address is taken
	wr := map[ast.Node]bool{}
	var markW func(e ast.Expr)
	markW = func(e ast.Expr) {
		switch x := e.(type) {
		case *ast.SelectorExpr:
			wr[x] = true
		case *ast.IndexExpr:
			markW(x.X)
		case *ast.ParenExpr:
			markW(x.X)
		case *ast.StarExpr:
			markW(x.X)
		}
	}
	walk := func(f func(ast.Node) bool) {
		ast.Inspect(body, func(x ast.Node) bool {
			if fl, ok := x.(*ast.FuncLit); ok && goLits[fl] {
				return false
			}
			return f(x)
		})
	}
	walk(func(x ast.Node) bool {
		switch y := x.(type) {
		case *ast.AssignStmt:
			for _, l := range y.Lhs {
				markW(l)
			}
		case *ast.IncDecStmt:
			markW(y.X)
		case *ast.CallExpr:
			if id, ok := y.Fun.(*ast.Ident); ok && id.Name == "delete" && len(y.Args) > 0 {
				markW(y.Args[0])
			}
		}
		return true
	})
	walk(func(x ast.Node) bool {
		switch y := x.(type) {
		case *ast.CallExpr:
			if _, _, ok := lockOp(y); ok {
				if !a.consumed[y] {
					r.structured = false // an acquisition / release outside the two accepted patterns
				}
				return true
			}
			callee := ""
			if sel, ok := y.Fun.(*ast.SelectorExpr); ok && a.funcs[sel.Sel.Name] {
				callee = sel.Sel.Name
			} else if id, ok := y.Fun.(*ast.Ident); ok && a.funcs[id.Name] {
				callee = id.Name
			}
			if callee != "" {
				c := call{callee: callee, held: map[string]string{}, pos: y.Pos()}
				if !goCalls[y] {
					for _, mu := range muOrder {
						if h := r.held(mu, y.Pos()); h != "" {
							c.held[mu] = h
						}
					}
				}
				r.calls = append(r.calls, c)
			}
		case *ast.SelectorExpr:
			if g := protected[y.Sel.Name]; g != "" {
				r.accesses = append(r.accesses, access{y.Sel.Name, wr[y], r.held(g, y.Pos())})
			}
		}
		return true
	})
}

func main() {
	dirs, out := os.Args[1:len(os.Args)-1], os.Args[len(os.Args)-1]
	fset := token.NewFileSet()
	pkgs := map[string]*ast.Package{}
	for _, dir := range dirs {
		ps, err := parser.ParseDir(fset, dir, func(fi os.FileInfo) bool { return !strings.HasSuffix(fi.Name(), "_test.go") }, 0)
		if err != nil {
			panic(err)
		}
		for k, v := range ps {
			pkgs[dir+"/"+k] = v
		}
	}
	a := &analyzer{funcs: map[string]bool{}, consumed: map[ast.Node]bool{}}
	for _, p := range pkgs {
		for _, f := range p.Files {
			for _, d := range f.Decls {
				if fd, ok := d.(*ast.FuncDecl); ok {
					a.funcs[fd.Name.Name] = true
				}
			}
		}
	}
	// ---- every field the configuration reload assigns is shared state: whatever `OnReload` writes through
	// a selector (a field of the manager, of its configuration, of anything reachable from them) joins the
	// protected fields, guarded by the mutex OnReload holds in write mode at that assignment ("-" if it
	// holds none: then no access can be covered). Fields that are listed above keep their guard.
	var reloadWritten [][2]string
	for _, p := range pkgs {
		for _, f := range p.Files {
			for _, d := range f.Decls {
				fd, ok := d.(*ast.FuncDecl)
				if !ok || fd.Body == nil || fd.Name.Name != "OnReload" || fd.Recv == nil {
					continue
				}
				tmp := &analyzer{funcs: a.funcs, consumed: map[ast.Node]bool{}}
				tmp.analyse("OnReload", fd.Body)
				r := tmp.rows[0]
				seen := map[string]bool{}
				ast.Inspect(fd.Body, func(x ast.Node) bool {
					as, ok := x.(*ast.AssignStmt)
					if !ok {
						return true
					}
					for _, l := range as.Lhs {
						e := l
						for {
							if ix, ok := e.(*ast.IndexExpr); ok {
								e = ix.X
							} else if pe, ok := e.(*ast.ParenExpr); ok {
								e = pe.X
							} else if st, ok := e.(*ast.StarExpr); ok {
								e = st.X
							} else {
								break
							}
						}
						sel, ok := e.(*ast.SelectorExpr)
						if !ok || seen[sel.Sel.Name] {
							continue
						}
						seen[sel.Sel.Name] = true
						g := "-"
						for _, mu := range muOrder {
							if r.held(mu, sel.Pos()) == "W" {
								g = mu
								break
							}
						}
						reloadWritten = append(reloadWritten, [2]string{sel.Sel.Name, g})
						if protected[sel.Sel.Name] == "" {
							protected[sel.Sel.Name] = g
						}
					}
					return true
				})
			}
		}
	}
	sort.Slice(reloadWritten, func(i, j int) bool { return reloadWritten[i][0] < reloadWritten[j][0] })
	var pkgKeys []string
	for k := range pkgs {
		pkgKeys = append(pkgKeys, k)
	}
	sort.Strings(pkgKeys)
	for _, pk := range pkgKeys {
		p := pkgs[pk]
		var fileKeys []string
		for k := range p.Files {
			fileKeys = append(fileKeys, k)
		}
		sort.Strings(fileKeys)
		for _, fk := range fileKeys {
			for _, d := range p.Files[fk].Decls {
				fd, ok := d.(*ast.FuncDecl)
				if !ok || fd.Body == nil {
					continue
				}
				name := fd.Name.Name
				if fd.Recv != nil && len(fd.Recv.List) > 0 {
					t := fd.Recv.List[0].Type
					if s, ok := t.(*ast.StarExpr); ok {
						t = s.X
					}
					if id, ok := t.(*ast.Ident); ok {
						name = id.Name + "." + fd.Name.Name
					}
				}
				a.analyse(name, fd.Body)
			}
		}
	}
	rows := a.rows
	sort.SliceStable(rows, func(i, j int) bool { return rows[i].name < rows[j].name })
	short := func(n string) string {
		if i := strings.Index(n, "."); i >= 0 {
			n = n[i+1:]
		}
		return n
	}
	// keep only rows that matter: those that access protected fields, are unstructured, or
	// (transitively) call such rows
	relevant := map[string]bool{}
	for _, r := range rows {
		if len(r.accesses) > 0 || !r.structured {
			relevant[short(r.name)] = true
		}
	}
	for changed := true; changed; {
		changed = false
		for _, r := range rows {
			if relevant[short(r.name)] {
				continue
			}
			for _, c := range r.calls {
				if relevant[c.callee] {
					relevant[short(r.name)] = true
					changed = true
				}
			}
		}
	}
	var b strings.Builder
	b.WriteString("/-! GENERATED by go/extract/lockset from pkg/station/lib and cmd/application (go/ast facts) — do not edit. -/\nnamespace CJ.Gen\n\n")
	b.WriteString("inductive LockMode | none | R | W\nderiving DecidableEq, Repr\n\n")
	b.WriteString("/-- one access to a protected field: written or read, and the mode in which the function itself holds\nthe guarding mutex at that position -/\nstructure Access where\n  field : String\n  write : Bool\n  held : LockMode\nderiving Repr\n\n")
	b.WriteString("/-- one call of a package function (by short name) and the mutexes the caller holds at the call -/\nstructure CallSite where\n  callee : String\n  held : List (String × LockMode)\nderiving Repr\n\n")
	b.WriteString("structure FnFacts where\n  name : String\n  short : String\n  /-- lock regions of the function: mutex and mode -/\n  locks : List (String × LockMode)\n  /-- every acquisition follows one of the two accepted patterns and every release is matched -/\n  structured : Bool\n  accesses : List Access\n  calls : List CallSite\nderiving Repr\n\n")
	b.WriteString("/-- which mutex field guards which protected field -/\ndef guardOf : List (String × String) := [")
	{
		var ks []string
		for k := range protected {
			ks = append(ks, k)
		}
		sort.Strings(ks)
		for i, k := range ks {
			if i > 0 {
				b.WriteString(", ")
			}
			fmt.Fprintf(&b, "(%q, %q)", k, protected[k])
		}
	}
	b.WriteString("]\n\n")
	b.WriteString("/-- every field `OnReload` assigns through a selector, with the mutex it holds in write mode at that\nassignment (\"-\": none) -/\ndef reloadWrittenFields : List (String × String) := [")
	for i, x := range reloadWritten {
		if i > 0 {
			b.WriteString(", ")
		}
		fmt.Fprintf(&b, "(%q, %q)", x[0], x[1])
	}
	b.WriteString("]\n\n")
	mode := func(m string) string {
		if m == "" {
			return ".none"
		}
		return "." + m
	}
	b.WriteString("def lockTable : List FnFacts := [\n")
	first := true
	for _, r := range rows {
		if !relevant[short(r.name)] {
			continue
		}
		if !first {
			b.WriteString(",\n")
		}
		first = false
		var ls []string
		for _, g := range r.regions {
			ls = append(ls, fmt.Sprintf("(%q, .%s)", g.mu, g.mode))
		}
		// accesses: canonical (deduplicated, sorted)
		accSet := map[string]bool{}
		for _, x := range r.accesses {
			accSet[fmt.Sprintf("{ field := %q, write := %v, held := %s }", x.field, x.write, mode(x.held))] = true
		}
		var acc []string
		for k := range accSet {
			acc = append(acc, k)
		}
		sort.Strings(acc)
		callSet := map[string]bool{}
		for _, c := range r.calls {
			if !relevant[c.callee] {
				continue
			}
			var hs []string
			for _, mu := range muOrder {
				if h := c.held[mu]; h != "" {
					hs = append(hs, fmt.Sprintf("(%q, .%s)", mu, h))
				}
			}
			callSet[fmt.Sprintf("{ callee := %q, held := [%s] }", c.callee, strings.Join(hs, ", "))] = true
		}
		var cs []string
		for k := range callSet {
			cs = append(cs, k)
		}
		sort.Strings(cs)
		fmt.Fprintf(&b, "  { name := %q, short := %q, locks := [%s], structured := %v,\n    accesses := [%s],\n    calls := [%s] }",
			r.name, short(r.name), strings.Join(ls, ", "), r.structured, strings.Join(acc, ", "), strings.Join(cs, ", "))
	}
	b.WriteString("\n]\n\nend CJ.Gen\n")
	if err := os.WriteFile(out, []byte(b.String()), 0o644); err != nil {
		panic(err)
	}
}
