// lockset: syntactic fact extractor (go/ast only) for C09's lockset theorem.
// usage: lockset <dir of package lib> <out.lean>
// For every function of the package (non-test files) it records which mutex mode it takes on a
// RegisteredDecoys (`<x>.m.Lock()` / `<x>.m.RLock()`), which protected fields it reads or writes
// (selectors named decoys / decoysTimeouts / Valid / regCount), and which package functions/methods
// it calls. The Lean side decides that every access happens under (or is only reachable under) the lock.
package main

import (
	"fmt"
	"go/ast"
	"go/parser"
	"go/token"
	"os"
	"sort"
	"strings"
)

// protected field -> name of the mutex field that guards it
var protected = map[string]string{
	"decoys": "m", "decoysTimeouts": "m", "Valid": "m", "regCount": "m",
	"PhantomSelector": "reloadMu", "GeoIP": "reloadMu",
	"covertBlocklistSubnets": "policyMu", "covertAllowlistSubnets": "policyMu", "enableCovertAllowlist": "policyMu",
	"covertBlocklistDomains": "policyMu", "phantomBlocklist": "policyMu",
}

var mutexes = map[string]bool{"m": true, "reloadMu": true, "policyMu": true}

type row struct {
	name   string
	locks  map[string]string // mutex field -> "R" | "W"
	lock   string
	reads  map[string]bool
	writes map[string]bool
	calls  map[string]bool
}

func main() {
	dirs, out := os.Args[1:len(os.Args)-1], os.Args[len(os.Args)-1]
	fset := token.NewFileSet()
	pkgs := map[string]*ast.Package{}
	for _, dir := range dirs {
		ps, err := parser.ParseDir(fset, dir, func(fi os.FileInfo) bool { return !strings.HasSuffix(fi.Name(), "_test.go") }, 0)
		if err != nil {
			panic(err)
		}
		for k, v := range ps {
			pkgs[dir+"/"+k] = v
		}
	}
	var rows []*row
	funcs := map[string]bool{}
	for _, p := range pkgs {
		for _, f := range p.Files {
			for _, d := range f.Decls {
				if fd, ok := d.(*ast.FuncDecl); ok {
					funcs[fd.Name.Name] = true
				}
			}
		}
	}
	for _, p := range pkgs {
		for _, f := range p.Files {
			for _, d := range f.Decls {
				fd, ok := d.(*ast.FuncDecl)
				if !ok || fd.Body == nil {
					continue
				}
				r := &row{name: fd.Name.Name, lock: "none", locks: map[string]string{}, reads: map[string]bool{}, writes: map[string]bool{}, calls: map[string]bool{}}
				if fd.Recv != nil && len(fd.Recv.List) > 0 {
					t := fd.Recv.List[0].Type
					if s, ok := t.(*ast.StarExpr); ok {
						t = s.X
					}
					if id, ok := t.(*ast.Ident); ok {
						r.name = id.Name + "." + fd.Name.Name
					}
				}
				// writes: selectors that are (the base of) an assignment target, inc/dec or delete
				wr := map[ast.Node]bool{}
				var markW func(e ast.Expr)
				markW = func(e ast.Expr) {
					switch x := e.(type) {
					case *ast.SelectorExpr:
						wr[x] = true
					case *ast.IndexExpr:
						markW(x.X)
					case *ast.ParenExpr:
						markW(x.X)
					}
				}
				ast.Inspect(fd.Body, func(n ast.Node) bool {
					switch x := n.(type) {
					case *ast.AssignStmt:
						for _, l := range x.Lhs {
							markW(l)
						}
					case *ast.IncDecStmt:
						markW(x.X)
					case *ast.CallExpr:
						if id, ok := x.Fun.(*ast.Ident); ok && id.Name == "delete" && len(x.Args) > 0 {
							markW(x.Args[0])
						}
					}
					return true
				})
				ast.Inspect(fd.Body, func(n ast.Node) bool {
					switch x := n.(type) {
					case *ast.CallExpr:
						if sel, ok := x.Fun.(*ast.SelectorExpr); ok {
							if inner, ok := sel.X.(*ast.SelectorExpr); ok && mutexes[inner.Sel.Name] {
								switch sel.Sel.Name {
								case "Lock":
									r.locks[inner.Sel.Name] = "W"
								case "RLock":
									if r.locks[inner.Sel.Name] == "" {
										r.locks[inner.Sel.Name] = "R"
									}
								}
							}
							if funcs[sel.Sel.Name] {
								r.calls[sel.Sel.Name] = true
							}
						} else if id, ok := x.Fun.(*ast.Ident); ok && funcs[id.Name] {
							r.calls[id.Name] = true
						}
					case *ast.SelectorExpr:
						if protected[x.Sel.Name] != "" {
							if wr[x] {
								r.writes[x.Sel.Name] = true
							} else {
								r.reads[x.Sel.Name] = true
							}
						}
					}
					return true
				})
				if len(r.reads)+len(r.writes) > 0 || len(r.locks) > 0 || len(r.calls) > 0 {
					rows = append(rows, r)
				}
			}
		}
	}
	sort.Slice(rows, func(i, j int) bool { return rows[i].name < rows[j].name })
	// keep only rows that matter: those that access protected fields, or (transitively) call such rows
	short := func(n string) string {
		if i := strings.Index(n, "."); i >= 0 {
			return n[i+1:]
		}
		return n
	}
	relevant := map[string]bool{}
	for _, r := range rows {
		if len(r.reads)+len(r.writes) > 0 {
			relevant[short(r.name)] = true
		}
	}
	for changed := true; changed; {
		changed = false
		for _, r := range rows {
			if relevant[short(r.name)] {
				continue
			}
			for c := range r.calls {
				if relevant[c] {
					relevant[short(r.name)] = true
					changed = true
				}
			}
		}
	}
	keys := func(m map[string]bool, filter map[string]bool) string {
		var l []string
		for k := range m {
			if filter == nil || filter[k] {
				l = append(l, fmt.Sprintf("%q", k))
			}
		}
		sort.Strings(l)
		return "[" + strings.Join(l, ", ") + "]"
	}
	var b strings.Builder
	b.WriteString("/-! GENERATED by go/extract/lockset from pkg/station/lib (go/ast facts) — do not edit. -/\nnamespace CJ.Gen\n\n")
	b.WriteString("inductive LockMode | none | R | W\nderiving DecidableEq, Repr\n\n")
	b.WriteString("structure FnFacts where\n  name : String\n  short : String\n  locks : List (String × LockMode)\n  reads : List String\n  writes : List String\n  calls : List String\nderiving Repr\n\n")
	b.WriteString("/-- which mutex field guards which protected field -/\ndef guardOf : List (String × String) := [")
	{
		var ks []string
		for k := range protected {
			ks = append(ks, k)
		}
		sort.Strings(ks)
		for i, k := range ks {
			if i > 0 {
				b.WriteString(", ")
			}
			fmt.Fprintf(&b, "(%q, %q)", k, protected[k])
		}
	}
	b.WriteString("]\n\n")
	b.WriteString("def lockTable : List FnFacts := [\n")
	first := true
	for _, r := range rows {
		if !relevant[short(r.name)] {
			continue
		}
		if !first {
			b.WriteString(",\n")
		}
		first = false
		var ls []string
		for _, mu := range []string{"m", "policyMu", "reloadMu"} {
			if md := r.locks[mu]; md != "" {
				ls = append(ls, fmt.Sprintf("(%q, .%s)", mu, md))
			}
		}
		fmt.Fprintf(&b, "  { name := %q, short := %q, locks := [%s], reads := %s, writes := %s, calls := %s }", r.name, short(r.name), strings.Join(ls, ", "), keys(r.reads, nil), keys(r.writes, nil), keys(r.calls, relevant))
	}
	b.WriteString("\n]\n\nend CJ.Gen\n")
	if err := os.WriteFile(out, []byte(b.String()), 0o644); err != nil {
		panic(err)
	}
}
