module sweepticker

go 1.21
