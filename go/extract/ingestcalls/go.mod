module ingestcalls

go 1.21
