// ingestcalls: syntactic fact extractor (go/ast only) for C09.
// usage: ingestcalls <dir of pkg/station/lib> <dir of pkg/station/liveness> <out.lean>
//
// The progress and shutdown clauses of C09 hold only as far as an ingest worker does not wait for the
// environment without a bound.  Which calls a worker makes ITSELF and which it hands to a goroutine of their
// own is a fact of the source: this extractor lists every call in the bodies of the functions on the ingest
// path — startIngestThread, ingestRegistration, tryShareRegistrationOverAPI, executeHTTPRequest,
// handleConnectingTpReg — in source order, with
//   spawned = the call is the operand of a `go` statement, or lies inside a function literal that is the
//             operand of a `go` statement (at any depth)
// and, for the liveness probe (phantomIsLive in pkg/station/liveness), the facts its bound rests on: every
// net dial is a DialTimeout with the probe's `timeout` variable, the dials are spawned, the wait is one
// time.Sleep(timeout) followed by a select with a default branch.
package main

import (
	"bytes"
	"fmt"
	"go/ast"
	"go/parser"
	"go/printer"
	"go/token"
	"os"
	"strings"
)

var fset = token.NewFileSet()

func text(n ast.Node) string {
	var b bytes.Buffer
	_ = printer.Fprint(&b, fset, n)
	return strings.Join(strings.Fields(b.String()), "")
}

func funcs(dir string) map[string]*ast.FuncDecl {
	pkgs, err := parser.ParseDir(fset, dir, func(fi os.FileInfo) bool { return !strings.HasSuffix(fi.Name(), "_test.go") }, 0)
	if err != nil {
		panic(err)
	}
	m := map[string]*ast.FuncDecl{}
	for _, p := range pkgs {
		for _, f := range p.Files {
			for _, d := range f.Decls {
				if fd, ok := d.(*ast.FuncDecl); ok && fd.Body != nil {
					m[fd.Name.Name] = fd
				}
			}
		}
	}
	return m
}

type call struct {
	fn, callee string
	spawned    bool
}

// calls lists the calls of body in source order; spawned is inherited by everything inside a `go`.
func calls(fn string, body ast.Node) []call {
	var out []call
	var walk func(n ast.Node, spawned bool)
	walk = func(n ast.Node, spawned bool) {
		ast.Inspect(n, func(m ast.Node) bool {
			switch t := m.(type) {
			case *ast.GoStmt:
				out = append(out, call{fn, calleeName(t.Call), true})
				if fl, ok := t.Call.Fun.(*ast.FuncLit); ok {
					walk(fl.Body, true)
				}
				for _, a := range t.Call.Args {
					walk(a, spawned) // arguments are evaluated by the caller
				}
				return false
			case *ast.CallExpr:
				out = append(out, call{fn, calleeName(t), spawned})
			}
			return true
		})
	}
	walk(body, false)
	return out
}

func calleeName(c *ast.CallExpr) string {
	if _, ok := c.Fun.(*ast.FuncLit); ok {
		return "func-literal"
	}
	s := text(c.Fun)
	if len(s) > 80 {
		s = s[:80]
	}
	return s
}

func q(s string) string {
	return "\"" + strings.ReplaceAll(strings.ReplaceAll(s, "\\", "\\\\"), "\"", "\\\"") + "\""
}

func main() {
	lib, live, out := os.Args[1], os.Args[2], os.Args[3]
	lf := funcs(lib)
	var all []call
	var missing []string
	for _, fn := range []string{"startIngestThread", "ingestRegistration", "tryShareRegistrationOverAPI", "executeHTTPRequest", "handleConnectingTpReg"} {
		fd := lf[fn]
		if fd == nil {
			missing = append(missing, fn)
			continue
		}
		all = append(all, calls(fn, fd.Body)...)
	}
	// ---- the liveness probe
	var probe []call
	probeSleepTimeout, probeSelectDefault := false, false
	dialsWithTimeout, dialsOther := 0, 0
	if fd := funcs(live)["phantomIsLive"]; fd != nil {
		probe = calls("phantomIsLive", fd.Body)
		ast.Inspect(fd.Body, func(n ast.Node) bool {
			switch t := n.(type) {
			case *ast.CallExpr:
				switch name := calleeName(t); {
				case name == "time.Sleep" && len(t.Args) == 1 && text(t.Args[0]) == "timeout":
					probeSleepTimeout = true
				case name == "net.DialTimeout" && len(t.Args) == 3 && text(t.Args[2]) == "timeout":
					dialsWithTimeout++
				case strings.HasPrefix(name, "net.Dial") || strings.HasSuffix(name, ".Dial") || strings.HasSuffix(name, ".DialContext"):
					dialsOther++
				}
			case *ast.SelectStmt:
				for _, c := range t.Body.List {
					if cc, ok := c.(*ast.CommClause); ok && cc.Comm == nil {
						probeSelectDefault = true
					}
				}
			}
			return true
		})
	} else {
		missing = append(missing, "phantomIsLive")
	}
	var b strings.Builder
	b.WriteString("/-! GENERATED on every run by go/extract/ingestcalls from pkg/station/lib and pkg/station/liveness of the tree\nunder check: every call in the bodies of the functions on the ingest path, in source order, with whether it\nis made on a goroutine of its own (`go f(…)`, or inside a `go func() {…}()`), and the facts the bound of the\nliveness probe rests on.  Do not edit. -/\n")
	b.WriteString("namespace CJ.Gen\n\n")
	b.WriteString("/-- (function, callee, spawned) -/\ndef ingestCalls : List (String × String × Bool) := [\n")
	for i, c := range all {
		sp := "false"
		if c.spawned {
			sp = "true"
		}
		b.WriteString("  (" + q(c.fn) + ", " + q(c.callee) + ", " + sp + ")")
		if i+1 < len(all) {
			b.WriteString(",")
		}
		b.WriteString("\n")
	}
	b.WriteString("]\n\n")
	b.WriteString("def ingestPathMissing : List String := [")
	for i, m := range missing {
		if i > 0 {
			b.WriteString(", ")
		}
		b.WriteString(q(m))
	}
	b.WriteString("]\n\n")
	b.WriteString("/-- (callee, spawned) in `phantomIsLive` -/\ndef probeCalls : List (String × Bool) := [\n")
	for i, c := range probe {
		sp := "false"
		if c.spawned {
			sp = "true"
		}
		b.WriteString("  (" + q(c.callee) + ", " + sp + ")")
		if i+1 < len(probe) {
			b.WriteString(",")
		}
		b.WriteString("\n")
	}
	b.WriteString("]\n\n")
	bs := func(v bool) string {
		if v {
			return "true"
		}
		return "false"
	}
	b.WriteString("def probeSleepsTimeoutOnce : Bool := " + bs(probeSleepTimeout) + "\n")
	b.WriteString("def probeSelectHasDefault : Bool := " + bs(probeSelectDefault) + "\n")
	b.WriteString(fmt.Sprintf("def probeDialsWithTimeout : Nat := %d\n", dialsWithTimeout))
	b.WriteString(fmt.Sprintf("def probeDialsWithoutTimeout : Nat := %d\n\n", dialsOther))
	b.WriteString("end CJ.Gen\n")
	if err := os.WriteFile(out, []byte(b.String()), 0o644); err != nil {
		panic(err)
	}
}
