import CJ.Model.BdReq
/-! Helper lemmas for `CJ/Props/C13Request.lean`: the processor layer of the API registrar model. -/
namespace CJ.BdReq

theorem errStatus_cases (e : PErr) : errStatus e = 400 ∨ errStatus e = 500 := by cases e <;> simp [errStatus]

theorem front_cases (r : Req) (st : Nat) : front r = some st → st = 400 ∨ st = 405 := by
  unfold front; repeat' split
  all_goals simp
  all_goals omega

theorem selFam_shape {want s g o x} (h : selFam want s g o = .ok x) :
    x.isSome = want ∧ ∀ v, x = some v → v = s.ver ∧ s.gens.contains g = true := by
  unfold selFam select at h
  cases want <;> simp at h
  · subst h; simp
  · split at h
    · rename_i v hv; split at hv
      · split at hv <;> simp at hv h; subst h; subst hv; simp_all
      · simp at hv
    · simp at h

theorem procBd_sent_iff (pick tl r g) :
    (procBdWith pick tl r g).sent = true ↔ ∃ resp, (procBdWith pick tl r g).res = .ok resp := by
  unfold procBdWith
  cases hp : r.payload <;> cases h4 : selFam r.v4 (pick tl).1 g r.sel4 <;>
  cases h6 : selFam r.v6 (pick tl).2 g r.sel6 <;> cases ht : tail r <;> simp

theorem procBd_ok_shape {pick tl r g resp} (h : (procBdWith pick tl r g).res = .ok resp) :
    r.payload = true ∧ selFam r.v4 (pick tl).1 g r.sel4 = .ok resp.v4 ∧
    selFam r.v6 (pick tl).2 g r.sel6 = .ok resp.v6 ∧ tail r = none ∧ resp.cc = none := by
  unfold procBdWith at h
  cases hp : r.payload <;> cases h4 : selFam r.v4 (pick tl).1 g r.sel4 <;>
  cases h6 : selFam r.v6 (pick tl).2 g r.sel6 <;> cases ht : tail r <;> simp [hp, h4, h6, ht] at h
  subst h; simp

theorem procBd_asked (pick tl r g) :
    ∀ a ∈ (procBdWith pick tl r g).asked, a.gen = g ∧ a.ver = (if a.v6 then (pick tl).2.ver else (pick tl).1.ver) := by
  unfold procBdWith
  cases hp : r.payload <;> cases h4 : selFam r.v4 (pick tl).1 g r.sel4 <;>
  cases h6 : selFam r.v6 (pick tl).2 g r.sel6 <;> cases ht : tail r <;>
  cases r.v4 <;> cases r.v6 <;> simp [asks]

end CJ.BdReq
