import CJ.Model.DurationText
/-! Lemmas about the `time.ParseDuration` model: the running sum never leaves `[0, 2^63]`, and every round of
the group loop consumes at least one byte (so the fuel `length` is never exhausted). -/
namespace CJ.DurationText

theorem loop_nil (n d : Nat) : loop n [] d = .done d := by
  cases n <;> rfl

/-- the loop only ever hands on a sum that passed the test `d > 1<<63` -/
theorem loop_done_le : ∀ (n : Nat) (s : Bytes) (d r : Nat), d ≤ two63 → loop n s d = .done r → r ≤ two63
  | n, [], d, r, hd, h => by
    rw [loop_nil] at h
    injection h with h
    omega
  | 0, _ :: _, _, _, _, h => by simp [loop] at h
  | n + 1, c :: s, d, r, hd, h => by
    simp only [loop] at h
    split at h
    · cases h
    · split at h
      · cases h
      · exact loop_done_le n _ _ r (by omega) h

theorem leadingInt_len : ∀ (s : Bytes) (x v : Nat) (r : Bytes), leadingInt x s = some (v, r) → r.length ≤ s.length
  | [], x, v, r, h => by
    simp only [leadingInt, Option.some.injEq, Prod.mk.injEq] at h
    rw [← h.2]; exact Nat.le_refl _
  | c :: s, x, v, r, h => by
    simp only [leadingInt] at h
    split at h
    · split at h
      · cases h
      · split at h
        · cases h
        · have := leadingInt_len s _ v r h
          simp only [List.length_cons]; omega
    · simp only [Option.some.injEq, Prod.mk.injEq] at h
      rw [← h.2]; exact Nat.le_refl _

theorem leadingFraction_len : ∀ (s : Bytes) (x sc : Nat) (o : Bool), (leadingFraction x sc o s).2.2.length ≤ s.length
  | [], x, sc, o => by simp [leadingFraction]
  | c :: s, x, sc, o => by
    simp only [leadingFraction]
    split
    · split
      · have := leadingFraction_len s x sc true
        simp only [List.length_cons]; omega
      · split
        · have := leadingFraction_len s x sc true
          simp only [List.length_cons]; omega
        · split
          · have := leadingFraction_len s x sc true
            simp only [List.length_cons]; omega
          · have := leadingFraction_len s (x * 10 + (c - 48)) (sc + 1) false
            simp only [List.length_cons]; omega
    · exact Nat.le_refl _

theorem unitSpan_len : ∀ (s : Bytes), (unitSpan s).1.length + (unitSpan s).2.length = s.length
  | [] => by simp [unitSpan]
  | c :: s => by
    simp only [unitSpan]
    split
    · simp
    · have := unitSpan_len s
      simp only [List.length_cons]; omega

theorem fraction_len (s : Bytes) : (fraction s).2.2.2.length ≤ s.length := by
  unfold fraction
  split
  · rename_i t
    have := leadingFraction_len t 0 0 false
    simp only [List.length_cons]; omega
  · exact Nat.le_refl _

theorem unitSpan_rest_lt (s : Bytes) (h : (unitSpan s).1 ≠ []) : (unitSpan s).2.length < s.length := by
  have h1 := unitSpan_len s
  have h2 : 0 < (unitSpan s).1.length := List.length_pos_iff.mpr h
  omega

/-- a group that parses consumes at least its (non-empty) unit -/
theorem group_len (s : Bytes) (v : Nat) (rest : Bytes) (h : group s = some (v, rest)) : rest.length < s.length := by
  unfold group at h
  split at h
  · cases h
  · rename_i c t
    split at h
    · cases h
    · split at h
      · cases h
      · rename_i v0 s1 hli
        have h1 := leadingInt_len _ _ _ _ hli
        have h2 := fraction_len s1
        simp only [] at h
        split at h
        · cases h
        · split at h
          · cases h
          · rename_i hne
            have h3 := unitSpan_rest_lt _ hne
            split at h
            · cases h
            · split at h
              · cases h
              · split at h
                · split at h
                  · cases h
                  · simp only [Option.some.injEq, Prod.mk.injEq] at h
                    rw [← h.2]; omega
                · simp only [Option.some.injEq, Prod.mk.injEq] at h
                  rw [← h.2]; omega

theorem loop_no_fuel : ∀ (n : Nat) (s : Bytes) (d : Nat), s.length ≤ n → loop n s d ≠ .fuel
  | n, [], d, _ => by rw [loop_nil]; intro h; cases h
  | 0, _ :: _, _, h => by simp at h
  | n + 1, c :: s, d, h => by
    simp only [loop]
    split
    · intro h; cases h
    · rename_i v rest hg
      have := group_len _ _ _ hg
      split
      · intro h; cases h
      · exact loop_no_fuel n rest _ (by simp only [List.length_cons] at this h; omega)

end CJ.DurationText
