import CJ.Model.ClientSession
import CJ.Lemmas.Derive
/-! Lemmas about the client-transport state machine and the registrar response (C01). -/
namespace CJ.ClientSession
open CJ.Phantom CJ.Port CJ.Derive

/-- a parameter message of the transport's own type -/
def OwnWire : Transport → Wire → Prop
  | .min, .generic _ => True
  | .obfs4, .generic _ => True
  | .prefix, .prefix _ _ => True
  | .dtls, .dtls _ => True
  | _, _ => False

/-- an argument of `SetParams` that configures the transport completely: parameters of its own type
(min, obfs4: also `nil`, the default) -/
def OwnArg : Transport → Arg → Prop
  | .min, .generic _ => True
  | .min, .nil => True
  | .obfs4, .generic _ => True
  | .obfs4, .nil => True
  | .prefix, .prefix _ _ => True
  | .dtls, .dtls _ => True
  | .dtls, .generic _ => True
  | _, _ => False

/-- The session the client registered: its session parameters are `w`, and (prefix transport) the prefix
object of the session is the client's own table entry of the prefix `w` names. -/
def Registered (t : Transport) (st : St) (w : Wire) : Prop :=
  st.sess = some w ∧ (t = .prefix → ∃ id r, w = .prefix id r ∧ st.pfx = some (.table id))

theorem getDstPort_reads_session (c : Consts) (s : Stream) (lim : Nat) (t : Transport) (st st' : St)
    (hs : st.sess = st'.sess) (hp : st.pfx = st'.pfx) :
    (step c s lim t st .getDstPort).2 = (step c s lim t st' .getDstPort).2 := by
  cases t
  · simp [step, genericStep, hs]
  · simp [step, genericStep, hs]
  · cases h1 : st'.pfx <;> cases h2 : st'.sess <;>
      simp [step, prefixStep, hs, hp, h1, h2, rand?, apply_ite Prod.snd] <;> (try split) <;> (try rfl) <;>
      (split <;> rfl)
  · simp [step, dtlsStep, hs]
  · rfl

theorem setParams_keeps_session (c : Consts) (s : Stream) (lim : Nat) (t : Transport) (st : St) (a : Arg)
    (h : t = .prefix → st.sess ≠ none ∧ st.pfx ≠ none) :
    (step c s lim t st (.setParams a)).1.sess = st.sess ∧ (step c s lim t st (.setParams a)).1.pfx = st.pfx := by
  cases t
  · cases a <;> simp [step, genericStep]
  · cases a <;> simp [step, genericStep]
  · obtain ⟨hs, hp⟩ := h rfl
    have hsn : st.sess.isNone = false := by cases h : st.sess <;> simp_all
    cases hpo : st.pfx with
    | none => exact absurd hpo hp
    | some o =>
      cases a <;> simp only [step, prefixStep, prefixSetParams, configure, hpo, hsn] <;>
        (try split) <;> simp_all
  · cases a <;> simp [step, dtlsStep]
  · simp [step]

theorem registered_reconfigure (c : Consts) (s : Stream) (lim : Nat) (t : Transport) (w : Wire) (as : List Arg) :
    ∀ st, Registered t st w → Registered t (reconfigure c s lim t st as) w := by
  induction as with
  | nil => intro st h; exact h
  | cons a as ih =>
    intro st h
    apply ih
    have hk := setParams_keeps_session c s lim t st a (by
      intro ht
      obtain ⟨id, r, _, hp⟩ := h.2 ht
      exact ⟨by rw [h.1]; simp, by rw [hp]; simp⟩)
    refine ⟨by rw [hk.1]; exact h.1, ?_⟩
    intro ht
    obtain ⟨id, r, hw, hp⟩ := h.2 ht
    exact ⟨id, r, hw, by rw [hk.2]; exact hp⟩

theorem registered_getDstPort (c : Consts) (s : Stream) (lim : Nat) (t : Transport) (st : St) (w : Wire)
    (h : Registered t st w) (hty : WellTyped c t (some w)) :
    (step c s lim t st .getDstPort).2 = .port (clientDstPort c s lim t (some w)) := by
  cases t
  · simp [step, genericStep, h.1]
  · simp [step, genericStep, h.1]
  · obtain ⟨id, r, hw, hp⟩ := h.2 rfl
    subst hw
    have hl : (lookupPrefix c.clientPrefixes id).isSome = true := hty
    obtain ⟨d, hd⟩ := Option.isSome_iff_exists.mp hl
    cases r <;> simp [step, prefixStep, hp, h.1, rand?, clientDstPort, hd, PObj.port]
  · simp [step, dtlsStep, h.1]
  · exact absurd hty (by cases w <;> simp [WellTyped])

/-- configure (an argument of the transport's own type) and `Prepare`: whatever happened to the object
before, the session that starts is a registered one in the sense above -/
theorem configure_prepare_registers (c : Consts) (s : Stream) (lim : Nat) (t : Transport) (st0 : St) (a : Arg)
    (ha : OwnArg t a) (hok : (step c s lim t st0 (.setParams a)).2 = .ok) :
    ∃ w, (step c s lim t (step c s lim t (step c s lim t st0 (.setParams a)).1 .prepare).1 .getParams).2 = .params (some w) ∧
      Registered t (step c s lim t (step c s lim t (step c s lim t st0 (.setParams a)).1 .prepare).1 .getParams).1 w ∧
      WellTyped c t (some w) := by
  cases t <;> cases a <;> simp only [OwnArg] at ha
  · exact ⟨.generic true, by simp [step, genericStep, Registered, WellTyped]⟩
  · rename_i r; exact ⟨.generic r, by simp [step, genericStep, Registered, WellTyped]⟩
  · exact ⟨.generic true, by simp [step, genericStep, Registered, WellTyped]⟩
  · rename_i r; exact ⟨.generic r, by simp [step, genericStep, Registered, WellTyped]⟩
  · rename_i id r
    by_cases hk : known c id = true
    · refine ⟨.prefix id r, ?_⟩
      simp [step, prefixStep, prefixSetParams, hk, configure, prefixPrepare, Registered, WellTyped]
      exact hk
    · simp [step, prefixStep, prefixSetParams, hk] at hok
  · rename_i r; exact ⟨.dtls r, by simp [step, dtlsStep, Registered, WellTyped]⟩
  · rename_i r; exact ⟨.dtls r, by simp [step, dtlsStep, Registered, WellTyped]⟩

theorem dialerPort_eq_clientPort (c : Consts) (s : Stream) (lim : Nat) (t : Transport) (ver : Nat) (sr : Bool)
    (sess : Option Wire) : dialerPort c ver sr (.port (clientDstPort c s lim t sess)) = clientPort c s lim t ver sess sr := rfl

/-- the client's treatment of the response's parameters and the station's are the same function -/
theorem unpack_eq_ingest (c : Consts) (s : Stream) (lim : Nat) (t : Transport) (st : St) (w : Wire)
    (disable : Bool) (rr : Resp) (ht : t ≠ .unknown) (hreg : st.sess = some w) (hpar : st.par ≠ none)
    (hty : ∀ w', rr.tp = some w' → OwnWire t w') :
    (step c s lim t st (.unpack disable rr.tp)).1.sess = ingestParams disable (some rr) (some w) := by
  cases htp : rr.tp with
  | none => cases t <;> simp [step, genericStep, prefixStep, dtlsStep, ingestParams, htp, hreg]
  | some w' =>
    have ho := hty w' htp
    have hpn : st.par.isNone = false := by cases h : st.par <;> simp_all
    cases disable
    · cases t <;> cases w' <;> simp only [OwnWire] at ho <;>
        simp [step, genericStep, genericSetSession, prefixStep, prefixSetSession, dtlsStep, dtlsSetSession, ingestParams,
          htp, hreg, hpn]
    · cases t <;> simp [step, genericStep, prefixStep, dtlsStep, ingestParams, htp, hreg]

theorem ingestParams_eq (disable : Bool) (rr : Resp) (c2s : Option Wire) :
    ingestParams disable (some rr) c2s = (if rr.tp.isSome = true ∧ disable = false then rr.tp else c2s) := by
  cases h : rr.tp <;> cases disable <;> simp [ingestParams, h]

theorem stationIngest_none (c : Crypto) (k : Consts) (cfg : Cfg) (r : Reg) (disable : Bool) (R : Rng) (g : R.G) :
    ((stationIngest c k cfg r disable none).run R g).1 = ((stationDerive c k cfg r).run R g).1 := by
  unfold stationIngest
  simp only [ingestParams, Prog.bind_eq, Prog.pure_eq, Prog.run_bind]
  cases ((stationDerive c k cfg { r with params := r.params }).run R g).1 <;> rfl

theorem stationIngest_some (c : Crypto) (k : Consts) (cfg : Cfg) (r : Reg) (disable : Bool) (rr : Resp) (R : Rng) (g : R.G) :
    ((stationIngest c k cfg r disable (some rr)).run R g).1 =
      match ((stationDerive c k cfg { r with params := ingestParams disable (some rr) r.params }).run R g).1 with
      | .ok rv => .ok { rv with addr := rr.addr.getD rv.addr, port := (rr.port.map (· % 65536)).getD rv.port }
      | d => d := by
  unfold stationIngest
  simp only [Prog.bind_eq, Prog.pure_eq, Prog.run_bind]
  cases ((stationDerive c k cfg { r with params := ingestParams disable (some rr) r.params }).run R g).1 <;> rfl

/-! ### the first candidate of the port draw (boundary behaviour of `PortSelectorRange`) -/

theorem maskTop8 (bs : Bytes) : maskTop 8 bs = bs := by
  cases bs with
  | nil => rfl
  | cons x xs =>
    simp only [maskTop]
    congr 1
    show x &&& 255 = x
    exact UInt8.and_neg_one

/-- a 16-bit bound: the first big-endian word of the stream is the port offset iff it is below the bound;
a word at or above the bound is rejected and the draw continues with the next word -/
theorem portSelectorRange_first_candidate (s : Stream) (lim lo : Nat) (hl : 2 ≤ lim) (max : Nat)
    (hb : bitLen (max - 1) = 16) (hm : max ≠ 0) :
    (beNat (readAt s 0 2) < max → portSelectorRange s lim lo (lo + max) = .ok ((beNat (readAt s 0 2) + lo) % 65536)) ∧
    (max ≤ beNat (readAt s 0 2) → portSelectorRange s lim lo (lo + max) =
      match randIntLoop s lim 2 8 max lim 2 with
      | .ok p => .ok ((p + lo) % 65536) | .err _ => .ok 0 | .panic w => .panic w) := by
  have hr : randInt s lim max = randIntLoop s lim 2 8 max (lim + 1) 0 := by
    unfold randInt
    simp [hm, hb]
  constructor
  · intro h
    unfold portSelectorRange
    rw [Nat.add_sub_cancel_left, hr, randIntLoop]
    have : ¬ lim < 0 + 2 := by omega
    simp only [this, if_false, maskTop8, h, if_true]
  · intro h
    unfold portSelectorRange
    rw [Nat.add_sub_cancel_left, hr, randIntLoop]
    have h1 : ¬ lim < 0 + 2 := by omega
    have h2 : ¬ beNat (readAt s 0 2) < max := by omega
    simp only [h1, if_false, maskTop8, h2, Nat.zero_add]
    cases randIntLoop s lim 2 8 max lim 2 <;> rfl

end CJ.ClientSession
