import CJ.Model.Responder
import CJ.Lemmas.CodecPath
import CJ.Lemmas.Ingress
/-! Lemmas about the responder's per-datagram path (C11: it cannot panic) and its receive loop (C15:
handlers cannot see each other's datagrams). Core Lean only. -/
namespace CJ.Codec

/-! ### the writer cannot reach its `panic(length)` on names whose labels have 1..63 bytes -/

def LabelsOk (n : Name) : Prop := ∀ l ∈ n, 0 < l.length ∧ l.length ≤ 63

theorem LabelsOk.of_valid {n : Name} (h : validName n) : LabelsOk n := ((validName_iff n).mp h).1

theorem labelsOk_nil : LabelsOk [] := by intro l hl; cases hl

theorem writeLabels_safe : ∀ (ls : List Label) (b : Builder) (ptr : Nat) (tail : Name),
    (∀ l ∈ ls, 0 < l.length ∧ l.length ≤ 63) → (writeLabels b ptr ls tail).Safe := by
  intro ls
  induction ls with
  | nil => intro b ptr tail _; exact .ok _
  | cons l ls ih =>
    intro b ptr tail h
    have hl := h l (by simp)
    have hne : ¬ (l.length = 0 ∨ l.length > 63) := by omega
    rw [writeLabels]
    simp only [hne, if_false]
    exact ih _ _ _ (fun l' h' => h l' (by simp [h']))

theorem splitName_fst_mem (c : List CacheEntry) : ∀ (n : Name) (l : Label), l ∈ (splitName c n).1 → l ∈ n := by
  intro n
  induction n with
  | nil => intro l h; simp [splitName] at h
  | cons a rest ih =>
    intro l h
    rw [splitName] at h
    split at h
    · split at h
      · simp at h
      · simp only [List.mem_cons] at h
        rcases h with h | h
        · simp [h]
        · exact List.mem_cons_of_mem _ (ih l h)
    · simp only [List.mem_cons] at h
      rcases h with h | h
      · simp [h]
      · exact List.mem_cons_of_mem _ (ih l h)

theorem writeName_safe (b : Builder) (n : Name) (h : LabelsOk n) : (writeName b n).Safe := by
  unfold writeName
  split
  · rename_i pre hs
    have hp : ∀ l ∈ pre, 0 < l.length ∧ l.length ≤ 63 := by
      intro l hl
      have : l ∈ (splitName b.cache n).1 := by rw [hs]; exact hl
      exact h l (splitName_fst_mem _ _ _ this)
    exact (writeLabels_safe pre b 0 [] hp).bind fun _ => .ok _
  · rename_i pre e hs
    have hp : ∀ l ∈ pre, 0 < l.length ∧ l.length ≤ 63 := by
      intro l hl
      have : l ∈ (splitName b.cache n).1 := by rw [hs]; exact hl
      exact h l (splitName_fst_mem _ _ _ this)
    exact (writeLabels_safe pre b _ _ hp).bind fun _ => .ok _

theorem writeQuestion_safe (b : Builder) (q : Question) (h : LabelsOk q.name) : (writeQuestion b q).Safe :=
  (writeName_safe b q.name h).bind fun _ => .ok _

theorem writeRR_safe (b : Builder) (r : RR) (h : LabelsOk r.name) : (writeRR b r).Safe := by
  unfold writeRR
  refine (writeName_safe b r.name h).bind fun b' => ?_
  simp only
  split
  · exact .err _
  · exact .ok _

theorem writeQuestions_safe : ∀ (qs : List Question) (b : Builder), (∀ q ∈ qs, LabelsOk q.name) →
    (writeQuestions b qs).Safe := by
  intro qs
  induction qs with
  | nil => intro b _; exact .ok _
  | cons q qs ih =>
    intro b h
    rw [writeQuestions]
    exact (writeQuestion_safe b q (h q (by simp))).bind fun b' => ih b' (fun q' h' => h q' (by simp [h']))

theorem writeRRs_safe : ∀ (rs : List RR) (b : Builder), (∀ r ∈ rs, LabelsOk r.name) → (writeRRs b rs).Safe := by
  intro rs
  induction rs with
  | nil => intro b _; exact .ok _
  | cons r rs ih =>
    intro b h
    rw [writeRRs]
    exact (writeRR_safe b r (h r (by simp))).bind fun b' => ih b' (fun r' h' => h r' (by simp [h']))

theorem writeCounts_safe : ∀ (cs : List Nat) (w : Bytes), (writeCounts w cs).Safe := by
  intro cs
  induction cs with
  | nil => intro w; exact .ok _
  | cons c cs ih =>
    intro w
    rw [writeCounts]
    split
    · exact .err _
    · exact ih _

/-- the messages on which `WireFormat` cannot panic: every label of every name has 1..63 bytes -/
structure Message.LabelsOk (m : Message) : Prop where
  qd : ∀ q ∈ m.question, Codec.LabelsOk q.name
  an : ∀ r ∈ m.answer, Codec.LabelsOk r.name
  ns : ∀ r ∈ m.authority, Codec.LabelsOk r.name
  ar : ∀ r ∈ m.additional, Codec.LabelsOk r.name

theorem wireFormat_safe (m : Message) (h : m.LabelsOk) : (wireFormat m).Safe := by
  unfold wireFormat writeMessage
  refine Outcome.Safe.bind ?_ fun _ => .ok _
  refine (writeCounts_safe _ _).bind fun w1 => ?_
  refine (writeQuestions_safe _ _ h.qd).bind fun b1 => ?_
  refine (writeRRs_safe _ _ h.an).bind fun b2 => ?_
  refine (writeRRs_safe _ _ h.ns).bind fun b3 => ?_
  exact writeRRs_safe _ _ h.ar

/-! ### what the reader hands on has such names, also when it fails half way -/

theorem readName_ok_valid {buf : Bytes} {pos : Nat} {n : Name} {e : Nat} (h : readName buf pos = .ok (n, e)) :
    validName n := by
  unfold readName at h
  have key : ∀ fuel p labels np seekTo, readNameLoop buf fuel p labels np seekTo = .ok (n, e) → validName n := by
    intro fuel
    induction fuel with
    | zero => intro p labels np seekTo h; simp [readNameLoop] at h
    | succ fuel ih =>
      intro p labels np seekTo h
      rw [readNameLoop] at h
      split at h
      · cases h
      · split at h
        · try simp only at h
          split at h
          · unfold finishName at h
            cases hn : newName labels with
            | ok n' =>
              rw [hn] at h; simp only [Outcome.bind] at h; cases h
              have := newName_ok_eq hn
              subst this; exact hn
            | err e' => rw [hn] at h; cases h
            | panic s => rw [hn] at h; cases h
            | hang => rw [hn] at h; cases h
          · split at h
            · exact ih _ _ _ _ h
            · cases h
        · split at h
          · split at h
            · cases h
            · try simp only at h
              split at h
              · cases h
              · exact ih _ _ _ _ h
          · cases h
  exact key _ _ _ _ _ h

theorem readQuestion_ok_valid {buf : Bytes} {pos : Nat} {q : Question} {p : Nat}
    (h : readQuestion buf pos = .ok (q, p)) : validName q.name := by
  unfold readQuestion at h
  obtain ⟨⟨n, p1⟩, h1, h⟩ := Outcome.bind_eq_ok h
  obtain ⟨⟨t, p2⟩, _, h⟩ := Outcome.bind_eq_ok h
  obtain ⟨⟨c, p3⟩, _, h⟩ := Outcome.bind_eq_ok h
  simp only [Outcome.ok.injEq, Prod.mk.injEq] at h
  obtain ⟨rfl, _⟩ := h
  exact readName_ok_valid h1

theorem readQuestionsAcc_valid (buf : Bytes) : ∀ (k pos : Nat) (acc : List Question),
    (∀ q ∈ acc, validName q.name) → ∀ q ∈ (readQuestionsAcc buf k pos acc).1, validName q.name := by
  intro k
  induction k with
  | zero => intro pos acc h; simpa [readQuestionsAcc] using h
  | succ k ih =>
    intro pos acc h
    rw [readQuestionsAcc]
    split
    · rename_i q p1 hq
      apply ih
      intro q' hq'
      rcases List.mem_append.mp hq' with h' | h'
      · exact h q' h'
      · simp only [List.mem_singleton] at h'
        subst h'
        exact readQuestion_ok_valid hq
    · exact h

/-- whatever the bytes: the questions `RecvAndRespond` goes on with have names `NewName` accepted -/
theorem lenientParse_questions_valid (buf : Bytes) : ∀ q ∈ (lenientParse buf).question, validName q.name := by
  have hnil : ∀ q ∈ ([] : List Question), validName q.name := by intro q hq; cases hq
  unfold lenientParse
  split
  · split
    · split
      · rename_i qd _ an _ ns _ ar _ _ _ _ _
        have hq := readQuestionsAcc_valid buf qd.toNat 12 [] hnil
        split
        · rename_i qs heq
          rw [heq] at hq
          exact hq
        · rename_i qs p7 heq
          rw [heq] at hq
          split
          · exact hq
          · split
            · exact hq
            · exact hq
      · exact hnil
    · exact hnil
  · exact hnil

/-! ### `responseFor`: which answers carry which sections -/

def OptScan.add : OptScan → List RR
  | .formErr a => a
  | .badVers a => a
  | .done a _ => a

theorem scanOPT_add : ∀ (rrs add : List RR) (ps : Nat), (add = [] ∨ ∃ ttl, add = [optRR ttl]) →
    ((scanOPT rrs add ps).add = [] ∨ ∃ ttl, (scanOPT rrs add ps).add = [optRR ttl]) := by
  intro rrs
  induction rrs with
  | nil => intro add ps h; simpa [scanOPT, OptScan.add] using h
  | cons rr rest ih =>
    intro add ps h
    rw [scanOPT]
    split
    · exact ih add ps h
    · split
      · simpa [OptScan.add] using h
      · simp only
        split
        · exact Or.inr ⟨_, rfl⟩
        · exact ih _ _ (Or.inr ⟨_, rfl⟩)

theorem responseFor_question {q : Message} {dom : Name} {maxUDP : Nat} {dec : Bytes → Option Bytes}
    {resp : Message} {pl : Option Bytes} (h : responseFor q dom maxUDP dec = some (resp, pl)) :
    resp.question = q.question ∧ resp.answer = [] ∧ resp.authority = [] ∧
      (resp.additional = [] ∨ ∃ ttl, resp.additional = [optRR ttl]) := by
  have hs := scanOPT_add q.additional [] 0 (Or.inl rfl)
  unfold responseFor at h
  simp only at h
  split at h
  · cases h
  · split at h
    · rename_i add heq
      rw [heq] at hs
      simp only [Option.some.injEq, Prod.mk.injEq] at h
      obtain ⟨rfl, _⟩ := h
      exact ⟨rfl, rfl, rfl, hs⟩
    · rename_i add heq
      rw [heq] at hs
      simp only [Option.some.injEq, Prod.mk.injEq] at h
      obtain ⟨rfl, _⟩ := h
      exact ⟨rfl, rfl, rfl, hs⟩
    · rename_i add ps0 heq
      rw [heq] at hs
      repeat' first
        | (simp only [Option.some.injEq, Prod.mk.injEq] at h; obtain ⟨rfl, _⟩ := h; exact ⟨rfl, rfl, rfl, hs⟩)
        | split at h

/-- RCODE 0 in the four header bits means one of two things: the query is answered (a payload was
extracted), or it is the BADVERS answer (whose RCODE lives in the OPT TTL: `ExtendedRcodeBadVers & 0xf = 0`)
— and that one is returned before the questions are looked at -/
theorem responseFor_noerror {q : Message} {dom : Name} {maxUDP : Nat} {dec : Bytes → Option Bytes}
    {resp : Message} {pl : Option Bytes} (h : responseFor q dom maxUDP dec = some (resp, pl))
    (hr : resp.flags &&& 0x000f = 0) :
    pl.isSome = true ∨ ∃ add, scanOPT q.additional [] 0 = .badVers add := by
  unfold responseFor at h
  simp only at h
  split at h
  · cases h
  · split at h
    · simp only [Option.some.injEq, Prod.mk.injEq] at h
      obtain ⟨rfl, _⟩ := h
      simp at hr
      exact absurd hr (by decide)
    · rename_i add heq
      exact Or.inr ⟨add, heq⟩
    · repeat' first
        | (simp only [Option.some.injEq, Prod.mk.injEq] at h; obtain ⟨rfl, rfl⟩ := h
           first
             | exact Or.inl rfl
             | (exfalso; simp at hr; exact absurd hr (by decide)))
        | split at h

/-- a payload comes only out of a query with exactly one question -/
theorem responseFor_payload {q : Message} {dom : Name} {maxUDP : Nat} {dec : Bytes → Option Bytes}
    {resp : Message} {pl : Bytes} (h : responseFor q dom maxUDP dec = some (resp, some pl)) :
    ∃ qu, q.question = [qu] ∧ resp.question = [qu] := by
  have hq := (responseFor_question h).1
  unfold responseFor at h
  simp only at h
  split at h
  · cases h
  · split at h
    · cases h
    · cases h
    · split at h
      · rename_i qu hqu
        exact ⟨qu, hqu, by rw [hq, hqu]⟩
      · cases h

theorem optRR_labelsOk (ttl : UInt32) : LabelsOk (optRR ttl).name := labelsOk_nil

/-- the response `responseFor` builds for a parsed query, with or without the TXT answer
`dnsRespToUDPResp` adds, is a message `WireFormat` cannot panic on -/
theorem response_labelsOk {q : Message} {dom : Name} {maxUDP : Nat} {dec : Bytes → Option Bytes}
    {resp : Message} {pl : Option Bytes} (h : responseFor q dom maxUDP dec = some (resp, pl))
    (hq : ∀ x ∈ q.question, validName x.name) :
    resp.LabelsOk ∧ ∀ x ∈ resp.question, ∀ d : Bytes,
      Message.LabelsOk { resp with answer := [⟨x.name, x.qtype, x.qclass, 60, d⟩] } := by
  obtain ⟨h1, h2, h3, h4⟩ := responseFor_question h
  have hqd : ∀ x ∈ resp.question, LabelsOk x.name := by
    rw [h1]; intro x hx; exact .of_valid (hq x hx)
  have har : ∀ r ∈ resp.additional, LabelsOk r.name := by
    rcases h4 with h4 | ⟨ttl, h4⟩
    · rw [h4]; intro r hr; cases hr
    · rw [h4]; intro r hr; simp only [List.mem_singleton] at hr; subst hr; exact optRR_labelsOk ttl
  have hns : ∀ r ∈ resp.authority, LabelsOk r.name := by rw [h3]; intro r hr; cases hr
  refine ⟨⟨hqd, (by rw [h2]; intro r hr; cases hr), hns, har⟩, ?_⟩
  intro x hx d
  refine ⟨hqd, ?_, hns, har⟩
  intro r hr
  simp only [List.mem_singleton] at hr
  subst hr
  exact hqd x hx

/-! ### `dnsRespToUDPResp` -/

theorem first_eq_of_length_one {α : Type} {l : List α} (h : l.length = 1) : ∃ a, l = [a] ∧ first l = .ok a := by
  match l, h with
  | [a], _ => exact ⟨a, rfl, rfl⟩

/-- with both halves of the guard the index expression is never evaluated on an empty slice: the model
with Go's partial indexing is the total function the C15 theorems are about -/
theorem udpResponseGo_eq (resp : Message) (payload : Bytes) : udpResponseGo resp payload = udpResponse resp payload := by
  unfold udpResponseGo udpResponseWith udpResponse
  by_cases hr : resp.flags &&& 0x000f = 0
  · by_cases hl : resp.question.length = 1
    · obtain ⟨a, ha, hf⟩ := first_eq_of_length_one hl
      simp [hr, ha, first, Outcome.bind]
    · have : ∀ a, resp.question ≠ [a] := by intro a h; rw [h] at hl; exact hl rfl
      simp only [hr, hl, true_and, Bool.true_eq_false, false_or, if_false, if_true]
  · simp [hr]

theorem udpResponseGo_safe (resp : Message) (payload : Bytes) (h : resp.LabelsOk)
    (ha : ∀ x ∈ resp.question, ∀ d : Bytes, Message.LabelsOk { resp with answer := [⟨x.name, x.qtype, x.qclass, 60, d⟩] }) :
    (udpResponseGo resp payload).Safe := by
  unfold udpResponseGo udpResponseWith
  split
  · rename_i hc
    have hl : resp.question.length = 1 := by
      rcases hc.2 with h' | h'
      · cases h'
      · exact h'
    obtain ⟨a, hq, hf⟩ := first_eq_of_length_one hl
    rw [hf]
    exact wireFormat_safe _ (ha a (by rw [hq]; simp) _)
  · exact wireFormat_safe _ h

/-! ### the whole handler -/

theorem orReturn_safe {α : Type} {o : Outcome α} {k : α → Outcome (Option Bytes)} (ho : o.Safe)
    (hk : ∀ a, (k a).Safe) : (orReturn o k).Safe := by
  cases o with
  | ok a => exact hk a
  | err e => exact .ok _
  | panic s => exact absurd rfl (ho.1 s)
  | hang => exact absurd rfl ho.2

theorem addResponseFormat_safe (p : Bytes) : (addResponseFormat p).Safe := by
  unfold addResponseFormat
  split
  · exact .err _
  · exact .ok _

theorem handleDatagram_safe (dom : Name) (maxUDP : Nat) (dec : Bytes → Option Bytes) (craft : Bytes → Option Bytes)
    (buf : Bytes) : (handleDatagram dom maxUDP dec craft buf).Safe := by
  unfold handleDatagram handleDatagramWith
  split
  · exact .ok _
  · rename_i resp payload hr
    obtain ⟨hl, ha⟩ := response_labelsOk hr (lenientParse_questions_valid buf)
    have hsend : ∀ rb : Bytes, (orReturn (udpResponseWith true resp rb) fun d =>
        if d.length > maxUDP then orReturn (udpResponseWith true resp []) fun d0 => .ok (some d0)
        else .ok (some d)).Safe := by
      intro rb
      refine orReturn_safe (udpResponseGo_safe resp rb hl ha) fun d => ?_
      split
      · exact orReturn_safe (udpResponseGo_safe resp [] hl ha) fun _ => .ok _
      · exact .ok _
    simp only
    split
    · exact hsend []
    · refine orReturn_safe (removeRequest_safe _) fun f => ?_
      split
      · exact .ok _
      · exact orReturn_safe (addResponseFormat_safe _) hsend

end CJ.Codec

namespace CJ.Codec

/-! ### the receive loop: with a buffer per iteration no handler sees another datagram -/

section RecvLoop
variable (respond : Bytes → Option Bytes × Option Bytes)

/-- what the handler of datagram `d` writes / hands to the callback when it reads `d` itself -/
def outOf (d : Dgram) : List (Nat × Bytes) := ((respond (received d.data)).2.map fun x => (d.addr, x)).toList
def seenOf (d : Dgram) : List Bytes := (respond (received d.data)).1.toList

/-- the handler the per-iteration loop starts for `d`: it owns an array that holds `d` -/
def handlerOf (d : Dgram) : Handler := ⟨d.addr, (received d.data).length, some (received d.data)⟩

theorem map_eraseIdx {α β : Type} (f : α → β) : ∀ (l : List α) (i : Nat), (l.map f).eraseIdx i = (l.eraseIdx i).map f := by
  intro l
  induction l with
  | nil => intro i; rfl
  | cons x t ih =>
    intro i
    cases i with
    | zero => rfl
    | succ i => simp only [List.map_cons, List.eraseIdx_cons_succ, ih]

theorem flatMap_eraseIdx_perm {α β : Type} (f : α → List β) : ∀ (l : List α) (i : Nat) (a : α), l[i]? = some a →
    (f a ++ (l.eraseIdx i).flatMap f).Perm (l.flatMap f) := by
  intro l
  induction l with
  | nil => intro i a h; simp at h
  | cons x t ih =>
    intro i a h
    cases i with
    | zero =>
      simp only [List.getElem?_cons_zero, Option.some.injEq] at h
      subst h
      simp
    | succ i =>
      simp only [List.getElem?_cons_succ] at h
      simp only [List.eraseIdx_cons_succ, List.flatMap_cons]
      have h1 := ih i a h
      -- f a ++ (f x ++ rest) ~ f x ++ (f a ++ rest) ~ f x ++ t.flatMap f
      refine List.Perm.trans ?_ (List.Perm.append_left (f x) h1)
      rw [← List.append_assoc, ← List.append_assoc]
      exact List.Perm.append_right _ List.perm_append_comm

/-- the bookkeeping invariant of the loop with a buffer per iteration: the handlers that have not run
yet are those of some datagrams `ds`, and what was sent / seen so far, what those handlers will send /
see and what the datagrams still queued will cause add up to what the whole burst causes -/
def LoopInv (all : List Dgram) (s : Loop) : Prop :=
  ∃ ds : List Dgram, s.pending = ds.map handlerOf ∧
    (s.sent ++ (ds.flatMap (outOf respond) ++ s.queue.flatMap (outOf respond))).Perm (all.flatMap (outOf respond)) ∧
    (s.seen ++ (ds.flatMap (seenOf respond) ++ s.queue.flatMap (seenOf respond))).Perm (all.flatMap (seenOf respond))

theorem loopInv_init (all : List Dgram) : LoopInv respond all (Loop.init all) :=
  ⟨[], rfl, by simp only [Loop.init, List.flatMap_nil, List.nil_append]; exact List.Perm.refl _,
    by simp only [Loop.init, List.flatMap_nil, List.nil_append]; exact List.Perm.refl _⟩

theorem loopInv_step (all : List Dgram) (s : Loop) (st : Step) (h : LoopInv respond all s) :
    LoopInv respond all (s.step true respond st) := by
  obtain ⟨queue, shared, pending, sent, seen⟩ := s
  obtain ⟨ds, hp, hs, hc⟩ := h
  simp only at hp hs hc
  cases st with
  | recv =>
    cases queue with
    | nil => exact ⟨ds, hp, hs, hc⟩
    | cons d q =>
      simp only [Loop.step, if_true]
      refine ⟨ds ++ [d], ?_, ?_, ?_⟩
      · simp [hp, handlerOf]
      · simpa [List.flatMap_append, List.append_assoc] using hs
      · simpa [List.flatMap_append, List.append_assoc] using hc
  | run i =>
    simp only [Loop.step]
    cases hi : pending[i]? with
    | none => exact ⟨ds, hp, hs, hc⟩
    | some h =>
      simp only
      rw [hp, List.getElem?_map] at hi
      cases hd : ds[i]? with
      | none => rw [hd] at hi; cases hi
      | some d =>
        rw [hd] at hi
        simp only [Option.map_some, Option.some.injEq] at hi
        subst hi
        have hread : List.take (handlerOf d).n ((handlerOf d).own.getD shared) = received d.data := by
          simp [handlerOf]
        rw [hread]
        refine ⟨ds.eraseIdx i, ?_, ?_, ?_⟩
        · simp only [hp, map_eraseIdx]
        · have h1 := flatMap_eraseIdx_perm (outOf respond) ds i d hd
          refine List.Perm.trans ?_ hs
          show (sent ++ (outOf respond d) ++ _).Perm _
          rw [List.append_assoc]
          refine List.Perm.append_left _ ?_
          rw [← List.append_assoc]
          exact List.Perm.append_right _ h1
        · have h1 := flatMap_eraseIdx_perm (seenOf respond) ds i d hd
          refine List.Perm.trans ?_ hc
          show (seen ++ (seenOf respond d) ++ _).Perm _
          rw [List.append_assoc]
          refine List.Perm.append_left _ ?_
          rw [← List.append_assoc]
          exact List.Perm.append_right _ h1

theorem loopInv_run (all : List Dgram) (sched : List Step) : ∀ (s : Loop), LoopInv respond all s →
    LoopInv respond all (Loop.run true respond s sched) := by
  induction sched with
  | nil => intro s h; exact h
  | cons st rest ih => intro s h; exact ih _ (loopInv_step respond all s st h)

end RecvLoop

end CJ.Codec
