import CJ.Model.DtlsDerive
/-! Lemmas for the credential derivation: injectivity under `HkdfLaws`, the collisions of HMAC key padding. -/
namespace CJ.DtlsDerive

theorem read_inj (h : Hkdf) (L : HkdfLaws h) (salt info : Bytes) (n : Nat) (hn : 32 ≤ n) (a b : Bytes)
    (he : h.read a salt info n = h.read b salt info n) : a = b :=
  L.extract_inj_ikm salt a b (L.expand_inj_prk info n _ _ hn he)

theorem padKey_zero_ext (hash : Bytes → Bytes) (S : Bytes) (k : Nat) (hk : S.length + k ≤ 64) :
    padKey hash (S ++ List.replicate k 0) = padKey hash S := by
  have h1 : (S ++ List.replicate k (0 : UInt8)).length ≤ 64 := by simp; omega
  have h2 : S.length ≤ 64 := by omega
  simp only [padKey]
  rw [if_pos h1, if_pos h2, List.append_assoc, List.replicate_append_replicate, List.length_append,
    List.length_replicate]
  congr 2
  omega

theorem padKey_long (hash : Bytes → Bytes) (S : Bytes) (hS : 64 < S.length) (hh : (hash S).length ≤ 64) :
    padKey hash S = padKey hash (hash S) := by
  have h1 : ¬ S.length ≤ 64 := by omega
  simp [padKey, h1, hh]

theorem padKey_length (hash : Bytes → Bytes) (hh : ∀ k, (hash k).length ≤ 64) (k : Bytes) :
    (padKey hash k).length = 64 := by
  simp only [padKey]
  split
  · simp; omega
  · have := hh k; simp; omega

theorem padKey_idem (hash : Bytes → Bytes) (hh : ∀ k, (hash k).length ≤ 64) (k : Bytes) :
    padKey hash (padKey hash k) = padKey hash k := by
  have hl := padKey_length hash hh k
  generalize padKey hash k = p at hl
  simp [padKey, hl]

/-- a toy instance (not a hash): it has both the laws of HKDF and HMAC's key padding — the two sets of
hypotheses are consistent, so the injectivity below is not vacuous and the collisions are not an artefact -/
def toyHash (k : Bytes) : Bytes := k.take 32
def toy : Hkdf := { extract := fun salt ikm => padKey toyHash salt ++ ikm, expand := fun prk _ _ => prk }

theorem toyHash_len (k : Bytes) : (toyHash k).length ≤ 64 := by
  simp [toyHash]; omega

theorem toy_laws : HkdfLaws toy :=
  { extract_inj_ikm := fun salt a b he => by simpa [toy] using he
    expand_inj_prk := fun _ _ a b _ he => by simpa [toy] using he }

theorem toy_hmacKeyed : HmacKeyed toyHash toy :=
  { extract_pads_salt := fun salt ikm => by simp [toy, padKey_idem toyHash toyHash_len] }

end CJ.DtlsDerive
