import CJ.Model.Codec
/-! Helper lemmas for the codec models (C15, C11). Core Lean only. -/
namespace CJ.Codec

theorem slice_eq {p : Bytes} {lo hi : Nat} (h1 : lo ≤ hi) (h2 : hi ≤ p.length) :
    slice p lo hi = .ok ((p.drop lo).take (hi - lo)) := by
  simp [slice, h1, h2]

theorem u8_toNat_ofNat {n : Nat} (h : n < 256) : (UInt8.ofNat n).toNat = n := by
  simp [UInt8.toNat_ofNat']; omega

theorem u8_toNat_ofNat_mod (n : Nat) : (UInt8.ofNat n).toNat = n % 256 := by
  simp [UInt8.toNat_ofNat']

theorem rd16_be16 {n : Nat} (h : n < 65536) :
    rd16 (UInt8.ofNat (n / 256)) (UInt8.ofNat n) = n := by
  unfold rd16
  have h1 : (UInt8.ofNat (n / 256)).toNat = n / 256 := u8_toNat_ofNat (by omega)
  have h2 : (UInt8.ofNat n).toNat = n % 256 := u8_toNat_ofNat_mod n
  omega

/-! ### framing -/

/-- the one-byte prefix is self-delimiting: whatever follows the framed payload is ignored -/
theorem removeRequest_addRequest_append (p x : Bytes) (h : p.length ≤ 255) :
    removeRequestFormat (UInt8.ofNat p.length :: (p ++ x)) = .ok p := by
  have hb : (UInt8.ofNat p.length).toNat = p.length := u8_toNat_ofNat (by omega)
  simp only [removeRequestFormat, index, List.length_cons, List.length_append, List.getElem?_cons_zero, Outcome.bind, hb]
  have h1 : ¬ (p.length + x.length + 1 < 1) := by omega
  have h2 : ¬ (1 + p.length > p.length + x.length + 1) := by omega
  simp only [h1, h2, if_false]
  rw [slice_eq (by omega) (by simp; omega)]
  simp

theorem removeRequest_addRequest (p : Bytes) (h : p.length ≤ 255) :
    removeRequestFormat (UInt8.ofNat p.length :: p) = .ok p := by
  have := removeRequest_addRequest_append p [] h
  simpa using this

/-- the two-byte prefix likewise (the requester decodes its whole 4096-byte receive buffer) -/
theorem removeResponse_addResponse_append (p x : Bytes) (h : p.length ≤ 65535) :
    removeResponseFormat (be16 p.length ++ p ++ x) = .ok p := by
  have hl : (be16 p.length ++ p ++ x).length = p.length + x.length + 2 := by simp [be16]
  unfold removeResponseFormat
  rw [hl]
  have h1 : ¬ (p.length + x.length + 2 < 2) := by omega
  simp only [h1, if_false]
  rw [slice_eq (by omega) (by omega)]
  simp only [Outcome.bind, be16, List.drop_zero, Nat.sub_zero, List.cons_append, List.nil_append, List.take_succ_cons,
    List.take_zero]
  rw [rd16_be16 (by omega)]
  have h2 : ¬ (2 + p.length > p.length + x.length + 2) := by omega
  simp only [h2, if_false]
  rw [slice_eq (by omega) (by simp; omega)]
  simp

theorem removeResponse_addResponse (p : Bytes) (h : p.length ≤ 65535) :
    removeResponseFormat (be16 p.length ++ p) = .ok p := by
  have := removeResponse_addResponse_append p [] h
  simpa using this

/-- the decoders never slice out of range -/
theorem removeRequest_safe (p : Bytes) : (removeRequestFormat p).Safe := by
  unfold removeRequestFormat Outcome.Safe
  split
  · simp
  · rename_i h
    cases p with
    | nil => simp at h
    | cons b rest =>
      simp only [index, List.getElem?_cons_zero, Outcome.bind]
      split
      · simp
      · rename_i h2
        rw [slice_eq (by omega) (by omega)]
        simp

theorem removeResponse_safe (p : Bytes) : (removeResponseFormat p).Safe := by
  unfold removeResponseFormat Outcome.Safe
  split
  · simp
  · rename_i h
    match p, h with
    | a :: b :: rest, _ =>
      rw [slice_eq (by omega) (by simp)]
      simp only [Outcome.bind, List.drop_zero, Nat.sub_zero, List.take_succ_cons, List.take_zero]
      split
      · simp
      · rename_i h2
        rw [slice_eq (by omega) (by omega)]
        simp
    | [_], h => simp at h
    | [], h => simp at h

/-! ### TXT -/

/-- one iteration of the `DecodeRDataTXT` loop on a well-formed character string -/
theorem decodeTXTLoop_step (n : UInt8) (chunk rest acc : Bytes) (h : chunk.length = n.toNat) :
    decodeTXTLoop (n :: (chunk ++ rest)) acc =
      if rest.length = 0 then .ok (acc ++ chunk) else decodeTXTLoop rest (acc ++ chunk) := by
  rw [decodeTXTLoop]
  have h1 : ¬ ((chunk ++ rest).length < n.toNat) := by simp; omega
  simp only [h1, if_false]
  have e1 : slice (chunk ++ rest) 0 n.toNat = .ok chunk := by
    rw [slice_eq (by omega) (by simp; omega)]; simp [← h]
  have e2 : slice (chunk ++ rest) n.toNat (chunk ++ rest).length = .ok rest := by
    rw [slice_eq (by simp; omega) (by omega)]; simp [← h]
  rw [e1]
  simp only
  split
  · rename_i r' hr; rw [e2] at hr; cases hr; rfl
  · rename_i e hr; rw [e2] at hr; cases hr
  · rename_i e hr; rw [e2] at hr; cases hr
  · rename_i hr; rw [e2] at hr; cases hr

theorem encodeTXT_ne_nil (p : Bytes) : (encodeTXT p).length ≠ 0 := by
  rw [encodeTXT]; split <;> simp

theorem decodeTXTLoop_encodeTXT (p acc : Bytes) : decodeTXTLoop (encodeTXT p) acc = .ok (acc ++ p) := by
  induction p using encodeTXT.induct generalizing acc with
  | case1 p h ih =>
    rw [encodeTXT, dif_pos h]
    rw [decodeTXTLoop_step 255 _ _ _ (by simp [List.length_take]; omega)]
    simp only [encodeTXT_ne_nil, if_false]
    rw [ih]
    simp [List.append_assoc]
  | case2 p h =>
    rw [encodeTXT, dif_neg h]
    have hb : (UInt8.ofNat p.length).toNat = p.length := u8_toNat_ofNat (by omega)
    have := decodeTXTLoop_step (UInt8.ofNat p.length) p [] acc hb.symm
    simpa using this

/-- `DecodeRDataTXT` never slices out of range and always terminates -/
theorem decodeTXTLoop_safe (p acc : Bytes) : (decodeTXTLoop p acc).Safe := by
  generalize hn : p.length = k
  induction k using Nat.strongRecOn generalizing p acc with
  | _ k ih =>
    cases p with
    | nil => rw [decodeTXTLoop]; simp [Outcome.Safe]
    | cons n rest =>
      by_cases h : rest.length < n.toNat
      · rw [decodeTXTLoop]; simp [h, Outcome.Safe]
      · have hsplit : rest = rest.take n.toNat ++ rest.drop n.toNat := (List.take_append_drop _ _).symm
        rw [hsplit, decodeTXTLoop_step n _ _ _ (by simp [List.length_take]; omega)]
        split
        · simp [Outcome.Safe]
        · exact ih (rest.drop n.toNat).length (by simp at hn; simp [List.length_drop]; omega) _ _ rfl

/-! ### bit-level facts about the DNS label-type byte and the representative mask -/

theorem label_byte (n : Nat) (h : n ≤ 63) :
    UInt8.ofNat n &&& 0xc0 = 0 ∧ (UInt8.ofNat n &&& 0x3f).toNat = n := by
  have : ∀ k : Fin 64, UInt8.ofNat k.val &&& 0xc0 = 0 ∧ (UInt8.ofNat k.val &&& 0x3f).toNat = k.val := by decide
  exact this ⟨n, by omega⟩

theorem ptr_byte (n : Nat) (h : n ≤ 63) :
    UInt8.ofNat (192 + n) &&& 0xc0 = 0xc0 ∧ (UInt8.ofNat (192 + n) &&& 0x3f).toNat = n := by
  have : ∀ k : Fin 64, UInt8.ofNat (192 + k.val) &&& 0xc0 = 0xc0 ∧
      (UInt8.ofNat (192 + k.val) &&& 0x3f).toNat = k.val := by decide
  exact this ⟨n, by omega⟩

set_option maxRecDepth 4000 in
theorem high_clear_lt (a : UInt8) (h : a &&& 0xc0 = 0) : a.toNat < 64 := by
  have : ∀ k : Fin 256, UInt8.ofNat k.val &&& 0xc0 = 0 → k.val < 64 := by decide
  have := this ⟨a.toNat, a.toNat_lt⟩
  simp at this
  exact this h

set_option maxRecDepth 4000 in
theorem high_part (b : UInt8) : 0xc0 &&& b = UInt8.ofNat (64 * (b.toNat / 64)) := by
  have : ∀ k : Fin 256, 0xc0 &&& UInt8.ofNat k.val = UInt8.ofNat (64 * (k.val / 64)) := by decide
  have := this ⟨b.toNat, b.toNat_lt⟩
  simpa using this

/-- setting the two high bits from a random byte and clearing them again is the identity on a
byte whose two high bits are clear -/
theorem mask_law (a b : UInt8) (h : a &&& 0xc0 = 0) : (a ||| (0xc0 &&& b)) &&& 0x3f = a := by
  have key : ∀ x : Fin 64, ∀ c : Fin 4,
      (UInt8.ofNat x.val ||| UInt8.ofNat (64 * c.val)) &&& 0x3f = UInt8.ofNat x.val := by decide
  have ha := high_clear_lt a h
  have hb : b.toNat / 64 < 4 := by have := b.toNat_lt; omega
  rw [high_part b]
  have := key ⟨a.toNat, ha⟩ ⟨b.toNat / 64, hb⟩
  simpa using this

set_option maxRecDepth 4000 in
theorem high_law (a b : UInt8) (h : a &&& 0xc0 = 0) : (a ||| (0xc0 &&& b)) &&& 0xc0 = 0xc0 &&& b := by
  have key : ∀ x : Fin 64, ∀ c : Fin 4,
      (UInt8.ofNat x.val ||| UInt8.ofNat (64 * c.val)) &&& 0xc0 = UInt8.ofNat (64 * c.val) := by decide
  have ha := high_clear_lt a h
  have hb : b.toNat / 64 < 4 := by have := b.toNat_lt; omega
  rw [high_part b]
  have := key ⟨a.toNat, ha⟩ ⟨b.toNat / 64, hb⟩
  simpa using this

set_option maxRecDepth 8000 in
theorem upper_lower (b : UInt8) (h : ¬ (97 ≤ b ∧ b ≤ 122)) : toUpperB (toLowerB b) = b := by
  have key : ∀ k : Fin 256, ¬ (97 ≤ UInt8.ofNat k.val ∧ UInt8.ofNat k.val ≤ 122) →
      toUpperB (toLowerB (UInt8.ofNat k.val)) = UInt8.ofNat k.val := by decide
  have := key ⟨b.toNat, b.toNat_lt⟩
  simp only [UInt8.ofNat_toNat] at this
  exact this h


/-! ### obfuscators -/

/-- The laws of the primitives that the round trip of the obfuscators needs; a hypothesis of the
theorems, never an axiom. `pubOf` is the public key of a private key (curve25519 base multiplication). -/
structure CryptoLaws (C : Crypto) (pubOf : C.Priv → C.Pub) : Prop where
  /-- Diffie–Hellman commutes -/
  dh_comm : ∀ a b, C.dh a (pubOf b) = C.dh b (pubOf a)
  /-- Elligator: decoding a produced representative gives the public key it was produced for -/
  repr_inv : ∀ a r, C.reprOf a = some r → C.pubOfRepr r = pubOf a
  /-- a representative is 32 bytes and its two most significant bits are clear -/
  repr_len : ∀ a r, C.reprOf a = some r → r.length = 32
  repr_high : ∀ a r, C.reprOf a = some r → ∀ x ∈ r.drop 31, x &&& 0xc0 = 0
  /-- CTR is an involution under the same key and IV and preserves the length -/
  ctr_inv : ∀ k iv x y, C.ctr k iv x = some y → C.ctr k iv y = some x
  /-- GCM `Open` inverts `Seal` under the same key and nonce -/
  gcm_inv : ∀ k iv x y, C.gcmSeal k iv x = some y → C.gcmOpen k iv y = some x
  gcm_len : ∀ k iv x y, C.gcmSeal k iv x = some y → y.length = x.length + 16

theorem clearHigh_setHigh (r : Bytes) (rb : UInt8) (h : ∀ x ∈ r.drop 31, x &&& 0xc0 = 0) :
    clearHigh (setHigh r rb) = r := by
  unfold clearHigh setHigh
  by_cases hl : r.length ≤ 31
  · simp [List.drop_of_length_le hl, List.take_of_length_le hl]
  · have hl' : 31 < r.length := by omega
    have ht : (r.take 31).length = 31 := by simp [List.length_take]; omega
    rw [List.take_left' ht, List.drop_left' ht, List.map_map]
    have : (r.drop 31).map ((fun x => x &&& 0x3f) ∘ fun x => x ||| (0xc0 &&& rb)) = r.drop 31 := by
      conv => rhs; rw [← List.map_id (r.drop 31)]
      apply List.map_congr_left
      intro x hx
      simp [mask_law x rb (h x hx)]
    rw [this, List.take_append_drop]

theorem setHigh_length (r : Bytes) (rb : UInt8) : (setHigh r rb).length = r.length := by
  unfold setHigh
  simp [List.length_take, List.length_drop]; omega

theorem firstRepresentable_some {C : Crypto} {draws : List C.Priv} {k : C.Priv} {r : Bytes}
    (h : firstRepresentable C draws = some (k, r)) : C.reprOf k = some r := by
  induction draws with
  | nil => simp [firstRepresentable] at h
  | cons a as ih =>
    unfold firstRepresentable at h
    split at h
    · rename_i r' hr; cases h; exact hr
    · exact ih h

theorem slice_append_left (a b : Bytes) : slice (a ++ b) 0 a.length = .ok a := by
  rw [slice_eq (by omega) (by simp)]; simp

theorem slice_append_right (a b : Bytes) : slice (a ++ b) a.length (a ++ b).length = .ok b := by
  rw [slice_eq (by simp) (by omega)]; simp

theorem ctr_roundtrip (C : Crypto) (pubOf : C.Priv → C.Pub) (L : CryptoLaws C pubOf)
    (draws : List C.Priv) (rb : UInt8) (pt : Bytes) (stPriv : C.Priv) (ct : Bytes)
    (h : ctrObfuscate C draws rb pt 32 (pubOf stPriv) = .ok ct) : ctrReveal C ct stPriv = .ok pt := by
  unfold ctrObfuscate at h
  simp only [ne_eq, not_true_eq_false, if_false] at h
  split at h
  · cases h
  · rename_i priv r hfr
    have hrep := firstRepresentable_some hfr
    split at h
    · cases h
    · rename_i shared hdh
      split at h
      · cases h
      · rename_i body hctr
        cases h
        have hlen : (setHigh r rb).length = 32 := by rw [setHigh_length, L.repr_len _ _ hrep]
        unfold ctrReveal
        have h1 : ¬ ((setHigh r rb ++ body).length < 32) := by simp [hlen]
        simp only [h1, if_false]
        have s1 := slice_append_left (setHigh r rb) body
        rw [hlen] at s1
        have s2 := slice_append_right (setHigh r rb) body
        rw [hlen] at s2
        rw [s1]
        simp only [Outcome.bind]
        rw [clearHigh_setHigh r rb (L.repr_high _ _ hrep), L.repr_inv _ _ hrep, L.dh_comm, hdh]
        simp only
        rw [s2]
        simp only
        rw [L.ctr_inv _ _ _ _ hctr]

theorem gcm_roundtrip (C : Crypto) (pubOf : C.Priv → C.Pub) (L : CryptoLaws C pubOf)
    (draws : List C.Priv) (rb : UInt8) (pt : Bytes) (stPriv : C.Priv) (ct : Bytes)
    (h : gcmObfuscate C draws rb pt 32 (pubOf stPriv) = .ok ct) : gcmReveal C ct stPriv = .ok pt := by
  unfold gcmObfuscate at h
  simp only [ne_eq, not_true_eq_false, if_false] at h
  split at h
  · cases h
  · rename_i priv r hfr
    have hrep := firstRepresentable_some hfr
    split at h
    · cases h
    · rename_i shared hdh
      split at h
      · cases h
      · rename_i body hseal
        cases h
        have hlen : (setHigh r rb).length = 32 := by rw [setHigh_length, L.repr_len _ _ hrep]
        have hbl := L.gcm_len _ _ _ _ hseal
        unfold gcmReveal
        have h1 : ¬ ((setHigh r rb ++ body).length < 48) := by simp [hlen, hbl]; omega
        simp only [h1, if_false]
        have s1 := slice_append_left (setHigh r rb) body
        rw [hlen] at s1
        have s2 := slice_append_right (setHigh r rb) body
        rw [hlen] at s2
        rw [s1]
        simp only [Outcome.bind]
        rw [clearHigh_setHigh r rb (L.repr_high _ _ hrep), L.repr_inv _ _ hrep, L.dh_comm, hdh]
        simp only
        rw [s2]
        simp only
        rw [L.gcm_inv _ _ _ _ hseal]

theorem xorBytes_cancel : ∀ (a b : Bytes), a.length = b.length → xorBytes a (xorBytes a b) = b
  | [], [], _ => rfl
  | x :: xs, y :: ys, h => by
    simp only [xorBytes]
    rw [xorBytes_cancel xs ys (by simpa using h)]
    congr 1
    rw [← UInt8.xor_assoc, UInt8.xor_self, UInt8.zero_xor]
  | [], _ :: _, h => by simp at h
  | _ :: _, [], h => by simp at h

theorem xorBytes_length : ∀ (a b : Bytes), a.length = b.length → (xorBytes a b).length = b.length
  | [], [], _ => rfl
  | x :: xs, y :: ys, h => by simp [xorBytes, xorBytes_length xs ys (by simpa using h)]
  | [], _ :: _, h => by simp at h
  | _ :: _, [], h => by simp at h

theorem xor_roundtrip (pad pt ct : Bytes) (h : xorObfuscate pad pt = .ok ct) : xorReveal ct = .ok pt := by
  unfold xorObfuscate at h
  split at h
  · cases h
  · rename_i h0
    split at h
    · cases h
    · rename_i hp
      cases h
      have ht : (pad.take pt.length).length = pt.length := by simp [List.length_take]; omega
      have hx := xorBytes_length (pad.take pt.length) pt ht
      unfold xorReveal
      have hl : (List.take pt.length pad ++ xorBytes (List.take pt.length pad) pt).length = 2 * pt.length := by
        simp [hx, ht]; omega
      rw [hl]
      have h1 : ¬ (2 * pt.length % 2 ≠ 0 ∨ 2 * pt.length = 0) := by omega
      simp only [h1, if_false]
      have hh : 2 * pt.length / 2 = pt.length := by omega
      rw [hh]
      have s1 := slice_append_left (pad.take pt.length) (xorBytes (pad.take pt.length) pt)
      have s2 := slice_append_right (pad.take pt.length) (xorBytes (pad.take pt.length) pt)
      rw [ht] at s1 s2
      rw [hl] at s2
      rw [s1]; simp only [Outcome.bind]
      rw [s2]; simp only
      rw [xorBytes_cancel _ _ ht]

/-! ### freshness: the randomness is embedded injectively in the output -/

theorem setHigh_inj (r1 r2 : Bytes) (rb1 rb2 : UInt8) (l1 : r1.length = 32) (l2 : r2.length = 32)
    (h1 : ∀ x ∈ r1.drop 31, x &&& 0xc0 = 0) (h2 : ∀ x ∈ r2.drop 31, x &&& 0xc0 = 0)
    (h : setHigh r1 rb1 = setHigh r2 rb2) : r1 = r2 ∧ 0xc0 &&& rb1 = 0xc0 &&& rb2 := by
  have hr : r1 = r2 := by
    have := congrArg clearHigh h
    rwa [clearHigh_setHigh r1 rb1 h1, clearHigh_setHigh r2 rb2 h2] at this
  subst hr
  refine ⟨rfl, ?_⟩
  unfold setHigh at h
  have hd := List.append_cancel_left h
  have hne : r1.drop 31 ≠ [] := by
    intro hnil
    have := congrArg List.length hnil
    simp [List.length_drop] at this; omega
  obtain ⟨x, xs, hx⟩ := List.exists_cons_of_ne_nil hne
  rw [hx] at hd
  simp only [List.map_cons, List.cons.injEq] at hd
  have hx0 : x &&& 0xc0 = 0 := h1 x (by rw [hx]; simp)
  have := congrArg (· &&& (0xc0 : UInt8)) hd.1
  simp only [high_law x rb1 hx0, high_law x rb2 hx0] at this
  exact this

theorem xorObfuscate_prefix (pad pt ct : Bytes) (h : xorObfuscate pad pt = .ok ct) :
    ct.take pt.length = pad.take pt.length := by
  unfold xorObfuscate at h
  split at h
  · cases h
  · split at h
    · cases h
    · rename_i hp
      cases h
      have ht : (pad.take pt.length).length = pt.length := by simp [List.length_take]; omega
      rw [List.take_left' ht]

/-! ### URL-less Any -/

theorem normalizeUrl_nil : normalizeUrl [] = [] := by
  simp [normalizeUrl, replaceAll, replaceAllAux]

theorem restoreUrl_erase (exp : Url) (a : AnyMsg) :
    restoreUrl (some exp) (some (eraseUrl a)) = .ok (some ⟨exp, a.value⟩) := by
  simp [restoreUrl, eraseUrl, normalizeUrl_nil]

theorem restoreUrl_same (exp : Url) (a : AnyMsg) (h : normalizeUrl a.typeUrl = exp) :
    restoreUrl (some exp) (some a) = .ok (some ⟨exp, a.value⟩) := by
  simp [restoreUrl, h]

theorem restoreUrl_other (exp : Url) (a : AnyMsg) (h0 : normalizeUrl a.typeUrl ≠ [])
    (h : normalizeUrl a.typeUrl ≠ exp) : restoreUrl (some exp) (some a) = .err .wrongType := by
  simp [restoreUrl, h, h0]


end CJ.Codec
