import CJ.Model.Codec
/-! Helper lemmas for the codec models (C15, C11). Core Lean only. -/
namespace CJ.Codec

theorem slice_eq {p : Bytes} {lo hi : Nat} (h1 : lo ≤ hi) (h2 : hi ≤ p.length) :
    slice p lo hi = .ok ((p.drop lo).take (hi - lo)) := by
  simp [slice, h1, h2]

theorem u8_toNat_ofNat {n : Nat} (h : n < 256) : (UInt8.ofNat n).toNat = n := by
  simp [UInt8.toNat_ofNat']; omega

theorem u8_toNat_ofNat_mod (n : Nat) : (UInt8.ofNat n).toNat = n % 256 := by
  simp [UInt8.toNat_ofNat']

theorem rd16_be16 {n : Nat} (h : n < 65536) :
    rd16 (UInt8.ofNat (n / 256)) (UInt8.ofNat n) = n := by
  unfold rd16
  have h1 : (UInt8.ofNat (n / 256)).toNat = n / 256 := u8_toNat_ofNat (by omega)
  have h2 : (UInt8.ofNat n).toNat = n % 256 := u8_toNat_ofNat_mod n
  omega

/-! ### framing -/

theorem removeRequest_addRequest (p : Bytes) (h : p.length ≤ 255) :
    removeRequestFormat (UInt8.ofNat p.length :: p) = .ok p := by
  have hb : (UInt8.ofNat p.length).toNat = p.length := u8_toNat_ofNat (by omega)
  simp only [removeRequestFormat, index, List.length_cons, List.getElem?_cons_zero, Outcome.bind, hb]
  have h1 : ¬ (p.length + 1 < 1) := by omega
  have h2 : ¬ (1 + p.length > p.length + 1) := by omega
  simp only [h1, h2, if_false]
  rw [slice_eq (by omega) (by simp; omega)]
  simp

theorem removeResponse_addResponse (p : Bytes) (h : p.length ≤ 65535) :
    removeResponseFormat (be16 p.length ++ p) = .ok p := by
  have hl : (be16 p.length ++ p).length = p.length + 2 := by simp [be16]
  unfold removeResponseFormat
  rw [hl]
  have h1 : ¬ (p.length + 2 < 2) := by omega
  simp only [h1, if_false]
  rw [slice_eq (by omega) (by omega)]
  simp only [Outcome.bind, be16, List.drop_zero, Nat.sub_zero, List.cons_append, List.nil_append, List.take_succ_cons,
    List.take_zero]
  rw [rd16_be16 (by omega)]
  have h2 : ¬ (2 + p.length > p.length + 2) := by omega
  simp only [h2, if_false]
  rw [slice_eq (by omega) (by simp; omega)]
  simp

/-- the decoders never slice out of range -/
theorem removeRequest_safe (p : Bytes) : (removeRequestFormat p).Safe := by
  unfold removeRequestFormat Outcome.Safe
  split
  · simp
  · rename_i h
    cases p with
    | nil => simp at h
    | cons b rest =>
      simp only [index, List.getElem?_cons_zero, Outcome.bind]
      split
      · simp
      · rename_i h2
        rw [slice_eq (by omega) (by omega)]
        simp

theorem removeResponse_safe (p : Bytes) : (removeResponseFormat p).Safe := by
  unfold removeResponseFormat Outcome.Safe
  split
  · simp
  · rename_i h
    match p, h with
    | a :: b :: rest, _ =>
      rw [slice_eq (by omega) (by simp)]
      simp only [Outcome.bind, List.drop_zero, Nat.sub_zero, List.take_succ_cons, List.take_zero]
      split
      · simp
      · rename_i h2
        rw [slice_eq (by omega) (by omega)]
        simp
    | [_], h => simp at h
    | [], h => simp at h

/-! ### TXT -/

/-- one iteration of the `DecodeRDataTXT` loop on a well-formed character string -/
theorem decodeTXTLoop_step (n : UInt8) (chunk rest acc : Bytes) (h : chunk.length = n.toNat) :
    decodeTXTLoop (n :: (chunk ++ rest)) acc =
      if rest.length = 0 then .ok (acc ++ chunk) else decodeTXTLoop rest (acc ++ chunk) := by
  rw [decodeTXTLoop]
  have h1 : ¬ ((chunk ++ rest).length < n.toNat) := by simp; omega
  simp only [h1, if_false]
  have e1 : slice (chunk ++ rest) 0 n.toNat = .ok chunk := by
    rw [slice_eq (by omega) (by simp; omega)]; simp [← h]
  have e2 : slice (chunk ++ rest) n.toNat (chunk ++ rest).length = .ok rest := by
    rw [slice_eq (by simp; omega) (by omega)]; simp [← h]
  rw [e1]
  simp only
  split
  · rename_i r' hr; rw [e2] at hr; cases hr; rfl
  · rename_i e hr; rw [e2] at hr; cases hr
  · rename_i e hr; rw [e2] at hr; cases hr
  · rename_i hr; rw [e2] at hr; cases hr

theorem encodeTXT_ne_nil (p : Bytes) : (encodeTXT p).length ≠ 0 := by
  rw [encodeTXT]; split <;> simp

theorem decodeTXTLoop_encodeTXT (p acc : Bytes) : decodeTXTLoop (encodeTXT p) acc = .ok (acc ++ p) := by
  induction p using encodeTXT.induct generalizing acc with
  | case1 p h ih =>
    rw [encodeTXT, dif_pos h]
    rw [decodeTXTLoop_step 255 _ _ _ (by simp [List.length_take]; omega)]
    simp only [encodeTXT_ne_nil, if_false]
    rw [ih]
    simp [List.append_assoc]
  | case2 p h =>
    rw [encodeTXT, dif_neg h]
    have hb : (UInt8.ofNat p.length).toNat = p.length := u8_toNat_ofNat (by omega)
    have := decodeTXTLoop_step (UInt8.ofNat p.length) p [] acc hb.symm
    simpa using this

/-- `DecodeRDataTXT` never slices out of range and always terminates -/
theorem decodeTXTLoop_safe (p acc : Bytes) : (decodeTXTLoop p acc).Safe := by
  generalize hn : p.length = k
  induction k using Nat.strongRecOn generalizing p acc with
  | _ k ih =>
    cases p with
    | nil => rw [decodeTXTLoop]; simp [Outcome.Safe]
    | cons n rest =>
      by_cases h : rest.length < n.toNat
      · rw [decodeTXTLoop]; simp [h, Outcome.Safe]
      · have hsplit : rest = rest.take n.toNat ++ rest.drop n.toNat := (List.take_append_drop _ _).symm
        rw [hsplit, decodeTXTLoop_step n _ _ _ (by simp [List.length_take]; omega)]
        split
        · simp [Outcome.Safe]
        · exact ih (rest.drop n.toNat).length (by simp at hn; simp [List.length_drop]; omega) _ _ rfl

/-! ### bit-level facts about the DNS label-type byte and the representative mask -/

theorem label_byte (n : Nat) (h : n ≤ 63) :
    UInt8.ofNat n &&& 0xc0 = 0 ∧ (UInt8.ofNat n &&& 0x3f).toNat = n := by
  have : ∀ k : Fin 64, UInt8.ofNat k.val &&& 0xc0 = 0 ∧ (UInt8.ofNat k.val &&& 0x3f).toNat = k.val := by decide
  exact this ⟨n, by omega⟩

theorem ptr_byte (n : Nat) (h : n ≤ 63) :
    UInt8.ofNat (192 + n) &&& 0xc0 = 0xc0 ∧ (UInt8.ofNat (192 + n) &&& 0x3f).toNat = n := by
  have : ∀ k : Fin 64, UInt8.ofNat (192 + k.val) &&& 0xc0 = 0xc0 ∧
      (UInt8.ofNat (192 + k.val) &&& 0x3f).toNat = k.val := by decide
  exact this ⟨n, by omega⟩

set_option maxRecDepth 4000 in
theorem high_clear_lt (a : UInt8) (h : a &&& 0xc0 = 0) : a.toNat < 64 := by
  have : ∀ k : Fin 256, UInt8.ofNat k.val &&& 0xc0 = 0 → k.val < 64 := by decide
  have := this ⟨a.toNat, a.toNat_lt⟩
  simp at this
  exact this h

set_option maxRecDepth 4000 in
theorem high_part (b : UInt8) : 0xc0 &&& b = UInt8.ofNat (64 * (b.toNat / 64)) := by
  have : ∀ k : Fin 256, 0xc0 &&& UInt8.ofNat k.val = UInt8.ofNat (64 * (k.val / 64)) := by decide
  have := this ⟨b.toNat, b.toNat_lt⟩
  simpa using this

/-- setting the two high bits from a random byte and clearing them again is the identity on a
byte whose two high bits are clear -/
theorem mask_law (a b : UInt8) (h : a &&& 0xc0 = 0) : (a ||| (0xc0 &&& b)) &&& 0x3f = a := by
  have key : ∀ x : Fin 64, ∀ c : Fin 4,
      (UInt8.ofNat x.val ||| UInt8.ofNat (64 * c.val)) &&& 0x3f = UInt8.ofNat x.val := by decide
  have ha := high_clear_lt a h
  have hb : b.toNat / 64 < 4 := by have := b.toNat_lt; omega
  rw [high_part b]
  have := key ⟨a.toNat, ha⟩ ⟨b.toNat / 64, hb⟩
  simpa using this

end CJ.Codec
