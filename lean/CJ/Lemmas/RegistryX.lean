import CJ.Model.RegistryX
import CJ.Lemmas.RegistryBuckets
/-! Bridge lemmas: every extended history (`XOp`, `xstep`) is a history of base operations as far as
the registry is concerned, so everything proved about `step` / `bstep` for all histories carries over;
tunnels and the prior `Valid` flag of a delivered object influence nothing. -/
open Std

namespace CJ.Registry

theorem brun_append (c : Cfg) (o1 o2 : List Op) (b : BSt) :
    brun c (o1 ++ o2) b = brun c o2 (brun c o1 b) := by
  unfold brun; rw [List.foldl_append]

theorem brun_nil (c : Cfg) (b : BSt) : brun c [] b = b := rfl

theorem brun_singleton (c : Cfg) (o : Op) (b : BSt) : brun c [o] b = (bstep c b o).1 := rfl

theorem bsteps_fst_aux (c : Cfg) (ops : List Op) (b : BSt) (l : List Out) :
    (ops.foldl (fun (acc : BSt × List Out) o =>
      let (b', out) := bstep c acc.1 o
      (b', out :: acc.2)) (b, l)).1 = brun c ops b := by
  induction ops generalizing b l with
  | nil => rfl
  | cons o ops ih =>
    simp only [List.foldl_cons]
    rw [ih]
    rfl

/-- the registry after a burst is the registry after its base operations -/
theorem bsteps_fst (c : Cfg) (ops : List Op) (b : BSt) : (bsteps c ops b).1 = brun c ops b :=
  bsteps_fst_aux c ops b []

theorem bremoveAll_eq_brun_aux (c : Cfg) (now : Nat) (ks : List Key) (b : BSt) (n : Nat) :
    (ks.foldl (fun (acc : BSt × Nat) k =>
      let (b', r) := bremove c now acc.1 k
      (b', if r = some true then acc.2 + 1 else acc.2)) (b, n)).1 =
      brun c (ks.map fun k => Op.remove k now) b := by
  induction ks generalizing b n with
  | nil => rfl
  | cons a ks ih =>
    simp only [List.foldl_cons, List.map_cons]
    rw [ih]
    rfl

/-- the removal loop of the sweeper is the history `remove k₁; …; remove kₙ` -/
theorem bremoveAll_eq_brun (c : Cfg) (now : Nat) (ks : List Key) (b : BSt) :
    (bremoveAll c now ks b).1 = brun c (ks.map fun k => Op.remove k now) b :=
  bremoveAll_eq_brun_aux c now ks b 0

/-- the base operations an extended operation amounts to, in the state it is applied to -/
def xops (x : XSt) : XOp → List Op
  | .base o => [o]
  | .trackObj k tr now _ => [.track k tr now]
  | .registerObj k tr now _ => [.register k tr now]
  | .tunnel _ => []
  | .tunnelEnd _ => []
  | .bulk kind p pre start n tr now => bulkOps kind p pre start n tr now
  | .sweepBegin _ => []
  | .sweepSome ks =>
    match x.pending with
    | none => []
    | some p => (ks.filter p.todo.contains).map fun k => Op.remove k p.now
  | .sweepEnd =>
    match x.pending with
    | none => []
    | some p => p.todo.map fun k => Op.remove k p.now

theorem xstep_b (c : Cfg) (x : XSt) (op : XOp) : (xstep c x op).1.b = brun c (xops x op) x.b := by
  cases op with
  | base o => rfl
  | trackObj k tr now pv => rfl
  | registerObj k tr now pv => rfl
  | tunnel k => rfl
  | tunnelEnd k =>
    simp only [xstep, xops]
    split <;> rfl
  | bulk kind p pre start n tr now =>
    simp only [xstep, xops]
    exact bsteps_fst c _ x.b
  | sweepBegin now => rfl
  | sweepSome ks =>
    simp only [xstep, xops]
    cases hp : x.pending with
    | none => rfl
    | some p =>
      simp only
      exact bremoveAll_eq_brun c p.now _ x.b
  | sweepEnd =>
    simp only [xstep, xops]
    cases hp : x.pending with
    | none => rfl
    | some p =>
      simp only
      exact bremoveAll_eq_brun c p.now p.todo x.b

/-- **Every extended history is a base history** as far as the registry (both maps and the stored
per-phantom buckets) is concerned. -/
theorem xrun_is_brun (c : Cfg) (ops : List XOp) (x : XSt) :
    ∃ ops' : List Op, (xrun c ops x).b = brun c ops' x.b := by
  induction ops generalizing x with
  | nil => exact ⟨[], rfl⟩
  | cons o ops ih =>
    obtain ⟨ops', h⟩ := ih (xstep c x o).1
    refine ⟨xops x o ++ ops', ?_⟩
    show (xrun c ops (xstep c x o).1).b = _
    rw [h, xstep_b, brun_append]

/-! ### tunnels influence nothing -/

def XOp.isTunnel : XOp → Bool
  | .tunnel _ => true
  | .tunnelEnd _ => true
  | _ => false

/-- everything of the state except the open tunnels -/
def XSt.core (x : XSt) : BSt × Option Pending := (x.b, x.pending)

theorem xstep_tunnel_core (c : Cfg) (x : XSt) (op : XOp) (h : op.isTunnel = true) :
    (xstep c x op).1.core = x.core := by
  cases op with
  | tunnel k => rfl
  | tunnelEnd k =>
    simp only [xstep]
    split <;> rfl
  | base o => cases h
  | trackObj k tr now pv => cases h
  | registerObj k tr now pv => cases h
  | bulk kind p pre start n tr now => cases h
  | sweepBegin now => cases h
  | sweepSome ks => cases h
  | sweepEnd => cases h

theorem xstep_core_congr (c : Cfg) (x y : XSt) (op : XOp) (h : x.core = y.core) (hn : op.isTunnel = false) :
    (xstep c x op).1.core = (xstep c y op).1.core ∧ (xstep c x op).2 = (xstep c y op).2 := by
  have hb : x.b = y.b := congrArg Prod.fst h
  have hp : x.pending = y.pending := congrArg Prod.snd h
  cases op with
  | tunnel k => cases hn
  | tunnelEnd k => cases hn
  | base o => simp only [xstep, XSt.core, hb, hp, and_self]
  | trackObj k tr now pv => simp only [xstep, XSt.core, hb, hp, and_self]
  | registerObj k tr now pv => simp only [xstep, XSt.core, hb, hp, and_self]
  | bulk kind p pre start n tr now => simp only [xstep, XSt.core, hb, hp, and_self]
  | sweepBegin now => simp only [xstep, XSt.core, hb, and_self]
  | sweepSome ks =>
    simp only [xstep, XSt.core, hb, hp]
    cases y.pending with
    | none => simp only [hb, hp, and_self]
    | some pk => simp only [and_self]
  | sweepEnd =>
    simp only [xstep, XSt.core, hb, hp]
    cases y.pending with
    | none => simp only [hb, hp, and_self]
    | some pk => simp only [and_self]

/-- **Tunnels have no say**: dropping every `tunnel` / `tunnelEnd` operation from a history changes
neither the registry, nor the stored buckets, nor the sweep in progress. -/
theorem xrun_filter_tunnels (c : Cfg) (ops : List XOp) (x y : XSt) (h : x.core = y.core) :
    (xrun c (ops.filter fun o => !o.isTunnel) x).core = (xrun c ops y).core := by
  induction ops generalizing x y with
  | nil => exact h
  | cons o ops ih =>
    cases ht : o.isTunnel with
    | true =>
      simp only [List.filter_cons, ht, Bool.not_true, Bool.false_eq_true, if_false]
      show (xrun c _ x).core = (xrun c ops (xstep c y o).1).core
      exact ih x _ (by rw [xstep_tunnel_core c y o ht]; exact h)
    | false =>
      simp only [List.filter_cons, ht, Bool.not_false, if_true]
      show (xrun c _ (xstep c x o).1).core = (xrun c ops (xstep c y o).1).core
      exact ih _ _ (xstep_core_congr c x y o h ht).1

/-! ### the prior `Valid` flag of a delivered object influences nothing -/

/-- forget what the delivered object's `Valid` flag was -/
def XOp.erasePrior : XOp → XOp
  | .trackObj k tr now _ => .base (.track k tr now)
  | .registerObj k tr now _ => .base (.register k tr now)
  | o => o

theorem xstep_erasePrior (c : Cfg) (x : XSt) (op : XOp) : xstep c x op.erasePrior = xstep c x op := by
  cases op <;> rfl

theorem xrun_erasePrior (c : Cfg) (ops : List XOp) (x : XSt) :
    xrun c (ops.map XOp.erasePrior) x = xrun c ops x := by
  induction ops generalizing x with
  | nil => rfl
  | cons o ops ih =>
    show xrun c (ops.map XOp.erasePrior) (xstep c x o.erasePrior).1 = xrun c ops (xstep c x o).1
    rw [xstep_erasePrior, ih]

end CJ.Registry
