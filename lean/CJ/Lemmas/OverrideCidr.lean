import CJ.Model.OverrideCidr
/-!
# Lemmas for the text of the subnet configuration (C12)

The base `net.ParseCIDR` stores is the written address with the host bits cleared (`masked_base4`, byte-wise
`&` with `CIDRMask` turned into integer arithmetic), `IPMask.Size` gives back the written prefix length
(`maskSize4`, `maskSize16`), the dotted-quad loop yields four bytes (`parseIPv4_bytes`), and `written_entry`:
whenever the text designates a set of IPv4 addresses (`written`), the decoder accepts it and the entry the
registrar works with is the network `A / 2^k * 2^k` with `2^k` hosts.
-/
namespace CJ.OverrideCidr
open CJ.NetAddr CJ.Registrar
theorem landF (a : Fin 256) (j : Fin 9) : a.val &&& (256 - 2 ^ j.val) = a.val / 2 ^ j.val * 2 ^ j.val := by
  revert a j; decide +kernel

theorem land (b j : Nat) (hb : b < 256) (hj : j ≤ 8) : b &&& (256 - 2 ^ j) = b / 2 ^ j * 2 ^ j :=
  landF ⟨b, hb⟩ ⟨j, by omega⟩

theorem masked_base4 (b0 b1 b2 b3 n : Nat) (h0 : b0 < 256) (h1 : b1 < 256) (h2 : b2 < 256) (h3 : b3 < 256) (hn : n ≤ 32) :
    num4 (andBytes [b0, b1, b2, b3] (cidrMask n 4)) = num4 [b0, b1, b2, b3] / 2 ^ (32 - n) * 2 ^ (32 - n) := by
  have L255 : ∀ b, b < 256 → b &&& 255 = b := fun b h => by simpa using land b 0 h (by omega)
  have L254 : ∀ b, b < 256 → b &&& 254 = b / 2 * 2 := fun b h => by simpa using land b 1 h (by omega)
  have L252 : ∀ b, b < 256 → b &&& 252 = b / 4 * 4 := fun b h => by simpa using land b 2 h (by omega)
  have L248 : ∀ b, b < 256 → b &&& 248 = b / 8 * 8 := fun b h => by simpa using land b 3 h (by omega)
  have L240 : ∀ b, b < 256 → b &&& 240 = b / 16 * 16 := fun b h => by simpa using land b 4 h (by omega)
  have L224 : ∀ b, b < 256 → b &&& 224 = b / 32 * 32 := fun b h => by simpa using land b 5 h (by omega)
  have L192 : ∀ b, b < 256 → b &&& 192 = b / 64 * 64 := fun b h => by simpa using land b 6 h (by omega)
  have L128 : ∀ b, b < 256 → b &&& 128 = b / 128 * 128 := fun b h => by simpa using land b 7 h (by omega)
  iterate 33 (rcases n with _ | n; · (simp [cidrMask, maskByte, List.range, List.range.loop, andBytes, num4, L255, L254, L252, L248, L240, L224, L192, L128, h0, h1, h2, h3]; try omega))
  omega

theorem maskSize4 (n : Fin 33) : maskSize (cidrMask n.val 4) = (n.val, 32) := by revert n; decide +kernel
theorem maskSize16 (n : Fin 129) : maskSize (cidrMask n.val 16) = (n.val, 128) := by revert n; decide +kernel
theorem cidrMask16_mapped (n : Fin 33) : cidrMask (96 + n.val) 16 = List.replicate 12 255 ++ cidrMask n.val 4 := by
  revert n; decide +kernel

theorem v4Loop_bytes (s : Str) : ∀ (val dl : Nat) (fields out : List Nat), val < 256 → (∀ x ∈ fields, x < 256) →
    fields.length ≤ 3 → v4Loop s val dl fields = some out → out.length = 4 ∧ ∀ x ∈ out, x < 256 := by
  induction s with
  | nil =>
    intro val dl fields out hv hf hl h
    simp only [v4Loop] at h
    split at h
    · cases h
    · cases h
      refine ⟨by simp; omega, ?_⟩
      intro x hx
      rcases List.mem_append.mp hx with hx | hx
      · exact hf x hx
      · simp at hx; omega
  | cons c rest ih =>
    intro val dl fields out hv hf hl h
    simp only [v4Loop] at h
    split at h
    · split at h
      · cases h
      · rename_i v l hd
        have hv' : v < 256 := by
          unfold digStep at hd
          split at hd
          · cases hd
          · simp only at hd
            split at hd
            · cases hd
            · cases hd; omega
        exact ih v l fields out hv' hf hl h
    · split at h
      · split at h
        · cases h
        · split at h
          · cases h
          · rename_i h3
            refine ih 0 0 (fields ++ [val]) out (by omega) ?_ ?_ h
            · intro x hx
              rcases List.mem_append.mp hx with hx | hx
              · exact hf x hx
              · simp at hx; omega
            · simp at h3 ⊢; omega
      · cases h

theorem parseIPv4_bytes {s : Str} {b : List Nat} (h : parseIPv4 s = some b) : IsBytes4 b := by
  obtain ⟨hl, hb⟩ := v4Loop_bytes s 0 0 [] b (by omega) (by simp) (by simp) h
  match b, hl with
  | [b0, b1, b2, b3], _ =>
    exact ⟨b0, b1, b2, b3, rfl, hb b0 (by simp), hb b1 (by simp), hb b2 (by simp), hb b3 (by simp)⟩

theorem andBytes_append (p q m1 m2 : List Nat) (h : p.length = m1.length) :
    andBytes (p ++ q) (m1 ++ m2) = andBytes p m1 ++ andBytes q m2 := by
  induction p generalizing m1 with
  | nil => cases m1 with
    | nil => simp [andBytes]
    | cons _ _ => simp at h
  | cons a p ih => cases m1 with
    | nil => simp at h
    | cons m m1 => simp [andBytes, ih m1 (by simpa using h)]

theorem entry_v4 (b : List Nat) (hb : IsBytes4 b) (n : Nat) (hn : n ≤ 32) (w p : Nat) (pf : Option (Int × String × Int)) (l : TLabel) :
    toSubnet ⟨andBytes b (cidrMask n 4), cidrMask n 4⟩ w p pf l =
      { isV4 := true, base := num4 b / 2 ^ (32 - n) * 2 ^ (32 - n), ones := 32 - (32 - n), weight := w, port := p, pfx := pf, label := l } := by
  obtain ⟨b0, b1, b2, b3, rfl, h0, h1, h2, h3⟩ := hb
  have hm := masked_base4 b0 b1 b2 b3 n h0 h1 h2 h3 hn
  have hs := maskSize4 ⟨n, by omega⟩
  simp only at hs
  have hl : (andBytes [b0, b1, b2, b3] (cidrMask n 4)).length = 4 := by
    simp [cidrMask, List.range, List.range.loop, andBytes]
  simp only [toSubnet, drawFields, hs, to4, hl, hm, beq_self_eq_true, if_true]

theorem written_entry (s : Str) (A k : Nat) (hw : written s = some (A, k)) (w p : Nat) (pf : Option (Int × String × Int)) (l : TLabel) :
    k ≤ 32 ∧ entry s w p pf l = some { isV4 := true, base := A / 2 ^ k * 2 ^ k, ones := 32 - k, weight := w, port := p, pfx := pf, label := l } := by
  unfold written at hw
  split at hw
  · cases hw
  · rename_i addr mask hcut
    split at hw
    · rename_i b n hpa hdt
      split at hw
      · rename_i hn
        cases hw
        have hb : IsBytes4 b := by
          unfold parseAddr at hpa
          split at hpa
          · cases hq : parseIPv4 addr with
            | none => simp [hq] at hpa
            | some b' => simp [hq] at hpa; subst hpa; exact parseIPv4_bytes hq
          · cases hq : parseIPv6 addr with
            | none => simp [hq] at hpa
            | some b' => simp [hq] at hpa
          · cases hpa
        refine ⟨by omega, ?_⟩
        have hn' : ¬ n > 32 := by omega
        simp [entry, unmarshalText, parseCIDR, hcut, hpa, hdt, Addr.zone, hn', entry_v4 b hb n hn]
      · cases hw
    · rename_i b z n hpa hdt
      split at hw
      · rename_i hc
        cases hw
        simp only [Bool.and_eq_true, decide_eq_true_eq, beq_iff_eq, List.all_eq_true] at hc
        obtain ⟨⟨⟨⟨⟨hz, hlen⟩, hall⟩, htake⟩, h96⟩, h128⟩ := hc
        refine ⟨by omega, ?_⟩
        obtain ⟨j, rfl⟩ : ∃ j, n = 96 + j := ⟨n - 96, by omega⟩
        have hj : j ≤ 32 := by omega
        have hsplit : b = v4InV6Prefix ++ b.drop 12 := by rw [← htake]; exact (List.take_append_drop 12 b).symm
        have htl : (b.drop 12).length = 4 := by simp [hlen]
        have ht : IsBytes4 (b.drop 12) := by
          have hlt : ∀ x ∈ b.drop 12, x < 256 := fun x hx => by simpa using hall x (List.mem_of_mem_drop hx)
          match hd : b.drop 12, htl with
          | [t0, t1, t2, t3], _ =>
            rw [hd] at hlt
            exact ⟨t0, t1, t2, t3, rfl, hlt t0 (by simp), hlt t1 (by simp), hlt t2 (by simp), hlt t3 (by simp)⟩
        obtain ⟨t0, t1, t2, t3, htd, h0, h1, h2, h3⟩ := ht
        have hm := masked_base4 t0 t1 t2 t3 j h0 h1 h2 h3 hj
        have hs := maskSize16 ⟨96 + j, by omega⟩
        simp only at hs
        have hmask := cidrMask16_mapped ⟨j, by omega⟩
        simp only at hmask
        have hand : andBytes b (cidrMask (96 + j) 16) = v4InV6Prefix ++ andBytes [t0, t1, t2, t3] (cidrMask j 4) := by
          rw [hmask, hsplit, htd, andBytes_append _ _ _ _ (by decide)]
          congr 1
        have hl4 : (andBytes [t0, t1, t2, t3] (cidrMask j 4)).length = 4 := by
          simp [cidrMask, List.range, List.range.loop, andBytes]
        have hto4 : to4 (v4InV6Prefix ++ andBytes [t0, t1, t2, t3] (cidrMask j 4)) = some (andBytes [t0, t1, t2, t3] (cidrMask j 4)) := by
          have hl16 : (v4InV6Prefix ++ andBytes [t0, t1, t2, t3] (cidrMask j 4)).length = 16 := by
            rw [List.length_append, hl4]; rfl
          have htk : (v4InV6Prefix ++ andBytes [t0, t1, t2, t3] (cidrMask j 4)).take 12 = v4InV6Prefix := by
            rw [List.take_append_of_le_length (by decide)]; rfl
          have hdr : (v4InV6Prefix ++ andBytes [t0, t1, t2, t3] (cidrMask j 4)).drop 12 = andBytes [t0, t1, t2, t3] (cidrMask j 4) := by
            rw [List.drop_append_of_le_length (by decide)]; rfl
          simp [to4, hl16, htk, hdr]
        have hz' : z.isEmpty = true := hz
        have hn' : ¬ 96 + j > 128 := by omega
        have hk : 128 - (96 + j) = 32 - j := by omega
        simp [entry, unmarshalText, parseCIDR, hcut, hpa, hdt, Addr.zone, hz', hn', toSubnet, drawFields, hs, hand, hto4, hm, htd, hk]
      · cases hw
    · cases hw
end CJ.OverrideCidr
