import CJ.Model.Covert
/-! Helper lemmas about the covert-admission model. -/
namespace CJ.Covert

theorem joinHostPort_ne_empty (host port : String) : joinHostPort host port ≠ "" := by
  intro h
  have hl := congrArg String.length h
  unfold joinHostPort at hl
  split at hl <;> simp [String.length_append] at hl <;> omega

variable {Net Pat IP : Type}

/-- the address is inside one of the subnets -/
def inAny (env : Env Net Pat IP) (nets : List Net) (ip : IP) : Prop := ∃ n ∈ nets, env.contains n ip = true

theorem any_contains_iff (env : Env Net Pat IP) (nets : List Net) (ip : IP) :
    nets.any (fun n => env.contains n ip) = true ↔ inAny env nets ip := by
  simp [inAny, List.any_eq_true]

/-- characterisation of acceptance: the only way to a non-empty output -/
theorem accepted_iff (env : Env Net Pat IP) (pol : Policy Net Pat) (a : Answers IP) :
    (parseOrResolve env pol a).out ≠ "" ↔
      ∃ host port ip text, a.providedIsIP = false ∧ a.split = some (host, port) ∧
        isBlocklistedCovertDomain env pol host = false ∧ a.portOk = true ∧
        a.resolved = .addr (some ip) "" text ∧ isBlocklistedCovertAddr env pol ip = false ∧
        parseOrResolve env pol a = ⟨joinHostPort text port, !a.hostIsIP, 1⟩ := by
  constructor
  · intro h
    cases hp : a.providedIsIP with
    | true => simp [parseOrResolve, hp] at h
    | false =>
      cases hs : a.split with
      | none => simp [parseOrResolve, hp, hs] at h
      | some hp2 =>
        obtain ⟨host, port⟩ := hp2
        cases hd : isBlocklistedCovertDomain env pol host with
        | true => simp [parseOrResolve, hp, hs, hd] at h
        | false =>
          cases hk : a.portOk with
          | false => simp [parseOrResolve, hp, hs, hd, hk] at h
          | true =>
            cases hr : a.resolved with
            | err => simp [parseOrResolve, hp, hs, hd, hk, hr] at h
            | nilAddr => simp [parseOrResolve, hp, hs, hd, hk, hr] at h
            | addr ip zone text =>
              cases ip with
              | none => simp [parseOrResolve, hp, hs, hd, hk, hr] at h
              | some ip =>
                cases hb : isBlocklistedCovertAddr env pol ip with
                | true => simp [parseOrResolve, hp, hs, hd, hk, hr, hb] at h
                | false =>
                  by_cases hz : zone = ""
                  · subst hz
                    refine ⟨host, port, ip, text, rfl, rfl, hd, rfl, rfl, hb, ?_⟩
                    simp [parseOrResolve, hp, hs, hd, hk, hr, hb]
                  · simp [parseOrResolve, hp, hs, hd, hk, hr, hb, hz] at h
  · rintro ⟨host, port, ip, text, _, _, _, _, _, _, h⟩
    rw [h]
    exact joinHostPort_ne_empty text port

theorem resolverCalls_le_one (env : Env Net Pat IP) (pol : Policy Net Pat) (a : Answers IP) :
    (parseOrResolve env pol a).resolverCalls ≤ 1 := by
  unfold parseOrResolve
  split
  · simp
  · split
    · simp
    · split
      · simp
      · split
        · simp
        · split <;> (try split) <;> (try split) <;> simp

end CJ.Covert
