import CJ.Model.Covert
/-! Helper lemmas about the covert-admission model. -/
namespace CJ.Covert

theorem joinHostPort_ne_empty (host port : String) : joinHostPort host port ≠ "" := by
  intro h
  have hl := congrArg String.length h
  unfold joinHostPort at hl
  split at hl <;> simp [String.length_append] at hl <;> omega

variable {Net Pat IP : Type}

/-- the address is inside one of the subnets -/
def inAny (env : Env Net Pat IP) (nets : List Net) (ip : IP) : Prop := ∃ n ∈ nets, env.contains n ip = true

theorem any_contains_iff (env : Env Net Pat IP) (nets : List Net) (ip : IP) :
    nets.any (fun n => env.contains n ip) = true ↔ inAny env nets ip := by
  simp [inAny, List.any_eq_true]

theorem addrText_nozone (env : Env Net Pat IP) (ip : IP) : addrText env ip "" = env.ipText ip := by
  simp [addrText]

/-- characterisation of acceptance: the only way to a non-empty output -/
theorem accepted_iff (env : Env Net Pat IP) (pol : Policy Net Pat) (a : Answers) (rs : Resolver IP) (n : Nat) :
    (parseOrResolve env pol a rs n).out ≠ "" ↔
      ∃ host port ip, a.providedIsIP = false ∧ a.split = some (host, port) ∧
        isBlocklistedCovertDomain env pol host = false ∧ a.portOk = true ∧
        rs n = .addr (some ip) "" ∧ env.unspecified ip = false ∧ isBlocklistedCovertAddr env pol ip = false ∧
        parseOrResolve env pol a rs n = ⟨joinHostPort (env.ipText ip) port, !a.hostIsIP, n + 1⟩ := by
  constructor
  · intro h
    cases hp : a.providedIsIP with
    | true => simp [parseOrResolve, hp] at h
    | false =>
      cases hs : a.split with
      | none => simp [parseOrResolve, hp, hs] at h
      | some hp2 =>
        obtain ⟨host, port⟩ := hp2
        cases hd : isBlocklistedCovertDomain env pol host with
        | true => simp [parseOrResolve, hp, hs, hd] at h
        | false =>
          cases hk : a.portOk with
          | false => simp [parseOrResolve, hp, hs, hd, hk] at h
          | true =>
            cases hr : rs n with
            | err => simp [parseOrResolve, hp, hs, hd, hk, hr] at h
            | nilAddr => simp [parseOrResolve, hp, hs, hd, hk, hr] at h
            | addr ip zone =>
              cases ip with
              | none => simp [parseOrResolve, hp, hs, hd, hk, hr] at h
              | some ip =>
                cases hu : env.unspecified ip with
                | true => simp [parseOrResolve, hp, hs, hd, hk, hr, hu] at h
                | false =>
                  cases hb : isBlocklistedCovertAddr env pol ip with
                  | true => simp [parseOrResolve, hp, hs, hd, hk, hr, hb] at h
                  | false =>
                    by_cases hz : zone = ""
                    · subst hz
                      refine ⟨host, port, ip, rfl, rfl, hd, rfl, rfl, hu, hb, ?_⟩
                      simp [parseOrResolve, hp, hs, hd, hk, hr, hu, hb, addrText]
                    · simp [parseOrResolve, hp, hs, hd, hk, hr, hu, hb, hz] at h
  · rintro ⟨host, port, ip, _, _, _, _, _, _, _, h⟩
    rw [h]
    exact joinHostPort_ne_empty _ port

/-- the cursor moves by at most one, and never backwards -/
theorem cursor_bounds (env : Env Net Pat IP) (pol : Policy Net Pat) (a : Answers) (rs : Resolver IP) (n : Nat) :
    n ≤ (parseOrResolve env pol a rs n).cursor ∧ (parseOrResolve env pol a rs n).cursor ≤ n + 1 := by
  unfold parseOrResolve
  split
  · simp
  · split
    · simp
    · split
      · simp
      · split
        · simp
        · split <;> (try split) <;> (try split) <;> (try split) <;> simp

/-- the whole result is a function of the one answer under the cursor -/
theorem result_congr (env : Env Net Pat IP) (pol : Policy Net Pat) (a : Answers) (rs rs' : Resolver IP) (n : Nat)
    (h : rs n = rs' n) : parseOrResolve env pol a rs n = parseOrResolve env pol a rs' n := by
  unfold parseOrResolve
  rw [h]

/-! ### interleaved workers -/

theorem updateAt_same {α : Type} (f : Nat → α) (i : Nat) (v : α) : updateAt f i v i = v := by
  simp [updateAt]

theorem updateAt_other {α : Type} (f : Nat → α) (i j : Nat) (v : α) (h : j ≠ i) : updateAt f i v j = f j := by
  simp [updateAt, h]

section steps
variable (env : Env Net Pat IP) (pol : Policy Net Pat) (inp : Inputs) (rs : Resolver IP)

theorem step_done (w : World) (i : Nat) (h : w.pc i = .done) : step env pol inp rs w i = w := by
  unfold step; rw [h]

theorem step_pc_other (w : World) (i j : Nat) (h : j ≠ i) : (step env pol inp rs w i).pc j = w.pc j := by
  unfold step
  cases hpc : w.pc i with
  | afterExists dup => cases dup <;> simp only <;> (try split) <;> simp [updateAt, h]
  | afterTrack => simp only; split <;> (try split) <;> simp [updateAt, h]
  | _ => simp [updateAt, h]

theorem step_covertOf_other (w : World) (i j : Nat) (h : j ≠ i) :
    (step env pol inp rs w i).covertOf j = w.covertOf j := by
  unfold step
  cases hpc : w.pc i with
  | afterExists dup => cases dup <;> simp only <;> (try split) <;> simp
  | afterTrack => simp only; split <;> (try split) <;> simp [updateAt, h]
  | _ => simp

theorem step_covertOf_self (w : World) (i : Nat) (h : w.pc i ≠ .afterTrack) :
    (step env pol inp rs w i).covertOf i = w.covertOf i := by
  unfold step
  cases hpc : w.pc i with
  | afterExists dup => cases dup <;> simp only <;> (try split) <;> simp
  | afterTrack => exact absurd hpc h
  | _ => simp

/-- a worker gets to the validation step only through an accepted check of its own covert string, whose
output it wrote into its own object -/
theorem step_pc_beforeRegister (w : World) (i : Nat) (h : (step env pol inp rs w i).pc i = .beforeRegister) :
    w.pc i = .afterTrack ∧ (parseOrResolve env pol (inp.ans i) rs w.cursor).out ≠ "" ∧
      (step env pol inp rs w i).covertOf i = (parseOrResolve env pol (inp.ans i) rs w.cursor).out := by
  unfold step at h ⊢
  cases hpc : w.pc i with
  | afterExists dup =>
    rw [hpc] at h
    cases dup with
    | true => simp [updateAt] at h
    | false => simp only at h; split at h <;> simp [updateAt] at h
  | afterTrack =>
    rw [hpc] at h
    simp only at h ⊢
    by_cases hout : (parseOrResolve env pol (inp.ans i) rs w.cursor).out = ""
    · rw [if_pos hout] at h; simp [updateAt] at h
    · rw [if_neg hout] at h ⊢
      cases hp : inp.passes i with
      | false => simp [hp, updateAt] at h
      | true => simp [updateAt, hout]
  | start => rw [hpc] at h; simp [updateAt] at h
  | beforeRegister => rw [hpc] at h; simp [updateAt] at h
  | done => rw [hpc] at h; simp only at h; rw [hpc] at h; cases h

/-- a worker is past its track step (and not finished) only if that step stored its own object -/
theorem step_pc_afterTrack (w : World) (i : Nat) (h : (step env pol inp rs w i).pc i = .afterTrack) :
    w.pc i = .afterExists false ∧ w.store = none ∧ (step env pol inp rs w i).store = some ⟨i, false⟩ := by
  unfold step at h ⊢
  cases hpc : w.pc i with
  | afterExists dup =>
    rw [hpc] at h
    cases dup with
    | true => simp [updateAt] at h
    | false =>
      simp only at h ⊢
      cases hst : w.store with
      | none => simp
      | some e => rw [hst] at h; simp [updateAt] at h
  | afterTrack =>
    rw [hpc] at h
    simp only at h
    split at h
    · simp [updateAt] at h
    · split at h <;> simp [updateAt] at h
  | start => rw [hpc] at h; simp [updateAt] at h
  | beforeRegister => rw [hpc] at h; simp [updateAt] at h
  | done => rw [hpc] at h; simp only at h; rw [hpc] at h; cases h

/-- how the registry entry changes in one step -/
theorem step_store (w : World) (i : Nat) :
    (step env pol inp rs w i).store = w.store ∨
    (w.pc i = .afterExists false ∧ w.store = none ∧ (step env pol inp rs w i).store = some ⟨i, false⟩) ∨
    (w.pc i = .beforeRegister ∧ (step env pol inp rs w i).store = registerStep w.store i ∧
      (step env pol inp rs w i).pc i = .done) := by
  unfold step
  cases hpc : w.pc i with
  | start => exact Or.inl rfl
  | afterExists dup =>
    cases dup with
    | true => exact Or.inl rfl
    | false =>
      simp only
      cases hst : w.store with
      | none => exact Or.inr (Or.inl ⟨trivial, rfl, rfl⟩)
      | some e => exact Or.inl rfl
  | afterTrack => simp only; split <;> (try split) <;> exact Or.inl rfl
  | beforeRegister => exact Or.inr (Or.inr ⟨rfl, rfl, by simp [updateAt]⟩)
  | done => exact Or.inl rfl

/-- a valid entry is never touched again -/
theorem step_store_keeps_valid (w : World) (i : Nat) (e : Entry) (h : w.store = some e) (hv : e.valid = true) :
    (step env pol inp rs w i).store = some e := by
  unfold step
  cases hpc : w.pc i with
  | afterExists dup => cases dup <;> simp [h]
  | afterTrack => simp only; split <;> (try split) <;> simp [h]
  | beforeRegister =>
    simp only [registerStep, h]
    cases e with
    | mk ptr valid => simp only at hv; rw [hv]
  | _ => simp [h]

end steps

end CJ.Covert
