import CJ.Model.Phantom
import CJ.Model.PhantomConc
/-!
Helper lemmas for the phantom-selection model (C14, C01): byte encodings, `crypto/rand.Int`,
weighted choice, the id → (subnet, offset) search, and the `Prog` machinery (`All`: a postcondition
that holds whatever the generator returns).
-/
namespace CJ.Phantom

/-! ### bytes -/

theorem beNat_append_single (l : Bytes) (b : UInt8) : beNat (l ++ [b]) = beNat l * 256 + b.toNat := by
  simp [beNat, List.foldl_append]

theorem beFixed_length (len n : Nat) : (beFixed len n).length = len := by
  induction len generalizing n with
  | zero => simp [beFixed]
  | succ k ih => simp [beFixed, ih]

theorem beNat_beFixed (len n : Nat) : beNat (beFixed len n) = n % 256 ^ len := by
  induction len generalizing n with
  | zero => simp [beFixed, beNat, Nat.mod_one]
  | succ k ih =>
    simp only [beFixed, beNat_append_single, ih]
    have : (UInt8.ofNat (n % 256)).toNat = n % 256 := by simp
    rw [this, Nat.pow_succ, Nat.mul_comm (256 ^ k) 256, Nat.mod_mul]
    omega

theorem fillBytes_some {len n : Nat} {b : Bytes} (h : fillBytes len n = some b) :
    b.length = len ∧ beNat b = n := by
  unfold fillBytes at h
  split at h
  · cases h
    exact ⟨beFixed_length _ _, by rw [beNat_beFixed, Nat.mod_eq_of_lt ‹_›]⟩
  · cases h

theorem encodeAddr_ok {v4 : Bool} {n : Nat} {b : Bytes} (h : encodeAddr v4 n = .ok b) :
    b.length = famLen v4 ∧ beNat b = n := by
  unfold encodeAddr at h
  split at h
  · cases h; exact fillBytes_some ‹_›
  · cases h

theorem encodeAddr_not_panic (v4 : Bool) (n : Nat) (w : String) : encodeAddr v4 n ≠ .panic w := by
  unfold encodeAddr; split <;> simp

/-! ### `crypto/rand.Int` -/

theorem randIntLoop_lt {s : Stream} {lim k b max fuel pos n : Nat}
    (h : randIntLoop s lim k b max fuel pos = .ok n) : n < max := by
  induction fuel generalizing pos with
  | zero => simp [randIntLoop] at h
  | succ f ih =>
    simp only [randIntLoop] at h
    split at h
    · cases h
    · split at h
      · cases h; assumption
      · exact ih h

theorem randIntLoop_not_panic (s : Stream) (lim k b max fuel pos : Nat) (w : String) :
    randIntLoop s lim k b max fuel pos ≠ .panic w := by
  induction fuel generalizing pos with
  | zero => simp [randIntLoop]
  | succ f ih =>
    simp only [randIntLoop]
    split
    · simp
    · split
      · simp
      · exact ih _

/-- `rand.Int` returns a value below its bound -/
theorem randInt_lt {s : Stream} {lim max n : Nat} (h : randInt s lim max = .ok n) : n < max := by
  unfold randInt at h
  split at h
  · cases h
  · simp only at h
    split at h
    · cases h; omega
    · exact randIntLoop_lt h

/-- `rand.Int` panics only on a zero bound -/
theorem randInt_not_panic {s : Stream} {lim max : Nat} (hmax : max ≠ 0) (w : String) :
    randInt s lim max ≠ .panic w := by
  unfold randInt
  rw [if_neg hmax]
  simp only
  split
  · simp
  · exact randIntLoop_not_panic _ _ _ _ _ _ _ _

/-! ### parsing and filtering -/

theorem parseNets_ok {rp : Bool} {l : List (Option RawNet)} {nets : List Net}
    (h : parseNets rp l = .ok nets) : ∀ n ∈ nets, some n.toRawNet ∈ l ∧ n.randPort = rp := by
  induction l generalizing nets with
  | nil => simp [parseNets] at h; subst h; simp
  | cons x rest ih =>
    cases x with
    | none => simp [parseNets] at h
    | some r =>
      simp only [parseNets] at h
      split at h
      · cases h
        intro n hn
        rcases List.mem_cons.mp hn with rfl | hn
        · simp
        · have := ih ‹_› n hn
          exact ⟨List.mem_cons_of_mem _ this.1, this.2⟩
      · cases h
      · cases h

theorem parseNets_not_panic (rp : Bool) (l : List (Option RawNet)) :
    ∀ w : String, parseNets rp l ≠ .panic w := by
  intro w
  induction l generalizing w with
  | nil => simp [parseNets]
  | cons x rest ih =>
    cases x with
    | none => simp [parseNets]
    | some r =>
      simp only [parseNets]
      split
      · simp
      · simp
      · rename_i w' h; exact absurd h (ih w')

theorem parseGroup_ok {g : Group} {nets : List Net} (h : parseGroup g = .ok nets) :
    ∀ n ∈ nets, some n.toRawNet ∈ g.nets ∧ n.randPort = g.randPort := by
  unfold parseGroup at h
  split at h
  · cases h
  · exact parseNets_ok h

theorem parseGroup_not_panic (g : Group) (w : String) : parseGroup g ≠ .panic w := by
  unfold parseGroup; split
  · simp
  · exact parseNets_not_panic _ _ _

/-- membership in a configuration: the subnet was written in some group of the generation, with that
group's port-randomisation flag -/
def FromCfg (gc : GenCfg) (n : Net) : Prop :=
  ∃ g ∈ gc.groups, some n.toRawNet ∈ g.nets ∧ n.randPort = g.randPort

theorem concatAll_ok {gs : List Group} {nets : List Net} (h : concatAll gs = .ok nets) :
    ∀ n ∈ nets, ∃ g ∈ gs, some n.toRawNet ∈ g.nets ∧ n.randPort = g.randPort := by
  induction gs generalizing nets with
  | nil => simp [concatAll] at h; subst h; simp
  | cons g rest ih =>
    simp only [concatAll] at h
    split at h
    · split at h
      · cases h
        intro n hn
        rcases List.mem_append.mp hn with hn | hn
        · exact ⟨g, List.mem_cons_self .., parseGroup_ok ‹_› n hn⟩
        · obtain ⟨g', hg', hh⟩ := ih ‹_› n hn
          exact ⟨g', List.mem_cons_of_mem _ hg', hh⟩
      · cases h
      · cases h
    · cases h
    · cases h

theorem concatAll_not_panic (gs : List Group) : ∀ w : String, concatAll gs ≠ .panic w := by
  intro w
  induction gs generalizing w with
  | nil => simp [concatAll]
  | cons g rest ih =>
    simp only [concatAll]
    split
    · split
      · simp
      · simp
      · rename_i w' h; exact absurd h (ih w')
    · simp
    · rename_i w' h; exact absurd h (parseGroup_not_panic g w')

theorem mem_famFilter {v6 : Bool} {l : List Net} {n : Net} (h : n ∈ famFilter v6 l) :
    n ∈ l ∧ n.v4 = !v6 := by
  unfold famFilter at h
  cases v6 <;> simp [v4Only, v6Only, List.mem_filter] at h ⊢ <;> exact h

/-! ### weighted choice -/

theorem mem_insertByWeight {x y : Group} {l : List Group} :
    y ∈ insertByWeight x l ↔ y = x ∨ y ∈ l := by
  induction l with
  | nil => simp [insertByWeight]
  | cons z zs ih =>
    simp only [insertByWeight]
    split
    · simp
    · simp only [List.mem_cons, ih]
      constructor
      · rintro (h | h | h) <;> simp [h]
      · rintro (h | h | h) <;> simp [h]

theorem mem_sortByWeight_aux (l acc : List Group) (y : Group) :
    y ∈ l.foldl (fun acc x => insertByWeight x acc) acc ↔ y ∈ l ∨ y ∈ acc := by
  induction l generalizing acc with
  | nil => simp
  | cons x xs ih =>
    simp only [List.foldl_cons, ih, mem_insertByWeight, List.mem_cons]
    constructor
    · rintro (h | h | h) <;> simp [h]
    · rintro ((h | h) | h) <;> simp [h]

/-- the sort is a permutation as far as membership goes -/
theorem mem_sortByWeight {l : List Group} {y : Group} : y ∈ sortByWeight l ↔ y ∈ l := by
  unfold sortByWeight
  rw [mem_sortByWeight_aux]; simp

theorem length_insertByWeight (x : Group) (l : List Group) :
    (insertByWeight x l).length = l.length + 1 := by
  induction l with
  | nil => simp [insertByWeight]
  | cons z zs ih =>
    simp only [insertByWeight]
    split <;> simp [ih]

theorem pickSubtract_mem {l : List Group} {rnd : Int} {g : Group} (h : pickSubtract l rnd = some g) :
    g ∈ l := by
  induction l generalizing rnd with
  | nil => simp [pickSubtract] at h
  | cons x xs ih =>
    simp only [pickSubtract] at h
    split at h
    · cases h; exact List.mem_cons_self ..
    · exact List.mem_cons_of_mem _ (ih h)

theorem getSubnetsHkdf_ok {s : Stream} {lim : Nat} {c : GenCfg} {nets : List Net}
    (h : getSubnetsHkdf s lim c = .ok nets) : ∀ n ∈ nets, FromCfg c n := by
  unfold getSubnetsHkdf at h
  split at h
  · cases h; simp
  · simp only at h
    split at h
    · cases h
    · split at h
      · split at h
        · rename_i g hg
          have hm := pickSubtract_mem hg
          rw [mem_sortByWeight, List.mem_filter] at hm
          intro n hn
          exact ⟨g, hm.1, parseGroup_ok h n hn⟩
        · exact concatAll_ok h
      · cases h
      · cases h

theorem getSubnetsHkdf_not_panic (s : Stream) (lim : Nat) (c : GenCfg) (w : String) :
    getSubnetsHkdf s lim c ≠ .panic w := by
  unfold getSubnetsHkdf
  split
  · simp
  · simp only
    split
    · simp
    · rename_i htot
      split
      · split
        · exact parseGroup_not_panic _ _
        · exact concatAll_not_panic _ _
      · simp
      · rename_i w' hw; exact absurd hw (randInt_not_panic htot w')

/-! ### addresses inside a subnet -/

/-- `a` is a well-formed address of `n`'s family inside `n`, carrying `n`'s port flag -/
def InNet (n : Net) (a : Addr) : Prop :=
  a.bytes.length = famLen n.v4 ∧ n.base ≤ beNat a.bytes ∧
    beNat a.bytes < n.base + 2 ^ (n.bits - n.ones) ∧ a.randPort = n.randPort

theorem selectAddrFromSubnetOffset_ok {n : Net} {off : Nat} {a : Addr}
    (h : selectAddrFromSubnetOffset n off = .ok a) : InNet n a := by
  unfold selectAddrFromSubnetOffset at h
  simp only at h
  split at h
  · cases h
  · split at h
    · cases h
      rename_i hlt b hb
      obtain ⟨hl, hv⟩ := encodeAddr_ok hb
      refine ⟨hl, ?_, ?_, rfl⟩ <;> simp only [hv] <;> omega
    · cases h
    · cases h

theorem selectAddrFromSubnetOffset_not_panic (n : Net) (off : Nat) (w : String) :
    selectAddrFromSubnetOffset n off ≠ .panic w := by
  unfold selectAddrFromSubnetOffset
  simp only
  split
  · simp
  · split
    · simp
    · simp
    · rename_i w' hw; exact absurd hw (encodeAddr_not_panic _ _ w')

theorem mem_idNets {nets : List Net} {acc : Nat} {e : Nat × Nat × Net} (h : e ∈ idNets nets acc) :
    e.2.2 ∈ nets := by
  induction nets generalizing acc with
  | nil => simp [idNets] at h
  | cons n rest ih =>
    simp only [idNets, List.mem_cons] at h
    rcases h with rfl | h
    · simp
    · exact List.mem_cons_of_mem _ (ih h)

theorem mem_idNetsV0 {nets : List Net} {acc : Nat} {e : Nat × Nat × Net} (h : e ∈ idNetsV0 nets acc) :
    e.2.2 ∈ nets := by
  induction nets generalizing acc with
  | nil => simp [idNetsV0] at h
  | cons n rest ih =>
    simp only [idNetsV0, List.mem_cons] at h
    rcases h with rfl | h
    · simp
    · exact List.mem_cons_of_mem _ (ih h)

theorem findHkdf_ok {l : List (Nat × Nat × Net)} {id : Nat} {r r' : Option Addr}
    (h : findHkdf l id r = .ok r') :
    ∀ a, r' = some a → r = some a ∨ ∃ e ∈ l, InNet e.2.2 a := by
  induction l generalizing r with
  | nil => simp [findHkdf] at h; subst h; intro a ha; exact Or.inl ha
  | cons e rest ih =>
    obtain ⟨mn, mx, n⟩ := e
    simp only [findHkdf] at h
    split at h
    · split at h
      · rename_i a0 ha0
        intro a ha
        rcases ih h a ha with h1 | ⟨e, he, hin⟩
        · cases h1
          exact Or.inr ⟨(mn, mx, n), List.mem_cons_self .., selectAddrFromSubnetOffset_ok ha0⟩
        · exact Or.inr ⟨e, List.mem_cons_of_mem _ he, hin⟩
      · cases h
      · cases h
    · intro a ha
      rcases ih h a ha with h1 | ⟨e, he, hin⟩
      · exact Or.inl h1
      · exact Or.inr ⟨e, List.mem_cons_of_mem _ he, hin⟩

theorem findHkdf_not_panic (l : List (Nat × Nat × Net)) (id : Nat) (r : Option Addr) (w : String) :
    findHkdf l id r ≠ .panic w := by
  induction l generalizing r with
  | nil => simp [findHkdf]
  | cons e rest ih =>
    obtain ⟨mn, mx, n⟩ := e
    simp only [findHkdf]
    split
    · split
      · exact ih _
      · simp
      · rename_i w' hw; exact absurd hw (selectAddrFromSubnetOffset_not_panic _ _ w')
    · exact ih _

theorem selectHkdf_ok {s : Stream} {lim : Nat} {nets : List Net} {a : Addr}
    (h : selectHkdf s lim nets = .ok a) : ∃ n ∈ nets, InNet n a := by
  unfold selectHkdf at h
  simp only at h
  split at h
  · cases h
  · split at h
    · split at h
      · cases h
        rename_i hf
        rcases findHkdf_ok hf a rfl with h1 | ⟨e, he, hin⟩
        · cases h1
        · exact ⟨e.2.2, mem_idNets he, hin⟩
      · cases h
      · cases h
      · cases h
    · cases h
    · cases h

theorem selectHkdf_not_panic (s : Stream) (lim : Nat) (nets : List Net) (w : String) :
    selectHkdf s lim nets ≠ .panic w := by
  unfold selectHkdf
  simp only
  split
  · simp
  · rename_i htot
    split
    · split
      · simp
      · simp
      · simp
      · rename_i w' hw; exact absurd hw (findHkdf_not_panic _ _ _ w')
    · simp
    · rename_i w' hw; exact absurd hw (randInt_not_panic htot w')

/-! ### the legacy address arithmetic -/

theorem hostMask_lt (bits ones : Nat) : (2 ^ bits - 1) >>> ones < 2 ^ (bits - ones) := by
  rw [Nat.shiftRight_eq_div_pow]
  apply (Nat.div_lt_iff_lt_mul (Nat.two_pow_pos _)).mpr
  have h1 : 0 < 2 ^ bits := Nat.two_pow_pos _
  by_cases hle : ones ≤ bits
  · rw [← Nat.pow_add, Nat.sub_add_cancel hle]; omega
  · have : bits - ones = 0 := by omega
    rw [this, Nat.pow_zero, Nat.one_mul]
    have : 2 ^ bits ≤ 2 ^ ones := Nat.pow_le_pow_right (by decide) (by omega)
    omega

theorem addrFromRand_ok {n : RawNet} {rb b : Bytes} (h : addrFromRand n rb = .ok b) :
    b.length = famLen n.v4 ∧ n.base ≤ beNat b ∧ beNat b < n.base + 2 ^ (n.bits - n.ones) := by
  unfold addrFromRand at h
  simp only at h
  obtain ⟨hl, hv⟩ := encodeAddr_ok h
  have h1 : beNat rb &&& ((2 ^ n.bits - 1) >>> n.ones) ≤ (2 ^ n.bits - 1) >>> n.ones := Nat.and_le_right
  have h2 := hostMask_lt n.bits n.ones
  refine ⟨hl, ?_, ?_⟩ <;> rw [hv] <;> omega

theorem addrFromRand_not_panic (n : RawNet) (rb : Bytes) (w : String) : addrFromRand n rb ≠ .panic w := by
  unfold addrFromRand; exact encodeAddr_not_panic _ _ _

/-! ### programs: postconditions that hold whatever the generator returns -/

/-- `p.All D P`: every result `p` can produce satisfies `P`, if every `Intn(n)` answer `x` satisfies
`D n x` (`D := fun _ _ => True`: for arbitrary generator behaviour). -/
def Prog.All {α : Type} (D : Nat → Nat → Prop) (P : α → Prop) : Prog α → Prop
  | .done a => P a
  | .seed _ k => k.All D P
  | .intn n k => ∀ x, D n x → (k x).All D P
  | .read _ k => ∀ b, (k b).All D P

/-- the generator honours `D` -/
def Rng.Conforms (R : Rng) (D : Nat → Nat → Prop) : Prop := ∀ g n, D n (R.intn g n).1

theorem Prog.All_run {α : Type} {D : Nat → Nat → Prop} {P : α → Prop} {R : Rng} (hR : R.Conforms D)
    {p : Prog α} (h : p.All D P) (g : R.G) : P (p.run R g).1 := by
  induction p generalizing g with
  | done a => exact h
  | seed s k ih => exact ih h _
  | intn n k ih => exact ih _ (h _ (hR g n)) _
  | read n k ih => exact ih _ (h _) _

theorem Prog.All_bind {α β : Type} {D : Nat → Nat → Prop} {P : β → Prop} {p : Prog α} {f : α → Prog β}
    (h : p.All D (fun a => (f a).All D P)) : (p.bind f).All D P := by
  induction p with
  | done a => exact h
  | seed s k ih => exact ih h
  | intn n k ih => intro x hx; exact ih x (h x hx)
  | read n k ih => intro b; exact ih b (h b)

theorem Prog.All_mono {α : Type} {D : Nat → Nat → Prop} {P Q : α → Prop} {p : Prog α}
    (hpq : ∀ a, P a → Q a) (h : p.All D P) : p.All D Q := by
  induction p with
  | done a => exact hpq _ h
  | seed s k ih => exact ih h
  | intn n k ih => intro x hx; exact ih x (h x hx)
  | read n k ih => intro b; exact ih b (h b)

theorem Prog.bind_eq {α β : Type} (p : Prog α) (f : α → Prog β) : p >>= f = p.bind f := rfl
theorem Prog.pure_eq {α : Type} (a : α) : (pure a : Prog α) = .done a := rfl

/-- the unconstrained draw predicate -/
def anyDraw : Nat → Nat → Prop := fun _ _ => True
/-- `Intn(n)` answers below `n` (the contract of `math/rand.Intn` for `n > 0`) -/
def intnContract : Nat → Nat → Prop := fun n x => 0 < n → x < n

theorem conforms_any (R : Rng) : R.Conforms anyDraw := fun _ _ => trivial

/-! ### the legacy chooser (weightedrand) -/

theorem runningTotals_spec {data : List Group} {run : Nat} {totals : List Nat} {t : Nat}
    (h : runningTotals data run = .ok (totals, t)) :
    totals.length = data.length ∧ ∀ x, run < x → x ≤ t → searchInts totals x < totals.length := by
  induction data generalizing run totals with
  | nil =>
    simp [runningTotals] at h
    obtain ⟨rfl, rfl⟩ := h
    exact ⟨rfl, fun x h1 h2 => by omega⟩
  | cons g rest ih =>
    simp only [runningTotals] at h
    split at h
    · cases h
    · split at h
      · rename_i l t' hrest
        cases h
        obtain ⟨hl, hs⟩ := ih hrest
        refine ⟨by simp [hl], ?_⟩
        intro x h1 h2
        simp only [searchInts]
        split
        · have := hs x ‹_› h2
          simp; omega
        · simp
      · cases h
      · cases h

theorem runningTotals_not_panic (data : List Group) (run : Nat) :
    ∀ w : String, runningTotals data run ≠ .panic w := by
  intro w
  induction data generalizing run w with
  | nil => simp [runningTotals]
  | cons g rest ih =>
    simp only [runningTotals]
    split
    · simp
    · split
      · simp
      · simp
      · rename_i w' hw; exact absurd hw (ih _ w')

theorem newChooser_ok {choices : List Group} {ch : Chooser} (h : newChooser choices = .ok ch) :
    ch.data = sortByWeight choices ∧ ch.totals.length = ch.data.length ∧ 0 < ch.max ∧
      ∀ x, 0 < x → x ≤ ch.max → searchInts ch.totals x < ch.totals.length := by
  unfold newChooser at h
  simp only at h
  split at h
  · rename_i totals t hrt
    obtain ⟨hl, hs⟩ := runningTotals_spec hrt
    by_cases hlt : t < 1
    · rw [if_pos hlt] at h; cases h
    · rw [if_neg hlt] at h; cases h
      exact ⟨rfl, hl, (show 0 < t by omega), hs⟩
  · cases h
  · cases h

theorem newChooser_not_panic (choices : List Group) (w : String) : newChooser choices ≠ .panic w := by
  unfold newChooser
  simp only
  split
  · split <;> simp
  · simp
  · rename_i w' hw; exact absurd hw (runningTotals_not_panic _ _ w')

theorem Chooser.at_mem {c : Chooser} {r : Nat} {g : Group} (h : c.at r = .ok g) : g ∈ c.data := by
  unfold Chooser.at at h
  split at h
  · cases h; exact List.mem_of_getElem? ‹_›
  · cases h

theorem Chooser.at_not_panic {choices : List Group} {ch : Chooser} (h : newChooser choices = .ok ch)
    {r : Nat} (hr : r < ch.max) (w : String) : ch.at r ≠ .panic w := by
  obtain ⟨_, hl, _, hs⟩ := newChooser_ok h
  have := hs (r + 1) (by omega) (by omega)
  unfold Chooser.at
  split
  · simp
  · rename_i hnone
    rw [List.getElem?_eq_none_iff] at hnone
    omega

theorem Outcome.bind_ok_iff {α β : Type} {x : Outcome α} {f : α → Outcome β} {b : β} :
    x.bind f = .ok b ↔ ∃ a, x = .ok a ∧ f a = .ok b := by
  cases x <;> simp [Outcome.bind]

theorem Outcome.bind_panic_iff {α β : Type} {x : Outcome α} {f : α → Outcome β} {w : String} :
    x.bind f = .panic w ↔ x = .panic w ∨ ∃ a, x = .ok a ∧ f a = .panic w := by
  cases x <;> simp [Outcome.bind]

theorem getSubnetsVarint_all (D : Nat → Nat → Prop) (c : GenCfg) (seed : Bytes) :
    (getSubnetsVarint c seed).All D (fun o => ∀ nets, o = .ok nets → ∀ n ∈ nets, FromCfg c n) := by
  unfold getSubnetsVarint
  simp only
  split
  · intro nets h; cases h
  · split
    · rename_i ch hch
      intro x _ nets h
      obtain ⟨g, hg, hp⟩ := Outcome.bind_ok_iff.mp h
      have hm := Chooser.at_mem hg
      rw [(newChooser_ok hch).1, mem_sortByWeight] at hm
      intro n hn
      exact ⟨g, hm, parseGroup_ok hp n hn⟩
    · intro nets h; cases h
    · intro nets h; cases h

theorem getSubnetsVarint_no_panic (c : GenCfg) (seed : Bytes) :
    (getSubnetsVarint c seed).All intnContract (fun o => ∀ w, o ≠ .panic w) := by
  unfold getSubnetsVarint
  simp only
  split
  · intro w; simp
  · split
    · rename_i ch hch
      intro x hx w h
      rcases Outcome.bind_panic_iff.mp h with h | ⟨g, _, h⟩
      · exact Chooser.at_not_panic hch (hx (newChooser_ok hch).2.2.1) w h
      · exact parseGroup_not_panic _ _ h
    · intro w; simp
    · rename_i w' hw; exact absurd hw (newChooser_not_panic _ w')

/-! ### the legacy selectors -/

/-- what `SelectAddrFromSubnet` may return for the subnet `n` -/
def InRaw (n : RawNet) (b : Bytes) : Prop :=
  b.length = famLen n.v4 ∧ n.base ≤ beNat b ∧ beNat b < n.base + 2 ^ (n.bits - n.ones)

theorem selectAddrFromSubnet_all (D : Nat → Nat → Prop) (seed : Bytes) (n : RawNet) :
    (selectAddrFromSubnet seed n).All D (fun o => (∀ b, o = .ok b → InRaw n b) ∧ ∀ w, o ≠ .panic w) := by
  unfold selectAddrFromSubnet
  simp only
  split
  · exact ⟨fun b h => (by cases h), fun w => (by simp)⟩
  · intro rb
    exact ⟨fun b h => addrFromRand_ok h, fun w => addrFromRand_not_panic _ _ w⟩

theorem findLegacy_all (D : Nat → Nat → Prop) (strict : Bool) (seed : Bytes)
    (l : List (Nat × Nat × Net)) (id : Nat) (r : Option Addr) :
    (findLegacy strict seed l id r).All D (fun o =>
      (∀ r', o = .ok r' → ∀ a, r' = some a → r = some a ∨ ∃ e ∈ l, InNet e.2.2 a) ∧ ∀ w, o ≠ .panic w) := by
  induction l generalizing r with
  | nil =>
    refine ⟨?_, fun w => by simp⟩
    intro r' h a ha; cases h; exact Or.inl ha
  | cons e rest ih =>
    obtain ⟨mn, mx, n⟩ := e
    simp only [findLegacy]
    split
    · rw [Prog.bind_eq]
      apply Prog.All_bind
      apply Prog.All_mono _ (selectAddrFromSubnet_all D seed n.toRawNet)
      intro o ⟨hok, hnp⟩
      cases o with
      | ok b =>
        simp only
        apply Prog.All_mono _ (ih (some ⟨b, n.randPort⟩))
        intro o' ⟨h1, h2⟩
        refine ⟨?_, h2⟩
        intro r' hr' a ha
        rcases h1 r' hr' a ha with h | ⟨e, he, hin⟩
        · cases h
          obtain ⟨hl, hlo, hhi⟩ := hok b rfl
          exact Or.inr ⟨(mn, mx, n), List.mem_cons_self .., hl, hlo, hhi, rfl⟩
        · exact Or.inr ⟨e, List.mem_cons_of_mem _ he, hin⟩
      | err e => exact ⟨fun r' h => (by cases h), fun w => (by simp)⟩
      | panic w => exact absurd rfl (hnp w)
    · apply Prog.All_mono _ (ih r)
      intro o' ⟨h1, h2⟩
      refine ⟨?_, h2⟩
      intro r' hr' a ha
      rcases h1 r' hr' a ha with h | ⟨e, he, hin⟩
      · exact Or.inl h
      · exact Or.inr ⟨e, List.mem_cons_of_mem _ he, hin⟩

theorem optResult_ok {bug : Err} {o : Outcome (Option Addr)} {a : Addr} (h : optResult bug o = .ok a) :
    o = .ok (some a) := by
  unfold optResult at h
  split at h <;> simp_all

theorem optResult_panic {bug : Err} {o : Outcome (Option Addr)} {w : String}
    (h : optResult bug o = .panic w) : o = .panic w := by
  unfold optResult at h
  split at h <;> simp_all

theorem selectVarint_all (D : Nat → Nat → Prop) (seed : Bytes) (nets : List Net) :
    (selectVarint seed nets).All D (fun o =>
      (∀ a, o = .ok a → ∃ n ∈ nets, InNet n a) ∧ ∀ w, o ≠ .panic w) := by
  unfold selectVarint
  simp only
  split
  · exact ⟨fun a h => (by cases h), fun w => (by simp)⟩
  · rw [Prog.bind_eq]
    apply Prog.All_bind
    apply Prog.All_mono _ (findLegacy_all D false seed _ _ none)
    intro o ⟨h1, h2⟩
    refine ⟨?_, ?_⟩
    · intro a ha
      rcases h1 _ (optResult_ok ha) a rfl with h | ⟨e, he, hin⟩
      · cases h
      · exact ⟨e.2.2, mem_idNets he, hin⟩
    · intro w hw; exact h2 w (optResult_panic hw)

theorem selectV0_all (D : Nat → Nat → Prop) (seed : Bytes) (nets : List Net) :
    (selectV0 seed nets).All D (fun o =>
      (∀ a, o = .ok a → ∃ n ∈ nets, InNet n a) ∧ ∀ w, o ≠ .panic w) := by
  unfold selectV0
  simp only
  split
  · exact ⟨fun a h => (by cases h), fun w => (by simp)⟩
  · rw [Prog.bind_eq]
    apply Prog.All_bind
    apply Prog.All_mono _ (findLegacy_all D true seed _ _ none)
    intro o ⟨h1, h2⟩
    refine ⟨?_, ?_⟩
    · intro a ha
      rcases h1 _ (optResult_ok ha) a rfl with h | ⟨e, he, hin⟩
      · cases h
      · exact ⟨e.2.2, mem_idNetsV0 he, hin⟩
    · intro w hw; exact h2 w (optResult_panic hw)

/-! ### the station entry point -/

theorem subnetsByVersion_all (D : Nat → Nat → Prop) (h : Hk) (seed : Bytes) (ver : Nat) (gc : GenCfg) :
    (subnetsByVersion h seed ver gc).All D (fun o => ∀ nets, o = .ok nets → ∀ n ∈ nets, FromCfg gc n) := by
  unfold subnetsByVersion
  split
  · exact getSubnetsVarint_all D gc seed
  · intro nets hn; exact getSubnetsHkdf_ok hn

theorem subnetsByVersion_no_panic (h : Hk) (seed : Bytes) (ver : Nat) (gc : GenCfg) :
    (subnetsByVersion h seed ver gc).All intnContract (fun o => ∀ w, o ≠ .panic w) := by
  unfold subnetsByVersion
  split
  · exact getSubnetsVarint_no_panic gc seed
  · intro w; exact getSubnetsHkdf_not_panic _ _ _ w

/-- whatever the generator returns: a result of `Select` lies in a subnet that is configured for the
generation, has the requested family, and carries that subnet's flag -/
theorem stationSelect_all (D : Nat → Nat → Prop) (h : Hk) (cfg : Cfg) (seed : Bytes) (gen ver : Nat) (v6 : Bool) :
    (stationSelect h cfg seed gen ver v6).All D (fun o => ∀ a, o = .ok a →
      ∃ gc, cfg.lookup gen = some gc ∧ ∃ n, FromCfg gc n ∧ n.v4 = (!v6) ∧ InNet n a) := by
  unfold stationSelect
  split
  · intro a ha; cases ha
  · rename_i gc hgc
    rw [Prog.bind_eq]
    apply Prog.All_bind
    apply Prog.All_mono _ (subnetsByVersion_all D h seed ver gc)
    intro o ho
    cases o with
    | ok nets =>
      have fin : ∀ a, (∃ n ∈ famFilter v6 nets, InNet n a) →
          ∃ gc, cfg.lookup gen = some gc ∧ ∃ n, FromCfg gc n ∧ n.v4 = (!v6) ∧ InNet n a := by
        rintro a ⟨n, hn, hin⟩
        obtain ⟨hmem, hfam⟩ := mem_famFilter hn
        exact ⟨gc, hgc, n, ho nets rfl n hmem, hfam, hin⟩
      simp only
      split
      · apply Prog.All_mono _ (selectV0_all D seed _)
        intro o' ⟨h1, _⟩ a ha; exact fin a (h1 a ha)
      · split
        · apply Prog.All_mono _ (selectVarint_all D seed _)
          intro o' ⟨h1, _⟩ a ha; exact fin a (h1 a ha)
        · intro a ha; exact fin a (selectHkdf_ok ha)
    | err e => intro a ha; cases ha
    | panic w => intro a ha; cases ha

theorem stationSelect_no_panic (h : Hk) (cfg : Cfg) (seed : Bytes) (gen ver : Nat) (v6 : Bool) :
    (stationSelect h cfg seed gen ver v6).All intnContract (fun o => ∀ w, o ≠ .panic w) := by
  unfold stationSelect
  split
  · intro w; simp
  · rw [Prog.bind_eq]
    apply Prog.All_bind
    apply Prog.All_mono _ (subnetsByVersion_no_panic h seed ver _)
    intro o ho
    cases o with
    | ok nets =>
      simp only
      split
      · apply Prog.All_mono _ (selectV0_all intnContract seed _)
        intro o' ⟨_, h2⟩; exact h2
      · split
        · apply Prog.All_mono _ (selectVarint_all intnContract seed _)
          intro o' ⟨_, h2⟩; exact h2
        · intro w; exact selectHkdf_not_panic _ _ _ w
    | err e => intro w; simp
    | panic w => exact absurd rfl (ho w)

/-! ### no hidden state: the first generator instruction of a selection is a `seed` -/

/-- the program does not draw before it has seeded -/
def Prog.Seeded {α : Type} : Prog α → Prop
  | .intn _ _ => False
  | .read _ _ => False
  | _ => True

theorem Prog.Seeded_run {α : Type} {p : Prog α} (h : p.Seeded) (R : Rng) (g g' : R.G) :
    (p.run R g).1 = (p.run R g').1 := by
  cases p with
  | done a => rfl
  | seed s k => rfl
  | intn n k => exact absurd h (by simp [Prog.Seeded])
  | read n k => exact absurd h (by simp [Prog.Seeded])

theorem Prog.Seeded_bind {α β : Type} {p : Prog α} {f : α → Prog β} (hp : p.Seeded)
    (hf : ∀ a, (f a).Seeded) : (p.bind f).Seeded := by
  cases p with
  | done a => exact hf a
  | seed s k => trivial
  | intn n k => exact absurd hp (by simp [Prog.Seeded])
  | read n k => exact absurd hp (by simp [Prog.Seeded])

theorem getSubnetsVarint_seeded (c : GenCfg) (seed : Bytes) : (getSubnetsVarint c seed).Seeded := by
  unfold getSubnetsVarint
  simp only
  split
  · trivial
  · split <;> trivial

theorem selectAddrFromSubnet_seeded (seed : Bytes) (n : RawNet) : (selectAddrFromSubnet seed n).Seeded := by
  unfold selectAddrFromSubnet
  simp only
  split <;> trivial

theorem findLegacy_seeded (strict : Bool) (seed : Bytes) (l : List (Nat × Nat × Net)) (id : Nat)
    (r : Option Addr) : (findLegacy strict seed l id r).Seeded := by
  induction l generalizing r with
  | nil => trivial
  | cons e rest ih =>
    obtain ⟨mn, mx, n⟩ := e
    simp only [findLegacy]
    split
    · rw [Prog.bind_eq]
      apply Prog.Seeded_bind (selectAddrFromSubnet_seeded _ _)
      intro o
      cases o with
      | ok b => exact ih _
      | err e => trivial
      | panic w => trivial
    · exact ih _

theorem selectVarint_seeded (seed : Bytes) (nets : List Net) : (selectVarint seed nets).Seeded := by
  unfold selectVarint
  simp only
  split
  · trivial
  · rw [Prog.bind_eq]
    exact Prog.Seeded_bind (findLegacy_seeded ..) (fun _ => trivial)

theorem selectV0_seeded (seed : Bytes) (nets : List Net) : (selectV0 seed nets).Seeded := by
  unfold selectV0
  simp only
  split
  · trivial
  · rw [Prog.bind_eq]
    exact Prog.Seeded_bind (findLegacy_seeded ..) (fun _ => trivial)

theorem stationSelect_seeded (h : Hk) (cfg : Cfg) (seed : Bytes) (gen ver : Nat) (v6 : Bool) :
    (stationSelect h cfg seed gen ver v6).Seeded := by
  unfold stationSelect
  split
  · trivial
  · rw [Prog.bind_eq]
    apply Prog.Seeded_bind
    · unfold subnetsByVersion
      split
      · exact getSubnetsVarint_seeded ..
      · trivial
    · intro o
      cases o with
      | ok nets =>
        simp only
        split
        · exact selectV0_seeded ..
        · split
          · exact selectVarint_seeded ..
          · trivial
      | err e => trivial
      | panic w => trivial

/-! ### interleavings -/

namespace Conc

theorem run_step {α : Type} (R : Rng) (p : Prog α) (g : R.G) :
    ((step R p g).1.run R (step R p g).2).1 = (p.run R g).1 := by
  cases p <;> rfl

theorem map_modifyAt {β γ : Type} (F : β → γ) (f : β → β) (hf : ∀ x, F (f x) = F x) (l : List β) (i : Nat) :
    (modifyAt f l i).map F = l.map F := by
  induction l generalizing i with
  | nil => rfl
  | cons x xs ih =>
    cases i with
    | zero => simp [modifyAt, hf]
    | succ j => simp [modifyAt, ih]

/-- a step of any thread leaves every thread's eventual (solo) result unchanged -/
theorem solo_stepLocal {α : Type} (R : Rng) (ts : List (LThread R α)) (i : Nat) :
    (stepLocal R ts i).map (solo R) = ts.map (solo R) := by
  unfold stepLocal
  apply map_modifyAt
  intro t
  exact run_step R t.1 t.2

theorem solo_execLocal {α : Type} (R : Rng) (ts : List (LThread R α)) (sched : List Nat) :
    (execLocal R ts sched).map (solo R) = ts.map (solo R) := by
  unfold execLocal
  induction sched generalizing ts with
  | nil => rfl
  | cons i rest ih =>
    rw [List.foldl_cons, ih, solo_stepLocal]

theorem solo_of_result {α : Type} (R : Rng) (t : LThread R α) (a : α) (h : result t.1 = some a) :
    solo R t = a := by
  obtain ⟨p, g⟩ := t
  cases p <;> simp [result] at h
  subst h; rfl

end Conc

end CJ.Phantom
