import CJ.Model.ZmqMerge
/-! Invariants of the ZMQ front model (`CJ.ZmqMerge`). -/
namespace CJ.ZmqMerge

@[simp] theorem upd_same {α : Type} (f : Nat → α) (i : Nat) (v : α) : upd f i v i = v := by simp [upd]
theorem upd_other {α : Type} (f : Nat → α) (i j : Nat) (v : α) (h : j ≠ i) : upd f i v j = f j := by simp [upd, h]

theorem run_append (s : St) (a b : List Act) : run s (a ++ b) = run (run s a) b := by simp [run]
theorem run_cons (s : St) (a : Act) (as : List Act) : run s (a :: as) = run (step s a) as := rfl

/-- the per-source conservation law -/
def Inv (s : St) : Prop := ∀ i, outOf s i ++ (s.hand i).toList ++ s.queue i = s.hist i

theorem inv_init : Inv init := by intro i; simp [init, outOf]

theorem inv_step (s : St) (a : Act) (h : Inv s) : Inv (step s a) := by
  intro j
  have hj := h j
  cases a with
  | arrive i f =>
    by_cases e : j = i
    · subst e; simp [step, outOf] at hj ⊢; rw [← hj]; simp
    · simpa [step, outOf, upd_other _ _ _ _ e] using hj
  | read i =>
    simp only [step]
    split
    · rename_i f q hh hq
      by_cases e : j = i
      · subst e; simp [outOf, hh, hq] at hj ⊢; exact hj
      · simpa [outOf, upd_other _ _ _ _ e] using hj
    · exact hj
  | forward i =>
    simp only [step]
    split
    · rename_i f hh
      by_cases e : j = i
      · subst e; simp [outOf, hh, List.filter_append] at hj ⊢; exact hj
      · have e' : ¬ i = j := fun x => e x.symm
        simpa [outOf, upd_other _ _ _ _ e, List.filter_append, e'] using hj
    · exact hj

theorem inv_run (s : St) (as : List Act) (h : Inv s) : Inv (run s as) := by
  induction as generalizing s with
  | nil => exact h
  | cons a as ih => exact ih _ (inv_step s a h)

/-- output length = number of successful forwards -/
def fwdCount (s : St) : List Act → Nat
  | [] => 0
  | a :: as => (match a with
      | .forward i => if (s.hand i).isSome then 1 else 0
      | _ => 0) + fwdCount (step s a) as

theorem out_length_run (s : St) (as : List Act) : (run s as).out.length = s.out.length + fwdCount s as := by
  induction as generalizing s with
  | nil => simp [run, fwdCount]
  | cons a as ih =>
    cases a with
    | arrive i f => rw [run_cons, ih]; simp [fwdCount, step]
    | read i => rw [run_cons, ih]; simp only [fwdCount, step]; split <;> simp
    | forward i =>
      rw [run_cons, ih]; simp only [fwdCount]
      cases hh : s.hand i with
      | none => simp [step, hh]
      | some f => simp [step, hh]; omega

/-! draining one source -/
theorem drainSrc_spec (i : Nat) : ∀ (k : Nat) (s : St), (s.queue i).length = k →
    (run s (drainSrc i k)).queue i = [] ∧ (run s (drainSrc i k)).hand i = none ∧
    ∀ j, j ≠ i → (run s (drainSrc i k)).queue j = s.queue j ∧ (run s (drainSrc i k)).hand j = s.hand j := by
  intro k
  induction k with
  | zero =>
    intro s hk
    have hq : s.queue i = [] := List.eq_nil_of_length_eq_zero hk
    simp only [drainSrc, run, List.foldl, step]
    split
    · exact ⟨hq, by simp, fun j e => ⟨rfl, upd_other _ _ _ _ e⟩⟩
    · rename_i hh; exact ⟨hq, hh, fun j _ => ⟨rfl, rfl⟩⟩
  | succ k ih =>
    intro s hk
    -- after `forward i` the hand is empty and the queue is untouched
    obtain ⟨s1, hs1, hq1, hh1, ho1⟩ : ∃ s1, s1 = step s (.forward i) ∧ s1.queue = s.queue ∧ s1.hand i = none ∧
        ∀ j, j ≠ i → s1.hand j = s.hand j := by
      refine ⟨_, rfl, ?_, ?_, ?_⟩
      · simp only [step]; split <;> rfl
      · simp only [step]; split
        · simp
        · rename_i hh; exact hh
      · intro j e; simp only [step]; split
        · exact upd_other _ _ _ _ e
        · rfl
    match hq : s.queue i with
    | [] => simp [hq] at hk
    | f :: q =>
      have hq1' : s1.queue i = f :: q := by rw [hq1]; exact hq
      obtain ⟨s2, hs2, hq2, ho2⟩ : ∃ s2, s2 = step s1 (.read i) ∧ s2.queue i = q ∧
          ∀ j, j ≠ i → s2.queue j = s1.queue j ∧ s2.hand j = s1.hand j := by
        refine ⟨_, rfl, ?_, ?_⟩
        · simp [step, hh1, hq1']
        · intro j e; simp [step, hh1, hq1', upd_other _ _ _ _ e]
      have hlen : (s2.queue i).length = k := by rw [hq2]; simp [hq] at hk; exact hk
      have := ih s2 hlen
      have hrun : run s (drainSrc i (k + 1)) = run s2 (drainSrc i k) := by
        simp only [drainSrc, run_cons]; rw [← hs1, ← hs2]
      rw [hrun]
      refine ⟨this.1, this.2.1, fun j e => ?_⟩
      have t := this.2.2 j e
      have a2 := ho2 j e
      exact ⟨by rw [t.1, a2.1, hq1], by rw [t.2, a2.2, ho1 j e]⟩

theorem drainAll_spec (s : St) : ∀ n,
    (∀ i, i < n → (run s (drainAll s n)).queue i = [] ∧ (run s (drainAll s n)).hand i = none) ∧
    (∀ j, n ≤ j → (run s (drainAll s n)).queue j = s.queue j ∧ (run s (drainAll s n)).hand j = s.hand j) := by
  intro n
  induction n with
  | zero => exact ⟨fun i h => absurd h (Nat.not_lt_zero _), fun j _ => ⟨rfl, rfl⟩⟩
  | succ k ih =>
    simp only [drainAll, run_append]
    have hk := (ih.2 k (Nat.le_refl _)).1
    have sp := drainSrc_spec k (s.queue k).length (run s (drainAll s k)) (by rw [hk])
    refine ⟨fun i hi => ?_, fun j hj => ?_⟩
    · by_cases e : i = k
      · subst e; exact ⟨sp.1, sp.2.1⟩
      · have t := sp.2.2 i e
        have u := ih.1 i (by omega)
        exact ⟨by rw [t.1]; exact u.1, by rw [t.2]; exact u.2⟩
    · have e : j ≠ k := by omega
      have t := sp.2.2 j e
      have u := ih.2 j (by omega)
      exact ⟨by rw [t.1]; exact u.1, by rw [t.2]; exact u.2⟩

theorem drainSrc_length (i k : Nat) : (drainSrc i k).length = 2 * k + 1 := by
  induction k with
  | zero => rfl
  | succ k ih => simp [drainSrc, ih]; omega

/-! ### the receive loop -/

theorem rrun_append (s : Run) (a b : List RAct) : rrun s (a ++ b) = rrun (rrun s a) b := by simp [rrun]
theorem rrun_cons (s : Run) (a : RAct) (as : List RAct) : rrun s (a :: as) = rrun (rstep s a) as := rfl

structure RInv (s : Run) : Prop where
  msgs : s.zmqMessages = (sinceReset s.log).countP isGot
  drops : s.dropped = (sinceReset s.log).countP isDrop
  total : s.totalDropped = s.log.countP isDrop
  totalLen : s.totalDropped = s.droppedFrames.length
  room : s.chan.length ≤ s.cap
  count : ∀ f, s.recvd.count f = (s.taken ++ s.chan).count f + s.droppedFrames.count f + s.lostFrames.count f
  order : List.Sublist (s.taken ++ s.chan) s.recvd
  lost1 : s.lostFrames.length ≤ 1
  lostRet : s.lostFrames.length = 1 ↔ s.returned = true
  retCancelled : s.returned = true → s.cancelled = true

theorem rinv_init (c : Nat) : RInv (initRun c) := by
  constructor <;> simp [initRun, sinceReset]

theorem rinv_step (s : Run) (a : RAct) (h : RInv s) : RInv (rstep s a) := by
  cases a with
  | recv f pd =>
    simp only [rstep]
    by_cases hr : s.returned = true
    · simp [hr]; exact h
    · have hr' : s.returned = false := by simpa using hr
      have hl0 : s.lostFrames.length = 0 := by
        have := h.lost1; have := h.lostRet
        rcases Nat.lt_or_ge s.lostFrames.length 1 with x | x
        · omega
        · have : s.lostFrames.length = 1 := by omega
          simp_all
      have hl : s.lostFrames = [] := List.eq_nil_of_length_eq_zero hl0
      simp only [hr', Bool.false_eq_true, if_false]
      split
      · rename_i hc
        have hcan : s.cancelled = true := by simp at hc; exact hc.1
        constructor <;> simp [sinceReset, List.takeWhile, notReset, isGot, isDrop, List.countP_cons, hl, hcan]
        · exact h.msgs
        · exact h.drops
        · exact h.total
        · exact h.totalLen
        · exact h.room
        · intro g; have := h.count g; simp [hl, List.count_append] at this ⊢; omega
        · exact List.Sublist.trans h.order (List.sublist_append_left _ _)
      · split
        · rename_i hc hroom
          constructor <;> simp [sinceReset, List.takeWhile, notReset, isGot, isDrop, List.countP_cons, hl, hr']
          · exact h.msgs
          · exact h.drops
          · exact h.total
          · exact h.totalLen
          · have hroom' : s.chan.length < s.cap := by simpa using hroom
            omega
          · intro g; have := h.count g; simp [hl, List.count_append] at this ⊢; omega
          · have := List.Sublist.append h.order (List.Sublist.refl [f]); simpa [List.append_assoc] using this
        · rename_i hc hroom
          constructor <;> simp [sinceReset, List.takeWhile, notReset, isGot, isDrop, List.countP_cons, hl, hr']
          · exact h.msgs
          · exact h.drops
          · exact h.total
          · exact h.totalLen
          · exact h.room
          · intro g; have := h.count g; simp [hl, List.count_append] at this ⊢; omega
          · exact List.Sublist.trans h.order (List.sublist_append_left _ _)
  | take =>
    simp only [rstep]
    split
    · rename_i f rest hc
      have hh := h
      constructor
      · exact h.msgs
      · exact h.drops
      · exact h.total
      · exact h.totalLen
      · have := h.room; simp [hc] at this ⊢; omega
      · intro g; have := h.count g; simpa [hc, List.count_append, List.count_cons, Nat.add_assoc] using this
      · have := h.order; simpa [hc] using this
      · exact h.lost1
      · exact h.lostRet
      · exact h.retCancelled
    · exact h
  | cancel =>
    constructor
    · exact h.msgs
    · exact h.drops
    · exact h.total
    · exact h.totalLen
    · exact h.room
    · exact h.count
    · exact h.order
    · exact h.lost1
    · exact h.lostRet
    · intro _; rfl
  | reset =>
    constructor
    · simp [rstep, sinceReset, List.takeWhile, notReset]
    · simp [rstep, sinceReset, List.takeWhile, notReset]
    · simp [rstep, List.countP_cons, isDrop]; exact h.total
    · exact h.totalLen
    · exact h.room
    · exact h.count
    · exact h.order
    · exact h.lost1
    · exact h.lostRet
    · exact h.retCancelled

theorem rinv_run (s : Run) (as : List RAct) (h : RInv s) : RInv (rrun s as) := by
  induction as generalizing s with
  | nil => exact h
  | cons a as ih => exact ih _ (rinv_step s a h)

theorem returned_of_nonrecv (s : Run) (a : RAct) (h : isRecv a = false) : (rstep s a).returned = s.returned := by
  cases a with
  | recv f pd => simp [isRecv] at h
  | take => simp only [rstep]; split <;> rfl
  | cancel => rfl
  | reset => rfl

theorem returned_of_nonrecv_run (s : Run) (as : List RAct) (h : ∀ a ∈ as, isRecv a = false) :
    (rrun s as).returned = s.returned := by
  induction as generalizing s with
  | nil => rfl
  | cons a as ih =>
    rw [rrun_cons, ih _ (fun b hb => h b (List.mem_cons_of_mem _ hb)), returned_of_nonrecv _ _ (h a (List.mem_cons_self ..))]

end CJ.ZmqMerge
