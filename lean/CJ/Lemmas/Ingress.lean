import CJ.Model.Ingress
import CJ.Lemmas.CodecDNS
/-! Helper lemmas for C11: `Safe` (no panic, no hang) composes, the DNS message reader is safe, the
length guards of the wrapping transports protect every slice. Core Lean only. -/
namespace CJ.Codec

theorem Outcome.Safe.ok {α} (a : α) : (Outcome.ok a).Safe := by simp [Outcome.Safe]
theorem Outcome.Safe.err {α} (e : Err) : (Outcome.err e : Outcome α).Safe := by simp [Outcome.Safe]

theorem Outcome.Safe.bind {α β} {o : Outcome α} {f : α → Outcome β} (ho : o.Safe) (hf : ∀ a, (f a).Safe) :
    (o.bind f).Safe := by
  cases o with
  | ok a => exact hf a
  | err e => simp [Outcome.bind, Outcome.Safe]
  | panic s => exact absurd rfl (ho.1 s)
  | hang => exact absurd rfl ho.2

theorem slice_safe_of {p : Bytes} {lo hi : Nat} (h1 : lo ≤ hi) (h2 : hi ≤ p.length) : (slice p lo hi).Safe := by
  rw [slice_eq h1 h2]; exact .ok _

theorem readU16_safe (buf : Bytes) (pos : Nat) : (readU16 buf pos).Safe := by
  unfold readU16; split <;> simp [Outcome.Safe]

theorem readU32_safe (buf : Bytes) (pos : Nat) : (readU32 buf pos).Safe := by
  unfold readU32; split <;> simp [Outcome.Safe]

theorem readQuestion_safe (buf : Bytes) (pos : Nat) : (readQuestion buf pos).Safe := by
  unfold readQuestion
  refine (readName_safe buf pos).bind fun ⟨n, p1⟩ => ?_
  refine (readU16_safe buf p1).bind fun ⟨t, p2⟩ => ?_
  refine (readU16_safe buf p2).bind fun ⟨c, p3⟩ => ?_
  exact .ok _

theorem readRR_safe (buf : Bytes) (pos : Nat) : (readRR buf pos).Safe := by
  unfold readRR
  refine (readName_safe buf pos).bind fun ⟨n, p1⟩ => ?_
  refine (readU16_safe buf p1).bind fun ⟨t, p2⟩ => ?_
  refine (readU16_safe buf p2).bind fun ⟨c, p3⟩ => ?_
  refine (readU32_safe buf p3).bind fun ⟨ttl, p4⟩ => ?_
  refine (readU16_safe buf p4).bind fun ⟨rdlen, p5⟩ => ?_
  simp only
  split
  · exact .ok _
  · exact .err _

theorem readQuestions_safe (buf : Bytes) : ∀ k pos, (readQuestions buf k pos).Safe := by
  intro k
  induction k with
  | zero => intro pos; exact .ok _
  | succ k ih =>
    intro pos
    unfold readQuestions
    refine (readQuestion_safe buf pos).bind fun ⟨q, p1⟩ => ?_
    refine (ih p1).bind fun ⟨qs, p2⟩ => ?_
    exact .ok _

theorem readRRs_safe (buf : Bytes) : ∀ k pos, (readRRs buf k pos).Safe := by
  intro k
  induction k with
  | zero => intro pos; exact .ok _
  | succ k ih =>
    intro pos
    unfold readRRs
    refine (readRR_safe buf pos).bind fun ⟨r, p1⟩ => ?_
    refine (ih p1).bind fun ⟨rs, p2⟩ => ?_
    exact .ok _

theorem readMessage_safe (buf : Bytes) : (readMessage buf).Safe := by
  unfold readMessage
  refine (readU16_safe buf 0).bind fun ⟨id, p1⟩ => ?_
  refine (readU16_safe buf p1).bind fun ⟨fl, p2⟩ => ?_
  refine (readU16_safe buf p2).bind fun ⟨qd, p3⟩ => ?_
  refine (readU16_safe buf p3).bind fun ⟨an, p4⟩ => ?_
  refine (readU16_safe buf p4).bind fun ⟨ns, p5⟩ => ?_
  refine (readU16_safe buf p5).bind fun ⟨ar, p6⟩ => ?_
  refine (readQuestions_safe buf _ p6).bind fun ⟨qs, p7⟩ => ?_
  refine (readRRs_safe buf _ p7).bind fun ⟨a, p8⟩ => ?_
  refine (readRRs_safe buf _ p8).bind fun ⟨b, p9⟩ => ?_
  refine (readRRs_safe buf _ p9).bind fun ⟨c, p10⟩ => ?_
  exact .ok _

theorem messageFromWireFormat_safe (buf : Bytes) : (messageFromWireFormat buf).Safe := by
  unfold messageFromWireFormat
  refine (readMessage_safe buf).bind fun ⟨m, p⟩ => ?_
  simp only
  split
  · exact .err _
  · exact .ok _

end CJ.Codec

namespace CJ.Ingress
open CJ.Codec

theorem wrapMin_safe (data : Bytes) (registered : Bytes → Bool) : (wrapMin data registered).Safe := by
  unfold wrapMin
  split
  · exact .ok _
  · rename_i h
    refine (slice_safe_of (by omega) (by omega)).bind fun id => ?_
    split <;> exact .ok _

theorem tryPrefix_safe (p : PrefixSpec) (hwf : p.wf = true) (data : Bytes) (getReg : Bytes → Option RegView)
    (ta ew : Bool) : (tryPrefix data getReg p ta ew).Safe := by
  unfold tryPrefix
  simp only
  have hstatic : (if p.staticMatch.length > 0 then
      (slice p.staticMatch 0 (min p.staticMatch.length data.length)).bind fun a =>
        (slice data 0 (min p.staticMatch.length data.length)).bind fun b => Outcome.ok (a == b)
      else Outcome.ok true).Safe := by
    split
    · refine (slice_safe_of (by omega) (by omega)).bind fun a => ?_
      refine (slice_safe_of (by omega) (by omega)).bind fun b => ?_
      exact .ok _
    · exact .ok _
  refine hstatic.bind fun matched => ?_
  split
  · exact .ok _
  · split
    · exact .ok _
    · split
      · exact .ok _
      · split
        · exact .ok _
        · rename_i h1 h2 h3
          have hw : p.offset + prefixTagLength ≤ max p.minLen p.maxLen := by simpa [PrefixSpec.wf] using hwf
          refine (slice_safe_of (by omega) (by omega)).bind fun tag => ?_
          split
          · exact .ok _
          · exact .ok _
          · exact .ok _
          · split <;> exact .ok _
          · exact .ok _

theorem tryFindRegLoop_safe (data : Bytes) (getReg : Bytes → Option RegView) :
    ∀ (table : List PrefixSpec), (∀ p ∈ table, p.wf = true) → ∀ ta ew, (tryFindRegLoop data getReg table ta ew).Safe := by
  intro table
  induction table with
  | nil =>
    intro _ ta ew
    unfold tryFindRegLoop
    split
    · exact .ok _
    · split <;> exact .ok _
  | cons p ps ih =>
    intro hwf ta ew
    unfold tryFindRegLoop
    refine (tryPrefix_safe p (hwf p (by simp)) data getReg ta ew).bind fun ⟨r, ta', ew'⟩ => ?_
    cases r with
    | some v => exact .ok _
    | none => exact ih (fun q hq => hwf q (by simp [hq])) ta' ew'

theorem wrapPrefix_safe (table : List PrefixSpec) (hwf : ∀ p ∈ table, p.wf = true) (data : Bytes)
    (getReg : Bytes → Option RegView) : (wrapPrefix table data getReg).Safe := by
  unfold wrapPrefix
  split
  · exact .ok _
  · split
    · exact .ok _
    · exact tryFindRegLoop_safe data getReg table hwf false false

theorem findMarkMac_safe (c : Obfs4Consts) (buf : Bytes) (startPos maxPos : Nat) (markAt : Bytes → Bool) :
    (findMarkMac c c.markLength buf startPos maxPos markAt).Safe := by
  unfold findMarkMac
  simp only [ne_eq, not_true_eq_false, if_false]
  split
  · exact .ok _
  · split
    · exact .ok _
    · rename_i h1 h2
      refine (slice_safe_of (by omega) (by omega)).bind fun m => ?_
      split <;> exact .ok _

theorem wrapObfs4Loop_safe (c : Obfs4Consts) (data : Bytes) :
    ∀ regs : List (Bytes → Bool), (wrapObfs4Loop c data regs).Safe := by
  intro regs
  induction regs with
  | nil => unfold wrapObfs4Loop; split <;> exact .ok _
  | cons m rest ih =>
    unfold wrapObfs4Loop
    refine (findMarkMac_safe c data _ _ m).bind fun r => ?_
    cases r with
    | some _ => exact .ok _
    | none => exact ih

theorem wrapObfs4_safe (c : Obfs4Consts) (hc : c.representativeLength ≤ c.clientMinHandshakeLength)
    (data : Bytes) (regs : List (Bytes → Bool)) : (wrapObfs4 c data regs).Safe := by
  unfold wrapObfs4
  split
  · exact .ok _
  · refine (slice_safe_of (by omega) (by omega)).bind fun _ => ?_
    exact wrapObfs4Loop_safe c data regs

end CJ.Ingress
