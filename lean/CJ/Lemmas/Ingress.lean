import CJ.Model.Ingress
import CJ.Lemmas.CodecDNS
/-! Helper lemmas for C11: `Safe` (no panic, no hang) composes, the DNS message reader is safe, the
length guards of the wrapping transports protect every slice. Core Lean only. -/
namespace CJ.Codec

theorem Outcome.Safe.ok {α} (a : α) : (Outcome.ok a).Safe := by simp [Outcome.Safe]
theorem Outcome.Safe.err {α} (e : Err) : (Outcome.err e : Outcome α).Safe := by simp [Outcome.Safe]

theorem Outcome.ok_bind {α β} (a : α) (f : α → Outcome β) : (Outcome.ok a).bind f = f a := rfl

theorem Outcome.Safe.bind {α β} {o : Outcome α} {f : α → Outcome β} (ho : o.Safe) (hf : ∀ a, (f a).Safe) :
    (o.bind f).Safe := by
  cases o with
  | ok a => exact hf a
  | err e => simp [Outcome.bind, Outcome.Safe]
  | panic s => exact absurd rfl (ho.1 s)
  | hang => exact absurd rfl ho.2

theorem slice_safe_of {p : Bytes} {lo hi : Nat} (h1 : lo ≤ hi) (h2 : hi ≤ p.length) : (slice p lo hi).Safe := by
  rw [slice_eq h1 h2]; exact .ok _

theorem readU16_safe (buf : Bytes) (pos : Nat) : (readU16 buf pos).Safe := by
  unfold readU16; split <;> simp [Outcome.Safe]

theorem readU32_safe (buf : Bytes) (pos : Nat) : (readU32 buf pos).Safe := by
  unfold readU32; split <;> simp [Outcome.Safe]

theorem readQuestion_safe (buf : Bytes) (pos : Nat) : (readQuestion buf pos).Safe := by
  unfold readQuestion
  refine (readName_safe buf pos).bind fun ⟨n, p1⟩ => ?_
  refine (readU16_safe buf p1).bind fun ⟨t, p2⟩ => ?_
  refine (readU16_safe buf p2).bind fun ⟨c, p3⟩ => ?_
  exact .ok _

theorem readRR_safe (buf : Bytes) (pos : Nat) : (readRR buf pos).Safe := by
  unfold readRR
  refine (readName_safe buf pos).bind fun ⟨n, p1⟩ => ?_
  refine (readU16_safe buf p1).bind fun ⟨t, p2⟩ => ?_
  refine (readU16_safe buf p2).bind fun ⟨c, p3⟩ => ?_
  refine (readU32_safe buf p3).bind fun ⟨ttl, p4⟩ => ?_
  refine (readU16_safe buf p4).bind fun ⟨rdlen, p5⟩ => ?_
  simp only
  split
  · exact .ok _
  · exact .err _

theorem readQuestions_safe (buf : Bytes) : ∀ k pos, (readQuestions buf k pos).Safe := by
  intro k
  induction k with
  | zero => intro pos; exact .ok _
  | succ k ih =>
    intro pos
    unfold readQuestions
    refine (readQuestion_safe buf pos).bind fun ⟨q, p1⟩ => ?_
    refine (ih p1).bind fun ⟨qs, p2⟩ => ?_
    exact .ok _

theorem readRRs_safe (buf : Bytes) : ∀ k pos, (readRRs buf k pos).Safe := by
  intro k
  induction k with
  | zero => intro pos; exact .ok _
  | succ k ih =>
    intro pos
    unfold readRRs
    refine (readRR_safe buf pos).bind fun ⟨r, p1⟩ => ?_
    refine (ih p1).bind fun ⟨rs, p2⟩ => ?_
    exact .ok _

theorem readMessage_safe (buf : Bytes) : (readMessage buf).Safe := by
  unfold readMessage
  refine (readU16_safe buf 0).bind fun ⟨id, p1⟩ => ?_
  refine (readU16_safe buf p1).bind fun ⟨fl, p2⟩ => ?_
  refine (readU16_safe buf p2).bind fun ⟨qd, p3⟩ => ?_
  refine (readU16_safe buf p3).bind fun ⟨an, p4⟩ => ?_
  refine (readU16_safe buf p4).bind fun ⟨ns, p5⟩ => ?_
  refine (readU16_safe buf p5).bind fun ⟨ar, p6⟩ => ?_
  refine (readQuestions_safe buf _ p6).bind fun ⟨qs, p7⟩ => ?_
  refine (readRRs_safe buf _ p7).bind fun ⟨a, p8⟩ => ?_
  refine (readRRs_safe buf _ p8).bind fun ⟨b, p9⟩ => ?_
  refine (readRRs_safe buf _ p9).bind fun ⟨c, p10⟩ => ?_
  exact .ok _

theorem messageFromWireFormat_safe (buf : Bytes) : (messageFromWireFormat buf).Safe := by
  unfold messageFromWireFormat
  refine (readMessage_safe buf).bind fun ⟨m, p⟩ => ?_
  simp only
  split
  · exact .err _
  · exact .ok _

end CJ.Codec

namespace CJ.Ingress
open CJ.Codec

theorem wrapMin_safe (data : Bytes) (registered : Bytes → Bool) : (wrapMin data registered).Safe := by
  unfold wrapMin
  split
  · exact .ok _
  · rename_i h
    refine (slice_safe_of (by omega) (by omega)).bind fun id => ?_
    split <;> exact .ok _

theorem tryPrefix_safe (p : PrefixSpec) (hwf : p.wf = true) (data : Bytes) (getReg : Bytes → Option RegView)
    (ta ew : Bool) : (tryPrefix data getReg p ta ew).Safe := by
  unfold tryPrefix
  simp only
  have hstatic : (if p.staticMatch.length > 0 then
      (slice p.staticMatch 0 (min p.staticMatch.length data.length)).bind fun a =>
        (slice data 0 (min p.staticMatch.length data.length)).bind fun b => Outcome.ok (a == b)
      else Outcome.ok true).Safe := by
    split
    · refine (slice_safe_of (by omega) (by omega)).bind fun a => ?_
      refine (slice_safe_of (by omega) (by omega)).bind fun b => ?_
      exact .ok _
    · exact .ok _
  refine hstatic.bind fun matched => ?_
  split
  · exact .ok _
  · split
    · exact .ok _
    · split
      · exact .ok _
      · split
        · exact .ok _
        · rename_i h1 h2 h3
          have hw : p.offset + prefixTagLength ≤ max p.minLen p.maxLen := by simpa [PrefixSpec.wf] using hwf
          refine (slice_safe_of (by omega) (by omega)).bind fun tag => ?_
          split
          · exact .ok _
          · exact .ok _
          · exact .ok _
          · split <;> exact .ok _
          · exact .ok _

theorem tryFindRegLoop_safe (data : Bytes) (getReg : Bytes → Option RegView) :
    ∀ (table : List PrefixSpec), (∀ p ∈ table, p.wf = true) → ∀ ta ew, (tryFindRegLoop data getReg table ta ew).Safe := by
  intro table
  induction table with
  | nil =>
    intro _ ta ew
    unfold tryFindRegLoop
    split
    · exact .ok _
    · split <;> exact .ok _
  | cons p ps ih =>
    intro hwf ta ew
    unfold tryFindRegLoop
    refine (tryPrefix_safe p (hwf p (by simp)) data getReg ta ew).bind fun ⟨r, ta', ew'⟩ => ?_
    cases r with
    | some v => exact .ok _
    | none => exact ih (fun q hq => hwf q (by simp [hq])) ta' ew'

theorem wrapPrefix_safe (table : List PrefixSpec) (hwf : ∀ p ∈ table, p.wf = true) (data : Bytes)
    (getReg : Bytes → Option RegView) : (wrapPrefix table data getReg).Safe := by
  unfold wrapPrefix
  split
  · exact .ok _
  · split
    · exact .ok _
    · exact tryFindRegLoop_safe data getReg table hwf false false

theorem findMarkMac_safe (c : Obfs4Consts) (buf : Bytes) (startPos maxPos : Nat) (markAt : Bytes → Bool) :
    (findMarkMac c c.markLength buf startPos maxPos markAt).Safe := by
  unfold findMarkMac
  simp only [ne_eq, not_true_eq_false, if_false]
  split
  · exact .ok _
  · split
    · exact .ok _
    · rename_i h1 h2
      refine (slice_safe_of (by omega) (by omega)).bind fun m => ?_
      split <;> exact .ok _

theorem wrapObfs4Loop_safe (c : Obfs4Consts) (data : Bytes) :
    ∀ regs : List (Bytes → Bool), (wrapObfs4Loop c data regs).Safe := by
  intro regs
  induction regs with
  | nil => unfold wrapObfs4Loop; split <;> exact .ok _
  | cons m rest ih =>
    unfold wrapObfs4Loop
    refine (findMarkMac_safe c data _ _ m).bind fun r => ?_
    cases r with
    | some _ => exact .ok _
    | none => exact ih

theorem wrapObfs4_safe (c : Obfs4Consts) (hc : c.representativeLength ≤ c.clientMinHandshakeLength)
    (data : Bytes) (regs : List (Bytes → Bool)) : (wrapObfs4 c data regs).Safe := by
  unfold wrapObfs4
  split
  · exact .ok _
  · refine (slice_safe_of (by omega) (by omega)).bind fun _ => ?_
    exact wrapObfs4Loop_safe c data regs

/-! ## `getRemoteAddr`: indexing, `strings.Split` -/

theorem indexAt_eq_ok {α : Type} {l : List α} {i : Int} (h0 : 0 ≤ i) (h1 : i < l.length) :
    ∃ a, indexAt l i = .ok a ∧ l[i.toNat]? = some a := by
  have hlt : i.toNat < l.length := by omega
  refine ⟨l[i.toNat], ?_, ?_⟩
  · unfold indexAt
    rw [if_neg (by omega), List.getElem?_eq_getElem hlt]
  · exact List.getElem?_eq_getElem hlt

theorem indexAt_mem {α : Type} {l : List α} {i : Int} {a : α} (h : indexAt l i = .ok a) : a ∈ l := by
  unfold indexAt at h
  split at h
  · cases h
  · split at h
    · rename_i b hb
      cases h
      exact List.mem_of_getElem? hb
    · cases h

theorem indexAt_panic_of_neg {α : Type} (l : List α) {i : Int} (h : i < 0) :
    indexAt l i = .panic "index out of range" := by
  unfold indexAt; rw [if_pos h]

theorem indexAt_panic_of_ge {α : Type} (l : List α) {i : Int} (h : (l.length : Int) ≤ i) :
    indexAt l i = .panic "index out of range" := by
  unfold indexAt
  split
  · rfl
  · rw [List.getElem?_eq_none (by omega)]

/-- indexing is exactly as partial as Go's: a result iff `0 ≤ i < len(l)` -/
theorem indexAt_safe_iff {α : Type} (l : List α) (i : Int) : (indexAt l i).Safe ↔ 0 ≤ i ∧ i < l.length := by
  constructor
  · intro hs
    by_cases h0 : i < 0
    · exact absurd (indexAt_panic_of_neg l h0) (hs.1 _)
    · by_cases h1 : (l.length : Int) ≤ i
      · exact absurd (indexAt_panic_of_ge l h1) (hs.1 _)
      · omega
  · intro ⟨h0, h1⟩
    obtain ⟨a, ha, _⟩ := indexAt_eq_ok h0 h1
    rw [ha]; exact .ok a

theorem splitOnAux_ne_nil (sep : UInt8) : ∀ (s cur : Bytes), splitOnAux sep s cur ≠ [] := by
  intro s
  induction s with
  | nil => intro cur; simp [splitOnAux]
  | cons b rest ih =>
    intro cur
    unfold splitOnAux
    split
    · simp
    · exact ih _

/-- `strings.Split` never returns the empty slice (for a non-empty separator) -/
theorem splitOn_ne_nil (sep : UInt8) (value : Bytes) : splitOn sep value ≠ [] :=
  splitOnAux_ne_nil sep value []

theorem splitOnAux_length (sep : UInt8) : ∀ (s cur : Bytes), (splitOnAux sep s cur).length = s.count sep + 1 := by
  intro s
  induction s with
  | nil => intro cur; simp [splitOnAux]
  | cons b rest ih =>
    intro cur
    unfold splitOnAux
    split
    · rename_i h; subst h; simp [ih]
    · rename_i h
      rw [ih, List.count_cons_of_ne (fun hh => h hh)]

/-- `n` separators give `n + 1` pieces -/
theorem splitOn_length (sep : UInt8) (value : Bytes) : (splitOn sep value).length = value.count sep + 1 :=
  splitOnAux_length sep value []

theorem splitOnAux_join (sep : UInt8) : ∀ (s cur : Bytes),
    [sep].intercalate (splitOnAux sep s cur) = cur.reverse ++ s := by
  intro s
  induction s with
  | nil => intro cur; simp [splitOnAux, List.intercalate]
  | cons b rest ih =>
    intro cur
    unfold splitOnAux
    split
    · rename_i h; subst h
      have hne := splitOnAux_ne_nil b rest []
      cases hs : splitOnAux b rest [] with
      | nil => exact absurd hs hne
      | cons p ps =>
        have := ih []
        rw [hs] at this
        simp only [List.intercalate, List.intersperse, List.flatten_cons] at this ⊢
        simp_all
    · rw [ih]; simp

/-- the pieces, joined by the separator, are the value again -/
theorem splitOn_join (sep : UInt8) (value : Bytes) : [sep].intercalate (splitOn sep value) = value := by
  simpa [splitOn] using splitOnAux_join sep value []

/-- the general statement: with a splitting function that never answers the empty slice, every index
expression of `getRemoteAddr` is in range, and the function returns (an address or nil) -/
theorem getRemoteAddrWith_ok (split : Bytes → List Bytes) (hsplit : ∀ v, split v ≠ []) (remote : Option String)
    (lb : Bool) (values : List Bytes) (parse : Bytes → Option String) :
    ∃ ip, getRemoteAddrWith split remote lb values parse = .ok ip := by
  unfold getRemoteAddrWith
  split
  · rename_i hv
    obtain ⟨value, hval, _⟩ := indexAt_eq_ok (l := values) (i := (values.length : Int) - 1) (by omega) (by omega)
    rw [hval, Outcome.ok_bind]
    simp only
    have hlen : 0 < (split value).length := List.length_pos_iff.mpr (hsplit value)
    obtain ⟨last, hlast, _⟩ :=
      indexAt_eq_ok (l := split value) (i := ((split value).length : Int) - 1) (by omega) (by omega)
    rw [hlast, Outcome.ok_bind]
    have hch : ∃ c, (if (split value).length > 1 ∧ lb = true then
        indexAt (split value) (((split value).length : Int) - 2) else Outcome.ok last) = .ok c := by
      split
      · rename_i h2
        obtain ⟨prev, hprev, _⟩ :=
          indexAt_eq_ok (l := split value) (i := ((split value).length : Int) - 2) (by omega) (by omega)
        exact ⟨prev, hprev⟩
      · exact ⟨_, rfl⟩
    obtain ⟨c, hc⟩ := hch
    rw [hc, Outcome.ok_bind]
    split <;> exact ⟨_, rfl⟩
  · exact ⟨_, rfl⟩

end CJ.Ingress
