import CJ.Model.ConnStats
/-!
# The statistics calls of `handleNewTCPConn` do not steer it

`handlerS` (the handler with its statistics calls, parametric in a total counting function) yields the
action trace of `handler` whatever the counting does, and the statistics afterwards are the fold of a
transition log that is a function of the run alone.
-/
namespace CJ.ConnStats
open CJ.ConnHandler

variable {T R σ : Type}

theorem discardS_fst (count : σ → Tr → σ) (evs : List Ev) (s : σ) :
    (discardS (T := T) (R := R) count evs s).1 = ConnHandler.discard evs := by
  induction evs generalizing s with
  | nil => rfl
  | cons e evs ih =>
    cases e with
    | data bs => simp only [discardS, ConnHandler.discard, ih]
    | eof => rfl
    | reset => rfl
    | deadline => rfl
    | otherErr => rfl

theorem loopS_fst (cls : T → Bytes → Verdict R) (sched : Nat → List T → List T) (count : σ → Tr → σ)
    (evs : List Ev) : ∀ (i : Nat) (ts : List T) (buf : Bytes) (s : σ),
      (loopS cls sched count i ts buf evs s).1 = loop cls sched i ts buf evs := by
  induction evs with
  | nil =>
    intro i ts buf s
    cases ts with
    | nil => simp only [loopS, loop, discardS_fst]
    | cons t ts => rfl
  | cons e evs ih =>
    intro i ts buf s
    cases ts with
    | nil => simp only [loopS, loop, discardS_fst]
    | cons t ts =>
      cases e with
      | eof => rfl
      | reset => rfl
      | deadline => rfl
      | otherErr => rfl
      | data c =>
        simp only [loopS, loop]
        cases h : (pass cls (buf ++ c) (sched i (t :: ts)) []).2 with
        | cont ts' => simp only [ih]
        | abort => rfl
        | found r k => rfl

theorem handlerS_fst (cls : T → Bytes → Verdict R) (sched : Nat → List T → List T) (count : σ → Tr → σ)
    (geo : Geo) (n : Nat) (ts : List T) (evs : List Ev) (s : σ) :
    (handlerS cls sched count geo n ts evs s).1 = handler cls sched geo n ts evs := by
  cases geo <;> try rfl
  simp only [handlerS, handler]
  by_cases h : n < 1
  · simp only [h, if_true, discardS_fst]
  · simp only [h, if_false, loopS_fst]

/-! ## the transition log -/

/-- counting into a log (oldest first) -/
def logCount (l : List Tr) (t : Tr) : List Tr := l ++ [t]

theorem discardS_snd (count : σ → Tr → σ) (evs : List Ev) (s : σ) (l : List Tr) :
    (discardS (T := T) (R := R) count evs (l.foldl count s)).2
      = ((discardS (T := T) (R := R) logCount evs l).2).foldl count s := by
  induction evs generalizing s l with
  | nil => simp [discardS, logCount, List.foldl_append]
  | cons e evs ih =>
    cases e with
    | data bs => simp only [discardS]; exact ih s l
    | eof => simp [discardS, logCount, List.foldl_append]
    | reset => simp [discardS, logCount, List.foldl_append]
    | deadline => simp [discardS, logCount, List.foldl_append]
    | otherErr => simp [discardS, logCount, List.foldl_append]

theorem foldl_logCount (count : σ → Tr → σ) (s : σ) (l : List Tr) (t : Tr) :
    count (l.foldl count s) t = (logCount l t).foldl count s := by
  simp [logCount, List.foldl_append]

theorem loopS_snd (cls : T → Bytes → Verdict R) (sched : Nat → List T → List T) (count : σ → Tr → σ)
    (evs : List Ev) : ∀ (i : Nat) (ts : List T) (buf : Bytes) (s : σ) (l : List Tr),
      (loopS cls sched count i ts buf evs (l.foldl count s)).2
        = ((loopS cls sched logCount i ts buf evs l).2).foldl count s := by
  induction evs with
  | nil =>
    intro i ts buf s l
    cases ts with
    | nil => simp only [loopS]; exact discardS_snd count [] s l
    | cons t ts => simp only [loopS, foldl_logCount]
  | cons e evs ih =>
    intro i ts buf s l
    cases ts with
    | nil => simp only [loopS]; exact discardS_snd count _ s l
    | cons t ts =>
      cases e with
      | eof => simp only [loopS, foldl_logCount]
      | reset => simp only [loopS, foldl_logCount]
      | deadline => simp only [loopS, foldl_logCount]
      | otherErr => simp only [loopS, foldl_logCount]
      | data c =>
        simp only [loopS]
        cases h : (pass cls (buf ++ c) (sched i (t :: ts)) []).2 with
        | cont ts' =>
          simp only [foldl_logCount]
          exact ih _ _ _ s _
        | abort => simp only [foldl_logCount]
        | found r k => simp only [foldl_logCount]

/-- the transitions a run counts, oldest first: a function of the run alone -/
def transitions (cls : T → Bytes → Verdict R) (sched : Nat → List T → List T)
    (geo : Geo) (n : Nat) (ts : List T) (evs : List Ev) : List Tr :=
  (handlerS cls sched logCount geo n ts evs []).2

theorem handlerS_snd (cls : T → Bytes → Verdict R) (sched : Nat → List T → List T) (count : σ → Tr → σ)
    (geo : Geo) (n : Nat) (ts : List T) (evs : List Ev) (s : σ) :
    (handlerS cls sched count geo n ts evs s).2 = (transitions cls sched geo n ts evs).foldl count s := by
  unfold transitions
  cases geo <;> try rfl
  simp only [handlerS]
  by_cases h : n < 1
  · simp only [h, if_true]
    have := discardS_snd (T := T) (R := R) count evs s [Tr.addCreated, Tr.createdToDiscard]
    simpa [logCount] using this
  · simp only [h, if_false]
    have := loopS_snd cls sched count evs 0 ts [] s [Tr.addCreated]
    simpa [logCount] using this

end CJ.ConnStats
