import CJ.Model.PipelineMsg
/-! Invariant and measure lemmas for the identity-carrying ingest pipeline (C09). -/
namespace CJ.PipelineMsg

/-- where a message can be once the distributor has taken it -/
def places (s : St) : List Msg := s.dropped ++ s.buf ++ s.hand ++ s.processed ++ s.rejected

structure Inv (n : Nat) (s : St) : Prop where
  bounded : s.buf.length ≤ s.cap
  pool : s.idle + s.hand.length + s.exited = n
  fifo : s.fwd = s.taken ++ s.buf
  fwdSub : s.fwd.Sublist s.recv
  dropSub : s.dropped.Sublist s.recv
  rc : s.recvCtr = s.recv.length
  dc : s.dropCtr = s.dropped.length
  cons : ∀ x, s.recv.count x = (places s).count x
  kindsP : ∀ m ∈ s.processed, m.kind = .valid
  kindsR : ∀ m ∈ s.rejected, m.kind = .bad
  exitedC : 0 < s.exited → s.cancelled = true
  distC : s.dist ≠ .loop → s.cancelled = true
  doneC : s.dist = .done → s.idle = 0 ∧ s.hand = []

theorem inv_init (cap n : Nat) : Inv n (init cap n) := by
  constructor <;> simp [init, places]

theorem count_erase_add {m : Msg} {l : List Msg} (h : m ∈ l) (x : Msg) :
    (l.erase m).count x + (if (m == x) = true then 1 else 0) = l.count x := by
  have hp : l.Perm (m :: l.erase m) := List.perm_cons_erase h
  have := hp.count_eq x
  rw [this, List.count_cons]

theorem length_erase_mem {m : Msg} {l : List Msg} (h : m ∈ l) : (l.erase m).length + 1 = l.length := by
  have := List.length_erase_of_mem h
  have hpos : 0 < l.length := List.length_pos_of_mem h
  omega

theorem inv_step {n : Nat} {s : St} (h : Inv n s) (a : Act) : Inv n (step s a) := by
  obtain ⟨hb, hp, hf, hfs, hds, hrc, hdc, hc, hkp, hkr, hex, hdi, hdo⟩ := h
  cases a with
  | cancel =>
    exact ⟨hb, hp, hf, hfs, hds, hrc, hdc, hc, hkp, hkr, fun _ => rfl, fun _ => rfl, hdo⟩
  | dist input =>
    unfold step
    cases hd : s.dist with
    | loop =>
      simp only
      by_cases hcn : s.cancelled = true
      · rw [if_pos hcn]
        exact ⟨hb, hp, hf, hfs, hds, hrc, hdc, hc, hkp, hkr, hex, fun _ => hcn, fun h' => by cases h'⟩
      · rw [if_neg hcn]
        cases input with
        | none =>
          simp only
          exact ⟨hb, hp, hf, hfs, hds, hrc, hdc, hc, hkp, hkr, hex, hdi, hdo⟩
        | some m =>
          simp only
          by_cases h1 : s.buf = [] ∧ 0 < s.idle
          · rw [if_pos h1]
            obtain ⟨hbe, hid⟩ := h1
            refine ⟨hb, ?_, ?_, ?_, ?_, ?_, hdc, ?_, hkp, hkr, hex, fun h' => by simp at h', fun h' => by simp at h'⟩
            · simp only [List.length_cons]; omega
            · simp [hf, hbe]
            · exact List.Sublist.append hfs (List.Sublist.refl _)
            · exact hds.trans (List.sublist_append_left _ _)
            · simp [hrc]
            · intro x
              have := hc x
              simp only [places, List.count_append, List.count_cons, List.count_nil] at this ⊢
              omega
          · rw [if_neg h1]
            by_cases h2 : s.buf.length < s.cap
            · rw [if_pos h2]
              refine ⟨?_, hp, ?_, ?_, ?_, ?_, hdc, ?_, hkp, hkr, hex, fun h' => by simp at h', fun h' => by simp at h'⟩
              · simp only [List.length_append, List.length_cons, List.length_nil]; omega
              · simp [hf]
              · exact List.Sublist.append hfs (List.Sublist.refl _)
              · exact hds.trans (List.sublist_append_left _ _)
              · simp [hrc]
              · intro x
                have := hc x
                simp only [places, List.count_append, List.count_cons, List.count_nil] at this ⊢
                omega
            · rw [if_neg h2]
              refine ⟨hb, hp, hf, ?_, ?_, ?_, ?_, ?_, hkp, hkr, hex, fun h' => by simp at h', fun h' => by simp at h'⟩
              · exact hfs.trans (List.sublist_append_left _ _)
              · exact List.Sublist.append hds (List.Sublist.refl _)
              · simp [hrc]
              · simp [hdc]
              · intro x
                have := hc x
                simp only [places, List.count_append, List.count_cons, List.count_nil] at this ⊢
                omega
    | waiting =>
      simp only
      have hcn : s.cancelled = true := hdi (by rw [hd]; simp)
      by_cases h1 : s.idle = 0 ∧ s.hand = []
      · rw [if_pos h1]
        exact ⟨hb, hp, hf, hfs, hds, hrc, hdc, hc, hkp, hkr, hex, fun _ => hcn, fun _ => h1⟩
      · rw [if_neg h1]
        exact ⟨hb, hp, hf, hfs, hds, hrc, hdc, hc, hkp, hkr, hex, fun _ => hcn, fun h' => by rw [hd] at h'; cases h'⟩
    | done =>
      simp only
      have hcn : s.cancelled = true := hdi (by rw [hd]; simp)
      exact ⟨hb, hp, hf, hfs, hds, hrc, hdc, hc, hkp, hkr, hex, fun _ => hcn, fun _ => hdo hd⟩
  | take =>
    unfold step
    cases hbuf : s.buf with
    | nil => simp only; exact ⟨hb, hp, hf, hfs, hds, hrc, hdc, hc, hkp, hkr, hex, hdi, hdo⟩
    | cons m rest =>
      simp only
      by_cases hid : 0 < s.idle
      · rw [if_pos hid]
        rw [hbuf] at hb hf
        refine ⟨?_, ?_, ?_, hfs, hds, hrc, hdc, ?_, hkp, hkr, hex, hdi, ?_⟩
        · show rest.length ≤ s.cap
          simp only [List.length_cons] at hb; omega
        · show s.idle - 1 + (m :: s.hand).length + s.exited = n
          simp only [List.length_cons]; omega
        · simp [hf]
        · intro x
          have := hc x
          simp only [places, hbuf, List.count_append, List.count_cons, List.count_nil] at this ⊢
          omega
        · intro h'; have := (hdo h').1; omega
      · rw [if_neg hid]
        exact ⟨hbuf ▸ hb, hp, hbuf ▸ hf, hfs, hds, hrc, hdc, by simpa [places, hbuf] using hc, hkp, hkr, hex, hdi, hdo⟩
  | exit =>
    unfold step
    by_cases h1 : 0 < s.idle ∧ s.cancelled = true
    · rw [if_pos h1]
      refine ⟨hb, by simp only; omega, hf, hfs, hds, hrc, hdc, hc, hkp, hkr, fun _ => h1.2, hdi, ?_⟩
      intro h'; have := (hdo h').1; omega
    · rw [if_neg h1]
      exact ⟨hb, hp, hf, hfs, hds, hrc, hdc, hc, hkp, hkr, hex, hdi, hdo⟩
  | finish m =>
    simp only [step]
    by_cases hm : m ∈ s.hand
    · rw [if_pos hm]
      have hlen := length_erase_mem hm
      have hne : s.hand ≠ [] := List.ne_nil_of_mem hm
      cases hk : m.kind with
      | valid =>
        simp only
        refine ⟨hb, by simp only; omega, hf, hfs, hds, hrc, hdc, ?_, ?_, hkr, hex, hdi, ?_⟩
        · intro x
          have := hc x
          have he := count_erase_add hm x
          simp only [places, List.count_append, List.count_cons, List.count_nil] at this ⊢
          generalize (if (m == x) = true then 1 else 0) = k at *
          omega
        · intro m' hm'
          rcases List.mem_append.mp hm' with h' | h'
          · exact hkp m' h'
          · simp at h'; rw [h']; exact hk
        · intro h'; exact absurd (hdo h').2 hne
      | bad =>
        simp only
        refine ⟨hb, by simp only; omega, hf, hfs, hds, hrc, hdc, ?_, hkp, ?_, hex, hdi, ?_⟩
        · intro x
          have := hc x
          have he := count_erase_add hm x
          simp only [places, List.count_append, List.count_cons, List.count_nil] at this ⊢
          generalize (if (m == x) = true then 1 else 0) = k at *
          omega
        · intro m' hm'
          rcases List.mem_append.mp hm' with h' | h'
          · exact hkr m' h'
          · simp at h'; rw [h']; exact hk
        · intro h'; exact absurd (hdo h').2 hne
    · rw [if_neg hm]
      exact ⟨hb, hp, hf, hfs, hds, hrc, hdc, hc, hkp, hkr, hex, hdi, hdo⟩

theorem inv_run {n : Nat} {s : St} (h : Inv n s) (acts : List Act) : Inv n (run s acts) := by
  induction acts generalizing s with
  | nil => exact h
  | cons a r ih => exact ih (inv_step h a)

end CJ.PipelineMsg
