import CJ.Model.Liveness
/-! Helper lemmas about the liveness-cache model: what each cache operation does to the verdict map,
the structural invariant of the LRU cache, the probe log of a history. -/
open Std

namespace CJ.Liveness

/-! ## verdict-map facts of the cache operations (independent of the cache kind) -/

theorem onEvict_sub (m : VMap) (ev : Option String) (a : String) (tm : Int)
    (h : (onEvict m ev)[a]? = some tm) : m[a]? = some tm := by
  cases ev with
  | none => exact h
  | some old =>
    simp only [onEvict, HashMap.getElem?_erase] at h
    split at h
    · cases h
    · exact h

theorem lookup_exp (c : Cache) (now : Int) (k : String) : (c.lookup now k).1.exp = c.exp := by
  cases c with
  | map e m =>
    simp only [Cache.lookup]
    split
    · split <;> rfl
    · rfl
  | lru e m l =>
    simp only [Cache.lookup]
    split
    · split <;> rfl
    · rfl

theorem lookup_sub (c : Cache) (now : Int) (k a : String) (tm : Int)
    (h : (c.lookup now k).1.vmap[a]? = some tm) : c.vmap[a]? = some tm := by
  cases c with
  | map e m =>
    simp only [Cache.lookup] at h
    split at h
    · split at h <;> exact h
    · exact h
  | lru e m l =>
    simp only [Cache.lookup] at h
    split at h
    · split at h
      · exact onEvict_sub _ _ _ _ h
      · exact h
    · exact h

theorem lookup_hit (c : Cache) (now : Int) (k : String) (h : (c.lookup now k).2 = true) :
    ∃ tm, c.vmap[k]? = some tm ∧ now - tm < c.exp := by
  cases c with
  | map e m =>
    simp only [Cache.lookup] at h
    split at h
    · rename_i t ht
      split at h
      · cases h
      · exact ⟨t, ht, by simp only [Cache.exp]; omega⟩
    · cases h
  | lru e m l =>
    simp only [Cache.lookup] at h
    split at h
    · rename_i t ht
      split at h
      · rename_i hlt; exact ⟨t, ht, hlt⟩
      · cases h
    · cases h

theorem lookup_miss (c : Cache) (now : Int) (k : String) (h : (c.lookup now k).2 = false) (tm : Int)
    (hm : c.vmap[k]? = some tm) : now - tm ≥ c.exp := by
  cases c with
  | map e m =>
    simp only [Cache.lookup] at h
    simp only [Cache.vmap] at hm
    rw [hm] at h
    simp only at h
    split at h
    · assumption
    · cases h
  | lru e m l =>
    simp only [Cache.lookup] at h
    simp only [Cache.vmap] at hm
    rw [hm] at h
    simp only at h
    split at h
    · cases h
    · simp only [Cache.exp]; omega

theorem add_exp (c : Cache) (now : Int) (k : String) : (c.add now k).exp = c.exp := by
  cases c with
  | map e m => simp only [Cache.add]; split <;> rfl
  | lru e m l => rfl

theorem add_get (c : Cache) (now : Int) (k a : String) (tm : Int)
    (h : (c.add now k).vmap[a]? = some tm) : c.vmap[a]? = some tm ∨ (a = k ∧ tm = now) := by
  cases c with
  | map e m =>
    simp only [Cache.add] at h
    split at h
    · exact Or.inl h
    · simp only [Cache.vmap, HashMap.getElem?_insert] at h
      split at h
      · rename_i hk
        right; exact ⟨(eq_of_beq hk).symm, by cases h; rfl⟩
      · exact Or.inl h
  | lru e m l =>
    simp only [Cache.add, Cache.vmap] at h
    have h2 := onEvict_sub _ _ _ _ h
    simp only [HashMap.getElem?_insert] at h2
    split at h2
    · rename_i hk
      right; exact ⟨(eq_of_beq hk).symm, by cases h2; rfl⟩
    · exact Or.inl h2

theorem eraseAll_get (ks : List String) (m : VMap) (k : String) :
    (eraseAll ks m)[k]? = if k ∈ ks then none else m[k]? := by
  induction ks generalizing m with
  | nil => simp [eraseAll]
  | cons a ks ih =>
    simp only [eraseAll, List.foldl_cons] at *
    rw [ih]
    by_cases h : k ∈ ks
    · simp [h]
    · simp only [h, if_false, List.mem_cons, or_false]
      rw [HashMap.getElem?_erase]
      by_cases hak : a = k
      · subst hak; simp
      · have : ¬ k = a := fun e => hak e.symm
        simp [hak, this]

theorem mem_expiredKeys (e now : Int) (m : VMap) (k : String) :
    k ∈ expiredKeys e now m ↔ ∃ t, m[k]? = some t ∧ now - t > e := by
  unfold expiredKeys
  simp only [List.mem_map, List.mem_filter, decide_eq_true_eq]
  constructor
  · rintro ⟨⟨k', t⟩, ⟨hm, he⟩, rfl⟩
    exact ⟨t, HashMap.mem_toList_iff_getElem?_eq_some.mp hm, he⟩
  · rintro ⟨t, hm, he⟩
    exact ⟨(k, t), ⟨HashMap.mem_toList_iff_getElem?_eq_some.mpr hm, he⟩, rfl⟩

theorem lruRemove_sub (ml : VMap × LRU) (k a : String) (tm : Int)
    (h : (lruRemove ml k).1[a]? = some tm) : ml.1[a]? = some tm := by
  simp only [lruRemove] at h
  split at h
  · simp only [HashMap.getElem?_erase] at h
    split at h
    · cases h
    · exact h
  · exact h

theorem foldl_lruRemove_sub (ks : List String) (ml : VMap × LRU) (a : String) (tm : Int)
    (h : (ks.foldl lruRemove ml).1[a]? = some tm) : ml.1[a]? = some tm := by
  induction ks generalizing ml with
  | nil => exact h
  | cons k ks ih => exact lruRemove_sub _ _ _ _ (ih _ h)

theorem clearExpired_exp (c : Cache) (now : Int) : (c.clearExpired now).exp = c.exp := by
  cases c <;> rfl

theorem clearExpired_sub (c : Cache) (now : Int) (a : String) (tm : Int)
    (h : (c.clearExpired now).vmap[a]? = some tm) : c.vmap[a]? = some tm := by
  cases c with
  | map e m =>
    simp only [Cache.clearExpired, Cache.vmap, eraseAll_get] at h
    split at h
    · cases h
    · exact h
  | lru e m l =>
    simp only [Cache.clearExpired, Cache.vmap] at h
    exact foldl_lruRemove_sub _ _ _ _ h

/-! ## tester-level view: lifetime and stored measurement time per verdict -/

/-- the lifetime of verdict `v`'s cache, when that cache exists -/
def Tester.expOf (t : Tester) (v : Bool) : Option Int := (t.cacheFor v).map Cache.exp

/-- the measurement time stored for address `a` in verdict `v`'s cache -/
def Tester.timeOf (t : Tester) (v : Bool) (a : String) : Option Int :=
  (t.cacheFor v).bind (fun c => c.vmap[a]?)

theorem lookupOpt_exp (c : Option Cache) (now : Int) (k : String) :
    (lookupOpt c now k).1.map Cache.exp = c.map Cache.exp := by
  cases c with
  | none => rfl
  | some c => simp [lookupOpt, lookup_exp]

theorem lookupOpt_sub (c : Option Cache) (now : Int) (k a : String) (tm : Int)
    (h : ((lookupOpt c now k).1.bind fun c => c.vmap[a]?) = some tm) : (c.bind fun c => c.vmap[a]?) = some tm := by
  cases c with
  | none => exact h
  | some c => simp only [lookupOpt, Option.bind_some] at *; exact lookup_sub _ _ _ _ _ h

theorem lookupOpt_hit (c : Option Cache) (now : Int) (k : String) (h : (lookupOpt c now k).2 = true) :
    ∃ tm e, (c.bind fun c => c.vmap[k]?) = some tm ∧ c.map Cache.exp = some e ∧ now - tm < e := by
  cases c with
  | none => cases h
  | some c =>
    obtain ⟨tm, h1, h2⟩ := lookup_hit c now k h
    exact ⟨tm, c.exp, h1, rfl, h2⟩

theorem lookupOpt_miss (c : Option Cache) (now : Int) (k : String) (h : (lookupOpt c now k).2 = false)
    (tm e : Int) (h1 : (c.bind fun c => c.vmap[k]?) = some tm) (h2 : c.map Cache.exp = some e) : now - tm ≥ e := by
  cases c with
  | none => cases h1
  | some c =>
    simp only [Option.map_some, Option.some.injEq] at h2
    subst h2
    exact lookup_miss c now k h tm h1

theorem addOpt_exp (c : Option Cache) (now : Int) (k : String) :
    (addOpt c now k).map Cache.exp = c.map Cache.exp := by
  cases c with
  | none => rfl
  | some c => simp [addOpt, add_exp]

theorem addOpt_get (c : Option Cache) (now : Int) (k a : String) (tm : Int)
    (h : ((addOpt c now k).bind fun c => c.vmap[a]?) = some tm) :
    (c.bind fun c => c.vmap[a]?) = some tm ∨ (a = k ∧ tm = now) := by
  cases c with
  | none => cases h
  | some c => simp only [addOpt, Option.map_some, Option.bind_some] at *; exact add_get _ _ _ _ _ h

/-- everything the correctness argument needs to know about one `PhantomIsLive` call -/
structure QuerySpec (t : Tester) (now : Int) (a : String) (p : Bool) (t' : Tester) (out : Out) : Prop where
  expOf : ∀ v, t'.expOf v = t.expOf v
  timeOf : ∀ v a' tm, t'.timeOf v a' = some tm →
    t.timeOf v a' = some tm ∨ (out = .probed v ∧ a' = a ∧ tm = now)
  cached : ∀ v, out = .cached v → ∃ tm e, t.timeOf v a = some tm ∧ t.expOf v = some e ∧ now - tm < e
  probed : ∀ v', out = .probed v' → v' = p ∧ ∀ v tm e, t.timeOf v a = some tm → t.expOf v = some e → now - tm ≥ e
  shape : (∃ v, out = .cached v) ∨ out = .probed p

theorem query_spec (t : Tester) (now : Int) (a : String) (p : Bool) :
    QuerySpec t now a p (query t now a p).1 (query t now a p).2 := by
  cases t with
  | uncached =>
    refine ⟨fun _ => rfl, ?_, ?_, ?_, Or.inr rfl⟩
    · intro v a' tm h; exact Or.inl h
    · intro v h; cases h
    · intro v' h
      simp only [query, Out.probed.injEq] at h
      refine ⟨h.symm, ?_⟩
      intro v tm e h1; cases h1
  | cached live nonLive =>
    simp only [query]
    cases hL : (lookupOpt live now a).2 with
    | true =>
      simp only [if_true]
      refine ⟨?_, ?_, ?_, ?_, Or.inl ⟨true, rfl⟩⟩
      · intro v; cases v
        · rfl
        · exact lookupOpt_exp live now a
      · intro v a' tm h; left; cases v
        · exact h
        · exact lookupOpt_sub live now a a' tm h
      · intro v h
        simp only [Out.cached.injEq] at h; subst h
        exact lookupOpt_hit live now a hL
      · intro v' h; cases h
    | false =>
      simp only [Bool.false_eq_true, if_false]
      cases hN : (lookupOpt nonLive now a).2 with
      | true =>
        simp only [if_true]
        refine ⟨?_, ?_, ?_, ?_, Or.inl ⟨false, rfl⟩⟩
        · intro v; cases v
          · exact lookupOpt_exp nonLive now a
          · exact lookupOpt_exp live now a
        · intro v a' tm h; left; cases v
          · exact lookupOpt_sub nonLive now a a' tm h
          · exact lookupOpt_sub live now a a' tm h
        · intro v h
          simp only [Out.cached.injEq] at h; subst h
          exact lookupOpt_hit nonLive now a hN
        · intro v' h; cases h
      | false =>
        simp only [Bool.false_eq_true, if_false]
        have miss : ∀ v tm e, (Tester.cached live nonLive).timeOf v a = some tm →
            (Tester.cached live nonLive).expOf v = some e → now - tm ≥ e := by
          intro v tm e h1 h2; cases v
          · exact lookupOpt_miss nonLive now a hN tm e h1 h2
          · exact lookupOpt_miss live now a hL tm e h1 h2
        cases p with
        | true =>
          simp only [if_true]
          refine ⟨?_, ?_, ?_, ?_, Or.inr rfl⟩
          · intro v; cases v
            · exact lookupOpt_exp nonLive now a
            · exact (addOpt_exp _ now a).trans (lookupOpt_exp live now a)
          · intro v a' tm h; cases v
            · left; exact lookupOpt_sub nonLive now a a' tm h
            · rcases addOpt_get _ now a a' tm h with h' | ⟨h1, h2⟩
              · left; exact lookupOpt_sub live now a a' tm h'
              · right; exact ⟨rfl, h1, h2⟩
          · intro v h; cases h
          · intro v' h
            simp only [Out.probed.injEq] at h
            exact ⟨h.symm, miss⟩
        | false =>
          simp only [Bool.false_eq_true, if_false]
          refine ⟨?_, ?_, ?_, ?_, Or.inr rfl⟩
          · intro v; cases v
            · exact (addOpt_exp _ now a).trans (lookupOpt_exp nonLive now a)
            · exact lookupOpt_exp live now a
          · intro v a' tm h; cases v
            · rcases addOpt_get _ now a a' tm h with h' | ⟨h1, h2⟩
              · left; exact lookupOpt_sub nonLive now a a' tm h'
              · right; exact ⟨rfl, h1, h2⟩
            · left; exact lookupOpt_sub live now a a' tm h
          · intro v h; cases h
          · intro v' h
            simp only [Out.probed.injEq] at h
            exact ⟨h.symm, miss⟩

theorem clear_expOf (t : Tester) (now : Int) (v : Bool) : (clear t now).expOf v = t.expOf v := by
  cases t with
  | uncached => rfl
  | cached live nonLive =>
    cases v
    · cases nonLive with
      | none => rfl
      | some c => simp [clear, Tester.expOf, Tester.cacheFor, clearExpired_exp]
    · cases live with
      | none => rfl
      | some c => simp [clear, Tester.expOf, Tester.cacheFor, clearExpired_exp]

theorem clear_timeOf (t : Tester) (now : Int) (v : Bool) (a : String) (tm : Int)
    (h : (clear t now).timeOf v a = some tm) : t.timeOf v a = some tm := by
  cases t with
  | uncached => exact h
  | cached live nonLive =>
    cases v
    · cases nonLive with
      | none => exact h
      | some c =>
        simp only [clear, Tester.timeOf, Tester.cacheFor, Bool.false_eq_true, if_false, Option.map_some,
          Option.bind_some] at *
        exact clearExpired_sub _ _ _ _ h
    · cases live with
      | none => exact h
      | some c =>
        simp only [clear, Tester.timeOf, Tester.cacheFor, if_true, Option.map_some, Option.bind_some] at *
        exact clearExpired_sub _ _ _ _ h

/-! ## the probe log of a history -/

/-- one probe: time, address, verdict -/
abbrev Probe := Int × String × Bool

/-- what operation `o`, run in state `t`, adds to the probe log -/
def probeOf (t : Tester) : Op → List Probe
  | .query now a p =>
    match (query t now a p).2 with
    | .probed v => [(now, a, v)]
    | _ => []
  | .clear _ => []

/-- the probes sent while running `ops` from `t`, newest first, on top of `acc` -/
def logFrom (t : Tester) (acc : List Probe) : List Op → List Probe
  | [] => acc
  | o :: os => logFrom (step t o).1 (probeOf t o ++ acc) os

/-- the most recent probe of address `a` in a newest-first log: (time, verdict) -/
def lastOf (log : List Probe) (a : String) : Option (Int × Bool) :=
  (log.find? (fun e => e.2.1 == a)).map (fun e => (e.1, e.2.2))

theorem lastOf_mem (log : List Probe) (a : String) (tl : Int) (vl : Bool)
    (h : lastOf log a = some (tl, vl)) : (tl, a, vl) ∈ log := by
  unfold lastOf at h
  cases hf : log.find? (fun e => e.2.1 == a) with
  | none => rw [hf] at h; cases h
  | some e =>
    rw [hf] at h
    simp only [Option.map_some, Option.some.injEq, Prod.mk.injEq] at h
    have hm := List.mem_of_find?_eq_some hf
    have hp := List.find?_some hf
    simp only [beq_iff_eq] at hp
    obtain ⟨t0, a0, v0⟩ := e
    simp only at h hp
    obtain ⟨rfl, rfl⟩ := h
    subst hp
    exact hm

/-- non-decreasing operation times, all at or after `T` -/
def Mono (T : Int) : List Op → Prop
  | [] => True
  | o :: os => T ≤ o.time ∧ Mono o.time os

/-- time of the last operation (`T` for the empty history) -/
def endTime (T : Int) : List Op → Int
  | [] => T
  | o :: os => endTime o.time os

theorem mono_of_pairwise (ops : List Op) (T : Int) (hT : ∀ o ∈ ops, T ≤ o.time)
    (hp : ops.Pairwise (fun x y => x.time ≤ y.time)) : Mono T ops := by
  induction ops generalizing T with
  | nil => trivial
  | cons o os ih =>
    rw [List.pairwise_cons] at hp
    exact ⟨hT o (List.mem_cons_self ..), ih o.time hp.1 hp.2⟩

theorem endTime_le (ops : List Op) (T B : Int) (hT : T ≤ B) (h : ∀ o ∈ ops, o.time ≤ B) :
    endTime T ops ≤ B := by
  induction ops generalizing T with
  | nil => exact hT
  | cons o os ih =>
    exact ih o.time (h o (List.mem_cons_self ..)) (fun x hx => h x (List.mem_cons_of_mem _ hx))

theorem mono_of_chronological (ops : List Op) (q : Op)
    (h : (ops ++ [q]).Pairwise (fun x y => x.time ≤ y.time)) :
    ∃ T0, Mono T0 ops ∧ endTime T0 ops ≤ q.time := by
  rw [List.pairwise_append] at h
  obtain ⟨hp, _, hq⟩ := h
  have hq' : ∀ o ∈ ops, o.time ≤ q.time := fun o ho => hq o ho q (List.mem_singleton.mpr rfl)
  cases ops with
  | nil => exact ⟨q.time, trivial, Int.le_refl _⟩
  | cons o os =>
    rw [List.pairwise_cons] at hp
    refine ⟨o.time, ⟨Int.le_refl _, mono_of_pairwise os o.time hp.1 hp.2⟩, ?_⟩
    exact endTime_le (o :: os) o.time q.time (hq' o (List.mem_cons_self ..)) hq'

/-- every stored time is the time of a logged probe of that address with that verdict -/
def MInv (t : Tester) (log : List Probe) : Prop :=
  ∀ v a tm, t.timeOf v a = some tm → (tm, a, v) ∈ log

theorem minv_step (t : Tester) (log : List Probe) (o : Op) (h : MInv t log) :
    MInv (step t o).1 (probeOf t o ++ log) := by
  cases o with
  | clear now =>
    intro v a tm ht
    exact h v a tm (clear_timeOf t now v a tm ht)
  | query now a p =>
    have sp := query_spec t now a p
    intro v a' tm ht
    simp only [step] at ht
    rcases sp.timeOf v a' tm ht with hold | ⟨hout, rfl, rfl⟩
    · exact List.mem_append_right _ (h v a' tm hold)
    · apply List.mem_append_left
      simp only [probeOf, hout]
      exact List.mem_singleton.mpr rfl

theorem minv_run (ops : List Op) (t : Tester) (log : List Probe) (h : MInv t log) :
    MInv (runFrom t ops) (logFrom t log ops) := by
  induction ops generalizing t log with
  | nil => exact h
  | cons o os ih => exact ih _ _ (minv_step t log o h)

/-- monotone-time invariant: every stored entry for `a` is either the most recent probe of `a`
(same time, same verdict) or was already expired when that most recent probe happened. -/
def GInv (t : Tester) (log : List Probe) (T : Int) : Prop :=
  (∀ e ∈ log, e.1 ≤ T) ∧
  ∀ v a tm, t.timeOf v a = some tm → ∃ tl vl, lastOf log a = some (tl, vl) ∧
    ((tm = tl ∧ vl = v) ∨ ∀ e, t.expOf v = some e → tl - tm ≥ e)

theorem ginv_step (t : Tester) (log : List Probe) (T : Int) (o : Op) (h : GInv t log T) (hT : T ≤ o.time) :
    GInv (step t o).1 (probeOf t o ++ log) o.time := by
  obtain ⟨hle, hent⟩ := h
  cases o with
  | clear now =>
    simp only [Op.time] at hT
    refine ⟨?_, ?_⟩
    · intro e he
      have := hle e he
      simp only [Op.time]; omega
    · intro v a tm ht
      obtain ⟨tl, vl, h1, h2⟩ := hent v a tm (clear_timeOf t now v a tm ht)
      refine ⟨tl, vl, h1, ?_⟩
      rcases h2 with h2 | h2
      · exact Or.inl h2
      · right; intro e he; apply h2; simp only [step] at he; rw [clear_expOf] at he; exact he
  | query now a p =>
    simp only [Op.time] at hT
    have sp := query_spec t now a p
    refine ⟨?_, ?_⟩
    · intro e he
      simp only [Op.time]
      rcases List.mem_append.mp he with he | he
      · simp only [probeOf] at he
        split at he
        · rw [List.mem_singleton.mp he]; exact Int.le_refl _
        · cases he
      · have := hle e he; omega
    · intro v a' tm ht
      simp only [step] at ht
      rcases sp.timeOf v a' tm ht with hold | ⟨hout, rfl, rfl⟩
      · -- an entry that was there before
        obtain ⟨tl, vl, h1, h2⟩ := hent v a' tm hold
        rcases sp.shape with ⟨v0, hc⟩ | hp
        · -- answered from the cache: the log is unchanged
          refine ⟨tl, vl, ?_, ?_⟩
          · simp only [probeOf, hc]; exact h1
          · rcases h2 with h2 | h2
            · exact Or.inl h2
            · right; intro e he; apply h2; simp only [step] at he; rw [sp.expOf] at he; exact he
        · -- probed: the log gains (now, a, p)
          by_cases haa : a' = a
          · subst haa
            refine ⟨now, p, ?_, ?_⟩
            · simp [probeOf, hp, lastOf]
            · right
              intro e he
              simp only [step] at he; rw [sp.expOf] at he
              exact (sp.probed p hp).2 v tm e hold he
          · refine ⟨tl, vl, ?_, ?_⟩
            · simp only [probeOf, hp, lastOf, List.singleton_append]
              rw [List.find?_cons_of_neg]
              · exact h1
              · simp only [beq_iff_eq]; exact fun e => haa e.symm
            · rcases h2 with h2 | h2
              · exact Or.inl h2
              · right; intro e he; apply h2; simp only [step] at he; rw [sp.expOf] at he; exact he
      · -- the entry stored by this probe
        refine ⟨tm, v, ?_, Or.inl ⟨rfl, rfl⟩⟩
        simp [probeOf, hout, lastOf]

theorem ginv_run (ops : List Op) (t : Tester) (log : List Probe) (T : Int) (h : GInv t log T)
    (hm : Mono T ops) : GInv (runFrom t ops) (logFrom t log ops) (endTime T ops) := by
  induction ops generalizing t log T with
  | nil => exact h
  | cons o os ih => exact ih _ _ _ (ginv_step t log T o h hm.1) hm.2

/-! ## structural invariant of the LRU cache: verdict map and recency list hold the same keys -/

structure LRUInv (m : VMap) (l : LRU) : Prop where
  same : ∀ k, m.contains k = true ↔ k ∈ l.items
  nodup : l.items.Nodup
  size : m.size = l.items.length
  le : l.items.length ≤ l.size
  pos : 0 < l.size

theorem lruinv_empty (n : Nat) (h : 0 < n) : LRUInv ({} : VMap) { size := n, items := [] } :=
  ⟨by intro k; simp, List.nodup_nil, by simp, by simp, h⟩

/-- `lruCache.Add` (and the refresh in `Lookup`, where the map is not written first) -/
theorem lruinv_add (m : VMap) (l : LRU) (k : String) (now : Int) (h : LRUInv m l) :
    LRUInv (onEvict (m.insert k now) (l.add k).2) (l.add k).1 := by
  obtain ⟨hsame, hnd, hsz, hle, hpos⟩ := h
  unfold LRU.add
  by_cases hk : l.items.contains k = true
  · -- known key: moved to the front, nothing evicted
    have hk' : k ∈ l.items := by simpa using hk
    have hkm : k ∈ m := HashMap.mem_iff_contains.mpr ((hsame k).mpr hk')
    simp only [hk, if_true, onEvict]
    refine ⟨?_, ?_, ?_, ?_, hpos⟩
    · intro a
      simp only [HashMap.contains_insert, Bool.or_eq_true, beq_iff_eq, List.mem_append, List.mem_singleton,
        hnd.mem_erase_iff, hsame a]
      constructor
      · rintro (rfl | ha)
        · exact Or.inr rfl
        · by_cases e : a = k
          · exact Or.inr e
          · exact Or.inl ⟨e, ha⟩
      · rintro (⟨_, ha⟩ | rfl)
        · exact Or.inr ha
        · exact Or.inl rfl
    · rw [List.nodup_append]
      refine ⟨hnd.erase k, (by simp : [k].Nodup), ?_⟩
      intro a ha b hb
      rw [List.mem_singleton] at hb; subst hb
      exact ((hnd.mem_erase_iff).mp ha).1
    · have := List.length_pos_of_mem hk'
      simp only [HashMap.size_insert, hkm, if_true, List.length_append, List.length_erase_of_mem hk',
        List.length_singleton]
      omega
    · have := List.length_pos_of_mem hk'
      simp only [List.length_append, List.length_erase_of_mem hk', List.length_singleton]
      omega
  · have hk' : k ∉ l.items := by simpa using hk
    have hkm : ¬ k ∈ m := fun hm => hk' ((hsame k).mp (HashMap.mem_iff_contains.mp hm))
    simp only [hk, Bool.false_eq_true, if_false]
    by_cases hov : (l.items ++ [k]).length > l.size
    · simp only [hov, if_true]
      cases hit : l.items with
      | nil =>
        rw [hit] at hov; simp only [List.nil_append, List.length_singleton] at hov; omega
      | cons old r =>
        rw [hit] at hnd hle hk' hov
        rw [List.nodup_cons] at hnd
        have hsame' : ∀ a, m.contains a = true ↔ a = old ∨ a ∈ r := by
          intro a; rw [hsame a, hit, List.mem_cons]
        have hok : old ≠ k := fun e => hk' (by rw [e]; exact List.mem_cons_self ..)
        have hkr : k ∉ r := fun e => hk' (List.mem_cons_of_mem _ e)
        simp only [List.cons_append, onEvict]
        refine ⟨?_, ?_, ?_, ?_, hpos⟩
        · intro a
          simp only [HashMap.contains_erase, HashMap.contains_insert, Bool.and_eq_true, Bool.not_eq_true',
            beq_eq_false_iff_ne, Bool.or_eq_true, beq_iff_eq, hsame' a, List.mem_append, List.mem_singleton]
          constructor
          · rintro ⟨hne, (rfl | rfl | ha)⟩
            · exact Or.inr rfl
            · exact absurd rfl hne
            · exact Or.inl ha
          · rintro (ha | rfl)
            · exact ⟨fun e => hnd.1 (by rw [e]; exact ha), Or.inr (Or.inr ha)⟩
            · exact ⟨hok, Or.inl rfl⟩
        · rw [List.nodup_append]
          refine ⟨hnd.2, (by simp : [k].Nodup), ?_⟩
          intro a ha b hb
          rw [List.mem_singleton] at hb; subst hb
          exact fun e => hkr (by rw [← e]; exact ha)
        · have hom : old ∈ m.insert k now := by
            rw [HashMap.mem_insert]; right
            exact HashMap.mem_iff_contains.mpr ((hsame' old).mpr (Or.inl rfl))
          rw [hit] at hsz
          rw [HashMap.size_erase, if_pos hom, HashMap.size_insert, if_neg hkm]
          simp only [List.length_append, List.length_cons, List.length_nil] at hsz ⊢
          omega
        · simp only [List.length_append, List.length_cons, List.length_nil] at hle hov ⊢
          omega
    · simp only [hov, if_false, onEvict]
      refine ⟨?_, ?_, ?_, ?_, hpos⟩
      · intro a
        simp only [HashMap.contains_insert, Bool.or_eq_true, beq_iff_eq, hsame a, List.mem_append,
          List.mem_singleton]
        constructor
        · rintro (rfl | ha)
          · exact Or.inr rfl
          · exact Or.inl ha
        · rintro (ha | rfl)
          · exact Or.inr ha
          · exact Or.inl rfl
      · rw [List.nodup_append]
        refine ⟨hnd, (by simp : [k].Nodup), ?_⟩
        intro a ha b hb
        rw [List.mem_singleton] at hb; subst hb
        exact fun e => hk' (by rw [← e]; exact ha)
      · simp only [HashMap.size_insert, hkm, if_false, List.length_append, List.length_singleton, hsz]
      · simp only [List.length_append, List.length_singleton] at *
        omega

/-- the refresh in `Lookup`: the key is present, so `lru.Add` only reorders -/
theorem lruinv_refresh (m : VMap) (l : LRU) (k : String) (tm : Int) (hk : m[k]? = some tm) (h : LRUInv m l) :
    LRUInv (onEvict m (l.add k).2) (l.add k).1 := by
  have hc : m.contains k = true := by rw [HashMap.contains_eq_isSome_getElem?, hk]; rfl
  have hi : l.items.contains k = true := by simpa using (h.same k).mp hc
  have hadd : l.add k = ({ l with items := l.items.erase k ++ [k] }, none) := by
    unfold LRU.add; simp only [hi, if_true]
  have := lruinv_add m l k tm h
  rw [hadd] at this ⊢
  simp only [onEvict] at this ⊢
  refine ⟨?_, this.nodup, ?_, this.le, this.pos⟩
  · intro a
    rw [← this.same a, HashMap.contains_insert]
    by_cases e : k = a
    · subst e; simp [hc]
    · simp [e]
  · rw [← this.size, HashMap.size_insert, if_pos (HashMap.mem_iff_contains.mpr hc)]

theorem lruinv_remove (ml : VMap × LRU) (k : String) (h : LRUInv ml.1 ml.2) :
    LRUInv (lruRemove ml k).1 (lruRemove ml k).2 := by
  obtain ⟨m, l⟩ := ml
  obtain ⟨hsame, hnd, hsz, hle, hpos⟩ := h
  simp only [lruRemove, LRU.remove]
  by_cases hk : l.items.contains k = true
  · have hk' : k ∈ l.items := by simpa using hk
    have hkm : k ∈ m := HashMap.mem_iff_contains.mpr ((hsame k).mpr hk')
    simp only [hk, if_true]
    refine ⟨?_, hnd.erase k, ?_, ?_, hpos⟩
    · intro a
      simp only [HashMap.contains_erase, Bool.and_eq_true, Bool.not_eq_true', beq_eq_false_iff_ne,
        hnd.mem_erase_iff, hsame a]
      constructor
      · rintro ⟨hne, ha⟩; exact ⟨fun e => hne e.symm, ha⟩
      · rintro ⟨hne, ha⟩; exact ⟨fun e => hne e.symm, ha⟩
    · simp only [HashMap.size_erase, hkm, if_true, List.length_erase_of_mem hk', hsz]
    · simp only [List.length_erase_of_mem hk']; simp only at hle; omega
  · simp only [hk, Bool.false_eq_true, if_false]
    exact ⟨hsame, hnd, hsz, hle, hpos⟩

theorem lruinv_foldl_remove (ks : List String) (ml : VMap × LRU) (h : LRUInv ml.1 ml.2) :
    LRUInv (ks.foldl lruRemove ml).1 (ks.foldl lruRemove ml).2 := by
  induction ks generalizing ml with
  | nil => exact h
  | cons k ks ih => exact ih _ (lruinv_remove ml k h)

theorem lruRemove_get (ml : VMap × LRU) (k a : String) (h : LRUInv ml.1 ml.2) :
    (lruRemove ml k).1[a]? = if k = a then none else ml.1[a]? := by
  obtain ⟨m, l⟩ := ml
  simp only [lruRemove, LRU.remove]
  by_cases hk : l.items.contains k = true
  · simp only [hk, if_true, HashMap.getElem?_erase, beq_iff_eq]
  · simp only [hk, Bool.false_eq_true, if_false]
    by_cases e : k = a
    · subst e
      simp only [if_true]
      have : m.contains k = false := by
        cases hc : m.contains k with
        | false => rfl
        | true => exact absurd (by simpa using (h.same k).mp hc) hk
      rw [HashMap.contains_eq_isSome_getElem?] at this
      cases hg : m[k]? with
      | none => rfl
      | some t => rw [hg] at this; cases this
    · simp only [e, if_false]

theorem foldl_lruRemove_get (ks : List String) (ml : VMap × LRU) (a : String) (h : LRUInv ml.1 ml.2) :
    (ks.foldl lruRemove ml).1[a]? = if a ∈ ks then none else ml.1[a]? := by
  induction ks generalizing ml with
  | nil => simp
  | cons k ks ih =>
    rw [List.foldl_cons, ih _ (lruinv_remove ml k h), lruRemove_get ml k a h]
    by_cases h1 : a ∈ ks
    · simp [h1]
    · by_cases h2 : k = a
      · subst h2; simp
      · have : ¬ a = k := fun e => h2 e.symm
        simp [h1, h2, this]

/-- well-formedness of a cache: nothing to say for the map, `LRUInv` for the LRU -/
def Cache.WF : Cache → Prop
  | .map _ _ => True
  | .lru _ m l => LRUInv m l

/-- the configured bound of a cache (`none` for the unbounded map) -/
def Cache.bound : Cache → Option Nat
  | .map _ _ => none
  | .lru _ _ l => some l.size

theorem wf_len_le (c : Cache) (n : Nat) (h : c.WF) (hb : c.bound = some n) : c.len ≤ n := by
  cases c with
  | map e m => cases hb
  | lru e m l =>
    simp only [Cache.bound, Option.some.injEq] at hb
    subst hb
    simp only [Cache.len, Cache.vmap]
    have := h.size; have := h.le
    omega

theorem lru_add_size (l : LRU) (k : String) : (l.add k).1.size = l.size := by
  unfold LRU.add
  split
  · rfl
  · simp only
    split
    · split <;> rfl
    · rfl

theorem lookup_wf (c : Cache) (now : Int) (k : String) (h : c.WF) :
    (c.lookup now k).1.WF ∧ (c.lookup now k).1.bound = c.bound := by
  cases c with
  | map e m =>
    simp only [Cache.lookup]
    split
    · split <;> exact ⟨trivial, rfl⟩
    · exact ⟨trivial, rfl⟩
  | lru e m l =>
    simp only [Cache.lookup]
    split
    · rename_i t ht
      split
      · exact ⟨lruinv_refresh m l k t ht h, by simp only [Cache.bound, lru_add_size]⟩
      · exact ⟨h, rfl⟩
    · exact ⟨h, rfl⟩

theorem add_wf (c : Cache) (now : Int) (k : String) (h : c.WF) :
    (c.add now k).WF ∧ (c.add now k).bound = c.bound := by
  cases c with
  | map e m => simp only [Cache.add]; split <;> exact ⟨trivial, rfl⟩
  | lru e m l => exact ⟨lruinv_add m l k now h, by simp only [Cache.add, Cache.bound, lru_add_size]⟩

theorem lruRemove_size (ml : VMap × LRU) (k : String) : (lruRemove ml k).2.size = ml.2.size := by
  simp only [lruRemove, LRU.remove]; split <;> rfl

theorem foldl_lruRemove_size (ks : List String) (ml : VMap × LRU) :
    (ks.foldl lruRemove ml).2.size = ml.2.size := by
  induction ks generalizing ml with
  | nil => rfl
  | cons k ks ih => rw [List.foldl_cons, ih, lruRemove_size]

theorem clearExpired_wf (c : Cache) (now : Int) (h : c.WF) :
    (c.clearExpired now).WF ∧ (c.clearExpired now).bound = c.bound := by
  cases c with
  | map e m => exact ⟨trivial, rfl⟩
  | lru e m l =>
    refine ⟨lruinv_foldl_remove _ (m, l) h, ?_⟩
    simp only [Cache.clearExpired, Cache.bound, foldl_lruRemove_size]

/-- exactness of `ClearExpired` on a well-formed cache: an entry survives iff its age is at most the
lifetime (the clean-up removes on `age > lifetime`). -/
theorem clearExpired_exact (c : Cache) (now : Int) (a : String) (tm : Int) (h : c.WF) :
    (c.clearExpired now).vmap[a]? = some tm ↔ c.vmap[a]? = some tm ∧ now - tm ≤ c.exp := by
  have key : ∀ (e : Int) (m : VMap), (if a ∈ expiredKeys e now m then none else m[a]?) = some tm ↔
      m[a]? = some tm ∧ now - tm ≤ e := by
    intro e m
    by_cases hx : a ∈ expiredKeys e now m
    · simp only [hx, if_true]
      obtain ⟨t, h1, h2⟩ := (mem_expiredKeys e now m a).mp hx
      constructor
      · intro h'; cases h'
      · rintro ⟨h3, h4⟩
        rw [h1] at h3; cases h3; omega
    · simp only [hx, if_false]
      constructor
      · intro h1
        refine ⟨h1, ?_⟩
        have : ¬ (now - tm > e) := fun h2 => hx ((mem_expiredKeys e now m a).mpr ⟨tm, h1, h2⟩)
        omega
      · exact fun h1 => h1.1
  cases c with
  | map e m =>
    simp only [Cache.clearExpired, Cache.vmap, Cache.exp, eraseAll_get]
    exact key e m
  | lru e m l =>
    simp only [Cache.clearExpired, Cache.vmap, Cache.exp]
    rw [foldl_lruRemove_get _ (m, l) a h]
    exact key e m

/-- tester-level: every cache is well-formed -/
def TInv (t : Tester) : Prop := ∀ v c, t.cacheFor v = some c → c.WF

/-- the bound of verdict `v`'s cache (`none`: no cache or unbounded) -/
def Tester.boundOf (t : Tester) (v : Bool) : Option (Option Nat) := (t.cacheFor v).map Cache.bound

theorem optWF_lookup (c : Option Cache) (now : Int) (k : String) (h : ∀ c', c = some c' → c'.WF) :
    (∀ c', (lookupOpt c now k).1 = some c' → c'.WF) ∧ (lookupOpt c now k).1.map Cache.bound = c.map Cache.bound := by
  cases c with
  | none => exact ⟨fun c' h' => (by cases h'), rfl⟩
  | some c =>
    have := lookup_wf c now k (h c rfl)
    simp only [lookupOpt, Option.map_some, Option.some.injEq]
    exact ⟨fun c' h' => h' ▸ this.1, this.2⟩

theorem optWF_add (c : Option Cache) (now : Int) (k : String) (h : ∀ c', c = some c' → c'.WF) :
    (∀ c', addOpt c now k = some c' → c'.WF) ∧ (addOpt c now k).map Cache.bound = c.map Cache.bound := by
  cases c with
  | none => exact ⟨fun c' h' => (by cases h'), rfl⟩
  | some c =>
    have := add_wf c now k (h c rfl)
    simp only [addOpt, Option.map_some, Option.some.injEq]
    exact ⟨fun c' h' => h' ▸ this.1, this.2⟩

theorem optWF_clear (c : Option Cache) (now : Int) (h : ∀ c', c = some c' → c'.WF) :
    (∀ c', c.map (·.clearExpired now) = some c' → c'.WF) ∧
      (c.map (·.clearExpired now)).map Cache.bound = c.map Cache.bound := by
  cases c with
  | none => exact ⟨fun c' h' => (by cases h'), rfl⟩
  | some c =>
    have := clearExpired_wf c now (h c rfl)
    simp only [Option.map_some, Option.some.injEq]
    exact ⟨fun c' h' => h' ▸ this.1, this.2⟩

theorem tinv_cached (live nonLive : Option Cache) :
    TInv (.cached live nonLive) ↔ (∀ c, live = some c → c.WF) ∧ (∀ c, nonLive = some c → c.WF) := by
  constructor
  · intro h; exact ⟨fun c hc => h true c (by simp [Tester.cacheFor, hc]), fun c hc => h false c (by simp [Tester.cacheFor, hc])⟩
  · rintro ⟨h1, h2⟩ v c hc
    cases v
    · exact h2 c (by simpa [Tester.cacheFor] using hc)
    · exact h1 c (by simpa [Tester.cacheFor] using hc)

theorem boundOf_cached (live nonLive : Option Cache) (v : Bool) :
    (Tester.cached live nonLive).boundOf v = if v then live.map Cache.bound else nonLive.map Cache.bound := by
  cases v <;> simp [Tester.boundOf, Tester.cacheFor]

theorem step_tinv (t : Tester) (o : Op) (h : TInv t) :
    TInv (step t o).1 ∧ ∀ v, (step t o).1.boundOf v = t.boundOf v := by
  cases t with
  | uncached => cases o <;> exact ⟨h, fun _ => rfl⟩
  | cached live nonLive =>
    obtain ⟨hl, hn⟩ := (tinv_cached live nonLive).mp h
    cases o with
    | clear now =>
      simp only [step, clear]
      have cl := optWF_clear live now hl
      have cn := optWF_clear nonLive now hn
      refine ⟨(tinv_cached _ _).mpr ⟨cl.1, cn.1⟩, ?_⟩
      intro v; rw [boundOf_cached, boundOf_cached, cl.2, cn.2]
    | query now a p =>
      simp only [step, query]
      have ll := optWF_lookup live now a hl
      have ln := optWF_lookup nonLive now a hn
      split
      · refine ⟨(tinv_cached _ _).mpr ⟨ll.1, hn⟩, ?_⟩
        intro v; rw [boundOf_cached, boundOf_cached, ll.2]
      · split
        · refine ⟨(tinv_cached _ _).mpr ⟨ll.1, ln.1⟩, ?_⟩
          intro v; rw [boundOf_cached, boundOf_cached, ll.2, ln.2]
        · split
          · have al := optWF_add _ now a ll.1
            refine ⟨(tinv_cached _ _).mpr ⟨al.1, ln.1⟩, ?_⟩
            intro v; rw [boundOf_cached, boundOf_cached, al.2, ll.2, ln.2]
          · have an := optWF_add _ now a ln.1
            refine ⟨(tinv_cached _ _).mpr ⟨ll.1, an.1⟩, ?_⟩
            intro v; rw [boundOf_cached, boundOf_cached, an.2, ll.2, ln.2]

theorem run_tinv (ops : List Op) (t : Tester) (h : TInv t) :
    TInv (runFrom t ops) ∧ ∀ v, (runFrom t ops).boundOf v = t.boundOf v := by
  induction ops generalizing t with
  | nil => exact ⟨h, fun _ => rfl⟩
  | cons o os ih =>
    have s := step_tinv t o h
    have r := ih _ s.1
    exact ⟨r.1, fun v => (r.2 v).trans (s.2 v)⟩

/-! ## step-level (concurrent) model of one LRU cache -/

/-- the key a thread may hold outside the recency list: written to the verdict map but not yet added
to the list, or removed from the list with the evict callback still pending -/
def Phase.held : Phase → Option String
  | .addWrote k => some k
  | .evictPending old => some old
  | .clearingEvict old _ => some old
  | _ => none

def Held (ts : List Phase) (k : String) : Prop := ∃ (j : Nat) (p : Phase), ts[j]? = some p ∧ p.held = some k

theorem held_set_other (ts : List Phase) (i : Nat) (q p : Phase) (k : String) (hi : ts[i]? = some q)
    (h : Held ts k) : Held (ts.set i p) k ∨ q.held = some k := by
  obtain ⟨j, p', hj, hp⟩ := h
  by_cases e : i = j
  · subst e
    rw [hi] at hj; cases hj
    exact Or.inr hp
  · exact Or.inl ⟨j, p', by rw [List.getElem?_set_ne e]; exact hj, hp⟩

theorem held_set_self (ts : List Phase) (i : Nat) (q p : Phase) (k : String) (hi : ts[i]? = some q)
    (hp : p.held = some k) : Held (ts.set i p) k := by
  have hlt : i < ts.length := by
    rcases Nat.lt_or_ge i ts.length with h | h
    · exact h
    · rw [List.getElem?_eq_none h] at hi; cases hi
  exact ⟨i, p, List.getElem?_set_self hlt, hp⟩

theorem lru_add_items (l : LRU) (k : String) (hnd : l.items.Nodup) (hle : l.items.length ≤ l.size)
    (hpos : 0 < l.size) :
    (∀ x, (x ∈ l.items ∨ x = k) → x ∈ (l.add k).1.items ∨ (l.add k).2 = some x) ∧
      (l.add k).1.items.Nodup ∧ (l.add k).1.items.length ≤ (l.add k).1.size := by
  unfold LRU.add
  by_cases hk : l.items.contains k = true
  · have hk' : k ∈ l.items := by simpa using hk
    simp only [hk, if_true]
    refine ⟨?_, ?_, ?_⟩
    · intro x hx
      left
      simp only [List.mem_append, List.mem_singleton, hnd.mem_erase_iff]
      by_cases e : x = k
      · exact Or.inr e
      · rcases hx with hx | hx
        · exact Or.inl ⟨e, hx⟩
        · exact absurd hx e
    · rw [List.nodup_append]
      refine ⟨hnd.erase k, (by simp : [k].Nodup), ?_⟩
      intro a ha b hb
      rw [List.mem_singleton] at hb; subst hb
      exact ((hnd.mem_erase_iff).mp ha).1
    · have := List.length_pos_of_mem hk'
      simp only [List.length_append, List.length_erase_of_mem hk', List.length_singleton]
      omega
  · have hk' : k ∉ l.items := by simpa using hk
    simp only [hk, Bool.false_eq_true, if_false]
    by_cases hov : (l.items ++ [k]).length > l.size
    · simp only [hov, if_true]
      cases hit : l.items with
      | nil => rw [hit] at hov; simp only [List.nil_append, List.length_singleton] at hov; omega
      | cons old r =>
        rw [hit] at hnd hle hk' hov
        rw [List.nodup_cons] at hnd
        have hkr : k ∉ r := fun e => hk' (List.mem_cons_of_mem _ e)
        simp only [List.cons_append]
        refine ⟨?_, ?_, ?_⟩
        · intro x hx
          simp only [List.mem_append, List.mem_singleton, Option.some.injEq]
          rcases hx with hx | hx
          · rcases List.mem_cons.mp hx with rfl | hx
            · exact Or.inr rfl
            · exact Or.inl (Or.inl hx)
          · exact Or.inl (Or.inr hx)
        · rw [List.nodup_append]
          refine ⟨hnd.2, (by simp : [k].Nodup), ?_⟩
          intro a ha b hb
          rw [List.mem_singleton] at hb; subst hb
          exact fun e => hkr (by rw [← e]; exact ha)
        · simp only [List.length_append, List.length_cons, List.length_nil] at hle ⊢
          omega
    · simp only [hov, if_false]
      refine ⟨?_, ?_, ?_⟩
      · intro x hx
        left
        simp only [List.mem_append, List.mem_singleton]
        exact hx
      · rw [List.nodup_append]
        refine ⟨hnd, (by simp : [k].Nodup), ?_⟩
        intro a ha b hb
        rw [List.mem_singleton] at hb; subst hb
        exact fun e => hk' (by rw [← e]; exact ha)
      · simp only [List.length_append, List.length_singleton] at hov ⊢
        omega

theorem lru_remove_items (l : LRU) (k : String) (hnd : l.items.Nodup) (hle : l.items.length ≤ l.size) :
    (∀ x ∈ l.items, x ∈ (l.remove k).1.items ∨ ((l.remove k).2 = true ∧ x = k)) ∧
      (l.remove k).1.items.Nodup ∧ (l.remove k).1.items.length ≤ (l.remove k).1.size ∧
      (l.remove k).1.size = l.size := by
  unfold LRU.remove
  by_cases hk : l.items.contains k = true
  · have hk' : k ∈ l.items := by simpa using hk
    simp only [hk, if_true]
    refine ⟨?_, hnd.erase k, ?_, trivial⟩
    · intro x hx
      by_cases e : x = k
      · exact Or.inr ⟨trivial, e⟩
      · exact Or.inl ((hnd.mem_erase_iff).mpr ⟨e, hx⟩)
    · simp only [List.length_erase_of_mem hk']; omega
  · simp only [hk, Bool.false_eq_true, if_false]
    exact ⟨fun x hx => Or.inl hx, hnd, hle, trivial⟩

/-- invariant of the step-level model: every key of the verdict map is tracked by the recency list or
held by a thread that is between two of its critical sections -/
structure CInv (s : CState) : Prop where
  cover : ∀ k, s.m.contains k = true → k ∈ s.l.items ∨ Held s.threads k
  nodup : s.l.items.Nodup
  le : s.l.items.length ≤ s.l.size
  pos : 0 < s.l.size

theorem cinv_init (exp : Int) (size n : Nat) (h : 0 < size) : CInv (cinit exp size n) :=
  ⟨by intro k hk; simp [cinit] at hk, List.nodup_nil, by simp [cinit], h⟩

theorem cinv_step (s : CState) (i : Nat) (call : Call) (h : CInv s) : CInv (cstep s i call) := by
  obtain ⟨hcov, hnd, hle, hpos⟩ := h
  unfold cstep
  split
  · exact ⟨hcov, hnd, hle, hpos⟩
  · -- idle: first critical section of the call
    rename_i hi
    cases call with
    | add now k =>
      refine ⟨?_, hnd, hle, hpos⟩
      intro x hx
      simp only [HashMap.contains_insert, Bool.or_eq_true, beq_iff_eq] at hx
      rcases hx with rfl | hx
      · exact Or.inr (held_set_self _ i _ _ _ hi rfl)
      · rcases hcov x hx with h1 | h1
        · exact Or.inl h1
        · rcases held_set_other _ i _ (.addWrote k) x hi h1 with h2 | h2
          · exact Or.inr h2
          · cases h2
    | lookup now k =>
      simp only
      split
      · split
        · refine ⟨?_, hnd, hle, hpos⟩
          intro x hx
          rcases hcov x hx with h1 | h1
          · exact Or.inl h1
          · rcases held_set_other _ i _ (.lookupFresh k) x hi h1 with h2 | h2
            · exact Or.inr h2
            · cases h2
        · exact ⟨hcov, hnd, hle, hpos⟩
      · exact ⟨hcov, hnd, hle, hpos⟩
    | clear now =>
      refine ⟨?_, hnd, hle, hpos⟩
      intro x hx
      rcases hcov x hx with h1 | h1
      · exact Or.inl h1
      · rcases held_set_other _ i _ (.clearing (expiredKeys s.exp now s.m)) x hi h1 with h2 | h2
        · exact Or.inr h2
        · cases h2
  · -- addWrote k: lru.Add
    rename_i k hi
    have la := lru_add_items s.l k hnd hle hpos
    refine ⟨?_, la.2.1, la.2.2, by rw [lru_add_size]; exact hpos⟩
    intro x hx
    simp only at hx ⊢
    have hxk : x ∈ s.l.items ∨ x = k ∨ Held (s.threads.set i (match (s.l.add k).2 with
        | some old => Phase.evictPending old | none => Phase.idle)) x := by
      rcases hcov x hx with h1 | h1
      · exact Or.inl h1
      · rcases held_set_other _ i _ _ x hi h1 with h2 | h2
        · exact Or.inr (Or.inr h2)
        · simp only [Phase.held, Option.some.injEq] at h2; exact Or.inr (Or.inl h2.symm)
    rcases hxk with h1 | h1 | h1
    · rcases la.1 x (Or.inl h1) with h2 | h2
      · exact Or.inl h2
      · exact Or.inr (held_set_self _ i _ _ _ hi (by rw [h2]; rfl))
    · rcases la.1 x (Or.inr h1) with h2 | h2
      · exact Or.inl h2
      · exact Or.inr (held_set_self _ i _ _ _ hi (by rw [h2]; rfl))
    · exact Or.inr h1
  · -- lookupFresh k: lru.Add (refresh)
    rename_i k hi
    have la := lru_add_items s.l k hnd hle hpos
    refine ⟨?_, la.2.1, la.2.2, by rw [lru_add_size]; exact hpos⟩
    intro x hx
    simp only at hx ⊢
    rcases hcov x hx with h1 | h1
    · rcases la.1 x (Or.inl h1) with h2 | h2
      · exact Or.inl h2
      · exact Or.inr (held_set_self _ i _ _ _ hi (by rw [h2]; rfl))
    · rcases held_set_other _ i _ _ x hi h1 with h2 | h2
      · exact Or.inr h2
      · cases h2
  · -- evictPending old: the callback deletes from the verdict map
    rename_i old hi
    refine ⟨?_, hnd, hle, hpos⟩
    intro x hx
    simp only [HashMap.contains_erase, Bool.and_eq_true, Bool.not_eq_true', beq_eq_false_iff_ne] at hx
    rcases hcov x hx.2 with h1 | h1
    · exact Or.inl h1
    · rcases held_set_other _ i _ .idle x hi h1 with h2 | h2
      · exact Or.inr h2
      · simp only [Phase.held, Option.some.injEq] at h2; exact absurd h2 hx.1
  · -- clearing []: done
    rename_i hi
    refine ⟨?_, hnd, hle, hpos⟩
    intro x hx
    rcases hcov x hx with h1 | h1
    · exact Or.inl h1
    · rcases held_set_other _ i _ .idle x hi h1 with h2 | h2
      · exact Or.inr h2
      · cases h2
  · -- clearing (k :: ks): lru.Remove
    rename_i k ks hi
    have lr := lru_remove_items s.l k hnd hle
    refine ⟨?_, lr.2.1, lr.2.2.1, by rw [lr.2.2.2]; exact hpos⟩
    intro x hx
    simp only at hx ⊢
    rcases hcov x hx with h1 | h1
    · rcases lr.1 x h1 with h2 | ⟨h2, rfl⟩
      · exact Or.inl h2
      · exact Or.inr (held_set_self _ i _ _ _ hi (by rw [h2]; rfl))
    · rcases held_set_other _ i _ _ x hi h1 with h2 | h2
      · exact Or.inr h2
      · cases h2
  · -- clearingEvict old ks: the callback deletes from the verdict map
    rename_i old ks hi
    refine ⟨?_, hnd, hle, hpos⟩
    intro x hx
    simp only [HashMap.contains_erase, Bool.and_eq_true, Bool.not_eq_true', beq_eq_false_iff_ne] at hx
    rcases hcov x hx.2 with h1 | h1
    · exact Or.inl h1
    · rcases held_set_other _ i _ (.clearing ks) x hi h1 with h2 | h2
      · exact Or.inr h2
      · simp only [Phase.held, Option.some.injEq] at h2; exact absurd h2 hx.1

theorem cstep_size (s : CState) (i : Nat) (call : Call) : (cstep s i call).l.size = s.l.size := by
  unfold cstep
  split
  · rfl
  · cases call with
    | add now k => rfl
    | lookup now k =>
      simp only
      split
      · split <;> rfl
      · rfl
    | clear now => rfl
  · exact lru_add_size _ _
  · exact lru_add_size _ _
  · rfl
  · rfl
  · simp only [LRU.remove]; split <;> rfl
  · rfl

theorem crun_size (sched : List (Nat × Call)) (s : CState) : (crun s sched).l.size = s.l.size := by
  induction sched generalizing s with
  | nil => rfl
  | cons ic rest ih =>
    show (crun (cstep s ic.1 ic.2) rest).l.size = s.l.size
    rw [ih, cstep_size]

theorem cinv_run (sched : List (Nat × Call)) (s : CState) (h : CInv s) : CInv (crun s sched) := by
  induction sched generalizing s with
  | nil => exact h
  | cons ic rest ih => exact ih _ (cinv_step s ic.1 ic.2 h)

/-- a duplicate-free list contained in another list is not longer -/
theorem nodup_subset_length (l1 l2 : List String) (hnd : l1.Nodup) (hsub : ∀ x ∈ l1, x ∈ l2) :
    l1.length ≤ l2.length := by
  induction l1 generalizing l2 with
  | nil => simp
  | cons a r ih =>
    rw [List.nodup_cons] at hnd
    have ha : a ∈ l2 := hsub a (List.mem_cons_self ..)
    have : r.length ≤ (l2.erase a).length := by
      apply ih _ hnd.2
      intro x hx
      have hxa : x ≠ a := fun e => hnd.1 (e ▸ hx)
      exact (List.mem_erase_of_ne hxa).mpr (hsub x (List.mem_cons_of_mem _ hx))
    rw [List.length_erase_of_mem ha] at this
    have := List.length_pos_of_mem ha
    simp only [List.length_cons]
    omega

theorem length_filterMap_held (ts : List Phase) :
    (ts.filterMap Phase.held).length = (ts.filter Phase.inflight).length := by
  induction ts with
  | nil => rfl
  | cons p ts ih => cases p <;> simp [List.filterMap_cons, List.filter_cons, Phase.held, Phase.inflight, ih]

theorem cinv_size (s : CState) (h : CInv s) : s.m.size ≤ s.l.size + inflight s := by
  have hk : s.m.keys.length ≤ (s.l.items ++ s.threads.filterMap Phase.held).length := by
    apply nodup_subset_length
    · have := @HashMap.distinct_keys String Int _ _ s.m _ _
      exact this.imp (fun hab => by simpa using hab)
    · intro x hx
      have hx' : s.m.contains x = true := HashMap.mem_iff_contains.mp (HashMap.mem_keys.mp hx)
      rcases h.cover x hx' with h1 | ⟨j, p, hj, hp⟩
      · exact List.mem_append_left _ h1
      · exact List.mem_append_right _ (List.mem_filterMap.mpr ⟨p, List.mem_iff_getElem?.mpr ⟨j, hj⟩, hp⟩)
  rw [HashMap.length_keys, List.length_append, length_filterMap_held] at hk
  have := h.le
  unfold inflight
  omega

/-! ## the tester built by `New` -/

theorem newLRUCache_wf (d c : Int) : (newLRUCache d c).WF := by
  unfold newLRUCache
  apply lruinv_empty
  split
  · decide
  · omega

/-- the bound `Init` gives a cache with configured capacity `cap` -/
def boundFor (cap : Int) : Option Nat :=
  if cap = 0 then none else some (if cap ≤ 0 then defaultSizeLRU else cap.toNat)

theorem new_cacheFor (cfg : Config) (v : Bool) (c : Cache) (h : (new cfg).1.cacheFor v = some c) :
    ∃ d, cfg.dur v = .ok d ∧ c = (if cfg.cap v ≠ 0 then newLRUCache d (cfg.cap v) else newMapCache d) := by
  obtain ⟨dl, cl, dn, cn⟩ := cfg
  cases v <;> cases dl <;> cases dn <;>
    simp [new, initCached, Tester.cacheFor, Config.dur, Config.cap] at h ⊢ <;> exact h.symm

theorem new_cacheFor_some (cfg : Config) (v : Bool) (d : Int) (hd : cfg.dur v = .ok d) (hok : (new cfg).2 = none) :
    ∃ c, (new cfg).1.cacheFor v = some c := by
  obtain ⟨dl, cl, dn, cn⟩ := cfg
  cases v <;> cases dl <;> cases dn <;>
    simp [new, initCached, Tester.cacheFor, Config.dur] at hd hok ⊢

theorem new_facts (cfg : Config) (v : Bool) (c : Cache) (h : (new cfg).1.cacheFor v = some c) :
    cfg.dur v = .ok c.exp ∧ c.WF ∧ c.bound = boundFor (cfg.cap v) ∧ ∀ a : String, c.vmap[a]? = none := by
  obtain ⟨d, hd, rfl⟩ := new_cacheFor cfg v c h
  by_cases hc : cfg.cap v = 0
  · simp only [hc, ne_eq, not_true_eq_false, if_false, newMapCache, Cache.exp, Cache.WF, Cache.bound, boundFor,
      if_true, Cache.vmap]
    exact ⟨hd, trivial, trivial, fun a => by simp⟩
  · simp only [ne_eq, hc, not_false_eq_true, if_true, boundFor, if_false]
    refine ⟨hd, newLRUCache_wf _ _, ?_, ?_⟩
    · simp only [newLRUCache, Cache.bound]
    · intro a; simp [newLRUCache, Cache.vmap]

theorem new_tinv (cfg : Config) : TInv (new cfg).1 := fun v c h => (new_facts cfg v c h).2.1

theorem new_timeOf (cfg : Config) (v : Bool) (a : String) : (new cfg).1.timeOf v a = none := by
  unfold Tester.timeOf
  cases h : (new cfg).1.cacheFor v with
  | none => rfl
  | some c => exact (new_facts cfg v c h).2.2.2 a

theorem new_minv (cfg : Config) : MInv (new cfg).1 [] := by
  intro v a tm h; rw [new_timeOf] at h; cases h

theorem new_ginv (cfg : Config) (T : Int) : GInv (new cfg).1 [] T :=
  ⟨fun e he => (by cases he), fun v a tm h => (by rw [new_timeOf] at h; cases h)⟩

theorem run_expOf (ops : List Op) (t : Tester) (v : Bool) : (runFrom t ops).expOf v = t.expOf v := by
  induction ops generalizing t with
  | nil => rfl
  | cons o os ih =>
    show (runFrom (step t o).1 os).expOf v = t.expOf v
    rw [ih]
    cases o with
    | query now a p => exact (query_spec t now a p).expOf v
    | clear now => exact clear_expOf t now v

/-- after any history the lifetime of verdict `v`'s cache is the configured one -/
theorem run_lifetime (cfg : Config) (ops : List Op) (v : Bool) (e : Int)
    (h : (run cfg ops).expOf v = some e) : cfg.dur v = .ok e := by
  unfold run at h
  rw [run_expOf] at h
  unfold Tester.expOf at h
  cases hc : (new cfg).1.cacheFor v with
  | none => rw [hc] at h; cases h
  | some c =>
    rw [hc] at h
    simp only [Option.map_some, Option.some.injEq] at h
    rw [← h]; exact (new_facts cfg v c hc).1

/-! ## the event log of a history: measurements handed to a cache, entries that left a cache -/

inductive Ev
  | stored (tm : Int) (a : String) (v : Bool)   -- a probe of `a` at `tm` answered `v` (handed to verdict v's cache)
  | removed (a : String) (v : Bool)             -- the entry of `a` left verdict v's cache (LRU eviction or clean-up)
deriving Repr, DecidableEq

/-- the event concerns address `a` in verdict `v`'s cache -/
def Ev.about (a : String) (v : Bool) : Ev → Bool
  | .stored _ a' v' => a' == a && v' == v
  | .removed a' v' => a' == a && v' == v

/-- the addresses that have an entry in verdict `v`'s cache -/
def Tester.keysOf (t : Tester) (v : Bool) : List String :=
  match t.cacheFor v with
  | some c => c.vmap.keys
  | none => []

/-- the addresses whose entry is in verdict `v`'s cache in `t` and no longer in `t'` -/
def removedBy (t t' : Tester) (v : Bool) : List String :=
  (t.keysOf v).filter (fun k => (t'.timeOf v k).isNone)

/-- the events of one operation, newest first: every entry that disappeared during the operation
(whatever made it disappear), then the measurement the operation took (if it probed) -/
def evOf (t : Tester) (o : Op) : List Ev :=
  (removedBy t (step t o).1 true).map (Ev.removed · true) ++
    ((removedBy t (step t o).1 false).map (Ev.removed · false) ++
      (probeOf t o).map (fun p => Ev.stored p.1 p.2.1 p.2.2))

/-- the events of a history run from `t`, newest first, on top of `acc` -/
def evlogFrom (t : Tester) (acc : List Ev) : List Op → List Ev
  | [] => acc
  | o :: os => evlogFrom (step t o).1 (evOf t o ++ acc) os

/-- the newest event about address `a` in verdict `v`'s cache -/
def lastEv (log : List Ev) (a : String) (v : Bool) : Option Ev := log.find? (Ev.about a v)

theorem mem_keysOf (t : Tester) (v : Bool) (a : String) (tm : Int) (h : t.timeOf v a = some tm) :
    a ∈ t.keysOf v := by
  unfold Tester.timeOf at h
  unfold Tester.keysOf
  cases hc : t.cacheFor v with
  | none => rw [hc] at h; cases h
  | some c =>
    rw [hc] at h
    simp only [Option.bind_some] at h
    simp only
    rw [HashMap.mem_keys, HashMap.mem_iff_contains, HashMap.contains_eq_isSome_getElem?, h]
    rfl

theorem mem_removedBy (t t' : Tester) (v : Bool) (a : String) :
    a ∈ removedBy t t' v ↔ a ∈ t.keysOf v ∧ t'.timeOf v a = none := by
  unfold removedBy
  simp only [List.mem_filter, Option.isNone_iff_eq_none]

/-- the removal events of one verdict say nothing about an entry that exists after the operation -/
theorem removedPart_quiet (t t' : Tester) (w v : Bool) (a : String) (tm : Int) (h : t'.timeOf v a = some tm) :
    ((removedBy t t' w).map (Ev.removed · w)).find? (Ev.about a v) = none := by
  rw [List.find?_eq_none]
  intro x hx hab
  obtain ⟨k, hk, rfl⟩ := List.mem_map.mp hx
  simp only [Ev.about, Bool.and_eq_true, beq_iff_eq] at hab
  obtain ⟨rfl, rfl⟩ := hab
  have := ((mem_removedBy t t' w k).mp hk).2
  rw [this] at h; cases h

/-- every disappearance is logged: an entry that exists before an operation and not after it is a
`removed` event of that operation -/
theorem disappearance_logged (t : Tester) (o : Op) (v : Bool) (a : String) (tm : Int)
    (hb : t.timeOf v a = some tm) (ha : (step t o).1.timeOf v a = none) : Ev.removed a v ∈ evOf t o := by
  have hm : a ∈ removedBy t (step t o).1 v := (mem_removedBy _ _ _ _).mpr ⟨mem_keysOf t v a tm hb, ha⟩
  unfold evOf
  cases v
  · exact List.mem_append_right _ (List.mem_append_left _ (List.mem_map.mpr ⟨a, hm, rfl⟩))
  · exact List.mem_append_left _ (List.mem_map.mpr ⟨a, hm, rfl⟩)

/-- … and a `removed` event is only logged for an entry that did disappear -/
theorem removed_event_sound (t : Tester) (o : Op) (v : Bool) (a : String) (h : Ev.removed a v ∈ evOf t o) :
    a ∈ t.keysOf v ∧ (step t o).1.timeOf v a = none := by
  unfold evOf at h
  rcases List.mem_append.mp h with h | h
  · obtain ⟨k, hk, he⟩ := List.mem_map.mp h
    simp only [Ev.removed.injEq] at he
    obtain ⟨rfl, rfl⟩ := he
    exact (mem_removedBy _ _ _ _).mp hk
  · rcases List.mem_append.mp h with h | h
    · obtain ⟨k, hk, he⟩ := List.mem_map.mp h
      simp only [Ev.removed.injEq] at he
      obtain ⟨rfl, rfl⟩ := he
      exact (mem_removedBy _ _ _ _).mp hk
    · obtain ⟨p, _, he⟩ := List.mem_map.mp h
      cases he

/-- when an operation removed the entry of (a, v), that removal is the newest event about (a, v) -/
theorem lastEv_removed_of_step (t : Tester) (o : Op) (log : List Ev) (v : Bool) (a : String)
    (h : Ev.removed a v ∈ evOf t o) : lastEv (evOf t o ++ log) a v = some (.removed a v) := by
  -- the removals of an operation come before its measurement in the newest-first list
  unfold lastEv
  rw [List.find?_append]
  have hsome : ((evOf t o).find? (Ev.about a v)).isSome := by
    rw [List.find?_isSome]
    exact ⟨_, h, by simp [Ev.about]⟩
  cases hf : (evOf t o).find? (Ev.about a v) with
  | none => rw [hf] at hsome; cases hsome
  | some e =>
    simp only [Option.some_or]
    congr 1
    -- the first match is a removal: the stored event, if any, comes after all removals
    have hmem := List.mem_of_find?_eq_some hf
    have hab := List.find?_some hf
    cases e with
    | removed a' v' =>
      simp only [Ev.about, Bool.and_eq_true, beq_iff_eq] at hab
      rw [hab.1, hab.2]
    | stored ts a' v' =>
      exfalso
      simp only [Ev.about, Bool.and_eq_true, beq_iff_eq] at hab
      obtain ⟨rfl, rfl⟩ := hab
      -- a removal of (a', v') precedes it in the list, so `find?` cannot have skipped it
      unfold evOf at hf h
      rw [List.find?_append] at hf
      cases v' with
      | true =>
        have : (((removedBy t (step t o).1 true).map (Ev.removed · true)).find? (Ev.about a' true)).isSome := by
          rw [List.find?_isSome]
          rcases List.mem_append.mp h with h | h
          · exact ⟨_, h, by simp [Ev.about]⟩
          · rcases List.mem_append.mp h with h | h
            · obtain ⟨k, _, he⟩ := List.mem_map.mp h; cases he
            · obtain ⟨p, _, he⟩ := List.mem_map.mp h; cases he
        cases hq : ((removedBy t (step t o).1 true).map (Ev.removed · true)).find? (Ev.about a' true) with
        | none => rw [hq] at this; cases this
        | some e' =>
          rw [hq] at hf
          simp only [Option.some_or, Option.some.injEq] at hf
          have := List.mem_of_find?_eq_some hq
          rw [hf] at this
          obtain ⟨k, _, he⟩ := List.mem_map.mp this
          cases he
      | false =>
        have hnone : ((removedBy t (step t o).1 true).map (Ev.removed · true)).find? (Ev.about a' false) = none := by
          rw [List.find?_eq_none]
          intro x hx hab
          obtain ⟨k, _, rfl⟩ := List.mem_map.mp hx
          simp [Ev.about] at hab
        rw [hnone, Option.none_or, List.find?_append] at hf
        have : (((removedBy t (step t o).1 false).map (Ev.removed · false)).find? (Ev.about a' false)).isSome := by
          rw [List.find?_isSome]
          rcases List.mem_append.mp h with h | h
          · obtain ⟨k, _, he⟩ := List.mem_map.mp h; cases he
          · rcases List.mem_append.mp h with h | h
            · exact ⟨_, h, by simp [Ev.about]⟩
            · obtain ⟨p, _, he⟩ := List.mem_map.mp h; cases he
        cases hq : ((removedBy t (step t o).1 false).map (Ev.removed · false)).find? (Ev.about a' false) with
        | none => rw [hq] at this; cases this
        | some e' =>
          rw [hq] at hf
          simp only [Option.some_or, Option.some.injEq] at hf
          have := List.mem_of_find?_eq_some hq
          rw [hf] at this
          obtain ⟨k, _, he⟩ := List.mem_map.mp this
          cases he

/-- what one operation does to the stored time of (a', v), whatever the operation is -/
theorem step_timeOf (t : Tester) (o : Op) (v : Bool) (a' : String) (tm : Int)
    (h : (step t o).1.timeOf v a' = some tm) :
    t.timeOf v a' = some tm ∨ probeOf t o = [(tm, a', v)] := by
  cases o with
  | clear now => exact Or.inl (clear_timeOf t now v a' tm h)
  | query now a p =>
    rcases (query_spec t now a p).timeOf v a' tm h with hold | ⟨hout, rfl, rfl⟩
    · exact Or.inl hold
    · right; simp only [probeOf, hout]

/-- the measurement part of an operation's events says nothing about (a, v) unless the operation
probed `a` with verdict `v` -/
theorem storedPart_quiet (t : Tester) (o : Op) (v : Bool) (a : String)
    (h : ∀ tm, probeOf t o ≠ [(tm, a, v)]) :
    ((probeOf t o).map (fun p => Ev.stored p.1 p.2.1 p.2.2)).find? (Ev.about a v) = none := by
  rw [List.find?_eq_none]
  intro x hx hab
  obtain ⟨p, hp, rfl⟩ := List.mem_map.mp hx
  simp only [Ev.about, Bool.and_eq_true, beq_iff_eq] at hab
  cases o with
  | clear now => simp [probeOf] at hp
  | query now a0 p0 =>
    simp only [probeOf] at hp h
    split at hp
    · rename_i v0 hv0
      rw [List.mem_singleton] at hp
      subst hp
      simp only at hab
      apply h now
      rw [hv0, hab.1, hab.2]
    · cases hp

/-- an entry exists only while the newest event about it is a measurement -/
def EInv (t : Tester) (log : List Ev) : Prop :=
  ∀ v a tm, t.timeOf v a = some tm → ∃ ts, lastEv log a v = some (.stored ts a v)

theorem einv_step (t : Tester) (log : List Ev) (o : Op) (h : EInv t log) :
    EInv (step t o).1 (evOf t o ++ log) := by
  intro v a tm ht
  unfold lastEv evOf
  rw [List.append_assoc, List.append_assoc, List.find?_append, removedPart_quiet t _ true v a tm ht, Option.none_or,
    List.find?_append, removedPart_quiet t _ false v a tm ht, Option.none_or, List.find?_append]
  by_cases hp : ∃ ts, probeOf t o = [(ts, a, v)]
  · obtain ⟨ts, hp⟩ := hp
    refine ⟨ts, ?_⟩
    rw [hp]
    simp [Ev.about]
  · have hq : ∀ ts, probeOf t o ≠ [(ts, a, v)] := fun ts e => hp ⟨ts, e⟩
    rw [storedPart_quiet t o v a hq, Option.none_or]
    rcases step_timeOf t o v a tm ht with hold | hnew
    · exact h v a tm hold
    · exact absurd hnew (hq tm)

theorem einv_run (ops : List Op) (t : Tester) (log : List Ev) (h : EInv t log) :
    EInv (runFrom t ops) (evlogFrom t log ops) := by
  induction ops generalizing t log with
  | nil => exact h
  | cons o os ih => exact ih _ _ (einv_step t log o h)

theorem new_einv (cfg : Config) : EInv (new cfg).1 [] := by
  intro v a tm h; rw [new_timeOf] at h; cases h

theorem runFrom_append (t : Tester) (ops1 ops2 : List Op) :
    runFrom t (ops1 ++ ops2) = runFrom (runFrom t ops1) ops2 := by
  unfold runFrom; rw [List.foldl_append]

theorem evlogFrom_snoc (ops : List Op) (t : Tester) (acc : List Ev) (o : Op) :
    evlogFrom t acc (ops ++ [o]) = evOf (runFrom t ops) o ++ evlogFrom t acc ops := by
  induction ops generalizing t acc with
  | nil => rfl
  | cons o' os ih =>
    show evlogFrom (step t o').1 (evOf t o' ++ acc) (os ++ [o]) = _
    rw [ih]; rfl

theorem logFrom_acc (ops : List Op) (t : Tester) (acc : List Probe) :
    logFrom t acc ops = logFrom t [] ops ++ acc := by
  induction ops generalizing t acc with
  | nil => rfl
  | cons o os ih =>
    show logFrom (step t o).1 (probeOf t o ++ acc) os = logFrom (step t o).1 (probeOf t o ++ []) os ++ acc
    rw [ih _ (probeOf t o ++ acc), ih _ (probeOf t o ++ [])]
    simp

/-- an address that has no entry in verdict `v`'s cache gets one only by a probe that answers `v` -/
theorem absent_run (ops : List Op) (t : Tester) (v : Bool) (a : String) (h : t.timeOf v a = none)
    (hq : ∀ tm, (tm, a, v) ∉ logFrom t [] ops) : (runFrom t ops).timeOf v a = none := by
  induction ops generalizing t with
  | nil => exact h
  | cons o os ih =>
    show (runFrom (step t o).1 os).timeOf v a = none
    have hlog : logFrom t [] (o :: os) = logFrom (step t o).1 [] os ++ probeOf t o := by
      show logFrom (step t o).1 (probeOf t o ++ []) os = _
      rw [logFrom_acc]; simp
    apply ih
    · cases hs : (step t o).1.timeOf v a with
      | none => rfl
      | some tm =>
        rcases step_timeOf t o v a tm hs with hold | hnew
        · rw [h] at hold; cases hold
        · exfalso
          apply hq tm
          rw [hlog, hnew]
          exact List.mem_append_right _ (List.mem_singleton.mpr rfl)
    · intro tm hm
      apply hq tm
      rw [hlog]
      exact List.mem_append_left _ hm

end CJ.Liveness
