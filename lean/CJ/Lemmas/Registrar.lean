import CJ.Model.Registrar
/-! Lemmas about the registrar model: the pointer invariant of `processBdReq`, what the stage before the
subnet override leaves in the response, and the arithmetic of the weighted choice. -/
namespace CJ.Registrar

/-! ### heap updates do not move pointers -/

@[simp] theorem upd_rp (h : Heap) (b : Bool) (f : Resp → Resp) : (h.upd b f).rp = h.rp := by
  unfold Heap.upd; split <;> rfl
@[simp] theorem upd_wp (h : Heap) (b : Bool) (f : Resp → Resp) : (h.upd b f).wp = h.wp := by
  unfold Heap.upd; split <;> rfl
@[simp] theorem updR_rp (h : Heap) (f : Resp → Resp) : (h.updR f).rp = h.rp := by simp [Heap.updR]
@[simp] theorem updR_wp (h : Heap) (f : Resp → Resp) : (h.updR f).wp = h.wp := by simp [Heap.updR]
@[simp] theorem updW_rp (h : Heap) (f : Resp → Resp) : (h.updW f).rp = h.rp := by
  unfold Heap.updW; split <;> simp
@[simp] theorem updW_wp (h : Heap) (f : Resp → Resp) : (h.updW f).wp = h.wp := by
  unfold Heap.updW; split <;> simp

@[simp] theorem get_upd_same (h : Heap) (b : Bool) (f : Resp → Resp) : (h.upd b f).get b = f (h.get b) := by
  cases b <;> simp [Heap.upd, Heap.get]

theorem get_updR (h : Heap) (f : Resp → Resp) : (h.updR f).get h.rp = f (h.get h.rp) := by
  simp [Heap.updR]

theorem get_updW_aliased (h : Heap) (f : Resp → Resp) (hal : h.wp = some h.rp) :
    (h.updW f).get h.rp = f (h.get h.rp) := by
  simp [Heap.updW, hal]

/-- the state in which `processBdReq` enters the subnet override -/
structure Pre (req : Req) (sel : Option Nat) (h : Heap) : Prop where
  aliased : h.wp = some h.rp
  v4 : (h.get h.rp).v4 = sel
  port : (h.get h.rp).port.isSome = true
  noParams : req.disable = true → (h.get h.rp).params = none

/-- the IPv4 address the selector gave for this request (none: not asked for) -/
def selected4 (req : Req) (ext : Ext) : Option Nat :=
  if req.v4 then (match ext.sel4 with | .ok a _ => some a | _ => none) else none

theorem selStage_ok {req : Req} {ext : Ext} {r : Resp} {rp : Bool} (h : selStage req ext = .ok (r, rp)) :
    r.v4 = selected4 req ext ∧ r.params = none ∧ r.port = none := by
  unfold selStage at h
  unfold selected4
  cases hv4 : req.v4 <;> cases hv6 : req.v6 <;> cases h4 : ext.sel4 <;> cases h6 : ext.sel6 <;>
    simp [hv4, hv6, h4, h6] at h <;> (obtain ⟨rfl, _⟩ := h) <;> simp

theorem paramOverride_pre {req : Req} {ext : Ext} {h h' : Heap} (hal : h.wp = some h.rp)
    (ho : paramOverride req ext h = some h') :
    h'.wp = some h'.rp ∧ h'.rp = h.rp ∧ (h'.get h'.rp).v4 = (h.get h.rp).v4 := by
  rcases h with ⟨o0, o1, rp, wp⟩
  simp only at hal; subst hal
  unfold paramOverride at ho
  split at ho
  · cases ho; exact ⟨rfl, rfl, rfl⟩
  · split at ho
    · cases ho; exact ⟨rfl, rfl, rfl⟩
    · cases ho
    · split at ho
      · cases ho
      · cases ho
        cases rp <;> simp [Heap.updW, Heap.upd, Heap.get] <;> split <;> rfl

theorem ovStage_pre {cfg : Cfg} {req : Req} {ext : Ext} {h h' : Heap} (hal : h.wp = some h.rp)
    (hp : (h.get h.rp).params = none) (ho : ovStage cfg req ext h = some h') :
    h'.wp = some h'.rp ∧ (h'.get h'.rp).v4 = (h.get h.rp).v4 ∧
      (req.disable = true → (h'.get h'.rp).params = none) := by
  unfold ovStage at ho
  split at ho
  · rename_i hc
    split at ho
    · cases ho
    · rename_i h1 hpo
      cases ho
      obtain ⟨ha, hr, hv⟩ := paramOverride_pre hal hpo
      simp only [ha, Option.getD_some]
      refine ⟨trivial, hv, ?_⟩
      intro hd; simp [hd] at hc
  · cases ho
    rcases h with ⟨o0, o1, rp, wp⟩
    simp only at hal; subst hal
    cases rp <;> simp [Heap.updW, Heap.updR, Heap.upd, Heap.get]

theorem portStage_pre {rp : Bool} {ext : Ext} {h h' : Heap} (hal : h.wp = some h.rp)
    (ho : portStage rp ext h = some h') :
    h'.wp = some h'.rp ∧ (h'.get h'.rp).v4 = (h.get h.rp).v4 ∧ (h'.get h'.rp).params = (h.get h.rp).params ∧
      (h'.get h'.rp).port.isSome = true := by
  rcases h with ⟨o0, o1, r, wp⟩
  simp only at hal; subst hal
  unfold portStage at ho
  split at ho
  · split at ho
    · cases ho
    · cases ho
      cases r <;> simp [Heap.updR, Heap.upd, Heap.get]
  · cases ho
    cases r <;> simp [Heap.updR, Heap.upd, Heap.get]

/-- a successful first part of `processBdReq` leaves a state satisfying `Pre` -/
theorem preStage_ok {cfg : Cfg} {req : Req} {ext : Ext} {h0 : Heap} (h : preStage cfg req ext = .ok h0) :
    Pre req (selected4 req ext) h0 := by
  unfold preStage at h
  split at h
  · cases h
  · split at h
    · rename_i e he
      cases e <;> simp at h
      -- an error of the selection stage is never `ok`
      all_goals
        unfold selStage at he
        cases hv4 : req.v4 <;> cases hv6 : req.v6 <;> cases h4 : ext.sel4 <;> cases h6 : ext.sel6 <;>
          simp [hv4, hv6, h4, h6] at he
    · rename_i r0 rp hsel
      obtain ⟨hv4, hpar, _⟩ := selStage_ok hsel
      split at h
      · cases h
      · split at h
        · cases h
        · simp only at h
          split at h
          · cases h
          · rename_i h1 hov
            split at h
            · cases h
            · rename_i h2 hps
              cases h
              have hal0 : ({ o0 := r0, rp := false, wp := some false } : Heap).wp =
                  some ({ o0 := r0, rp := false, wp := some false } : Heap).rp := rfl
              obtain ⟨ha1, hv1, hd1⟩ := ovStage_pre hal0 (by simpa [Heap.get] using hpar) hov
              obtain ⟨ha2, hv2, hp2, hport⟩ := portStage_pre ha1 hps
              refine ⟨ha2, ?_, hport, ?_⟩
              · rw [hv2, hv1]; simpa [Heap.get] using hv4
              · intro hd; rw [hp2]; exact hd1 hd

/-- every successful `processBdReq` is the subnet override applied to a state satisfying `Pre` -/
theorem processBdReq_ok {cfg : Cfg} {req : Req} {ext : Ext} {hf : Heap} (h : processBdReq cfg req ext = .ok hf) :
    ∃ h0, preStage cfg req ext = .ok h0 ∧ Pre req (selected4 req ext) h0 ∧ hf = subnetOverride cfg req ext h0 := by
  unfold processBdReq at h
  split at h
  · rename_i h0 hp
    cases h
    exact ⟨h0, hp, preStage_ok hp, rfl⟩
  · rename_i e hne
    exact absurd h (hne hf)

/-! ### weighted choice -/

theorem chooseFrom_some (W a b : Nat) : ∀ (ws : List Nat) (idx acc i : Nat), ¬ a * W < b * acc →
    chooseFrom W a b idx acc ws = some i → ∃ k, i = idx + k ∧ ∃ hk : k < ws.length, 0 < ws[k] := by
  intro ws
  induction ws with
  | nil => intro idx acc i _ h; simp [chooseFrom] at h
  | cons w ws ih =>
    intro idx acc i hacc h
    simp only [chooseFrom] at h
    split at h
    · rename_i hlt
      cases h
      refine ⟨0, rfl, by simp, ?_⟩
      simp only [List.getElem_cons_zero]
      cases w with
      | zero => simp at hlt; exact absurd hlt hacc
      | succ n => omega
    · rename_i hnlt
      obtain ⟨k, rfl, hk, hpos⟩ := ih (idx + 1) (acc + w) i hnlt h
      exact ⟨k + 1, by omega, by simp; omega, by simpa using hpos⟩

/-- the chosen subnet exists and has a non-zero weight -/
theorem choose_some {ws : List Nat} {a b i : Nat} (h : choose ws a b = some i) :
    ∃ hi : i < ws.length, 0 < ws[i] := by
  obtain ⟨k, rfl, hk, hpos⟩ := chooseFrom_some (total ws) a b ws 0 0 i (by simp) h
  exact ⟨by simpa using hk, by simpa using hpos⟩

theorem chooseFrom_reach (W : Nat) (hW : 0 < W) : ∀ (suf : List Nat) (idx acc k : Nat) (hk : k < suf.length),
    0 < suf[k] → chooseFrom W (acc + (suf.take k).sum) W idx acc suf = some (idx + k) := by
  intro suf
  induction suf with
  | nil => intro idx acc k hk; simp at hk
  | cons w rest ih =>
    intro idx acc k hk hpos
    cases k with
    | zero =>
      simp only [List.getElem_cons_zero] at hpos
      simp only [List.take_zero, List.sum_nil, Nat.add_zero, chooseFrom]
      have : acc * W < W * (acc + w) := by
        rw [Nat.mul_comm acc W]
        exact Nat.mul_lt_mul_of_pos_left (by omega) hW
      simp [this]
    | succ k =>
      simp only [List.getElem_cons_succ] at hpos
      have hk' : k < rest.length := by simpa using hk
      simp only [List.take_succ_cons, List.sum_cons, chooseFrom]
      have : ¬ (acc + (w + (rest.take k).sum)) * W < W * (acc + w) := by
        rw [Nat.mul_comm _ W]
        intro hlt
        have := Nat.lt_of_mul_lt_mul_left hlt
        omega
      simp only [this, if_false]
      have := ih (idx + 1) (acc + w) k hk' hpos
      rw [show acc + (w + (rest.take k).sum) = acc + w + (rest.take k).sum by omega]
      rw [this]; congr 1; omega

theorem take_sum_lt_total (ws : List Nat) (i : Nat) (hi : i < ws.length) (hpos : 0 < ws[i]) :
    (ws.take i).sum < ws.sum := by
  induction ws generalizing i with
  | nil => simp at hi
  | cons w ws ih =>
    cases i with
    | zero => simp at hpos ⊢; omega
    | succ i =>
      simp only [List.getElem_cons_succ] at hpos
      have := ih i (by simpa using hi) hpos
      simp only [List.take_succ_cons, List.sum_cons]; omega

/-- every subnet with a non-zero weight is chosen for some draw `u = a / b ∈ [0, 1)` -/
theorem choose_reachable (ws : List Nat) (i : Nat) (hi : i < ws.length) (hpos : 0 < ws[i]) :
    ∃ a b, a < b ∧ choose ws a b = some i := by
  have hlt := take_sum_lt_total ws i hi hpos
  refine ⟨(ws.take i).sum, ws.sum, hlt, ?_⟩
  have := chooseFrom_reach (total ws) (by unfold total; omega) ws 0 0 i hi hpos
  simpa [choose, total] using this

/-! ### the subnet override, case by case -/

/-- what `subnetOverride` can do to the heap -/
inductive SubRes (cfg : Cfg) (req : Req) (ext : Ext) (h : Heap) : Heap → Prop
  | same : SubRes cfg req ext h h
  | minSub (s : Subnet) (ip : Nat) (hs : s ∈ cfg.minSubnets) (hw : 0 < s.weight)
      (hr : randAddr s ext.hostDraw = some ip) (ht : req.transport = 1)
      (hx : excluded cfg req.transport (h.get h.rp).v4 = false) :
      SubRes cfg req ext h (h.updR fun r => { r with v4 := some ip })
  | pfxSub (s : Subnet) (ip : Nat) (id : Int) (pre : String) (fl : Int) (hs : s ∈ cfg.prefixSubnets) (hw : 0 < s.weight)
      (hr : randAddr s ext.hostDraw = some ip) (ht : req.transport = 4) (hd : req.disable = false)
      (hp : s.pfx = some (id, pre, fl)) (hx : excluded cfg req.transport (h.get h.rp).v4 = false) :
      SubRes cfg req ext h { h with
        o1 := { (h.get h.rp) with port := some s.port,
                                  params := some (.pfx { prefixId := some id, flush := some fl, pbytes := some pre }),
                                  v4 := some ip },
        rp := true, wp := some true }

theorem chosen_mem {l : List Subnet} {a b i : Nat} {s : Subnet}
    (hc : choose (l.map (·.weight)) a b = some i) (hs : l[i]? = some s) : s ∈ l ∧ 0 < s.weight := by
  obtain ⟨hi, hpos⟩ := choose_some hc
  have hi' : i < l.length := by simpa using hi
  rw [List.getElem?_eq_getElem hi'] at hs
  cases hs
  exact ⟨List.getElem_mem hi', by simpa using hpos⟩

theorem subnetOverride_cases (cfg : Cfg) (req : Req) (ext : Ext) (h : Heap) :
    SubRes cfg req ext h (subnetOverride cfg req ext h) := by
  unfold subnetOverride
  split
  · exact .same
  · split
    · exact .same
    · rename_i hex
      have hex' : excluded cfg req.transport (h.get h.rp).v4 = false := by simpa using hex
      split
      · rename_i ht
        split
        · split
          · exact .same
          · rename_i i hc
            split
            · exact .same
            · rename_i s hs
              split
              · exact .same
              · rename_i ip hr
                obtain ⟨hm, hw⟩ := chosen_mem hc hs
                exact .minSub s ip hm hw hr (by simpa using ht) hex'
        · exact .same
      · split
        · rename_i ht
          split
          · rename_i hd
            split
            · split
              · exact .same
              · rename_i i hc
                split
                · exact .same
                · rename_i s hs
                  split
                  · exact .same
                  · rename_i ip hr
                    split
                    · exact .same
                    · rename_i id pre fl hp
                      obtain ⟨hm, hw⟩ := chosen_mem hc hs
                      exact .pfxSub s ip id pre fl hm hw hr (by simpa using ht) (by simpa using hd) hp hex'
            · exact .same
          · exact .same
        · exact .same

/-- an address drawn inside a well-formed subnet lies in it -/
theorem randAddr_contains {s : Subnet} {d ip : Nat} (hwf : s.wf) (h : randAddr s d = some ip) :
    s.contains ip = true := by
  unfold randAddr at h
  split at h
  · rename_i hv4
    cases h
    have hal := hwf hv4
    have hpos : 0 < s.hosts := by unfold Subnet.hosts; exact Nat.pos_of_ne_zero (by simp)
    have hlt : d % s.hosts < s.hosts := Nat.mod_lt _ hpos
    unfold Subnet.contains
    simp only [hv4, Bool.true_and, beq_iff_eq]
    obtain ⟨q, hq⟩ : ∃ q, s.base = s.hosts * q := ⟨s.base / s.hosts, by
      have := Nat.div_add_mod s.base s.hosts; omega⟩
    rw [hq, Nat.mul_add_div hpos, Nat.mul_div_cancel_left _ hpos, Nat.div_eq_of_lt hlt]
    simp
  · cases h

/-- a successful `processBdReq`, with the case of the subnet override that produced the final heap -/
theorem processBdReq_cases {cfg : Cfg} {req : Req} {ext : Ext} {hf : Heap} (h : processBdReq cfg req ext = .ok hf) :
    ∃ h0, preStage cfg req ext = .ok h0 ∧ Pre req (selected4 req ext) h0 ∧ SubRes cfg req ext h0 hf := by
  obtain ⟨h0, hp, hpre, rfl⟩ := processBdReq_ok h
  exact ⟨h0, hp, hpre, subnetOverride_cases cfg req ext h0⟩

/-- what an (un)authenticated registrar puts into RegRespBytes / RegRespSignature for the response it forwards -/
def signedBy (cfg : Cfg) (cresp : Option Resp) : Signed :=
  match cfg.authenticated, cresp with
  | true, some r => .registrar r
  | _, _ => .absent

/-- the conjuncts of `discardsClientFields` -/
theorem discards_iff {w : WrapperFacts} (hw : w.discardsClientFields = true) :
    w.otherUses.isEmpty = true ∧ w.fromClient .regRespBytes = false ∧ w.fromClient .regRespSignature = false ∧
    (w.always.contains .registrationResponse = true ∨ w.fromClient .registrationResponse = true) ∧
    (w.always.contains .sharedSecret = true ∨ w.fromClient .sharedSecret = true) ∧
    (w.always.contains .registrationPayload = true ∨ w.fromClient .registrationPayload = true) ∧
    w.assigned .regRespBytes = true ∧ w.assigned .regRespSignature = true := by
  unfold WrapperFacts.discardsClientFields at hw
  simp only [Bool.and_eq_true, Bool.or_eq_true, Bool.not_eq_true'] at hw
  obtain ⟨⟨⟨⟨⟨⟨⟨⟨h1, h2⟩, h3⟩, _⟩, h5⟩, h6⟩, h7⟩, h8⟩, h9⟩ := hw
  exact ⟨h1, h2, h3, h5, h6, h7, h8, h9⟩

/-- a wrapper that is rebuilt field by field carries the response it was given, the registrar's own signed
copy or none, and the client's secret and payload — whatever the client put into the other fields -/
theorem wrapper_ok {w : WrapperFacts} (hw : w.discardsClientFields = true) {cfg : Cfg} {req : Req}
    {cresp : Option Resp} {m : Nat} {a : Option String} {f : Fwd}
    (h : processC2SWrapper w cfg req cresp m a = some f) :
    f.resp = cresp ∧ f.respBytes = signedBy cfg cresp ∧ f.respSig = signedBy cfg cresp ∧
      f.secretKept = true ∧ f.payloadKept = true := by
  obtain ⟨_, hb, hs, hr, hsec, hpay, hab, has⟩ := discards_iff hw
  unfold processC2SWrapper at h
  split at h
  · cases h
  · cases h
    refine ⟨?_, ?_, ?_, ?_, ?_⟩
    · rcases hr with hr | hr <;> simp_all [wrapperStart]
    · simp only [hab, Bool.true_and, wrapperStart, hb, signedBy]
      cases cfg.authenticated <;> cases cresp <;> simp
    · simp only [has, Bool.true_and, wrapperStart, hs, signedBy]
      cases cfg.authenticated <;> cases cresp <;> simp
    · rcases hsec with hr | hr <;> simp_all [wrapperStart]
    · rcases hpay with hr | hr <;> simp_all [wrapperStart]

/-- a successful registration is a successful `processBdReq` whose heap yields both views -/
theorem register_ok {w : WrapperFacts} (hw : w.discardsClientFields = true) {cfg : Cfg} {req : Req} {ext : Ext}
    {m : Nat} {a : Option String} {c : Resp} {f : Fwd}
    (h : registerBidirectional w cfg req ext m a = .ok c f) :
    ∃ hf, processBdReq cfg { req with forgedResp := none } ext = .ok hf ∧ c = hf.get hf.rp ∧
      f.resp = hf.wp.map hf.get ∧ f.respBytes = signedBy cfg (hf.wp.map hf.get) ∧
      f.respSig = signedBy cfg (hf.wp.map hf.get) ∧ f.secretKept = true ∧ f.payloadKept = true := by
  unfold registerBidirectional at h
  simp only at h
  split at h
  · cases h
  · cases h
  · rename_i hf hbd
    split at h
    · cases h
    · rename_i fw hfw
      split at h
      · cases h
        obtain ⟨h1, h2, h3, h4, h5⟩ := wrapper_ok hw hfw
        exact ⟨hf, hbd, rfl, h1, h2, h3, h4, h5⟩
      · cases h

/-- the response state after `processBdReq`: both pointers name one object, whatever the subnet override did -/
theorem final_aliased {cfg : Cfg} {req : Req} {ext : Ext} {hf : Heap} (h : processBdReq cfg req ext = .ok hf) :
    hf.wp = some hf.rp := by
  obtain ⟨h0, _, hpre, hsr⟩ := processBdReq_cases h
  cases hsr with
  | same => exact hpre.aliased
  | minSub s ip hs hw hr ht hx => simp [hpre.aliased]
  | pfxSub s ip id pre fl hs hw hr ht hd hp hx => rfl

/-- the wrapper stage fails only on the secret: if it succeeds for one response it succeeds for any other -/
theorem wrapper_some_of_some {w : WrapperFacts} {cfg : Cfg} {req : Req} {cresp : Option Resp} {m : Nat}
    {a : Option String} {f : Fwd} (h : processC2SWrapper w cfg req cresp m a = some f) (cresp' : Option Resp) :
    ∃ f', processC2SWrapper w cfg req cresp' m a = some f' := by
  unfold processC2SWrapper at h ⊢
  split at h
  · cases h
  · rename_i hsec; simp [hsec]

/-- if a registration succeeds, it also succeeds with other draws for which `processBdReq` succeeds: the
client then gets what `regResp` points to in the new final heap -/
theorem register_with_heap {w : WrapperFacts} {cfg : Cfg} {req : Req} {ext ext' : Ext} {m : Nat} {a : Option String}
    {c0 : Resp} {f0 : Fwd} (h0 : registerBidirectional w cfg req ext m a = .ok c0 f0)
    (hsend : ext'.sendOk = ext.sendOk) {hf' : Heap}
    (hbd' : processBdReq cfg { req with forgedResp := none } ext' = .ok hf') :
    ∃ f, registerBidirectional w cfg req ext' m a = .ok (hf'.get hf'.rp) f := by
  unfold registerBidirectional at h0 ⊢
  simp only at h0 ⊢
  rw [hbd']
  simp only
  split at h0
  · cases h0
  · cases h0
  · split at h0
    · cases h0
    · rename_i fw hfw
      split at h0
      · rename_i hs
        obtain ⟨fw', hfw'⟩ := wrapper_some_of_some hfw (hf'.wp.map hf'.get)
        refine ⟨fw', ?_⟩
        rw [hfw']
        simp only
        rw [hsend, if_pos hs]
      · cases h0

/-! ### the station's rule -/

/-- whenever the station builds a registration from a wrapper that carries a response, the address of the
family being built, the port and the parameters are the response's (by the rule of the client) -/
theorem stationApply_ok {v6 disable : Bool} {cp : Option Params} {dC dR : Derived} {src : IPKind} {r : Resp}
    {ph : Addr} {port : Nat} {ps : Option Params}
    (h : stationApply v6 disable cp dC dR src (some r) = .ok ph port ps) :
    (v6 = false → ∀ x, r.v4 = some x → x ≠ 0 → ph = .v4 x) ∧
    (v6 = true → ∀ x, r.v6 = some x → ph = .raw x) ∧
    (∀ p, r.port = some p → port = p % 65536) ∧
    ps = (if r.params.isSome && !disable then r.params else cp) := by
  unfold stationApply at h
  split at h
  · cases h
  · split at h
    · cases h
    · split at h
      · cases h
      · split at h
        · cases h
        · cases h
          refine ⟨?_, ?_, ?_, rfl⟩
          · intro hv x hx hne; simp [stationOverride, hv, hx, hne]
          · intro hv x hx; simp [stationOverride, hv, hx]
          · intro p hp; simp [stationPort, hp]

theorem stationApply_accepts {v6 disable : Bool} {cp : Option Params} {dC dR : Derived} {src : IPKind} {r : Resp}
    (hder : stationDerived disable dC dR (some r) ≠ .fail)
    (hsrc : src ≠ .invalid) (h4 : v6 = false → src = .v4)
    (h6 : v6 = true → ∃ x, r.v6 = some x ∧ ipKind x = .v6) :
    ∃ ph port ps, stationApply v6 disable cp dC dR src (some r) = .ok ph port ps := by
  unfold stationApply
  cases hd : stationDerived disable dC dR (some r) with
  | fail => exact absurd hd hder
  | ok dph dport =>
    simp only
    cases v6 with
    | false =>
      have hs := h4 rfl
      subst hs
      cases hv : r.v4 with
      | none => simp [stationOverride, overrideBad, hv]
      | some x =>
        by_cases hx : x = 0
        · simp [stationOverride, overrideBad, hv, hx]
        · simp [stationOverride, overrideBad, hv, hx, Addr.kind]
    | true =>
      obtain ⟨x, hx, hk⟩ := h6 rfl
      cases src with
      | invalid => exact absurd rfl hsrc
      | v4 => simp [stationOverride, overrideBad, hx, Addr.kind, hk]
      | v6 => simp [stationOverride, overrideBad, hx, Addr.kind, hk]

end CJ.Registrar
