import CJ.Model.AtomicStore
/-! Helper lemmas about the atomic-store model: what one answered system call preserves. -/
namespace CJ.AtomicStore

theorem FS.set_same (fs : FS) (p : Path) (v : Option Bytes) : (fs.set p v) p = v := by
  simp [FS.set]

theorem FS.set_other (fs : FS) (p q : Path) (v : Option Bytes) (h : q ≠ p) : (fs.set p v) q = fs q := by
  simp [FS.set, h]

/-- What is true of the file system at each program point of a store of `buf` that started when the
target held `old`: the target still holds `old` until the rename has succeeded, the temporary file
holds exactly the bytes accepted so far, and after `ret` the target is `old` (error) or `buf`. -/
def PcOK (buf : Bytes) (old : Option Bytes) (fs : FS) (tmp target : Path) : Pc → Prop
  | .openTmp b => b = buf ∧ fs target = old
  | .write b off => b = buf ∧ fs target = old ∧ off ≤ buf.length ∧ fs tmp = some (buf.take off)
  | .close b werr => b = buf ∧ fs target = old ∧ (werr = false → fs tmp = some buf)
  | .rename b => b = buf ∧ fs target = old ∧ fs tmp = some buf
  | .ret true => fs target = old
  | .ret false => fs target = some buf

/-- at every program point the target holds the old content or the complete new content -/
theorem PcOK.target {buf old fs tmp target pc} (h : PcOK buf old fs tmp target pc) :
    fs target = old ∨ fs target = some buf := by
  cases pc with
  | openTmp b => exact Or.inl h.2
  | write b off => exact Or.inl h.2.1
  | close b w => exact Or.inl h.2.1
  | rename b => exact Or.inl h.2.1
  | ret e => cases e with
    | true => exact Or.inl h
    | false => exact Or.inr h

/-- before the store has returned the target is untouched -/
theorem PcOK.target_running {buf old fs tmp target pc} (h : PcOK buf old fs tmp target pc)
    (hr : isRet pc = none) : fs target = old := by
  cases pc with
  | openTmp b => exact h.2
  | write b off => exact h.2.1
  | close b w => exact h.2.1
  | rename b => exact h.2.1
  | ret e => simp [isRet] at hr

theorem take_append_drop_take (buf : Bytes) (off k : Nat) :
    buf.take off ++ (buf.drop off).take k = buf.take (off + k) := by
  rw [List.take_add]

/-- one answered system call preserves `PcOK` -/
theorem next_ok {buf old fs tmp target pc r pc' fs'} (hne : tmp ≠ target)
    (h : PcOK buf old fs tmp target pc) (hn : next target tmp fs pc r = some (pc', fs')) :
    PcOK buf old fs' tmp target pc' := by
  have hne' : target ≠ tmp := fun e => hne e.symm
  cases pc with
  | openTmp b =>
    obtain ⟨rfl, ht⟩ := h
    cases r with
    | ok =>
      simp only [next, Option.some.injEq, Prod.mk.injEq] at hn
      obtain ⟨rfl, rfl⟩ := hn
      refine ⟨rfl, ?_, Nat.zero_le _, ?_⟩
      · rw [FS.set_other _ _ _ _ hne']; exact ht
      · rw [FS.set_same]; simp
    | fail =>
      simp only [next, Option.some.injEq, Prod.mk.injEq] at hn
      obtain ⟨rfl, rfl⟩ := hn
      exact ht
    | wrote k => simp [next] at hn
  | write b off =>
    obtain ⟨rfl, ht, hoff, htmp⟩ := h
    cases r with
    | ok => simp [next] at hn
    | fail =>
      simp only [next, Option.some.injEq, Prod.mk.injEq] at hn
      obtain ⟨rfl, rfl⟩ := hn
      exact ⟨rfl, ht, by intro h; cases h⟩
    | wrote k =>
      simp only [next] at hn
      split at hn
      · cases hn
      · rename_i hk
        have hk' : k ≤ b.length - off := by
          have := Nat.le_of_not_gt hk
          exact Nat.le_trans this (Nat.min_le_left _ _)
        rw [htmp] at hn
        simp only at hn
        have hfs : ∀ q, q = target →
            (fs.set tmp (some (b.take off ++ (b.drop off).take k))) q = old := by
          intro q hq; subst hq; rw [FS.set_other _ _ _ _ hne']; exact ht
        have htmp' : (fs.set tmp (some (b.take off ++ (b.drop off).take k))) tmp
            = some (b.take (off + k)) := by
          rw [FS.set_same, take_append_drop_take]
        split at hn
        · rename_i hfull
          simp only [Option.some.injEq, Prod.mk.injEq] at hn
          obtain ⟨rfl, rfl⟩ := hn
          refine ⟨rfl, hfs _ rfl, ?_⟩
          intro _
          rw [htmp', hfull, List.take_length]
        · split at hn
          · simp only [Option.some.injEq, Prod.mk.injEq] at hn
            obtain ⟨rfl, rfl⟩ := hn
            exact ⟨rfl, hfs _ rfl, by intro h; cases h⟩
          · simp only [Option.some.injEq, Prod.mk.injEq] at hn
            obtain ⟨rfl, rfl⟩ := hn
            exact ⟨rfl, hfs _ rfl, by omega, htmp'⟩
  | close b w =>
    obtain ⟨rfl, ht, htmp⟩ := h
    cases r with
    | ok =>
      simp only [next, Option.some.injEq, Prod.mk.injEq] at hn
      obtain ⟨rfl, rfl⟩ := hn
      cases w with
      | true => exact ht
      | false => exact ⟨rfl, ht, htmp rfl⟩
    | fail =>
      simp only [next, Option.some.injEq, Prod.mk.injEq] at hn
      obtain ⟨rfl, rfl⟩ := hn
      exact ht
    | wrote k => simp [next] at hn
  | rename b =>
    obtain ⟨rfl, ht, htmp⟩ := h
    cases r with
    | ok =>
      simp only [next, Option.some.injEq, Prod.mk.injEq] at hn
      obtain ⟨rfl, rfl⟩ := hn
      show ((fs.set target (fs tmp)).set tmp none) target = some b
      rw [FS.set_other _ _ _ _ hne', FS.set_same, htmp]
    | fail =>
      simp only [next, Option.some.injEq, Prod.mk.injEq] at hn
      obtain ⟨rfl, rfl⟩ := hn
      exact ht
    | wrote k => simp [next] at hn
  | ret e => cases r <;> simp [next] at hn

/-- an answered system call changes no path other than the temporary file and the target -/
theorem next_frame {fs tmp target pc r pc' fs'} (hn : next target tmp fs pc r = some (pc', fs'))
    (p : Path) (hp1 : p ≠ target) (hp2 : p ≠ tmp) : fs' p = fs p := by
  cases pc with
  | openTmp b =>
    cases r with
    | ok =>
      simp only [next, Option.some.injEq, Prod.mk.injEq] at hn
      obtain ⟨_, rfl⟩ := hn
      exact FS.set_other _ _ _ _ hp2
    | fail =>
      simp only [next, Option.some.injEq, Prod.mk.injEq] at hn
      obtain ⟨_, rfl⟩ := hn; rfl
    | wrote k => simp [next] at hn
  | write b off =>
    cases r with
    | ok => simp [next] at hn
    | fail =>
      simp only [next, Option.some.injEq, Prod.mk.injEq] at hn
      obtain ⟨_, rfl⟩ := hn; rfl
    | wrote k =>
      simp only [next] at hn
      have key : ∀ fs'' : FS, (fs'' = match fs tmp with
          | some c => fs.set tmp (some (c ++ (b.drop off).take k))
          | none => fs) → fs'' p = fs p := by
        intro fs'' h
        rw [h]
        split
        · exact FS.set_other _ _ _ _ hp2
        · rfl
      split at hn
      · cases hn
      · split at hn
        · simp only [Option.some.injEq, Prod.mk.injEq] at hn
          exact key _ hn.2.symm
        · split at hn
          · simp only [Option.some.injEq, Prod.mk.injEq] at hn
            exact key _ hn.2.symm
          · simp only [Option.some.injEq, Prod.mk.injEq] at hn
            exact key _ hn.2.symm
  | close b w =>
    cases r with
    | ok =>
      simp only [next, Option.some.injEq, Prod.mk.injEq] at hn
      obtain ⟨_, rfl⟩ := hn; rfl
    | fail =>
      simp only [next, Option.some.injEq, Prod.mk.injEq] at hn
      obtain ⟨_, rfl⟩ := hn; rfl
    | wrote k => simp [next] at hn
  | rename b =>
    cases r with
    | ok =>
      simp only [next, Option.some.injEq, Prod.mk.injEq] at hn
      obtain ⟨_, rfl⟩ := hn
      show ((fs.set target (fs tmp)).set tmp none) p = fs p
      rw [FS.set_other _ _ _ _ hp2, FS.set_other _ _ _ _ hp1]
    | fail =>
      simp only [next, Option.some.injEq, Prod.mk.injEq] at hn
      obtain ⟨_, rfl⟩ := hn; rfl
    | wrote k => simp [next] at hn
  | ret e => cases r <;> simp [next] at hn

/-! ### several stores at once -/

/-- what a store that has not returned knows about its own temporary file (the conjunct about the
target in `PcOK` is instantiated with the target's *current* content, so it says nothing) -/
def TaskOK (target : Path) (fs : FS) (t : CTask) : Prop :=
  isRet t.pc = none → PcOK t.buf (fs target) fs t.tmp target t.pc

/-- `TaskOK` only looks at the store's own temporary file -/
theorem TaskOK.congr {target : Path} {fs fs' : FS} {t : CTask} (h : TaskOK target fs t)
    (hf : fs' t.tmp = fs t.tmp) : TaskOK target fs' t := by
  intro hr
  have h' := h hr
  obtain ⟨tmp, buf, pc⟩ := t
  cases pc with
  | openTmp b => exact ⟨h'.1, rfl⟩
  | write b off => exact ⟨h'.1, rfl, h'.2.2.1, by rw [hf]; exact h'.2.2.2⟩
  | close b w => exact ⟨h'.1, rfl, fun hw => by rw [hf]; exact h'.2.2 hw⟩
  | rename b => exact ⟨h'.1, rfl, by rw [hf]; exact h'.2.2⟩
  | ret e => simp [isRet] at hr

/-- one answered system call of a store: it still knows its temporary file, and the target is
untouched or holds the store's complete bytes -/
theorem TaskOK.act {target : Path} {fs fs' : FS} {t : CTask} {r : Res} {pc' : Pc}
    (hne : t.tmp ≠ target) (h : TaskOK target fs t)
    (hn : next target t.tmp fs t.pc r = some (pc', fs')) :
    TaskOK target fs' { t with pc := pc' } ∧ (fs' target = fs target ∨ fs' target = some t.buf) := by
  have hr : isRet t.pc = none := by
    cases hp : t.pc with
    | ret e => rw [hp] at hn; cases r <;> simp [next] at hn
    | _ => rfl
  have hok := next_ok hne (h hr) hn
  refine ⟨?_, hok.target⟩
  intro hr'
  have ht : fs' target = fs target := hok.target_running hr'
  show PcOK t.buf (fs' target) fs' t.tmp target pc'
  rw [ht]; exact hok

end CJ.AtomicStore
