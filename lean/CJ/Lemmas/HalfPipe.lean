import CJ.Model.HalfPipe
/-!
# Lemmas about the relay loop (`CJ.Model.HalfPipe`)
Core Lean only.
-/
namespace CJ.HalfPipe

/-- concatenation of everything a read script returns -/
def allBytes (rs : List ReadRes) : Bytes := (rs.map (·.bytes)).flatten

/-- the reads that are actually performed when nothing else fails: up to and including the first one
that carries an error -/
def consumed : List ReadRes → List ReadRes
  | [] => []
  | r :: rs => if r.err.isSome then [r] else r :: consumed rs

/-- every scripted write accepts a whole buffer and reports no error -/
def noWriteFault (ws : List WriteRes) : Prop := ∀ w ∈ ws, w.err = none ∧ bufLen ≤ w.accepted

/-- every deadline call succeeds, directly or through the `SetReadDeadline` fallback -/
def allDlOk (ds : List DlRes) : Prop := ∀ d ∈ ds, d.succeeds = true

/-- `io.Reader` contract: a read returns at most `len(buf)` bytes -/
def conforming (rs : List ReadRes) : Prop := ∀ r ∈ rs, r.bytes.length ≤ bufLen

/-- The loop stops at the first failing call: every event but the last is a success, except that a read
which returned an error may be followed by exactly one final write (of the bytes that came with it). -/
def stopsAtFailure : List Ev → Prop
  | [] => True
  | [_] => True
  | e :: e' :: rest =>
    (e.ok = true ∨ ((∃ n b, e = .read n b) ∧ (∃ o n b, e' = .write o n b) ∧ rest = [])) ∧
      stopsAtFailure (e' :: rest)

@[simp] theorem allBytes_nil : allBytes [] = [] := rfl
@[simp] theorem allBytes_cons (r : ReadRes) (rs : List ReadRes) :
    allBytes (r :: rs) = r.bytes ++ allBytes rs := by simp [allBytes]

theorem allBytes_append (a b : List ReadRes) : allBytes (a ++ b) = allBytes a ++ allBytes b := by
  simp [allBytes]

/-! ### prepend -/

@[simp] theorem prepend_trace (evs chunk n) (r : Res) : (r.prepend evs chunk n).trace = evs ++ r.trace := rfl
@[simp] theorem prepend_delivered (evs chunk n) (r : Res) :
    (r.prepend evs chunk n).delivered = chunk ++ r.delivered := rfl
@[simp] theorem prepend_counted (evs chunk n) (r : Res) : (r.prepend evs chunk n).counted = n + r.counted := rfl
@[simp] theorem prepend_dlFail (evs chunk n) (r : Res) : (r.prepend evs chunk n).dlFail = r.dlFail := rfl

/-! ### deadlines -/

theorem popDl_ok (ds : List DlRes) (h : allDlOk ds) : (popDl ds).1.succeeds = true ∧ allDlOk (popDl ds).2 := by
  cases ds with
  | nil => exact ⟨rfl, by intro d hd; cases hd⟩
  | cons d t =>
    refine ⟨h d (by simp), ?_⟩
    intro x hx
    exact h x (by simp [popDl] at hx ⊢; exact Or.inr hx)

/-- with an all-ok script both deadlines are armed -/
theorem armBoth_ok (ds : List DlRes) (h : allDlOk ds) :
    ∃ evs ds', armBoth ds = (evs, none, ds') ∧ allDlOk ds' := by
  obtain ⟨h1, h1'⟩ := popDl_ok ds h
  obtain ⟨h2, h2'⟩ := popDl_ok (popDl ds).2 h1'
  refine ⟨[.dl true true (popDl ds).1.viaFallback, .dl false true (popDl (popDl ds).2).1.viaFallback],
    (popDl (popDl ds).2).2, ?_, h2'⟩
  simp [armBoth, arm, h1, h2]

/-- shape of the events of `armBoth` -/
theorem armBoth_cases (ds : List DlRes) :
    (∃ f ds', armBoth ds = ([.dl true false f], some true, ds')) ∨
    (∃ f1 f2 ds', armBoth ds = ([.dl true true f1, .dl false false f2], some false, ds')) ∨
    (∃ f1 f2 ds', armBoth ds = ([.dl true true f1, .dl false true f2], none, ds')) := by
  unfold armBoth arm
  cases h1 : (popDl ds).1.succeeds <;> cases h2 : (popDl (popDl ds).2).1.succeeds <;> simp [h1, h2]

/-! ### stopsAtFailure -/

theorem stops_append_ok (pre t : List Ev) (hpre : ∀ e ∈ pre, e.ok = true) (ht : stopsAtFailure t) :
    stopsAtFailure (pre ++ t) := by
  induction pre with
  | nil => simpa using ht
  | cons e pre ih =>
    have ih' := ih (fun x hx => hpre x (by simp [hx]))
    have he : e.ok = true := hpre e (by simp)
    cases hpt : pre ++ t with
    | nil => show stopsAtFailure (e :: (pre ++ t)); rw [hpt]; trivial
    | cons e' rest =>
      rw [hpt] at ih'
      show stopsAtFailure (e :: (pre ++ t))
      rw [hpt]
      exact ⟨Or.inl he, ih'⟩

/-! ### the write step -/

theorem writeStep_chunk_prefix (bs : Bytes) (ws : List WriteRes) : (writeStep bs ws).chunk <+: bs := by
  unfold writeStep
  exact List.IsPrefix.trans (List.take_prefix _ _) (List.take_prefix _ _)

theorem writeStep_nw (bs : Bytes) (ws : List WriteRes) : (writeStep bs ws).nw = (writeStep bs ws).chunk.length := by
  unfold writeStep
  simp only [List.length_take]
  omega

/-- a write that did not fail delivered the whole chunk that was read -/
theorem writeStep_ok_chunk (bs : Bytes) (ws : List WriteRes) (h : (writeStep bs ws).ew = none) :
    (writeStep bs ws).chunk = bs := by
  unfold writeStep at h ⊢
  simp only at h ⊢
  cases hw : (popW ws).1.err with
  | some e => simp [hw] at h
  | none =>
    simp only [hw] at h
    split at h
    · cases h
    · rename_i hn
      have hn' : min (popW ws).1.accepted (List.take bufLen bs).length = bs.length := by
        simpa using hn
      have hlen : (List.take bufLen bs).length = bs.length := by
        have := List.length_take_le bufLen bs
        simp only [List.length_take] at hn' ⊢
        omega
      have htake : List.take bufLen bs = bs := by
        apply List.take_of_length_le
        simp only [List.length_take] at hlen
        omega
      rw [hn', htake]
      exact List.take_length

theorem writeStep_ev (bs : Bytes) (ws : List WriteRes) :
    ∃ o n, (writeStep bs ws).ev = .write o n (writeStep bs ws).ew.isSome := ⟨_, _, rfl⟩

/-- with a fault-free write script and a conforming read, the write does not fail -/
theorem writeStep_noFault (bs : Bytes) (ws : List WriteRes) (hw : noWriteFault ws) (hb : bs.length ≤ bufLen) :
    (writeStep bs ws).ew = none ∧ noWriteFault (writeStep bs ws).ws := by
  cases ws with
  | nil =>
    constructor
    · simp [writeStep, popW, List.length_take]; omega
    · intro w hw'; simp [writeStep, popW] at hw'
  | cons w t =>
    obtain ⟨he, ha⟩ := hw w (by simp)
    constructor
    · simp [writeStep, popW, he, List.length_take]; omega
    · intro x hx
      exact hw x (by simp [writeStep, popW] at hx; simp [hx])

/-! ### the loop -/

theorem loop_prefix (rs : List ReadRes) : ∀ ws ds, (loop rs ws ds).delivered <+: allBytes rs := by
  induction rs with
  | nil => intro ws ds; simp [loop]
  | cons r rs ih =>
    intro ws ds
    have hk : ∀ (er : Option Err) (ws' : List WriteRes),
        (afterWrite er ds (fun ds' => loop rs ws' ds')).delivered <+: allBytes rs := by
      intro er ws'
      unfold afterWrite
      cases er with
      | some e => simp
      | none =>
        rcases armBoth_cases ds with ⟨f, d', h⟩ | ⟨f1, f2, d', h⟩ | ⟨f1, f2, d', h⟩ <;> simp [h]
        exact ih ws' d'
    simp only [loop, allBytes_cons]
    split
    · split
      · -- write failed
        exact List.IsPrefix.trans (writeStep_chunk_prefix _ _) (List.prefix_append _ _)
      · rename_i hnone
        rw [prepend_delivered, writeStep_ok_chunk _ _ hnone]
        exact (List.prefix_append_right_inj _).mpr (hk _ _)
    · rename_i hz
      have : r.bytes = [] := by
        cases hb : r.bytes with
        | nil => rfl
        | cons a t => simp [hb] at hz
      rw [prepend_delivered, this]
      simpa using hk _ _

theorem loop_counted (rs : List ReadRes) : ∀ ws ds, (loop rs ws ds).counted = (loop rs ws ds).delivered.length := by
  induction rs with
  | nil => intro ws ds; simp [loop]
  | cons r rs ih =>
    intro ws ds
    have hk : ∀ (er : Option Err) (ws' : List WriteRes),
        (afterWrite er ds (fun ds' => loop rs ws' ds')).counted =
          (afterWrite er ds (fun ds' => loop rs ws' ds')).delivered.length := by
      intro er ws'
      unfold afterWrite
      cases er with
      | some e => simp
      | none =>
        rcases armBoth_cases ds with ⟨f, d', h⟩ | ⟨f1, f2, d', h⟩ | ⟨f1, f2, d', h⟩ <;> simp [h]
        exact ih ws' d'
    simp only [loop]
    split
    · split
      · exact writeStep_nw _ _
      · simp only [prepend_counted, prepend_delivered, List.length_append, hk, writeStep_nw]
    · simp only [prepend_counted, prepend_delivered, List.length_append, hk]; simp

theorem loop_complete (rs : List ReadRes) : ∀ ws ds, noWriteFault ws → allDlOk ds → conforming rs →
    (loop rs ws ds).delivered = allBytes (consumed rs) := by
  induction rs with
  | nil => intro ws ds _ _ _; simp [loop, consumed]
  | cons r rs ih =>
    intro ws ds hw hd hc
    have hcr : conforming rs := fun x hx => hc x (by simp [hx])
    have hk : ∀ (ws' : List WriteRes), noWriteFault ws' →
        (afterWrite r.err ds (fun ds' => loop rs ws' ds')).delivered =
          if r.err.isSome then [] else allBytes (consumed rs) := by
      intro ws' hw'
      unfold afterWrite
      cases r.err with
      | some e => simp
      | none =>
        obtain ⟨evs, ds', h, hd'⟩ := armBoth_ok ds hd
        simp [h]
        exact ih ws' ds' hw' hd' hcr
    have hcons : allBytes (consumed (r :: rs)) = r.bytes ++ (if r.err.isSome then [] else allBytes (consumed rs)) := by
      simp only [consumed]
      split <;> simp
    rw [hcons]
    simp only [loop]
    split
    · obtain ⟨hnf, hws⟩ := writeStep_noFault r.bytes ws hw (hc r (by simp))
      split
      · rename_i e he; rw [hnf] at he; cases he
      · rw [prepend_delivered, writeStep_ok_chunk _ _ hnf, hk _ hws]
    · rename_i hz
      have : r.bytes = [] := by
        cases hb : r.bytes with
        | nil => rfl
        | cons a t => simp [hb] at hz
      rw [prepend_delivered, this, hk _ hw]

theorem afterWrite_stops (er : Option Err) (ds : List DlRes) (k : List DlRes → Res)
    (hk : ∀ ds', stopsAtFailure (k ds').trace) : stopsAtFailure (afterWrite er ds k).trace := by
  unfold afterWrite
  cases er with
  | some e => simp [stopsAtFailure]
  | none =>
    rcases armBoth_cases ds with ⟨f, d', h⟩ | ⟨f1, f2, d', h⟩ | ⟨f1, f2, d', h⟩ <;> simp only [h]
    · simp [stopsAtFailure]
    · simp [stopsAtFailure, Ev.ok]
    · rw [prepend_trace]
      exact stops_append_ok _ _ (by simp [Ev.ok]) (hk d')

/-- if the read reported an error the rest of the iteration makes no further call -/
theorem afterWrite_err_trace (e : Err) (ds : List DlRes) (k : List DlRes → Res) :
    (afterWrite (some e) ds k).trace = [] := rfl

theorem loop_stops (rs : List ReadRes) : ∀ ws ds, stopsAtFailure (loop rs ws ds).trace := by
  induction rs with
  | nil => intro ws ds; simp [loop, stopsAtFailure]
  | cons r rs ih =>
    intro ws ds
    simp only [loop]
    split
    · split
      · -- the write failed: [read, write]
        obtain ⟨o, n, hev⟩ := writeStep_ev r.bytes ws
        exact ⟨Or.inr ⟨⟨_, _, rfl⟩, ⟨_, _, _, hev⟩, rfl⟩, trivial⟩
      · rename_i hnone
        rw [prepend_trace]
        obtain ⟨o, n, hev⟩ := writeStep_ev r.bytes ws
        cases her : r.err with
        | some e =>
          rw [afterWrite_err_trace, List.append_nil]
          exact ⟨Or.inr ⟨⟨_, _, rfl⟩, ⟨_, _, _, hev⟩, rfl⟩, trivial⟩
        | none =>
          apply stops_append_ok
          · intro e he
            simp only [List.mem_cons, List.not_mem_nil, or_false] at he
            rcases he with rfl | rfl
            · simp [Ev.ok]
            · rw [hev, hnone]; simp [Ev.ok]
          · exact afterWrite_stops _ _ _ (fun d' => ih _ d')
    · rw [prepend_trace]
      cases her : r.err with
      | some e => rw [afterWrite_err_trace]; simp [stopsAtFailure]
      | none =>
        apply stops_append_ok
        · intro e he
          simp only [List.mem_cons, List.not_mem_nil, or_false] at he
          subst he
          simp [Ev.ok]
        · exact afterWrite_stops _ _ _ (fun d' => ih _ d')

/-- number of calls: at most four per scripted read (read, write, two deadlines), one final read -/
theorem loop_trace_bound (rs : List ReadRes) : ∀ ws ds, (loop rs ws ds).trace.length ≤ 4 * rs.length + 1 := by
  induction rs with
  | nil => intro ws ds; simp [loop]
  | cons r rs ih =>
    intro ws ds
    have hk : ∀ (er : Option Err) (ws' : List WriteRes),
        (afterWrite er ds (fun ds' => loop rs ws' ds')).trace.length ≤ 2 + (4 * rs.length + 1) := by
      intro er ws'
      unfold afterWrite
      cases er with
      | some e => simp
      | none =>
        rcases armBoth_cases ds with ⟨f, d', h⟩ | ⟨f1, f2, d', h⟩ | ⟨f1, f2, d', h⟩ <;> simp [h]
        · omega
        · have := ih ws' d'; omega
    simp only [loop]
    split
    · split
      · simp; omega
      · rw [prepend_trace]; have := hk r.err (writeStep r.bytes ws).ws; simp only [List.length_append, List.length_cons, List.length_nil]; omega
    · rw [prepend_trace]; have := hk r.err ws; simp only [List.length_append, List.length_cons, List.length_nil]; omega

/-! ### `run` = initial deadlines + loop -/

theorem run_prefix (s : Script) : (run s).delivered <+: allBytes s.reads := by
  unfold run
  rcases armBoth_cases s.dls with ⟨f, d', h⟩ | ⟨f1, f2, d', h⟩ | ⟨f1, f2, d', h⟩ <;> simp [h]
  exact loop_prefix _ _ _

theorem run_counted (s : Script) : (run s).counted = (run s).delivered.length := by
  unfold run
  rcases armBoth_cases s.dls with ⟨f, d', h⟩ | ⟨f1, f2, d', h⟩ | ⟨f1, f2, d', h⟩ <;> simp [h]
  exact loop_counted _ _ _

theorem run_complete (s : Script) (hw : noWriteFault s.writes) (hd : allDlOk s.dls) (hc : conforming s.reads) :
    (run s).delivered = allBytes (consumed s.reads) := by
  unfold run
  obtain ⟨evs, ds', h, hd'⟩ := armBoth_ok s.dls hd
  simp [h]
  exact loop_complete _ _ _ hw hd' hc

theorem run_stops (s : Script) : stopsAtFailure (run s).trace := by
  unfold run
  rcases armBoth_cases s.dls with ⟨f, d', h⟩ | ⟨f1, f2, d', h⟩ | ⟨f1, f2, d', h⟩ <;> simp only [h]
  · simp [stopsAtFailure]
  · simp [stopsAtFailure, Ev.ok]
  · rw [prepend_trace]
    exact stops_append_ok _ _ (by simp [Ev.ok]) (loop_stops _ _ _)

theorem run_trace_bound (s : Script) : (run s).trace.length ≤ 4 * s.reads.length + 3 := by
  unfold run
  rcases armBoth_cases s.dls with ⟨f, d', h⟩ | ⟨f1, f2, d', h⟩ | ⟨f1, f2, d', h⟩ <;> simp only [h]
  · simp
  · simp
  · rw [prepend_trace]
    have := loop_trace_bound s.reads s.writes d'
    simp only [List.length_append, List.length_cons, List.length_nil]; omega

/-! ### the two closes commute on the statistics -/

theorem stat_timeout_ne_empty : Err.stat .timeout = some "timeout" := rfl

theorem closeConn_none (up isSrc : Bool) (st : Stats) : closeConn up isSrc none st = st := rfl

theorem closeConn_stat_none (up isSrc : Bool) (e : Err) (st : Stats) (h : e.stat = none) :
    closeConn up isSrc (some e) st = st := by simp [closeConn, h]

theorem closeConn_timeout (up isSrc : Bool) (st : Stats) :
    closeConn up isSrc (some .timeout) st = { client := "timeout", covert := "timeout" } := by
  simp [closeConn, Err.stat]

theorem closeConn_other (up isSrc : Bool) (e : Err) (t : String) (st : Stats) (h : e.stat = some t)
    (hne : e ≠ .timeout) :
    closeConn up isSrc (some e) st =
      if up = isSrc then (if st.covert = "" then { st with covert := t } else st)
      else (if st.client = "" then { st with client := t } else st) := by
  simp [closeConn, h, hne]

theorem closeConn_comm (up : Bool) (a b : Option Err) (st : Stats) :
    closeConn up true a (closeConn up false b st) = closeConn up false b (closeConn up true a st) := by
  cases a with
  | none => rfl
  | some ea =>
    cases b with
    | none => rfl
    | some eb =>
      cases hsa : ea.stat with
      | none => rw [closeConn_stat_none _ _ _ _ hsa, closeConn_stat_none _ _ _ _ hsa]
      | some ta =>
        cases hsb : eb.stat with
        | none => rw [closeConn_stat_none _ _ _ _ hsb, closeConn_stat_none _ _ _ _ hsb]
        | some tb =>
          by_cases hta : ea = .timeout
          · subst hta
            by_cases htb : eb = .timeout
            · subst htb; simp [closeConn_timeout]
            · rw [closeConn_timeout, closeConn_timeout, closeConn_other _ _ _ _ _ hsb htb]
              cases up <;> simp
          · by_cases htb : eb = .timeout
            · subst htb
              rw [closeConn_timeout, closeConn_timeout, closeConn_other _ _ _ _ _ hsa hta]
              cases up <;> simp
            · rw [closeConn_other _ _ _ _ _ hsa hta, closeConn_other _ _ _ _ _ hsb htb,
                closeConn_other _ _ _ _ _ hsa hta, closeConn_other _ _ _ _ _ hsb htb]
              cases up <;> simp <;> (repeat' split) <;> simp_all


/-! ### `halfPipe` / `Proxy` wrappers -/

/-- a failing `SetDeadline` ends the direction (the deadline failure is the last call) and is logged once -/
theorem halfPipe_logs_le (up : Bool) (st : Stats) (s : Script) :
    (halfPipe up st s).logs ≤ 1 := by
  unfold halfPipe; simp only; split <;> omega

/-! ### `Proxy` -/

/-- the dial error, if any, produces a non-empty statistic (true of every error `net.Dial` returns) -/
def dialSane (i : ProxyIn) : Prop := ∀ e, i.dialErr = some e → ∃ t, e.stat = some t ∧ t ≠ ""

theorem proxy_noPanic (i : ProxyIn) (h : dialSane i) : (proxy i).panicked = false := by
  unfold proxy
  cases hd : i.dialErr with
  | none => simp only; split <;> rfl
  | some e =>
    obtain ⟨t, ht, hne⟩ := h e hd
    simp [ht, hne]

/-- **`Proxy` returns**: for every pair of scripts both directions release the wait group, so
`wg.Wait()` does not block. -/
theorem proxy_returns' (i : ProxyIn) (h : dialSane i) : (proxy i).returned = true ∧ (proxy i).wgPending = 0 := by
  unfold proxy
  cases hd : i.dialErr with
  | none =>
    simp only
    split
    · exact ⟨rfl, rfl⟩
    · simp [halfPipe]
  | some e =>
    obtain ⟨t, ht, hne⟩ := h e hd
    simp [ht, hne]

/-- **The session gauge is balanced** on every path (dial failure, PROXY-header failure, relay). -/
theorem proxy_gauge (i : ProxyIn) : (proxy i).gaugeAdds = (proxy i).gaugeRemoves := by
  unfold proxy
  cases hd : i.dialErr with
  | none =>
    simp only
    split
    · rfl
    · simp [halfPipe]
  | some e =>
    simp only
    cases e.stat with
    | none => rfl
    | some t => simp only; split <;> rfl

/-- when the relay ran, both connections were closed (the client by both directions, the covert by
both directions and once more by `Proxy` itself) -/
theorem proxy_closes (i : ProxyIn) (h : (proxy i).started = true) :
    2 ≤ (proxy i).clientCloses ∧ 2 ≤ (proxy i).covertCloses := by
  unfold proxy at h ⊢
  cases hd : i.dialErr with
  | none =>
    simp only [hd] at h ⊢
    split
    · rename_i hh; simp [hh] at h
    · simp [halfPipe]
  | some e =>
    simp only [hd] at h
    cases hs : e.stat with
    | none => simp [hs, proxyPanic] at h
    | some t =>
      simp only [hs] at h
      split at h <;> simp [proxyPanic] at h

/-- **The totals `Proxy` reports are the bytes delivered in each direction.** -/
theorem proxy_counts (i : ProxyIn) (u d : Out)
    (hu : (proxy i).upOut = some u) (hdn : (proxy i).downOut = some d) :
    (proxy i).bytesUp = u.delivered.length ∧ (proxy i).bytesDown = d.delivered.length := by
  unfold proxy at hu hdn ⊢
  cases hd : i.dialErr with
  | none =>
    simp only [hd] at hu hdn ⊢
    split
    · rename_i hh; simp [hh] at hu
    · rename_i hh
      simp only [hh, if_false] at hu hdn
      cases hu; cases hdn
      exact ⟨run_counted i.up, run_counted i.down⟩
  | some e =>
    simp only [hd] at hu
    cases hs : e.stat with
    | none => simp [hs, proxyPanic] at hu
    | some t =>
      simp only [hs] at hu
      split at hu <;> simp [proxyPanic] at hu


end CJ.HalfPipe
