import CJ.Model.HalfPipe
/-!
# Lemmas about the relay loop (`CJ.Model.HalfPipe`)
Core Lean only.
-/
namespace CJ.HalfPipe

/-- concatenation of everything a read script returns -/
def allBytes (rs : List ReadRes) : Bytes := (rs.map (·.bytes)).flatten

/-- the reads that are actually performed when nothing else fails: up to and including the first one
that carries an error -/
def consumed : List ReadRes → List ReadRes
  | [] => []
  | r :: rs => if r.err.isSome then [r] else r :: consumed rs

/-- every scripted write accepts a whole buffer and reports no error -/
def noWriteFault (ws : List WriteRes) : Prop := ∀ w ∈ ws, w.err = none ∧ bufLen ≤ w.accepted

/-- every deadline call succeeds, directly or through the `SetReadDeadline` fallback -/
def allDlOk (ds : List DlRes) : Prop := ∀ d ∈ ds, d.succeeds = true

/-- `io.Reader` contract: a read returns at most `len(buf)` bytes -/
def conforming (rs : List ReadRes) : Prop := ∀ r ∈ rs, r.bytes.length ≤ bufLen

/-- The loop stops at the first failing call: every event but the last is a success, except that a read
which returned an error may be followed by exactly one final write (of the bytes that came with it). -/
def stopsAtFailure : List Ev → Prop
  | [] => True
  | [_] => True
  | e :: e' :: rest =>
    (e.ok = true ∨ ((∃ n b, e = .read n b) ∧ (∃ o n b, e' = .write o n b) ∧ rest = [])) ∧
      stopsAtFailure (e' :: rest)

@[simp] theorem allBytes_nil : allBytes [] = [] := rfl
@[simp] theorem allBytes_cons (r : ReadRes) (rs : List ReadRes) :
    allBytes (r :: rs) = r.bytes ++ allBytes rs := by simp [allBytes]

theorem allBytes_append (a b : List ReadRes) : allBytes (a ++ b) = allBytes a ++ allBytes b := by
  simp [allBytes]

/-! ### prepend -/

@[simp] theorem prepend_trace (evs chunk n) (r : Res) : (r.prepend evs chunk n).trace = evs ++ r.trace := rfl
@[simp] theorem prepend_delivered (evs chunk n) (r : Res) :
    (r.prepend evs chunk n).delivered = chunk ++ r.delivered := rfl
@[simp] theorem prepend_counted (evs chunk n) (r : Res) : (r.prepend evs chunk n).counted = n + r.counted := rfl
@[simp] theorem prepend_dlFail (evs chunk n) (r : Res) : (r.prepend evs chunk n).dlFail = r.dlFail := rfl

/-! ### deadlines -/

theorem popDl_ok (ds : List DlRes) (h : allDlOk ds) : (popDl ds).1.succeeds = true ∧ allDlOk (popDl ds).2 := by
  cases ds with
  | nil => exact ⟨rfl, by intro d hd; cases hd⟩
  | cons d t =>
    refine ⟨h d (by simp), ?_⟩
    intro x hx
    exact h x (by simp [popDl] at hx ⊢; exact Or.inr hx)

/-- with an all-ok script both deadlines are armed -/
theorem armBoth_ok (ds : List DlRes) (h : allDlOk ds) :
    ∃ evs ds', armBoth ds = (evs, none, ds') ∧ allDlOk ds' := by
  obtain ⟨h1, h1'⟩ := popDl_ok ds h
  obtain ⟨h2, h2'⟩ := popDl_ok (popDl ds).2 h1'
  refine ⟨[.dl true true (popDl ds).1.viaFallback, .dl false true (popDl (popDl ds).2).1.viaFallback],
    (popDl (popDl ds).2).2, ?_, h2'⟩
  simp [armBoth, arm, h1, h2]

/-- shape of the events of `armBoth` -/
theorem armBoth_cases (ds : List DlRes) :
    (∃ f ds', armBoth ds = ([.dl true false f], some true, ds')) ∨
    (∃ f1 f2 ds', armBoth ds = ([.dl true true f1, .dl false false f2], some false, ds')) ∨
    (∃ f1 f2 ds', armBoth ds = ([.dl true true f1, .dl false true f2], none, ds')) := by
  unfold armBoth arm
  cases h1 : (popDl ds).1.succeeds <;> cases h2 : (popDl (popDl ds).2).1.succeeds <;> simp [h1, h2]

/-! ### stopsAtFailure -/

theorem stops_append_ok (pre t : List Ev) (hpre : ∀ e ∈ pre, e.ok = true) (ht : stopsAtFailure t) :
    stopsAtFailure (pre ++ t) := by
  induction pre with
  | nil => simpa using ht
  | cons e pre ih =>
    have ih' := ih (fun x hx => hpre x (by simp [hx]))
    have he : e.ok = true := hpre e (by simp)
    cases hpt : pre ++ t with
    | nil => show stopsAtFailure (e :: (pre ++ t)); rw [hpt]; trivial
    | cons e' rest =>
      rw [hpt] at ih'
      show stopsAtFailure (e :: (pre ++ t))
      rw [hpt]
      exact ⟨Or.inl he, ih'⟩

/-! ### the write step -/

theorem writeStep_chunk_prefix (bs : Bytes) (ws : List WriteRes) : (writeStep bs ws).chunk <+: bs := by
  unfold writeStep
  exact List.IsPrefix.trans (List.take_prefix _ _) (List.take_prefix _ _)

theorem writeStep_nw (bs : Bytes) (ws : List WriteRes) : (writeStep bs ws).nw = (writeStep bs ws).chunk.length := by
  unfold writeStep
  simp only [List.length_take]
  omega

/-- a write that did not fail delivered the whole chunk that was read -/
theorem writeStep_ok_chunk (bs : Bytes) (ws : List WriteRes) (h : (writeStep bs ws).ew = none) :
    (writeStep bs ws).chunk = bs := by
  unfold writeStep at h ⊢
  simp only at h ⊢
  cases hw : (popW ws).1.err with
  | some e => simp [hw] at h
  | none =>
    simp only [hw] at h
    split at h
    · cases h
    · rename_i hn
      have hn' : min (popW ws).1.accepted (List.take bufLen bs).length = bs.length := by
        simpa using hn
      have hlen : (List.take bufLen bs).length = bs.length := by
        have := List.length_take_le bufLen bs
        simp only [List.length_take] at hn' ⊢
        omega
      have htake : List.take bufLen bs = bs := by
        apply List.take_of_length_le
        simp only [List.length_take] at hlen
        omega
      rw [hn', htake]
      exact List.take_length

theorem writeStep_ev (bs : Bytes) (ws : List WriteRes) :
    ∃ o n, (writeStep bs ws).ev = .write o n (writeStep bs ws).ew.isSome := ⟨_, _, rfl⟩

/-- with a fault-free write script and a conforming read, the write does not fail -/
theorem writeStep_noFault (bs : Bytes) (ws : List WriteRes) (hw : noWriteFault ws) (hb : bs.length ≤ bufLen) :
    (writeStep bs ws).ew = none ∧ noWriteFault (writeStep bs ws).ws := by
  cases ws with
  | nil =>
    constructor
    · simp [writeStep, popW, List.length_take]; omega
    · intro w hw'; simp [writeStep, popW] at hw'
  | cons w t =>
    obtain ⟨he, ha⟩ := hw w (by simp)
    constructor
    · simp [writeStep, popW, he, List.length_take]; omega
    · intro x hx
      exact hw x (by simp [writeStep, popW] at hx; simp [hx])

/-! ### the loop -/

theorem loop_prefix (rs : List ReadRes) : ∀ ws ds, (loop rs ws ds).delivered <+: allBytes rs := by
  induction rs with
  | nil => intro ws ds; simp [loop]
  | cons r rs ih =>
    intro ws ds
    have hk : ∀ (er : Option Err) (ws' : List WriteRes),
        (afterWrite er ds (fun ds' => loop rs ws' ds')).delivered <+: allBytes rs := by
      intro er ws'
      unfold afterWrite
      cases er with
      | some e => simp
      | none =>
        rcases armBoth_cases ds with ⟨f, d', h⟩ | ⟨f1, f2, d', h⟩ | ⟨f1, f2, d', h⟩ <;> simp [h]
        exact ih ws' d'
    simp only [loop, allBytes_cons]
    split
    · split
      · -- write failed
        exact List.IsPrefix.trans (writeStep_chunk_prefix _ _) (List.prefix_append _ _)
      · rename_i hnone
        rw [prepend_delivered, writeStep_ok_chunk _ _ hnone]
        exact (List.prefix_append_right_inj _).mpr (hk _ _)
    · rename_i hz
      have : r.bytes = [] := by
        cases hb : r.bytes with
        | nil => rfl
        | cons a t => simp [hb] at hz
      rw [prepend_delivered, this]
      simpa using hk _ _

theorem loop_counted (rs : List ReadRes) : ∀ ws ds, (loop rs ws ds).counted = (loop rs ws ds).delivered.length := by
  induction rs with
  | nil => intro ws ds; simp [loop]
  | cons r rs ih =>
    intro ws ds
    have hk : ∀ (er : Option Err) (ws' : List WriteRes),
        (afterWrite er ds (fun ds' => loop rs ws' ds')).counted =
          (afterWrite er ds (fun ds' => loop rs ws' ds')).delivered.length := by
      intro er ws'
      unfold afterWrite
      cases er with
      | some e => simp
      | none =>
        rcases armBoth_cases ds with ⟨f, d', h⟩ | ⟨f1, f2, d', h⟩ | ⟨f1, f2, d', h⟩ <;> simp [h]
        exact ih ws' d'
    simp only [loop]
    split
    · split
      · exact writeStep_nw _ _
      · simp only [prepend_counted, prepend_delivered, List.length_append, hk, writeStep_nw]
    · simp only [prepend_counted, prepend_delivered, List.length_append, hk]; simp

theorem loop_complete (rs : List ReadRes) : ∀ ws ds, noWriteFault ws → allDlOk ds → conforming rs →
    (loop rs ws ds).delivered = allBytes (consumed rs) := by
  induction rs with
  | nil => intro ws ds _ _ _; simp [loop, consumed]
  | cons r rs ih =>
    intro ws ds hw hd hc
    have hcr : conforming rs := fun x hx => hc x (by simp [hx])
    have hk : ∀ (ws' : List WriteRes), noWriteFault ws' →
        (afterWrite r.err ds (fun ds' => loop rs ws' ds')).delivered =
          if r.err.isSome then [] else allBytes (consumed rs) := by
      intro ws' hw'
      unfold afterWrite
      cases r.err with
      | some e => simp
      | none =>
        obtain ⟨evs, ds', h, hd'⟩ := armBoth_ok ds hd
        simp [h]
        exact ih ws' ds' hw' hd' hcr
    have hcons : allBytes (consumed (r :: rs)) = r.bytes ++ (if r.err.isSome then [] else allBytes (consumed rs)) := by
      simp only [consumed]
      split <;> simp
    rw [hcons]
    simp only [loop]
    split
    · obtain ⟨hnf, hws⟩ := writeStep_noFault r.bytes ws hw (hc r (by simp))
      split
      · rename_i e he; rw [hnf] at he; cases he
      · rw [prepend_delivered, writeStep_ok_chunk _ _ hnf, hk _ hws]
    · rename_i hz
      have : r.bytes = [] := by
        cases hb : r.bytes with
        | nil => rfl
        | cons a t => simp [hb] at hz
      rw [prepend_delivered, this, hk _ hw]

theorem afterWrite_stops (er : Option Err) (ds : List DlRes) (k : List DlRes → Res)
    (hk : ∀ ds', stopsAtFailure (k ds').trace) : stopsAtFailure (afterWrite er ds k).trace := by
  unfold afterWrite
  cases er with
  | some e => simp [stopsAtFailure]
  | none =>
    rcases armBoth_cases ds with ⟨f, d', h⟩ | ⟨f1, f2, d', h⟩ | ⟨f1, f2, d', h⟩ <;> simp only [h]
    · simp [stopsAtFailure]
    · simp [stopsAtFailure, Ev.ok]
    · rw [prepend_trace]
      exact stops_append_ok _ _ (by simp [Ev.ok]) (hk d')

/-- if the read reported an error the rest of the iteration makes no further call -/
theorem afterWrite_err_trace (e : Err) (ds : List DlRes) (k : List DlRes → Res) :
    (afterWrite (some e) ds k).trace = [] := rfl

theorem loop_stops (rs : List ReadRes) : ∀ ws ds, stopsAtFailure (loop rs ws ds).trace := by
  induction rs with
  | nil => intro ws ds; simp [loop, stopsAtFailure]
  | cons r rs ih =>
    intro ws ds
    simp only [loop]
    split
    · split
      · -- the write failed: [read, write]
        obtain ⟨o, n, hev⟩ := writeStep_ev r.bytes ws
        exact ⟨Or.inr ⟨⟨_, _, rfl⟩, ⟨_, _, _, hev⟩, rfl⟩, trivial⟩
      · rename_i hnone
        rw [prepend_trace]
        obtain ⟨o, n, hev⟩ := writeStep_ev r.bytes ws
        cases her : r.err with
        | some e =>
          rw [afterWrite_err_trace, List.append_nil]
          exact ⟨Or.inr ⟨⟨_, _, rfl⟩, ⟨_, _, _, hev⟩, rfl⟩, trivial⟩
        | none =>
          apply stops_append_ok
          · intro e he
            simp only [List.mem_cons, List.not_mem_nil, or_false] at he
            rcases he with rfl | rfl
            · simp [Ev.ok]
            · rw [hev, hnone]; simp [Ev.ok]
          · exact afterWrite_stops _ _ _ (fun d' => ih _ d')
    · rw [prepend_trace]
      cases her : r.err with
      | some e => rw [afterWrite_err_trace]; simp [stopsAtFailure]
      | none =>
        apply stops_append_ok
        · intro e he
          simp only [List.mem_cons, List.not_mem_nil, or_false] at he
          subst he
          simp [Ev.ok]
        · exact afterWrite_stops _ _ _ (fun d' => ih _ d')

/-- number of calls: at most four per scripted read (read, write, two deadlines), one final read -/
theorem loop_trace_bound (rs : List ReadRes) : ∀ ws ds, (loop rs ws ds).trace.length ≤ 4 * rs.length + 1 := by
  induction rs with
  | nil => intro ws ds; simp [loop]
  | cons r rs ih =>
    intro ws ds
    have hk : ∀ (er : Option Err) (ws' : List WriteRes),
        (afterWrite er ds (fun ds' => loop rs ws' ds')).trace.length ≤ 2 + (4 * rs.length + 1) := by
      intro er ws'
      unfold afterWrite
      cases er with
      | some e => simp
      | none =>
        rcases armBoth_cases ds with ⟨f, d', h⟩ | ⟨f1, f2, d', h⟩ | ⟨f1, f2, d', h⟩ <;> simp [h]
        · omega
        · have := ih ws' d'; omega
    simp only [loop]
    split
    · split
      · simp; omega
      · rw [prepend_trace]; have := hk r.err (writeStep r.bytes ws).ws; simp only [List.length_append, List.length_cons, List.length_nil]; omega
    · rw [prepend_trace]; have := hk r.err ws; simp only [List.length_append, List.length_cons, List.length_nil]; omega

/-! ### `run` = initial deadlines + loop -/

theorem run_prefix (s : Script) : (run s).delivered <+: allBytes s.reads := by
  unfold run
  rcases armBoth_cases s.dls with ⟨f, d', h⟩ | ⟨f1, f2, d', h⟩ | ⟨f1, f2, d', h⟩ <;> simp [h]
  exact loop_prefix _ _ _

theorem run_counted (s : Script) : (run s).counted = (run s).delivered.length := by
  unfold run
  rcases armBoth_cases s.dls with ⟨f, d', h⟩ | ⟨f1, f2, d', h⟩ | ⟨f1, f2, d', h⟩ <;> simp [h]
  exact loop_counted _ _ _

theorem run_complete (s : Script) (hw : noWriteFault s.writes) (hd : allDlOk s.dls) (hc : conforming s.reads) :
    (run s).delivered = allBytes (consumed s.reads) := by
  unfold run
  obtain ⟨evs, ds', h, hd'⟩ := armBoth_ok s.dls hd
  simp [h]
  exact loop_complete _ _ _ hw hd' hc

theorem run_stops (s : Script) : stopsAtFailure (run s).trace := by
  unfold run
  rcases armBoth_cases s.dls with ⟨f, d', h⟩ | ⟨f1, f2, d', h⟩ | ⟨f1, f2, d', h⟩ <;> simp only [h]
  · simp [stopsAtFailure]
  · simp [stopsAtFailure, Ev.ok]
  · rw [prepend_trace]
    exact stops_append_ok _ _ (by simp [Ev.ok]) (loop_stops _ _ _)

theorem run_trace_bound (s : Script) : (run s).trace.length ≤ 4 * s.reads.length + 3 := by
  unfold run
  rcases armBoth_cases s.dls with ⟨f, d', h⟩ | ⟨f1, f2, d', h⟩ | ⟨f1, f2, d', h⟩ <;> simp only [h]
  · simp
  · simp
  · rw [prepend_trace]
    have := loop_trace_bound s.reads s.writes d'
    simp only [List.length_append, List.length_cons, List.length_nil]; omega

/-! ### the two closes commute on the statistics -/

theorem stat_timeout_ne_empty : Err.stat .timeout = some "timeout" := rfl

theorem closeConn_none (up isSrc : Bool) (st : Stats) : closeConn up isSrc none st = st := rfl

theorem closeConn_stat_none (up isSrc : Bool) (e : Err) (st : Stats) (h : e.stat = none) :
    closeConn up isSrc (some e) st = st := by simp [closeConn, h]

theorem closeConn_timeout (up isSrc : Bool) (st : Stats) :
    closeConn up isSrc (some .timeout) st = { client := "timeout", covert := "timeout" } := by
  simp [closeConn, Err.stat]

theorem closeConn_other (up isSrc : Bool) (e : Err) (t : String) (st : Stats) (h : e.stat = some t)
    (hne : e ≠ .timeout) :
    closeConn up isSrc (some e) st =
      if up = isSrc then (if st.covert = "" then { st with covert := t } else st)
      else (if st.client = "" then { st with client := t } else st) := by
  simp [closeConn, h, hne]

theorem closeConn_comm (up : Bool) (a b : Option Err) (st : Stats) :
    closeConn up true a (closeConn up false b st) = closeConn up false b (closeConn up true a st) := by
  cases a with
  | none => rfl
  | some ea =>
    cases b with
    | none => rfl
    | some eb =>
      cases hsa : ea.stat with
      | none => rw [closeConn_stat_none _ _ _ _ hsa, closeConn_stat_none _ _ _ _ hsa]
      | some ta =>
        cases hsb : eb.stat with
        | none => rw [closeConn_stat_none _ _ _ _ hsb, closeConn_stat_none _ _ _ _ hsb]
        | some tb =>
          by_cases hta : ea = .timeout
          · subst hta
            by_cases htb : eb = .timeout
            · subst htb; simp [closeConn_timeout]
            · rw [closeConn_timeout, closeConn_timeout, closeConn_other _ _ _ _ _ hsb htb]
              cases up <;> simp
          · by_cases htb : eb = .timeout
            · subst htb
              rw [closeConn_timeout, closeConn_timeout, closeConn_other _ _ _ _ _ hsa hta]
              cases up <;> simp
            · rw [closeConn_other _ _ _ _ _ hsa hta, closeConn_other _ _ _ _ _ hsb htb,
                closeConn_other _ _ _ _ _ hsa hta, closeConn_other _ _ _ _ _ hsb htb]
              cases up <;> simp <;> (repeat' split) <;> simp_all


/-! ### no loss up to the point of failure -/

def Ev.isRead : Ev → Bool
  | .read _ _ => true
  | _ => false

@[simp] theorem Ev.isRead_read (n : Nat) (e : Bool) : Ev.isRead (.read n e) = true := rfl
@[simp] theorem Ev.isRead_write (o n : Nat) (e : Bool) : Ev.isRead (.write o n e) = false := rfl
@[simp] theorem Ev.isRead_dl (a b c : Bool) : Ev.isRead (.dl a b c) = false := rfl

/-- number of `Read` calls made -/
def nReads (t : List Ev) : Nat := (t.filter Ev.isRead).length

/-- **Lower bound on what is delivered, for every script.**  With `n` the number of reads performed:
if no write failed, *everything* those `n` reads returned was delivered (this includes the directions
ended by a read error, by EOF and by a failing `SetDeadline`); if a write failed or fell short, it was
the write of the `n`-th read's bytes, everything the first `n-1` reads returned was delivered and so was
a prefix of the `n`-th read's bytes. -/
def Lower (rs : List ReadRes) (r : Res) : Prop :=
  (r.writeErr = none → r.delivered = allBytes (rs.take (nReads r.trace))) ∧
  (∀ e, r.writeErr = some e → ∃ k b part, nReads r.trace = k + 1 ∧ rs[k]? = some b ∧ part <+: b.bytes ∧
      r.delivered = allBytes (rs.take k) ++ part)

@[simp] theorem prepend_writeErr (evs chunk n) (r : Res) : (r.prepend evs chunk n).writeErr = r.writeErr := rfl

theorem nReads_append (a b : List Ev) : nReads (a ++ b) = nReads a + nReads b := by
  simp [nReads, List.filter_append]

theorem Lower_stop (rs : List ReadRes) (r : Res) (hw : r.writeErr = none) (hd : r.delivered = [])
    (hn : nReads r.trace = 0) : Lower rs r := by
  refine ⟨fun _ => ?_, fun e he => ?_⟩
  · rw [hd, hn]; rfl
  · rw [hw] at he; cases he

theorem Lower_prepend_quiet (rs : List ReadRes) (x : Res) (evs : List Ev) (hn : nReads evs = 0)
    (h : Lower rs x) : Lower rs (x.prepend evs [] 0) := by
  refine ⟨fun hw => ?_, fun e he => ?_⟩
  · simp only [prepend_writeErr] at hw
    simp only [prepend_delivered, prepend_trace, nReads_append, hn, Nat.zero_add, List.nil_append]
    exact h.1 hw
  · simp only [prepend_writeErr] at he
    obtain ⟨k, b, part, h1, h2, h3, h4⟩ := h.2 e he
    exact ⟨k, b, part, by simp [nReads_append, hn, h1], h2, h3, by simpa using h4⟩

theorem Lower_prepend_read (r0 : ReadRes) (rs : List ReadRes) (x : Res) (evs : List Ev) (n : Nat)
    (hn : nReads evs = 1) (h : Lower rs x) : Lower (r0 :: rs) (x.prepend evs r0.bytes n) := by
  refine ⟨fun hw => ?_, fun e he => ?_⟩
  · simp only [prepend_writeErr] at hw
    simp only [prepend_delivered, prepend_trace, nReads_append, hn]
    rw [h.1 hw, Nat.add_comm, List.take_succ_cons, allBytes_cons]
  · simp only [prepend_writeErr] at he
    obtain ⟨k, b, part, h1, h2, h3, h4⟩ := h.2 e he
    refine ⟨k + 1, b, part, ?_, ?_, h3, ?_⟩
    · simp only [prepend_trace, nReads_append, hn, h1]; omega
    · simpa using h2
    · simp only [prepend_delivered, h4, List.take_succ_cons, allBytes_cons, List.append_assoc]

theorem armBoth_nReads (ds : List DlRes) : nReads (armBoth ds).1 = 0 := by
  rcases armBoth_cases ds with ⟨f, d', h⟩ | ⟨f1, f2, d', h⟩ | ⟨f1, f2, d', h⟩ <;> simp [h, nReads, Ev.isRead]

theorem afterWrite_Lower (rs : List ReadRes) (er : Option Err) (ds : List DlRes) (k : List DlRes → Res)
    (hk : ∀ ds', Lower rs (k ds')) : Lower rs (afterWrite er ds k) := by
  unfold afterWrite
  cases er with
  | some e => exact Lower_stop rs _ rfl rfl rfl
  | none =>
    have hn := armBoth_nReads ds
    rcases armBoth_cases ds with ⟨f, d', h⟩ | ⟨f1, f2, d', h⟩ | ⟨f1, f2, d', h⟩ <;> simp only [h] at hn ⊢
    · exact Lower_stop rs _ rfl rfl hn
    · exact Lower_stop rs _ rfl rfl hn
    · exact Lower_prepend_quiet rs _ _ hn (hk d')

theorem loop_Lower (rs : List ReadRes) : ∀ ws ds, conforming rs → Lower rs (loop rs ws ds) := by
  induction rs with
  | nil =>
    intro ws ds _
    refine ⟨fun _ => ?_, fun e he => ?_⟩
    · simp [loop]
    · simp [loop] at he
  | cons r rs ih =>
    intro ws ds hc
    have hcr : conforming rs := fun x hx => hc x (by simp [hx])
    simp only [loop]
    split
    · split
      · -- the write of this read's bytes failed
        rename_i e he
        refine ⟨fun hw => by simp at hw, fun e' _ => ?_⟩
        obtain ⟨o, n, hev⟩ := writeStep_ev r.bytes ws
        exact ⟨0, r, (writeStep r.bytes ws).chunk, by simp only [nReads, hev]; rfl, rfl,
          writeStep_chunk_prefix _ _, by simp⟩
      · rename_i hnone
        obtain ⟨o, n, hev⟩ := writeStep_ev r.bytes ws
        have hn : nReads [Ev.read r.bytes.length r.err.isSome, (writeStep r.bytes ws).ev] = 1 := by
          simp only [nReads, hev]; rfl
        have := Lower_prepend_read r rs _ _ (writeStep r.bytes ws).nw hn
          (afterWrite_Lower rs r.err ds _ (fun d' => ih (writeStep r.bytes ws).ws d' hcr))
        rwa [writeStep_ok_chunk _ _ hnone]
    · rename_i hz
      have hb : r.bytes = [] := by
        cases hb : r.bytes with
        | nil => rfl
        | cons a t => simp [hb] at hz
      have hn : nReads [Ev.read r.bytes.length r.err.isSome] = 1 := rfl
      have := Lower_prepend_read r rs _ _ 0 hn (afterWrite_Lower rs r.err ds _ (fun d' => ih ws d' hcr))
      rwa [hb] at this ⊢

theorem run_Lower (s : Script) (hc : conforming s.reads) : Lower s.reads (run s) := by
  unfold run
  have hn := armBoth_nReads s.dls
  rcases armBoth_cases s.dls with ⟨f, d', h⟩ | ⟨f1, f2, d', h⟩ | ⟨f1, f2, d', h⟩ <;> simp only [h] at hn ⊢
  · exact Lower_stop _ _ rfl rfl hn
  · exact Lower_stop _ _ rfl rfl hn
  · exact Lower_prepend_quiet _ _ _ hn (loop_Lower _ _ _ hc)

/-! ### the statement list and its defer stack -/

def Stmt.isDefer : Stmt → Bool
  | .deferActs _ => true
  | _ => false

/-- a statement that can neither leave the function nor make a call on the connections -/
def Stmt.isSetup : Stmt → Bool
  | .deferActs _ | .other => true
  | _ => false

/-- **every `defer` stands above the first statement that can leave the function** -/
def defersFirst (p : List Stmt) : Bool := (p.dropWhile Stmt.isSetup).all (fun s => !s.isDefer)

/-- the deferred bodies of a statement list, in source order -/
def allDefers : List Stmt → List (List Act)
  | [] => []
  | .deferActs a :: p => a :: allDefers p
  | _ :: p => allDefers p

/-- what a complete tear-down runs: the deferred bodies last-in-first-out -/
def fullTeardown (p : List Stmt) : List Act := unwind (allDefers p).reverse

/-- the statements that matter (everything but `.other`) -/
def skeleton (p : List Stmt) : List Stmt := p.filter (fun s => s != .other)
def skeletonP (p : List PStmt) : List PStmt := p.filter (fun s => s != .other)

@[simp] theorem Run.prepend_ran (evs : List Ev) (x : Run) : (x.prepend evs).ran = x.ran := rfl
@[simp] theorem Run.prepend_exit (evs : List Ev) (x : Run) : (x.prepend evs).exit = x.exit := rfl
@[simp] theorem Run.prepend_logs (evs : List Ev) (x : Run) : (x.prepend evs).logs = x.logs := rfl

/-- statements that register nothing leave the stack as it is: whatever exit is taken unwinds all of it -/
theorem exec_ran_of_noDefer (s : Script) (p : List Stmt) :
    ∀ stack ds f, p.all (fun x => !x.isDefer) = true → (exec s p stack ds f).ran = unwind stack := by
  induction p with
  | nil => intro stack ds f _; rfl
  | cons x p ih =>
    intro stack ds f h
    simp only [List.all_cons, Bool.and_eq_true] at h
    cases x with
    | deferActs a => simp [Stmt.isDefer] at h
    | arm c => simp only [exec, Run.prepend_ran]; exact ih _ _ _ h.2
    | retIfErr l =>
      cases f with
      | none => simp only [exec]; exact ih _ _ _ h.2
      | some c => rfl
    | loop =>
      simp only [exec]
      split
      · rfl
      · exact ih _ _ _ h.2
    | other => simp only [exec]; exact ih _ _ _ h.2
    | unknown => rfl

theorem exec_ran_aux (s : Script) (p : List Stmt) :
    ∀ stack ds f, defersFirst p = true →
      (exec s p stack ds f).ran = unwind ((allDefers p).reverse ++ stack) := by
  induction p with
  | nil => intro stack ds f _; rfl
  | cons x p ih =>
    intro stack ds f h
    have hnd : ∀ y, Stmt.isSetup y = false → (y :: p).all (fun x => !x.isDefer) = true →
        allDefers (y :: p) = [] := by
      intro y _ hall
      have : ∀ q : List Stmt, q.all (fun x => !x.isDefer) = true → allDefers q = [] := by
        intro q
        induction q with
        | nil => intro _; rfl
        | cons z q ihq =>
          intro hq
          simp only [List.all_cons, Bool.and_eq_true] at hq
          cases z <;> simp_all [allDefers, Stmt.isDefer]
      exact this _ hall
    cases x with
    | deferActs a =>
      have h' : defersFirst p = true := by simpa [defersFirst, List.dropWhile, Stmt.isSetup] using h
      simp only [exec, allDefers, List.reverse_cons, List.append_assoc, List.singleton_append]
      exact ih _ _ _ h'
    | other =>
      have h' : defersFirst p = true := by simpa [defersFirst, List.dropWhile, Stmt.isSetup] using h
      simp only [exec, allDefers]
      exact ih _ _ _ h'
    | arm c =>
      have hall : (Stmt.arm c :: p).all (fun x => !x.isDefer) = true := by
        simpa [defersFirst, List.dropWhile, Stmt.isSetup] using h
      rw [exec_ran_of_noDefer s _ _ _ _ hall, hnd _ rfl hall]; rfl
    | retIfErr l =>
      have hall : (Stmt.retIfErr l :: p).all (fun x => !x.isDefer) = true := by
        simpa [defersFirst, List.dropWhile, Stmt.isSetup] using h
      rw [exec_ran_of_noDefer s _ _ _ _ hall, hnd _ rfl hall]; rfl
    | loop =>
      have hall : (Stmt.loop :: p).all (fun x => !x.isDefer) = true := by
        simpa [defersFirst, List.dropWhile, Stmt.isSetup] using h
      rw [exec_ran_of_noDefer s _ _ _ _ hall, hnd _ rfl hall]; rfl
    | unknown =>
      have hall : (Stmt.unknown :: p).all (fun x => !x.isDefer) = true := by
        simpa [defersFirst, List.dropWhile, Stmt.isSetup] using h
      rw [exec_ran_of_noDefer s _ _ _ _ hall, hnd _ rfl hall]; rfl

/-- **Every exit of a body whose `defer`s come first runs every deferred function**, last registered
first — whatever the script makes the body do, through whichever `return` or `break` it leaves. -/
theorem exec_ran (s : Script) (p : List Stmt) (h : defersFirst p = true) (ds : List DlRes) (f : Option Bool) :
    (exec s p [] ds f).ran = fullTeardown p := by
  rw [exec_ran_aux s p [] ds f h, List.append_nil]; rfl

/-! ### the canonical body is `run` -/

theorem exec_canonical (s : Script) :
    (exec s canonical [] s.dls none).res = run s ∧
    (exec s canonical [] s.dls none).logs = (if (run s).dlFail.isSome then 1 else 0) := by
  unfold canonical run armBoth
  simp only [exec]
  cases h1 : (arm true s.dls).2.1
  · simp [Run.prepend, Res.prepend, arm]
  · cases h2 : (arm false (arm true s.dls).2.2).2.1
    · simp [Run.prepend, Res.prepend, arm]
    · simp only [Bool.not_true, Bool.false_eq_true, if_false, if_true]
      split
      · rename_i c hc
        simp [Run.prepend, Res.prepend, hc]
      · rename_i hc
        simp [Run.prepend, Res.prepend, hc]

theorem canonical_defersFirst : defersFirst canonical = true := by decide

theorem canonical_fullTeardown :
    fullTeardown canonical = [.spawnCloseSrc, .closeDst, .duration, .completed, .wgDone] := by decide

/-! ### `halfPipe` wrappers -/

@[simp] theorem halfPipe_trace (up : Bool) (st : Stats) (s : Script) : (halfPipe up st s).trace = (run s).trace := by
  simp [halfPipe, halfPipeP, (exec_canonical s).1]
@[simp] theorem halfPipe_delivered (up : Bool) (st : Stats) (s : Script) :
    (halfPipe up st s).delivered = (run s).delivered := by
  simp [halfPipe, halfPipeP, (exec_canonical s).1]
@[simp] theorem halfPipe_counted (up : Bool) (st : Stats) (s : Script) :
    (halfPipe up st s).counted = (run s).counted := by
  simp [halfPipe, halfPipeP, (exec_canonical s).1]
theorem halfPipe_logs (up : Bool) (st : Stats) (s : Script) :
    (halfPipe up st s).logs = (if (run s).dlFail.isSome then 1 else 0) := by
  simp [halfPipe, halfPipeP, (exec_canonical s).2]

/-- the tear-down of `halfPipe` on every exit -/
theorem halfPipe_teardown (up : Bool) (st : Stats) (s : Script) :
    (halfPipe up st s).teardown = [.spawnCloseSrc, .closeDst, .duration, .completed, .wgDone] := by
  show (exec s canonical [] s.dls none).ran = _
  rw [exec_ran s canonical canonical_defersFirst, canonical_fullTeardown]

theorem halfPipe_counts (up : Bool) (st : Stats) (s : Script) :
    (halfPipe up st s).closedSrc = 1 ∧ (halfPipe up st s).closedDst = 1 ∧
      (halfPipe up st s).done = 1 ∧ (halfPipe up st s).completed = 1 := by
  have h : (exec s canonical [] s.dls none).ran = [.spawnCloseSrc, .closeDst, .duration, .completed, .wgDone] :=
    halfPipe_teardown up st s
  simp only [halfPipe, halfPipeP, h]
  decide

@[simp] theorem halfPipe_done (up : Bool) (st : Stats) (s : Script) : (halfPipe up st s).done = 1 :=
  (halfPipe_counts up st s).2.2.1
@[simp] theorem halfPipe_closedSrc (up : Bool) (st : Stats) (s : Script) : (halfPipe up st s).closedSrc = 1 :=
  (halfPipe_counts up st s).1
@[simp] theorem halfPipe_closedDst (up : Bool) (st : Stats) (s : Script) : (halfPipe up st s).closedDst = 1 :=
  (halfPipe_counts up st s).2.1

/-! ### deadline failures and the log -/

def Ev.failedDl : Ev → Bool
  | .dl _ ok _ => !ok
  | _ => false

theorem armBoth_failed (ds : List DlRes) :
    ((armBoth ds).1.filter Ev.failedDl).length = (if (armBoth ds).2.1.isSome then 1 else 0) := by
  rcases armBoth_cases ds with ⟨f, d', h⟩ | ⟨f1, f2, d', h⟩ | ⟨f1, f2, d', h⟩ <;> simp [h, Ev.failedDl]

theorem loop_failedDl (rs : List ReadRes) : ∀ ws ds,
    ((loop rs ws ds).trace.filter Ev.failedDl).length = (if (loop rs ws ds).dlFail.isSome then 1 else 0) := by
  induction rs with
  | nil => intro ws ds; simp [loop, Ev.failedDl]
  | cons r rs ih =>
    intro ws ds
    have hk : ∀ (er : Option Err) (ws' : List WriteRes),
        ((afterWrite er ds (fun ds' => loop rs ws' ds')).trace.filter Ev.failedDl).length =
          (if (afterWrite er ds (fun ds' => loop rs ws' ds')).dlFail.isSome then 1 else 0) := by
      intro er ws'
      unfold afterWrite
      cases er with
      | some e => simp
      | none =>
        rcases armBoth_cases ds with ⟨f, d', h⟩ | ⟨f1, f2, d', h⟩ | ⟨f1, f2, d', h⟩ <;> simp [h, Ev.failedDl]
        exact ih ws' d'
    simp only [loop]
    split
    · split
      · obtain ⟨o, n, hev⟩ := writeStep_ev r.bytes ws
        simp [hev, Ev.failedDl]
      · obtain ⟨o, n, hev⟩ := writeStep_ev r.bytes ws
        rw [prepend_trace, prepend_dlFail, List.filter_append, List.length_append, hk]
        simp [hev, Ev.failedDl]
    · rw [prepend_trace, prepend_dlFail, List.filter_append, List.length_append, hk]
      simp [Ev.failedDl]

theorem run_failedDl (s : Script) :
    ((run s).trace.filter Ev.failedDl).length = (if (run s).dlFail.isSome then 1 else 0) := by
  unfold run
  rcases armBoth_cases s.dls with ⟨f, d', h⟩ | ⟨f1, f2, d', h⟩ | ⟨f1, f2, d', h⟩ <;> simp [h, Ev.failedDl]
  exact loop_failedDl _ _ _

/-! ### `Proxy` -/

/-- the dial error, if any, produces a non-empty statistic (true of every error `net.Dial` returns) -/
def dialSane (i : ProxyIn) : Prop := ∀ e, i.dialErr = some e → ∃ t, e.stat = some t ∧ t ≠ ""

/-- the three ways through `Proxy` -/
theorem proxy_cases (i : ProxyIn) :
    (∃ e, i.dialErr = some e ∧ ((e.stat).getD "" = "") ∧ (proxy i).panicked = true ∧ (proxy i).returned = false) ∨
    (∃ e t, i.dialErr = some e ∧ e.stat = some t ∧ t ≠ "" ∧
      proxy i = ({ dialStat := t, covertNil := true, printed := 1 } : PState).finish true) ∨
    (i.dialErr = none ∧ i.header = some false ∧ proxy i = ({ deferred := 1 } : PState).finish true) ∨
    (i.dialErr = none ∧ i.header ≠ some false ∧
      proxy i =
        (let u := halfPipe true {} i.up
         let d := halfPipe false u.stats i.down
         ({ deferred := 1, wg := 0, adds := 1, removes := 1, printed := 1, clientCloses := 2, covertCloses := 2,
            up := some u, down := some d, stats := d.stats } : PState).finish true)) := by
  unfold proxy canonicalP
  cases hd : i.dialErr with
  | some e =>
    cases hs : e.stat with
    | none => left; exact ⟨e, rfl, by simp [hs], by simp [execP, hd, hs, PState.finish], by simp [execP, hd, hs, PState.finish]⟩
    | some t =>
      by_cases ht : t = ""
      · left; exact ⟨e, rfl, by simp [hs, ht], by simp [execP, hd, hs, ht, PState.finish], by simp [execP, hd, hs, ht, PState.finish]⟩
      · right; left; exact ⟨e, t, rfl, hs, ht, by simp [execP, hd, hs, ht]⟩
  | none =>
    by_cases hh : i.header = some false
    · right; right; left; exact ⟨rfl, hh, by simp [execP, hd, hh]⟩
    · right; right; right
      refine ⟨rfl, hh, ?_⟩
      simp [execP, hd, hh]

theorem proxy_noPanic (i : ProxyIn) (h : dialSane i) : (proxy i).panicked = false := by
  rcases proxy_cases i with ⟨e, he, hs, _, _⟩ | ⟨e, t, _, _, _, hp⟩ | ⟨_, _, hp⟩ | ⟨_, _, hp⟩
  · obtain ⟨t, ht, hne⟩ := h e he
    simp [ht] at hs; exact absurd hs hne
  all_goals rw [hp]; rfl

/-- **`Proxy` returns**: for every pair of scripts both directions release the wait group, so
`wg.Wait()` does not block. -/
theorem proxy_returns' (i : ProxyIn) (h : dialSane i) : (proxy i).returned = true ∧ (proxy i).wgPending = 0 := by
  rcases proxy_cases i with ⟨e, he, hs, _, _⟩ | ⟨e, t, _, _, _, hp⟩ | ⟨_, _, hp⟩ | ⟨_, _, hp⟩
  · obtain ⟨t, ht, hne⟩ := h e he
    simp [ht] at hs; exact absurd hs hne
  all_goals rw [hp]; exact ⟨rfl, rfl⟩

/-- **The session gauge is balanced** on every path (dial failure, PROXY-header failure, relay). -/
theorem proxy_gauge (i : ProxyIn) : (proxy i).gaugeAdds = (proxy i).gaugeRemoves := by
  rcases proxy_cases i with ⟨e, he, hs, _, _⟩ | ⟨e, t, _, _, _, hp⟩ | ⟨_, _, hp⟩ | ⟨_, _, hp⟩
  · unfold proxy canonicalP
    cases hst : e.stat with
    | none => simp [execP, he, hst, PState.finish]
    | some t => simp [hst] at hs; simp [execP, he, hst, hs, PState.finish]
  all_goals rw [hp]; rfl

/-- when the relay ran, both connections were closed (the client by both directions, the covert by
both directions and once more by `Proxy` itself) -/
theorem proxy_closes (i : ProxyIn) (h : (proxy i).started = true) :
    (proxy i).clientCloses = 2 ∧ (proxy i).covertCloses = 3 := by
  rcases proxy_cases i with ⟨e, he, hs, _, _⟩ | ⟨e, t, _, _, _, hp⟩ | ⟨_, _, hp⟩ | ⟨_, _, hp⟩
  · exfalso
    unfold proxy canonicalP at h
    cases hst : e.stat with
    | none => simp [execP, he, hst, PState.finish] at h
    | some t => simp [hst] at hs; simp [execP, he, hst, hs, PState.finish] at h
  · rw [hp] at h; simp [PState.finish] at h
  · rw [hp] at h; simp [PState.finish] at h
  · rw [hp]; exact ⟨rfl, rfl⟩

/-- the covert connection is closed on every path on which it was opened -/
theorem proxy_covert_closed (i : ProxyIn) (hd : i.dialErr = none) : 1 ≤ (proxy i).covertCloses := by
  rcases proxy_cases i with ⟨e, he, _⟩ | ⟨e, t, he, _⟩ | ⟨_, _, hp⟩ | ⟨_, _, hp⟩
  · rw [hd] at he; cases he
  · rw [hd] at he; cases he
  · rw [hp]; simp [PState.finish]
  · rw [hp]; simp [PState.finish]

/-- **The totals `Proxy` reports are the bytes delivered in each direction.** -/
theorem proxy_counts (i : ProxyIn) (u d : Out)
    (hu : (proxy i).upOut = some u) (hdn : (proxy i).downOut = some d) :
    (proxy i).bytesUp = u.delivered.length ∧ (proxy i).bytesDown = d.delivered.length := by
  rcases proxy_cases i with ⟨e, he, hs, _, _⟩ | ⟨e, t, _, _, _, hp⟩ | ⟨_, _, hp⟩ | ⟨_, _, hp⟩
  · exfalso
    unfold proxy canonicalP at hu
    cases hst : e.stat with
    | none => simp [execP, he, hst, PState.finish] at hu
    | some t => simp [hst] at hs; simp [execP, he, hst, hs, PState.finish] at hu
  · rw [hp] at hu; simp [PState.finish] at hu
  · rw [hp] at hu; simp [PState.finish] at hu
  · rw [hp] at hu hdn ⊢
    simp only [PState.finish, Option.some.injEq] at hu hdn
    subst hu; subst hdn
    simp only [PState.finish, Option.map_some, Option.getD_some, halfPipe_counted, halfPipe_delivered]
    exact ⟨run_counted i.up, run_counted i.down⟩

/-! ### a read error ends the direction, however long the error persists -/

theorem prepend_nReads (evs : List Ev) (chunk : Bytes) (n : Nat) (r : Res) :
    nReads (r.prepend evs chunk n).trace = nReads evs + nReads r.trace := by
  simp [Res.prepend, nReads_append]

theorem nReads_two (a : Nat) (b : Bool) (bs : Bytes) (ws : List WriteRes) :
    nReads [Ev.read a b, (writeStep bs ws).ev] = 1 := by
  obtain ⟨o, n, h⟩ := writeStep_ev bs ws
  rw [h]; rfl

theorem nReads_one (a : Nat) (b : Bool) : nReads [Ev.read a b] = 1 := rfl

theorem afterWrite_nReads_err (e : Err) (ds : List DlRes) (k : List DlRes → Res) :
    nReads (afterWrite (some e) ds k).trace = 0 := by
  simp [afterWrite, nReads]

theorem afterWrite_nReads_le (er : Option Err) (ds : List DlRes) (k : List DlRes → Res) (m : Nat)
    (hk : ∀ ds', nReads (k ds').trace ≤ m) : nReads (afterWrite er ds k).trace ≤ m := by
  unfold afterWrite
  cases er with
  | some e => simp [nReads]
  | none =>
    have hn := armBoth_nReads ds
    rcases armBoth_cases ds with ⟨f, d', h⟩ | ⟨f1, f2, d', h⟩ | ⟨f1, f2, d', h⟩ <;> simp only [h] at hn ⊢
    · simp [hn]
    · simp [hn]
    · rw [prepend_nReads, hn]; simpa using hk d'

/-- error-free reads `pre`, then a read that reports an error: the loop makes no further `Read`, whatever
the script holds after it -/
theorem loop_reads_until_error (pre : List ReadRes) (bs : Bytes) (e : Err) (rest : List ReadRes) :
    ∀ ws ds, nReads (loop (pre ++ ⟨bs, some e⟩ :: rest) ws ds).trace ≤ pre.length + 1 := by
  induction pre with
  | nil =>
    intro ws ds
    simp only [List.nil_append, loop, List.length_nil]
    split
    · split
      · show nReads [Ev.read _ _, (writeStep bs ws).ev] ≤ _
        rw [nReads_two]; omega
      · rw [prepend_nReads, nReads_two, afterWrite_nReads_err]; omega
    · rw [prepend_nReads, nReads_one, afterWrite_nReads_err]; omega
  | cons r pre ih =>
    intro ws ds
    simp only [List.cons_append, loop, List.length_cons]
    split
    · split
      · show nReads [Ev.read _ _, (writeStep r.bytes ws).ev] ≤ _
        rw [nReads_two]; omega
      · rw [prepend_nReads, nReads_two]
        have := afterWrite_nReads_le r.err ds (fun ds' => loop (pre ++ ⟨bs, some e⟩ :: rest) (writeStep r.bytes ws).ws ds')
          (pre.length + 1) (fun ds' => ih _ ds')
        omega
    · rw [prepend_nReads, nReads_one]
      have := afterWrite_nReads_le r.err ds (fun ds' => loop (pre ++ ⟨bs, some e⟩ :: rest) ws ds')
        (pre.length + 1) (fun ds' => ih _ ds')
      omega

theorem run_reads_until_error (pre : List ReadRes) (bs : Bytes) (e : Err) (rest : List ReadRes)
    (ws : List WriteRes) (ds : List DlRes) (cs cd : Option Err) :
    nReads (run ⟨pre ++ ⟨bs, some e⟩ :: rest, ws, ds, cs, cd⟩).trace ≤ pre.length + 1 := by
  unfold run
  have hn := armBoth_nReads ds
  rcases armBoth_cases ds with ⟨f, d', h⟩ | ⟨f1, f2, d', h⟩ | ⟨f1, f2, d', h⟩ <;> simp only [h] at hn ⊢
  · omega
  · omega
  · rw [prepend_nReads, hn]; simpa using loop_reads_until_error pre bs e rest ws d'
end CJ.HalfPipe
