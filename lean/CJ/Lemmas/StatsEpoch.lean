import CJ.Model.StatsEpoch
/-! Helper lemmas for the statistics-epoch model (C05). -/
namespace CJ.StatsEpoch

theorem kept_add_zf (z : List String) (n : String) (x : Int) : kept z n x + zf z n x = x := by
  unfold kept zf; split <;> omega

theorem zf_of_not_mem (z : List String) (n : String) (x : Int) (h : n ∉ z) : zf z n x = x := by
  unfold zf; simp [h]

theorem kept_of_not_mem (z : List String) (n : String) (x : Int) (h : n ∉ z) : kept z n x = 0 := by
  unfold kept; simp [h]

theorem zf_of_mem (z : List String) (n : String) (x : Int) (h : n ∈ z) : zf z n x = 0 := by
  unfold zf; simp [h]

theorem kept_of_mem (z : List String) (n : String) (x : Int) (h : n ∈ z) : kept z n x = x := by
  unfold kept; simp [h]

/-- what a reset discards plus what it leaves is what was there -/
theorem discarded_add_zero (z : List String) (p : PS) : add (discarded z p) (zero z p) = p := by
  cases p
  simp [add, discarded, zero, kept_add_zf]

theorem add_assoc' (a b c : PS) : add (add a b) c = add a (add b c) := by
  cases a; cases b; cases c
  simp [add, Int.add_assoc]

theorem add_zero_ps (a : PS) : add a {} = a := by
  cases a; simp [add]

theorem zero_add_ps (a : PS) : add {} a = a := by
  cases a; simp [add]

/-- the invariant behind `epochs_partition_totals`: closed epochs + current epoch = everything added -/
theorem closed_inv (z : List String) (evs : List Ev) (c p t : PS) (h : add c p = t) :
    add (runClosed z (c, p) evs).1 (runClosed z (c, p) evs).2 = evs.foldl (fun t e => add t (delta e)) t := by
  induction evs generalizing c p t with
  | nil => exact h
  | cons e evs ih =>
    simp only [runClosed, List.foldl_cons] at ih ⊢
    cases e with
    | reset =>
      have : add (add c (discarded z p)) (zero z p) = add t (delta .reset) := by
        rw [add_assoc', discarded_add_zero, h]; simp [delta, add_zero_ps]
      exact ih _ _ _ this
    | addSession => exact ih _ _ _ (by rw [← add_assoc', h])
    | removeSession => exact ih _ _ _ (by rw [← add_assoc', h])
    | addBytes n up => exact ih _ _ _ (by rw [← add_assoc', h])
    | addCompleted n up => exact ih _ _ _ (by rw [← add_assoc', h])

/-- the second component of `runClosed` is `run` -/
theorem runClosed_snd (z : List String) (evs : List Ev) (c p : PS) :
    (runClosed z (c, p) evs).2 = run z p evs := by
  induction evs generalizing c p with
  | nil => rfl
  | cons e evs ih =>
    simp only [runClosed, run, List.foldl_cons] at ih ⊢
    cases e <;> simp only [closedStep, step] <;> exact ih _ _

/-- a reset that does not name the gauge leaves the closed-epoch sum of the gauge at zero -/
theorem closed_gauge_zero (z : List String) (hz : gaugeName ∉ z) (evs : List Ev) (c p : PS)
    (hc : c.sessionsProxying = 0) : (runClosed z (c, p) evs).1.sessionsProxying = 0 := by
  induction evs generalizing c p with
  | nil => exact hc
  | cons e evs ih =>
    simp only [runClosed, List.foldl_cons] at ih ⊢
    cases e with
    | reset =>
      apply ih
      have : kept z "sessionsProxying" p.sessionsProxying = 0 := kept_of_not_mem _ _ _ hz
      simp [add, discarded, hc, this]
    | addSession => exact ih _ _ hc
    | removeSession => exact ih _ _ hc
    | addBytes n up => exact ih _ _ hc
    | addCompleted n up => exact ih _ _ hc

/-! ## sessions -/

theorem setS_length (l : List Sess) (s : Sess) : (setS l s).length = l.length := by
  simp [setS]

theorem step_sessions_of_not_reset (z : List String) (p : PS) (e : Ev) (h : e ≠ .reset) :
    (step z p e).sessionsProxying = p.sessionsProxying + (delta e).sessionsProxying := by
  cases e <;> simp_all [step, add]

theorem step_reset_sessions (z : List String) (hz : gaugeName ∉ z) (p : PS) :
    (step z p .reset).sessionsProxying = p.sessionsProxying := by
  simp only [step, zero]
  exact zf_of_not_mem _ _ _ hz

theorem findS_some_mem (l : List Sess) (i : Nat) (s : Sess) (h : findS l i = some s) :
    ∃ a, a ∈ l ∧ (a.id == i) = true := by
  unfold findS at h
  exact ⟨s, List.mem_of_find?_eq_some h, by simpa using List.find?_some h⟩

/-- one event keeps "gauge = number of open sessions" when the reset spares the gauge -/
theorem wstep_gauge (z : List String) (hz : gaugeName ∉ z) (w : W) (e : SEv)
    (h : w.ps.sessionsProxying = w.sessions.length) :
    (wstep z w e).ps.sessionsProxying = (wstep z w e).sessions.length := by
  cases e with
  | start i =>
    simp only [wstep]
    split
    · exact h
    · simp only [List.length_cons]
      rw [step_sessions_of_not_reset _ _ _ (by simp), h]; simp [delta]
  | bytes i n up =>
    simp only [wstep]
    split
    · exact h
    · split
      · exact h
      · simp only [setS_length]
        rw [step_sessions_of_not_reset _ _ _ (by simp), h]
        cases up <;> simp [delta]
  | finish i up =>
    simp only [wstep]
    split
    · exact h
    · split
      · exact h
      · simp only [setS_length]
        rw [step_sessions_of_not_reset _ _ _ (by simp), h]
        cases up <;> simp [delta]
  | stop i =>
    simp only [wstep]
    split
    · exact h
    · rename_i s hs
      obtain ⟨a, ha, hp⟩ := findS_some_mem _ _ _ hs
      rw [step_sessions_of_not_reset _ _ _ (by simp), h]
      have hl := List.length_eraseP_of_mem (p := fun t => t.id == i) ha hp
      have hpos : 0 < w.sessions.length := List.length_pos_of_mem ha
      simp only [delta]
      omega
  | epoch =>
    simp only [wstep]
    rw [step_reset_sessions z hz]; exact h

end CJ.StatsEpoch
