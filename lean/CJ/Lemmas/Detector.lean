import CJ.Model.Detector
/-! Helper lemmas for the station → detector channel model (C10). -/
namespace CJ.Detector

/-- the announcement-relevant guarantees of admission (C07 ⇒ C10): phantom and registrant are 4- or
16-byte addresses, an IPv4 phantom comes with an IPv4 registrant, the protocol is the transport's
(TCP or UDP), the port is a `uint16`. -/
structure Announceable (r : Reg) : Prop where
  phantom : (ipOf r.phantom).isSome
  registrant : (ipOf r.registrant).isSome
  family : (to4 r.phantom).isSome → (to4 r.registrant).isSome
  proto : r.proto = protoTcp ∨ r.proto = protoUdp
  port : r.port < 65536

/-! ### `net.IP` classification -/

theorem ipOf_isSome_iff (b : Bytes) : (ipOf b).isSome ↔ (to4 b).isSome ∨ b.length = 16 := by
  unfold ipOf
  cases h : to4 b with
  | some o => simp
  | none => by_cases hl : b.length = 16 <;> simp [hl]

theorem ipOf_isV4 {b : Bytes} {a : IpAddr} (h : ipOf b = some a) : a.isV4 = (to4 b).isSome := by
  unfold ipOf at h
  cases h4 : to4 b with
  | some o => rw [h4] at h; cases h; rfl
  | none =>
    rw [h4] at h
    by_cases hl : b.length = 16
    · simp [hl] at h; subst h; rfl
    · simp [hl] at h

theorem goString_of_ipOf {b : Bytes} {a : IpAddr} (h : ipOf b = some a) : goString b = .lit a := by
  unfold goString; rw [h]

theorem goString_of_ipOf_none {b : Bytes} (h : ipOf b = none) : goString b = .other := by
  unfold goString; rw [h]

theorem parseIp_goString (b : Bytes) : parseIp (goString b) = ipOf b := by
  unfold goString
  cases h : ipOf b <;> rfl

theorem goString_ne_empty (b : Bytes) : goString b ≠ .empty := by
  unfold goString
  cases h : ipOf b <;> simp

/-! ### the session map -/

theorem get?_cons (kv : Key × Nat) (m : Map) (k : Key) :
    Map.get? (kv :: m) k = if kv.1 = k then some kv.2 else Map.get? m k := by
  unfold Map.get?
  by_cases h : kv.1 = k <;> simp [h]

theorem get?_nil (k : Key) : Map.get? [] k = none := rfl

theorem any_key_iff (m : Map) (k : Key) : m.any (·.1 = k) = (Map.get? m k).isSome := by
  induction m with
  | nil => rfl
  | cons kv m ih =>
    rw [get?_cons]
    by_cases h : kv.1 = k <;> simp [List.any_cons, h, ih]

theorem get?_append_single (m : Map) (k k' : Key) (e : Nat) :
    Map.get? (m ++ [(k, e)]) k' =
      match Map.get? m k' with
      | some v => some v
      | none => if k = k' then some e else none := by
  induction m with
  | nil => simp [get?_cons, get?_nil]
  | cons kv m ih =>
    rw [List.cons_append, get?_cons, get?_cons]
    by_cases h : kv.1 = k' <;> simp [h, ih]

theorem get?_map_update (m : Map) (k k' : Key) (g : Nat → Nat) :
    Map.get? (m.map (fun kv => if kv.1 = k then (kv.1, g kv.2) else kv)) k' =
      (Map.get? m k').map (fun v => if k' = k then g v else v) := by
  induction m with
  | nil => rfl
  | cons kv m ih =>
    rw [List.map_cons, get?_cons, get?_cons, ih]
    obtain ⟨a, b⟩ := kv
    by_cases hk : a = k <;> by_cases h : a = k' <;> simp_all
    all_goals (first | done | (intro hc; simp_all) | omega)

/-- the key of the handled session is tracked afterwards, with an expiry of at least `now + timeout` -/
theorem get?_addOrUpdate_self (now : Nat) (m : Map) (s : Session) :
    ∃ v, Map.get? (addOrUpdate now m s) (.tag (tagOf s)) = some v ∧ now + s.timeout ≤ v := by
  unfold addOrUpdate
  simp only
  rw [any_key_iff]
  cases h : Map.get? m (Key.tag (tagOf s)) with
  | some v =>
    simp only [Option.isSome_some, if_true]
    have hm := get?_map_update m (Key.tag (tagOf s)) (Key.tag (tagOf s))
      (fun x => if x < now + s.timeout then now + s.timeout else x)
    rw [hm, h]
    simp only [Option.map_some, if_true]
    by_cases hlt : v < now + s.timeout
    · exact ⟨now + s.timeout, by simp [hlt], Nat.le_refl _⟩
    · exact ⟨v, by simp [hlt], by omega⟩
  | none =>
    simp only [Option.isSome_none, Bool.false_eq_true, if_false]
    rw [get?_append_single, h]
    exact ⟨now + s.timeout, by simp, Nat.le_refl _⟩

/-- no tracked key is dropped or shortened by an add-or-update -/
theorem get?_addOrUpdate_mono (now : Nat) (m : Map) (s : Session) (k : Key) (v : Nat)
    (hk : Map.get? m k = some v) : ∃ v', Map.get? (addOrUpdate now m s) k = some v' ∧ v ≤ v' := by
  unfold addOrUpdate
  simp only
  rw [any_key_iff]
  cases h : Map.get? m (Key.tag (tagOf s)) with
  | some w =>
    simp only [Option.isSome_some, if_true]
    have hm := get?_map_update m (Key.tag (tagOf s)) k
      (fun x => if x < now + s.timeout then now + s.timeout else x)
    rw [hm, hk]
    simp only [Option.map_some]
    by_cases hkk : k = Key.tag (tagOf s)
    · by_cases hlt : v < now + s.timeout
      · exact ⟨now + s.timeout, by simp [hkk, hlt], by omega⟩
      · exact ⟨v, by simp [hkk, hlt], Nat.le_refl _⟩
    · exact ⟨v, by simp [hkk], Nat.le_refl _⟩
  | none =>
    simp only [Option.isSome_none, Bool.false_eq_true, if_false]
    rw [get?_append_single, hk]
    exact ⟨v, rfl, Nat.le_refl _⟩

/-! ### the packet path: sweep and lookup -/

/-- a key whose (first) entry has not expired survives the sweep with the same expiry -/
theorem get?_dropStale (now : Nat) (m : Map) (k : Key) (v : Nat)
    (hk : Map.get? m k = some v) (hv : now < v) : Map.get? (dropStale now m) k = some v := by
  induction m with
  | nil => simp [get?_nil] at hk
  | cons kv m ih =>
    rw [get?_cons] at hk
    unfold dropStale at ih ⊢
    rw [List.filter_cons]
    by_cases h : kv.1 = k
    · simp only [h, if_true, Option.some.injEq] at hk
      have : decide (now < kv.2) = true := by simp [hk, hv]
      rw [this]; simp only [if_true]
      rw [get?_cons]; simp [h, hk]
    · simp only [h, if_false] at hk
      by_cases hp : decide (now < kv.2) = true
      · rw [hp]; simp only [if_true]
        rw [get?_cons]; simp only [h, if_false]
        exact ih hk
      · have hp' : decide (now < kv.2) = false := by simpa using hp
        rw [hp']; simp only [Bool.false_eq_true, if_false]
        exact ih hk

/-- an expired entry does not survive the sweep: everything the sweep keeps expires later than `now` -/
theorem dropStale_keeps_only_live (now : Nat) (m : Map) (kv : Key × Nat) (h : kv ∈ dropStale now m) : now < kv.2 := by
  unfold dropStale at h
  have := (List.mem_filter.mp h).2
  simpa using this

theorem tagProto_of_nextHeader (p : Nat) (h : p = 6 ∨ p = 17) : tagProto p = p := by
  rcases h with h | h <;> subst h <;> rfl

/-- the tag the packet path computes for a flow to the phantom (from the registrant when the phantom is
IPv4, from anyone when it is IPv6) is the tag the session was stored under -/
theorem flowTag_eq_tagOf (s : Session) (f : Flow) (hd : f.dst = s.phantom) (hp : f.dstPort = s.dstPort)
    (hpr : f.proto = s.proto) (hs : s.phantom.isV4 = true → f.src = s.client) : flowTag f = tagOf s := by
  unfold flowTag tagOf
  rw [hd, hp, hpr]
  cases h6 : s.phantom.isV6 with
  | true => rfl
  | false =>
    have h4 : s.phantom.isV4 = true := by
      unfold IpAddr.isV6 at h6; simpa using h6
    rw [hs h4]

end CJ.Detector
