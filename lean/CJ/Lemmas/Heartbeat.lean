import CJ.Lemmas.SctpConn
/-! Helper lemmas for the heartbeat model: what the filter queues, the watchdog's potential. -/
namespace CJ.Heartbeat
open CJ.SctpConn

/-- a ground-truth interleaving: `none` is a keep-alive heartbeat sent by the peer's heartbeat loop,
`some d` is an application message `d` -/
def mk (hb : Bytes) : List (Option Bytes) → List Item
  | [] => []
  | none :: rest => ⟨hb, none⟩ :: mk hb rest
  | some d :: rest => ⟨d, none⟩ :: mk hb rest

/-- the application messages of an interleaving -/
def app : List (Option Bytes) → List Bytes
  | [] => []
  | none :: rest => app rest
  | some d :: rest => d :: app rest

/-- if no application message equals the heartbeat payload, exactly the application messages are queued -/
theorem queued_mk (hb : Bytes) (cap : Nat) (ms : List (Option Bytes)) (hbfit : hb.length ≤ cap)
    (hfit : ∀ d ∈ app ms, d.length ≤ cap) (hne : ∀ d ∈ app ms, d ≠ hb) :
    queued hb cap (mk hb ms) = (app ms).map (fun d => ⟨d, none⟩) := by
  induction ms with
  | nil => simp [mk, app, queued]
  | cons m rest ih =>
    cases m with
    | none =>
      simp only [mk, app, queued, hbfit, if_true]
      exact ih hfit hne
    | some d =>
      have hd : d.length ≤ cap := hfit d (by simp [app])
      have hdn : d ≠ hb := hne d (by simp [app])
      simp only [mk, app, queued, hd, if_true, hdn, if_false, List.map_cons]
      rw [ih (fun x hx => hfit x (by simp [app, hx])) (fun x hx => hne x (by simp [app, hx]))]

/-- no queued message is the heartbeat payload -/
theorem queued_ne_hb (hb : Bytes) (cap : Nat) (items : List Item) :
    ∀ it ∈ queued hb cap items, it.data ≠ hb := by
  induction items with
  | nil => simp [queued]
  | cons x rest ih =>
    intro it hit
    simp only [queued] at hit
    split at hit
    · split at hit
      · exact ih it hit
      · rename_i hne
        split at hit
        · split at hit
          · cases hit
          · simp only [List.mem_singleton] at hit
            subst hit; exact hne
        · simp only [List.mem_cons] at hit
          rcases hit with rfl | hit
          · exact hne
          · exact ih it hit
    · cases hit

/-- the queue is a subsequence of the stream's messages: nothing invented, nothing reordered -/
theorem queued_sublist (hb : Bytes) (cap : Nat) (items : List Item) :
    ((queued hb cap items).map (·.data)).Sublist (items.map (·.data)) := by
  induction items with
  | nil => simp [queued]
  | cons x rest ih =>
    simp only [queued]
    split
    · split
      · exact List.Sublist.cons _ ih
      · split
        · split
          · simp
          · simp only [List.map_cons, List.map_nil]
            exact List.Sublist.cons₂ _ (List.nil_sublist _)
        · simp only [List.map_cons]
          exact List.Sublist.cons₂ _ ih
    · simp

/-- queued messages carry no error and fit the reader's buffer -/
theorem queued_clean (hb : Bytes) (cap : Nat) (items : List Item) :
    ∀ it ∈ queued hb cap items, it.err = none ∧ it.data.length ≤ cap := by
  induction items with
  | nil => simp [queued]
  | cons x rest ih =>
    intro it hit
    simp only [queued] at hit
    split at hit
    · rename_i hfit
      split at hit
      · exact ih it hit
      · split at hit
        · split at hit
          · cases hit
          · simp only [List.mem_singleton] at hit
            subst hit; exact ⟨rfl, hfit⟩
        · simp only [List.mem_cons] at hit
          rcases hit with rfl | hit
          · exact ⟨rfl, hfit⟩
          · exact ih it hit
    · cases hit

/-- an error-free prefix of fitting non-heartbeat messages is queued as it is -/
theorem queued_append_clean (hb : Bytes) (cap : Nat) (pre rest : List Item)
    (hpre : ∀ it ∈ pre, it.err = none ∧ it.data.length ≤ cap ∧ it.data ≠ hb) :
    queued hb cap (pre ++ rest) = pre ++ queued hb cap rest := by
  induction pre with
  | nil => simp
  | cons x xs ih =>
    obtain ⟨h1, h2, h3⟩ := hpre x (by simp)
    obtain ⟨d, e⟩ := x
    simp only at h1 h2 h3
    subst h1
    simp only [List.cons_append, queued, h2, if_true, h3, if_false]
    rw [ih (fun it hit => hpre it (by simp [hit]))]

/-! ### watchdog -/

/-- well-formed watchdog state -/
def WD.WF (s : WD) : Prop :=
  1 ≤ s.T ∧ (s.closed = false → 1 ≤ s.phase ∧ s.phase ≤ s.T ∧ 1 ≤ s.idle ∧ s.idle ≤ s.T)

/-- ticks until `hbLoop` closes the connection at the latest if no further heartbeat is counted -/
def WD.phi (s : WD) : Nat :=
  if s.closed then 0 else if s.waiting = 0 then s.phase else s.phase + s.T

theorem wf_init (T : Nat) (hT : 1 ≤ T) : (WD.init T).WF := by
  simp [WD.init, WD.WF]; omega

theorem wf_step (s : WD) (e : Ev) (h : s.WF) : (s.step e).WF := by
  obtain ⟨hT, hw⟩ := h
  cases hc : s.closed with
  | true => cases e <;> simp [WD.step, hc, WD.WF, hT]
  | false =>
    obtain ⟨h1, h2, h3, h4⟩ := hw hc
    cases e with
    | tick =>
      simp only [WD.step, hc, Bool.false_eq_true, if_false]
      by_cases hi : s.idle ≤ 1
      · simp only [hi, if_true]
        by_cases hp : s.phase ≤ 1
        · simp only [hp, if_true]
          by_cases hw0 : s.waiting = 0
          · simp [hw0, WD.WF, hT]
          · simp [hw0, WD.WF, hT]
        · simp [hp, WD.WF, hT]
      · simp only [hi, if_false]
        by_cases hp : s.phase ≤ 1
        · simp only [hp, if_true]
          by_cases hw0 : s.waiting = 0
          · simp [hw0, WD.WF, hT]
          · simp only [hw0, if_false, WD.WF]
            exact ⟨hT, fun _ => ⟨hT, Nat.le_refl _, by omega, by omega⟩⟩
        · simp only [hp, if_false, WD.WF]
          exact ⟨hT, fun _ => ⟨by omega, by omega, by omega, by omega⟩⟩
    | hb => simp only [WD.step, hc, Bool.false_eq_true, if_false, WD.WF]; exact ⟨hT, fun _ => ⟨h1, h2, hT, Nat.le_refl _⟩⟩
    | hbLost => simp only [WD.step, hc, Bool.false_eq_true, if_false, WD.WF]; exact ⟨hT, fun _ => ⟨h1, h2, hT, Nat.le_refl _⟩⟩
    | data => simp only [WD.step, hc, Bool.false_eq_true, if_false, WD.WF]; exact ⟨hT, fun _ => ⟨h1, h2, hT, Nat.le_refl _⟩⟩

theorem wf_run (s : WD) (evs : List Ev) (h : s.WF) : (s.run evs).WF := by
  induction evs generalizing s with
  | nil => exact h
  | cons e es ih => exact ih _ (wf_step s e h)

theorem phi_le (s : WD) (h : s.WF) : s.phi ≤ 2 * s.T := by
  obtain ⟨hT, hw⟩ := h
  unfold WD.phi
  cases hc : s.closed with
  | true => simp
  | false =>
    obtain ⟨h1, h2, _, _⟩ := hw hc
    simp only [Bool.false_eq_true, if_false]
    split <;> omega

theorem phi_zero_closed (s : WD) (h : s.WF) (hz : s.phi = 0) : s.closed = true := by
  cases hc : s.closed with
  | true => rfl
  | false =>
    obtain ⟨h1, _, _, _⟩ := h.2 hc
    unfold WD.phi at hz
    simp only [hc, Bool.false_eq_true, if_false] at hz
    split at hz <;> omega

/-- a tick with no heartbeat brings the forced close at least one tick nearer -/
theorem phi_tick (s : WD) (h : s.WF) (hc : s.closed = false) : (s.step .tick).phi + 1 ≤ s.phi := by
  obtain ⟨h1, h2, h3, h4⟩ := h.2 hc
  have hT := h.1
  simp only [WD.step, hc, Bool.false_eq_true, if_false, WD.phi]
  split <;> split <;> (try split) <;> simp_all <;> (try split) <;> omega

theorem phi_other (s : WD) (e : Ev) (he : e ≠ .hb) (he' : e ≠ .tick) : (s.step e).phi = s.phi := by
  cases e with
  | tick => exact absurd rfl he'
  | hb => exact absurd rfl he
  | hbLost => simp only [WD.step]; split <;> simp_all [WD.phi]
  | data => simp only [WD.step]; split <;> simp_all [WD.phi]

theorem closed_step (s : WD) (e : Ev) (h : s.closed = true) : (s.step e).closed = true := by
  cases e <;> simp [WD.step, h]

theorem closed_run (s : WD) (evs : List Ev) (h : s.closed = true) : (s.run evs).closed = true := by
  induction evs generalizing s with
  | nil => exact h
  | cons e es ih => exact ih _ (closed_step s e h)

theorem T_step (s : WD) (e : Ev) : (s.step e).T = s.T := by
  cases e <;> simp only [WD.step] <;> (repeat' split) <;> rfl

theorem T_run (s : WD) (evs : List Ev) : (s.run evs).T = s.T := by
  induction evs generalizing s with
  | nil => rfl
  | cons e es ih => exact (ih (s.step e)).trans (T_step s e)

def ticks (evs : List Ev) : Nat := (evs.filter (· == .tick)).length

theorem phi_run (s : WD) (evs : List Ev) (h : s.WF) (hno : ∀ e ∈ evs, e ≠ .hb) :
    (s.run evs).closed = true ∨ (s.run evs).phi + ticks evs ≤ s.phi := by
  induction evs generalizing s with
  | nil => right; simp [WD.run, ticks]
  | cons e es ih =>
    have hno' : ∀ x ∈ es, x ≠ .hb := fun x hx => hno x (by simp [hx])
    cases hc : s.closed with
    | true => left; exact closed_run s (e :: es) hc
    | false =>
      have := ih (s.step e) (wf_step s e h) hno'
      rcases this with hcl | hle
      · left; exact hcl
      · right
        show ((s.step e).run es).phi + ticks (e :: es) ≤ s.phi
        by_cases het : e = .tick
        · subst het
          have := phi_tick s h hc
          simp only [ticks, List.filter_cons, beq_self_eq_true, if_true, List.length_cons] at hle ⊢
          omega
        · have hphi := phi_other s e (hno e (by simp)) het
          have hte : ticks (e :: es) = ticks es := by
            simp only [ticks, List.filter_cons]
            have : (e == Ev.tick) = false := by
              cases e <;> simp_all
            simp [this]
          rw [hte, ← hphi]; exact hle

/-- ticks of a run consisting only of ticks -/
theorem idle_run (s : WD) (n : Nat) (h : s.WF) :
    (s.run (List.replicate n .tick)).closed = true ∨
      ((s.run (List.replicate n .tick)).idle + n ≤ s.idle ∧ (s.run (List.replicate n .tick)).closed = false) := by
  induction n generalizing s with
  | zero =>
    cases hc : s.closed with
    | true => left; exact hc
    | false => right; simp [WD.run, hc]
  | succ k ih =>
    cases hc : s.closed with
    | true => left; exact closed_run s _ hc
    | false =>
      obtain ⟨h1, h2, h3, h4⟩ := h.2 hc
      rcases ih (s.step .tick) (wf_step s .tick h) with hcl | ⟨hle, hcl⟩
      · left; simpa [List.replicate_succ, WD.run] using hcl
      · have hst : (s.step .tick).idle + 1 ≤ s.idle ∨ (s.step .tick).closed = true := by
          simp only [WD.step, hc, Bool.false_eq_true, if_false]
          split <;> split <;> (try split) <;> simp_all <;> omega
        rcases hst with hst | hst
        · right
          simp only [List.replicate_succ, WD.run, List.foldl_cons] at hle hcl ⊢
          exact ⟨by omega, hcl⟩
        · left
          have := closed_run (s.step .tick) (List.replicate k .tick) hst
          simpa [List.replicate_succ, WD.run] using this

/-- the loop, pass by pass, queues what `queued` says -/
theorem queued_eq_queuedBy (hb : Bytes) (cap : Nat) (items : List Item) :
    queued hb cap items = queuedBy hb cap items := by
  induction items with
  | nil => rfl
  | cons it rest ih =>
    simp only [queued, queuedBy, recvStep]
    split
    · split
      · exact ih
      · cases he : it.err with
        | none => simp [ih]
        | some e => by_cases hd : it.data = [] <;> simp [hd]
    · rfl

/-- every message equal to the payload drops out of the reader's view, with or without an error
attached to the read that carried it, wherever it stands -/
theorem queued_filter_hb (hb : Bytes) (cap : Nat) (hfit : hb.length ≤ cap) (items : List Item) :
    queued hb cap items = queued hb cap (items.filter (fun it => it.data ≠ hb)) := by
  induction items with
  | nil => rfl
  | cons it rest ih =>
    by_cases h : it.data = hb
    · have hl : it.data.length ≤ cap := by rw [h]; exact hfit
      simp [queued, h, hfit, ih]
    · have hf : (it :: rest).filter (fun it => it.data ≠ hb) = it :: rest.filter (fun it => it.data ≠ hb) := by
        simp [List.filter_cons, h]
      rw [hf]
      simp only [queued]
      rw [ih]

end CJ.Heartbeat
