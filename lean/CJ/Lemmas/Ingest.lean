import CJ.Model.Ingest
/-! Helper lemmas for the ingest model (C07): the registry as a lookup function, the effect of one
`ingestReg` on it, the shape of `parse`. -/
open Std

namespace CJ.Ingest
open CJ.Registry (Key)
open CJ.Detector (Bytes to4)

/-- the registry seen as a function from keys to entries -/
def get (s : RSt) (k : Key) : Option CJ.Registry.Reg := s.decoys[k]?

/-- tracked and marked valid -/
def validAt (s : RSt) (k : Key) : Prop := ∃ e, get s k = some e ∧ e.valid = true

theorem contains_iff_get (s : RSt) (k : Key) : s.decoys.contains k = (get s k).isSome := by
  unfold get; exact HashMap.contains_eq_isSome_getElem?

/-! ### `track` / `register` as updates of the lookup function -/

theorem track_get (c : Cfg) (s : RSt) (k k' : Key) (tr : Nat) (h : c.transports.contains tr = true) :
    get (CJ.Registry.track (regCfg c) s k tr 0).1 k' =
      if k = k' then
        (match get s k with
         | some e => some { e with regCount := e.regCount + 1 }
         | none => some ⟨tr, false, 1⟩)
      else get s k' := by
  unfold CJ.Registry.track get regCfg
  simp only [h, Bool.not_true, Bool.false_eq_true, if_false]
  cases hk : s.decoys[k]? with
  | some e =>
    simp only [HashMap.getElem?_insert, beq_iff_eq]
  | none =>
    simp only [HashMap.getElem?_insert, beq_iff_eq]

theorem register_get (c : Cfg) (s : RSt) (k : Key) (tr : Nat) (e : CJ.Registry.Reg)
    (h : c.transports.contains tr = true) (hk : get s k = some e) (hv : e.valid = false) :
    (CJ.Registry.register (regCfg c) s k tr 0).2 = .new ∧
      ∀ k', get (CJ.Registry.register (regCfg c) s k tr 0).1 k' =
        if k = k' then some { e with valid := true } else get s k' := by
  unfold get at hk
  unfold CJ.Registry.register get regCfg
  simp only [h, Bool.not_true, Bool.false_eq_true, if_false, hk, hv]
  refine ⟨trivial, ?_⟩
  intro k'
  simp only [HashMap.getElem?_insert, beq_iff_eq]

/-! ### `connectable` is validity at the registration's key -/

theorem mem_lookup_iff (s : RSt) (p i : String) :
    i ∈ CJ.Registry.lookup s p ↔ ∃ e, get s (p, i) = some e ∧ e.valid = true := by
  unfold CJ.Registry.lookup get
  simp only [List.mem_map, List.mem_filter, Bool.and_eq_true, beq_iff_eq]
  constructor
  · rintro ⟨⟨⟨p', i'⟩, e⟩, ⟨hm, hp, hv⟩, hi⟩
    simp only at hp hi
    subst hp; subst hi
    exact ⟨e, HashMap.mem_toList_iff_getElem?_eq_some.mp hm, hv⟩
  · rintro ⟨e, he, hv⟩
    exact ⟨((p, i), e), ⟨HashMap.mem_toList_iff_getElem?_eq_some.mpr he, rfl, hv⟩, rfl⟩

theorem connectable_iff (s : RSt) (r : Reg) : connectable s r = true ↔ validAt s (keyOf r) := by
  unfold connectable validAt keyOf
  rw [List.contains_iff_mem, mem_lookup_iff]

/-! ### one `ingestReg` -/

theorem validate_ok_iff (c : Cfg) (r : Reg) :
    validate c r = .ok () ↔
      r.phantom.isEmpty = false ∧ c.transports.contains r.transport = true ∧
        (r.source = srcDetector ∨ blocklisted c r.phantom = false) := by
  unfold validate
  cases h1 : r.phantom.isEmpty <;> cases h2 : c.transports.contains r.transport <;>
    by_cases h3 : r.source = srcDetector <;> cases h4 : blocklisted c r.phantom <;> simp [h3]

/-- does a validated, untracked registration get marked valid -/
def passes (c : Cfg) (o : Oracles) (r : Reg) : Bool :=
  o.covertOk && !(needProbe r && o.live) && !(decide (r.source = srcDetector) && blocklisted c r.phantom)

def probeEvs (r : Reg) : List Ev := if needProbe r then [.probe r.phantom r.port] else []

def shareEvs (c : Cfg) (r : Reg) : List Ev :=
  if decide (r.source = srcDetector) && c.shareOverAPI then
    match genShare r with
    | some sh => [.share sh]
    | none => []
  else []

/-- the events of ingesting a validated, untracked registration -/
def evsOf (c : Cfg) (o : Oracles) (r : Reg) : List Ev :=
  if !o.covertOk then []
  else if needProbe r && o.live then probeEvs r
  else if decide (r.source = srcDetector) && blocklisted c r.phantom then probeEvs r ++ shareEvs c r
  else probeEvs r ++ shareEvs c r ++ [.announce r]

theorem ingestReg_invalid (c : Cfg) (o : Oracles) (s : RSt) (r : Reg) (h : validate c r ≠ .ok ()) :
    ingestReg c o s r = (s, []) := by
  unfold ingestReg
  cases hv : validate c r with
  | error e => rfl
  | ok u => cases u; exact absurd hv h

theorem ingestReg_dup (c : Cfg) (o : Oracles) (s : RSt) (r : Reg) (e : CJ.Registry.Reg)
    (hv : validate c r = .ok ()) (hk : get s (keyOf r) = some e) :
    (ingestReg c o s r).2 = [] ∧
      ∀ k', get (ingestReg c o s r).1 k' =
        if keyOf r = k' then some { e with regCount := e.regCount + 1 } else get s k' := by
  have htr := ((validate_ok_iff c r).mp hv).2.1
  have hc : s.decoys.contains (keyOf r) = true := by rw [contains_iff_get, hk]; rfl
  unfold ingestReg
  simp only [hv, hc, if_true]
  refine ⟨trivial, ?_⟩
  intro k'
  rw [track_get c s (keyOf r) k' r.transport htr, hk]

theorem ingestReg_fresh (c : Cfg) (o : Oracles) (s : RSt) (r : Reg)
    (hv : validate c r = .ok ()) (hk : get s (keyOf r) = none) :
    (ingestReg c o s r).2 = evsOf c o r ∧
      ∀ k', get (ingestReg c o s r).1 k' =
        if keyOf r = k' then some ⟨r.transport, passes c o r, 1⟩ else get s k' := by
  have htr := ((validate_ok_iff c r).mp hv).2.1
  have hc : s.decoys.contains (keyOf r) = false := by rw [contains_iff_get, hk]; rfl
  have hs1 : ∀ k', get (CJ.Registry.track (regCfg c) s (keyOf r) r.transport 0).1 k' =
      if keyOf r = k' then some ⟨r.transport, false, 1⟩ else get s k' := by
    intro k'; rw [track_get c s (keyOf r) k' r.transport htr, hk]
  have hs1k : get (CJ.Registry.track (regCfg c) s (keyOf r) r.transport 0).1 (keyOf r) = some ⟨r.transport, false, 1⟩ := by
    rw [hs1]; simp
  obtain ⟨hnew, hget⟩ := register_get c _ (keyOf r) r.transport ⟨r.transport, false, 1⟩ htr hs1k rfl
  unfold ingestReg evsOf passes
  simp only [hv, hc, Bool.false_eq_true, if_false]
  by_cases hcov : o.covertOk = true
  · simp only [hcov, Bool.not_true, Bool.false_eq_true, if_false, Bool.true_and]
    by_cases hlive : (needProbe r && o.live) = true
    · simp only [hlive, if_true, Bool.not_true, Bool.false_and]
      refine ⟨by unfold probeEvs; rfl, hs1⟩
    · simp only [hlive, Bool.false_eq_true, if_false]
      have hlive' : (needProbe r && o.live) = false := by
        cases h : (needProbe r && o.live) <;> simp_all
      by_cases hbl : (decide (r.source = srcDetector) && blocklisted c r.phantom) = true
      · simp only [hbl, if_true, hlive', Bool.not_false, Bool.not_true, Bool.and_false]
        refine ⟨by unfold probeEvs shareEvs; rfl, hs1⟩
      · have hbl' : (decide (r.source = srcDetector) && blocklisted c r.phantom) = false := by
          cases h : (decide (r.source = srcDetector) && blocklisted c r.phantom) <;> simp_all
        simp only [hbl', Bool.false_eq_true, if_false, hlive', Bool.not_false, Bool.and_true]
        generalize hreg : CJ.Registry.register (regCfg c)
          (CJ.Registry.track (regCfg c) s (keyOf r) r.transport 0).1 (keyOf r) r.transport 0 = res at hnew hget
        obtain ⟨s2, out⟩ := res
        simp only at hnew hget
        subst hnew
        refine ⟨by unfold probeEvs shareEvs; rfl, ?_⟩
        intro k'
        rw [hget k', hs1 k']
        by_cases hkk : keyOf r = k' <;> simp [hkk]
  · have hcov' : o.covertOk = false := by cases h : o.covertOk <;> simp_all
    simp only [hcov', Bool.not_false, if_true, Bool.false_and]
    exact ⟨trivial, hs1⟩

end CJ.Ingest
