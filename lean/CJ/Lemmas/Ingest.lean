import CJ.Model.Ingest
/-! Helper lemmas for the ingest model (C07): the registry as a lookup function, the effect of one
`ingestReg` on it, the shape of `parse`. -/
open Std

namespace CJ.Ingest
open CJ.Registry (Key)
open CJ.Detector (Bytes to4)

/-- the registry seen as a function from keys to entries -/
def get (s : RSt) (k : Key) : Option CJ.Registry.Reg := s.decoys[k]?

/-- tracked and marked valid -/
def validAt (s : RSt) (k : Key) : Prop := ∃ e, get s k = some e ∧ e.valid = true

theorem contains_iff_get (s : RSt) (k : Key) : s.decoys.contains k = (get s k).isSome := by
  unfold get; exact HashMap.contains_eq_isSome_getElem?

/-! ### `track` / `register` as updates of the lookup function -/

theorem track_get (c : Cfg) (s : RSt) (k k' : Key) (tr : Nat) (h : c.transports.contains tr = true) :
    get (CJ.Registry.track (regCfg c) s k tr 0).1 k' =
      if k = k' then
        (match get s k with
         | some e => some { e with regCount := e.regCount + 1 }
         | none => some ⟨tr, false, 1⟩)
      else get s k' := by
  unfold CJ.Registry.track get regCfg
  simp only [h, Bool.not_true, Bool.false_eq_true, if_false]
  cases hk : s.decoys[k]? with
  | some e =>
    simp only [HashMap.getElem?_insert, beq_iff_eq]
  | none =>
    simp only [HashMap.getElem?_insert, beq_iff_eq]

theorem register_get (c : Cfg) (s : RSt) (k : Key) (tr : Nat) (e : CJ.Registry.Reg)
    (h : c.transports.contains tr = true) (hk : get s k = some e) (hv : e.valid = false) :
    (CJ.Registry.register (regCfg c) s k tr 0).2 = .new ∧
      ∀ k', get (CJ.Registry.register (regCfg c) s k tr 0).1 k' =
        if k = k' then some { e with valid := true } else get s k' := by
  unfold get at hk
  unfold CJ.Registry.register get regCfg
  simp only [h, Bool.not_true, Bool.false_eq_true, if_false, hk, hv]
  refine ⟨trivial, ?_⟩
  intro k'
  simp only [HashMap.getElem?_insert, beq_iff_eq]

/-! ### `connectable` is validity at the registration's key -/

theorem mem_lookup_iff (s : RSt) (p i : String) :
    i ∈ CJ.Registry.lookup s p ↔ ∃ e, get s (p, i) = some e ∧ e.valid = true := by
  unfold CJ.Registry.lookup get
  simp only [List.mem_map, List.mem_filter, Bool.and_eq_true, beq_iff_eq]
  constructor
  · rintro ⟨⟨⟨p', i'⟩, e⟩, ⟨hm, hp, hv⟩, hi⟩
    simp only at hp hi
    subst hp; subst hi
    exact ⟨e, HashMap.mem_toList_iff_getElem?_eq_some.mp hm, hv⟩
  · rintro ⟨e, he, hv⟩
    exact ⟨((p, i), e), ⟨HashMap.mem_toList_iff_getElem?_eq_some.mpr he, rfl, hv⟩, rfl⟩

theorem connectable_iff (s : RSt) (r : Reg) : connectable s r = true ↔ validAt s (keyOf r) := by
  unfold connectable validAt keyOf
  rw [List.contains_iff_mem, mem_lookup_iff]

/-! ### one `ingestReg` -/

theorem validate_ok_iff (c : Cfg) (r : Reg) :
    validate c r = .ok () ↔
      r.phantom.isEmpty = false ∧ c.transports.contains r.transport = true ∧
        (r.source = srcDetector ∨ blocklisted c r.phantom = false) := by
  unfold validate
  cases h1 : r.phantom.isEmpty <;> cases h2 : c.transports.contains r.transport <;>
    by_cases h3 : r.source = srcDetector <;> cases h4 : blocklisted c r.phantom <;> simp [h3]

/-- does a validated, untracked registration get marked valid -/
def passes (c : Cfg) (o : Oracles) (r : Reg) : Bool :=
  o.covertOk && !(needProbe r && o.live) && !(decide (r.source = srcDetector) && blocklisted c r.phantom)

def probeEvs (r : Reg) : List Ev := if needProbe r then [.probe r.phantom r.port] else []

def shareEvs (c : Cfg) (r : Reg) : List Ev :=
  if decide (r.source = srcDetector) && c.shareOverAPI then
    match genShare r with
    | some sh => [.share sh]
    | none => []
  else []

/-- the events of ingesting a validated, untracked registration -/
def evsOf (c : Cfg) (o : Oracles) (r : Reg) : List Ev :=
  if !o.covertOk then []
  else if needProbe r && o.live then probeEvs r
  else if decide (r.source = srcDetector) && blocklisted c r.phantom then probeEvs r ++ shareEvs c r
  else probeEvs r ++ shareEvs c r ++ [.announce r]

theorem ingestReg_invalid (c : Cfg) (o : Oracles) (s : RSt) (r : Reg) (h : validate c r ≠ .ok ()) :
    ingestReg c o s r = (s, []) := by
  unfold ingestReg
  cases hv : validate c r with
  | error e => rfl
  | ok u => cases u; exact absurd hv h

theorem ingestReg_dup (c : Cfg) (o : Oracles) (s : RSt) (r : Reg) (e : CJ.Registry.Reg)
    (hv : validate c r = .ok ()) (hk : get s (keyOf r) = some e) :
    (ingestReg c o s r).2 = [] ∧
      ∀ k', get (ingestReg c o s r).1 k' =
        if keyOf r = k' then some { e with regCount := e.regCount + 1 } else get s k' := by
  have htr := ((validate_ok_iff c r).mp hv).2.1
  have hc : s.decoys.contains (keyOf r) = true := by rw [contains_iff_get, hk]; rfl
  unfold ingestReg
  simp only [hv, hc, if_true]
  refine ⟨trivial, ?_⟩
  intro k'
  rw [track_get c s (keyOf r) k' r.transport htr, hk]

theorem ingestReg_fresh (c : Cfg) (o : Oracles) (s : RSt) (r : Reg)
    (hv : validate c r = .ok ()) (hk : get s (keyOf r) = none) :
    (ingestReg c o s r).2 = evsOf c o r ∧
      ∀ k', get (ingestReg c o s r).1 k' =
        if keyOf r = k' then some ⟨r.transport, passes c o r, 1⟩ else get s k' := by
  have htr := ((validate_ok_iff c r).mp hv).2.1
  have hc : s.decoys.contains (keyOf r) = false := by rw [contains_iff_get, hk]; rfl
  have hs1 : ∀ k', get (CJ.Registry.track (regCfg c) s (keyOf r) r.transport 0).1 k' =
      if keyOf r = k' then some ⟨r.transport, false, 1⟩ else get s k' := by
    intro k'; rw [track_get c s (keyOf r) k' r.transport htr, hk]
  have hs1k : get (CJ.Registry.track (regCfg c) s (keyOf r) r.transport 0).1 (keyOf r) = some ⟨r.transport, false, 1⟩ := by
    rw [hs1]; simp
  obtain ⟨hnew, hget⟩ := register_get c _ (keyOf r) r.transport ⟨r.transport, false, 1⟩ htr hs1k rfl
  unfold ingestReg evsOf passes
  simp only [hv, hc, Bool.false_eq_true, if_false]
  by_cases hcov : o.covertOk = true
  · simp only [hcov, Bool.not_true, Bool.false_eq_true, if_false, Bool.true_and]
    by_cases hlive : (needProbe r && o.live) = true
    · simp only [hlive, if_true, Bool.not_true, Bool.false_and]
      refine ⟨by unfold probeEvs; rfl, hs1⟩
    · simp only [hlive, Bool.false_eq_true, if_false]
      have hlive' : (needProbe r && o.live) = false := by
        cases h : (needProbe r && o.live) <;> simp_all
      by_cases hbl : (decide (r.source = srcDetector) && blocklisted c r.phantom) = true
      · simp only [hbl, if_true, Bool.not_false, Bool.not_true, Bool.and_false]
        refine ⟨by unfold probeEvs shareEvs; rfl, hs1⟩
      · have hbl' : (decide (r.source = srcDetector) && blocklisted c r.phantom) = false := by
          cases h : (decide (r.source = srcDetector) && blocklisted c r.phantom) <;> simp_all
        simp only [hbl', Bool.false_eq_true, if_false, Bool.not_false, Bool.and_true]
        generalize hreg : CJ.Registry.register (regCfg c)
          (CJ.Registry.track (regCfg c) s (keyOf r) r.transport 0).1 (keyOf r) r.transport 0 = res at hnew hget
        obtain ⟨s2, out⟩ := res
        simp only at hnew hget
        subst hnew
        refine ⟨by unfold probeEvs shareEvs; rfl, ?_⟩
        intro k'
        rw [hget k', hs1 k']
        by_cases hkk : keyOf r = k' <;> simp [hkk]
  · have hcov' : o.covertOk = false := by cases h : o.covertOk <;> simp_all
    simp only [hcov', Bool.not_false, if_true, Bool.false_and]
    exact ⟨trivial, hs1⟩

/-! ### `parse` and `ingestWire` -/

/-- the registration `parseRegMessage` hands to ingest for family `f`, if any -/
def regOf (c : Cfg) (m : Msg) (o : Oracles) (f : Fam) : Option Reg :=
  if attempted c m f then
    match buildFam c m o f with
    | .ok r => some r
    | .error _ => none
  else none

theorem ingestWire_eq (c : Cfg) (s : RSt) (m : Msg) (o : Oracles) :
    ingestWire c s (.msg m o) =
      ingestRegs c o s ((regOf c m o .v4).toList ++ (regOf c m o .v6).toList) := by
  cases h4 : attempted c m .v4 <;> cases h6 : attempted c m .v6 <;>
    cases b4 : buildFam c m o .v4 <;> cases b6 : buildFam c m o .v6 <;>
    simp [ingestWire, parse, tryFam, regOf, okRegs, ingestRegs, h4, h6, b4, b6]

theorem newRegistration_some_iff (c : Cfg) (m : Msg) (o : Oracles) (f : Fam) (b : Build) :
    newRegistration c m o f = some b ↔
      ∃ ph rnd p, selOf o f = some (ph, rnd) ∧ c.transports.contains m.transport = true ∧ o.paramsOk = true ∧
        basePort m o rnd = some p ∧ b = ⟨ph, p, o.proto⟩ := by
  unfold newRegistration
  cases hs : selOf o f with
  | none => simp
  | some pr =>
    obtain ⟨ph, rnd⟩ := pr
    dsimp only
    cases htr : c.transports.contains m.transport
    · simp
    · cases hp : o.paramsOk
      · simp
      · cases hport : basePort m o rnd with
        | none =>
          simp only [Bool.not_true, Bool.false_eq_true, if_false, reduceCtorEq, false_iff]
          rintro ⟨ph', rnd', p', hs', _, _, hp', _⟩
          cases hs'; rw [hport] at hp'; cases hp'
        | some p =>
          simp only [Bool.not_true, Bool.false_eq_true, if_false, Option.some.injEq]
          constructor
          · intro h; exact ⟨ph, rnd, p, rfl, trivial, trivial, hport, h.symm⟩
          · rintro ⟨ph', rnd', p', hs', _, _, hp', rfl⟩
            cases hs'; rw [hport] at hp'; cases hp'; rfl

theorem buildFam_ok_iff (c : Cfg) (m : Msg) (o : Oracles) (f : Fam) (r : Reg) :
    buildFam c m o f = .ok r ↔
      ∃ ph rnd p, selOf o f = some (ph, rnd) ∧ c.transports.contains m.transport = true ∧ o.paramsOk = true ∧
        basePort m o rnd = some p ∧ overrideOkB m f = true ∧ validIP (registrantOf m) = true ∧
        (isV4 ((overrideOf m f).getD ph) = true → isV4 (registrantOf m) = true) ∧ o.geoOk = true ∧
        r = mkReg m o ((overrideOf m f).getD ph) (finalPort m p) := by
  unfold buildFam
  cases hn : newRegistration c m o f with
  | none =>
    simp only [reduceCtorEq, false_iff]
    rintro ⟨ph, rnd, p, hs, htr, hp, hport, _⟩
    have := (newRegistration_some_iff c m o f ⟨ph, p, o.proto⟩).mpr ⟨ph, rnd, p, hs, htr, hp, hport, rfl⟩
    rw [hn] at this; cases this
  | some b =>
    obtain ⟨ph, rnd, p, hs, htr, hp, hport, rfl⟩ := (newRegistration_some_iff c m o f b).mp hn
    simp only
    constructor
    · intro h
      cases hov : overrideOkB m f
      · simp [hov] at h
      · cases hvr : validIP (registrantOf m)
        · simp [hov, hvr] at h
        · cases hfam : (isV4 ((overrideOf m f).getD ph) && !isV4 (registrantOf m))
          · cases hg : o.geoOk
            · simp [hov, hvr, hfam, hg] at h
            · simp [hov, hvr, hfam, hg] at h
              refine ⟨ph, rnd, p, hs, htr, hp, hport, rfl, rfl, ?_, rfl, h.symm⟩
              intro h4; rw [h4] at hfam; simpa using hfam
          · simp [hov, hvr, hfam] at h
    · rintro ⟨ph', rnd', p', hs', _, _, hport', hov, hvr, hfam, hg, rfl⟩
      rw [hs] at hs'; cases hs'
      rw [hport] at hport'; cases hport'
      have hfam' : (isV4 ((overrideOf m f).getD ph) && !isV4 (registrantOf m)) = false := by
        cases h4 : isV4 ((overrideOf m f).getD ph)
        · rfl
        · simp [hfam h4]
      simp [hov, hvr, hfam', hg]

/-! ### what one `ingestReg` does, for any state -/

theorem get_isSome_or_none (s : RSt) (k : Key) : (∃ e, get s k = some e) ∨ get s k = none := by
  cases h : get s k with
  | none => exact Or.inr rfl
  | some e => exact Or.inl ⟨e, rfl⟩

theorem validate_cases (c : Cfg) (r : Reg) : validate c r = .ok () ∨ validate c r ≠ .ok () := by
  cases h : validate c r with
  | error e => exact Or.inr (by simp)
  | ok u => cases u; exact Or.inl rfl

def validB (c : Cfg) (r : Reg) : Bool :=
  match validate c r with
  | .ok _ => true
  | .error _ => false

theorem validB_iff (c : Cfg) (r : Reg) : validB c r = true ↔ validate c r = .ok () := by
  unfold validB
  cases h : validate c r with
  | error e => simp
  | ok u => cases u; simp

instance (c : Cfg) (r : Reg) : Decidable (validate c r = .ok ()) := decidable_of_iff _ (validB_iff c r)

/-- a key other than the registration's is not touched -/
theorem get_ingestReg_other (c : Cfg) (o : Oracles) (s : RSt) (r : Reg) (k : Key) (hk : keyOf r ≠ k) :
    get (ingestReg c o s r).1 k = get s k := by
  rcases validate_cases c r with hv | hv
  · rcases get_isSome_or_none s (keyOf r) with ⟨e, he⟩ | hn
    · rw [(ingestReg_dup c o s r e hv he).2 k, if_neg hk]
    · rw [(ingestReg_fresh c o s r hv hn).2 k, if_neg hk]
  · rw [ingestReg_invalid c o s r hv]

/-- the registration's own entry afterwards -/
theorem get_ingestReg_self (c : Cfg) (o : Oracles) (s : RSt) (r : Reg) :
    get (ingestReg c o s r).1 (keyOf r) =
      if validate c r = .ok () then
        (match get s (keyOf r) with
         | some e => some { e with regCount := e.regCount + 1 }
         | none => some ⟨r.transport, passes c o r, 1⟩)
      else get s (keyOf r) := by
  rcases validate_cases c r with hv | hv
  · rw [if_pos hv]
    rcases get_isSome_or_none s (keyOf r) with ⟨e, he⟩ | hn
    · rw [(ingestReg_dup c o s r e hv he).2 _, if_pos rfl, he]
    · rw [(ingestReg_fresh c o s r hv hn).2 _, if_pos rfl, hn]
  · rw [if_neg hv, ingestReg_invalid c o s r hv]

/-- the events of one `ingestReg`: those of a validated, untracked registration, or none -/
theorem evs_ingestReg (c : Cfg) (o : Oracles) (s : RSt) (r : Reg) :
    (ingestReg c o s r).2 =
      if validate c r = .ok () ∧ get s (keyOf r) = none then evsOf c o r else [] := by
  rcases validate_cases c r with hv | hv
  · rcases get_isSome_or_none s (keyOf r) with ⟨e, he⟩ | hn
    · rw [(ingestReg_dup c o s r e hv he).1, if_neg]; rintro ⟨_, h⟩; rw [he] at h; cases h
    · rw [(ingestReg_fresh c o s r hv hn).1, if_pos ⟨hv, hn⟩]
  · rw [ingestReg_invalid c o s r hv, if_neg]; exact fun h => hv h.1

theorem mem_probeEvs (r : Reg) (e : Ev) : e ∈ probeEvs r ↔ needProbe r = true ∧ e = .probe r.phantom r.port := by
  unfold probeEvs
  cases h : needProbe r <;> simp

theorem mem_shareEvs (c : Cfg) (r : Reg) (e : Ev) :
    e ∈ shareEvs c r ↔
      r.source = srcDetector ∧ c.shareOverAPI = true ∧ ∃ sh, genShare r = some sh ∧ e = .share sh := by
  unfold shareEvs
  by_cases hs : r.source = srcDetector <;> cases hc : c.shareOverAPI <;> cases hg : genShare r <;> simp [hs]

theorem announce_mem_evsOf (c : Cfg) (o : Oracles) (r r' : Reg) :
    Ev.announce r ∈ evsOf c o r' ↔ r = r' ∧ passes c o r' = true := by
  unfold evsOf passes
  cases hcov : o.covertOk <;> cases hl : (needProbe r' && o.live) <;>
    cases hb : (decide (r'.source = srcDetector) && blocklisted c r'.phantom) <;>
    simp [mem_probeEvs, mem_shareEvs]

theorem announce_mem_ingestReg (c : Cfg) (o : Oracles) (s : RSt) (r r' : Reg) :
    Ev.announce r ∈ (ingestReg c o s r').2 ↔
      r = r' ∧ validate c r' = .ok () ∧ get s (keyOf r') = none ∧ passes c o r' = true := by
  rw [evs_ingestReg]
  by_cases h : validate c r' = .ok () ∧ get s (keyOf r') = none
  · rw [if_pos h, announce_mem_evsOf]; constructor
    · rintro ⟨h1, h2⟩; exact ⟨h1, h.1, h.2, h2⟩
    · rintro ⟨h1, _, _, h2⟩; exact ⟨h1, h2⟩
  · rw [if_neg h]; constructor
    · intro hm; cases hm
    · rintro ⟨_, h1, h2, _⟩; exact absurd ⟨h1, h2⟩ h

theorem validAt_ingestReg (c : Cfg) (o : Oracles) (s : RSt) (r : Reg) (k : Key) :
    validAt (ingestReg c o s r).1 k ↔
      validAt s k ∨ (k = keyOf r ∧ validate c r = .ok () ∧ get s k = none ∧ passes c o r = true) := by
  unfold validAt
  by_cases hk : keyOf r = k
  · subst hk
    rw [get_ingestReg_self]
    rcases validate_cases c r with hv | hv
    · rw [if_pos hv]
      rcases get_isSome_or_none s (keyOf r) with ⟨e, he⟩ | hn
      · rw [he]; constructor
        · rintro ⟨e', he', hv'⟩; cases he'; exact Or.inl ⟨e, rfl, hv'⟩
        · rintro (⟨e', he', hv'⟩ | ⟨_, _, h, _⟩)
          · cases he'; exact ⟨_, rfl, hv'⟩
          · cases h
      · rw [hn]; constructor
        · rintro ⟨e', he', hv'⟩; cases he'; exact Or.inr ⟨rfl, hv, rfl, hv'⟩
        · rintro (⟨e', he', _⟩ | ⟨_, _, _, hp⟩)
          · cases he'
          · exact ⟨_, rfl, hp⟩
    · rw [if_neg hv]; constructor
      · intro h; exact Or.inl h
      · rintro (h | ⟨_, h, _⟩)
        · exact h
        · exact absurd h hv
  · rw [get_ingestReg_other c o s r k hk]; constructor
    · intro h; exact Or.inl h
    · rintro (h | ⟨h, _⟩)
      · exact h
      · exact absurd h.symm hk

/-! ### address families of the two registrations of one message -/

/-- contract of the phantom selector (C14): it hands out an address of the requested family -/
structure SelectorFam (o : Oracles) : Prop where
  v4 : ∀ ph rnd, o.sel4 = some (ph, rnd) → isV4 ph = true
  v6 : ∀ ph rnd, o.sel6 = some (ph, rnd) → ph.length = 16 ∧ isV4 ph = false

theorem isV4_len {ip : Bytes} (h : isV4 ip = true) : ip.length = 4 ∨ ip.length = 16 := by
  unfold isV4 to4 at h
  by_cases h4 : ip.length = 4
  · exact Or.inl h4
  · by_cases h16 : ip.length = 16 ∧ ip.take 12 = CJ.Detector.v4InV6Prefix
    · exact Or.inr h16.1
    · simp [h4, h16] at h

theorem len4_isV4 {ip : Bytes} (h : ip.length = 4) : isV4 ip = true := by
  unfold isV4 to4; simp [h]

theorem validIP_iff (ip : Bytes) : validIP ip = true ↔ ip.length = 4 ∨ ip.length = 16 := by
  unfold validIP; simp

theorem buildFam_phantom {c : Cfg} {m : Msg} {o : Oracles} {f : Fam} {r : Reg}
    (hsel : SelectorFam o) (h : buildFam c m o f = .ok r) :
    (f = .v4 → isV4 r.phantom = true) ∧ (f = .v6 → r.phantom.length = 16 ∧ isV4 r.phantom = false) := by
  obtain ⟨ph, rnd, p, hs, _, _, _, hov, _, _, _, rfl⟩ := (buildFam_ok_iff c m o f r).mp h
  unfold overrideOkB at hov
  unfold mkReg
  simp only
  cases ho : overrideOf m f with
  | none =>
    simp only [Option.getD_none]
    constructor
    · intro hf; subst hf; exact hsel.v4 ph rnd hs
    · intro hf; subst hf; exact hsel.v6 ph rnd hs
  | some ip =>
    rw [ho] at hov
    simp only [Option.getD_some]
    unfold overrideValid at hov
    simp only [Bool.and_eq_true, beq_iff_eq] at hov
    obtain ⟨hv, hfam⟩ := hov
    constructor
    · intro hf; subst hf; rw [hfam]; decide
    · intro hf; subst hf
      have h4 : isV4 ip = false := by rw [hfam]; decide
      refine ⟨?_, h4⟩
      rcases (validIP_iff ip).mp hv with hl | hl
      · rw [len4_isV4 hl] at h4; cases h4
      · exact hl

theorem phKey_ne {a b : Bytes} (ha : isV4 a = true) (hb : b.length = 16) (hb4 : isV4 b = false) :
    phKey a ≠ phKey b := by
  unfold phKey
  unfold isV4 at ha hb4
  cases h1 : to4 a with
  | none => rw [h1] at ha; cases ha
  | some x =>
    cases h2 : to4 b with
    | some y => rw [h2] at hb4; cases hb4
    | none =>
      simp only [hb, if_true]
      intro h
      have := congrArg String.toList h
      simp [String.toList_append] at this

theorem regOf_some {c : Cfg} {m : Msg} {o : Oracles} {f : Fam} {r : Reg} (h : regOf c m o f = some r) :
    attempted c m f = true ∧ buildFam c m o f = .ok r := by
  unfold regOf at h
  cases ha : attempted c m f
  · simp [ha] at h
  · cases hb : buildFam c m o f with
    | error e => simp [ha, hb] at h
    | ok r' => simp [ha, hb] at h; subst h; exact ⟨rfl, rfl⟩

/-- the IPv4 and the IPv6 registration of one message never share a registry key -/
theorem keys_ne {c : Cfg} {m : Msg} {o : Oracles} {r4 r6 : Reg} (hsel : SelectorFam o)
    (h4 : regOf c m o .v4 = some r4) (h6 : regOf c m o .v6 = some r6) : keyOf r4 ≠ keyOf r6 := by
  have p4 := (buildFam_phantom hsel (regOf_some h4).2).1 rfl
  have p6 := (buildFam_phantom hsel (regOf_some h6).2).2 rfl
  unfold keyOf
  intro h
  exact phKey_ne p4 p6.1 p6.2 (congrArg Prod.fst h)

theorem announce_ne {r4 r6 : Reg} (h : keyOf r4 ≠ keyOf r6) : r4 ≠ r6 := by
  intro he; subst he; exact h rfl

end CJ.Ingest
