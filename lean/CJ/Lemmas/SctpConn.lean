import CJ.Model.SctpConn
import CJ.Model.Heartbeat
/-! Helper lemmas for the `SCTPConn` / heartbeat models: conservation of bytes by `Read`, a
termination measure, origin of reported errors, the flow-control invariant. -/
namespace CJ.SctpConn

/-- all message bytes still in the script -/
def flat (s : Script) : Bytes := (s.items.map (·.data)).flatten

/-- bytes of the current message not yet handed out -/
def pending (st : RState) : Bytes := st.buf.drop st.off

/-- every scripted message fits the buffers (`maxMessageSize`) -/
def Fits (cap : Nat) (s : Script) : Prop := ∀ it ∈ s.items, it.data.length ≤ cap

def datas (rs : List (Bytes × Option Err)) : Bytes := (rs.map (·.1)).flatten

theorem flat_cons (it : Item) (rest : List Item) (e : Err) :
    flat ⟨it :: rest, e⟩ = it.data ++ flat ⟨rest, e⟩ := by
  simp [flat]

/-- one read of the scripted stream into a large enough buffer: the head message comes out whole -/
theorem script_read_spec (cap cap' : Nat) (s : Script) (hf : Fits cap s) (hc : cap ≤ cap') :
    (s.read cap').1.1 ++ flat (s.read cap').2 = flat s ∧ Fits cap (s.read cap').2 ∧
    (s.read cap').2.endErr = s.endErr ∧
    ∃ pre, s.items = pre ++ (s.read cap').2.items := by
  obtain ⟨items, e⟩ := s
  cases items with
  | nil => simp [Script.read, flat]; exact hf
  | cons it rest =>
    have hit : it.data.length ≤ cap' := Nat.le_trans (hf it (by simp)) hc
    simp only [Script.read, hit, if_true]
    refine ⟨by rw [flat_cons], ?_, trivial, [it], by simp⟩
    intro x hx
    exact hf x (by simp [hx])

theorem copyOut_spec (st : RState) (m : Nat) :
    (copyOut st m).1.1 ++ pending (copyOut st m).2 = pending st := by
  simp only [copyOut, pending]
  rw [← List.drop_drop, List.take_append_drop]

/-- an error is reported by `copyOut` only together with the last pending byte -/
theorem copyOut_err (st : RState) (m : Nat) (e : Err) (_hw : st.off ≤ st.buf.length)
    (h : (copyOut st m).1.2 = some e) : pending (copyOut st m).2 = [] ∧ st.err = some e := by
  simp only [copyOut] at h
  split at h
  · rename_i heq
    refine ⟨?_, h⟩
    simp only [copyOut, pending]
    rw [heq]; simp
  · cases h

theorem copyOut_wf (st : RState) (m : Nat) (hw : st.off ≤ st.buf.length) :
    (copyOut st m).2.off ≤ (copyOut st m).2.buf.length := by
  simp only [copyOut]
  omega

/-- **conservation**: one `Read` moves bytes from (pending ++ script) to the caller, nothing else -/
theorem read_spec (maxMsg : Nat) (st : RState) (s : Script) (m : Nat) (hf : Fits maxMsg s)
    (hw : st.off ≤ st.buf.length) :
    (read maxMsg st s m).1.1 ++ pending (read maxMsg st s m).2.1 ++ flat (read maxMsg st s m).2.2
      = pending st ++ flat s ∧
    Fits maxMsg (read maxMsg st s m).2.2 ∧
    (read maxMsg st s m).2.1.off ≤ (read maxMsg st s m).2.1.buf.length ∧
    (read maxMsg st s m).2.2.endErr = s.endErr ∧
    ∃ pre, s.items = pre ++ (read maxMsg st s m).2.2.items := by
  unfold read
  split
  · rename_i hoff
    have hp : pending st = [] := by simp [pending, hoff]
    split
    · rename_i hm
      obtain ⟨h1, h2, h3, h4⟩ := script_read_spec maxMsg m s hf hm
      simp only
      refine ⟨?_, h2, hw, h3, h4⟩
      rw [hp, List.append_nil, List.nil_append]; exact h1
    · obtain ⟨h1, h2, h3, h4⟩ := script_read_spec maxMsg maxMsg s hf (Nat.le_refl _)
      simp only
      refine ⟨?_, h2, copyOut_wf _ _ (by simp), h3, h4⟩
      rw [copyOut_spec, hp, List.nil_append]
      simpa [pending] using h1
  · simp only
    refine ⟨by rw [copyOut_spec], hf, copyOut_wf _ _ hw, trivial, [], by simp⟩

/-- a `Read` that reports an error leaves nothing pending -/
theorem read_err_nothing_pending (maxMsg : Nat) (st : RState) (s : Script) (m : Nat) (e : Err)
    (hw : st.off ≤ st.buf.length) (h : (read maxMsg st s m).1.2 = some e) :
    pending (read maxMsg st s m).2.1 = [] := by
  unfold read at h ⊢
  split
  · rename_i hoff
    split
    · simp [pending, hoff]
    · rw [if_pos hoff, if_neg (by assumption)] at h
      exact (copyOut_err _ _ e (by simp) h).1
  · rename_i hoff
    rw [if_neg hoff] at h
    exact (copyOut_err _ _ e hw h).1

/-- conservation over a whole sequence of reads -/
theorem run_spec (maxMsg : Nat) (sizes : List Nat) (st : RState) (s : Script) (hf : Fits maxMsg s)
    (hw : st.off ≤ st.buf.length) :
    datas (run maxMsg st s sizes).1 ++ pending (run maxMsg st s sizes).2.1 ++ flat (run maxMsg st s sizes).2.2
      = pending st ++ flat s ∧
    (run maxMsg st s sizes).2.2.endErr = s.endErr ∧
    (∃ pre, s.items = pre ++ (run maxMsg st s sizes).2.2.items) ∧
    (∀ d e, (run maxMsg st s sizes).1.getLast? = some (d, some e) → pending (run maxMsg st s sizes).2.1 = []) := by
  induction sizes generalizing st s with
  | nil => simp [run, datas]
  | cons m ms ih =>
    obtain ⟨h1, h2, h3, h4, pre1, h5⟩ := read_spec maxMsg st s m hf hw
    obtain ⟨i1, i2, ⟨pre2, i3⟩, i4⟩ := ih (read maxMsg st s m).2.1 (read maxMsg st s m).2.2 h2 h3
    simp only [run]
    refine ⟨?_, by rw [i2, h4], ⟨pre1 ++ pre2, by rw [h5, i3]; simp⟩, ?_⟩
    · simp only [datas, List.map_cons, List.flatten_cons, List.append_assoc] at i1 ⊢
      rw [i1, ← List.append_assoc, h1]
    · intro d e hl
      cases hms : ms with
      | nil =>
        subst hms
        simp only [run, List.getLast?_singleton, Option.some.injEq] at hl ⊢
        have : (read maxMsg st s m).1.2 = some e := by rw [hl]
        exact read_err_nothing_pending maxMsg st s m e hw this
      | cons m' ms' =>
        subst hms
        apply i4 d e
        have hne : (run maxMsg (read maxMsg st s m).2.1 (read maxMsg st s m).2.2 (m' :: ms')).1 ≠ [] := by
          simp [run]
        rw [List.getLast?_cons_of_ne_nil hne] at hl
        exact hl

/-- progress measure: bytes and messages still to be handed out -/
def mu (st : RState) (s : Script) : Nat := (pending st).length + (flat s).length + s.items.length

theorem read_mu (maxMsg : Nat) (st : RState) (s : Script) (m : Nat) (hf : Fits maxMsg s)
    (hw : st.off ≤ st.buf.length) (hm : 0 < m) :
    mu (read maxMsg st s m).2.1 (read maxMsg st s m).2.2 + 1 ≤ mu st s ∨
    mu (read maxMsg st s m).2.1 (read maxMsg st s m).2.2 = 0 := by
  unfold read
  split
  · rename_i hoff
    have hp : pending st = [] := by simp [pending, hoff]
    obtain ⟨items, e⟩ := s
    cases items with
    | nil =>
      right
      split <;> simp [Script.read, mu, pending, flat, copyOut, hoff]
    | cons it rest =>
      left
      have hit : it.data.length ≤ maxMsg := hf it (by simp)
      split
      · rename_i hm'
        have hit' : it.data.length ≤ m := Nat.le_trans hit hm'
        simp only [Script.read, hit', if_true, mu, hp, flat_cons, List.length_append, List.length_cons, List.length_nil]
        omega
      · simp only [Script.read, hit, if_true, mu, hp, flat_cons, List.length_append, List.length_cons,
          List.length_nil, copyOut, pending, List.length_drop]
        omega
  · rename_i hoff
    left
    simp only [mu, copyOut, pending, List.length_drop]
    omega

theorem run_mu (maxMsg : Nat) (sizes : List Nat) (st : RState) (s : Script) (hf : Fits maxMsg s)
    (hw : st.off ≤ st.buf.length) (hpos : ∀ m ∈ sizes, 0 < m) :
    mu (run maxMsg st s sizes).2.1 (run maxMsg st s sizes).2.2 + sizes.length ≤ mu st s ∨
    mu (run maxMsg st s sizes).2.1 (run maxMsg st s sizes).2.2 = 0 := by
  induction sizes generalizing st s with
  | nil => left; simp [run]
  | cons m ms ih =>
    obtain ⟨_, h2, h3, _, _⟩ := read_spec maxMsg st s m hf hw
    have hm := read_mu maxMsg st s m hf hw (hpos m (by simp))
    have := ih (read maxMsg st s m).2.1 (read maxMsg st s m).2.2 h2 h3 (fun x hx => hpos x (by simp [hx]))
    show mu (run maxMsg (read maxMsg st s m).2.1 (read maxMsg st s m).2.2 ms).2.1
          (run maxMsg (read maxMsg st s m).2.1 (read maxMsg st s m).2.2 ms).2.2 + (ms.length + 1) ≤ mu st s ∨
        mu (run maxMsg (read maxMsg st s m).2.1 (read maxMsg st s m).2.2 ms).2.1
          (run maxMsg (read maxMsg st s m).2.1 (read maxMsg st s m).2.2 ms).2.2 = 0
    rcases this with h | h
    · rcases hm with hm | hm
      · left; omega
      · right; omega
    · right; exact h

/-- every error a `Read` reports satisfies a predicate that holds of all errors in the script -/
theorem read_err_origin (Q : Err → Prop) (maxMsg : Nat) (st : RState) (s : Script) (m : Nat)
    (hf : Fits maxMsg s) (hs : ∀ it ∈ s.items, ∀ e, it.err = some e → Q e) (he : Q s.endErr)
    (hst : ∀ e, st.err = some e → Q e) :
    (∀ e, (read maxMsg st s m).1.2 = some e → Q e) ∧
    (∀ e, (read maxMsg st s m).2.1.err = some e → Q e) ∧
    (∀ it ∈ (read maxMsg st s m).2.2.items, ∀ e, it.err = some e → Q e) := by
  have hsr : ∀ cap, maxMsg ≤ cap → (∀ e, (s.read cap).1.2 = some e → Q e) ∧
      (∀ it ∈ (s.read cap).2.items, ∀ e, it.err = some e → Q e) := by
    intro cap hc
    obtain ⟨items, ee⟩ := s
    cases items with
    | nil => simp only [Script.read]; exact ⟨fun e h => by cases h; exact he, hs⟩
    | cons it rest =>
      have hit : it.data.length ≤ cap := Nat.le_trans (hf it (by simp)) hc
      simp only [Script.read, hit, if_true]
      exact ⟨fun e h => hs it (by simp) e h, fun x hx => hs x (by simp [hx])⟩
  unfold read
  split
  · split
    · rename_i hm
      exact ⟨(hsr m hm).1, hst, (hsr m hm).2⟩
    · refine ⟨?_, ?_, (hsr maxMsg (Nat.le_refl _)).2⟩
      · intro e h
        simp only [copyOut] at h
        split at h
        · exact (hsr maxMsg (Nat.le_refl _)).1 e h
        · cases h
      · intro e h
        simp only [copyOut] at h
        exact (hsr maxMsg (Nat.le_refl _)).1 e h
  · refine ⟨?_, ?_, hs⟩
    · intro e h
      simp only [copyOut] at h
      split at h
      · exact hst e h
      · cases h
    · intro e h
      simp only [copyOut] at h
      exact hst e h

/-! ### flow control -/

/-- bytes an operation writes below the flow control (heartbeats of the dialling side) -/
def opHb : WOp → Nat
  | .hbWrite n => n
  | _ => 0

def hbBytes (ops : List WOp) : Nat := (ops.map opHb).sum

/-- with the token in the channel at most `max` bytes are buffered; without it at most `max + max/2`
(one stale token may have been spent); a blocked write has not been added yet.  `h` is the slack for
bytes written below the flow control. -/
def WInv (max h : Nat) (s : WState) : Prop :=
  (s.token = true → s.buffered ≤ max + h) ∧ s.buffered ≤ max + max / 2 + h ∧
  (∀ n, s.blocked = some n → n ≤ max / 2 ∧ s.token = false)

theorem winv_init (max : Nat) : WInv max 0 {} := by simp [WInv]

theorem winv_step (max h : Nat) (s : WState) (op : WOp) (hi : WInv max h s) :
    WInv max (h + opHb op) (wstep max s op).1 := by
  obtain ⟨h1, h2, h3⟩ := hi
  cases op with
  | write n =>
    simp only [wstep, opHb, Nat.add_zero]
    split
    · exact ⟨h1, h2, h3⟩
    · rename_i hb
      have hb' : s.blocked = none := by
        cases hbb : s.blocked with
        | none => rfl
        | some x => simp [hbb] at hb
      split
      · exact ⟨h1, h2, h3⟩
      · split
        · exact ⟨h1, h2, h3⟩
        · rename_i hn0 hlim
          split
          · split
            · exact ⟨h1, h2, h3⟩
            · split
              · rename_i htok
                refine ⟨by simp, ?_, by simp [hb']⟩
                have := h1 htok
                simp only
                omega
              · rename_i htok
                refine ⟨h1, h2, ?_⟩
                intro n' hn'
                simp only [Option.some.injEq] at hn'
                subst hn'
                exact ⟨by omega, by simpa using htok⟩
          · rename_i hfit
            refine ⟨fun _ => by simp only; omega, by simp only; omega, by simp [hb']⟩
  | drain k =>
    simp only [wstep, opHb, Nat.add_zero]
    split
    · rename_i hfire
      split
      · rename_i n hbl
        obtain ⟨hn, _⟩ := h3 n hbl
        refine ⟨fun _ => by simp only; omega, by simp only; omega, by simp⟩
      · rename_i hbl
        refine ⟨fun _ => by simp only; omega, by simp only; omega, by simp [hbl]⟩
    · refine ⟨fun ht => by have := h1 ht; simp only; omega, by simp only; omega, h3⟩
  | hbWrite n =>
    simp only [wstep, opHb]
    exact ⟨fun ht => by have := h1 ht; simp only; omega, by simp only; omega, h3⟩
  | close =>
    simp only [wstep, opHb, Nat.add_zero]
    split
    · exact ⟨h1, h2, by simp⟩
    · exact ⟨h1, h2, h3⟩

theorem winv_run (max : Nat) (ops : List WOp) (h : Nat) (s : WState) (hi : WInv max h s) :
    WInv max (h + hbBytes ops) (wrun max ops s) := by
  induction ops generalizing h s with
  | nil => simpa [hbBytes, wrun] using hi
  | cons o os ih =>
    have := ih (h + opHb o) (wstep max s o).1 (winv_step max h s o hi)
    simp only [hbBytes, List.map_cons, List.sum_cons] at this ⊢
    rw [Nat.add_assoc] at this
    exact this

/-! ### the bound for any shape of the wait -/

def gopHb : GOp → Nat
  | .op o => opHb o
  | .fire _ => 0

def ghbBytes (ops : List GOp) : Nat := (ops.map gopHb).sum

theorem safe_case (sh : WaitShape) (hs : sh.safe = true) (w : Wake) (hc : w ≠ .closed) (hl : w ≠ .low)
    (he : sh.exitOf w = some .proceed) : sh.loops = true := by
  unfold WaitShape.exitOf at he
  cases hf : sh.cases.find? (fun c => c.1 = w) with
  | none => simp [hf] at he
  | some c =>
    simp only [hf, Option.map_some, Option.some.injEq] at he
    have hmem := List.mem_of_find?_eq_some hf
    have hw : c.1 = w := by simpa using List.find?_some hf
    have := (List.all_eq_true.mp hs) c hmem
    simp [hw, hc, hl, he] at this
    exact this

theorem ginv_step (sh : WaitShape) (hs : sh.safe = true) (max h : Nat) (s : WState) (op : GOp)
    (hi : WInv max h s) : WInv max (h + gopHb op) (gstep sh max s op).1 := by
  cases op with
  | op o => exact winv_step max h s o hi
  | fire w =>
    obtain ⟨h1, h2, h3⟩ := hi
    simp only [gstep, fire, gopHb, Nat.add_zero]
    split
    · exact ⟨h1, h2, h3⟩
    · rename_i n hbl
      obtain ⟨hn, htok⟩ := h3 n hbl
      split
      · exact ⟨h1, h2, h3⟩
      · rename_i hw
        have hc : w ≠ .closed := fun e => hw (Or.inl e)
        have hl : w ≠ .low := fun e => hw (Or.inr e)
        split
        · exact ⟨h1, h2, h3⟩
        · exact ⟨h1, h2, by simp⟩
        · rename_i he
          have hloop := safe_case sh hs w hc hl he
          split
          · exact ⟨h1, h2, h3⟩
          · rename_i hgo
            have hle : s.buffered + n ≤ max := by
              rcases Nat.lt_or_ge max (s.buffered + n) with hlt | hge
              · exact absurd ⟨hloop, hlt⟩ hgo
              · exact hge
            refine ⟨fun _ => by simp only; omega, by simp only; omega, by simp⟩

theorem ginv_run (sh : WaitShape) (hs : sh.safe = true) (max : Nat) (ops : List GOp) (h : Nat) (s : WState)
    (hi : WInv max h s) : WInv max (h + ghbBytes ops) (grun sh max ops s) := by
  induction ops generalizing h s with
  | nil => simpa [ghbBytes, grun] using hi
  | cons o os ih =>
    have := ih (h + gopHb o) (gstep sh max s o).1 (ginv_step sh hs max h s o hi)
    simp only [ghbBytes, List.map_cons, List.sum_cons] at this ⊢
    rw [Nat.add_assoc] at this
    exact this

/-- with the wait of the source, a wake-up source other than `Close` and the notification changes nothing -/
theorem fire_source (max : Nat) (s : WState) (w : Wake) : fire sourceShape max s w = (s, .none) := by
  unfold fire
  cases s.blocked with
  | none => rfl
  | some n => cases w <;> simp [sourceShape, WaitShape.exitOf]

end CJ.SctpConn
