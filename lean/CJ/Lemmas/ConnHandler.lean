import CJ.Model.ConnHandler
/-!
# Lemmas about the connection-handler model (used by C03 and C04)
-/
namespace CJ.ConnHandler

variable {T R : Type}

/-- actions that neither end the handler nor act on a match: arming the deadline, successful reads,
queries answered try-again / not-transport, the switch to the discard loop -/
def Act.passive : Act T R → Bool
  | .setDeadline => true
  | .readData _ => true
  | .discardUntilErr => true
  | .query _ _ .tryAgain => true
  | .query _ _ .notT => true
  | _ => false

/-- the three ways a handler run can end (after arming the deadline) -/
inductive Ending (tr : List (Act T R)) : Prop
  /-- a `Read` reported an error (deadline, EOF, reset, other) and the handler returned -/
  | gaveUp (pre : List (Act T R)) (e : Term) :
      tr = pre ++ [.readEnd e, .ret] → (∀ a ∈ pre, a.passive = true) → Ending tr
  /-- a transport answered an unexpected error: sleep until the deadline, return -/
  | aborted (pre : List (Act T R)) (t : T) (n : Nat) :
      tr = pre ++ [.query t n .err, .sleepUntilDeadline, .ret] → (∀ a ∈ pre, a.passive = true) → Ending tr
  /-- a transport found a registration: clear the deadline, mark active, proxy, return -/
  | matched (pre : List (Act T R)) (t : T) (n : Nat) (r : R) (k : Nat) (s : Bytes) :
      tr = pre ++ [.query t n (.found r k), .clearDeadline, .markActive r, .proxy r s, .ret] →
      (∀ a ∈ pre, a.passive = true) → Ending tr

/-- the first error of a script (an exhausted script ends in the deadline) -/
def endOf : List Ev → Term
  | [] => .deadline
  | .data _ :: evs => endOf evs
  | .eof :: _ => .eof
  | .reset :: _ => .reset
  | .deadline :: _ => .deadline
  | .otherErr :: _ => .otherErr

/-- number of successful reads before the first error -/
def readsOf : List Ev → List Nat
  | [] => []
  | .data bs :: evs => bs.length :: readsOf evs
  | _ :: _ => []

theorem discard_eq (evs : List Ev) :
    (discard evs : List (Act T R)) = (readsOf evs).map .readData ++ [.readEnd (endOf evs), .ret] := by
  induction evs with
  | nil => rfl
  | cons e evs ih => cases e <;> simp [discard, readsOf, endOf, ih]

theorem connView_discard (evs : List Ev) :
    connView (discard evs : List (Act T R)) = discard evs := by
  induction evs with
  | nil => rfl
  | cons e evs ih => cases e <;> simp [discard, connView, ih]

theorem connView_append (a b : List (Act T R)) : connView (a ++ b) = connView a ++ connView b := by
  induction a with
  | nil => rfl
  | cons x xs ih => cases x <;> simp [connView, ih]

theorem dataOf_map_data (cs : List Bytes) (rest : List Ev) :
    dataOf (cs.map Ev.data ++ rest) = cs.flatten ++ dataOf rest := by
  induction cs with
  | nil => simp
  | cons c cs ih => simp [dataOf, ih]

/-! ## one pass -/

/-- shape of one pass, whatever the classifiers answer -/
theorem pass_shape (cls : T → Bytes → Verdict R) (buf : Bytes) :
    ∀ (ts keep : List T),
      (∃ ts', (pass cls buf ts keep).2 = .cont ts' ∧ (∀ a ∈ (pass cls buf ts keep).1, a.passive = true) ∧
          ∀ t ∈ ts', t ∈ ts ∨ t ∈ keep) ∨
      (∃ pre t, (pass cls buf ts keep).1 = pre ++ [.query t buf.length .err] ∧
          (pass cls buf ts keep).2 = .abort ∧ ∀ a ∈ pre, a.passive = true) ∨
      (∃ pre t r k, (pass cls buf ts keep).1 = pre ++ [.query t buf.length (.found r k)] ∧
          (pass cls buf ts keep).2 = .found r k ∧ ∀ a ∈ pre, a.passive = true) := by
  intro ts
  induction ts with
  | nil =>
    intro keep
    refine Or.inl ⟨keep.reverse, rfl, ?_, ?_⟩
    · intro a ha; simp [pass] at ha
    · intro t ht; exact Or.inr (by simpa using ht)
  | cons t ts ih =>
    intro keep
    cases hv : cls t buf with
    | tryAgain =>
      rcases ih (t :: keep) with ⟨ts', h2, hp, hm⟩ | ⟨pre, u, h1, h2, hp⟩ | ⟨pre, u, r, k, h1, h2, hp⟩
      · refine Or.inl ⟨ts', by simp [pass, hv, h2], ?_, ?_⟩
        · intro a ha
          simp only [pass, hv, List.mem_cons] at ha
          rcases ha with rfl | ha
          · rfl
          · exact hp a ha
        · intro x hx
          rcases hm x hx with h | h
          · exact Or.inl (List.mem_cons_of_mem _ h)
          · rcases List.mem_cons.mp h with rfl | h
            · exact Or.inl (List.mem_cons_self ..)
            · exact Or.inr h
      · refine Or.inr (Or.inl ⟨.query t buf.length .tryAgain :: pre, u, by simp [pass, hv, h1], by simp [pass, hv, h2], ?_⟩)
        intro a ha
        rcases List.mem_cons.mp ha with rfl | ha
        · rfl
        · exact hp a ha
      · refine Or.inr (Or.inr ⟨.query t buf.length .tryAgain :: pre, u, r, k, by simp [pass, hv, h1], by simp [pass, hv, h2], ?_⟩)
        intro a ha
        rcases List.mem_cons.mp ha with rfl | ha
        · rfl
        · exact hp a ha
    | notT =>
      rcases ih keep with ⟨ts', h2, hp, hm⟩ | ⟨pre, u, h1, h2, hp⟩ | ⟨pre, u, r, k, h1, h2, hp⟩
      · refine Or.inl ⟨ts', by simp [pass, hv, h2], ?_, ?_⟩
        · intro a ha
          simp only [pass, hv, List.mem_cons] at ha
          rcases ha with rfl | ha
          · rfl
          · exact hp a ha
        · intro x hx
          rcases hm x hx with h | h
          · exact Or.inl (List.mem_cons_of_mem _ h)
          · exact Or.inr h
      · refine Or.inr (Or.inl ⟨.query t buf.length .notT :: pre, u, by simp [pass, hv, h1], by simp [pass, hv, h2], ?_⟩)
        intro a ha
        rcases List.mem_cons.mp ha with rfl | ha
        · rfl
        · exact hp a ha
      · refine Or.inr (Or.inr ⟨.query t buf.length .notT :: pre, u, r, k, by simp [pass, hv, h1], by simp [pass, hv, h2], ?_⟩)
        intro a ha
        rcases List.mem_cons.mp ha with rfl | ha
        · rfl
        · exact hp a ha
    | err =>
      exact Or.inr (Or.inl ⟨[], t, by simp [pass, hv], by simp [pass, hv], by intro a ha; cases ha⟩)
    | found r k =>
      exact Or.inr (Or.inr ⟨[], t, r, k, by simp [pass, hv], by simp [pass, hv], by intro a ha; cases ha⟩)

/-- a pass in which every visited classifier answers try-again or not-transport continues, and its
trace consists of queries only -/
theorem pass_quiet (cls : T → Bytes → Verdict R) (buf : Bytes) :
    ∀ (ts keep : List T), (∀ t ∈ ts, cls t buf = .tryAgain ∨ cls t buf = .notT) →
      ∃ ts', (pass cls buf ts keep).2 = .cont ts' ∧ connView (pass cls buf ts keep).1 = [] ∧
        (∀ a ∈ (pass cls buf ts keep).1, a.passive = true) ∧ ∀ t ∈ ts', t ∈ ts ∨ t ∈ keep := by
  intro ts
  induction ts with
  | nil =>
    intro keep _
    exact ⟨keep.reverse, rfl, rfl, by intro a ha; simp [pass] at ha, fun t ht => Or.inr (by simpa using ht)⟩
  | cons t ts ih =>
    intro keep h
    have hts : ∀ u ∈ ts, cls u buf = .tryAgain ∨ cls u buf = .notT :=
      fun u hu => h u (List.mem_cons_of_mem _ hu)
    rcases h t (List.mem_cons_self ..) with hv | hv
    · obtain ⟨ts', h2, hc, hp, hm⟩ := ih (t :: keep) hts
      refine ⟨ts', by simp [pass, hv, h2], by simp [pass, hv, connView, hc], ?_, ?_⟩
      · intro a ha
        simp only [pass, hv, List.mem_cons] at ha
        rcases ha with rfl | ha
        · rfl
        · exact hp a ha
      · intro x hx
        rcases hm x hx with h' | h'
        · exact Or.inl (List.mem_cons_of_mem _ h')
        · rcases List.mem_cons.mp h' with rfl | h'
          · exact Or.inl (List.mem_cons_self ..)
          · exact Or.inr h'
    · obtain ⟨ts', h2, hc, hp, hm⟩ := ih keep hts
      refine ⟨ts', by simp [pass, hv, h2], by simp [pass, hv, connView, hc], ?_, ?_⟩
      · intro a ha
        simp only [pass, hv, List.mem_cons] at ha
        rcases ha with rfl | ha
        · rfl
        · exact hp a ha
      · intro x hx
        rcases hm x hx with h' | h'
        · exact Or.inl (List.mem_cons_of_mem _ h')
        · exact Or.inr h'

/-- a pass over a buffer on which every classifier says not-transport removes every transport -/
theorem pass_all_notT (cls : T → Bytes → Verdict R) (buf : Bytes) :
    ∀ (ts keep : List T), (∀ t ∈ ts, cls t buf = .notT) →
      (pass cls buf ts keep).2 = .cont keep.reverse ∧
      ∀ a ∈ (pass cls buf ts keep).1, ∃ t, a = .query t buf.length .notT := by
  intro ts
  induction ts with
  | nil => intro keep _; exact ⟨rfl, by intro a ha; simp [pass] at ha⟩
  | cons t ts ih =>
    intro keep h
    have hv := h t (List.mem_cons_self ..)
    obtain ⟨h2, hq⟩ := ih keep (fun u hu => h u (List.mem_cons_of_mem _ hu))
    refine ⟨by simp [pass, hv, h2], ?_⟩
    intro a ha
    simp only [pass, hv, List.mem_cons] at ha
    rcases ha with rfl | ha
    · exact ⟨t, rfl⟩
    · exact hq a ha

/-! ## the loop -/

theorem ending_cons_passive {a : Act T R} {tr : List (Act T R)} (ha : a.passive = true)
    (h : Ending tr) : Ending (a :: tr) := by
  have hp : ∀ pre : List (Act T R), (∀ x ∈ pre, x.passive = true) → ∀ x ∈ a :: pre, x.passive = true := by
    intro pre hpre x hx
    rcases List.mem_cons.mp hx with rfl | hx
    · exact ha
    · exact hpre x hx
  cases h with
  | gaveUp pre e h1 h2 => exact .gaveUp (a :: pre) e (by simp [h1]) (hp pre h2)
  | aborted pre t n h1 h2 => exact .aborted (a :: pre) t n (by simp [h1]) (hp pre h2)
  | matched pre t n r k s h1 h2 => exact .matched (a :: pre) t n r k s (by simp [h1]) (hp pre h2)

theorem ending_append_passive {pre tr : List (Act T R)} (hpre : ∀ a ∈ pre, a.passive = true)
    (h : Ending tr) : Ending (pre ++ tr) := by
  induction pre with
  | nil => simpa using h
  | cons a pre ih =>
    have := ih (fun x hx => hpre x (List.mem_cons_of_mem _ hx))
    simpa using ending_cons_passive (hpre a (List.mem_cons_self ..)) this

theorem ending_discard (evs : List Ev) : Ending (discard evs : List (Act T R)) := by
  refine .gaveUp ((readsOf evs).map .readData) (endOf evs) (discard_eq evs) ?_
  intro a ha
  obtain ⟨n, _, rfl⟩ := List.mem_map.mp ha
  rfl

/-- every run of the read loop ends in one of the three ways -/
theorem loop_shape (cls : T → Bytes → Verdict R) (sched : Nat → List T → List T) :
    ∀ (evs : List Ev) (i : Nat) (ts : List T) (buf : Bytes), Ending (loop cls sched i ts buf evs) := by
  intro evs
  induction evs with
  | nil =>
    intro i ts buf
    cases ts with
    | nil => simpa [loop] using ending_cons_passive (a := (.discardUntilErr : Act T R)) rfl (ending_discard [])
    | cons t ts => exact .gaveUp [] .deadline (by simp [loop]) (by intro a ha; cases ha)
  | cons e evs ih =>
    intro i ts buf
    cases ts with
    | nil => simpa [loop] using ending_cons_passive (a := (.discardUntilErr : Act T R)) rfl (ending_discard (e :: evs))
    | cons t ts =>
      cases e with
      | eof => exact .gaveUp [] .eof (by simp [loop]) (by intro a ha; cases ha)
      | reset => exact .gaveUp [] .reset (by simp [loop]) (by intro a ha; cases ha)
      | deadline => exact .gaveUp [] .deadline (by simp [loop]) (by intro a ha; cases ha)
      | otherErr => exact .gaveUp [] .otherErr (by simp [loop]) (by intro a ha; cases ha)
      | data c =>
        simp only [loop]
        apply ending_cons_passive rfl
        rcases pass_shape cls (buf ++ c) (sched i (t :: ts)) [] with
          ⟨ts', h2, hp, _⟩ | ⟨pre, u, h1, h2, hp⟩ | ⟨pre, u, r, k, h1, h2, hp⟩
        · rw [h2]
          exact ending_append_passive hp (ih (i + 1) ts' (buf ++ c))
        · rw [h2, h1]
          exact .aborted pre u (buf ++ c).length (by simp) hp
        · rw [h2, h1]
          exact .matched pre u (buf ++ c).length r k ((buf ++ c).drop k ++ dataOf evs) (by simp) hp

/-- on a script on which no possible transport ever finds or errors, the peer-visible trace of the
loop is the trace of the discard loop: reads until the first error, then return -/
theorem loop_view_quiet (cls : T → Bytes → Verdict R) (sched : Nat → List T → List T)
    (hs : SchedOk sched) :
    ∀ (evs : List Ev) (i : Nat) (ts : List T) (buf : Bytes),
      (∀ t ∈ ts, ∀ n, cls t ((buf ++ dataOf evs).take n) = .tryAgain ∨
                       cls t ((buf ++ dataOf evs).take n) = .notT) →
      connView (loop cls sched i ts buf evs) = discard evs ∧
      ∀ a ∈ loop cls sched i ts buf evs, a.passive = true ∨ (∃ e, a = .readEnd e) ∨ a = .ret := by
  intro evs
  have hdis : ∀ (evs : List Ev), ∀ a ∈ (discard evs : List (Act T R)),
      a.passive = true ∨ (∃ e, a = .readEnd e) ∨ a = .ret := by
    intro evs a ha
    rw [discard_eq] at ha
    rcases List.mem_append.mp ha with h | h
    · obtain ⟨n, _, rfl⟩ := List.mem_map.mp h; exact Or.inl rfl
    · simp at h
      rcases h with rfl | rfl
      · exact Or.inr (Or.inl ⟨_, rfl⟩)
      · exact Or.inr (Or.inr rfl)
  induction evs with
  | nil =>
    intro i ts buf _
    cases ts with
    | nil =>
      refine ⟨by simp [loop, connView, discard], ?_⟩
      intro a ha
      simp only [loop, List.mem_cons] at ha
      rcases ha with rfl | ha
      · exact Or.inl rfl
      · exact hdis [] a ha
    | cons t ts =>
      refine ⟨by simp [loop, connView, discard], ?_⟩
      intro a ha
      simp [loop] at ha
      rcases ha with rfl | rfl
      · exact Or.inr (Or.inl ⟨_, rfl⟩)
      · exact Or.inr (Or.inr rfl)
  | cons e evs ih =>
    intro i ts buf hq
    cases ts with
    | nil =>
      refine ⟨by simp [loop, connView, connView_discard], ?_⟩
      intro a ha
      simp only [loop, List.mem_cons] at ha
      rcases ha with rfl | ha
      · exact Or.inl rfl
      · exact hdis _ a ha
    | cons t ts =>
      cases e with
      | eof =>
        refine ⟨by simp [loop, connView, discard], ?_⟩
        intro a ha; simp [loop] at ha
        rcases ha with rfl | rfl
        · exact Or.inr (Or.inl ⟨_, rfl⟩)
        · exact Or.inr (Or.inr rfl)
      | reset =>
        refine ⟨by simp [loop, connView, discard], ?_⟩
        intro a ha; simp [loop] at ha
        rcases ha with rfl | rfl
        · exact Or.inr (Or.inl ⟨_, rfl⟩)
        · exact Or.inr (Or.inr rfl)
      | deadline =>
        refine ⟨by simp [loop, connView, discard], ?_⟩
        intro a ha; simp [loop] at ha
        rcases ha with rfl | rfl
        · exact Or.inr (Or.inl ⟨_, rfl⟩)
        · exact Or.inr (Or.inr rfl)
      | otherErr =>
        refine ⟨by simp [loop, connView, discard], ?_⟩
        intro a ha; simp [loop] at ha
        rcases ha with rfl | rfl
        · exact Or.inr (Or.inl ⟨_, rfl⟩)
        · exact Or.inr (Or.inr rfl)
      | data c =>
        have hS : buf ++ dataOf (Ev.data c :: evs) = (buf ++ c) ++ dataOf evs := by simp [dataOf]
        have hpre : ((buf ++ c) ++ dataOf evs).take (buf ++ c).length = buf ++ c := List.take_left' rfl
        have hquiet : ∀ u ∈ sched i (t :: ts), cls u (buf ++ c) = .tryAgain ∨ cls u (buf ++ c) = .notT := by
          intro u hu
          have := hq u ((hs i (t :: ts) u).mp hu) (buf ++ c).length
          rw [hS, hpre] at this
          exact this
        obtain ⟨ts', h2, hc, hp, hm⟩ := pass_quiet cls (buf ++ c) (sched i (t :: ts)) [] hquiet
        have hts' : ∀ u ∈ ts', ∀ n, cls u (((buf ++ c) ++ dataOf evs).take n) = .tryAgain ∨
            cls u (((buf ++ c) ++ dataOf evs).take n) = .notT := by
          intro u hu n
          rcases hm u hu with h | h
          · have := hq u ((hs i (t :: ts) u).mp h) n
            rw [hS] at this; exact this
          · cases h
        obtain ⟨ihv, ihp⟩ := ih (i + 1) ts' (buf ++ c) hts'
        simp only [loop]
        rw [h2]
        refine ⟨by simp [connView, connView_append, hc, ihv, discard], ?_⟩
        intro a ha
        rcases List.mem_cons.mp ha with rfl | ha
        · exact Or.inl rfl
        · rcases List.mem_append.mp ha with h | h
          · exact Or.inl (hp a h)
          · exact ihp a h

/-! ## segmentation invariance (C04) -/

/-- `t0` is the client's transport on the stream `S`: below its threshold `k` it answers try-again,
from the threshold on it finds the registration `r` and consumes exactly `k` bytes -/
structure Genuine (cls : T → Bytes → Verdict R) (t0 : T) (r : R) (k : Nat) (S : Bytes) : Prop where
  below : ∀ n, n < k → cls t0 (S.take n) = .tryAgain
  above : ∀ n, k ≤ n → n ≤ S.length → cls t0 (S.take n) = .found r k

/-- `t` never finds a registration and never errors on any prefix of the stream `S`
(`NoAccidentalMatch` for the co-transports; `NoMatch` for a probe stream) -/
def Quiet (cls : T → Bytes → Verdict R) (t : T) (S : Bytes) : Prop :=
  ∀ n, cls t (S.take n) = .tryAgain ∨ cls t (S.take n) = .notT

/-- the possible transports contain `t0`, every other one is quiet on `S` -/
def Good (cls : T → Bytes → Verdict R) (ts : List T) (t0 : T) (S : Bytes) : Prop :=
  t0 ∈ ts ∧ ∀ t ∈ ts, t = t0 ∨ Quiet cls t S

/-- Generalisation for transports whose threshold and consumption differ (obfs4: the mark is found
once the whole handshake of `thr` bytes is buffered, but the classifier itself consumes `k = 0` bytes —
the handshake is read by the obfs4 library from the prepended buffer): below `thr` try-again, from `thr`
on `found r k`, with `k ≤ thr`. -/
structure GenuineAt (cls : T → Bytes → Verdict R) (t0 : T) (r : R) (thr k : Nat) (S : Bytes) : Prop where
  le : k ≤ thr
  below : ∀ n, n < thr → cls t0 (S.take n) = .tryAgain
  above : ∀ n, thr ≤ n → n ≤ S.length → cls t0 (S.take n) = .found r k

theorem Genuine.toAt {cls : T → Bytes → Verdict R} {t0 : T} {r : R} {k : Nat} {S : Bytes}
    (g : Genuine cls t0 r k S) : GenuineAt cls t0 r k k S :=
  ⟨Nat.le_refl k, g.below, g.above⟩

theorem pass_below_at (cls : T → Bytes → Verdict R) (t0 : T) (r : R) (thr k : Nat) (S : Bytes)
    (g : GenuineAt cls t0 r thr k S) (n : Nat) (hn : n < thr) :
    ∀ (ts keep : List T), (∀ t ∈ ts, t = t0 ∨ Quiet cls t S) → (∀ t ∈ keep, t = t0 ∨ Quiet cls t S) →
      (t0 ∈ ts ∨ t0 ∈ keep) →
      ∃ ts', (pass cls (S.take n) ts keep).2 = .cont ts' ∧
        (∀ a ∈ (pass cls (S.take n) ts keep).1, a.passive = true) ∧
        t0 ∈ ts' ∧ ∀ t ∈ ts', t = t0 ∨ Quiet cls t S := by
  intro ts
  induction ts with
  | nil =>
    intro keep _ hk hin
    refine ⟨keep.reverse, rfl, by intro a ha; simp [pass] at ha, ?_, ?_⟩
    · rcases hin with h | h
      · cases h
      · simpa using h
    · intro t ht; exact hk t (by simpa using ht)
  | cons t ts ih =>
    intro keep hts hk hin
    have hts' : ∀ u ∈ ts, u = t0 ∨ Quiet cls u S := fun u hu => hts u (List.mem_cons_of_mem _ hu)
    have hv : cls t (S.take n) = .tryAgain ∨ cls t (S.take n) = .notT := by
      rcases hts t (List.mem_cons_self ..) with rfl | hq
      · exact Or.inl (g.below n hn)
      · exact hq n
    rcases hv with hv | hv
    · have hk' : ∀ u ∈ t :: keep, u = t0 ∨ Quiet cls u S := by
        intro u hu
        rcases List.mem_cons.mp hu with rfl | hu
        · exact hts _ (List.mem_cons_self ..)
        · exact hk u hu
      have hin' : t0 ∈ ts ∨ t0 ∈ t :: keep := by
        rcases hin with h | h
        · rcases List.mem_cons.mp h with rfl | h
          · exact Or.inr (List.mem_cons_self ..)
          · exact Or.inl h
        · exact Or.inr (List.mem_cons_of_mem _ h)
      obtain ⟨ts', h2, hp, hin'', hall⟩ := ih (t :: keep) hts' hk' hin'
      refine ⟨ts', by simp [pass, hv, h2], ?_, hin'', hall⟩
      intro a ha
      simp only [pass, hv, List.mem_cons] at ha
      rcases ha with rfl | ha
      · rfl
      · exact hp a ha
    · have hin' : t0 ∈ ts ∨ t0 ∈ keep := by
        rcases hin with h | h
        · rcases List.mem_cons.mp h with rfl | h
          · have := g.below n hn
            rw [hv] at this; cases this
          · exact Or.inl h
        · exact Or.inr h
      obtain ⟨ts', h2, hp, hin'', hall⟩ := ih keep hts' hk hin'
      refine ⟨ts', by simp [pass, hv, h2], ?_, hin'', hall⟩
      intro a ha
      simp only [pass, hv, List.mem_cons] at ha
      rcases ha with rfl | ha
      · rfl
      · exact hp a ha

theorem pass_above_at (cls : T → Bytes → Verdict R) (t0 : T) (r : R) (thr k : Nat) (S : Bytes)
    (g : GenuineAt cls t0 r thr k S) (n : Nat) (hk : thr ≤ n) (hn : n ≤ S.length) :
    ∀ (ts keep : List T), (∀ t ∈ ts, t = t0 ∨ Quiet cls t S) → t0 ∈ ts →
      ∃ pre, (pass cls (S.take n) ts keep).1 = pre ++ [.query t0 (S.take n).length (.found r k)] ∧
        (pass cls (S.take n) ts keep).2 = .found r k ∧ ∀ a ∈ pre, a.passive = true := by
  intro ts
  induction ts with
  | nil => intro _ _ h; cases h
  | cons t ts ih =>
    intro keep hts hin
    have hts' : ∀ u ∈ ts, u = t0 ∨ Quiet cls u S := fun u hu => hts u (List.mem_cons_of_mem _ hu)
    rcases hts t (List.mem_cons_self ..) with rfl | hq
    · exact ⟨[], by simp [pass, g.above n hk hn], by simp [pass, g.above n hk hn], by intro a ha; cases ha⟩
    · have hin' : t0 ∈ ts := by
        rcases List.mem_cons.mp hin with rfl | h
        · have := g.above n hk hn
          rcases hq n with h | h <;> (rw [h] at this; cases this)
        · exact h
      rcases hq n with hv | hv
      · obtain ⟨pre, h1, h2, hp⟩ := ih (t :: keep) hts' hin'
        refine ⟨.query t (S.take n).length .tryAgain :: pre, by simp [pass, hv, h1], by simp [pass, hv, h2], ?_⟩
        intro a ha
        rcases List.mem_cons.mp ha with rfl | ha
        · rfl
        · exact hp a ha
      · obtain ⟨pre, h1, h2, hp⟩ := ih keep hts' hin'
        refine ⟨.query t (S.take n).length .notT :: pre, by simp [pass, hv, h1], by simp [pass, hv, h2], ?_⟩
        intro a ha
        rcases List.mem_cons.mp ha with rfl | ha
        · rfl
        · exact hp a ha

/-- Segmentation invariance of the read loop: however the stream `S` is cut into reads (empty reads
included), the loop ends — at the first read after which at least `thr` bytes are buffered — by
clearing the deadline, marking `r` active and proxying exactly the bytes after the `k` consumed ones,
followed by whatever the socket delivers afterwards. -/
theorem loop_segmentation_at (cls : T → Bytes → Verdict R) (sched : Nat → List T → List T)
    (hs : SchedOk sched) (t0 : T) (r : R) (thr k : Nat) (S : Bytes) (g : GenuineAt cls t0 r thr k S)
    (rest : List Ev) :
    ∀ (cs : List Bytes) (i : Nat) (buf : Bytes) (ts : List T),
      Good cls ts t0 S → buf ++ cs.flatten = S → buf.length < thr → thr ≤ S.length →
      ∃ pre n, loop cls sched i ts buf (cs.map Ev.data ++ rest) =
          pre ++ [.query t0 n (.found r k), .clearDeadline, .markActive r,
                  .proxy r (S.drop k ++ dataOf rest), .ret] ∧
        thr ≤ n ∧ ∀ a ∈ pre, a.passive = true := by
  intro cs
  induction cs with
  | nil =>
    intro i buf ts _ hS hb hk
    simp at hS; subst hS; omega
  | cons c cs ih =>
    intro i buf ts hg hS hb hk
    obtain ⟨hin, hall⟩ := hg
    cases ts with
    | nil => cases hin
    | cons t ts =>
      have hS' : S = (buf ++ c) ++ cs.flatten := by simp [← hS]
      have hpre : buf ++ c = S.take (buf ++ c).length := by
        rw [hS']; exact (List.take_left' rfl).symm
      have hlen : (buf ++ c).length ≤ S.length := by
        rw [hS']; simp only [List.length_append]; omega
      have hall' : ∀ u ∈ sched i (t :: ts), u = t0 ∨ Quiet cls u S :=
        fun u hu => hall u ((hs i (t :: ts) u).mp hu)
      have hin' : t0 ∈ sched i (t :: ts) := (hs i (t :: ts) t0).mpr hin
      simp only [List.map_cons, List.cons_append, loop]
      by_cases hlt : (buf ++ c).length < thr
      · obtain ⟨ts', h2, hp, hin'', hall''⟩ :=
          pass_below_at cls t0 r thr k S g _ hlt (sched i (t :: ts)) [] hall' (by simp) (Or.inl hin')
        rw [← hpre] at h2 hp
        rw [h2]
        obtain ⟨pre, n, he, hn, hpp⟩ := ih (i + 1) (buf ++ c) ts' ⟨hin'', hall''⟩ (by simp [← hS]) hlt hk
        refine ⟨.readData c.length :: ((pass cls (buf ++ c) (sched i (t :: ts)) []).1 ++ pre), n, ?_, hn, ?_⟩
        · simp [he]
        · intro a ha
          rcases List.mem_cons.mp ha with rfl | ha
          · rfl
          · rcases List.mem_append.mp ha with h | h
            · exact hp a h
            · exact hpp a h
      · have hge : thr ≤ (buf ++ c).length := by omega
        have hgek : k ≤ (buf ++ c).length := Nat.le_trans g.le hge
        obtain ⟨pre, h1, h2, hp⟩ :=
          pass_above_at cls t0 r thr k S g _ hge hlen (sched i (t :: ts)) [] hall' hin'
        rw [← hpre] at h1 h2
        rw [h2, h1]
        refine ⟨.readData c.length :: pre, (buf ++ c).length, ?_, hge, ?_⟩
        · have hd : S.drop k = (buf ++ c).drop k ++ cs.flatten := by
            rw [hS', List.drop_append_of_le_length hgek]
          simp [hd, dataOf_map_data]
        · intro a ha
          rcases List.mem_cons.mp ha with rfl | ha
          · rfl
          · exact hp a ha

theorem pass_below (cls : T → Bytes → Verdict R) (t0 : T) (r : R) (k : Nat) (S : Bytes)
    (g : Genuine cls t0 r k S) (n : Nat) (hn : n < k) :
    ∀ (ts keep : List T), (∀ t ∈ ts, t = t0 ∨ Quiet cls t S) → (∀ t ∈ keep, t = t0 ∨ Quiet cls t S) →
      (t0 ∈ ts ∨ t0 ∈ keep) →
      ∃ ts', (pass cls (S.take n) ts keep).2 = .cont ts' ∧
        (∀ a ∈ (pass cls (S.take n) ts keep).1, a.passive = true) ∧
        t0 ∈ ts' ∧ ∀ t ∈ ts', t = t0 ∨ Quiet cls t S :=
  pass_below_at cls t0 r k k S g.toAt n hn

theorem pass_above (cls : T → Bytes → Verdict R) (t0 : T) (r : R) (k : Nat) (S : Bytes)
    (g : Genuine cls t0 r k S) (n : Nat) (hk : k ≤ n) (hn : n ≤ S.length) :
    ∀ (ts keep : List T), (∀ t ∈ ts, t = t0 ∨ Quiet cls t S) → t0 ∈ ts →
      ∃ pre, (pass cls (S.take n) ts keep).1 = pre ++ [.query t0 (S.take n).length (.found r k)] ∧
        (pass cls (S.take n) ts keep).2 = .found r k ∧ ∀ a ∈ pre, a.passive = true :=
  pass_above_at cls t0 r k k S g.toAt n hk hn

/-- the case threshold = consumption (min, prefix) -/
theorem loop_segmentation (cls : T → Bytes → Verdict R) (sched : Nat → List T → List T)
    (hs : SchedOk sched) (t0 : T) (r : R) (k : Nat) (S : Bytes) (g : Genuine cls t0 r k S)
    (rest : List Ev) :
    ∀ (cs : List Bytes) (i : Nat) (buf : Bytes) (ts : List T),
      Good cls ts t0 S → buf ++ cs.flatten = S → buf.length < k → k ≤ S.length →
      ∃ pre n, loop cls sched i ts buf (cs.map Ev.data ++ rest) =
          pre ++ [.query t0 n (.found r k), .clearDeadline, .markActive r,
                  .proxy r (S.drop k ++ dataOf rest), .ret] ∧
        ∀ a ∈ pre, a.passive = true := by
  intro cs i buf ts hg hS hb hk
  obtain ⟨pre, n, he, _, hp⟩ :=
    loop_segmentation_at cls sched hs t0 r k k S g.toAt rest cs i buf ts hg hS hb hk
  exact ⟨pre, n, he, hp⟩

end CJ.ConnHandler
