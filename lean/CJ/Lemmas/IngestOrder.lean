/-!
# The order of the steps of `ingestRegistration`, as far as dialing is concerned

`CJ/Gen/C06Ingest.lean` (regenerated from pkg/station/lib on every run) holds the body of
`ingestRegistration` flattened in program order.  In a body without loops, switches, gotos and defers a
statement at nesting depth 0 is executed before everything that follows it in that order, and everything
that follows is only reached if none of the nested `return`s in between was taken.  `dominated` scans the
flattened body: every step that can lead to a dial must come after the four markers — at depth 0 and in this
order — the admission call, the return on an empty result, the overwrite of `Covert` with the result, and
`AddRegistration`.
-/
namespace CJ.IngestOrder

abbrev Step := String × String × Nat

/-- the four steps a dial has to come after, in order -/
def markers : List Step :=
  [("call", "ParseOrResolveBlocklisted", 0), ("refuse-if-empty", "ParseOrResolveBlocklisted", 0),
   ("assign", "Covert:=admitted", 0), ("call", "AddRegistration", 0)]

/-- a call / go statement / defer of a function from which a dial of `reg.Covert` is reachable -/
def isDialStep (dialLeading : List String) (s : Step) : Bool :=
  (s.1 == "call" || s.1 == "go" || s.1 == "defer") && dialLeading.contains s.2.1

/-- how many markers have been passed -/
def advance (st : Nat) (s : Step) : Nat := if markers[st]? = some s then st + 1 else st

/-- every dial step comes after all four markers -/
def dominated (dialLeading : List String) : Nat → List Step → Bool
  | _, [] => true
  | st, s :: rest => (!isDialStep dialLeading s || st == 4) && dominated dialLeading (advance st s) rest

theorem advance_le (st : Nat) (s : Step) : st ≤ advance st s := by
  unfold advance; split <;> omega

/-- what `dominated` establishes: in front of every dial step all four markers have been passed … -/
theorem dominated_split (dl : List String) (st : Nat) (pre : List Step) (s : Step) (post : List Step)
    (h : dominated dl st (pre ++ s :: post) = true) (hs : isDialStep dl s = true) :
    pre.foldl advance st = 4 := by
  induction pre generalizing st with
  | nil =>
    simp only [List.nil_append, dominated, hs, Bool.not_true, Bool.false_or, Bool.and_eq_true, beq_iff_eq] at h
    simpa using h.1
  | cons p rest ih =>
    simp only [List.cons_append, dominated, Bool.and_eq_true] at h
    simpa using ih (advance st p) h.2

/-- … which means that they occur in front of it, in their order -/
theorem passed_sublist (pre : List Step) (st : Nat) (hst : st ≤ 4) (h : pre.foldl advance st = 4) :
    (markers.drop st).Sublist pre := by
  induction pre generalizing st with
  | nil =>
    simp only [List.foldl_nil] at h
    subst h
    simp [markers]
  | cons p rest ih =>
    simp only [List.foldl_cons] at h
    unfold advance at h
    by_cases hm : markers[st]? = some p
    · simp only [hm, if_true] at h
      have hlt : st < 4 := by
        have : st < markers.length := by
          rcases Nat.lt_or_ge st markers.length with hl | hl
          · exact hl
          · rw [List.getElem?_eq_none hl] at hm; cases hm
        simpa [markers] using this
      have hdrop : markers.drop st = p :: markers.drop (st + 1) := by
        have hl : st < markers.length := by simpa [markers] using hlt
        rw [List.drop_eq_getElem_cons hl]
        have := List.getElem?_eq_getElem hl
        rw [this] at hm
        cases hm; rfl
      rw [hdrop]
      exact List.Sublist.cons_cons _ (ih (st + 1) (by omega) h)
    · simp only [hm, if_false] at h
      exact List.Sublist.cons _ (ih st hst h)

theorem dominated_markers_before (dl : List String) (pre : List Step) (s : Step) (post : List Step)
    (h : dominated dl 0 (pre ++ s :: post) = true) (hs : isDialStep dl s = true) :
    markers.Sublist pre := by
  have := passed_sublist pre 0 (by omega) (dominated_split dl 0 pre s post h hs)
  simpa using this

end CJ.IngestOrder
