import CJ.Lemmas.Phantom
import CJ.Lemmas.PhantomCompat
import CJ.Model.DeriveGen
/-!
Helper lemmas for the derivation model (C01): ports, keys, and the station/client agreement of the
HKDF generation.
-/
namespace CJ.Port
open CJ.Phantom

/-- the port ranges fit into 16 bits and are non-empty -/
structure Consts.WF (k : Consts) : Prop where
  rMin : k.minRange.1 < k.minRange.2 ∧ k.minRange.2 ≤ 65536
  rObfs4 : k.obfs4Range.1 < k.obfs4Range.2 ∧ k.obfs4Range.2 ≤ 65536
  rPrefix : k.prefixRange.1 < k.prefixRange.2 ∧ k.prefixRange.2 ≤ 65536
  rDtls : k.dtlsRange.1 < k.dtlsRange.2 ∧ k.dtlsRange.2 ≤ 65536

/-- `PortSelectorRange` answers inside `[min, max)`, or `0` when `rand.Int` failed (entropy limit) -/
theorem portSelectorRange_ok {s : Stream} {lim mn mx q : Nat} (hlt : mn < mx) (hmx : mx ≤ 65536)
    (h : portSelectorRange s lim mn mx = .ok q) :
    (mn ≤ q ∧ q < mx) ∨ (q = 0 ∧ ∃ e, randInt s lim (mx - mn) = .err e) := by
  unfold portSelectorRange at h
  split at h
  · rename_i p hp
    have := randInt_lt hp
    cases h
    left
    rw [Nat.mod_eq_of_lt (by omega)]
    omega
  · rename_i e he
    cases h
    exact Or.inr ⟨rfl, e, he⟩
  · cases h

theorem portSelectorRange_not_panic {s : Stream} {lim mn mx : Nat} (hlt : mn < mx) (w : String) :
    portSelectorRange s lim mn mx ≠ .panic w := by
  unfold portSelectorRange
  split
  · simp
  · simp
  · rename_i w' hw; exact absurd hw (randInt_not_panic (by omega) w')


/-- the session parameters are of the transport's own message type, and a prefix id is one the client
knows (`SetParams` / `Prepare` accept nothing else) -/
def WellTyped (k : Consts) : Transport → Option Wire → Prop
  | .min, none => True
  | .min, some (.generic _) => True
  | .obfs4, none => True
  | .obfs4, some (.generic _) => True
  | .prefix, none => True
  | .prefix, some (.prefix id _) => (lookupPrefix k.clientPrefixes id).isSome = true
  | .dtls, none => True
  | .dtls, some (.dtls _) => True
  | _, _ => False

/-- whatever port a client of version `ver` dials for its session parameters, the station registers
the same one for the registration that carries those parameters -/
theorem port_agree (k : Consts) (s : Stream) (lim : Nat) (t : Transport) (ver : Nat) (sess : Option Wire)
    (sr : Bool) (q : Nat)
    (htab : ∀ id, lookupPrefix k.stationPrefixes id = lookupPrefix k.clientPrefixes id)
    (hpre : t = .prefix → k.randomizeMinVersion ≤ ver)
    (hd : k.dtlsDefault = 443)
    (hty : WellTyped k t sess)
    (h : clientPort k s lim t ver sess sr = .ok q) :
    stationPort k s lim t ver sess sr = .ok q := by
  by_cases hv : ver < k.randomizeMinVersion <;> cases sr <;>
  cases t <;> rcases sess with _ | (r | ⟨id, r⟩ | r) <;>
  (try cases r) <;>
  simp_all [clientPort, stationPort, WellTyped, parseParams, getPhantomDstPort, clientDstPort, transportDstPort]
  all_goals (try omega)
  all_goals (try (simp only [if_neg (Nat.not_lt.mpr hv)] at *))
  all_goals (try (cases hl : lookupPrefix k.clientPrefixes id <;> simp_all))
  all_goals (have hn : ¬ ver < k.randomizeMinVersion := by omega)
  all_goals (simp only [if_neg hn, if_true] at *)
  all_goals (try simp_all)

/-- 443 for clients older than port randomisation and on subnets that do not allow it -/
theorem stationPort_443 (k : Consts) (s : Stream) (lim : Nat) (t : Transport) (ver : Nat) (data : Option Wire)
    (sr : Bool) (p : Params) (hp : parseParams k t ver data = .ok p)
    (hc : ver < k.randomizeMinVersion ∨ sr = false) : stationPort k s lim t ver data sr = .ok 443 := by
  unfold stationPort getPhantomDstPort
  rw [hp]
  simp only
  have ht : t ≠ .unknown := by
    intro h; subst h; simp [parseParams] at hp
  rw [if_neg ht, if_pos hc]

/-- where a station port can come from -/
inductive PortOrigin (k : Consts) (s : Stream) (lim : Nat) (t : Transport) (q : Nat) : Prop
  | fixed443 (h : q = 443)
  | dtlsDefault (h : t = .dtls ∧ q = k.dtlsDefault)
  | prefixDefault (id : Int) (h : t = .prefix ∧ lookupPrefix k.stationPrefixes id = some q)
  | inRange (lo hi : Nat) (hr : (t = .min ∧ (lo, hi) = k.minRange) ∨ (t = .obfs4 ∧ (lo, hi) = k.obfs4Range) ∨
      (t = .prefix ∧ (lo, hi) = k.prefixRange) ∨ (t = .dtls ∧ (lo, hi) = k.dtlsRange)) (h : lo ≤ q ∧ q < hi)
  | entropy (lo hi : Nat) (h : q = 0 ∧ ∃ e, randInt s lim (hi - lo) = .err e)

theorem transportDstPort_origin (k : Consts) (hk : k.WF) (s : Stream) (lim : Nat) (t : Transport) (ver : Nat)
    (p : Params) (q : Nat) (h : transportDstPort k s lim t ver p = .ok q) : PortOrigin k s lim t q := by
  have key : ∀ lo hi, lo < hi → hi ≤ 65536 → portSelectorRange s lim lo hi = .ok q →
      ((t = .min ∧ (lo, hi) = k.minRange) ∨ (t = .obfs4 ∧ (lo, hi) = k.obfs4Range) ∨
      (t = .prefix ∧ (lo, hi) = k.prefixRange) ∨ (t = .dtls ∧ (lo, hi) = k.dtlsRange)) → PortOrigin k s lim t q := by
    intro lo hi h1 h2 h3 h4
    rcases portSelectorRange_ok h1 h2 h3 with h5 | h5
    · exact .inRange lo hi h4 h5
    · exact .entropy lo hi h5
  unfold transportDstPort at h
  cases t with
  | unknown => simp at h
  | min =>
    simp only at h
    split at h
    · cases h; exact .fixed443 rfl
    · split at h
      · cases h; exact .fixed443 rfl
      · split at h
        · exact key _ _ hk.rMin.1 hk.rMin.2 h (Or.inl ⟨rfl, rfl⟩)
        · cases h; exact .fixed443 rfl
      · cases h
  | obfs4 =>
    simp only at h
    split at h
    · cases h; exact .fixed443 rfl
    · split at h
      · cases h; exact .fixed443 rfl
      · split at h
        · exact key _ _ hk.rObfs4.1 hk.rObfs4.2 h (Or.inr (Or.inl ⟨rfl, rfl⟩))
        · cases h; exact .fixed443 rfl
      · cases h
  | «prefix» =>
    simp only at h
    split at h
    · cases h
    · split at h
      · split at h
        · cases h
        · rename_i dflt hl
          split at h
          · exact key _ _ hk.rPrefix.1 hk.rPrefix.2 h (Or.inr (Or.inr (Or.inl ⟨rfl, rfl⟩)))
          · cases h; exact .prefixDefault _ ⟨rfl, hl⟩
      · cases h
  | dtls =>
    simp only at h
    split at h
    · cases h; exact .dtlsDefault ⟨rfl, rfl⟩
    · split at h
      · exact key _ _ hk.rDtls.1 hk.rDtls.2 h (Or.inr (Or.inr (Or.inr ⟨rfl, rfl⟩)))
      · cases h; exact .dtlsDefault ⟨rfl, rfl⟩
    · cases h

/-- every port the station registers is 443, the transport's default, or inside the transport's
range (or 0 when the seeded reader ran dry, as `PortSelectorRange` answers then) -/
theorem stationPort_origin (k : Consts) (hk : k.WF) (s : Stream) (lim : Nat) (t : Transport) (ver : Nat)
    (data : Option Wire) (sr : Bool) (q : Nat) (h : stationPort k s lim t ver data sr = .ok q) :
    PortOrigin k s lim t q := by
  unfold stationPort at h
  split at h
  · unfold getPhantomDstPort at h
    split at h
    · cases h
    · split at h
      · cases h; exact .fixed443 rfl
      · exact transportDstPort_origin k hk s lim t ver _ q h
  · cases h
  · cases h

theorem transportDstPort_not_panic (k : Consts) (hk : k.WF) (s : Stream) (lim : Nat) (t : Transport) (ver : Nat)
    (p : Params) (w : String) : transportDstPort k s lim t ver p ≠ .panic w := by
  have h1 := @portSelectorRange_not_panic s lim _ _ hk.rMin.1 w
  have h2 := @portSelectorRange_not_panic s lim _ _ hk.rObfs4.1 w
  have h3 := @portSelectorRange_not_panic s lim _ _ hk.rPrefix.1 w
  have h4 := @portSelectorRange_not_panic s lim _ _ hk.rDtls.1 w
  unfold transportDstPort
  cases t <;> simp only <;> repeat' split
  all_goals (first | assumption | simp)

theorem stationPort_not_panic (k : Consts) (hk : k.WF) (s : Stream) (lim : Nat) (t : Transport) (ver : Nat)
    (data : Option Wire) (sr : Bool) (w : String) : stationPort k s lim t ver data sr ≠ .panic w := by
  unfold stationPort
  split
  · unfold getPhantomDstPort
    split
    · simp
    · split
      · simp
      · exact transportDstPort_not_panic k hk s lim t ver _ w
  · simp
  · rename_i w' hw
    unfold parseParams at hw
    cases t <;> simp only at hw <;> repeat' split at hw
    all_goals (first | cases hw | simp at hw)

end CJ.Port

namespace CJ.Derive
open CJ.Phantom CJ.Port

theorem readN_some {s : Stream} {lim pos n : Nat} {b : Bytes} {p : Nat} (h : readN s lim pos n = some (b, p)) :
    b = readAt s pos n ∧ p = pos + n ∧ pos + n ≤ lim := by
  unfold readN at h
  split at h
  · cases h
  · cases h; exact ⟨rfl, rfl, by omega⟩

/-- the station's key derivation is the published one, for every library version -/
theorem genSharedKeys_eq_spec (c : Crypto) (ver : Nat) (secret : Bytes) :
    genSharedKeys c ver secret = specClientKeys c ver secret := by
  unfold genSharedKeys specClientKeys
  simp only
  by_cases hv : ver < sharedKeysRefactorMinVersion
  · simp only [if_pos hv]
    unfold readN
    simp only [Nat.zero_add]
    by_cases h1 : c.hk.lim < legacySkipLen
    · have h2 : c.hk.lim < legacySkipLen + 16 := by omega
      simp [h1, h2]
    · simp [h1]
  · simp only [if_neg hv]

/-- the client code of this repository derives its keys as the published derivation of its version -/
theorem clientSharedKeys_eq_spec (c : Crypto) (secret : Bytes) :
    clientSharedKeys c secret = specClientKeys c currentClientVersion secret := by
  unfold clientSharedKeys specClientKeys
  simp [currentClientVersion, sharedKeysRefactorMinVersion]

theorem ident_agree (c : Crypto) (t : Transport) (secret : Bytes) (keys : Keys) (ht : t ≠ .dtls) :
    stationIdentifier c t secret keys = clientIdentifier c t secret keys := by
  cases t <;> first | rfl | exact absurd rfl ht

theorem stationIdentifier_dtls (c : Crypto) (secret : Bytes) (keys : Keys) :
    stationIdentifier c .dtls secret keys = .ok (c.hmac secret hmacDtls) := rfl

/-- the last stage of both derivations: same address bytes, ports that agree, identifiers that agree -/
theorem finish_agree {seed : Bytes} {aC aS : Outcome Addr} {pc ps : Bool → POut Nat} {ic is_ : Outcome Bytes}
    {dtls : Bool} {rv : Rendezvous}
    (ha : ∀ a, aC = .ok a → ∃ a', aS = .ok a' ∧ a'.bytes = a.bytes ∧ ∀ q, pc a.randPort = .ok q → ps a'.randPort = .ok q)
    (hi : dtls = false → is_ = ic) (hi' : dtls = true → ∃ b, is_ = .ok b)
    (h : finish seed aC pc ic = .ok rv) :
    ∃ rs, finish seed aS ps is_ = .ok rs ∧ rs.seed = rv.seed ∧ rs.addr = rv.addr ∧ rs.port = rv.port ∧
      (dtls = false → rs.ident = rv.ident) := by
  unfold finish at h ⊢
  cases aC with
  | err e => cases h
  | panic w => cases h
  | ok a =>
    obtain ⟨a', ha', hb, hp⟩ := ha a rfl
    subst ha'
    simp only at h ⊢
    cases hpc : pc a.randPort with
    | err e => rw [hpc] at h; cases h
    | panic w => rw [hpc] at h; cases h
    | ok q =>
      rw [hpc] at h
      rw [hp _ hpc]
      simp only at h ⊢
      cases ic with
      | err e => cases h
      | panic w => cases h
      | ok i =>
        cases h
        cases dtls with
        | false => rw [hi rfl]; exact ⟨_, rfl, rfl, hb, rfl, fun _ => rfl⟩
        | true =>
          obtain ⟨b, hb'⟩ := hi' rfl
          rw [hb']; exact ⟨_, rfl, rfl, hb, rfl, fun h => by cases h⟩

theorem clientPort_old (k : Consts) (s : Stream) (lim : Nat) (t : Transport) (ver : Nat) (sess : Option Wire)
    (sr : Bool) (hv : ver < k.randomizeMinVersion) : clientPort k s lim t ver sess sr = .ok 443 := by
  unfold clientPort; rw [if_pos (Or.inl hv)]

theorem clientPort_noRand (k : Consts) (s : Stream) (lim : Nat) (t : Transport) (ver : Nat) (sess : Option Wire) :
    clientPort k s lim t ver sess false = .ok 443 := by
  unfold clientPort; rw [if_pos (Or.inr rfl)]

/-- the finished value of a `done`-ending derivation does not depend on the generator -/
theorem run_done {α : Type} (R : Rng) (a : α) (g : R.G) : ((Prog.done a).run R g).1 = a := rfl

/-- **Station = client, every library version** (see `CJ.Props.C01.station_eq_client`). -/
theorem station_eq_client (c : Crypto) (k : Consts) (cfg : Cfg) (gc : GenCfg) (r : Reg) (R : Rng) (g g' : R.G)
    (rv : Rendezvous)
    (hg : cfg.lookup r.gen = some gc)
    (htab : ∀ id, lookupPrefix k.stationPrefixes id = lookupPrefix k.clientPrefixes id)
    (hd : k.dtlsDefault = 443)
    (hrm : hkdfMinVersion ≤ k.randomizeMinVersion)
    (hpre : r.transport = .prefix → k.randomizeMinVersion ≤ r.ver)
    (hty : WellTyped k r.transport r.params)
    (hleg : r.ver < hkdfMinVersion →
      rv.addr.length = famLen (!r.v6) ∧ (∀ grp ∈ gc.groups, grp.isNil = false) ∧
      (∀ grp ∈ gc.groups, ∀ x, some x ∈ grp.nets → x.Fits))
    (hc : ((clientDerive c k gc r).run R g).1 = .ok rv) :
    ∃ rs, ((stationDerive c k cfg r).run R g').1 = .ok rs ∧ rs.seed = rv.seed ∧ rs.addr = rv.addr ∧
      rs.port = rv.port ∧ (r.transport ≠ .dtls → rs.ident = rv.ident) := by
  unfold clientDerive at hc
  unfold stationDerive
  rw [genSharedKeys_eq_spec]
  cases hkeys : specClientKeys c r.ver r.secret with
  | err e => rw [hkeys] at hc; cases hc
  | panic w => rw [hkeys] at hc; cases hc
  | ok keys =>
    rw [hkeys] at hc
    simp only [Prog.bind_eq, Prog.pure_eq, Prog.run_bind, run_done] at hc ⊢
    have hident : (decide (r.transport = .dtls)) = false →
        stationIdentifier c r.transport r.secret keys = clientIdentifier c r.transport r.secret keys := by
      intro h; exact ident_agree c _ _ _ (by simpa using h)
    have hident' : (decide (r.transport = .dtls)) = true → ∃ b, stationIdentifier c r.transport r.secret keys = .ok b := by
      intro h
      have : r.transport = .dtls := by simpa using h
      rw [this]; exact ⟨_, rfl⟩
    have wrap : ∀ {aC aS : Outcome Addr},
        (∀ a, aC = .ok a → ∃ a', aS = .ok a' ∧ a'.bytes = a.bytes ∧
          ∀ q, clientPort k (portStream c keys.seed) c.hk.lim r.transport r.ver r.params a.randPort = .ok q →
            stationPort k (portStream c keys.seed) c.hk.lim r.transport r.ver r.params a'.randPort = .ok q) →
        finish keys.seed aC (fun rp => clientPort k (portStream c keys.seed) c.hk.lim r.transport r.ver r.params rp)
          (clientIdentifier c r.transport r.secret keys) = .ok rv →
        ∃ rs, finish keys.seed aS (fun rp => stationPort k (portStream c keys.seed) c.hk.lim r.transport r.ver r.params rp)
          (stationIdentifier c r.transport r.secret keys) = .ok rs ∧ rs.seed = rv.seed ∧ rs.addr = rv.addr ∧
          rs.port = rv.port ∧ (r.transport ≠ .dtls → rs.ident = rv.ident) := by
      intro aC aS ha hfin
      obtain ⟨rs, h1, h2, h3, h4, h5⟩ := finish_agree (dtls := decide (r.transport = .dtls)) ha hident hident' hfin
      exact ⟨rs, h1, h2, h3, h4, fun hne => h5 (by simpa using hne)⟩
    by_cases hv : r.ver < hkdfMinVersion
    · -- versions 0 and 1: the frozen clients
      obtain ⟨hlen, hnil, hfit⟩ := hleg hv
      rw [if_pos hv] at hc
      simp only [Prog.run_bind] at hc
      cases hcs : ((compatSelect (decide (r.ver < selectionMinGeneration)) gc keys.seed r.v6).run R g).1 with
      | err e => rw [hcs] at hc; simp [Prog.run, Prog.bind, finish] at hc
      | panic w => rw [hcs] at hc; simp [Prog.run, Prog.bind, finish] at hc
      | ok b =>
        rw [hcs] at hc
        simp only [Prog.run, Prog.bind] at hc
        have hb : rv.addr = b := by
          unfold finish at hc
          simp only at hc
          split at hc
          · cases hc
          · cases hc
          · split at hc
            · cases hc
            · cases hc
            · cases hc; rfl
        obtain ⟨rp, hst⟩ := stationSelect_compat R g g' c.hk cfg gc keys.seed r.gen r.ver r.v6 b hg hv hnil hfit hcs
          (by rw [← hb]; exact hlen)
        rw [hst]
        apply wrap _ hc
        intro a ha
        cases ha
        refine ⟨⟨b, rp⟩, rfl, rfl, ?_⟩
        intro q hq
        have hver : r.ver < k.randomizeMinVersion := by omega
        rw [clientPort_noRand] at hq
        cases hq
        exact port_agree k _ _ _ _ _ _ _ htab hpre hd hty
          (clientPort_old k (portStream c keys.seed) c.hk.lim r.transport r.ver r.params rp hver)
    · -- versions ≥ 2: SelectPhantom
      rw [if_neg hv] at hc
      rw [stationSelect_eq_client keys.seed r.v6 hg (by omega)]
      simp only [Prog.run]
      apply wrap _ hc
      intro a ha
      exact ⟨a, ha, rfl, fun q hq => port_agree k _ _ _ _ _ _ _ htab hpre hd hty hq⟩

end CJ.Derive

namespace CJ.Derive
open CJ.Phantom CJ.Port

theorem obfs4Keys_not_panic (c : Crypto) (secret : Bytes) (pos : Nat) (w : String) :
    obfs4Keys c secret pos ≠ .panic w := by
  unfold obfs4Keys
  simp only
  split
  · simp
  · split <;> simp

theorem stationIdentifier_not_panic (c : Crypto) (t : Transport) (secret : Bytes) (keys : Keys) (w : String) :
    stationIdentifier c t secret keys ≠ .panic w := by
  unfold stationIdentifier
  cases t <;> simp only
  all_goals (try simp)
  split
  · simp
  · simp
  · rename_i w' hw; exact absurd hw (obfs4Keys_not_panic c secret _ w')

theorem finish_not_panic {seed : Bytes} {a : Outcome Addr} {port : Bool → POut Nat} {ident : Outcome Bytes}
    (ha : ∀ w, a ≠ .panic w) (hp : ∀ rp w, port rp ≠ .panic w) (hi : ∀ w, ident ≠ .panic w) (w : String) :
    finish seed a port ident ≠ .panic w := by
  unfold finish
  cases a with
  | err e => simp
  | panic w' => exact absurd rfl (ha w')
  | ok a =>
    simp only
    cases hp' : port a.randPort with
    | err e => simp
    | panic w' => exact absurd hp' (hp _ w')
    | ok q =>
      simp only
      cases ident with
      | err e => simp
      | panic w' => exact absurd rfl (hi w')
      | ok i => simp

theorem genSharedKeys_not_panic (c : Crypto) (ver : Nat) (secret : Bytes) (w : String) :
    genSharedKeys c ver secret ≠ .panic w := by
  unfold genSharedKeys
  simp only
  split
  · simp
  · split <;> simp

theorem stationDerive_no_panic (c : Crypto) (k : Consts) (hk : k.WF) (cfg : Cfg) (r : Reg) :
    (stationDerive c k cfg r).All intnContract (fun o => ∀ w, o ≠ .panic w) := by
  unfold stationDerive
  split
  · intro w; simp
  · rename_i w' hw; exact absurd hw (genSharedKeys_not_panic c _ _ w')
  · rw [Prog.bind_eq]
    apply Prog.All_bind
    apply Prog.All_mono _ (stationSelect_no_panic c.hk cfg _ r.gen r.ver r.v6)
    intro a ha w
    exact finish_not_panic ha (fun rp w => stationPort_not_panic k hk _ _ _ _ _ _ w)
      (fun w => stationIdentifier_not_panic c _ _ _ w) w

theorem stationDerive_seeded (c : Crypto) (k : Consts) (cfg : Cfg) (r : Reg) : (stationDerive c k cfg r).Seeded := by
  unfold stationDerive
  split
  · trivial
  · trivial
  · rw [Prog.bind_eq]
    exact Prog.Seeded_bind (stationSelect_seeded ..) (fun _ => trivial)

/-- the station's phantom, when it derives one, is contained as C14 demands -/
theorem stationDerive_addr (c : Crypto) (k : Consts) (cfg : Cfg) (r : Reg) :
    (stationDerive c k cfg r).All anyDraw (fun o => ∀ rs, o = .ok rs →
      ∃ gc, cfg.lookup r.gen = some gc ∧ ∃ n, FromCfg gc n ∧ n.v4 = (!r.v6) ∧
        rs.addr.length = famLen n.v4 ∧ n.base ≤ beNat rs.addr ∧ beNat rs.addr < n.base + 2 ^ (n.bits - n.ones)) := by
  unfold stationDerive
  split
  · intro rs h; cases h
  · intro rs h; cases h
  · rename_i keys _
    rw [Prog.bind_eq]
    apply Prog.All_bind
    apply Prog.All_mono _ (stationSelect_all anyDraw c.hk cfg keys.seed r.gen r.ver r.v6)
    intro a ha rs hrs
    unfold finish at hrs
    cases a with
    | err e => cases hrs
    | panic w => cases hrs
    | ok a =>
      obtain ⟨gc, hgc, n, hn, hf, hl, hlo, hhi, _⟩ := ha a rfl
      simp only at hrs
      split at hrs
      · cases hrs
      · cases hrs
      · split at hrs
        · cases hrs
        · cases hrs
        · cases hrs
          exact ⟨gc, hgc, n, hn, hf, hl, hlo, hhi⟩

end CJ.Derive
