import CJ.Model.IngestStore
import CJ.Lemmas.Ingest
/-! Helper lemmas for the object store of the ingest model (C07, sequences of messages). -/
namespace CJ.Ingest
open CJ.Registry (Key)

theorem storeReg_other (c : Cfg) (cv : Covert) (s : RSt) (st : Store) (r : Reg) (k : Key) (hk : keyOf r ≠ k) :
    storeReg c cv s st r k = st k := by
  unfold storeReg
  cases validate c r with
  | error e => rfl
  | ok u =>
    simp only
    split
    · rfl
    · unfold Store.set
      rw [if_neg (fun h => hk h.symm)]

/-- the registration is already tracked: its stored object is left as it is -/
theorem storeReg_tracked (c : Cfg) (cv : Covert) (s : RSt) (st : Store) (r : Reg) (e : CJ.Registry.Reg)
    (he : get s (keyOf r) = some e) : storeReg c cv s st r = st := by
  have hc : s.decoys.contains (keyOf r) = true := by rw [contains_iff_get, he]; rfl
  unfold storeReg
  cases validate c r with
  | error e => rfl
  | ok u => simp [hc]

theorem storeReg_invalid (c : Cfg) (cv : Covert) (s : RSt) (st : Store) (r : Reg) (h : validate c r ≠ .ok ()) :
    storeReg c cv s st r = st := by
  unfold storeReg
  cases hv : validate c r with
  | error e => rfl
  | ok u => cases u; exact absurd hv h

/-- a validated registration that is not tracked yet is stored as built, with the policy's answer as
covert address when the policy accepted (else the address as sent) -/
theorem storeReg_fresh (c : Cfg) (cv : Covert) (s : RSt) (st : Store) (r : Reg)
    (hv : validate c r = .ok ()) (hn : get s (keyOf r) = none) :
    storeReg c cv s st r (keyOf r) = some { reg := r, covert := cv.resolved.getD cv.raw } := by
  have hc : s.decoys.contains (keyOf r) = false := by rw [contains_iff_get, hn]; rfl
  unfold storeReg
  simp [hv, hc, Store.set]

/-- a tracked key's object survives any `ingestRegistration`, whatever registration is ingested -/
theorem storeReg_keeps_tracked (c : Cfg) (cv : Covert) (s : RSt) (st : Store) (r : Reg) (k : Key)
    (e : CJ.Registry.Reg) (he : get s k = some e) : storeReg c cv s st r k = st k := by
  by_cases hk : keyOf r = k
  · subst hk; rw [storeReg_tracked c cv s st r e he]
  · exact storeReg_other c cv s st r k hk

/-- a tracked key stays tracked -/
theorem tracked_ingestReg (c : Cfg) (o : Oracles) (s : RSt) (r : Reg) (k : Key) (e : CJ.Registry.Reg)
    (he : get s k = some e) : ∃ e', get (ingestReg c o s r).1 k = some e' := by
  by_cases hk : keyOf r = k
  · subst hk
    rw [get_ingestReg_self]
    by_cases hv : validate c r = .ok ()
    · rw [if_pos hv, he]; exact ⟨_, rfl⟩
    · rw [if_neg hv]; exact ⟨e, he⟩
  · rw [get_ingestReg_other c o s r k hk]; exact ⟨e, he⟩

theorem ingestRegsC_cons (c : Cfg) (o : Oracles) (cv : Covert) (x : StC) (r : Reg) (rs : List Reg) :
    ingestRegsC c o cv x (r :: rs) =
      ((ingestRegsC c o cv (ingestRegC c o cv x r).1 rs).1,
       (ingestRegC c o cv x r).2 ++ (ingestRegsC c o cv (ingestRegC c o cv x r).1 rs).2) := rfl

theorem runC_cons (c : Cfg) (x : StC) (w : WireC) (ws : List WireC) :
    runC c x (w :: ws) =
      ((runC c (ingestWireC c x w).1 ws).1, (ingestWireC c x w).2 ++ (runC c (ingestWireC c x w).1 ws).2) := rfl

/-- the registry flags and the events of the combined step are those of `ingestRegs` -/
theorem ingestRegsC_reg (c : Cfg) (o : Oracles) (cv : Covert) (rs : List Reg) (x : StC) :
    (ingestRegsC c o cv x rs).1.reg = (ingestRegs c o x.reg rs).1 ∧
      (ingestRegsC c o cv x rs).2 = (ingestRegs c o x.reg rs).2 := by
  induction rs generalizing x with
  | nil => exact ⟨rfl, rfl⟩
  | cons r rs ih =>
    rw [ingestRegsC_cons]
    obtain ⟨h1, h2⟩ := ih (ingestRegC c o cv x r).1
    have hreg : (ingestRegC c o cv x r).1.reg = (ingestReg c o x.reg r).1 := rfl
    have hev : (ingestRegC c o cv x r).2 = (ingestReg c o x.reg r).2 := rfl
    simp only [ingestRegs]
    rw [hreg] at h1 h2
    exact ⟨h1, by rw [h2, hev]⟩

theorem ingestWireC_reg (c : Cfg) (x : StC) (w : WireC) :
    (ingestWireC c x w).1.reg = (ingestWire c x.reg w.w).1 ∧ (ingestWireC c x w).2 = (ingestWire c x.reg w.w).2 := by
  unfold ingestWireC ingestWire
  cases hw : w.w with
  | garbage => exact ⟨rfl, rfl⟩
  | msg m o =>
    simp only
    cases hp : parse c (.msg m o) with
    | none => exact ⟨rfl, rfl⟩
    | some regs => exact ingestRegsC_reg c o w.cv regs x

theorem ingestWireC_eq (c : Cfg) (x : StC) (m : Msg) (o : Oracles) (cv : Covert) :
    ingestWireC c x ⟨.msg m o, cv⟩ =
      ingestRegsC c o cv x ((regOf c m o .v4).toList ++ (regOf c m o .v6).toList) := by
  cases h4 : attempted c m .v4 <;> cases h6 : attempted c m .v6 <;>
    cases b4 : buildFam c m o .v4 <;> cases b6 : buildFam c m o .v6 <;>
    simp [ingestWireC, parse, tryFam, regOf, okRegs, ingestRegsC, h4, h6, b4, b6]

/-- the registrations a message hands to ingest -/
theorem mem_regs (c : Cfg) (m : Msg) (o : Oracles) (r : Reg)
    (h : r ∈ (regOf c m o .v4).toList ++ (regOf c m o .v6).toList) : ∃ f, regOf c m o f = some r := by
  simp only [List.mem_append, Option.mem_toList] at h
  rcases h with h | h
  · exact ⟨.v4, h⟩
  · exact ⟨.v6, h⟩

end CJ.Ingest
