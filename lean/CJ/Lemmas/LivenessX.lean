import CJ.Lemmas.Liveness
import CJ.Model.LivenessX
/-!
# Lock step between the pair model (`LivenessX`) and the base model (`Liveness`)

`queryX` on a pair does to the tester exactly what `query` does on the pair's boolean, and answers the
same thing with the pair put back; hence histories, probe logs and "most recent measurement" of the two
models are projections of each other.
-/
namespace CJ.Liveness

def XOut.forget : XOut → Out
  | .cached v => .cached v
  | .probed r => .probed r.live
  | .cleared => .cleared

theorem queryX_fst (t : Tester) (now : Int) (a : String) (r : Measured) :
    (queryX t now a r).1 = (query t now a r.live).1 := by
  obtain ⟨v, e⟩ := r
  cases t with
  | uncached => rfl
  | cached live nonLive =>
    simp only [queryX, query, store]
    split <;> try rfl
    split <;> try rfl
    cases v <;> simp

theorem queryX_snd (t : Tester) (now : Int) (a : String) (r : Measured) :
    (queryX t now a r).2.forget = (query t now a r.live).2 := by
  obtain ⟨v, e⟩ := r
  cases t with
  | uncached => rfl
  | cached live nonLive =>
    simp only [queryX, query, store]
    split <;> try rfl
    split <;> try rfl
    cases v <;> simp [XOut.forget]

/-- a probing answer hands back the pair the probe returned, unaltered -/
theorem queryX_probed (t : Tester) (now : Int) (a : String) (r r' : Measured)
    (h : (queryX t now a r).2 = .probed r') : r' = r := by
  cases t with
  | uncached => simp only [queryX, XOut.probed.injEq] at h; exact h.symm
  | cached live nonLive =>
    simp only [queryX] at h
    split at h
    · cases h
    · split at h
      · cases h
      · simp only [XOut.probed.injEq] at h; exact h.symm

theorem queryX_shape (t : Tester) (now : Int) (a : String) (r : Measured) :
    (∃ v, (queryX t now a r).2 = .cached v) ∨ (queryX t now a r).2 = .probed r := by
  cases t with
  | uncached => exact Or.inr rfl
  | cached live nonLive =>
    simp only [queryX]
    split
    · exact Or.inl ⟨true, rfl⟩
    · split
      · exact Or.inl ⟨false, rfl⟩
      · exact Or.inr rfl

theorem stepX_fst (t : Tester) (o : XOp) : (stepX t o).1 = (step t o.forget).1 := by
  cases o with
  | query now a r => exact queryX_fst t now a r
  | clear now => rfl

theorem stepX_snd (t : Tester) (o : XOp) : (stepX t o).2.forget = (step t o.forget).2 := by
  cases o with
  | query now a r => exact queryX_snd t now a r
  | clear now => rfl

theorem runXFrom_forget (ops : List XOp) (t : Tester) : runXFrom t ops = runFrom t (ops.map XOp.forget) := by
  induction ops generalizing t with
  | nil => rfl
  | cons o os ih =>
    show runXFrom (stepX t o).1 os = runFrom (step t o.forget).1 (os.map XOp.forget)
    rw [stepX_fst]
    exact ih _

theorem runX_forget (cfg : Config) (ops : List XOp) : runX cfg ops = run cfg (ops.map XOp.forget) :=
  runXFrom_forget ops _

theorem XOp.forget_time (o : XOp) : o.forget.time = o.time := by
  cases o <;> rfl

/-! ## the probe log with the pairs -/

/-- one probe: time, address, the pair it returned -/
abbrev XProbe := Int × String × Measured

def XProbe.forget (p : XProbe) : Probe := (p.1, p.2.1, p.2.2.live)

def probeOfX (t : Tester) : XOp → List XProbe
  | .query now a r =>
    match (queryX t now a r).2 with
    | .probed r' => [(now, a, r')]
    | _ => []
  | .clear _ => []

def logXFrom (t : Tester) (acc : List XProbe) : List XOp → List XProbe
  | [] => acc
  | o :: os => logXFrom (stepX t o).1 (probeOfX t o ++ acc) os

/-- the most recent probe of address `a` in a newest-first log: (time, pair) -/
def lastOfX (log : List XProbe) (a : String) : Option (Int × Measured) :=
  (log.find? (fun e => e.2.1 == a)).map (fun e => (e.1, e.2.2))

theorem probeOfX_forget (t : Tester) (o : XOp) : (probeOfX t o).map XProbe.forget = probeOf t o.forget := by
  cases o with
  | clear now => rfl
  | query now a r =>
    have h := queryX_snd t now a r
    simp only [probeOfX, probeOf, XOp.forget]
    rw [← h]
    cases (queryX t now a r).2 <;> rfl

theorem logXFrom_forget (ops : List XOp) (t : Tester) (acc : List XProbe) :
    (logXFrom t acc ops).map XProbe.forget = logFrom t (acc.map XProbe.forget) (ops.map XOp.forget) := by
  induction ops generalizing t acc with
  | nil => rfl
  | cons o os ih =>
    show (logXFrom (stepX t o).1 (probeOfX t o ++ acc) os).map XProbe.forget
      = logFrom (step t o.forget).1 (probeOf t o.forget ++ acc.map XProbe.forget) (os.map XOp.forget)
    rw [ih, stepX_fst, List.map_append, probeOfX_forget]

theorem lastOf_forget (log : List XProbe) (a : String) :
    lastOf (log.map XProbe.forget) a = (lastOfX log a).map (fun p => (p.1, p.2.live)) := by
  induction log with
  | nil => rfl
  | cons e es ih =>
    unfold lastOf lastOfX at *
    simp only [List.map_cons, List.find?_cons]
    by_cases h : (e.2.1 == a) = true
    · simp [XProbe.forget, h]
    · have h' : (e.2.1 == a) = false := by simpa using h
      simp only [XProbe.forget, h']
      exact ih

/-- every entry of the pair log was returned by the probe with exactly that pair: a logged pair of a
query is the pair the operation carried -/
theorem probeOfX_mem (t : Tester) (o : XOp) (p : XProbe) (h : p ∈ probeOfX t o) :
    o = .query p.1 p.2.1 p.2.2 := by
  cases o with
  | clear now => simp [probeOfX] at h
  | query now a r =>
    simp only [probeOfX] at h
    cases hq : (queryX t now a r).2 with
    | cached v => rw [hq] at h; simp at h
    | cleared => rw [hq] at h; simp at h
    | probed r' =>
      rw [hq] at h
      have := queryX_probed t now a r r' hq
      simp only [List.mem_singleton] at h
      subst h; subst this
      rfl

end CJ.Liveness
