import CJ.Lemmas.RegistryConc
/-!
# Abstract specification of the registry, per registration, and the refinement

`specStep c k` is the history-level meaning of one operation for the registration `k`: what its
abstract record — `none` = not tracked, `some ⟨t, used⟩` = tracked since `t`, has / has not carried a
connection — becomes.  `spec c ops k` folds it over a history from "not tracked".  The refinement
theorem says that the timeout record the implementation model keeps for `k` IS this abstract record,
after every history (`abs (step s op) = specStep (abs s) op` with `abs s = fun k => s.timeouts[k]?`).
-/
open Std

namespace CJ.Registry

def expiredO (c : Cfg) (now : Nat) : Option TO → Bool
  | some t => expired c now t
  | none => false

/-- the abstract record of `k` after one operation -/
def specStep (c : Cfg) (k : Key) (cur : Option TO) : Op → Option TO
  | .track k' tr now => if k' = k ∧ c.enabled.contains tr = true ∧ cur = none then some ⟨now, false⟩ else cur
  | .register k' tr now => if k' = k ∧ c.enabled.contains tr = true ∧ cur = none then some ⟨now, false⟩ else cur
  | .markActive k' tr => if k' = k ∧ c.enabled.contains tr = true then cur.map (fun t => { t with used := true }) else cur
  | .remove k' now => if k' = k ∧ expiredO c now cur = true then none else cur
  | .sweep now => if expiredO c now cur = true then none else cur
  | .collect _ => cur
  | .lookup _ => cur
  | .exists_ _ _ => cur
  | .count _ => cur
  | .total => cur

/-- the abstract record of `k` after a history, starting from "not tracked" -/
def spec (c : Cfg) (ops : List Op) (k : Key) : Option TO := ops.foldl (specStep c k) none

theorem expiredO_iff (c : Cfg) (now : Nat) (o : Option TO) :
    expiredO c now o = true ↔ ∃ t, o = some t ∧ expired c now t = true := by
  cases o with
  | none => simp [expiredO]
  | some t => simp [expiredO]

theorem inv_none_iff (s : St) (hi : Inv s) (k : Key) : s.decoys[k]? = none ↔ s.timeouts[k]? = none := by
  have h := hi k
  rw [HashMap.contains_eq_isSome_getElem?, HashMap.contains_eq_isSome_getElem?] at h
  cases hd : s.decoys[k]? <;> cases ht : s.timeouts[k]? <;> simp_all

/-- **Refinement, one step**: under the invariant, the timeout record of every key after a step of
the implementation model is `specStep` of the record before. -/
theorem step_refines (c : Cfg) (s : St) (hi : Inv s) (op : Op) (k : Key) :
    (step c s op).1.timeouts[k]? = specStep c k (s.timeouts[k]?) op := by
  cases op with
  | track k' tr now =>
    show (track c s k' tr now).1.timeouts[k]? = _
    rw [track_timeouts_get]
    simp only [specStep]
    by_cases e : k' = k
    · subst e; simp only [true_and, inv_none_iff s hi k']
    · simp [e]
  | register k' tr now =>
    show (register c s k' tr now).1.timeouts[k]? = _
    rw [register_timeouts_get]
    simp only [specStep]
    by_cases e : k' = k
    · subst e; simp only [true_and, inv_none_iff s hi k']
    · simp [e]
  | markActive k' tr =>
    show (markActive c s k' tr).1.timeouts[k]? = _
    rw [markActive_timeouts_get]
    simp only [specStep]
    by_cases e : k' = k
    · subst e; rfl
    · simp [e]
  | collect now => rfl
  | remove k' now =>
    show (remove c now s k').1.timeouts[k]? = _
    have h := congrArg Prod.snd (remove_get c now s hi k' k)
    simp only at h
    rw [h]
    simp only [specStep, expiredO_iff]
    by_cases e : k' = k
    · subst e
      by_cases hx : ∃ t, s.timeouts[k']? = some t ∧ expired c now t = true
      · simp [hx]
      · simp [hx]
    · simp [e]
  | sweep now =>
    show (sweep c now s).1.timeouts[k]? = _
    have h := congrArg Prod.snd (sweep_get c now s hi k)
    simp only at h
    rw [h]
    simp only [specStep, expiredO_iff]
    by_cases hx : ∃ t, s.timeouts[k]? = some t ∧ expired c now t = true
    · simp [hx]
    · simp [hx]
  | lookup p => rfl
  | exists_ k' tr => rfl
  | count p => rfl
  | total => rfl

/-- **Refinement, whole histories** (from any state that satisfies the invariant) -/
theorem run_refines (c : Cfg) (ops : List Op) (s : St) (hi : Inv s) (k : Key) :
    (run c ops s).timeouts[k]? = ops.foldl (specStep c k) (s.timeouts[k]?) := by
  unfold run
  induction ops generalizing s with
  | nil => rfl
  | cons o ops ih =>
    simp only [List.foldl_cons]
    rw [ih _ (inv_step c s o hi), step_refines c s hi o k]

/-- the record of `k` after any history from the empty registry is its abstract record -/
theorem run_timeouts_eq_spec (c : Cfg) (ops : List Op) (k : Key) :
    (run c ops).timeouts[k]? = spec c ops k := by
  have := run_refines c ops init inv_init k
  simpa [spec, init] using this

/-- … and `k` is tracked iff its abstract record exists -/
theorem run_tracked_iff_spec (c : Cfg) (ops : List Op) (k : Key) :
    (run c ops).decoys.contains k = (spec c ops k).isSome := by
  rw [inv_run c ops init inv_init k, HashMap.contains_eq_isSome_getElem?, run_timeouts_eq_spec]

/-! ### what the abstract record says about the history -/

/-- operations that can start a lifetime of `k` at time `t` -/
def startsAt (c : Cfg) (k : Key) (t : Nat) : Op → Bool
  | .track k' tr now => decide (k' = k) && c.enabled.contains tr && decide (now = t)
  | .register k' tr now => decide (k' = k) && c.enabled.contains tr && decide (now = t)
  | _ => false

theorem specStep_time (c : Cfg) (k : Key) (cur : Option TO) (op : Op) (t : TO)
    (h : specStep c k cur op = some t) :
    (∃ t0, cur = some t0 ∧ t0.time = t.time ∧ (t0.used = true → t.used = true)) ∨
      (cur = none ∧ startsAt c k t.time op = true ∧ t.used = false) := by
  cases op with
  | track k' tr now =>
    simp only [specStep] at h
    split at h
    · rename_i hc; cases h; exact Or.inr ⟨hc.2.2, by have := hc.2.1; simp only [List.contains_eq_mem, decide_eq_true_eq] at this; simp [startsAt, hc.1, this], rfl⟩
    · exact Or.inl ⟨t, h, rfl, id⟩
  | register k' tr now =>
    simp only [specStep] at h
    split at h
    · rename_i hc; cases h; exact Or.inr ⟨hc.2.2, by have := hc.2.1; simp only [List.contains_eq_mem, decide_eq_true_eq] at this; simp [startsAt, hc.1, this], rfl⟩
    · exact Or.inl ⟨t, h, rfl, id⟩
  | markActive k' tr =>
    simp only [specStep] at h
    split at h
    · cases cur with
      | none => cases h
      | some t0 => simp only [Option.map_some, Option.some.injEq] at h; subst h; exact Or.inl ⟨t0, rfl, rfl, fun _ => rfl⟩
    · exact Or.inl ⟨t, h, rfl, id⟩
  | remove k' now =>
    simp only [specStep] at h
    split at h
    · cases h
    · exact Or.inl ⟨t, h, rfl, id⟩
  | sweep now =>
    simp only [specStep] at h
    split at h
    · cases h
    · exact Or.inl ⟨t, h, rfl, id⟩
  | collect now => exact Or.inl ⟨t, h, rfl, id⟩
  | lookup p => exact Or.inl ⟨t, h, rfl, id⟩
  | exists_ k' tr => exact Or.inl ⟨t, h, rfl, id⟩
  | count p => exact Or.inl ⟨t, h, rfl, id⟩
  | total => exact Or.inl ⟨t, h, rfl, id⟩

/-- the creation time of a tracked record is the time of a `track` / `register` operation of the
history on that very key (with an enabled transport) — or it was there from the start -/
theorem fold_created_by (c : Cfg) (k : Key) (ops : List Op) (cur : Option TO) (t : TO)
    (h : ops.foldl (specStep c k) cur = some t) :
    (∃ t0, cur = some t0 ∧ t0.time = t.time) ∨ ∃ op ∈ ops, startsAt c k t.time op = true := by
  induction ops generalizing cur with
  | nil => exact Or.inl ⟨t, h, rfl⟩
  | cons o ops ih =>
    simp only [List.foldl_cons] at h
    rcases ih _ h with ⟨t1, h1, ht1⟩ | ⟨op, hop, hs⟩
    · rcases specStep_time c k cur o t1 h1 with ⟨t0, h0, ht0, _⟩ | ⟨_, hs, _⟩
      · exact Or.inl ⟨t0, h0, by rw [ht0, ht1]⟩
      · exact Or.inr ⟨o, List.mem_cons_self .., by rw [← ht1]; exact hs⟩
    · exact Or.inr ⟨op, List.mem_cons_of_mem _ hop, hs⟩

theorem spec_created_by (c : Cfg) (k : Key) (ops : List Op) (t : TO) (h : spec c ops k = some t) :
    ∃ op ∈ ops, startsAt c k t.time op = true := by
  rcases fold_created_by c k ops none t h with ⟨t0, h0, _⟩ | h
  · cases h0
  · exact h

/-- `specStep` never touches the record of another key except through a sweep -/
theorem specStep_markActive_sets (c : Cfg) (k : Key) (tr : Nat) (t : TO)
    (hen : c.enabled.contains tr = true) :
    specStep c k (some t) (.markActive k tr) = some { t with used := true } := by
  have : tr ∈ c.enabled := by simpa using hen
  simp [specStep, this]

end CJ.Registry
