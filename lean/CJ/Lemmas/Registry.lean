import CJ.Model.Registry
/-! Helper lemmas about the registry model (invariant preservation, sweep characterisation). -/
open Std

namespace CJ.Registry

/-- The two maps describe the same set of registrations. -/
def Inv (s : St) : Prop := ∀ k, s.decoys.contains k = s.timeouts.contains k

theorem inv_init : Inv init := by
  intro k; simp [init]

theorem contains_insert' {β} (m : HashMap Key β) (a k : Key) (v : β) :
    (m.insert a v).contains k = (a == k || m.contains k) := by
  simp [HashMap.contains_insert]

theorem contains_of_getElem? {β} (m : HashMap Key β) (k : Key) (v : β) (h : m[k]? = some v) :
    m.contains k = true := by
  rw [HashMap.contains_eq_isSome_getElem?, h]; rfl

theorem not_contains_of_getElem? {β} (m : HashMap Key β) (k : Key) (h : m[k]? = none) :
    m.contains k = false := by
  rw [HashMap.contains_eq_isSome_getElem?, h]; rfl

theorem inv_track (c : Cfg) (s : St) (k : Key) (tr now : Nat) (h : Inv s) : Inv (track c s k tr now).1 := by
  unfold track
  split
  · exact h
  · split
    · rename_i r hr
      intro k'
      simp only [contains_insert']
      rw [← h k']
      by_cases e : k = k'
      · subst e; simp [contains_of_getElem? _ _ _ hr]
      · simp [e]
    · intro k'
      simp only [contains_insert', h k']

theorem inv_register (c : Cfg) (s : St) (k : Key) (tr now : Nat) (h : Inv s) : Inv (register c s k tr now).1 := by
  unfold register
  split
  · exact h
  · split
    · rename_i r hr
      split
      · exact h
      · intro k'
        simp only [contains_insert']
        rw [← h k']
        by_cases e : k = k'
        · subst e; simp [contains_of_getElem? _ _ _ hr]
        · simp [e]
    · intro k'
      simp only [contains_insert', h k']

theorem inv_markActive (c : Cfg) (s : St) (k : Key) (tr : Nat) (h : Inv s) : Inv (markActive c s k tr).1 := by
  unfold markActive
  split
  · exact h
  · split
    · rename_i t ht
      intro k'
      simp only [contains_insert']
      rw [h k']
      by_cases e : k = k'
      · subst e; simp [contains_of_getElem? _ _ _ ht]
      · simp [e]
    · exact h

theorem inv_remove (c : Cfg) (now : Nat) (s : St) (k : Key) (h : Inv s) : Inv (remove c now s k).1 := by
  unfold remove
  split
  · exact h
  · split
    · split
      · exact h
      · intro k'
        simp only [HashMap.contains_erase, h k']
    · exact h

theorem inv_removeAll (c : Cfg) (now : Nat) (ks : List Key) (s : St) (n : Nat) (h : Inv s) :
    Inv (ks.foldl (fun (acc : St × Nat) k =>
      let (s', r) := remove c now acc.1 k
      (s', if r = some true then acc.2 + 1 else acc.2)) (s, n)).1 := by
  induction ks generalizing s n with
  | nil => exact h
  | cons a ks ih =>
    simp only [List.foldl_cons]
    exact ih _ _ (inv_remove c now s a h)

theorem inv_sweep (c : Cfg) (now : Nat) (s : St) (h : Inv s) : Inv (sweep c now s).1 := by
  unfold sweep removeAll
  exact inv_removeAll c now _ s 0 h

theorem inv_step (c : Cfg) (s : St) (op : Op) (h : Inv s) : Inv (step c s op).1 := by
  cases op with
  | track k tr now => exact inv_track c s k tr now h
  | register k tr now => exact inv_register c s k tr now h
  | markActive k tr => exact inv_markActive c s k tr h
  | collect now => exact h
  | remove k now => exact inv_remove c now s k h
  | sweep now => exact inv_sweep c now s h
  | lookup p => exact h
  | exists_ k tr => exact h
  | count p => exact h
  | total => exact h

theorem inv_run (c : Cfg) (ops : List Op) (s : St) (h : Inv s) : Inv (run c ops s) := by
  unfold run
  induction ops generalizing s with
  | nil => exact h
  | cons o ops ih => simp only [List.foldl_cons]; exact ih _ (inv_step c s o h)

/-! ### effect of `remove` / the sweep on single keys -/

/-- what `remove` does to the pair of records at key `k'` -/
theorem remove_get (c : Cfg) (now : Nat) (s : St) (hi : Inv s) (k k' : Key) :
    ((remove c now s k).1.decoys[k']? , (remove c now s k).1.timeouts[k']?) =
      if k = k' ∧ (∃ t, s.timeouts[k]? = some t ∧ expired c now t = true)
      then (none, none) else (s.decoys[k']?, s.timeouts[k']?) := by
  unfold remove
  split
  · rename_i hn
    have : ¬ (k = k' ∧ ∃ t, s.timeouts[k]? = some t ∧ expired c now t = true) := by
      rintro ⟨_, t, ht, _⟩; rw [hn] at ht; cases ht
    simp [this]
  · rename_i t ht
    split
    · rename_i he
      split
      · rename_i hd
        -- impossible under Inv
        have h1 := not_contains_of_getElem? _ _ hd
        have h2 := contains_of_getElem? _ _ _ ht
        rw [hi k, h2] at h1; cases h1
      · by_cases e : k = k'
        · subst e
          have : ∃ t, s.timeouts[k]? = some t ∧ expired c now t = true := ⟨t, ht, he⟩
          simp [this]
        · have e' : ¬ (k == k') = true := by simpa using e
          simp [e, HashMap.getElem?_erase, e']
    · rename_i he
      have : ¬ (k = k' ∧ ∃ t, s.timeouts[k]? = some t ∧ expired c now t = true) := by
        rintro ⟨_, t', ht', he'⟩; rw [ht] at ht'; cases ht'; exact he he'
      simp [this]

/-- the state part of `removeAll` as a plain fold -/
def removeAllS (c : Cfg) (now : Nat) (ks : List Key) (s : St) : St :=
  ks.foldl (fun s k => (remove c now s k).1) s

theorem removeAll_fst (c : Cfg) (now : Nat) (ks : List Key) (s : St) (n : Nat) :
    (ks.foldl (fun (acc : St × Nat) k =>
      let (s', r) := remove c now acc.1 k
      (s', if r = some true then acc.2 + 1 else acc.2)) (s, n)).1 = removeAllS c now ks s := by
  induction ks generalizing s n with
  | nil => rfl
  | cons a ks ih => simp only [List.foldl_cons, removeAllS]; rw [ih]; rfl

theorem inv_removeAllS (c : Cfg) (now : Nat) (ks : List Key) (s : St) (h : Inv s) :
    Inv (removeAllS c now ks s) := by
  induction ks generalizing s with
  | nil => exact h
  | cons a ks ih => exact ih _ (inv_remove c now s a h)

/-- the sweep over an arbitrary index list: a key's records disappear iff the key is in the list
and its timeout record is expired *now*; otherwise both records are untouched. -/
theorem removeAllS_get (c : Cfg) (now : Nat) (ks : List Key) (s : St) (hi : Inv s) (k' : Key) :
    ((removeAllS c now ks s).decoys[k']?, (removeAllS c now ks s).timeouts[k']?) =
      if k' ∈ ks ∧ (∃ t, s.timeouts[k']? = some t ∧ expired c now t = true)
      then (none, none) else (s.decoys[k']?, s.timeouts[k']?) := by
  induction ks generalizing s with
  | nil => simp [removeAllS]
  | cons a ks ih =>
    have hstep := remove_get c now s hi a k'
    have hi' := inv_remove c now s a hi
    have := ih (remove c now s a).1 hi'
    simp only [removeAllS, List.foldl_cons] at this ⊢
    rw [this]
    by_cases e : a = k'
    · subst e
      by_cases hx : ∃ t, s.timeouts[a]? = some t ∧ expired c now t = true
      · have h2 : ((remove c now s a).1.decoys[a]?, (remove c now s a).1.timeouts[a]?) = (none, none) := by
          rw [hstep]; simp [hx]
        have h2a : (remove c now s a).1.decoys[a]? = none := congrArg Prod.fst h2
        have h2b : (remove c now s a).1.timeouts[a]? = none := congrArg Prod.snd h2
        simp [hx, h2a, h2b]
      · have h2 : ((remove c now s a).1.decoys[a]?, (remove c now s a).1.timeouts[a]?) =
            (s.decoys[a]?, s.timeouts[a]?) := by
          rw [hstep]; simp [hx]
        have h2a : (remove c now s a).1.decoys[a]? = s.decoys[a]? := congrArg Prod.fst h2
        have h2b : (remove c now s a).1.timeouts[a]? = s.timeouts[a]? := congrArg Prod.snd h2
        simp [hx, h2a, h2b]
    · have h2 : ((remove c now s a).1.decoys[k']?, (remove c now s a).1.timeouts[k']?) =
          (s.decoys[k']?, s.timeouts[k']?) := by
        rw [hstep]; simp [e]
      have h2a : (remove c now s a).1.decoys[k']? = s.decoys[k']? := congrArg Prod.fst h2
      have h2b : (remove c now s a).1.timeouts[k']? = s.timeouts[k']? := congrArg Prod.snd h2
      have e' : ¬ k' = a := fun h => e h.symm
      simp [h2a, h2b, e']

theorem mem_collect (c : Cfg) (now : Nat) (s : St) (k : Key) :
    k ∈ collect c now s ↔ ∃ t, s.timeouts[k]? = some t ∧ expired c now t = true := by
  unfold collect
  simp only [List.mem_map, List.mem_filter]
  constructor
  · rintro ⟨⟨k', t⟩, ⟨hm, he⟩, rfl⟩
    exact ⟨t, HashMap.mem_toList_iff_getElem?_eq_some.mp hm, he⟩
  · rintro ⟨t, hm, he⟩
    exact ⟨(k, t), ⟨HashMap.mem_toList_iff_getElem?_eq_some.mpr hm, he⟩, rfl⟩

theorem sweep_fst (c : Cfg) (now : Nat) (s : St) :
    (sweep c now s).1 = removeAllS c now (collect c now s) s := by
  unfold sweep removeAll
  exact removeAll_fst c now _ s 0

/-- both records after a full sweep -/
theorem sweep_get (c : Cfg) (now : Nat) (s : St) (hi : Inv s) (k : Key) :
    ((sweep c now s).1.decoys[k]?, (sweep c now s).1.timeouts[k]?) =
      if (∃ t, s.timeouts[k]? = some t ∧ expired c now t = true)
      then (none, none) else (s.decoys[k]?, s.timeouts[k]?) := by
  rw [sweep_fst, removeAllS_get c now _ s hi k]
  by_cases h : ∃ t, s.timeouts[k]? = some t ∧ expired c now t = true
  · have : k ∈ collect c now s := (mem_collect c now s k).mpr h
    simp [h, this]
  · simp [h]

end CJ.Registry

namespace CJ.Registry

/-! ### the timeout record of a key through single operations -/

theorem track_timeouts_get (c : Cfg) (s : St) (k k' : Key) (tr now : Nat) :
    (track c s k tr now).1.timeouts[k']? =
      if k = k' ∧ c.enabled.contains tr = true ∧ s.decoys[k]? = none then some ⟨now, false⟩
      else s.timeouts[k']? := by
  unfold track
  by_cases he : c.enabled.contains tr = true
  · simp only [he, Bool.not_true, Bool.false_eq_true, if_false, true_and]
    split
    · rename_i r hr
      simp [hr]
    · rename_i hr
      by_cases e : k = k'
      · subst e; simp [hr]
      · have : ¬ (k == k') = true := by simpa using e
        simp [e, HashMap.getElem?_insert, this]
  · have he' : ¬ tr ∈ c.enabled := by simpa using he
    simp [he']

theorem register_timeouts_get (c : Cfg) (s : St) (k k' : Key) (tr now : Nat) :
    (register c s k tr now).1.timeouts[k']? =
      if k = k' ∧ c.enabled.contains tr = true ∧ s.decoys[k]? = none then some ⟨now, false⟩
      else s.timeouts[k']? := by
  unfold register
  by_cases he : c.enabled.contains tr = true
  · simp only [he, Bool.not_true, Bool.false_eq_true, if_false, true_and]
    split
    · rename_i r hr
      split <;> simp [hr]
    · rename_i hr
      by_cases e : k = k'
      · subst e; simp [hr]
      · have : ¬ (k == k') = true := by simpa using e
        simp [e, HashMap.getElem?_insert, this]
  · have he' : ¬ tr ∈ c.enabled := by simpa using he
    simp [he']

theorem markActive_timeouts_get (c : Cfg) (s : St) (k k' : Key) (tr : Nat) :
    (markActive c s k tr).1.timeouts[k']? =
      if k = k' ∧ c.enabled.contains tr = true then (s.timeouts[k]?).map (fun t => { t with used := true })
      else s.timeouts[k']? := by
  unfold markActive
  by_cases he : c.enabled.contains tr = true
  · simp only [he, Bool.not_true, Bool.false_eq_true, if_false, and_true]
    split
    · rename_i t ht
      by_cases e : k = k'
      · subst e; simp [ht]
      · have : ¬ (k == k') = true := by simpa using e
        simp [e, HashMap.getElem?_insert, this]
    · rename_i ht
      by_cases e : k = k'
      · subst e; simp [ht]
      · simp [e]
  · have he' : ¬ tr ∈ c.enabled := by simpa using he
    simp [he']

theorem remove_timeouts_get (c : Cfg) (now : Nat) (s : St) (k k' : Key) :
    (remove c now s k).1.timeouts[k']? = s.timeouts[k']? ∨ (remove c now s k).1.timeouts[k']? = none := by
  unfold remove
  split
  · exact Or.inl rfl
  · split
    · split
      · exact Or.inl rfl
      · simp only [HashMap.getElem?_erase]
        by_cases e : (k == k') = true <;> simp [e]
    · exact Or.inl rfl

theorem removeAllS_timeouts_get (c : Cfg) (now : Nat) (ks : List Key) (s : St) (k' : Key) :
    (removeAllS c now ks s).timeouts[k']? = s.timeouts[k']? ∨ (removeAllS c now ks s).timeouts[k']? = none := by
  induction ks generalizing s with
  | nil => exact Or.inl rfl
  | cons a ks ih =>
    simp only [removeAllS, List.foldl_cons]
    rcases ih (remove c now s a).1 with h | h
    · simp only [removeAllS] at h
      rw [h]; exact remove_timeouts_get c now s a k'
    · simp only [removeAllS] at h
      exact Or.inr h

end CJ.Registry
