import CJ.Model.AnnounceStation
import CJ.Lemmas.Announce
/-! Helper lemmas for the station model (pipeline, shutdown, channel availability; C10). -/
namespace CJ.Announce
open CJ.Registry (Cfg)

/-! ### `publish` -/

theorem publish_log (Q : SParams) (now : Nat) (st : Station) (m : Msg) :
    (publish Q now st m).log = if st.up then st.log ++ [m] else st.log := by
  unfold publish; split <;> rfl

theorem publish_det (Q : SParams) (now : Nat) (st : Station) (m : Msg) :
    (publish Q now st m).sys.det = if st.up then CJ.Detector.handle now st.sys.det (m.s2d Q) else st.sys.det := by
  unfold publish; split <;> rfl

theorem publish_ctl (Q : SParams) (now : Nat) (st : Station) (m : Msg) :
    (publish Q now st m).parked = st.parked ∧ (publish Q now st m).stopped = st.stopped ∧
    (publish Q now st m).up = st.up ∧ (publish Q now st m).sys.reg = st.sys.reg := by
  unfold publish; split <;> exact ⟨rfl, rfl, rfl, rfl⟩

/-! ### `regEvent` leaves the control state alone -/

theorem viaChannel_ctl (Q : SParams) (now : Nat) (st : Station) (e : Option (Registry.Key × Kind)) :
    (viaChannel Q now st e).parked = st.parked ∧ (viaChannel Q now st e).stopped = st.stopped ∧
    (viaChannel Q now st e).up = st.up := by
  cases e with
  | none => exact ⟨rfl, rfl, rfl⟩
  | some a =>
    have h := publish_ctl Q now st (.ann a.1 a.2)
    exact ⟨h.1, h.2.1, h.2.2.1⟩

theorem afterSweep_ctl (st : Station) (o : HOp) :
    (afterSweep st o).parked = st.parked ∧ (afterSweep st o).stopped = st.stopped ∧
    (afterSweep st o).up = st.up ∧ (afterSweep st o).log = st.log := by
  cases o <;> exact ⟨rfl, rfl, rfl, rfl⟩

theorem afterSweep_det (st : Station) (o : HOp) :
    (afterSweep st o).sys.det = st.sys.det ∨ ∃ now, (afterSweep st o).sys.det = CJ.Detector.dropStale now st.sys.det := by
  cases o with
  | dsweep now => exact Or.inr ⟨now, rfl⟩
  | track k tr now => exact Or.inl rfl
  | register k tr now => exact Or.inl rfl
  | ingest k tr now p => exact Or.inl rfl
  | markActive k tr now => exact Or.inl rfl
  | sweep now => exact Or.inl rfl

theorem regEvent_ctl (Q : SParams) (c : Cfg) (st : Station) (o : HOp) :
    (regEvent Q c st o).parked = st.parked ∧ (regEvent Q c st o).stopped = st.stopped ∧
    (regEvent Q c st o).up = st.up := by
  unfold regEvent
  have h1 := afterSweep_ctl (viaChannel Q o.time (withReg st (regStep c st.sys.reg o).1) (emitted o (regStep c st.sys.reg o).2)) o
  have h2 := viaChannel_ctl Q o.time (withReg st (regStep c st.sys.reg o).1) (emitted o (regStep c st.sys.reg o).2)
  exact ⟨h1.1.trans h2.1, h1.2.1.trans h2.2.1, h1.2.2.1.trans h2.2.2⟩

/-- an event that makes no closure call reaches neither the channel nor (a detector sweep aside) the table -/
theorem regEvent_silent (Q : SParams) (c : Cfg) (st : Station) (o : HOp)
    (h : emitted o (regStep c st.sys.reg o).2 = none) :
    (regEvent Q c st o).log = st.log ∧
    ((regEvent Q c st o).sys.det = st.sys.det ∨ ∃ now, (regEvent Q c st o).sys.det = CJ.Detector.dropStale now st.sys.det) := by
  unfold regEvent
  rw [h]
  exact ⟨(afterSweep_ctl _ o).2.2.2, afterSweep_det _ o⟩

theorem foldl_inv {α β : Type} (I : β → Prop) (f : β → α → β) (hf : ∀ b a, I b → I (f b a)) :
    ∀ (l : List α) (b : β), I b → I (l.foldl f b)
  | [], _, h => h
  | a :: l, b, h => foldl_inv I f hf l (f b a) (hf b a h)

/-- `wg.Wait()` over synchronous ingests: afterwards nothing is parked; the control flags are untouched -/
theorem completeAll_ctl (Q : SParams) (c : Cfg) (now : Nat) (st : Station) (outcomes : List Bool) :
    (completeAll Q c now st outcomes).parked = [] ∧ (completeAll Q c now st outcomes).stopped = st.stopped ∧
    (completeAll Q c now st outcomes).up = st.up := by
  unfold completeAll
  apply foldl_inv (fun s : Station => s.parked = [] ∧ s.stopped = st.stopped ∧ s.up = st.up)
  · intro b a hb
    by_cases ho : outcomes.getD a.2 true = true
    · simp only [ho, if_true]
      have h := regEvent_ctl Q c b (.register a.1.k a.1.tr now)
      exact ⟨h.1.trans hb.1, h.2.1.trans hb.2.1, h.2.2.trans hb.2.2⟩
    · simp only [ho]
      exact hb
  · exact ⟨rfl, rfl, rfl⟩

theorem completeAll_nil (Q : SParams) (c : Cfg) (now : Nat) (st : Station) (outcomes : List Bool)
    (h : st.parked = []) : completeAll Q c now st outcomes = st := by
  unfold completeAll
  rw [h]
  cases st
  simp_all

/-! ### availability is the only state of the channel -/

theorem sstep_up (Q : SParams) (c : Cfg) (st : Station) (e : SOp) :
    (sstep Q c st e).up = avail st.up [e] := by
  cases e with
  | op o =>
    simp only [sstep, avail]
    split
    · rfl
    · exact (regEvent_ctl Q c st o).2.2
  | begin k tr now =>
    simp only [sstep, avail]
    split
    · rfl
    · split
      · rfl
      · split
        · exact (regEvent_ctl Q c st _).2.2
        · exact (regEvent_ctl Q c st _).2.2
  | finish k now passes =>
    simp only [sstep, avail]
    split
    · rfl
    · split
      · exact (regEvent_ctl Q c _ _).2.2
      · rfl
  | stop now outcomes =>
    simp only [sstep, avail]
    split
    · exact (completeAll_ctl Q c now _ outcomes).2.2
    · rfl
  | cleanup now => exact (publish_ctl Q now st .clear).2.2.1
  | chanUp => rfl
  | chanDown => rfl

theorem avail_cons (up : Bool) (e : SOp) (es : List SOp) : avail up (e :: es) = avail (avail up [e]) es := by
  cases e <;> rfl

theorem srun_up (Q : SParams) (c : Cfg) (evs : List SOp) (st : Station) :
    (srun Q c evs st).up = avail st.up evs := by
  induction evs generalizing st with
  | nil => rfl
  | cons e es ih =>
    simp only [srun, List.foldl_cons]
    have := ih (sstep Q c st e)
    simp only [srun] at this
    rw [this, sstep_up, ← avail_cons]

/-! ### after `stop` (synchronous ingests) the pipeline is quiet -/

def Quiesced (st : Station) : Prop := st.stopped = true ∧ st.parked = []

theorem stop_quiesced (Q : SParams) (c : Cfg) (hs : Q.sync = true) (st : Station) (now : Nat) (outcomes : List Bool) :
    Quiesced (sstep Q c st (.stop now outcomes)) := by
  simp only [sstep, hs, if_true]
  have h := completeAll_ctl Q c now { st with stopped := true } outcomes
  exact ⟨h.2.1, h.1⟩

/-- a quiet event on a quiesced station: still quiesced, nothing reaches the channel, and the table can
only lose entries -/
theorem quiet_step (Q : SParams) (c : Cfg) (st : Station) (hq : Quiesced st) (e : SOp) (he : e.quiet = true) :
    Quiesced (sstep Q c st e) ∧ (sstep Q c st e).log = st.log ∧
    ((sstep Q c st e).sys.det = st.sys.det ∨ ∃ now, (sstep Q c st e).sys.det = CJ.Detector.dropStale now st.sys.det) := by
  obtain ⟨h1, h2⟩ := hq
  have same : ∀ st', st' = st → Quiesced st' ∧ st'.log = st.log ∧
      (st'.sys.det = st.sys.det ∨ ∃ now, st'.sys.det = CJ.Detector.dropStale now st.sys.det) := by
    intro st' h; subst h; exact ⟨⟨h1, h2⟩, rfl, Or.inl rfl⟩
  cases e with
  | op o =>
    cases o with
    | markActive k tr now => simp [SOp.quiet] at he
    | track k tr now => exact same _ (by simp [sstep, h1, HOp.viaPipeline])
    | register k tr now => exact same _ (by simp [sstep, h1, HOp.viaPipeline])
    | ingest k tr now p => exact same _ (by simp [sstep, h1, HOp.viaPipeline])
    | sweep now =>
      have hst : sstep Q c st (.op (.sweep now)) = regEvent Q c st (.sweep now) := by
        simp [sstep, HOp.viaPipeline]
      rw [hst]
      have hc := regEvent_ctl Q c st (.sweep now)
      have hs := regEvent_silent Q c st (.sweep now) (by simp only [emitted])
      exact ⟨⟨hc.2.1.trans h1, hc.1.trans h2⟩, hs.1, hs.2⟩
    | dsweep now =>
      have hst : sstep Q c st (.op (.dsweep now)) = regEvent Q c st (.dsweep now) := by
        simp [sstep, HOp.viaPipeline]
      rw [hst]
      have hc := regEvent_ctl Q c st (.dsweep now)
      have hs := regEvent_silent Q c st (.dsweep now) rfl
      exact ⟨⟨hc.2.1.trans h1, hc.1.trans h2⟩, hs.1, hs.2⟩
  | begin k tr now => exact same _ (by simp [sstep, h1])
  | finish k now passes => exact same _ (by simp [sstep, h2])
  | stop now outcomes =>
    have hst : ({ st with stopped := true } : Station) = st := by cases st; simp_all
    refine same _ ?_
    simp only [sstep]
    rw [hst]
    split
    · exact completeAll_nil Q c now st outcomes h2
    · rfl
  | cleanup now => simp [SOp.quiet] at he
  | chanUp => exact ⟨⟨h1, h2⟩, rfl, Or.inl rfl⟩
  | chanDown => exact ⟨⟨h1, h2⟩, rfl, Or.inl rfl⟩

theorem quiet_run (Q : SParams) (c : Cfg) (post : List SOp) (hp : ∀ e ∈ post, e.quiet = true)
    (st : Station) (hq : Quiesced st) (hd : st.sys.det = []) :
    (srun Q c post st).log = st.log ∧ (srun Q c post st).sys.det = [] := by
  induction post generalizing st with
  | nil => exact ⟨rfl, hd⟩
  | cons e es ih =>
    simp only [srun, List.foldl_cons]
    obtain ⟨q', hl, hdet⟩ := quiet_step Q c st hq e (hp e (List.mem_cons_self ..))
    have hd' : (sstep Q c st e).sys.det = [] := by
      rcases hdet with h | ⟨now, h⟩
      · rw [h, hd]
      · rw [h, hd]; rfl
    have := ih (fun e' he' => hp e' (List.mem_cons_of_mem _ he')) (sstep Q c st e) q' hd'
    simp only [srun] at this
    exact ⟨this.1.trans hl, this.2⟩

theorem srun_append (Q : SParams) (c : Cfg) (a b : List SOp) (st : Station) :
    srun Q c (a ++ b) st = srun Q c b (srun Q c a st) := by
  simp [srun, List.foldl_append]

end CJ.Announce
