import CJ.Lemmas.RegistryBuckets
/-!
# World-level lemmas for C09: threads, schedules and the event trace

What a single thread step does to validity and which events it emits; lifted to invariants of
`World.run` over all thread lists and schedules.
-/
open Std

namespace CJ.RegistryConc
open CJ.Registry

/-! ### single operations and validity -/

theorem track_valid (c : Cfg) (s : St) (k0 k : Key) (tr now : Nat) :
    validIn (track c s k0 tr now).1 k ↔ validIn s k := by
  unfold validIn
  rw [track_decoys_get]
  by_cases e : k0 = k ∧ c.enabled.contains tr = true
  · obtain ⟨rfl, he⟩ := e
    simp only [he, and_self, if_true]
    cases hd : s.decoys[k0]? with
    | none => simp
    | some r => simp
  · simp only [e, if_false]

theorem markActive_valid (c : Cfg) (s : St) (k0 k : Key) (tr : Nat) :
    validIn (markActive c s k0 tr).1 k ↔ validIn s k := by
  unfold validIn; rw [markActive_decoys]

theorem register_valid_of_valid (c : Cfg) (s : St) (k0 k : Key) (tr now : Nat) (h : validIn s k) :
    validIn (register c s k0 tr now).1 k := by
  rcases valid_persists c s (.register k0 tr now) k h with h' | h'
  · exact h'
  · exfalso
    have : (register c s k0 tr now).1.decoys[k]? = none := h'
    rw [register_decoys_get] at this
    obtain ⟨r, hr, _⟩ := h
    by_cases e : k0 = k ∧ c.enabled.contains tr = true
    · obtain ⟨rfl, he⟩ := e
      simp only [he, and_self, if_true, hr] at this
      cases this
    · simp only [e, if_false] at this
      rw [hr] at this; cases this

/-- validity of another key is not created by `register k0` -/
theorem register_valid_other (c : Cfg) (s : St) (k0 k : Key) (tr now : Nat) (hne : k0 ≠ k)
    (h : validIn (register c s k0 tr now).1 k) : validIn s k := by
  unfold validIn at h ⊢
  rw [register_decoys_get] at h
  simpa [hne] using h

theorem remove_valid (c : Cfg) (now : Nat) (s : St) (k0 k : Key) (h : validIn (remove c now s k0).1 k) :
    validIn s k := by
  obtain ⟨r, hr, hv⟩ := h
  rcases remove_decoys_get c now s k0 k with h1 | h1
  · exact ⟨r, by rw [← h1]; exact hr, hv⟩
  · rw [h1] at hr; cases hr

/-! ### one thread step: events and validity -/

/-- a thread step emits at most one event -/
theorem stepThread_ev_shape (c : Cfg) (s : St) (t : Th) (s' : St) (t' : Th) (ev : List Ev)
    (h : stepThread c s t = some (s', t', ev)) : ev = [] ∨ ∃ e, ev = [e] := by
  cases t with
  | ingest k tr now cov probe live pc =>
    cases pc with
    | start =>
      simp only [stepThread] at h
      split at h <;> (simp only [Option.some.injEq, Prod.mk.injEq] at h; exact Or.inl h.2.2.symm)
    | afterExists dup =>
      cases dup <;> (simp only [stepThread, Option.some.injEq, Prod.mk.injEq] at h; exact Or.inl h.2.2.symm)
    | afterTrack =>
      simp only [stepThread] at h
      split at h
      · simp only [Option.some.injEq, Prod.mk.injEq] at h; exact Or.inl h.2.2.symm
      · split at h <;> (simp only [Option.some.injEq, Prod.mk.injEq] at h; exact Or.inl h.2.2.symm)
    | probing =>
      simp only [stepThread] at h
      split at h <;> (simp only [Option.some.injEq, Prod.mk.injEq] at h; exact Or.inl h.2.2.symm)
    | beforeRegister =>
      simp only [stepThread, Option.some.injEq, Prod.mk.injEq] at h
      obtain ⟨_, _, h3⟩ := h
      split at h3
      · exact Or.inr ⟨_, h3.symm⟩
      · exact Or.inl h3.symm
    | done => simp [stepThread] at h
  | sweeper now order pc =>
    cases pc with
    | start =>
      simp only [stepThread] at h
      split at h <;> (simp only [Option.some.injEq, Prod.mk.injEq] at h; exact Or.inl h.2.2.symm)
    | removing ks =>
      cases ks with
      | nil => simp only [stepThread, Option.some.injEq, Prod.mk.injEq] at h; exact Or.inl h.2.2.symm
      | cons k ks =>
        simp only [stepThread, Option.some.injEq, Prod.mk.injEq] at h
        obtain ⟨_, _, h3⟩ := h
        split at h3
        · exact Or.inr ⟨_, h3.symm⟩
        · exact Or.inl h3.symm
    | done => simp [stepThread] at h
  | handler k tr pc =>
    cases pc with
    | start => simp only [stepThread, Option.some.injEq, Prod.mk.injEq] at h; exact Or.inr ⟨_, h.2.2.symm⟩
    | looked f =>
      cases f with
      | true =>
        simp only [stepThread, Option.some.injEq, Prod.mk.injEq] at h
        obtain ⟨_, _, h3⟩ := h
        split at h3
        · exact Or.inr ⟨_, h3.symm⟩
        · exact Or.inl h3.symm
      | false => simp only [stepThread, Option.some.injEq, Prod.mk.injEq] at h; exact Or.inl h.2.2.symm
    | done => simp [stepThread] at h
  | reload dn =>
    cases dn with
    | false => simp only [stepThread, Option.some.injEq, Prod.mk.injEq] at h; exact Or.inl h.2.2.symm
    | true => simp [stepThread] at h

/-- what one thread step does, as far as validity and announcement events are concerned -/
structure StepFacts (c : Cfg) (s : St) (t : Th) (s' : St) (t' : Th) (ev : List Ev) : Prop where
  /-- a valid registration stays valid unless this very step removed it and said so -/
  keeps : ∀ k, validIn s k → validIn s' k ∨ ∃ v, ev = [Ev.removed k v]
  /-- `new` is announced for a registration that was not valid and now is -/
  ann : ∀ k, Ev.annNew k ∈ ev → ¬ validIn s k ∧ validIn s' k
  /-- validity appears only in the validate step of a worker for that registration -/
  fresh : ∀ k, ¬ validIn s k → validIn s' k →
    ∃ tr now cov probe live, t = .ingest k tr now cov probe live .beforeRegister ∧
      t' = .ingest k tr now cov probe live .done
  /-- a successful lookup event is emitted only for a valid registration -/
  look : ∀ k, Ev.looked k true ∈ ev → validIn s k

theorem stepFacts_same (c : Cfg) (s : St) (t t' : Th) (ev : List Ev)
    (hev : ∀ k, Ev.annNew k ∉ ev) (hl : ∀ k, Ev.looked k true ∈ ev → validIn s k) :
    StepFacts c s t s t' ev :=
  ⟨fun _ h => Or.inl h, fun k hk => absurd hk (hev k), fun _ h1 h2 => absurd h2 h1, hl⟩

theorem stepThread_facts (c : Cfg) (s : St) (t : Th) (s' : St) (t' : Th) (ev : List Ev)
    (h : stepThread c s t = some (s', t', ev)) : StepFacts c s t s' t' ev := by
  cases t with
  | ingest k0 tr now cov probe live pc =>
    cases pc with
    | start =>
      simp only [stepThread] at h
      split at h <;>
      · simp only [Option.some.injEq, Prod.mk.injEq] at h
        obtain ⟨rfl, _, rfl⟩ := h
        exact stepFacts_same c s _ _ [] (by simp) (by simp)
    | afterExists dup =>
      have key : s' = (track c s k0 tr now).1 ∧ ev = [] := by
        cases dup <;> (simp only [stepThread, Option.some.injEq, Prod.mk.injEq] at h; exact ⟨h.1.symm, h.2.2.symm⟩)
      obtain ⟨rfl, rfl⟩ := key
      exact ⟨fun k hk => Or.inl ((track_valid c s k0 k tr now).mpr hk), by simp,
        fun k h1 h2 => absurd ((track_valid c s k0 k tr now).mp h2) h1, by simp⟩
    | afterTrack =>
      simp only [stepThread] at h
      split at h
      · simp only [Option.some.injEq, Prod.mk.injEq] at h
        obtain ⟨rfl, _, rfl⟩ := h
        exact stepFacts_same c s _ _ [] (by simp) (by simp)
      · split at h <;>
        · simp only [Option.some.injEq, Prod.mk.injEq] at h
          obtain ⟨rfl, _, rfl⟩ := h
          exact stepFacts_same c s _ _ [] (by simp) (by simp)
    | probing =>
      simp only [stepThread] at h
      split at h <;>
      · simp only [Option.some.injEq, Prod.mk.injEq] at h
        obtain ⟨rfl, _, rfl⟩ := h
        exact stepFacts_same c s _ _ [] (by simp) (by simp)
    | beforeRegister =>
      simp only [stepThread, Option.some.injEq, Prod.mk.injEq] at h
      obtain ⟨rfl, rfl, h3⟩ := h
      refine ⟨fun k hk => Or.inl (register_valid_of_valid c s k0 k tr now hk), ?_, ?_, ?_⟩
      · intro k hk
        split at h3
        · rename_i hnew
          subst h3
          simp only [List.mem_singleton, Ev.annNew.injEq] at hk
          subst hk
          exact ⟨register_new_not_valid c s k tr now hnew, register_new_valid c s k tr now hnew⟩
        · subst h3; simp at hk
      · intro k h1 h2
        by_cases e : k0 = k
        · subst e; exact ⟨tr, now, cov, probe, live, rfl, rfl⟩
        · exact absurd (register_valid_other c s k0 k tr now e h2) h1
      · intro k hk
        split at h3 <;> (subst h3; simp at hk)
    | done => simp [stepThread] at h
  | sweeper now order pc =>
    cases pc with
    | start =>
      simp only [stepThread] at h
      split at h <;>
      · simp only [Option.some.injEq, Prod.mk.injEq] at h
        obtain ⟨rfl, _, rfl⟩ := h
        exact stepFacts_same c s _ _ [] (by simp) (by simp)
    | removing ks =>
      cases ks with
      | nil =>
        simp only [stepThread, Option.some.injEq, Prod.mk.injEq] at h
        obtain ⟨rfl, _, rfl⟩ := h
        exact stepFacts_same c s _ _ [] (by simp) (by simp)
      | cons k0 ks =>
        simp only [stepThread, Option.some.injEq, Prod.mk.injEq] at h
        obtain ⟨rfl, _, h3⟩ := h
        refine ⟨?_, ?_, ?_, ?_⟩
        · intro k hk
          rcases remove_cases c now s k0 with ⟨h1, h2⟩ | ⟨r0, hr0, h1, h2⟩
          · left; rw [h1]; exact hk
          · by_cases e : k0 = k
            · subst e
              right
              rw [h2] at h3
              exact ⟨r0.valid, h3.symm⟩
            · left
              obtain ⟨r, hr, hv⟩ := hk
              refine ⟨r, ?_, hv⟩
              rw [h1, HashMap.getElem?_erase]
              have : ¬ (k0 == k) = true := by simpa using e
              simp [this, hr]
        · intro k hk
          split at h3 <;> (subst h3; simp at hk)
        · intro k h1 h2
          exact absurd (remove_valid c now s k0 k h2) h1
        · intro k hk
          split at h3 <;> (subst h3; simp at hk)
    | done => simp [stepThread] at h
  | handler k0 tr pc =>
    cases pc with
    | start =>
      simp only [stepThread, Option.some.injEq, Prod.mk.injEq] at h
      obtain ⟨rfl, _, rfl⟩ := h
      refine stepFacts_same c s _ _ _ (by simp) ?_
      intro k hk
      simp only [List.mem_singleton, Ev.looked.injEq] at hk
      obtain ⟨rfl, hf⟩ := hk
      have hm : k.2 ∈ lookup s k.1 := by
        have := hf.symm
        simpa using this
      unfold lookup at hm
      simp only [List.mem_map, List.mem_filter] at hm
      obtain ⟨⟨⟨p', i'⟩, r⟩, ⟨hmem, hflt⟩, hi⟩ := hm
      simp only [Bool.and_eq_true, beq_iff_eq] at hflt
      obtain ⟨hp, hv⟩ := hflt
      simp only at hi hp
      have hk0 : k = (p', i') := Prod.ext hp.symm hi.symm
      exact ⟨r, by rw [hk0]; exact HashMap.mem_toList_iff_getElem?_eq_some.mp hmem, hv⟩
    | looked f =>
      cases f with
      | true =>
        simp only [stepThread, Option.some.injEq, Prod.mk.injEq] at h
        obtain ⟨rfl, _, h3⟩ := h
        refine ⟨fun k hk => Or.inl ((markActive_valid c s k0 k tr).mpr hk), ?_,
          fun k h1 h2 => absurd ((markActive_valid c s k0 k tr).mp h2) h1, ?_⟩
        · intro k hk; split at h3 <;> (subst h3; simp at hk)
        · intro k hk; split at h3 <;> (subst h3; simp at hk)
      | false =>
        simp only [stepThread, Option.some.injEq, Prod.mk.injEq] at h
        obtain ⟨rfl, _, rfl⟩ := h
        exact stepFacts_same c s _ _ [] (by simp) (by simp)
    | done => simp [stepThread] at h
  | reload dn =>
    cases dn with
    | false =>
      simp only [stepThread, Option.some.injEq, Prod.mk.injEq] at h
      obtain ⟨rfl, _, rfl⟩ := h
      exact stepFacts_same c s _ _ [] (by simp) (by simp)
    | true => simp [stepThread] at h

/-! ### the announcement discipline on event traces -/

/-- state of the announce-once check for `k` along a trace: (currently announced and not removed
since, no violation so far) -/
def annStep (k : Key) (acc : Bool × Bool) : Ev → Bool × Bool
  | .annNew k' => if k' = k then (true, acc.2 && !acc.1) else acc
  | .removed k' _ => if k' = k then (false, acc.2) else acc
  | _ => acc

def annSt (k : Key) (evs : List Ev) : Bool × Bool := evs.foldl (annStep k) (false, true)

/-- `k` is announced as new at most once between two removals of `k` (and at most once before the
first removal) -/
def announcedOncePerLifetime (k : Key) (evs : List Ev) : Prop := (annSt k evs).2 = true

theorem annSt_append (k : Key) (evs ev : List Ev) :
    annSt k (evs ++ ev) = ev.foldl (annStep k) (annSt k evs) := by
  simp [annSt, List.foldl_append]

/-! ### program counters carry what was decided -/

/-- a worker that has reached the probe passed the covert policy and needs a probe; one that has
reached (or passed) validation passed the policy and, if it needed a probe, was told "not live" -/
def PCok : Th → Prop
  | .ingest _ _ _ cov probe _ .probing => cov = true ∧ probe = true
  | .ingest _ _ _ cov probe live .beforeRegister => cov = true ∧ (probe = true → live = false)
  | _ => True

def Th.atStart : Th → Bool
  | .ingest _ _ _ _ _ _ .start => true
  | .sweeper _ _ .start => true
  | .handler _ _ .start => true
  | .reload false => true
  | _ => false

theorem pcok_of_atStart (t : Th) (h : t.atStart = true) : PCok t := by
  cases t with
  | ingest k tr now cov probe live pc => cases pc <;> simp_all [Th.atStart, PCok]
  | sweeper now order pc => simp [PCok]
  | handler k tr pc => simp [PCok]
  | reload dn => simp [PCok]

theorem stepThread_pcok (c : Cfg) (s : St) (t : Th) (s' : St) (t' : Th) (ev : List Ev)
    (h : stepThread c s t = some (s', t', ev)) (hp : PCok t) : PCok t' := by
  cases t with
  | ingest k tr now cov probe live pc =>
    cases pc with
    | start =>
      simp only [stepThread] at h
      split at h <;> (simp only [Option.some.injEq, Prod.mk.injEq] at h; obtain ⟨_, rfl, _⟩ := h; simp [PCok])
    | afterExists dup =>
      cases dup <;> (simp only [stepThread, Option.some.injEq, Prod.mk.injEq] at h; obtain ⟨_, rfl, _⟩ := h) <;>
        (try cases s.decoys.contains k) <;> simp [PCok]
    | afterTrack =>
      simp only [stepThread] at h
      split at h
      · simp only [Option.some.injEq, Prod.mk.injEq] at h; obtain ⟨_, rfl, _⟩ := h; simp [PCok]
      · rename_i hcov
        split at h
        · rename_i hpr
          simp only [Option.some.injEq, Prod.mk.injEq] at h; obtain ⟨_, rfl, _⟩ := h
          simp only [PCok]; exact ⟨by simpa using hcov, hpr⟩
        · rename_i hpr
          simp only [Option.some.injEq, Prod.mk.injEq] at h; obtain ⟨_, rfl, _⟩ := h
          simp only [PCok]; exact ⟨by simpa using hcov, fun hp' => absurd hp' hpr⟩
    | probing =>
      simp only [stepThread] at h
      split at h
      · simp only [Option.some.injEq, Prod.mk.injEq] at h; obtain ⟨_, rfl, _⟩ := h; simp [PCok]
      · rename_i hl
        simp only [Option.some.injEq, Prod.mk.injEq] at h; obtain ⟨_, rfl, _⟩ := h
        simp only [PCok] at hp ⊢
        exact ⟨hp.1, fun _ => by simpa using hl⟩
    | beforeRegister =>
      simp only [stepThread, Option.some.injEq, Prod.mk.injEq] at h; obtain ⟨_, rfl, _⟩ := h; simp [PCok]
    | done => simp [stepThread] at h
  | sweeper now order pc =>
    cases pc with
    | start =>
      simp only [stepThread] at h
      split at h <;> (simp only [Option.some.injEq, Prod.mk.injEq] at h; obtain ⟨_, rfl, _⟩ := h; simp [PCok])
    | removing ks =>
      cases ks with
      | nil => simp only [stepThread, Option.some.injEq, Prod.mk.injEq] at h; obtain ⟨_, rfl, _⟩ := h; simp [PCok]
      | cons k ks => simp only [stepThread, Option.some.injEq, Prod.mk.injEq] at h; obtain ⟨_, rfl, _⟩ := h; simp [PCok]
    | done => simp [stepThread] at h
  | handler k tr pc =>
    cases pc with
    | start => simp only [stepThread, Option.some.injEq, Prod.mk.injEq] at h; obtain ⟨_, rfl, _⟩ := h; simp [PCok]
    | looked f =>
      cases f <;> (simp only [stepThread, Option.some.injEq, Prod.mk.injEq] at h; obtain ⟨_, rfl, _⟩ := h; simp [PCok])
    | done => simp [stepThread] at h
  | reload dn =>
    cases dn with
    | false => simp only [stepThread, Option.some.injEq, Prod.mk.injEq] at h; obtain ⟨_, rfl, _⟩ := h; simp [PCok]
    | true => simp [stepThread] at h

theorem pcok_applyPolicy (b : Bool) (t : Th) (h : PCok t) : PCok (applyPolicy b t) := by
  cases t with
  | ingest k tr now cov probe live pc => cases pc <;> simp_all [applyPolicy, PCok]
  | sweeper now order pc => exact h
  | handler k tr pc => exact h
  | reload dn => exact h

/-- the policy substitution only touches a worker that is about to read the policy -/
theorem applyPolicy_eq_of_not_afterTrack (b : Bool) (t : Th)
    (h : ∀ k tr now cov probe live, t ≠ .ingest k tr now cov probe live .afterTrack) : applyPolicy b t = t := by
  cases t with
  | ingest k tr now cov probe live pc =>
    cases pc <;> first | rfl | exact absurd rfl (h k tr now cov probe live)
  | sweeper now order pc => rfl
  | handler k tr pc => rfl
  | reload dn => rfl

theorem applyPolicy_beforeRegister (b : Bool) (t : Th) (k : Key) (tr now : Nat) (cov probe live : Bool)
    (h : applyPolicy b t = .ingest k tr now cov probe live .beforeRegister) :
    t = .ingest k tr now cov probe live .beforeRegister := by
  cases t with
  | ingest k' tr' now' cov' probe' live' pc =>
    cases pc <;> simp_all [applyPolicy]
  | sweeper now order pc => simp [applyPolicy] at h
  | handler k tr pc => simp [applyPolicy] at h
  | reload dn => simp [applyPolicy] at h

/-- a worker for `k` that has executed its validate step, having passed policy and liveness -/
def Validator (k : Key) (t : Th) : Prop :=
  ∃ tr now probe live, t = .ingest k tr now true probe live .done ∧ (probe = true → live = false)

theorem stepThread_done_none (c : Cfg) (s : St) (k : Key) (t : Th) (b : Bool) (h : Validator k t) :
    stepThread c s (applyPolicy b t) = none := by
  obtain ⟨tr, now, probe, live, rfl, _⟩ := h
  simp [stepThread, applyPolicy]

/-! ### the world invariant -/

structure WInv (c : Cfg) (w : World) : Prop where
  pcok : ∀ t ∈ w.ths, PCok t
  /-- announce-once has not been violated, and what is announced and not removed is valid -/
  annOk : ∀ k, (annSt k w.evs).2 = true ∧ ((annSt k w.evs).1 = true → validIn w.st k)
  /-- every valid registration has a worker that validated it -/
  validator : ∀ k, validIn w.st k → ∃ (j : Nat) (t : Th), w.ths[j]? = some t ∧ Validator k t
  /-- every successful lookup in the trace has one too -/
  looked : ∀ k, Ev.looked k true ∈ w.evs → ∃ (j : Nat) (t : Th), w.ths[j]? = some t ∧ Validator k t

theorem winv_init (c : Cfg) (ths : List Th) (h : ∀ t ∈ ths, t.atStart = true) :
    WInv c { st := init, ths := ths } := by
  refine ⟨fun t ht => pcok_of_atStart t (h t ht), ?_, ?_, ?_⟩
  · intro k; simp [annSt]
  · rintro k ⟨r, hr, _⟩; simp [init] at hr
  · intro k hk; simp at hk

theorem winv_step (c : Cfg) (w : World) (i : Nat) (hw : WInv c w) : WInv c (w.step c i) := by
  unfold World.step
  split
  · exact ⟨hw.pcok, hw.annOk, hw.validator, hw.looked⟩
  · rename_i t hti
    split
    · exact ⟨hw.pcok, hw.annOk, hw.validator, hw.looked⟩
    · rename_i s' t' ev hs
      have hf := stepThread_facts c w.st _ s' t' ev hs
      have hshape := stepThread_ev_shape c w.st _ s' t' ev hs
      have hmem : t ∈ w.ths := List.mem_of_getElem? hti
      have hilt : i < w.ths.length := by
        rcases Nat.lt_or_ge i w.ths.length with h | h
        · exact h
        · rw [List.getElem?_eq_none h] at hti; cases hti
      -- a witness thread survives the step: it is finished, so it is not the thread that moved
      have keepW : ∀ k, (∃ (j : Nat) (u : Th), w.ths[j]? = some u ∧ Validator k u) →
          ∃ (j : Nat) (u : Th), (w.ths.set i t')[j]? = some u ∧ Validator k u := by
        rintro k ⟨j, u, hj, hv⟩
        by_cases e : i = j
        · subst e
          rw [hti] at hj; cases hj
          rw [stepThread_done_none c w.st k t _ hv] at hs; cases hs
        · exact ⟨j, u, by rw [List.getElem?_set_ne e]; exact hj, hv⟩
      refine ⟨?_, ?_, ?_, ?_⟩
      · intro u hu
        rcases List.mem_or_eq_of_mem_set hu with h | h
        · exact hw.pcok u h
        · rw [h]; exact stepThread_pcok c w.st _ s' t' ev hs (pcok_applyPolicy _ t (hw.pcok t hmem))
      · intro k
        obtain ⟨hok, hopen⟩ := hw.annOk k
        show (annSt k (w.evs ++ ev)).2 = true ∧ ((annSt k (w.evs ++ ev)).1 = true → validIn s' k)
        rw [annSt_append]
        rcases hshape with rfl | ⟨e, rfl⟩
        · simp only [List.foldl_nil]
          refine ⟨hok, fun ho => ?_⟩
          rcases hf.keeps k (hopen ho) with h | ⟨v, h⟩
          · exact h
          · cases h
        · simp only [List.foldl_cons, List.foldl_nil]
          cases e with
          | annNew k' =>
            by_cases ek : k' = k
            · subst ek
              obtain ⟨hnv, hv⟩ := hf.ann k' (by simp)
              have hclosed : (annSt k' w.evs).1 = false := by
                cases ho : (annSt k' w.evs).1 with
                | false => rfl
                | true => exact absurd (hopen ho) hnv
              simp only [annStep, if_true, hclosed, hok, Bool.not_false, Bool.and_self, true_and]
              exact fun _ => hv
            · simp only [annStep, ek, if_false]
              refine ⟨hok, fun ho => ?_⟩
              rcases hf.keeps k (hopen ho) with h | ⟨v, h⟩
              · exact h
              · cases h
          | removed k' v =>
            by_cases ek : k' = k
            · subst ek
              simp only [annStep, if_true, hok, true_and]
              intro h; cases h
            · simp only [annStep, ek, if_false]
              refine ⟨hok, fun ho => ?_⟩
              rcases hf.keeps k (hopen ho) with h | ⟨v', h⟩
              · exact h
              · simp only [List.cons.injEq, Ev.removed.injEq, and_true] at h
                exact absurd h.1 ek
          | annUpd k' =>
            simp only [annStep]
            refine ⟨hok, fun ho => ?_⟩
            rcases hf.keeps k (hopen ho) with h | ⟨v, h⟩
            · exact h
            · cases h
          | looked k' f =>
            simp only [annStep]
            refine ⟨hok, fun ho => ?_⟩
            rcases hf.keeps k (hopen ho) with h | ⟨v, h⟩
            · exact h
            · cases h
          | badOrder =>
            simp only [annStep]
            refine ⟨hok, fun ho => ?_⟩
            rcases hf.keeps k (hopen ho) with h | ⟨v, h⟩
            · exact h
            · cases h
      · intro k hk
        show ∃ (j : Nat) (u : Th), (w.ths.set i t')[j]? = some u ∧ Validator k u
        by_cases hbefore : validIn w.st k
        · exact keepW k (hw.validator k hbefore)
        · obtain ⟨tr, now, cov, probe, live, ht0, ht'⟩ := hf.fresh k hbefore hk
          have ht := applyPolicy_beforeRegister _ t k tr now cov probe live ht0
          have hp := hw.pcok t hmem
          rw [ht] at hp
          simp only [PCok] at hp
          refine ⟨i, t', by rw [List.getElem?_set_self hilt], tr, now, probe, live, ?_, hp.2⟩
          rw [ht', hp.1]
      · intro k hk
        show ∃ (j : Nat) (u : Th), (w.ths.set i t')[j]? = some u ∧ Validator k u
        have hk' : Ev.looked k true ∈ w.evs ++ ev := hk
        rcases List.mem_append.mp hk' with h | h
        · exact keepW k (hw.looked k h)
        · exact keepW k (hw.validator k (hf.look k h))

theorem winv_run (c : Cfg) (w : World) (sched : List Nat) (hw : WInv c w) : WInv c (w.run c sched) := by
  unfold World.run
  induction sched generalizing w with
  | nil => exact hw
  | cons i sched ih => exact ih _ (winv_step c w i hw)

end CJ.RegistryConc
