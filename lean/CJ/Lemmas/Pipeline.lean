import CJ.Model.Pipeline
/-! Helper lemmas for the ingest pipeline model: conservation of messages, shutdown measure. -/
namespace CJ.Pipeline

def wW : Worker → Nat
  | .exited => 0 | .idle => 1 | .busy => 2

def wSum (ws : List Worker) : Nat := (ws.map wW).sum

def wD : Dist → Nat
  | .loop => 2 | .waiting => 1 | .done => 0

/-- shutdown measure: bounds the number of state-changing actions after cancellation -/
def mu (s : St) : Nat := wD s.dist + 2 * s.buf + wSum s.workers

theorem wSum_set (ws : List Worker) (i : Nat) (w w' : Worker) (h : ws[i]? = some w) :
    wSum (ws.set i w') + wW w = wSum ws + wW w' := by
  induction ws generalizing i with
  | nil => simp at h
  | cons a ws ih =>
    cases i with
    | zero =>
      simp at h; subst h
      simp [wSum]; omega
    | succ i =>
      simp at h
      have := ih i h
      simp [wSum] at this ⊢; omega

theorem busyCount_set (ws : List Worker) (i : Nat) (w w' : Worker) (h : ws[i]? = some w) :
    busyCount (ws.set i w') + (if w = .busy then 1 else 0) = busyCount ws + (if w' = .busy then 1 else 0) := by
  induction ws generalizing i with
  | nil => simp at h
  | cons a ws ih =>
    cases i with
    | zero =>
      simp at h; subst h
      simp only [List.set_cons_zero, busyCount, List.filter_cons]
      cases a <;> cases w' <;> simp
    | succ i =>
      simp at h
      have := ih i h
      simp only [List.set_cons_succ, busyCount, List.filter_cons] at this ⊢
      cases a <;> simp at this ⊢ <;> omega

theorem idleWorker_some (ws : List Worker) (i : Nat) (h : idleWorker ws = some i) : ws[i]? = some .idle := by
  unfold idleWorker at h
  have := List.findIdx?_eq_some_iff_getElem.mp h
  obtain ⟨hlt, hp, _⟩ := this
  have : ws[i] = .idle := by simpa using hp
  rw [List.getElem?_eq_getElem hlt, this]

/-- conservation invariant -/
def Cons (s : St) : Prop :=
  s.received = s.forwarded + s.dropped ∧ s.forwarded = s.processed + s.rejected + s.buf + busyCount s.workers

theorem cons_init (cap n : Nat) : Cons (init cap n) := by
  unfold Cons init busyCount
  simp

theorem cons_step (s : St) (a : Act) (h : Cons s) : Cons (step s a) := by
  obtain ⟨h1, h2⟩ := h
  cases a with
  | cancel => exact ⟨h1, h2⟩
  | dist input =>
    simp only [step]
    split
    · split
      · exact ⟨h1, h2⟩
      · split
        · exact ⟨h1, h2⟩
        · split
          · rename_i i hi
            have hb : s.buf = 0 := by
              by_cases hb : s.buf = 0
              · exact hb
              · simp [hb] at hi
            simp only [hb, if_true] at hi
            have := busyCount_set s.workers i .idle .busy (idleWorker_some _ _ hi)
            simp at this
            refine ⟨by simp only; omega, by simp only; omega⟩
          · split
            · refine ⟨by simp only; omega, by simp only; omega⟩
            · refine ⟨by simp only; omega, by simp only; omega⟩
    · split <;> exact ⟨h1, h2⟩
    · exact ⟨h1, h2⟩
  | take i =>
    simp only [step]
    split
    · rename_i hw
      split
      · have := busyCount_set s.workers i .idle .busy hw
        simp at this
        refine ⟨by simp only; omega, by simp only; omega⟩
      · exact ⟨h1, h2⟩
    · exact ⟨h1, h2⟩
  | exit i =>
    simp only [step]
    split
    · rename_i hw
      split
      · have := busyCount_set s.workers i .idle .exited hw
        simp at this
        refine ⟨by simp only; omega, by simp only; omega⟩
      · exact ⟨h1, h2⟩
    · exact ⟨h1, h2⟩
  | finish i =>
    simp only [step]
    split
    · rename_i hw
      have := busyCount_set s.workers i .busy .idle hw
      simp at this
      refine ⟨by simp only; omega, by simp only; omega⟩
    · exact ⟨h1, h2⟩
  | bad i =>
    simp only [step]
    split
    · rename_i hw
      have := busyCount_set s.workers i .busy .idle hw
      simp at this
      refine ⟨by simp only; omega, by simp only; omega⟩
    · exact ⟨h1, h2⟩

theorem cons_run (s : St) (acts : List Act) (h : Cons s) : Cons (run s acts) := by
  unfold run
  induction acts generalizing s with
  | nil => exact h
  | cons a acts ih => exact ih _ (cons_step s a h)

theorem cancelled_step (s : St) (a : Act) (h : s.cancelled = true) : (step s a).cancelled = true := by
  cases a with
  | cancel => rfl
  | dist input =>
    simp only [step]
    split
    · simp [h]
    · split <;> exact h
    · exact h
  | take i => simp only [step]; split <;> (try split) <;> exact h
  | exit i => simp only [step]; split <;> (try split) <;> exact h
  | finish i => simp only [step]; split <;> exact h
  | bad i => simp only [step]; split <;> exact h

/-- after cancellation every action either leaves the state unchanged or strictly decreases `mu` -/
theorem mu_step (s : St) (a : Act) (h : s.cancelled = true) : step s a = s ∨ mu (step s a) < mu s := by
  cases a with
  | cancel => left; cases s; simp_all [step]
  | dist input =>
    simp only [step]
    split
    · rename_i hd
      right; simp [h, mu, hd, wD]
    · rename_i hd
      split
      · right; simp [mu, hd, wD]
      · left; rfl
    · left; rfl
  | take i =>
    simp only [step]
    split
    · rename_i hw
      split
      · rename_i hb
        right
        have := wSum_set s.workers i .idle .busy hw
        simp [wW] at this
        simp only [mu]; omega
      · left; rfl
    · left; rfl
  | exit i =>
    simp only [step]
    split
    · rename_i hw
      simp only [h, if_true]
      right
      have := wSum_set s.workers i .idle .exited hw
      simp [wW] at this
      simp only [mu]; omega
    · left; rfl
  | finish i =>
    simp only [step]
    split
    · rename_i hw
      right
      have := wSum_set s.workers i .busy .idle hw
      simp [wW] at this
      simp only [mu]; omega
    · left; rfl
  | bad i =>
    simp only [step]
    split
    · rename_i hw
      right
      have := wSum_set s.workers i .busy .idle hw
      simp [wW] at this
      simp only [mu]; omega
    · left; rfl

/-! ### workers leave the pool only after a stop request -/

theorem liveCount_set (ws : List Worker) (i : Nat) (w w' : Worker) (h : ws[i]? = some w) :
    liveCount (ws.set i w') + (if w = .exited then 0 else 1) = liveCount ws + (if w' = .exited then 0 else 1) := by
  induction ws generalizing i with
  | nil => simp at h
  | cons a ws ih =>
    cases i with
    | zero =>
      simp at h; subst h
      simp only [List.set_cons_zero, liveCount, List.filter_cons]
      cases a <;> cases w' <;> simp
    | succ i =>
      simp at h
      have := ih i h
      simp only [List.set_cons_succ, liveCount, List.filter_cons] at this ⊢
      cases a <;> simp at this ⊢ <;> omega

/-- no action other than a worker's Done branch — which needs the stop request — removes a worker -/
theorem liveCount_step (s : St) (a : Act) (h : s.cancelled = false) :
    liveCount (step s a).workers = liveCount s.workers := by
  cases a with
  | cancel => rfl
  | dist input =>
    simp only [step]
    split
    · simp only [h, Bool.false_eq_true, if_false]
      split
      · rfl
      · split
        · rename_i i hi
          have hb : s.buf = 0 := by
            by_cases hb : s.buf = 0
            · exact hb
            · simp [hb] at hi
          simp only [hb, if_true] at hi
          have := liveCount_set s.workers i .idle .busy (idleWorker_some _ _ hi)
          simp at this
          simp only; omega
        · split <;> rfl
    · split <;> rfl
    · rfl
  | take i =>
    simp only [step]
    split
    · rename_i hw
      split
      · have := liveCount_set s.workers i .idle .busy hw
        simp at this
        simp only; omega
      · rfl
    · rfl
  | exit i =>
    simp only [step]
    split
    · simp [h]
    · rfl
  | finish i =>
    simp only [step]
    split
    · rename_i hw
      have := liveCount_set s.workers i .busy .idle hw
      simp at this
      simp only; omega
    · rfl
  | bad i =>
    simp only [step]
    split
    · rename_i hw
      have := liveCount_set s.workers i .busy .idle hw
      simp at this
      simp only; omega
    · rfl

theorem cancelled_false_of_step (s : St) (a : Act) (h : (step s a).cancelled = false) : s.cancelled = false := by
  cases hc : s.cancelled with
  | false => rfl
  | true => rw [cancelled_step s a hc] at h; cases h

end CJ.Pipeline
