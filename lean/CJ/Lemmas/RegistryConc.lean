import CJ.Lemmas.Registry
import CJ.Model.RegistryConc
/-! Helper lemmas for C09: every step of a thread is at most one registry operation; validity and
counters change only through the intended operations. -/
open Std

namespace CJ.Registry

def validIn (s : St) (k : Key) : Prop := ∃ r, s.decoys[k]? = some r ∧ r.valid = true

/-- the decoys record at `k'` after `track` on `k` -/
theorem track_decoys_get (c : Cfg) (s : St) (k k' : Key) (tr now : Nat) :
    (track c s k tr now).1.decoys[k']? =
      if k = k' ∧ c.enabled.contains tr = true then
        (match s.decoys[k]? with
         | some r => some { r with regCount := r.regCount + 1 }
         | none => some ⟨tr, false, 1⟩)
      else s.decoys[k']? := by
  unfold track
  by_cases he : c.enabled.contains tr = true
  · simp only [he, Bool.not_true, Bool.false_eq_true, if_false, and_true]
    split
    · rename_i r hr
      by_cases e : k = k'
      · subst e; simp [hr]
      · have : ¬ (k == k') = true := by simpa using e
        simp [e, HashMap.getElem?_insert, this]
    · rename_i hr
      by_cases e : k = k'
      · subst e; simp [hr]
      · have : ¬ (k == k') = true := by simpa using e
        simp [e, HashMap.getElem?_insert, this]
  · have he' : ¬ tr ∈ c.enabled := by simpa using he
    simp [he']

theorem register_decoys_get (c : Cfg) (s : St) (k k' : Key) (tr now : Nat) :
    (register c s k tr now).1.decoys[k']? =
      if k = k' ∧ c.enabled.contains tr = true then
        (match s.decoys[k]? with
         | some r => some { r with valid := true }
         | none => some ⟨tr, true, 1⟩)
      else s.decoys[k']? := by
  unfold register
  by_cases he : c.enabled.contains tr = true
  · simp only [he, Bool.not_true, Bool.false_eq_true, if_false, and_true]
    split
    · rename_i r hr
      split
      · rename_i hv
        by_cases e : k = k'
        · subst e; simp only [if_true, hr]
          congr 1
          cases r; simp_all
        · simp [e]
      · by_cases e : k = k'
        · subst e; simp [hr]
        · have : ¬ (k == k') = true := by simpa using e
          simp [e, HashMap.getElem?_insert, this]
    · rename_i hr
      by_cases e : k = k'
      · subst e; simp [hr]
      · have : ¬ (k == k') = true := by simpa using e
        simp [e, HashMap.getElem?_insert, this]
  · have he' : ¬ tr ∈ c.enabled := by simpa using he
    simp [he']

theorem markActive_decoys (c : Cfg) (s : St) (k : Key) (tr : Nat) :
    (markActive c s k tr).1.decoys = s.decoys := by
  unfold markActive
  split
  · rfl
  · split <;> rfl

/-- `remove` either leaves the decoys map alone or erases exactly `k` -/
theorem remove_decoys (c : Cfg) (now : Nat) (s : St) (k : Key) :
    (remove c now s k).1.decoys = s.decoys ∨
      ((remove c now s k).1.decoys = s.decoys.erase k ∧
        ∃ t, s.timeouts[k]? = some t ∧ expired c now t = true) := by
  unfold remove
  split
  · exact Or.inl rfl
  · rename_i t ht
    split
    · rename_i he
      split
      · exact Or.inl rfl
      · exact Or.inr ⟨rfl, t, ht, he⟩
    · exact Or.inl rfl

theorem remove_decoys_get_ne (c : Cfg) (now : Nat) (s : St) (k k' : Key) (h : k ≠ k') :
    (remove c now s k).1.decoys[k']? = s.decoys[k']? := by
  rcases remove_decoys c now s k with h1 | ⟨h1, _⟩
  · rw [h1]
  · rw [h1, HashMap.getElem?_erase]
    have : ¬ (k == k') = true := by simpa using h
    simp [this]

/-- records at `k'` are only ever erased (never modified) by `remove` -/
theorem remove_decoys_get (c : Cfg) (now : Nat) (s : St) (k k' : Key) :
    (remove c now s k).1.decoys[k']? = s.decoys[k']? ∨ (remove c now s k).1.decoys[k']? = none := by
  rcases remove_decoys c now s k with h1 | ⟨h1, _⟩
  · rw [h1]; exact Or.inl rfl
  · rw [h1, HashMap.getElem?_erase]
    by_cases e : (k == k') = true
    · simp [e]
    · simp [e]

theorem removeAllS_decoys_get (c : Cfg) (now : Nat) (ks : List Key) (s : St) (k' : Key) :
    (removeAllS c now ks s).decoys[k']? = s.decoys[k']? ∨ (removeAllS c now ks s).decoys[k']? = none := by
  induction ks generalizing s with
  | nil => exact Or.inl rfl
  | cons a ks ih =>
    simp only [removeAllS, List.foldl_cons]
    rcases ih (remove c now s a).1 with h | h
    · simp only [removeAllS] at h
      rw [h]; exact remove_decoys_get c now s a k'
    · simp only [removeAllS] at h
      exact Or.inr h

theorem sweep_decoys_get (c : Cfg) (now : Nat) (s : St) (k' : Key) :
    (sweep c now s).1.decoys[k']? = s.decoys[k']? ∨ (sweep c now s).1.decoys[k']? = none := by
  rw [sweep_fst]; exact removeAllS_decoys_get c now _ s k'

/-- **Validity is monotone within a lifetime**: after any operation a valid registration is still
valid, unless it is no longer tracked at all. -/
theorem valid_persists (c : Cfg) (s : St) (op : Op) (k : Key) (h : validIn s k) :
    validIn (step c s op).1 k ∨ (step c s op).1.decoys[k]? = none := by
  obtain ⟨r, hr, hv⟩ := h
  cases op with
  | track k0 tr now =>
    left
    simp only [step]
    show validIn (track c s k0 tr now).1 k
    unfold validIn
    rw [track_decoys_get]
    by_cases e : k0 = k ∧ c.enabled.contains tr = true
    · obtain ⟨rfl, _⟩ := e
      simp only [*, and_self, if_true]
      exact ⟨_, rfl, rfl⟩
    · simp only [e, if_false]; exact ⟨r, hr, hv⟩
  | register k0 tr now =>
    left
    show validIn (register c s k0 tr now).1 k
    unfold validIn
    rw [register_decoys_get]
    by_cases e : k0 = k ∧ c.enabled.contains tr = true
    · obtain ⟨rfl, _⟩ := e
      simp only [*, and_self, if_true]
      exact ⟨_, rfl, rfl⟩
    · simp only [e, if_false]; exact ⟨r, hr, hv⟩
  | markActive k0 tr =>
    left
    show validIn (markActive c s k0 tr).1 k
    unfold validIn; rw [markActive_decoys]; exact ⟨r, hr, hv⟩
  | collect now => left; exact ⟨r, hr, hv⟩
  | remove k0 now =>
    show validIn (remove c now s k0).1 k ∨ (remove c now s k0).1.decoys[k]? = none
    rcases remove_decoys_get c now s k0 k with h | h
    · left; exact ⟨r, by rw [h]; exact hr, hv⟩
    · right; exact h
  | sweep now =>
    show validIn (sweep c now s).1 k ∨ (sweep c now s).1.decoys[k]? = none
    rcases sweep_decoys_get c now s k with h | h
    · left; exact ⟨r, by rw [h]; exact hr, hv⟩
    · right; exact h
  | lookup p => left; exact ⟨r, hr, hv⟩
  | exists_ k0 tr => left; exact ⟨r, hr, hv⟩
  | count p => left; exact ⟨r, hr, hv⟩
  | total => left; exact ⟨r, hr, hv⟩

/-- `register` announces (`.new`) only when the registration was not valid before -/
theorem register_new_not_valid (c : Cfg) (s : St) (k : Key) (tr now : Nat)
    (h : (register c s k tr now).2 = .new) : ¬ validIn s k := by
  rintro ⟨r, hr, hv⟩
  unfold register at h
  split at h
  · cases h
  · simp only [hr, hv, if_true] at h; cases h

/-- after an announcing `register` the registration is valid -/
theorem register_new_valid (c : Cfg) (s : St) (k : Key) (tr now : Nat)
    (h : (register c s k tr now).2 = .new) : validIn (register c s k tr now).1 k := by
  have he : c.enabled.contains tr = true := by
    unfold register at h
    split at h
    · cases h
    · rename_i hne; simpa using hne
  unfold validIn
  rw [register_decoys_get]
  simp only [he, and_self, if_true]
  split
  · exact ⟨_, rfl, rfl⟩
  · exact ⟨_, rfl, rfl⟩

/-- a valid registration is still valid after any sequence of operations during which it stays tracked -/
theorem valid_persists_run (c : Cfg) (ops : List Op) (s : St) (k : Key) (h : validIn s k)
    (htr : ∀ pre, pre <+: ops → (run c pre s).decoys[k]? ≠ none) : validIn (run c ops s) k := by
  induction ops generalizing s with
  | nil => exact h
  | cons o ops ih =>
    have h1 : (run c [o] s).decoys[k]? ≠ none := htr [o] ⟨ops, rfl⟩
    have hv : validIn (step c s o).1 k := by
      rcases valid_persists c s o k h with hv | hn
      · exact hv
      · exact absurd hn h1
    have : run c (o :: ops) s = run c ops (step c s o).1 := rfl
    rw [this]
    apply ih _ hv
    intro pre hpre
    have := htr (o :: pre) (by
      obtain ⟨t, ht⟩ := hpre
      exact ⟨t, by simp [← ht]⟩)
    exact this

end CJ.Registry

namespace CJ.RegistryConc
open CJ.Registry

/-- every thread step changes the registry by at most one registry operation -/
theorem stepThread_is_op (c : Cfg) (s : St) (t : Th) (s' : St) (t' : Th) (ev : List Ev)
    (h : stepThread c s t = some (s', t', ev)) : s' = s ∨ ∃ op, s' = (Registry.step c s op).1 := by
  cases t with
  | ingest k tr now cov probe live pc =>
    cases pc with
    | start =>
      simp only [stepThread] at h
      split at h <;> (simp only [Option.some.injEq, Prod.mk.injEq] at h; exact Or.inl h.1.symm)
    | afterExists dup =>
      cases dup <;>
      · simp only [stepThread, Option.some.injEq, Prod.mk.injEq] at h
        exact Or.inr ⟨.track k tr now, by simp only [Registry.step]; exact h.1.symm⟩
    | afterTrack =>
      simp only [stepThread] at h
      split at h
      · simp only [Option.some.injEq, Prod.mk.injEq] at h; exact Or.inl h.1.symm
      · split at h <;> (simp only [Option.some.injEq, Prod.mk.injEq] at h; exact Or.inl h.1.symm)
    | probing =>
      simp only [stepThread] at h
      split at h <;> (simp only [Option.some.injEq, Prod.mk.injEq] at h; exact Or.inl h.1.symm)
    | beforeRegister =>
      simp only [stepThread, Option.some.injEq, Prod.mk.injEq] at h
      exact Or.inr ⟨.register k tr now, by simp only [Registry.step]; exact h.1.symm⟩
    | done => simp [stepThread] at h
  | sweeper now order pc =>
    cases pc with
    | start =>
      simp only [stepThread] at h
      split at h <;> (simp only [Option.some.injEq, Prod.mk.injEq] at h; exact Or.inl h.1.symm)
    | removing ks =>
      cases ks with
      | nil => simp only [stepThread, Option.some.injEq, Prod.mk.injEq] at h; exact Or.inl h.1.symm
      | cons k ks =>
        simp only [stepThread, Option.some.injEq, Prod.mk.injEq] at h
        exact Or.inr ⟨.remove k now, by simp only [Registry.step]; exact h.1.symm⟩
    | done => simp [stepThread] at h
  | handler k tr pc =>
    cases pc with
    | start => simp only [stepThread, Option.some.injEq, Prod.mk.injEq] at h; exact Or.inl h.1.symm
    | looked f =>
      cases f with
      | true =>
        simp only [stepThread, Option.some.injEq, Prod.mk.injEq] at h
        exact Or.inr ⟨.markActive k tr, by simp only [Registry.step]; exact h.1.symm⟩
      | false => simp only [stepThread, Option.some.injEq, Prod.mk.injEq] at h; exact Or.inl h.1.symm
    | done => simp [stepThread] at h
  | reload d =>
    cases d with
    | false => simp only [stepThread, Option.some.injEq, Prod.mk.injEq] at h; exact Or.inl h.1.symm
    | true => simp [stepThread] at h

end CJ.RegistryConc
