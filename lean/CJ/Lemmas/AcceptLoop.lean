import CJ.Model.AcceptLoop
/-! Lemmas about the accept-loop model: when every exit path gives every resource back, each resource
is held exactly once per handshake in flight. -/
namespace CJ.AcceptLoop

/-- exit path `p` gives every resource back -/
def Balanced (rs : List Res) (p : Nat) : Prop := ∀ r ∈ rs, relOn r p = true

theorem acquire_const (rs : List Res) (n : Nat) :
    acquire (rs.map fun _ => n) = rs.map fun _ => n + 1 := by
  simp [acquire, List.map_map, Function.comp_def]

theorem release_const (rs : List Res) (n p : Nat) (h : Balanced rs p) :
    release rs (rs.map fun _ => n + 1) p = rs.map fun _ => n := by
  induction rs with
  | nil => simp [release]
  | cons r rs ih =>
    have hr : relOn r p = true := h r (by simp)
    have ht : Balanced rs p := fun x hx => h x (by simp [hx])
    simp [release, hr, ih ht]

theorem foldl_release_const (rs : List Res) (fl : List Nat) (k : Nat)
    (h : ∀ p ∈ fl, Balanced rs p) :
    fl.foldl (release rs) (rs.map fun _ => fl.length + k) = rs.map fun _ => k := by
  induction fl generalizing k with
  | nil => simp
  | cons p fl ih =>
    have hp : Balanced rs p := h p (by simp)
    have e : (rs.map fun _ => (p :: fl).length + k) = rs.map fun _ => (fl.length + k) + 1 := by
      congr 1; funext _; simp; omega
    rw [List.foldl_cons, e, release_const rs _ p hp]
    exact ih k (fun q hq => h q (by simp [hq]))

theorem canTake_zero (rs : List Res) (h : ∀ r ∈ rs, r.cap ≠ some 0) :
    canTake rs (rs.map fun _ => 0) = true := by
  induction rs with
  | nil => simp [canTake]
  | cons r rs ih =>
    have hr := h r (by simp)
    have : free r 0 = true := by
      unfold free
      cases hc : r.cap with
      | none => rfl
      | some c =>
        cases c with
        | zero => exact absurd hc hr
        | succ c => simp
    simp [canTake, this, ih (fun x hx => h x (by simp [hx]))]

/-- each resource is held once per handshake in flight, and what is in flight will give everything back -/
def Inv (rs : List Res) (s : St) : Prop :=
  s.held = (rs.map fun _ => s.flight.length) ∧ ∀ p ∈ s.flight, Balanced rs p

theorem inv_init (rs : List Res) : Inv rs (init rs) := by
  simp [Inv, init]

theorem inv_step (rs : List Res) (s : St) (e : Ev) (hs : Inv rs s)
    (he : ∀ p, e.path = some p → Balanced rs p) : Inv rs (step rs s e).1 := by
  obtain ⟨hh, hf⟩ := hs
  cases e with
  | fast p =>
    have hp := he p rfl
    by_cases hc : canTake rs s.held = true
    · simp only [step, hc, if_true]
      refine ⟨?_, hf⟩
      show release rs (acquire s.held) p = _
      rw [hh, acquire_const, release_const rs _ p hp]
    · simp only [step, hc]
      exact ⟨hh, hf⟩
  | slow p =>
    have hp := he p rfl
    by_cases hc : canTake rs s.held = true
    · simp only [step, hc, if_true]
      refine ⟨?_, ?_⟩
      · show acquire s.held = _
        rw [hh, acquire_const]; simp
      · intro q hq
        have hq' : q = p ∨ q ∈ s.flight := by simpa using hq
        rcases hq' with rfl | hq'
        · exact hp
        · exact hf q hq'
    · simp only [step, hc]
      exact ⟨hh, hf⟩
  | settle =>
    simp only [step]
    refine ⟨?_, by simp⟩
    show s.flight.foldl (release rs) s.held = _
    rw [hh]
    have := foldl_release_const rs s.flight 0 hf
    simpa using this

theorem inv_run (rs : List Res) (s : St) (es : List Ev) (hs : Inv rs s)
    (he : ∀ e ∈ es, ∀ p, e.path = some p → Balanced rs p) : Inv rs (run rs s es) := by
  induction es generalizing s with
  | nil => exact hs
  | cons e es ih =>
    exact ih _ (inv_step rs s e hs (he e (by simp))) (fun x hx => he x (by simp [hx]))

theorem run_append (rs : List Res) (s : St) (a b : List Ev) :
    run rs s (a ++ b) = run rs (run rs s a) b := by
  induction a generalizing s with
  | nil => rfl
  | cons e a ih => simp [run, ih]

end CJ.AcceptLoop
