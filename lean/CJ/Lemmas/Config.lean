import CJ.Model.Config
/-! Helper lemmas about the configuration model. -/
namespace CJ.Config

/-- `entries` parse, one by one and in order, to `vals` -/
def ParsesTo {β : Type} (p : String → Outcome β) (entries : List String) (vals : List β) : Prop :=
  entries.map p = vals.map Outcome.ok

theorem parseAll_ok_iff {β : Type} (p : String → Outcome β) (l : List String) (vs : List β) :
    parseAll p l = .ok vs ↔ ParsesTo p l vs := by
  unfold ParsesTo
  induction l generalizing vs with
  | nil =>
    simp only [parseAll, Outcome.ok.injEq, List.map_nil]
    constructor
    · intro h; subst h; rfl
    · intro h
      cases vs with
      | nil => rfl
      | cons _ _ => simp at h
  | cons s rest ih =>
    simp only [parseAll, List.map_cons]
    cases hp : p s with
    | err =>
      simp only
      constructor
      · intro h; cases h
      · intro h
        cases vs with
        | nil => simp at h
        | cons v vs' => simp at h
    | panic =>
      simp only
      constructor
      · intro h; cases h
      · intro h
        cases vs with
        | nil => simp at h
        | cons v vs' => simp at h
    | ok v =>
      simp only
      cases hr : parseAll p rest with
      | err =>
        simp only
        constructor
        · intro h; cases h
        · intro h
          cases vs with
          | nil => simp at h
          | cons v' vs' =>
            simp only [List.map_cons, List.cons.injEq] at h
            have := (ih vs').mpr h.2
            rw [hr] at this; cases this
      | panic =>
        simp only
        constructor
        · intro h; cases h
        · intro h
          cases vs with
          | nil => simp at h
          | cons v' vs' =>
            simp only [List.map_cons, List.cons.injEq] at h
            have := (ih vs').mpr h.2
            rw [hr] at this; cases this
      | ok vs0 =>
        simp only [Outcome.ok.injEq]
        constructor
        · intro h
          subst h
          simp only [List.map_cons, List.cons.injEq, true_and]
          exact (ih vs0).mp hr
        · intro h
          cases vs with
          | nil => simp at h
          | cons v' vs' =>
            simp only [List.map_cons, List.cons.injEq, Outcome.ok.injEq] at h
            have := (ih vs').mpr h.2
            rw [hr] at this
            simp only [Outcome.ok.injEq] at this
            rw [h.1, this]

/-- an entry that does not parse makes the whole list fail -/
theorem parseAll_not_ok_of_bad {β : Type} (p : String → Outcome β) (l : List String) (s : String) (hs : s ∈ l)
    (hbad : ∀ v, p s ≠ .ok v) (vs : List β) : parseAll p l ≠ .ok vs := by
  intro h
  have hm := (parseAll_ok_iff p l vs).mp h
  unfold ParsesTo at hm
  have : p s ∈ l.map p := List.mem_map.mpr ⟨s, hs, rfl⟩
  rw [hm] at this
  obtain ⟨v, _, hv⟩ := List.mem_map.mp this
  exact hbad v hv.symm

/-- without a panicking oracle a list never panics -/
theorem parseAll_no_panic {β : Type} (p : String → Outcome β) (hp : ∀ s, p s ≠ .panic) (l : List String) :
    parseAll p l ≠ .panic := by
  induction l with
  | nil => simp [parseAll]
  | cons s rest ih =>
    simp only [parseAll]
    cases h : p s with
    | err => simp
    | panic => exact absurd h (hp s)
    | ok v =>
      simp only
      cases hr : parseAll p rest with
      | err => simp
      | panic => exact absurd hr ih
      | ok vs => simp

/-- an entry that parses is in the parsed list … -/
theorem parsesTo_mem {β : Type} (p : String → Outcome β) (l : List String) (vs : List β) (h : ParsesTo p l vs)
    (s : String) (hs : s ∈ l) (v : β) (hv : p s = .ok v) : v ∈ vs := by
  unfold ParsesTo at h
  have : p s ∈ l.map p := List.mem_map.mpr ⟨s, hs, rfl⟩
  rw [h, hv] at this
  obtain ⟨v', hv', e⟩ := List.mem_map.mp this
  cases e
  exact hv'

/-- … and the parsed list holds nothing but the parse results of the entries -/
theorem parsesTo_mem_rev {β : Type} (p : String → Outcome β) (l : List String) (vs : List β) (h : ParsesTo p l vs)
    (v : β) (hv : v ∈ vs) : ∃ s ∈ l, p s = .ok v := by
  unfold ParsesTo at h
  have : Outcome.ok v ∈ vs.map Outcome.ok := List.mem_map.mpr ⟨v, hv, rfl⟩
  rw [← h] at this
  obtain ⟨s, hs, e⟩ := List.mem_map.mp this
  exact ⟨s, hs, e⟩

theorem parsesTo_nil {β : Type} (p : String → Outcome β) (vs : List β) (h : ParsesTo p [] vs) : vs = [] := by
  unfold ParsesTo at h
  cases vs with
  | nil => rfl
  | cons _ _ => simp at h

/-- what `covert_blocklist_public_addrs` appends to the covert blocklist -/
def publicExtra {Net : Type} (raw : Raw) (ifaces : Option (List Net)) : List Net :=
  if raw.publicAddrs then ifaces.getD [] else []

/-- the parsed covert blocklist: the configured entries, then the local interface subnets if asked for -/
theorem parseBlocklists_block {Net Pat : Type} (cidr : String → Outcome Net) (re : String → Outcome Pat)
    (ifaces : Option (List Net)) (raw : Raw) (parsed : Parsed Net Pat)
    (h : parseBlocklists cidr re ifaces raw = .ok parsed) :
    ∃ blk, ParsesTo cidr raw.block blk ∧ parsed.block = blk ++ publicExtra raw ifaces := by
  unfold parseBlocklists at h
  cases h1 : parseAll cidr raw.block with
  | err => simp [h1] at h
  | panic => simp [h1] at h
  | ok b1 =>
    cases h2 : parseAll re raw.domains with
    | err => simp [h1, h2] at h
    | panic => simp [h1, h2] at h
    | ok d1 =>
      cases h3 : parseAll cidr raw.phantom with
      | err => simp [h1, h2, h3] at h
      | panic => simp [h1, h2, h3] at h
      | ok p1 =>
        cases h4 : parseAll cidr raw.allow with
        | err => simp [h1, h2, h3, h4] at h
        | panic => simp [h1, h2, h3, h4] at h
        | ok a1 =>
          simp only [h1, h2, h3, h4, Outcome.ok.injEq] at h
          subst h
          refine ⟨b1, (parseAll_ok_iff cidr raw.block b1).mp h1, ?_⟩
          unfold publicExtra
          cases raw.publicAddrs <;> cases ifaces <;> simp

/-! ## reload sequences -/

/-- after any sequence of reloads in which no configuration load panics, every part is exactly the version
its last successful load produced -/
theorem reloads_eq_last {Sel Pol Geo : Type} (evs : List (Outcome Pol × Option Sel × GeoLoad Geo))
    (st : Station Sel Pol Geo) (hnp : ∀ ev ∈ evs, ev.1 ≠ .panic) :
    reloads st evs = .ok ⟨lastSelector st.selector evs, lastPolicy st.policy evs, lastGeoip st.geoip evs⟩ := by
  induction evs generalizing st with
  | nil => rfl
  | cons ev rest ih =>
    obtain ⟨c, s, g⟩ := ev
    have hrest : ∀ ev ∈ rest, ev.1 ≠ .panic := fun ev hev => hnp ev (List.mem_cons_of_mem _ hev)
    cases c with
    | panic => exact absurd rfl (hnp (.panic, s, g) (List.mem_cons_self ..))
    | err =>
      simp only [reloads, reload, lastSelector, lastPolicy, lastGeoip]
      exact ih st hrest
    | ok pol =>
      simp only [reloads, reload]
      rw [ih _ hrest]
      cases s <;> cases g <;> simp [onReload, lastSelector, lastPolicy, lastGeoip, GeoLoad.loaded]

/-! ## the nil tests of the statistics printer -/

/-- the two optional cache fields the model knows -/
def cacheNames : List String := ["ipCacheLive", "ipCacheNonLive"]

open CJ.Liveness in
theorem runDerefs_guarded (ds : List Deref) (h : ∀ d ∈ ds, d.field ∈ d.guards) (live nonLive : Option Cache) :
    runDerefs live nonLive ds = .ok () := by
  induction ds with
  | nil => rfl
  | cons d ds ih =>
    have ih' := ih (fun d' hd' => h d' (List.mem_cons_of_mem _ hd'))
    simp only [runDerefs]
    split
    · rename_i hg
      have : (fieldOf live nonLive d.field).isSome = true :=
        List.all_eq_true.mp hg d.field (h d (List.mem_cons_self ..))
      simp only [this, if_true]
      exact ih'
    · exact ih'

open CJ.Liveness in
/-- a call whose guards hold and whose own field is nil panics, wherever it stands in the list -/
theorem runDerefs_panics (ds : List Deref) (live nonLive : Option Cache) (d : Deref) (hd : d ∈ ds)
    (hg : d.guards.all (fun g => (fieldOf live nonLive g).isSome) = true)
    (hf : (fieldOf live nonLive d.field).isSome = false) : runDerefs live nonLive ds = .panic := by
  induction ds with
  | nil => cases hd
  | cons d' ds ih =>
    simp only [runDerefs]
    rcases List.mem_cons.mp hd with rfl | hd
    · simp only [hg, if_true, hf, Bool.false_eq_true, if_false]
    · split
      · split
        · exact ih hd
        · rfl
      · exact ih hd

open CJ.Liveness in
/-- **The printer cannot panic iff every call is guarded by a test of its own field** (for tables that only
name the two cache fields) -/
theorem no_panic_iff_self_guarded (ds : List Deref)
    (hk : ∀ d ∈ ds, d.field ∈ cacheNames ∧ ∀ g ∈ d.guards, g ∈ cacheNames) :
    (∀ live nonLive, runDerefs live nonLive ds ≠ .panic) ↔ ∀ d ∈ ds, d.field ∈ d.guards := by
  constructor
  · intro h d hd
    apply Classical.byContradiction
    intro hnot
    obtain ⟨hfk, hgk⟩ := hk d hd
    have c0 : Cache := .map 0 {}
    simp only [cacheNames, List.mem_cons, List.not_mem_nil, or_false] at hfk
    rcases hfk with hf | hf
    · -- the unguarded call goes through the live cache: configure only the non-live one
      apply h none (some c0)
      apply runDerefs_panics ds none (some c0) d hd
      · rw [List.all_eq_true]
        intro g hg
        have hgn := hgk g hg
        simp only [cacheNames, List.mem_cons, List.not_mem_nil, or_false] at hgn
        rcases hgn with e | e
        · exact absurd (by rw [hf, ← e]; exact hg) hnot
        · simp [fieldOf, e]
      · simp [fieldOf, hf]
    · apply h (some c0) none
      apply runDerefs_panics ds (some c0) none d hd
      · rw [List.all_eq_true]
        intro g hg
        have hgn := hgk g hg
        simp only [cacheNames, List.mem_cons, List.not_mem_nil, or_false] at hgn
        rcases hgn with e | e
        · simp [fieldOf, e]
        · exact absurd (by rw [hf, ← e]; exact hg) hnot
      · simp [fieldOf, hf]
  · intro h live nonLive
    rw [runDerefs_guarded ds h]
    intro e; cases e

end CJ.Config
