import CJ.Model.Config
/-! Helper lemmas about the configuration model. -/
namespace CJ.Config

/-- `entries` parse, one by one and in order, to `vals` -/
def ParsesTo {β : Type} (p : String → Outcome β) (entries : List String) (vals : List β) : Prop :=
  entries.map p = vals.map Outcome.ok

theorem parseAll_ok_iff {β : Type} (p : String → Outcome β) (l : List String) (vs : List β) :
    parseAll p l = .ok vs ↔ ParsesTo p l vs := by
  unfold ParsesTo
  induction l generalizing vs with
  | nil =>
    simp only [parseAll, Outcome.ok.injEq, List.map_nil]
    constructor
    · intro h; subst h; rfl
    · intro h
      cases vs with
      | nil => rfl
      | cons _ _ => simp at h
  | cons s rest ih =>
    simp only [parseAll, List.map_cons]
    cases hp : p s with
    | err =>
      simp only
      constructor
      · intro h; cases h
      · intro h
        cases vs with
        | nil => simp at h
        | cons v vs' => simp at h
    | panic =>
      simp only
      constructor
      · intro h; cases h
      · intro h
        cases vs with
        | nil => simp at h
        | cons v vs' => simp at h
    | ok v =>
      simp only
      cases hr : parseAll p rest with
      | err =>
        simp only
        constructor
        · intro h; cases h
        · intro h
          cases vs with
          | nil => simp at h
          | cons v' vs' =>
            simp only [List.map_cons, List.cons.injEq] at h
            have := (ih vs').mpr h.2
            rw [hr] at this; cases this
      | panic =>
        simp only
        constructor
        · intro h; cases h
        · intro h
          cases vs with
          | nil => simp at h
          | cons v' vs' =>
            simp only [List.map_cons, List.cons.injEq] at h
            have := (ih vs').mpr h.2
            rw [hr] at this; cases this
      | ok vs0 =>
        simp only [Outcome.ok.injEq]
        constructor
        · intro h
          subst h
          simp only [List.map_cons, List.cons.injEq, true_and]
          exact (ih vs0).mp hr
        · intro h
          cases vs with
          | nil => simp at h
          | cons v' vs' =>
            simp only [List.map_cons, List.cons.injEq, Outcome.ok.injEq] at h
            have := (ih vs').mpr h.2
            rw [hr] at this
            simp only [Outcome.ok.injEq] at this
            rw [h.1, this]

/-- an entry that does not parse makes the whole list fail -/
theorem parseAll_not_ok_of_bad {β : Type} (p : String → Outcome β) (l : List String) (s : String) (hs : s ∈ l)
    (hbad : ∀ v, p s ≠ .ok v) (vs : List β) : parseAll p l ≠ .ok vs := by
  intro h
  have hm := (parseAll_ok_iff p l vs).mp h
  unfold ParsesTo at hm
  have : p s ∈ l.map p := List.mem_map.mpr ⟨s, hs, rfl⟩
  rw [hm] at this
  obtain ⟨v, _, hv⟩ := List.mem_map.mp this
  exact hbad v hv.symm

/-- without a panicking oracle a list never panics -/
theorem parseAll_no_panic {β : Type} (p : String → Outcome β) (hp : ∀ s, p s ≠ .panic) (l : List String) :
    parseAll p l ≠ .panic := by
  induction l with
  | nil => simp [parseAll]
  | cons s rest ih =>
    simp only [parseAll]
    cases h : p s with
    | err => simp
    | panic => exact absurd h (hp s)
    | ok v =>
      simp only
      cases hr : parseAll p rest with
      | err => simp
      | panic => exact absurd hr ih
      | ok vs => simp

end CJ.Config
