import CJ.Model.ConnTimed
import CJ.Lemmas.ConnHandler
/-!
# The handler on the clock refines the handler on what the connection presents

`tloop` / `tdiscard` perform the actions of `loop` / `discard` on `present D now script`, and the time
at which they give the connection back is the deadline, a peer's own ending, or a hand-off.
-/
namespace CJ.ConnTimed
open CJ.ConnHandler

variable {T R : Type}

theorem forget_idem (a : Act T R) : forget (forget a) = forget a := by cases a <;> rfl

theorem forget_eq_clear {a : Act T R} (h : forget a = .clearDeadline) : a = .clearDeadline := by
  cases a <;> simp [forget] at h ⊢

theorem forget_eq_sleep {a : Act T R} (h : forget a = .sleepUntilDeadline) : a = .sleepUntilDeadline := by
  cases a <;> simp [forget] at h ⊢

theorem tdiscard_fst (D : Nat) (s : List TEv) : ∀ now : Nat,
    (tdiscard (T := T) (R := R) D now s).1 = ConnHandler.discard (present D now s) := by
  induction s with
  | nil => intro now; rfl
  | cons e rest ih =>
    intro now
    obtain ⟨a, ev⟩ := e
    by_cases h : due D now a = true
    · simp [tdiscard, present, h, ConnHandler.discard]
    · cases ev <;> simp [tdiscard, present, h, ConnHandler.discard, ih]

theorem tloop_fst (cls : T → Bytes → Verdict R) (sched : Nat → List T → List T) (D : Nat)
    (s : List TEv) : ∀ (i now : Nat) (ts : List T) (buf : Bytes),
      (tloop cls sched D i now ts buf s).1.map forget
        = (loop cls sched i ts buf (present D now s)).map forget := by
  induction s with
  | nil =>
    intro i now ts buf
    cases ts with
    | nil => simp [tloop, loop, tdiscard_fst]
    | cons t ts => simp [tloop, loop, present]
  | cons e rest ih =>
    intro i now ts buf
    obtain ⟨a, ev⟩ := e
    cases ts with
    | nil => simp [tloop, loop, tdiscard_fst]
    | cons t ts =>
      by_cases h : due D now a = true
      · simp [tloop, present, h, loop]
      · cases ev with
        | eof => simp [tloop, present, h, loop]
        | reset => simp [tloop, present, h, loop]
        | deadline => simp [tloop, present, h, loop]
        | otherErr => simp [tloop, present, h, loop]
        | data c =>
          simp only [tloop, present, h, Bool.false_eq_true, ↓reduceIte, loop]
          cases hp : (pass cls (buf ++ c) (sched i (t :: ts)) []).2 with
          | cont ts' => simp [ih]
          | abort => simp [forget]
          | found r k => simp [forget]

theorem thandler_fst (cls : T → Bytes → Verdict R) (sched : Nat → List T → List T) (t0 draw : Nat)
    (geo : Geo) (count : Nat) (ts : List T) (s : List TEv) :
    (thandler cls sched t0 draw geo count ts s).1.map forget
      = (handler cls sched geo count ts (present (t0 + timeoutMs draw) t0 s)).map forget := by
  cases geo <;> try rfl
  simp only [thandler, handler]
  by_cases h : count < 1
  · simp [h, tdiscard_fst]
  · simp [h, tloop_fst]

/-! ## when the connection is given back -/

theorem tdiscard_end_only_data (D : Nat) (s : List TEv) : ∀ now : Nat, now ≤ D → OnlyData s →
    (tdiscard (T := T) (R := R) D now s).2 = .closed D := by
  induction s with
  | nil => intro now h _; simp [tdiscard, Nat.max_eq_right h]
  | cons e rest ih =>
    intro now hn ho
    obtain ⟨a, ev⟩ := e
    by_cases h : due D now a = true
    · simp [tdiscard, h, Nat.max_eq_right hn]
    · obtain ⟨bs, hb⟩ := ho ⟨a, ev⟩ (List.mem_cons_self ..)
      simp only at hb
      subst hb
      have hd : ¬ D ≤ now ∧ ¬ D ≤ a := by simpa [due] using h
      simp only [tdiscard, h, Bool.false_eq_true, ↓reduceIte]
      exact ih (max now a) (by omega) (fun e he => ho e (List.mem_cons_of_mem _ he))

theorem tloop_end_only_data (cls : T → Bytes → Verdict R) (sched : Nat → List T → List T) (D : Nat)
    (s : List TEv) : ∀ (i now : Nat) (ts : List T) (buf : Bytes), now ≤ D → OnlyData s →
      (tloop cls sched D i now ts buf s).2 = .closed D ∨
      (∃ t, (tloop cls sched D i now ts buf s).2 = .handedOff t ∧
        .clearDeadline ∈ (tloop cls sched D i now ts buf s).1) := by
  induction s with
  | nil =>
    intro i now ts buf hn _
    cases ts with
    | nil => left; simp [tloop, tdiscard, Nat.max_eq_right hn]
    | cons t ts => left; simp [tloop, Nat.max_eq_right hn]
  | cons e rest ih =>
    intro i now ts buf hn ho
    obtain ⟨a, ev⟩ := e
    cases ts with
    | nil =>
      left
      simp only [tloop]
      exact tdiscard_end_only_data D _ now hn ho
    | cons t ts =>
      by_cases h : due D now a = true
      · left; simp [tloop, h, Nat.max_eq_right hn]
      · obtain ⟨c, hb⟩ := ho ⟨a, ev⟩ (List.mem_cons_self ..)
        simp only at hb
        subst hb
        have hd : ¬ D ≤ now ∧ ¬ D ≤ a := by simpa [due] using h
        have hn' : max now a ≤ D := by omega
        simp only [tloop, h, Bool.false_eq_true, ↓reduceIte]
        cases hp : (pass cls (buf ++ c) (sched i (t :: ts)) []).2 with
        | cont ts' =>
          rcases ih (i + 1) (max now a) ts' (buf ++ c) hn'
              (fun e he => ho e (List.mem_cons_of_mem _ he)) with h1 | ⟨t', h1, h2⟩
          · left; simpa using h1
          · right; exact ⟨t', by simpa using h1, by simp [h2]⟩
        | abort => left; simp [Nat.max_eq_right hn']
        | found r k => right; exact ⟨max now a, by simp, by simp⟩

/-- an action of the peer that is not data: it ends the connection itself (or the read fails) -/
def Terminal (e : TEv) : Prop := ∀ bs, e.ev ≠ .data bs

theorem tdiscard_no_early (D : Nat) (s : List TEv) : ∀ (now t : Nat),
    (tdiscard (T := T) (R := R) D now s).2 = .closed t →
      D ≤ t ∨ ∃ e ∈ s, Terminal e ∧ e.t ≤ t := by
  induction s with
  | nil => intro now t h; simp [tdiscard] at h; left; omega
  | cons e rest ih =>
    intro now t ht
    obtain ⟨a, ev⟩ := e
    by_cases h : due D now a = true
    · simp [tdiscard, h] at ht; left; omega
    · cases ev with
      | data bs =>
        simp only [tdiscard, h, Bool.false_eq_true, ↓reduceIte] at ht
        rcases ih _ _ ht with h1 | ⟨e, he, h2⟩
        · exact Or.inl h1
        · exact Or.inr ⟨e, List.mem_cons_of_mem _ he, h2⟩
      | eof => simp [tdiscard, h] at ht; right; exact ⟨_, List.mem_cons_self .., by intro bs; simp, by simp; omega⟩
      | reset => simp [tdiscard, h] at ht; right; exact ⟨_, List.mem_cons_self .., by intro bs; simp, by simp; omega⟩
      | deadline => simp [tdiscard, h] at ht; right; exact ⟨_, List.mem_cons_self .., by intro bs; simp, by simp; omega⟩
      | otherErr => simp [tdiscard, h] at ht; right; exact ⟨_, List.mem_cons_self .., by intro bs; simp, by simp; omega⟩

theorem tloop_no_early (cls : T → Bytes → Verdict R) (sched : Nat → List T → List T) (D : Nat)
    (s : List TEv) : ∀ (i now : Nat) (ts : List T) (buf : Bytes) (t : Nat),
      (tloop cls sched D i now ts buf s).2 = .closed t →
        D ≤ t ∨ ∃ e ∈ s, Terminal e ∧ e.t ≤ t := by
  induction s with
  | nil =>
    intro i now ts buf t ht
    cases ts with
    | nil => simp [tloop, tdiscard] at ht; left; omega
    | cons u ts => simp [tloop] at ht; left; omega
  | cons e rest ih =>
    intro i now ts buf t ht
    obtain ⟨a, ev⟩ := e
    cases ts with
    | nil =>
      simp only [tloop] at ht
      exact tdiscard_no_early D _ now t ht
    | cons u ts =>
      by_cases h : due D now a = true
      · simp [tloop, h] at ht; left; omega
      · cases ev with
        | eof => simp [tloop, h] at ht; right; exact ⟨_, List.mem_cons_self .., by intro bs; simp, by simp; omega⟩
        | reset => simp [tloop, h] at ht; right; exact ⟨_, List.mem_cons_self .., by intro bs; simp, by simp; omega⟩
        | deadline => simp [tloop, h] at ht; right; exact ⟨_, List.mem_cons_self .., by intro bs; simp, by simp; omega⟩
        | otherErr => simp [tloop, h] at ht; right; exact ⟨_, List.mem_cons_self .., by intro bs; simp, by simp; omega⟩
        | data c =>
          simp only [tloop, h, Bool.false_eq_true, ↓reduceIte] at ht
          cases hp : (pass cls (buf ++ c) (sched i (u :: ts)) []).2 with
          | cont ts' =>
            rw [hp] at ht
            rcases ih _ _ _ _ _ ht with h1 | ⟨e, he, h2⟩
            · exact Or.inl h1
            · exact Or.inr ⟨e, List.mem_cons_of_mem _ he, h2⟩
          | abort => rw [hp] at ht; simp at ht; left; omega
          | found r k => rw [hp] at ht; simp at ht

end CJ.ConnTimed
