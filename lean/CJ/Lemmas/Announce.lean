import CJ.Model.Announce
import CJ.Lemmas.Registry
import CJ.Lemmas.Detector
/-! Helper lemmas for the registry ∥ detector history model (C10): what single registry operations do
to the record stored under a key, and the coverage invariant `Good`. -/
open Std

namespace CJ.Announce
open CJ.Registry (Cfg St TO Out Inv)

/-! ### the registration record of a key through single operations -/

theorem track_decoys_get (c : Cfg) (s : St) (k k' : Registry.Key) (tr now : Nat) :
    (Registry.track c s k tr now).1.decoys[k']? =
      if k = k' ∧ c.enabled.contains tr = true then
        some (match s.decoys[k]? with
              | some r => { r with regCount := r.regCount + 1 }
              | none => ⟨tr, false, 1⟩)
      else s.decoys[k']? := by
  unfold Registry.track
  by_cases he : c.enabled.contains tr = true
  · simp only [he, Bool.not_true, Bool.false_eq_true, if_false, and_true]
    cases hr : s.decoys[k]? with
    | some r =>
      by_cases e : k = k'
      · subst e; simp
      · have : ¬ (k == k') = true := by simpa using e
        simp [e, HashMap.getElem?_insert, this]
    | none =>
      by_cases e : k = k'
      · subst e; simp
      · have : ¬ (k == k') = true := by simpa using e
        simp [e, HashMap.getElem?_insert, this]
  · have he' : ¬ tr ∈ c.enabled := by simpa using he
    simp [he']

theorem register_decoys_get (c : Cfg) (s : St) (k k' : Registry.Key) (tr now : Nat) :
    (Registry.register c s k tr now).1.decoys[k']? =
      if k = k' ∧ c.enabled.contains tr = true then
        some (match s.decoys[k]? with
              | some r => { r with valid := true }
              | none => ⟨tr, true, 1⟩)
      else s.decoys[k']? := by
  unfold Registry.register
  by_cases he : c.enabled.contains tr = true
  · simp only [he, Bool.not_true, Bool.false_eq_true, if_false, and_true]
    cases hr : s.decoys[k]? with
    | some r =>
      by_cases hv : r.valid = true
      · by_cases e : k = k'
        · subst e
          have : ({ r with valid := true } : Registry.Reg) = r := by cases r; simp_all
          simp [hv, hr, this]
        · simp [hv, e]
      · by_cases e : k = k'
        · subst e; simp [hv]
        · have : ¬ (k == k') = true := by simpa using e
          simp [hv, e, HashMap.getElem?_insert, this]
    | none =>
      by_cases e : k = k'
      · subst e; simp
      · have : ¬ (k == k') = true := by simpa using e
        simp [e, HashMap.getElem?_insert, this]
  · have he' : ¬ tr ∈ c.enabled := by simpa using he
    simp [he']

theorem markActive_decoys (c : Cfg) (s : St) (k : Registry.Key) (tr : Nat) :
    (Registry.markActive c s k tr).1.decoys = s.decoys := by
  unfold Registry.markActive
  split
  · rfl
  · split <;> rfl

/-- what `register` says, in terms of the record it found -/
theorem register_out (c : Cfg) (s : St) (k : Registry.Key) (tr now : Nat) :
    (Registry.register c s k tr now).2 =
      if c.enabled.contains tr = true then
        (match s.decoys[k]? with
         | some r => if r.valid then Out.dup else Out.new
         | none => Out.new)
      else Out.err := by
  unfold Registry.register
  by_cases he : c.enabled.contains tr = true
  · simp only [he, Bool.not_true, Bool.false_eq_true, if_false, if_true]
    cases hr : s.decoys[k]? with
    | some r => by_cases hv : r.valid = true <;> simp [hv]
    | none => rfl
  · have he' : ¬ tr ∈ c.enabled := by simpa using he
    simp [he']

/-- what `markActive` says -/
theorem markActive_out (c : Cfg) (s : St) (k : Registry.Key) (tr : Nat) :
    (Registry.markActive c s k tr).2 =
      if c.enabled.contains tr = true ∧ (s.timeouts[k]?).isSome then Out.upd else Out.none := by
  unfold Registry.markActive
  by_cases he : c.enabled.contains tr = true
  · simp only [he, Bool.not_true, Bool.false_eq_true, if_false, true_and]
    cases ht : s.timeouts[k]? <;> simp
  · have he' : ¬ tr ∈ c.enabled := by simpa using he
    simp [he']

/-! ### what a registry operation does to the lifetimes the station promises

`Trans` is the registry-level fact the coverage invariant needs about one operation at clock `now`
that makes the closure call `e`: every record that is announced-worthy afterwards (valid, or used)
either was so before **with the same timeout record**, or is the one the closure call is about and the
lifetime that call requests reaches the end of the record's lifetime under the station's own rule. -/

structure Trans (P : Params) (c : Cfg) (s s' : St) (now : Nat) (e : Option (Registry.Key × Kind)) : Prop where
  past : (∀ (k : Registry.Key) (t : TO), s.timeouts[k]? = some t → t.time ≤ now) →
    ∀ (k : Registry.Key) (t : TO), s'.timeouts[k]? = some t → t.time ≤ now
  recs : (∀ (k : Registry.Key) (t : TO), s.timeouts[k]? = some t → t.time ≤ now) →
    ∀ (k' : Registry.Key) (r' : Registry.Reg) (t' : TO),
      s'.decoys[k']? = some r' → s'.timeouts[k']? = some t' → (r'.valid = true ∨ t'.used = true) →
      (∃ r, s.decoys[k']? = some r ∧ s.timeouts[k']? = some t' ∧ (r.valid = true ∨ t'.used = true)) ∨
      (∃ kind, e = some (k', kind) ∧ bound c t' ≤ now + P.life kind)

theorem trans_refl (P : Params) (c : Cfg) (s : St) (now : Nat) : Trans P c s s now none :=
  ⟨fun h => h, fun _ _ r' _ hd ht hv => Or.inl ⟨r', hd, ht, hv⟩⟩

/-- a silent operation followed by another operation at the same instant -/
theorem trans_comp (P : Params) (c : Cfg) (s s1 s2 : St) (now : Nat) (e : Option (Registry.Key × Kind))
    (h1 : Trans P c s s1 now none) (h2 : Trans P c s1 s2 now e) : Trans P c s s2 now e := by
  refine ⟨fun hp => h2.past (h1.past hp), ?_⟩
  intro hp k' r' t' hd ht hv
  rcases h2.recs (h1.past hp) k' r' t' hd ht hv with ⟨r1, hd1, ht1, hv1⟩ | hb
  · rcases h1.recs hp k' r1 t' hd1 ht1 hv1 with ha | ⟨kind, he, _⟩
    · exact Or.inl ha
    · cases he
  · exact Or.inr hb

theorem trans_track (P : Params) (c : Cfg) (s : St) (k : Registry.Key) (tr now : Nat) :
    Trans P c s (Registry.track c s k tr now).1 now none := by
  refine ⟨?_, ?_⟩
  · intro hp k' t ht
    rw [Registry.track_timeouts_get] at ht
    split at ht
    · cases ht; exact Nat.le_refl _
    · exact hp k' t ht
  · intro _ k' r' t' hd ht hv
    rw [track_decoys_get] at hd
    rw [Registry.track_timeouts_get] at ht
    by_cases h1 : k = k' ∧ c.enabled.contains tr = true
    · obtain ⟨e, he⟩ := h1
      subst e
      simp only [he, and_self, if_true, true_and] at hd ht
      cases hr : s.decoys[k]? with
      | none =>
        simp only [hr, if_true, Option.some.injEq] at hd ht
        subst hd; subst ht
        simp at hv
      | some r =>
        simp only [hr, reduceCtorEq, if_false, Option.some.injEq] at hd ht
        subst hd
        exact Or.inl ⟨r, rfl, ht, by simpa using hv⟩
    · have h2 : ¬ (k = k' ∧ c.enabled.contains tr = true ∧ s.decoys[k]? = none) := fun h => h1 ⟨h.1, h.2.1⟩
      simp only [h1, if_false] at hd
      simp only [h2, if_false] at ht
      exact Or.inl ⟨r', hd, ht, hv⟩

theorem emitted_register (k : Registry.Key) (tr now : Nat) (o : Out) :
    emitted (.register k tr now) o = if o = .new then some (k, .new) else none := by
  cases o <;> simp [emitted]

theorem emitted_ingest (k : Registry.Key) (tr now : Nat) (p : Bool) (o : Out) :
    emitted (.ingest k tr now p) o = if o = .new then some (k, .new) else none := by
  cases o <;> simp [emitted]

theorem emitted_markActive (k : Registry.Key) (tr now : Nat) (o : Out) :
    emitted (.markActive k tr now) o = if o = .upd then some (k, .upd) else none := by
  cases o <;> simp [emitted]

theorem bound_unused_le (c : Cfg) (t : TO) (hu : t.used = false) : bound c t ≤ t.time + min c.unusedT c.activeT := by
  unfold bound; simp [hu]

theorem trans_register (P : Params) (c : Cfg) (hnew : min c.unusedT c.activeT ≤ P.newNs)
    (s : St) (k : Registry.Key) (tr now : Nat) :
    Trans P c s (Registry.register c s k tr now).1 now
      (if (Registry.register c s k tr now).2 = .new then some (k, .new) else none) := by
  refine ⟨?_, ?_⟩
  · intro hp k' t ht
    rw [Registry.register_timeouts_get] at ht
    split at ht
    · cases ht; exact Nat.le_refl _
    · exact hp k' t ht
  · intro hp k' r' t' hd ht hv
    rw [register_decoys_get] at hd
    rw [Registry.register_timeouts_get] at ht
    rw [register_out]
    by_cases h1 : k = k' ∧ c.enabled.contains tr = true
    · obtain ⟨e, he⟩ := h1
      subst e
      simp only [he, and_self, if_true, true_and] at hd ht ⊢
      cases hr : s.decoys[k]? with
      | none =>
        simp only [hr, if_true, Option.some.injEq] at hd ht
        subst ht
        refine Or.inr ⟨.new, by simp, ?_⟩
        have := bound_unused_le c ⟨now, false⟩ rfl
        simp only [Params.life] at *
        omega
      | some r =>
        simp only [hr, reduceCtorEq, if_false, Option.some.injEq] at hd ht
        by_cases hval : r.valid = true
        · exact Or.inl ⟨r, rfl, ht, Or.inl hval⟩
        · by_cases hu : t'.used = true
          · exact Or.inl ⟨r, rfl, ht, Or.inr hu⟩
          · refine Or.inr ⟨.new, by simp [hval], ?_⟩
            have hu' : t'.used = false := by simpa using hu
            have h1 := bound_unused_le c t' hu'
            have h2 := hp k t' ht
            simp only [Params.life] at *
            omega
    · have h2 : ¬ (k = k' ∧ c.enabled.contains tr = true ∧ s.decoys[k]? = none) := fun h => h1 ⟨h.1, h.2.1⟩
      simp only [h1, if_false] at hd
      simp only [h2, if_false] at ht
      exact Or.inl ⟨r', hd, ht, hv⟩

theorem trans_markActive (P : Params) (c : Cfg) (hupd : c.activeT ≤ P.updNs)
    (s : St) (k : Registry.Key) (tr now : Nat) :
    Trans P c s (Registry.markActive c s k tr).1 now
      (if (Registry.markActive c s k tr).2 = .upd then some (k, .upd) else none) := by
  refine ⟨?_, ?_⟩
  · intro hp k' t ht
    rw [Registry.markActive_timeouts_get] at ht
    split at ht
    · cases h0 : s.timeouts[k]? with
      | none => rw [h0] at ht; cases ht
      | some t0 =>
        rw [h0] at ht
        simp only [Option.map_some, Option.some.injEq] at ht
        subst ht
        exact hp k t0 h0
    · exact hp k' t ht
  · intro hp k' r' t' hd ht hv
    rw [markActive_decoys] at hd
    rw [Registry.markActive_timeouts_get] at ht
    rw [markActive_out]
    by_cases h1 : k = k' ∧ c.enabled.contains tr = true
    · obtain ⟨e, he⟩ := h1
      subst e
      simp only [he, and_self, if_true, true_and] at ht ⊢
      cases h0 : s.timeouts[k]? with
      | none => rw [h0] at ht; cases ht
      | some t0 =>
        rw [h0] at ht
        simp only [Option.map_some, Option.some.injEq] at ht
        subst ht
        refine Or.inr ⟨.upd, by simp, ?_⟩
        have := hp k t0 h0
        simp only [bound, Params.life, if_true]
        omega
    · simp only [h1, if_false] at ht
      exact Or.inl ⟨r', hd, ht, hv⟩

theorem trans_sweep (P : Params) (c : Cfg) (s : St) (hi : Inv s) (now : Nat) :
    Trans P c s (Registry.sweep c now s).1 now none := by
  have key : ∀ k : Registry.Key, ((Registry.sweep c now s).1.decoys[k]? = none ∧ (Registry.sweep c now s).1.timeouts[k]? = none) ∨
      ((Registry.sweep c now s).1.decoys[k]? = s.decoys[k]? ∧ (Registry.sweep c now s).1.timeouts[k]? = s.timeouts[k]?) := by
    intro k
    have h := Registry.sweep_get c now s hi k
    by_cases hx : ∃ t, s.timeouts[k]? = some t ∧ Registry.expired c now t = true
    · rw [if_pos hx] at h
      exact Or.inl ⟨congrArg Prod.fst h, congrArg Prod.snd h⟩
    · rw [if_neg hx] at h
      exact Or.inr ⟨congrArg Prod.fst h, congrArg Prod.snd h⟩
  refine ⟨?_, ?_⟩
  · intro hp k t ht
    rcases key k with ⟨_, h2⟩ | ⟨_, h2⟩
    · rw [h2] at ht; cases ht
    · rw [h2] at ht; exact hp k t ht
  · intro _ k' r' t' hd ht hv
    rcases key k' with ⟨h1, _⟩ | ⟨h1, h2⟩
    · rw [h1] at hd; cases hd
    · rw [h1] at hd; rw [h2] at ht
      exact Or.inl ⟨r', hd, ht, hv⟩

theorem ingest_out_new (c : Cfg) (s : St) (k : Registry.Key) (tr now : Nat) (p : Bool) :
    ((ingest c s k tr now p).2 = .new) ↔
      (c.enabled.contains tr = true ∧ s.decoys.contains k = false ∧ p = true) := by
  unfold ingest
  by_cases he : c.enabled.contains tr = true
  · have he' : tr ∈ c.enabled := by simpa using he
    by_cases hc : s.decoys.contains k = true
    · simp [he', hc]
    · cases p with
      | false => simp [he', hc]
      | true =>
        have hc' : s.decoys.contains k = false := by simpa using hc
        simp only [he, hc', Bool.not_true, Bool.false_eq_true, if_false, if_true, and_self, iff_true]
        rw [register_out]
        simp only [he, if_true]
        have hd : (Registry.track c s k tr now).1.decoys[k]? = some ⟨tr, false, 1⟩ := by
          rw [track_decoys_get]
          have hn : s.decoys[k]? = none := by
            rw [HashMap.contains_eq_isSome_getElem?] at hc'
            cases h : s.decoys[k]? <;> simp_all
          simp [he', hn]
        rw [hd]; simp
  · have he' : ¬ tr ∈ c.enabled := by simpa using he
    simp [he']

theorem trans_ingest (P : Params) (c : Cfg) (hnew : min c.unusedT c.activeT ≤ P.newNs)
    (s : St) (k : Registry.Key) (tr now : Nat) (p : Bool) :
    Trans P c s (ingest c s k tr now p).1 now (if (ingest c s k tr now p).2 = .new then some (k, .new) else none) := by
  unfold ingest
  by_cases he : c.enabled.contains tr = true
  · by_cases hc : s.decoys.contains k = true
    · simp only [he, hc, Bool.not_true, Bool.false_eq_true, if_false, if_true, reduceCtorEq]
      exact trans_track P c s k tr now
    · cases p with
      | false =>
        simp only [he, hc, Bool.not_true, Bool.false_eq_true, if_false, reduceCtorEq]
        exact trans_track P c s k tr now
      | true =>
        simp only [he, hc, Bool.not_true, Bool.false_eq_true, if_false, if_true]
        exact trans_comp P c s _ _ now _ (trans_track P c s k tr now)
          (trans_register P c hnew (Registry.track c s k tr now).1 k tr now)
  · have he' : ¬ tr ∈ c.enabled := by simpa using he
    simp only [he', List.contains_eq_mem, decide_false, Bool.not_false, if_true, reduceCtorEq, if_false]
    exact trans_refl P c s now

/-! ### the coverage invariant -/

/-- what the theorems need to know about the closures' messages: the detector files the announcement
of the registration under `key k` (the conversion succeeds and the operation is an add-or-update) with
the requested lifetime, and the requested lifetimes reach the station's own thresholds -/
structure Adequate (P : Params) (c : Cfg) (key : Registry.Key → Detector.Key) : Prop where
  msg : ∀ k kind, ∃ s, Detector.dispatch (P.msg k kind) = .addOrUpdate s ∧
    Detector.Key.tag (Detector.tagOf s) = key k ∧ s.timeout = P.life kind
  new : min c.unusedT c.activeT ≤ P.newNs
  upd : c.activeT ≤ P.updNs

/-- **Coverage invariant** at clock `last`: every record is stamped in the past, and every tracked
registration that was announced (valid, or used) and whose lifetime under the station's own rule has
not ended yet has a session in the detector's table that expires no earlier than that lifetime. -/
structure Good (c : Cfg) (key : Registry.Key → Detector.Key) (y : Sys) (last : Nat) : Prop where
  inv : Inv y.reg
  past : ∀ (k : Registry.Key) (t : TO), y.reg.timeouts[k]? = some t → t.time ≤ last
  cov : ∀ (k : Registry.Key) (r : Registry.Reg) (t : TO), y.reg.decoys[k]? = some r → y.reg.timeouts[k]? = some t →
    (r.valid = true ∨ t.used = true) → last < bound c t →
    ∃ v, Detector.Map.get? y.det (key k) = some v ∧ bound c t ≤ v

theorem good_init (c : Cfg) (key : Registry.Key → Detector.Key) (det : Detector.Map) (last : Nat) :
    Good c key { reg := {}, det := det } last := by
  refine ⟨Registry.inv_init, ?_, ?_⟩
  · intro k t h; simp at h
  · intro k r t h; simp at h

theorem handle_self (P : Params) (c : Cfg) (key : Registry.Key → Detector.Key) (ha : Adequate P c key)
    (now : Nat) (det : Detector.Map) (k : Registry.Key) (kind : Kind) :
    ∃ v, Detector.Map.get? (Detector.handle now det (P.msg k kind)) (key k) = some v ∧ now + P.life kind ≤ v := by
  obtain ⟨s, hd, hk, ht⟩ := ha.msg k kind
  obtain ⟨v, hv, hle⟩ := Detector.get?_addOrUpdate_self now det s
  refine ⟨v, ?_, by rw [← ht]; exact hle⟩
  unfold Detector.handle; rw [hd, ← hk]; exact hv

theorem handle_mono (P : Params) (c : Cfg) (key : Registry.Key → Detector.Key) (ha : Adequate P c key)
    (now : Nat) (det : Detector.Map) (k : Registry.Key) (kind : Kind) (k' : Detector.Key) (v : Nat)
    (h : Detector.Map.get? det k' = some v) :
    ∃ v', Detector.Map.get? (Detector.handle now det (P.msg k kind)) k' = some v' ∧ v ≤ v' := by
  obtain ⟨s, hd, _, _⟩ := ha.msg k kind
  unfold Detector.handle; rw [hd]
  exact Detector.get?_addOrUpdate_mono now det s k' v h

/-- one registry transition with its closure call keeps the invariant -/
theorem good_trans (P : Params) (c : Cfg) (key : Registry.Key → Detector.Key) (ha : Adequate P c key)
    (y : Sys) (last now : Nat) (hl : last ≤ now) (hg : Good c key y last)
    (s' : St) (e : Option (Registry.Key × Kind)) (hi : Inv s') (ht : Trans P c y.reg s' now e) :
    Good c key { reg := s', det := announceTo P now y.det e } now := by
  have hp : ∀ (k : Registry.Key) (t : TO), y.reg.timeouts[k]? = some t → t.time ≤ now :=
    fun k t h => Nat.le_trans (hg.past k t h) hl
  refine ⟨hi, ht.past hp, ?_⟩
  intro k' r' t' hd htt hv hb
  rcases ht.recs hp k' r' t' hd htt hv with ⟨r, hd0, ht0, hv0⟩ | ⟨kind, he, hle⟩
  · obtain ⟨v, hv1, hv2⟩ := hg.cov k' r t' hd0 ht0 hv0 (by omega)
    cases e with
    | none => exact ⟨v, hv1, hv2⟩
    | some a =>
      obtain ⟨k, kind⟩ := a
      obtain ⟨v', hv', hle'⟩ := handle_mono P c key ha now y.det k kind (key k') v hv1
      exact ⟨v', hv', by omega⟩
  · subst he
    obtain ⟨v, hv1, hv2⟩ := handle_self P c key ha now y.det k' kind
    exact ⟨v, hv1, by omega⟩

theorem inv_ingest (c : Cfg) (s : St) (k : Registry.Key) (tr now : Nat) (p : Bool) (h : Inv s) :
    Inv (ingest c s k tr now p).1 := by
  unfold ingest
  split
  · exact h
  · split
    · exact Registry.inv_track c s k tr now h
    · cases p with
      | false => exact Registry.inv_track c s k tr now h
      | true => exact Registry.inv_register c _ k tr now (Registry.inv_track c s k tr now h)

theorem inv_regStep (c : Cfg) (s : St) (op : HOp) (h : Inv s) : Inv (regStep c s op).1 := by
  cases op with
  | track k tr now => exact Registry.inv_track c s k tr now h
  | register k tr now => exact Registry.inv_register c s k tr now h
  | ingest k tr now p => exact inv_ingest c s k tr now p h
  | markActive k tr now => exact Registry.inv_markActive c s k tr h
  | sweep now => exact Registry.inv_sweep c now s h
  | dsweep now => exact h

/-- the registry transition of any event, with the closure call `emitted` says it makes -/
theorem trans_regStep (P : Params) (c : Cfg) (hnew : min c.unusedT c.activeT ≤ P.newNs) (hupd : c.activeT ≤ P.updNs)
    (s : St) (hi : Inv s) (op : HOp) :
    Trans P c s (regStep c s op).1 op.time (emitted op (regStep c s op).2) := by
  cases op with
  | track k tr now =>
    have : emitted (.track k tr now) (regStep c s (.track k tr now)).2 = none := by
      simp only [regStep]; split <;> rfl
    rw [this]; exact trans_track P c s k tr now
  | register k tr now => rw [emitted_register]; exact trans_register P c hnew s k tr now
  | ingest k tr now p => rw [emitted_ingest]; exact trans_ingest P c hnew s k tr now p
  | markActive k tr now => rw [emitted_markActive]; exact trans_markActive P c hupd s k tr now
  | sweep now =>
    have : emitted (.sweep now) (regStep c s (.sweep now)).2 = none := by
      simp only [emitted]
    rw [this]; exact trans_sweep P c s hi now
  | dsweep now => exact trans_refl P c s now

theorem good_dropStale (c : Cfg) (key : Registry.Key → Detector.Key) (y : Sys) (now : Nat) (hg : Good c key y now) :
    Good c key { reg := y.reg, det := Detector.dropStale now y.det } now := by
  refine ⟨hg.inv, hg.past, ?_⟩
  intro k r t hd ht hv hb
  obtain ⟨v, hv1, hv2⟩ := hg.cov k r t hd ht hv hb
  exact ⟨v, Detector.get?_dropStale now y.det (key k) v hv1 (by omega), hv2⟩

/-- **every event keeps the invariant** -/
theorem good_step (P : Params) (c : Cfg) (key : Registry.Key → Detector.Key) (ha : Adequate P c key)
    (y : Sys) (last : Nat) (op : HOp) (hl : last ≤ op.time) (hg : Good c key y last) :
    Good c key (step P c y op).1 op.time := by
  have h1 := good_trans P c key ha y last op.time hl hg (regStep c y.reg op).1
    (emitted op (regStep c y.reg op).2) (inv_regStep c y.reg op hg.inv)
    (trans_regStep P c ha.new ha.upd y.reg hg.inv op)
  unfold step detStep
  cases op with
  | dsweep now =>
    have h2 : emitted (.dsweep now) (regStep c y.reg (.dsweep now)).2 = none := rfl
    rw [h2] at h1
    exact good_dropStale c key _ now h1
  | track k tr now => exact h1
  | register k tr now => exact h1
  | ingest k tr now p => exact h1
  | markActive k tr now => exact h1
  | sweep now => exact h1

/-- **every history keeps the invariant**, whatever its length -/
theorem good_run (P : Params) (c : Cfg) (key : Registry.Key → Detector.Key) (ha : Adequate P c key)
    (ops : List HOp) (y : Sys) (last : Nat) (hm : Mono last ops) (hg : Good c key y last) :
    Good c key (run P c ops y) (endTime last ops) := by
  induction ops generalizing y last with
  | nil => exact hg
  | cons o os ih =>
    obtain ⟨h1, h2⟩ := hm
    simp only [run, List.foldl_cons, endTime]
    exact ih (step P c y o).1 o.time h2 (good_step P c key ha y last o h1 hg)

theorem accepts_lt_bound (c : Cfg) (now : Nat) (t : TO) (h : accepts c now t) : now < bound c t := by
  obtain ⟨h1, h2⟩ := h
  unfold bound
  cases hu : t.used with
  | true => simp only [if_true]; omega
  | false =>
    rcases h1 with h1 | h1
    · rw [hu] at h1; cases h1
    · simp only [Bool.false_eq_true, if_false]; omega

/-! ### announcements are made only for what the station tracks; silent operations change no lifetime -/

/-- a closure call is about a registration that is tracked in the state the operation leaves: `New` for
one that is valid from now on, `Update` for one whose record existed before the call and is used now -/
theorem emitted_tracked (c : Cfg) (s : St) (hi : Inv s) (op : HOp) (k : Registry.Key) (kind : Kind)
    (h : emitted op (regStep c s op).2 = some (k, kind)) :
    ∃ r t, (regStep c s op).1.decoys[k]? = some r ∧ (regStep c s op).1.timeouts[k]? = some t ∧
      (kind = .new → r.valid = true ∧ ∀ r0, s.decoys[k]? = some r0 → r0.valid = false) ∧
      (kind = .upd → t.used = true ∧ ∃ t0, s.timeouts[k]? = some t0 ∧ t.time = t0.time) := by
  have reg_case : ∀ (s : St) (k0 : Registry.Key) (tr now : Nat), Inv s →
      (if (Registry.register c s k0 tr now).2 = Out.new then some (k0, Kind.new) else none) = some (k, kind) →
      ∃ r t, (Registry.register c s k0 tr now).1.decoys[k]? = some r ∧
        (Registry.register c s k0 tr now).1.timeouts[k]? = some t ∧
        (kind = .new → r.valid = true ∧ ∀ r0, s.decoys[k]? = some r0 → r0.valid = false) ∧
        (kind = .upd → t.used = true ∧ ∃ t0, s.timeouts[k]? = some t0 ∧ t.time = t0.time) := by
    intro s k0 tr now hi h
    by_cases ho : (Registry.register c s k0 tr now).2 = Out.new
    · rw [if_pos ho] at h
      cases h
      rw [register_out] at ho
      by_cases he : c.enabled.contains tr = true
      · simp only [he, if_true] at ho
        rw [register_decoys_get, Registry.register_timeouts_get]
        simp only [he, and_self, if_true, true_and]
        cases hr : s.decoys[k]? with
        | none =>
          simp only [if_true]
          exact ⟨_, _, rfl, rfl, fun _ => ⟨rfl, fun r0 h0 => by cases h0⟩, fun h => by cases h⟩
        | some r =>
          rw [hr] at ho
          have hval : r.valid = false := by
            cases hv : r.valid with
            | false => rfl
            | true => simp [hv] at ho
          have hc : s.timeouts.contains k = true := by
            rw [← hi k]; exact Registry.contains_of_getElem? _ _ _ hr
          rw [HashMap.contains_eq_isSome_getElem?] at hc
          cases ht : s.timeouts[k]? with
          | none => rw [ht] at hc; cases hc
          | some t =>
            simp only [reduceCtorEq, if_false]
            exact ⟨_, t, rfl, rfl, fun _ => ⟨rfl, fun r0 h0 => by cases h0; exact hval⟩, fun h => by cases h⟩
      · have he' : ¬ tr ∈ c.enabled := by simpa using he
        simp [he'] at ho
    · rw [if_neg ho] at h; cases h
  cases op with
  | track k0 tr now =>
    have : emitted (.track k0 tr now) (regStep c s (.track k0 tr now)).2 = none := by
      simp only [regStep]; split <;> rfl
    rw [this] at h; cases h
  | register k0 tr now =>
    rw [emitted_register] at h
    exact reg_case s k0 tr now hi h
  | ingest k0 tr now p =>
    rw [emitted_ingest] at h
    by_cases ho : (regStep c s (.ingest k0 tr now p)).2 = Out.new
    · rw [if_pos ho] at h
      cases h
      simp only [regStep] at ho ⊢
      obtain ⟨he, hc, hp⟩ := (ingest_out_new c s k tr now p).mp ho
      subst hp
      have he' : tr ∈ c.enabled := by simpa using he
      have hun : ingest c s k tr now true = Registry.register c (Registry.track c s k tr now).1 k tr now := by
        unfold ingest; simp [he', hc]
      rw [hun] at ho ⊢
      obtain ⟨r, t, h1, h2, h3, _⟩ := reg_case (Registry.track c s k tr now).1 k tr now
        (Registry.inv_track c s k tr now hi) (by rw [if_pos ho])
      refine ⟨r, t, h1, h2, fun _ => ⟨(h3 rfl).1, ?_⟩, fun h => by cases h⟩
      intro r0 h0
      have := Registry.contains_of_getElem? _ _ _ h0
      rw [this] at hc; cases hc
    · rw [if_neg ho] at h; cases h
  | markActive k0 tr now =>
    rw [emitted_markActive] at h
    by_cases ho : (regStep c s (.markActive k0 tr now)).2 = Out.upd
    · rw [if_pos ho] at h
      cases h
      simp only [regStep] at ho ⊢
      rw [markActive_out] at ho
      by_cases hc : c.enabled.contains tr = true ∧ (s.timeouts[k]?).isSome
      · obtain ⟨he, hs⟩ := hc
        cases ht : s.timeouts[k]? with
        | none => rw [ht] at hs; cases hs
        | some t0 =>
          have hd : s.decoys.contains k = true := by
            rw [hi k]; exact Registry.contains_of_getElem? _ _ _ ht
          rw [HashMap.contains_eq_isSome_getElem?] at hd
          cases hr : s.decoys[k]? with
          | none => rw [hr] at hd; cases hd
          | some r =>
            rw [markActive_decoys, Registry.markActive_timeouts_get]
            rw [ht, hr]
            simp only [he, and_self, if_true, Option.map_some]
            refine ⟨r, _, rfl, rfl, ?_, ?_⟩
            · intro h; cases h
            · intro _; exact ⟨rfl, t0, rfl, rfl⟩
      · rw [if_neg hc] at ho; cases ho
    · rw [if_neg ho] at h; cases h
  | sweep now =>
    have : emitted (.sweep now) (regStep c s (.sweep now)).2 = none := by
      simp only [emitted]
    rw [this] at h; cases h
  | dsweep now => cases h

/-- **An operation that tells the detector nothing changes no promised lifetime**: every registration that
is valid afterwards was valid before, with the same timeout record (same start of its lifetime, same
used flag).  In particular a duplicate registration does not renew a tracked registration, and nothing
but `register` makes a registration connectable. -/
theorem silent_keeps_lifetimes (P : Params) (c : Cfg) (hnew : min c.unusedT c.activeT ≤ P.newNs) (hupd : c.activeT ≤ P.updNs)
    (s : St) (hi : Inv s) (op : HOp) (hs : emitted op (regStep c s op).2 = none)
    (hp : ∀ (k : Registry.Key) (t : TO), s.timeouts[k]? = some t → t.time ≤ op.time)
    (k : Registry.Key) (r' : Registry.Reg) (t' : TO)
    (hd : (regStep c s op).1.decoys[k]? = some r') (ht : (regStep c s op).1.timeouts[k]? = some t')
    (hv : r'.valid = true ∨ t'.used = true) :
    ∃ r, s.decoys[k]? = some r ∧ s.timeouts[k]? = some t' ∧ (r.valid = true ∨ t'.used = true) := by
  have h := (trans_regStep P c hnew hupd s hi op).recs hp k r' t' hd ht hv
  rw [hs] at h
  rcases h with h | ⟨kind, he, _⟩
  · exact h
  · cases he

end CJ.Announce
