import CJ.Lemmas.CodecDNS
/-! The DNS registration channel end to end (C15): lemmas about the query / response packaging of
`requester` and `responder` (`queryMessage`, `responseFor`, `udpResponse`, `dnsResponsePayload`,
`recvBuffer`, `lenientParse`). Core Lean only. -/
namespace CJ.Codec

theorem Outcome.bind_eq_ok {α β} {o : Outcome α} {f : α → Outcome β} {b : β} (h : o.bind f = .ok b) :
    ∃ a, o = .ok a ∧ f a = .ok b := by
  cases o with
  | ok a => exact ⟨a, rfl, h⟩
  | err e => cases h
  | panic s => cases h
  | hang => cases h

theorem Outcome.isOk_iff {α} {o : Outcome α} : o.isOk = true ↔ ∃ a, o = .ok a := by
  cases o <;> simp [Outcome.isOk]

/-! ### capacity of a query name -/

theorem nameWireLen_cons (l : Label) (n : Name) : nameWireLen (l :: n) = l.length + 1 + nameWireLen n := by
  simp [nameWireLen]; omega

/-- a text of `L` bytes cut into 63-byte labels in front of `dom` takes `L` bytes, one length byte per
started label, and the encoding of `dom` -/
theorem nameWireLen_chunks (e : Bytes) (dom : Name) :
    nameWireLen (chunks e 63 ++ dom) = e.length + (e.length + 62) / 63 + nameWireLen dom := by
  induction e using chunks.induct 63 with
  | case1 p h =>
    rw [chunks, dif_pos h]
    rcases h with h | h
    · simp [h]
    · omega
  | case2 p h ih =>
    rw [chunks, dif_neg h, List.cons_append, nameWireLen_cons, ih]
    simp only [List.length_take, List.length_drop]
    have : p.length ≠ 0 := fun h0 => h (Or.inl h0)
    omega

theorem chunks_append_labels (e : Bytes) (dom : Name) (hd : ∀ l ∈ dom, 0 < l.length ∧ l.length ≤ 63) :
    ∀ l ∈ chunks e 63 ++ dom, 0 < l.length ∧ l.length ≤ 63 := by
  intro l hl
  rcases List.mem_append.mp hl with h | h
  · exact chunks_bounds 63 (by omega) e l h
  · exact hd l h

/-! ### well-formed messages of the channel -/

theorem validName_nil : validName [] := by unfold validName; decide

theorem validName_of_newName {ls : List Label} {n : Name} (h : newName ls = .ok n) : validName n := by
  have := newName_ok_eq h
  subst this
  exact h

theorem queryMessage_WF (id : UInt16) (name : Name) (h : validName name) : (queryMessage id name).WF := by
  constructor <;> simp [queryMessage, optRR, h, validName_nil]

theorem encodeTXT_length (p : Bytes) : (encodeTXT p).length = p.length + (p.length - 1) / 255 + 1 := by
  induction p using encodeTXT.induct with
  | case1 p h ih =>
    rw [encodeTXT, dif_pos h]
    simp only [List.length_cons, List.length_append, List.length_take, ih, List.length_drop]
    omega
  | case2 p h =>
    rw [encodeTXT, dif_neg h]
    simp only [List.length_cons]
    omega

theorem encodeTXT_cons (p : Bytes) : ∃ b rest, encodeTXT p = b :: rest := by
  rw [encodeTXT]; split <;> exact ⟨_, _, rfl⟩

/-! ### `MessageFromWireFormat` and the message `RecvAndRespond` goes on with -/

theorem readU16_ok {buf : Bytes} {pos : Nat} {v : UInt16} {p : Nat} (h : readU16 buf pos = .ok (v, p)) :
    p = pos + 2 := by
  unfold readU16 at h
  split at h
  · cases h; rfl
  · cases h

theorem readU16_ok_lt {buf : Bytes} {pos : Nat} {v : UInt16} {p : Nat} (h : readU16 buf pos = .ok (v, p)) :
    pos + 1 < buf.length := by
  unfold readU16 at h
  split at h
  · rename_i a b ha hb
    exact (List.getElem?_eq_some_iff.mp hb).1
  · cases h

/-- a datagram that parses has at least the 12-byte header -/
theorem messageFromWireFormat_ok_length {buf : Bytes} {m : Message} (h : messageFromWireFormat buf = .ok m) :
    12 ≤ buf.length := by
  unfold messageFromWireFormat at h
  obtain ⟨⟨m', p⟩, h, _⟩ := Outcome.bind_eq_ok h
  unfold readMessage at h
  obtain ⟨⟨id, p1⟩, h1, h⟩ := Outcome.bind_eq_ok h
  obtain ⟨⟨flags, p2⟩, h2, h⟩ := Outcome.bind_eq_ok h
  obtain ⟨⟨qd, p3⟩, h3, h⟩ := Outcome.bind_eq_ok h
  obtain ⟨⟨an, p4⟩, h4, h⟩ := Outcome.bind_eq_ok h
  obtain ⟨⟨ns, p5⟩, h5, h⟩ := Outcome.bind_eq_ok h
  obtain ⟨⟨ar, p6⟩, h6, h⟩ := Outcome.bind_eq_ok h
  have e1 := readU16_ok h1
  have e2 := readU16_ok h2
  have e3 := readU16_ok h3
  have e4 := readU16_ok h4
  have e5 := readU16_ok h5
  have := readU16_ok_lt h6
  omega

theorem readQuestionsAcc_of_ok (buf : Bytes) : ∀ (k pos : Nat) (acc qs : List Question) (p : Nat),
    readQuestions buf k pos = .ok (qs, p) → readQuestionsAcc buf k pos acc = (acc ++ qs, some p) := by
  intro k
  induction k with
  | zero =>
    intro pos acc qs p h
    simp only [readQuestions, Outcome.ok.injEq, Prod.mk.injEq] at h
    obtain ⟨rfl, rfl⟩ := h
    simp [readQuestionsAcc]
  | succ k ih =>
    intro pos acc qs p h
    rw [readQuestions] at h
    obtain ⟨⟨q, p1⟩, h1, h⟩ := Outcome.bind_eq_ok h
    obtain ⟨⟨qs', p2⟩, h2, h⟩ := Outcome.bind_eq_ok h
    simp only [Outcome.ok.injEq, Prod.mk.injEq] at h
    obtain ⟨rfl, rfl⟩ := h
    rw [readQuestionsAcc, h1]
    simp only
    rw [ih p1 (acc ++ [q]) qs' p2 h2]
    simp

theorem readRRsAcc_of_ok (buf : Bytes) : ∀ (k pos : Nat) (acc rs : List RR) (p : Nat),
    readRRs buf k pos = .ok (rs, p) → readRRsAcc buf k pos acc = (acc ++ rs, some p) := by
  intro k
  induction k with
  | zero =>
    intro pos acc rs p h
    simp only [readRRs, Outcome.ok.injEq, Prod.mk.injEq] at h
    obtain ⟨rfl, rfl⟩ := h
    simp [readRRsAcc]
  | succ k ih =>
    intro pos acc rs p h
    rw [readRRs] at h
    obtain ⟨⟨r, p1⟩, h1, h⟩ := Outcome.bind_eq_ok h
    obtain ⟨⟨rs', p2⟩, h2, h⟩ := Outcome.bind_eq_ok h
    simp only [Outcome.ok.injEq, Prod.mk.injEq] at h
    obtain ⟨rfl, rfl⟩ := h
    rw [readRRsAcc, h1]
    simp only
    rw [ih p1 (acc ++ [r]) rs' p2 h2]
    simp

/-- when `readMessage` succeeds (trailing bytes or not), the message `RecvAndRespond` goes on with is
the message read -/
theorem lenientParse_of_readMessage {buf : Bytes} {m : Message} {p : Nat} (h : readMessage buf = .ok (m, p)) :
    lenientParse buf = m := by
  unfold readMessage at h
  obtain ⟨⟨id, p1⟩, h1, h⟩ := Outcome.bind_eq_ok h
  obtain ⟨⟨flags, p2⟩, h2, h⟩ := Outcome.bind_eq_ok h
  obtain ⟨⟨qd, p3⟩, h3, h⟩ := Outcome.bind_eq_ok h
  obtain ⟨⟨an, p4⟩, h4, h⟩ := Outcome.bind_eq_ok h
  obtain ⟨⟨ns, p5⟩, h5, h⟩ := Outcome.bind_eq_ok h
  obtain ⟨⟨ar, p6⟩, h6, h⟩ := Outcome.bind_eq_ok h
  obtain ⟨⟨qs, p7⟩, h7, h⟩ := Outcome.bind_eq_ok h
  obtain ⟨⟨ans, p8⟩, h8, h⟩ := Outcome.bind_eq_ok h
  obtain ⟨⟨auth, p9⟩, h9, h⟩ := Outcome.bind_eq_ok h
  obtain ⟨⟨add, p10⟩, h10, h⟩ := Outcome.bind_eq_ok h
  simp only [Outcome.ok.injEq, Prod.mk.injEq] at h
  obtain ⟨rfl, rfl⟩ := h
  have e1 := readU16_ok h1; subst e1
  have e2 := readU16_ok h2; subst e2
  have e3 := readU16_ok h3; subst e3
  have e4 := readU16_ok h4; subst e4
  have e5 := readU16_ok h5; subst e5
  have e6 := readU16_ok h6; subst e6
  simp only [Nat.zero_add] at h2 h3 h4 h5 h6 h7
  unfold lenientParse
  rw [h1]; simp only
  rw [h2]; simp only
  rw [h3, h4, h5, h6]; simp only
  rw [readQuestionsAcc_of_ok buf _ _ [] qs p7 h7]; simp only
  rw [readRRsAcc_of_ok buf _ _ [] ans p8 h8]; simp only
  rw [readRRsAcc_of_ok buf _ _ [] auth p9 h9]; simp only
  rw [readRRsAcc_of_ok buf _ _ [] add p10 h10]
  simp

theorem lenientParse_of_ok {buf : Bytes} {m : Message} (h : messageFromWireFormat buf = .ok m) :
    lenientParse buf = m := by
  unfold messageFromWireFormat at h
  obtain ⟨⟨m', p⟩, h1, h⟩ := Outcome.bind_eq_ok h
  simp only at h
  split at h
  · cases h
  · cases h
    exact lenientParse_of_readMessage h1

/-- trailing bytes are only logged by `RecvAndRespond`: the complete message goes on -/
theorem lenientParse_trailing {buf : Bytes} {m : Message} {p : Nat} (h : readMessage buf = .ok (m, p)) :
    lenientParse buf = m := lenientParse_of_readMessage h

/-! ### the request path: `responseFor` on the query `send` builds -/

/-- lower-casing, cutting into labels, joining and upper-casing again gives back a text without
lower-case letters (what the base32 encoder produces) -/
theorem upper_flatten_chunks_lower (e : Bytes) (hu : ∀ b ∈ e, ¬ (97 ≤ b ∧ b ≤ 122)) :
    ((chunks (e.map toLowerB) 63).flatten).map toUpperB = e := by
  rw [chunks_flatten 63 (by omega), List.map_map]
  conv => rhs; rw [← List.map_id e]
  apply List.map_congr_left
  intro b hb
  simp [upper_lower b (hu b hb)]

/-- the response `responseFor` builds for a query it accepts: QR and AA set, RCODE 0, the question
echoed, its own OPT RR -/
def okResponse (id : UInt16) (name : Name) : Message := ⟨id, 0x8400, [⟨name, 16, 1⟩], [], [], [optRR 0]⟩

theorem scanOPT_query : scanOPT [optRR 0] [] 0 = .done [optRR 0] 4096 := by decide

theorem responseFor_queryMessage (id : UInt16) (pre dom : Name) (maxUDP : Nat) (hm : maxUDP ≤ 4096)
    (dec : Bytes → Option Bytes) (f : Bytes) (hdec : dec (pre.flatten.map toUpperB) = some f) :
    responseFor (queryMessage id (pre ++ dom)) dom maxUDP dec = some (okResponse id (pre ++ dom), some f) := by
  have h1 : ¬ ((0x0100 : UInt16) &&& 0x8000 ≠ 0) := by decide
  have h2 : ¬ (((0x0100 : UInt16) >>> 11) &&& 0xf ≠ 0) := by decide
  have h3 : ¬ (4096 < maxUDP) := by omega
  have h4 : (0x8000 : UInt16) ||| 0x0400 = 0x8400 := by decide
  have hdec' : dec (List.map (List.map toUpperB) pre).flatten = some f := by rw [← List.map_flatten]; exact hdec
  simp [responseFor, queryMessage, scanOPT_query, trimSuffix_append, hdec', h1, h2, h3, h4, okResponse]

/-! ### the response path -/

/-- The response messages that carry a payload back: what `responseFor` returns together with a
non-nil payload for a query under `dom` (`okResponse_shape`), stated as the facts the round trip uses. -/
structure ResponseShape (resp : Message) (dom : Name) : Prop where
  /-- QR = 1 -/
  qr : resp.flags &&& 0x8000 = 0x8000
  /-- RCODE = NOERROR -/
  rcode : resp.flags &&& 0x000f = 0
  /-- exactly one question: a TXT question for a valid name under the base domain -/
  question : ∃ q, resp.question = [q] ∧ validName q.name ∧ (trimSuffix q.name dom).isSome = true ∧ q.qtype = 16
  ns : ∀ r ∈ resp.authority, validName r.name ∧ r.data.length ≤ 65535
  ar : ∀ r ∈ resp.additional, validName r.name ∧ r.data.length ≤ 65535
  ns_count : resp.authority.length ≤ 65535
  ar_count : resp.additional.length ≤ 65535

theorem okResponse_shape (id : UInt16) (pre dom : Name) (h : validName (pre ++ dom)) :
    ResponseShape (okResponse id (pre ++ dom)) dom := by
  refine ⟨by show (0x8400 : UInt16) &&& 0x8000 = 0x8000; decide, by show (0x8400 : UInt16) &&& 0x000f = 0; decide,
    ⟨⟨pre ++ dom, 16, 1⟩, rfl, h, by simp [trimSuffix_append], rfl⟩, ?_, ?_, ?_, ?_⟩ <;>
    simp [okResponse, optRR, validName_nil]

/-- `dnsRespToUDPResp` on such a response: the payload goes into one TXT answer under the question's
name, and the datagram parses back to exactly that message -/
theorem udpResponse_roundtrip (resp : Message) (dom : Name) (S : ResponseShape resp dom) (f : Bytes)
    (hf : (encodeTXT f).length ≤ 65535) :
    ∃ q buf, resp.question = [q] ∧ udpResponse resp f = .ok buf ∧
      messageFromWireFormat buf = .ok { resp with answer := [⟨q.name, q.qtype, q.qclass, 60, encodeTXT f⟩] } := by
  obtain ⟨q, hq, hv, _, _⟩ := S.question
  have hWF : Message.WF { resp with answer := [⟨q.name, q.qtype, q.qclass, 60, encodeTXT f⟩] } := by
    constructor
    · intro q' hq'; simp only [hq, List.mem_singleton] at hq'; subst hq'; exact hv
    · intro r hr; simp only [List.mem_singleton] at hr; subst hr; exact ⟨hv, hf⟩
    · exact S.ns
    · exact S.ar
    · simp [hq]
    · simp
    · exact S.ns_count
    · exact S.ar_count
  obtain ⟨buf, hw, hr⟩ := wireFormat_roundtrip _ hWF
  refine ⟨q, buf, hq, ?_, hr⟩
  unfold udpResponse
  rw [if_pos S.rcode]
  split
  · rename_i q' hq'
    rw [hq] at hq'
    cases hq'
    exact hw
  · rename_i hne
    exact absurd hq (hne q)

theorem dnsResponsePayload_answer (resp : Message) (dom : Name) (S : ResponseShape resp dom) (q : Question)
    (hq : resp.question = [q]) (f : Bytes) :
    dnsResponsePayload { resp with answer := [⟨q.name, q.qtype, q.qclass, 60, encodeTXT f⟩] } dom = some f := by
  obtain ⟨q', hq', _, ht, h16⟩ := S.question
  rw [hq] at hq'
  cases hq'
  obtain ⟨pre, hpre⟩ := Option.isSome_iff_exists.mp ht
  have hd : decodeTXT (encodeTXT f) = .ok f := by unfold decodeTXT; rw [decodeTXTLoop_encodeTXT]; simp
  simp [dnsResponsePayload, S.qr, S.rcode, hpre, h16, hd]

theorem recvBuffer_of_le (f : Bytes) (h : f.length ≤ 4096) :
    recvBuffer f = f ++ List.replicate (4096 - f.length) 0 := by
  unfold recvBuffer; rw [List.take_of_length_le h]

theorem recvBuffer_length (f : Bytes) : (recvBuffer f).length = 4096 := by
  unfold recvBuffer
  simp only [List.length_append, List.length_take, List.length_replicate]
  omega


/-! ### `send` from the base32 text on -/

theorem buildQuery_ok {e : Bytes} {dom : Name} {id : UInt16} {buf : Bytes} (h : buildQuery e dom id = .ok buf) :
    validName (chunks (e.map toLowerB) 63 ++ dom) ∧
    wireFormat (queryMessage id (chunks (e.map toLowerB) 63 ++ dom)) = .ok buf ∧
    messageFromWireFormat buf = .ok (queryMessage id (chunks (e.map toLowerB) 63 ++ dom)) := by
  unfold buildQuery sendName queryName at h
  obtain ⟨name, hn, hw⟩ := Outcome.bind_eq_ok h
  have hv := validName_of_newName hn
  have := newName_ok_eq hn
  subst this
  obtain ⟨buf', hw', hr⟩ := wireFormat_roundtrip _ (queryMessage_WF id _ hv)
  rw [hw] at hw'
  cases hw'
  exact ⟨hv, hw, hr⟩

theorem buildQuery_isOk_iff (e : Bytes) (dom : Name) (id : UInt16) :
    (buildQuery e dom id).isOk = true ↔ validName (chunks (e.map toLowerB) 63 ++ dom) := by
  constructor
  · intro h
    cases hb : buildQuery e dom id with
    | ok buf => exact (buildQuery_ok hb).1
    | err _ => rw [hb] at h; cases h
    | panic _ => rw [hb] at h; cases h
    | hang => rw [hb] at h; cases h
  · intro hv
    obtain ⟨buf, hw, _⟩ := wireFormat_roundtrip _ (queryMessage_WF id _ hv)
    unfold buildQuery sendName queryName
    rw [newName_ok hv]
    simp only [Outcome.bind]
    rw [hw]; rfl


end CJ.Codec
