import CJ.Model.PipelineEnv
import CJ.Lemmas.Pipeline
/-! Helper lemmas for the timed ingest pipeline (C09): occupancy, the timed shutdown measure, parked workers. -/
namespace CJ.PipelineEnv
open CJ.Pipeline (Dist wD Worker St Act)

/-! ## occupancy -/

theorem occ_congr (sync : List Ix) (e1 e2 : Env) (h : ∀ ix ∈ sync, e1 ix = e2 ix) (l : List Ix) :
    occ sync e1 l = occ sync e2 l := by
  induction l with
  | nil => rfl
  | cons ix rest ih =>
    simp only [occ]
    split
    · rename_i hm
      rw [h ix hm, ih]
    · exact ih

theorem occ_none_of_never (sync : List Ix) (e : Env) (ix : Ix) (hs : ix ∈ sync) (hn : e ix = none)
    (l : List Ix) (hl : ix ∈ l) : occ sync e l = none := by
  induction l with
  | nil => cases hl
  | cons a rest ih =>
    simp only [occ]
    by_cases ha : a = ix
    · subst ha
      simp [hs, hn]
    · have hr : ix ∈ rest := by
        rcases List.mem_cons.mp hl with h | h
        · exact absurd h.symm ha
        · exact h
      rw [ih hr]
      split
      · split <;> simp_all
      · rfl

theorem occ_bounded (sync : List Ix) (e : Env) (B : Nat) (h : ∀ ix ∈ sync, ∃ d, d ≤ B ∧ e ix = some d)
    (l : List Ix) : ∃ n, n ≤ B * l.length ∧ occ sync e l = some n := by
  induction l with
  | nil => exact ⟨0, by simp, rfl⟩
  | cons a rest ih =>
    obtain ⟨r, hr, hor⟩ := ih
    simp only [occ]
    split
    · rename_i hm
      obtain ⟨d, hd, hed⟩ := h a hm
      refine ⟨d + r, ?_, by simp [hed, hor]⟩
      simp only [List.length_cons, Nat.mul_succ]; omega
    · exact ⟨r, by simp only [List.length_cons, Nat.mul_succ]; omega, hor⟩

theorem mem_all (ix : Ix) : ix ∈ Ix.all := by cases ix <;> simp [Ix.all]

/-! ## the timed shutdown measure -/

def mW : Msg → Nat
  | .bad => 2
  | .good (some n) => 2 + n
  | .good none => 2

def wT : TW → Nat
  | .exited => 0
  | .idle => 1
  | .busy m => mW m

def wTSum (ws : List TW) : Nat := (ws.map wT).sum
def qSum (q : List Msg) : Nat := (q.map mW).sum

/-- bounds the number of state-changing actions — time steps included — after a stop request, as long
as nothing is parked for ever -/
def tmu (s : TSt) : Nat := wD s.dist + qSum s.queue + wTSum s.workers

theorem wTSum_set (ws : List TW) (i : Nat) (w w' : TW) (h : ws[i]? = some w) :
    wTSum (ws.set i w') + wT w = wTSum ws + wT w' := by
  induction ws generalizing i with
  | nil => simp at h
  | cons a ws ih =>
    cases i with
    | zero =>
      simp at h; subst h
      simp [wTSum]; omega
    | succ i =>
      simp at h
      have := ih i h
      simp [wTSum] at this ⊢; omega

theorem tickW_eq_or_lt (w : TW) : tickW w = w ∨ wT (tickW w) < wT w := by
  cases w with
  | idle => left; rfl
  | exited => left; rfl
  | busy m =>
    cases m with
    | bad => left; rfl
    | good o =>
      cases o with
      | none => left; rfl
      | some n =>
        cases n with
        | zero => left; rfl
        | succ n => right; simp [tickW, wT, mW]

theorem tickW_le (w : TW) : wT (tickW w) ≤ wT w := by
  rcases tickW_eq_or_lt w with h | h
  · rw [h]; exact Nat.le_refl _
  · exact Nat.le_of_lt h

theorem tick_le (ws : List TW) : wTSum (ws.map tickW) ≤ wTSum ws := by
  induction ws with
  | nil => exact Nat.le_refl _
  | cons a ws ih =>
    have := tickW_le a
    simp [wTSum] at ih ⊢; omega

theorem tick_eq_or_lt (ws : List TW) : ws.map tickW = ws ∨ wTSum (ws.map tickW) < wTSum ws := by
  induction ws with
  | nil => left; rfl
  | cons a ws ih =>
    rcases tickW_eq_or_lt a with ha | ha
    · rcases ih with h | h
      · left; simp [ha, h]
      · right; simp [wTSum, ha] at h ⊢; omega
    · right
      have := tick_le ws
      simp [wTSum] at this ⊢; omega

theorem tick_lt_of_mem (ws : List TW) (n : Nat) (h : TW.busy (.good (some (n + 1))) ∈ ws) :
    wTSum (ws.map tickW) < wTSum ws := by
  induction ws with
  | nil => cases h
  | cons a ws ih =>
    rcases List.mem_cons.mp h with h | h
    · subst h
      have := tick_le ws
      simp [wTSum, tickW, wT, mW] at this ⊢; omega
    · have := ih h
      have ha := tickW_le a
      simp [wTSum] at this ⊢; omega

theorem idleTW_some (ws : List TW) (i : Nat) (h : idleTW ws = some i) : ws[i]? = some .idle := by
  unfold idleTW at h
  obtain ⟨hlt, hp, _⟩ := List.findIdx?_eq_some_iff_getElem.mp h
  have : ws[i] = .idle := by simpa using hp
  rw [List.getElem?_eq_getElem hlt, this]

theorem tcancelled_step (s : TSt) (a : TAct) (h : s.cancelled = true) : (tstep s a).cancelled = true := by
  cases a with
  | cancel => rfl
  | dist input =>
    simp only [tstep]
    split
    · simp [h]
    · split <;> exact h
    · exact h
  | take i => simp only [tstep]; split <;> exact h
  | exit i => simp only [tstep]; split <;> (try split) <;> exact h
  | finish i => simp only [tstep]; split <;> exact h
  | bad i => simp only [tstep]; split <;> exact h
  | tick => exact h

/-- after a stop request every action — the passing of time included — leaves the state unchanged or
strictly decreases `tmu` -/
theorem tmu_step (s : TSt) (a : TAct) (h : s.cancelled = true) : tstep s a = s ∨ tmu (tstep s a) < tmu s := by
  cases a with
  | cancel => left; cases s; simp_all [tstep]
  | dist input =>
    simp only [tstep]
    split
    · rename_i hd
      right; simp [h, tmu, hd, wD]
    · rename_i hd
      split
      · right; simp [tmu, hd, wD]
      · left; rfl
    · left; rfl
  | take i =>
    simp only [tstep]
    split
    · rename_i m q hw hq
      right
      have := wTSum_set s.workers i .idle (.busy m) hw
      simp [wT] at this
      simp only [tmu, hq, qSum, List.map_cons, List.sum_cons]; omega
    · left; rfl
  | exit i =>
    simp only [tstep]
    split
    · rename_i hw
      simp only [h, if_true]
      right
      have := wTSum_set s.workers i .idle .exited hw
      simp [wT] at this
      simp only [tmu]; omega
    · left; rfl
  | finish i =>
    simp only [tstep]
    split
    · rename_i hw
      right
      have := wTSum_set s.workers i (.busy (.good (some 0))) .idle hw
      simp [wT, mW] at this
      simp only [tmu]; omega
    · left; rfl
  | bad i =>
    simp only [tstep]
    split
    · rename_i hw
      right
      have := wTSum_set s.workers i (.busy .bad) .idle hw
      simp [wT, mW] at this
      simp only [tmu]; omega
    · left; rfl
  | tick =>
    simp only [tstep]
    rcases tick_eq_or_lt s.workers with h' | h'
    · left; rw [h']
    · right; simp only [tmu]; omega

/-! ## nothing parked: invariant of the wind-down -/

/-- a stop request has been made and neither a worker nor a buffered message is held for ever -/
def Inv (s : TSt) : Prop :=
  s.cancelled = true ∧ (∀ w ∈ s.workers, w.parked = false) ∧ (∀ m ∈ s.queue, m.parked = false)

theorem mem_set_cases {α} (l : List α) (i : Nat) (x y : α) (h : y ∈ l.set i x) : y ∈ l ∨ y = x := by
  induction l generalizing i with
  | nil => simp at h
  | cons a l ih =>
    cases i with
    | zero =>
      simp at h
      rcases h with h | h
      · right; exact h
      · left; exact List.mem_cons_of_mem _ h
    | succ i =>
      simp at h
      rcases h with h | h
      · left; rw [h]; exact List.mem_cons_self
      · rcases ih i h with h' | h'
        · left; exact List.mem_cons_of_mem _ h'
        · right; exact h'

theorem tickW_parked (w : TW) : (tickW w).parked = w.parked := by
  cases w with
  | idle => rfl
  | exited => rfl
  | busy m =>
    cases m with
    | bad => rfl
    | good o =>
      cases o with
      | none => rfl
      | some n => cases n <;> rfl

theorem inv_step (s : TSt) (a : TAct) (h : Inv s) : Inv (tstep s a) := by
  obtain ⟨hc, hw, hq⟩ := h
  refine ⟨tcancelled_step s a hc, ?_, ?_⟩
  · cases a with
    | cancel => exact hw
    | dist input =>
      simp only [tstep]
      split
      · simp only [hc, if_true]; exact hw
      · split <;> exact hw
      · exact hw
    | take i =>
      simp only [tstep]
      split
      · rename_i m q hwi hqq
        intro w hmem
        rcases mem_set_cases _ _ _ _ hmem with h' | h'
        · exact hw w h'
        · subst h'
          exact hq m (by rw [hqq]; exact List.mem_cons_self)
      · exact hw
    | exit i =>
      simp only [tstep]
      split
      · simp only [hc, if_true]
        intro w hmem
        rcases mem_set_cases _ _ _ _ hmem with h' | h'
        · exact hw w h'
        · subst h'; rfl
      · exact hw
    | finish i =>
      simp only [tstep]
      split
      · intro w hmem
        rcases mem_set_cases _ _ _ _ hmem with h' | h'
        · exact hw w h'
        · subst h'; rfl
      · exact hw
    | bad i =>
      simp only [tstep]
      split
      · intro w hmem
        rcases mem_set_cases _ _ _ _ hmem with h' | h'
        · exact hw w h'
        · subst h'; rfl
      · exact hw
    | tick =>
      simp only [tstep]
      intro w hmem
      obtain ⟨w0, hw0, rfl⟩ := List.mem_map.mp hmem
      rw [tickW_parked]; exact hw w0 hw0
  · cases a with
    | cancel => exact hq
    | dist input =>
      simp only [tstep]
      split
      · simp only [hc, if_true]; exact hq
      · split <;> exact hq
      · exact hq
    | take i =>
      simp only [tstep]
      split
      · rename_i m q hwi hqq
        intro m' hm'
        exact hq m' (by rw [hqq]; exact List.mem_cons_of_mem _ hm')
      · exact hq
    | exit i => simp only [tstep]; split <;> (try split) <;> exact hq
    | finish i => simp only [tstep]; split <;> exact hq
    | bad i => simp only [tstep]; split <;> exact hq
    | tick => exact hq

/-- unless the distributor has returned, something can happen: the distributor leaves its loop or its
wait, an idle worker takes the Done branch, a worker rejects or finishes its message — or time passes
while the environment has not answered yet -/
theorem tprogress (s : TSt) (h : Inv s) (hd : s.dist ≠ .done) : ∃ a, tmu (tstep s a) < tmu s := by
  obtain ⟨hc, hw, _⟩ := h
  cases hdist : s.dist with
  | done => exact absurd hdist hd
  | loop => exact ⟨.dist none, by simp [tstep, hdist, hc, tmu, wD]⟩
  | waiting =>
    by_cases hall : allExitedT s.workers = true
    · exact ⟨.dist none, by simp [tstep, hdist, hall, tmu, wD]⟩
    · have hex : ∃ w, w ∈ s.workers ∧ w ≠ TW.exited := by
        cases hany : s.workers.any (fun w => w != TW.exited) with
        | true =>
          obtain ⟨w, hw', hne⟩ := List.any_eq_true.mp hany
          exact ⟨w, hw', by simpa using hne⟩
        | false =>
          exfalso; apply hall
          unfold allExitedT
          rw [List.all_eq_true]
          intro w hw'
          have := List.any_eq_false.mp hany w hw'
          simpa using this
      obtain ⟨w, hwm, hne⟩ := hex
      obtain ⟨i, hi, hwi⟩ := List.mem_iff_getElem.mp hwm
      have hget : s.workers[i]? = some w := by rw [List.getElem?_eq_getElem hi, hwi]
      cases w with
      | exited => exact absurd rfl hne
      | idle =>
        refine ⟨.exit i, ?_⟩
        have := wTSum_set s.workers i .idle .exited hget
        simp [wT] at this
        simp only [tstep, hget, hc, if_true, tmu]; omega
      | busy m =>
        cases m with
        | bad =>
          refine ⟨.bad i, ?_⟩
          have := wTSum_set s.workers i (.busy .bad) .idle hget
          simp [wT, mW] at this
          simp only [tstep, hget, tmu]; omega
        | good o =>
          cases o with
          | none => have := hw _ hwm; simp [TW.parked, Msg.parked] at this
          | some n =>
            cases n with
            | zero =>
              refine ⟨.finish i, ?_⟩
              have := wTSum_set s.workers i (.busy (.good (some 0))) .idle hget
              simp [wT, mW] at this
              simp only [tstep, hget, tmu]; omega
            | succ n =>
              refine ⟨.tick, ?_⟩
              have := tick_lt_of_mem s.workers n hwm
              simp only [tstep, tmu]; omega

/-! ## a parked worker -/

theorem parked_stays (s : TSt) (a : TAct) (i : Nat) (h : s.workers[i]? = some (.busy (.good none))) :
    (tstep s a).workers[i]? = some (.busy (.good none)) := by
  have ne_of (j : Nat) (w : TW) (hj : s.workers[j]? = some w) (hw : w ≠ .busy (.good none)) : j ≠ i := by
    intro hji; subst hji; rw [h] at hj; exact hw (Option.some.inj hj).symm
  cases a with
  | cancel => exact h
  | dist input =>
    simp only [tstep]
    split
    · split
      · exact h
      · split
        · exact h
        · split
          · rename_i j hj
            have hq : s.queue.isEmpty = true := by
              by_cases hq : s.queue.isEmpty = true
              · exact hq
              · simp [hq] at hj
            simp only [hq, if_true] at hj
            have hji := ne_of j .idle (idleTW_some _ _ hj) (by simp)
            simp only
            rw [List.getElem?_set_ne hji]; exact h
          · split <;> exact h
    · split <;> exact h
    · exact h
  | take j =>
    simp only [tstep]
    split
    · rename_i m q hwj hq
      have hji := ne_of j .idle hwj (by simp)
      simp only
      rw [List.getElem?_set_ne hji]; exact h
    · exact h
  | exit j =>
    simp only [tstep]
    split
    · rename_i hwj
      split
      · have hji := ne_of j .idle hwj (by simp)
        simp only
        rw [List.getElem?_set_ne hji]; exact h
      · exact h
    · exact h
  | finish j =>
    simp only [tstep]
    split
    · rename_i hwj
      have hji := ne_of j _ hwj (by simp)
      simp only
      rw [List.getElem?_set_ne hji]; exact h
    · exact h
  | bad j =>
    simp only [tstep]
    split
    · rename_i hwj
      have hji := ne_of j _ hwj (by simp)
      simp only
      rw [List.getElem?_set_ne hji]; exact h
    · exact h
  | tick =>
    simp only [tstep, List.getElem?_map, h]
    rfl

theorem not_all_exited_of_busy (ws : List TW) (i : Nat) (m : Msg) (h : ws[i]? = some (.busy m)) :
    allExitedT ws = false := by
  cases hall : allExitedT ws with
  | false => rfl
  | true =>
    unfold allExitedT at hall
    rw [List.all_eq_true] at hall
    have hm : TW.busy m ∈ ws := List.mem_of_getElem? h
    have := hall _ hm
    simp at this

theorem not_done_step (s : TSt) (a : TAct) (i : Nat) (h : s.workers[i]? = some (.busy (.good none)))
    (hd : s.dist ≠ .done) : (tstep s a).dist ≠ .done := by
  have hne := not_all_exited_of_busy _ _ _ h
  cases a with
  | cancel => exact hd
  | dist input =>
    simp only [tstep]
    split
    · rename_i hl
      split
      · simp
      · split
        · rw [hl]; simp
        · split
          · simp only; rw [hl]; simp
          · split <;> (simp only; rw [hl]; simp)
    · simp only [hne, Bool.false_eq_true, if_false]; exact hd
    · rename_i hdn; exact absurd hdn hd
  | take j => simp only [tstep]; split <;> exact hd
  | exit j => simp only [tstep]; split <;> (try split) <;> exact hd
  | finish j => simp only [tstep]; split <;> exact hd
  | bad j => simp only [tstep]; split <;> exact hd
  | tick => exact hd

/-! ## size of the measure -/

theorem wTSum_le (ws : List TW) (B : Nat)
    (h : ∀ w ∈ ws, ∀ n, w = TW.busy (.good (some n)) → n ≤ B) : wTSum ws ≤ ws.length * (2 + B) := by
  induction ws with
  | nil => simp [wTSum]
  | cons a ws ih =>
    have iha := ih (fun w hw n hn => h w (List.mem_cons_of_mem _ hw) n hn)
    have ha : wT a ≤ 2 + B := by
      cases a with
      | idle => simp [wT]; omega
      | exited => simp [wT]
      | busy m =>
        cases m with
        | bad => simp [wT, mW]
        | good o =>
          cases o with
          | none => simp [wT, mW]
          | some n =>
            have := h _ List.mem_cons_self n rfl
            simp [wT, mW]; omega
    simp only [wTSum, List.map_cons, List.sum_cons, List.length_cons] at iha ⊢
    rw [Nat.succ_mul]; omega

theorem qSum_le (q : List Msg) (B : Nat)
    (h : ∀ m ∈ q, ∀ n, m = Msg.good (some n) → n ≤ B) : qSum q ≤ q.length * (2 + B) := by
  induction q with
  | nil => simp [qSum]
  | cons a q ih =>
    have iha := ih (fun m hm n hn => h m (List.mem_cons_of_mem _ hm) n hn)
    have ha : mW a ≤ 2 + B := by
      cases a with
      | bad => simp [mW]
      | good o =>
        cases o with
        | none => simp [mW]
        | some n =>
          have := h _ List.mem_cons_self n rfl
          simp [mW]; omega
    simp only [qSum, List.map_cons, List.sum_cons, List.length_cons] at iha ⊢
    rw [Nat.succ_mul]; omega

/-! ## the timed pipeline refines the untimed one -/

def eraseW : TW → Worker
  | .idle => .idle
  | .busy _ => .busy
  | .exited => .exited

/-- forget time and what the messages are: the state of `CJ.Pipeline` -/
def erase (s : TSt) : St :=
  { cap := s.cap, buf := s.queue.length, workers := s.workers.map eraseW, cancelled := s.cancelled, dist := s.dist,
    received := s.received, forwarded := s.forwarded, dropped := s.dropped, processed := s.processed,
    rejected := s.rejected }

theorem eraseW_tick (w : TW) : eraseW (tickW w) = eraseW w := by
  cases w with
  | idle => rfl
  | exited => rfl
  | busy m =>
    cases m with
    | bad => rfl
    | good o =>
      cases o with
      | none => rfl
      | some n => cases n <;> rfl

theorem idle_erase (ws : List TW) : CJ.Pipeline.idleWorker (ws.map eraseW) = idleTW ws := by
  unfold CJ.Pipeline.idleWorker idleTW
  induction ws with
  | nil => rfl
  | cons a ws ih =>
    simp only [List.map_cons, List.findIdx?_cons]
    cases a <;> simp [eraseW, ih]

theorem allExited_erase (ws : List TW) : CJ.Pipeline.allExited (ws.map eraseW) = allExitedT ws := by
  unfold CJ.Pipeline.allExited allExitedT
  induction ws with
  | nil => rfl
  | cons a ws ih =>
    simp only [List.map_cons, List.all_cons, ih]
    cases a <;> first | rfl | simp [eraseW]

theorem erase_get (ws : List TW) (i : Nat) : (ws.map eraseW)[i]? = (ws[i]?).map eraseW := by
  simp

/-- every timed action is an action of the untimed pipeline or a stutter (time passing, a `finish` or
`bad` that is not enabled yet) -/
theorem timed_step_refines (s : TSt) (a : TAct) :
    ∃ acts : List Act, acts.length ≤ 1 ∧ erase (tstep s a) = CJ.Pipeline.run (erase s) acts := by
  cases a with
  | cancel => exact ⟨[.cancel], Nat.le_refl _, rfl⟩
  | tick =>
    refine ⟨[], Nat.zero_le _, ?_⟩
    simp only [tstep, erase, CJ.Pipeline.run, List.foldl_nil, List.map_map]
    congr 1
    apply List.map_congr_left
    intro w _
    exact eraseW_tick w
  | dist input =>
    cases input with
    | none =>
      refine ⟨[.dist false], Nat.le_refl _, ?_⟩
      simp only [CJ.Pipeline.run, List.foldl_cons, List.foldl_nil, tstep, CJ.Pipeline.step]
      cases hd : s.dist with
      | loop =>
        simp only [erase, hd]
        cases hc : s.cancelled <;> simp [hc, hd]
      | waiting =>
        simp only [erase, hd, allExited_erase]
        cases hall : allExitedT s.workers <;> simp [hd]
      | done => simp [erase, hd]
    | some m =>
      refine ⟨[.dist true], Nat.le_refl _, ?_⟩
      simp only [CJ.Pipeline.run, List.foldl_cons, List.foldl_nil, tstep, CJ.Pipeline.step]
      cases hd : s.dist with
      | loop =>
        simp only [erase, hd]
        cases hc : s.cancelled with
        | true => simp [hd]
        | false =>
          simp only [Bool.false_eq_true, if_false, Bool.not_true, idle_erase]
          have hq : (s.queue.length = 0) = (s.queue.isEmpty = true) := by
            cases s.queue <;> simp
          simp only [hq]
          cases hsel : (if s.queue.isEmpty = true then idleTW s.workers else none) with
          | some i =>
            simp only [hd, hc, List.map_set, eraseW]
          | none =>
            simp only
            split
            · simp [hd, hc]
            · simp [hd, hc]
      | waiting =>
        simp only [erase, hd, allExited_erase]
        cases hall : allExitedT s.workers <;> simp [hd]
      | done => simp [erase, hd]
  | take i =>
    refine ⟨[.take i], Nat.le_refl _, ?_⟩
    simp only [CJ.Pipeline.run, List.foldl_cons, List.foldl_nil, tstep, CJ.Pipeline.step]
    cases hw : s.workers[i]? with
    | none => simp [erase, hw]
    | some w =>
      cases w with
      | idle =>
        cases hq : s.queue with
        | nil => simp [erase, hw, hq, eraseW]
        | cons m q => simp [erase, hw, hq, eraseW, List.map_set]
      | busy m => cases hq : s.queue <;> simp [erase, hw, hq, eraseW]
      | exited => cases hq : s.queue <;> simp [erase, hw, hq, eraseW]
  | exit i =>
    refine ⟨[.exit i], Nat.le_refl _, ?_⟩
    simp only [CJ.Pipeline.run, List.foldl_cons, List.foldl_nil, tstep, CJ.Pipeline.step]
    cases hw : s.workers[i]? with
    | none => simp [erase, hw]
    | some w =>
      cases w with
      | idle => cases hc : s.cancelled <;> simp [erase, hw, hc, eraseW, List.map_set]
      | busy m => simp [erase, hw, eraseW]
      | exited => simp [erase, hw, eraseW]
  | finish i =>
    cases hw : s.workers[i]? with
    | none => exact ⟨[], Nat.zero_le _, by simp [tstep, hw, CJ.Pipeline.run]⟩
    | some w =>
      by_cases hready : w = .busy (.good (some 0))
      · subst hready
        refine ⟨[.finish i], Nat.le_refl _, ?_⟩
        simp [CJ.Pipeline.run, tstep, CJ.Pipeline.step, erase, hw, eraseW, List.map_set]
      · refine ⟨[], Nat.zero_le _, ?_⟩
        have : tstep s (.finish i) = s := by
          simp only [tstep, hw]
          split
          · rename_i h; exact absurd (Option.some.inj h) hready
          · rfl
        rw [this]; rfl
  | bad i =>
    cases hw : s.workers[i]? with
    | none => exact ⟨[], Nat.zero_le _, by simp [tstep, hw, CJ.Pipeline.run]⟩
    | some w =>
      by_cases hready : w = .busy .bad
      · subst hready
        refine ⟨[.bad i], Nat.le_refl _, ?_⟩
        simp [CJ.Pipeline.run, tstep, CJ.Pipeline.step, erase, hw, eraseW, List.map_set]
      · refine ⟨[], Nat.zero_le _, ?_⟩
        have : tstep s (.bad i) = s := by
          simp only [tstep, hw]
          split
          · rename_i h; exact absurd (Option.some.inj h) hready
          · rfl
        rw [this]; rfl

theorem run_append (s : St) (a b : List Act) : CJ.Pipeline.run s (a ++ b) = CJ.Pipeline.run (CJ.Pipeline.run s a) b := by
  simp [CJ.Pipeline.run, List.foldl_append]

theorem timed_run_refines (s : TSt) (acts : List TAct) :
    ∃ acts' : List Act, acts'.length ≤ acts.length ∧ erase (trun s acts) = CJ.Pipeline.run (erase s) acts' := by
  induction acts generalizing s with
  | nil => exact ⟨[], Nat.le_refl _, rfl⟩
  | cons a acts ih =>
    obtain ⟨a1, hl1, h1⟩ := timed_step_refines s a
    obtain ⟨a2, hl2, h2⟩ := ih (tstep s a)
    refine ⟨a1 ++ a2, by simp only [List.length_append, List.length_cons]; omega, ?_⟩
    rw [run_append, ← h1]
    exact h2

end CJ.PipelineEnv
