import CJ.Model.RW
/-!
# Lemmas about the RWMutex model: progress, preservation of `ok`, the termination measure, mutual
exclusion and the view invariant behind `old_or_new_in_full`.
-/
namespace CJ.RW

-- destructure `h : [guard ∧] thread = t' ∧ version = v` as left by `simp [stepThread] at h`
set_option hygiene false in
macro "inv_step " h:ident : tactic =>
  `(tactic| first | (obtain ⟨rfl, rfl⟩ := $h) | (obtain ⟨_, rfl, rfl⟩ := $h))

/-! ### global predicates as statements about members -/

theorem readersActive_false {s : St} : readersActive s = false ↔ ∀ t ∈ s.ths, t.rd = 0 := by
  unfold readersActive
  rw [List.any_eq_false]
  constructor
  · intro h t ht
    have := h t ht
    simp at this; exact this
  · intro h t ht
    simp [h t ht]

theorem writerActive_false {s : St} : writerActive s = false ↔ ∀ t ∈ s.ths, t.w ≠ .held := by
  unfold writerActive
  rw [List.any_eq_false]
  constructor
  · intro h t ht hw
    have := h t ht
    simp [hw] at this
  · intro h t ht
    simp [h t ht]

theorem writerPending_false {s : St} : writerPending s = false ↔ ∀ t ∈ s.ths, t.w ≠ .waiting := by
  unfold writerPending
  rw [List.any_eq_false]
  constructor
  · intro h t ht hw
    have := h t ht
    simp [hw] at this
  · intro h t ht
    simp [h t ht]

/-! ### progress -/

/-- a thread inside a section (reading or holding the write lock) can always step -/
theorem inside_steps (s : St) (t : Thread) (hok : t.ok = true) (hin : t.rd = 1 ∨ t.w = .held) :
    (stepThread s t).isSome = true := by
  rcases t with ⟨rd, w, prog, cur, seen, refused⟩
  simp only at hin
  rcases hin with h | h
  · subst h
    cases w <;> simp [Thread.ok] at hok
    cases prog with
    | nil => simp [flatFrom] at hok
    | cons o p => cases o <;> simp [flatFrom] at hok <;> simp [stepThread]
  · subst h
    match rd, hok with
    | 0, hok =>
      simp [Thread.ok] at hok
      cases prog with
      | nil => simp [flatFrom] at hok
      | cons o p => cases o <;> simp [flatFrom] at hok <;> simp [stepThread]
    | 1, hok => simp [Thread.ok] at hok
    | n + 2, hok => simp [Thread.ok] at hok

/-- **Deadlock freedom.** If every thread is in a state of the flat grammar, then unless every thread
has finished some thread can step — for any number of threads. -/
theorem progress (s : St) (hok : ∀ t ∈ s.ths, t.ok = true) (hnd : ∃ t ∈ s.ths, t.done = false) :
    ∃ t ∈ s.ths, (stepThread s t).isSome = true := by
  by_cases h1 : ∃ t ∈ s.ths, t.rd = 1 ∨ t.w = .held
  · obtain ⟨t, ht, hin⟩ := h1
    exact ⟨t, ht, inside_steps s t (hok t ht) hin⟩
  · -- nobody reads or writes
    have hrd : ∀ t ∈ s.ths, t.rd = 0 := by
      intro t ht
      have hk := hok t ht
      rcases t with ⟨rd, w, prog, cur, seen, refused⟩
      match rd, hk with
      | 0, _ => rfl
      | 1, _ => exact absurd ⟨_, ht, Or.inl rfl⟩ h1
      | n + 2, hk => cases w <;> simp [Thread.ok] at hk
    have hw : ∀ t ∈ s.ths, t.w ≠ .held := fun t ht hh => h1 ⟨t, ht, Or.inr hh⟩
    have hra := readersActive_false.mpr hrd
    have hwa := writerActive_false.mpr hw
    by_cases h2 : ∃ t ∈ s.ths, t.w = .waiting
    · obtain ⟨t, ht, hwt⟩ := h2
      refine ⟨t, ht, ?_⟩
      have hk := hok t ht
      have hr0 := hrd t ht
      rcases t with ⟨rd, w, prog, cur, seen, refused⟩
      simp only at hwt hr0
      subst hwt; subst hr0
      cases prog with
      | nil => simp [Thread.ok] at hk
      | cons o p =>
        cases o <;> simp [Thread.ok] at hk
        simp [stepThread, hra, hwa]
    · have hwp := writerPending_false.mpr (fun t ht hh => h2 ⟨t, ht, hh⟩)
      obtain ⟨t, ht, hd⟩ := hnd
      refine ⟨t, ht, ?_⟩
      have hk := hok t ht
      have hr0 := hrd t ht
      have hw0 : t.w = .none := by
        have a := hw t ht
        have b : t.w ≠ .waiting := fun hh => h2 ⟨t, ht, hh⟩
        cases hc : t.w <;> simp_all
      rcases t with ⟨rd, w, prog, cur, seen, refused⟩
      simp only at hr0 hw0
      subst hr0; subst hw0
      cases prog with
      | nil => simp [Thread.done] at hd
      | cons o p =>
        cases o <;> simp [Thread.ok, flatFrom] at hk <;> simp [stepThread, hra, hwa, hwp]

/-! ### `ok` is preserved -/

theorem ok_stepThread (s : St) (t t' : Thread) (v : Nat) (hok : t.ok = true)
    (h : stepThread s t = some (t', v)) : t'.ok = true := by
  rcases t with ⟨rd, w, prog, cur, seen, refused⟩
  cases prog with
  | nil => cases w <;> simp [stepThread] at h
  | cons o p =>
    rcases rd with _ | _ | n
    · cases w <;> cases o <;> simp [Thread.ok, flatFrom] at hok <;> simp [stepThread] at h <;>
        (try split at h) <;> (try simp only [Option.some.injEq, Prod.mk.injEq] at h) <;>
        inv_step h <;> simp [Thread.ok, flatFrom, hok]
    · cases w <;> cases o <;> simp [Thread.ok, flatFrom] at hok <;> simp [stepThread] at h <;>
        (try split at h) <;> (try simp only [Option.some.injEq, Prod.mk.injEq] at h) <;>
        inv_step h <;> simp [Thread.ok, flatFrom, hok]
    · cases w <;> simp [Thread.ok] at hok

theorem step_cases {s s' : St} {i : Nat} (h : step s i = some s') :
    ∃ t t' v, s.ths[i]? = some t ∧ stepThread s t = some (t', v) ∧ s' = { ths := s.ths.set i t', ver := v } := by
  unfold step at h
  cases ht : s.ths[i]? with
  | none => simp [ht] at h
  | some t =>
    simp only [ht] at h
    cases hs : stepThread s t with
    | none => simp [hs] at h
    | some r =>
      obtain ⟨t', v⟩ := r
      simp only [hs, Option.some.injEq] at h
      exact ⟨t, t', v, rfl, hs, h.symm⟩

theorem ok_step {s s' : St} {i : Nat} (h : step s i = some s') (hok : ∀ t ∈ s.ths, t.ok = true) :
    ∀ t ∈ s'.ths, t.ok = true := by
  obtain ⟨t, t', v, hi, hst, rfl⟩ := step_cases h
  intro u hu
  rcases List.mem_or_eq_of_mem_set hu with hu | rfl
  · exact hok u hu
  · exact ok_stepThread s t u v (hok t (List.mem_of_getElem? hi)) hst

theorem ok_exec {s s' : St} {sched : List Nat} (h : exec s sched = some s') (hok : ∀ t ∈ s.ths, t.ok = true) :
    ∀ t ∈ s'.ths, t.ok = true := by
  induction sched generalizing s with
  | nil => simp [exec] at h; subst h; exact hok
  | cons i is ih =>
    simp only [exec] at h
    cases hs : step s i with
    | none => simp [hs] at h
    | some s1 => simp only [hs] at h; exact ih h (ok_step hs hok)

theorem ok_init (progs : List (List Op)) (h : ∀ p ∈ progs, flat p = true) : ∀ t ∈ (init progs).ths, t.ok = true := by
  intro t ht
  simp only [init, List.mem_map] at ht
  obtain ⟨p, hp, rfl⟩ := ht
  simpa [Thread.ok, flat] using h p hp

/-! ### the measure decreases -/

theorem measure_stepThread (s : St) (t t' : Thread) (v : Nat) (h : stepThread s t = some (t', v)) :
    t'.measure < t.measure := by
  rcases t with ⟨rd, w, prog, cur, seen, refused⟩
  cases prog with
  | nil => cases w <;> simp [stepThread] at h
  | cons o p =>
    cases w <;> cases o <;> simp [stepThread] at h <;>
      (try split at h) <;> (try simp only [Option.some.injEq, Prod.mk.injEq] at h) <;>
      inv_step h <;> simp [Thread.measure] <;> omega

theorem sum_map_set (f : Thread → Nat) (l : List Thread) (i : Nat) (t t' : Thread) (hi : l[i]? = some t) :
    ((l.set i t').map f).sum + f t = (l.map f).sum + f t' := by
  induction l generalizing i with
  | nil => simp at hi
  | cons a l ih =>
    cases i with
    | zero =>
      simp only [List.getElem?_cons_zero, Option.some.injEq] at hi; subst hi
      simp only [List.set_cons_zero, List.map_cons, List.sum_cons]; omega
    | succ i =>
      simp only [List.getElem?_cons_succ] at hi
      have := ih i hi
      simp only [List.set_cons_succ, List.map_cons, List.sum_cons]; omega

theorem measure_step {s s' : St} {i : Nat} (h : step s i = some s') : measure s' < measure s := by
  obtain ⟨t, t', v, hi, hst, rfl⟩ := step_cases h
  have hm := measure_stepThread s t t' v hst
  have := sum_map_set Thread.measure s.ths i t t' hi
  unfold measure
  simp only
  omega

theorem measure_exec {s s' : St} {sched : List Nat} (h : exec s sched = some s') :
    sched.length + measure s' ≤ measure s := by
  induction sched generalizing s with
  | nil => simp [exec] at h; subst h; simp
  | cons i is ih =>
    simp only [exec] at h
    cases hs : step s i with
    | none => simp [hs] at h
    | some s1 =>
      simp only [hs] at h
      have := ih h
      have := measure_step hs
      simp only [List.length_cons]; omega

/-! ### from member-wise progress to an enabled index -/

theorem progress_index (s : St) (hok : ∀ t ∈ s.ths, t.ok = true) (hnd : allDone s = false) :
    ∃ i s', step s i = some s' := by
  have hnd' : ∃ t ∈ s.ths, t.done = false := by
    unfold allDone at hnd
    rw [List.all_eq_false] at hnd
    obtain ⟨t, ht, hd⟩ := hnd
    exact ⟨t, ht, by simpa using hd⟩
  obtain ⟨t, ht, hs⟩ := progress s hok hnd'
  obtain ⟨i, hi, hget⟩ := List.getElem_of_mem ht
  cases hst : stepThread s t with
  | none => simp [hst] at hs
  | some r =>
    refine ⟨i, { ths := s.ths.set i r.1, ver := r.2 }, ?_⟩
    have : s.ths[i]? = some t := by rw [List.getElem?_eq_getElem hi, hget]
    simp [step, this, hst]

theorem exec_append {s s1 s2 : St} {a b : List Nat} (h1 : exec s a = some s1) (h2 : exec s1 b = some s2) :
    exec s (a ++ b) = some s2 := by
  induction a generalizing s with
  | nil => simp [exec] at h1; subst h1; simpa using h2
  | cons i is ih =>
    simp only [exec] at h1
    cases hs : step s i with
    | none => simp [hs] at h1
    | some s' =>
      simp only [hs] at h1
      simp only [List.cons_append, exec, hs]
      exact ih h1

/-- every flat state can be run to completion -/
theorem can_complete (n : Nat) : ∀ s : St, measure s ≤ n → (∀ t ∈ s.ths, t.ok = true) →
    ∃ sched s', exec s sched = some s' ∧ allDone s' = true := by
  induction n with
  | zero =>
    intro s hm hok
    cases hd : allDone s with
    | true => exact ⟨[], s, rfl, hd⟩
    | false =>
      obtain ⟨i, s', hs⟩ := progress_index s hok hd
      have := measure_step hs
      omega
  | succ n ih =>
    intro s hm hok
    cases hd : allDone s with
    | true => exact ⟨[], s, rfl, hd⟩
    | false =>
      obtain ⟨i, s', hs⟩ := progress_index s hok hd
      have hlt := measure_step hs
      obtain ⟨sched, s2, he, hd2⟩ := ih s' (by omega) (ok_step hs hok)
      exact ⟨i :: sched, s2, by simp [exec, hs, he], hd2⟩

/-! ### mutual exclusion -/

/-- no reader while a writer holds the lock -/
def Excl (s : St) : Prop := ∀ t ∈ s.ths, ∀ u ∈ s.ths, 0 < t.rd → u.w ≠ .held

theorem excl_init (progs : List (List Op)) : Excl (init progs) := by
  intro t ht u hu hr
  simp only [init, List.mem_map] at ht
  obtain ⟨p, _, rfl⟩ := ht
  simp at hr

/-- what a step does to the lock fields of the stepping thread -/
theorem stepThread_locks (s : St) (t t' : Thread) (v : Nat) (h : stepThread s t = some (t', v)) :
    (t'.rd ≤ t.rd ∨ (writerActive s = false ∧ t'.w = t.w)) ∧
    (t'.w = .held → t.w = .held ∨ readersActive s = false) := by
  rcases t with ⟨rd, w, prog, cur, seen, refused⟩
  cases prog with
  | nil => cases w <;> simp [stepThread] at h
  | cons o p =>
    cases w <;> cases o <;> simp [stepThread] at h <;>
      (try split at h) <;> (try simp only [Option.some.injEq, Prod.mk.injEq] at h) <;>
      first
        | (obtain ⟨rfl, rfl⟩ := h; simp_all)
        | (obtain ⟨hg, rfl, rfl⟩ := h; simp_all)

theorem excl_step {s s' : St} {i : Nat} (h : step s i = some s') (hex : Excl s) : Excl s' := by
  obtain ⟨t, t', v, hi, hst, rfl⟩ := step_cases h
  have htm := List.mem_of_getElem? hi
  obtain ⟨hrd, hwr⟩ := stepThread_locks s t t' v hst
  intro a ha b hb hr hw
  simp only at ha hb
  rcases List.mem_or_eq_of_mem_set ha with ha' | ea <;> rcases List.mem_or_eq_of_mem_set hb with hb' | eb
  · exact hex a ha' b hb' hr hw
  · -- b is the stepped thread and now holds the write lock
    rw [eb] at hw
    rcases hwr hw with h1 | h1
    · exact hex a ha' t htm hr h1
    · have := readersActive_false.mp h1 a ha'; omega
  · -- a is the stepped thread and reads
    rw [ea] at hr
    rcases hrd with h1 | ⟨h1, _⟩
    · exact hex t htm b hb' (by omega) hw
    · exact writerActive_false.mp h1 b hb' hw
  · rw [ea] at hr; rw [eb] at hw
    rcases hwr hw with h1 | h1
    · rcases hrd with h2 | ⟨h2, _⟩
      · exact hex t htm t htm (by omega) h1
      · exact writerActive_false.mp h2 t htm h1
    · rcases hrd with h2 | ⟨h2, h3⟩
      · have := readersActive_false.mp h1 t htm; omega
      · rw [h3] at hw
        exact writerActive_false.mp h2 t htm hw

/-! ### the view of a request: one selector version in full -/

/-- Invariant of a request thread (flat, reader-only, one read section) against the current version. -/
def View (t : Thread) (ver : Nat) : Prop :=
  t.ok = true ∧ t.w = .none ∧ readerProg t.prog = true ∧
  ((t.cur = none ∧ t.seen = [] ∧ oneSection t.prog = true) ∨
   (∃ v, t.cur = some v ∧ (∀ x ∈ t.seen, x = some v) ∧
      ((t.rd = 1 ∧ v = ver ∧ inSec t.prog = true) ∨ noRead t.prog = true)))

theorem view_init (p : List Op) (hf : flat p = true) (hr : readerProg p = true) (h1 : oneSection p = true) (ver : Nat) :
    View { prog := p } ver := by
  refine ⟨by simpa [Thread.ok, flat] using hf, rfl, hr, Or.inl ⟨rfl, rfl, h1⟩⟩

theorem noRead_inSec : ∀ p, noRead p = true → readerProg p = true → inSec p = true
  | [], _, _ => rfl
  | o :: p, h, hr => by
    have hr' : readerProg p = true := by
      simp [readerProg] at hr ⊢; exact hr.2
    cases o <;> simp [noRead, inSec, readerProg] at h hr ⊢
    all_goals first | exact h | exact noRead_inSec p h hr'

/-- the stepping thread keeps its view; its step does not change the version -/
theorem view_stepThread (s : St) (t t' : Thread) (v : Nat) (hv : View t s.ver)
    (h : stepThread s t = some (t', v)) : v = s.ver ∧ View t' v := by
  obtain ⟨hok, hw, hrp, hview⟩ := hv
  have hok' := ok_stepThread s t t' v hok h
  rcases t with ⟨rd, w, prog, cur, seen, refused⟩
  simp only at hw; subst hw
  cases prog with
  | nil => simp [stepThread] at h
  | cons o p =>
    have hrp' : readerProg p = true := by
      simp [readerProg] at hrp ⊢; exact hrp.2
    cases o
    case lock => simp [readerProg] at hrp
    case unlock => simp [readerProg] at hrp
    case swapSel => simp [readerProg] at hrp
    case trylock => simp [readerProg] at hrp
    case gate =>
      simp [stepThread] at h
      obtain ⟨rfl, rfl⟩ := h
      refine ⟨rfl, hok', rfl, hrp', ?_⟩
      rcases hview with ⟨hc, hs, h1⟩ | ⟨x, hc, hs, hh⟩
      · exact Or.inl ⟨hc, hs, by simpa [oneSection] using h1⟩
      · refine Or.inr ⟨x, hc, hs, ?_⟩
        rcases hh with ⟨a, b, hh⟩ | hh
        · exact Or.inl ⟨a, b, by simpa [inSec] using hh⟩
        · exact Or.inr (by simpa [noRead] using hh)
    case tryrlock =>
      simp [stepThread] at h
      split at h
      · -- acquired: as `rlock`
        simp only [Option.some.injEq, Prod.mk.injEq] at h
        obtain ⟨rfl, rfl⟩ := h
        refine ⟨rfl, hok', rfl, hrp', ?_⟩
        rcases hview with ⟨hc, hs, h1⟩ | ⟨x, hc, hs, hh⟩
        · exact Or.inl ⟨hc, hs, by simpa [oneSection] using h1⟩
        · refine Or.inr ⟨x, hc, hs, ?_⟩
          rcases hh with ⟨hr1, _, _⟩ | hh
          · simp only at hr1; subst hr1
            simp [Thread.ok, flatFrom] at hok
          · exact Or.inr (by simpa [noRead] using hh)
      · -- refused: the thread ends here, having used what it had used
        simp only [Option.some.injEq, Prod.mk.injEq] at h
        obtain ⟨rfl, rfl⟩ := h
        refine ⟨rfl, hok', rfl, by simp [readerProg], ?_⟩
        rcases hview with ⟨hc, hs, _⟩ | ⟨x, hc, hs, _⟩
        · exact Or.inl ⟨hc, hs, rfl⟩
        · exact Or.inr ⟨x, hc, hs, Or.inr rfl⟩
    case rlock =>
      simp [stepThread] at h
      obtain ⟨_, rfl, rfl⟩ := h
      refine ⟨rfl, hok', rfl, hrp', ?_⟩
      rcases hview with ⟨hc, hs, h1⟩ | ⟨x, hc, hs, hh⟩
      · exact Or.inl ⟨hc, hs, by simpa [oneSection] using h1⟩
      · refine Or.inr ⟨x, hc, hs, ?_⟩
        rcases hh with ⟨hr1, _, _⟩ | hh
        · -- rlock while reading is not flat
          simp only at hr1; subst hr1
          simp [Thread.ok, flatFrom] at hok
        · exact Or.inr (by simpa [noRead] using hh)
    case runlock =>
      simp [stepThread] at h
      obtain ⟨_, rfl, rfl⟩ := h
      refine ⟨rfl, hok', rfl, hrp', ?_⟩
      rcases hview with ⟨hc, hs, h1⟩ | ⟨x, hc, hs, hh⟩
      · exact Or.inl ⟨hc, hs, by simpa [oneSection] using h1⟩
      · refine Or.inr ⟨x, hc, hs, Or.inr ?_⟩
        rcases hh with ⟨_, _, hh⟩ | hh
        · simpa [inSec] using hh
        · simpa [noRead] using hh
    case readSel =>
      simp [stepThread] at h
      obtain ⟨rfl, rfl⟩ := h
      refine ⟨rfl, hok', rfl, hrp', ?_⟩
      -- a flat reader evaluates the field only while holding the read lock
      have hrd1 : rd = 1 := by
        match rd, hok with
        | 0, hok => simp [Thread.ok, flatFrom] at hok
        | 1, _ => rfl
        | n + 2, hok => simp [Thread.ok] at hok
      rcases hview with ⟨hc, hs, h1⟩ | ⟨x, hc, hs, hh⟩
      · simp only at hs; subst hs
        exact Or.inr ⟨s.ver, rfl, by simp, Or.inl ⟨hrd1, rfl, by simpa [oneSection] using h1⟩⟩
      · rcases hh with ⟨_, hx, hh⟩ | hh
        · subst hx
          exact Or.inr ⟨s.ver, rfl, hs, Or.inl ⟨hrd1, rfl, by simpa [inSec] using hh⟩⟩
        · simp [noRead] at hh
    case select =>
      simp [stepThread] at h
      obtain ⟨rfl, rfl⟩ := h
      refine ⟨rfl, hok', rfl, hrp', ?_⟩
      rcases hview with ⟨hc, hs, h1⟩ | ⟨x, hc, hs, hh⟩
      · simp [oneSection] at h1
      · refine Or.inr ⟨x, hc, ?_, ?_⟩
        · intro y hy
          simp only [List.mem_append, List.mem_singleton] at hy
          rcases hy with hy | rfl
          · exact hs y hy
          · exact hc
        · rcases hh with ⟨a, b, hh⟩ | hh
          · exact Or.inl ⟨a, b, by simpa [inSec] using hh⟩
          · exact Or.inr (by simpa [noRead] using hh)

/-- a step that changes the version is taken by a thread holding the write lock -/
theorem stepThread_ver (s : St) (t t' : Thread) (v : Nat) (hok : t.ok = true)
    (h : stepThread s t = some (t', v)) : v = s.ver ∨ t.w = .held := by
  rcases t with ⟨rd, w, prog, cur, seen, refused⟩
  cases prog with
  | nil => cases w <;> simp [stepThread] at h
  | cons o p =>
    cases w <;> cases o <;> simp [stepThread] at h <;>
      (try split at h) <;> (try simp only [Option.some.injEq, Prod.mk.injEq] at h) <;>
      (try (obtain ⟨_, rfl, rfl⟩ := h)) <;> (try (obtain ⟨rfl, rfl⟩ := h)) <;> simp
    -- swapSel outside a write section is not flat
    all_goals
      match rd, hok with
      | 0, hok => simp [Thread.ok, flatFrom] at hok
      | 1, hok => simp [Thread.ok, flatFrom] at hok
      | n + 2, hok => simp [Thread.ok] at hok

/-- the view of thread `j` survives a step of any thread -/
theorem view_step {s s' : St} {i j : Nat} {t : Thread} (h : step s i = some s')
    (hok : ∀ u ∈ s.ths, u.ok = true) (hex : Excl s) (hj : s.ths[j]? = some t) (hv : View t s.ver) :
    ∃ t', s'.ths[j]? = some t' ∧ View t' s'.ver := by
  obtain ⟨u, u', v, hi, hst, rfl⟩ := step_cases h
  by_cases hij : i = j
  · subst hij
    have hut : u = t := by rw [hi] at hj; exact Option.some.inj hj
    subst hut
    obtain ⟨_, hv'⟩ := view_stepThread s u u' v hv hst
    refine ⟨u', ?_, hv'⟩
    have hlt : i < s.ths.length := by
      rcases List.getElem?_eq_some_iff.mp hi with ⟨hlt, _⟩; exact hlt
    simp [hlt]
  · refine ⟨t, by simp [List.getElem?_set_ne hij, hj], ?_⟩
    simp only
    rcases stepThread_ver s u u' v (hok u (List.mem_of_getElem? hi)) hst with rfl | hheld
    · exact hv
    · -- the version may change, but then `t` is not inside its read section
      obtain ⟨hok_t, hw, hrp, hview⟩ := hv
      refine ⟨hok_t, hw, hrp, ?_⟩
      rcases hview with hA | ⟨x, hc, hs, hh⟩
      · exact Or.inl hA
      · refine Or.inr ⟨x, hc, hs, ?_⟩
        rcases hh with ⟨hr1, _, _⟩ | hh
        · exact absurd hheld (hex t (List.mem_of_getElem? hj) u (List.mem_of_getElem? hi) (by omega))
        · exact Or.inr hh

theorem view_exec {s s' : St} {sched : List Nat} {j : Nat} {t : Thread} (h : exec s sched = some s')
    (hok : ∀ u ∈ s.ths, u.ok = true) (hex : Excl s) (hj : s.ths[j]? = some t) (hv : View t s.ver) :
    ∃ t', s'.ths[j]? = some t' ∧ View t' s'.ver := by
  induction sched generalizing s t with
  | nil => simp [exec] at h; subst h; exact ⟨t, hj, hv⟩
  | cons i is ih =>
    simp only [exec] at h
    cases hs : step s i with
    | none => simp [hs] at h
    | some s1 =>
      simp only [hs] at h
      obtain ⟨t1, hj1, hv1⟩ := view_step hs hok hex hj hv
      exact ih h (ok_step hs hok) (excl_step hs hex) hj1 hv1

/-- what the view says about the versions used -/
theorem view_seen {t : Thread} {ver : Nat} (hv : View t ver) :
    ∃ v, ∀ x ∈ t.seen, x = some v := by
  obtain ⟨_, _, _, hview⟩ := hv
  rcases hview with ⟨_, hs, _⟩ | ⟨x, _, hs, _⟩
  · exact ⟨0, by simp [hs]⟩
  · exact ⟨x, hs⟩

/-! ### refusal: only a `Try*` acquisition turns a caller away -/

/-- the thread has not been refused and has no `Try*` acquisition ahead of it -/
def Answered (t : Thread) : Prop := t.refused = false ∧ blocking t.prog = true

theorem blocking_cons {o : Op} {p : List Op} (h : blocking (o :: p) = true) :
    o ≠ .tryrlock ∧ o ≠ .trylock ∧ blocking p = true := by
  simp only [blocking, List.all_cons, Bool.and_eq_true, bne_iff_ne, ne_eq] at h ⊢
  exact ⟨h.1.1, h.1.2, h.2⟩

theorem answered_stepThread (s : St) (t t' : Thread) (v : Nat) (ha : Answered t)
    (h : stepThread s t = some (t', v)) : Answered t' := by
  obtain ⟨hr, hb⟩ := ha
  rcases t with ⟨rd, w, prog, cur, seen, refused⟩
  simp only at hr hb; subst hr
  cases prog with
  | nil => cases w <;> simp [stepThread] at h
  | cons o p =>
    obtain ⟨h1, h2, hb'⟩ := blocking_cons hb
    cases w <;> cases o <;> simp at h1 h2 <;> simp [stepThread] at h <;>
      inv_step h <;> first | exact ⟨rfl, hb'⟩ | exact ⟨rfl, hb⟩

theorem answered_all_step {s s' : St} {i : Nat} (h : step s i = some s') (ha : ∀ t ∈ s.ths, Answered t) :
    ∀ t ∈ s'.ths, Answered t := by
  obtain ⟨t, t', v, hi, hst, rfl⟩ := step_cases h
  intro u hu
  rcases List.mem_or_eq_of_mem_set hu with hu | rfl
  · exact ha u hu
  · exact answered_stepThread s t u v (ha t (List.mem_of_getElem? hi)) hst

theorem answered_all_exec {s s' : St} {sched : List Nat} (h : exec s sched = some s') (ha : ∀ t ∈ s.ths, Answered t) :
    ∀ t ∈ s'.ths, Answered t := by
  induction sched generalizing s with
  | nil => simp [exec] at h; subst h; exact ha
  | cons i is ih =>
    simp only [exec] at h
    cases hs : step s i with
    | none => simp [hs] at h
    | some s1 => simp only [hs] at h; exact ih h (answered_all_step hs ha)

theorem answered_init (progs : List (List Op)) (h : ∀ p ∈ progs, blocking p = true) :
    ∀ t ∈ (init progs).ths, Answered t := by
  intro t ht
  simp only [init, List.mem_map] at ht
  obtain ⟨p, hp, rfl⟩ := ht
  exact ⟨rfl, h p hp⟩

/-- thread `j` stays answered whatever the other threads are and do -/
theorem answered_step {s s' : St} {i j : Nat} {t : Thread} (h : step s i = some s')
    (hj : s.ths[j]? = some t) (ha : Answered t) : ∃ t', s'.ths[j]? = some t' ∧ Answered t' := by
  obtain ⟨u, u', v, hi, hst, rfl⟩ := step_cases h
  by_cases hij : i = j
  · subst hij
    have hut : u = t := by rw [hi] at hj; exact Option.some.inj hj
    subst hut
    have hlt : i < s.ths.length := by
      rcases List.getElem?_eq_some_iff.mp hi with ⟨hlt, _⟩; exact hlt
    exact ⟨u', by simp [hlt], answered_stepThread s u u' v ha hst⟩
  · exact ⟨t, by simp [List.getElem?_set_ne hij, hj], ha⟩

theorem answered_exec {s s' : St} {sched : List Nat} {j : Nat} {t : Thread} (h : exec s sched = some s')
    (hj : s.ths[j]? = some t) (ha : Answered t) : ∃ t', s'.ths[j]? = some t' ∧ Answered t' := by
  induction sched generalizing s t with
  | nil => simp [exec] at h; subst h; exact ⟨t, hj, ha⟩
  | cons i is ih =>
    simp only [exec] at h
    cases hs : step s i with
    | none => simp [hs] at h
    | some s1 =>
      simp only [hs] at h
      obtain ⟨t1, hj1, ha1⟩ := answered_step hs hj ha
      exact ih h hj1 ha1

/-! ### the plain mutex: balanced programs are flat -/

theorem balanced_flat (p : List Op) (h : balanced p = true) : flat p = true := by
  fun_induction balanced p with
  | case1 => rfl
  | case2 p ih => simpa [flat, flatFrom] using ih h
  | case3 => cases h

/-- a balanced program only contains `lock` and `unlock` -/
theorem balanced_mutex_only (p : List Op) (h : balanced p = true) : ∀ o ∈ p, o = .lock ∨ o = .unlock := by
  fun_induction balanced p with
  | case1 => simp
  | case2 p ih =>
    intro o ho
    simp only [List.mem_cons] at ho
    rcases ho with rfl | rfl | ho
    · exact Or.inl rfl
    · exact Or.inr rfl
    · exact ih h o ho
  | case3 => cases h

end CJ.RW
