import CJ.Model.LogTaint
/-!
# Lemmas about error texts, `strip` and `generalize` (`CJ.Model.LogTaint`)
Core Lean only.
-/
namespace CJ.LogTaint

theorem noAddr_append (a b : List Tok) : noAddr (a ++ b) = (noAddr a && noAddr b) := by
  simp [noAddr, List.all_append]

theorem noClient_append (a b : List Tok) : noClient (a ++ b) = (noClient a && noClient b) := by
  simp [noClient, List.all_append]

theorem noAddr_cons (t : Tok) (ts : List Tok) : noAddr (t :: ts) = (t.isStr && noAddr ts) := by
  simp [noAddr]

theorem noClient_cons (t : Tok) (ts : List Tok) : noClient (t :: ts) = (t.notClient && noClient ts) := by
  simp [noClient]

@[simp] theorem noAddr_nil : noAddr [] = true := rfl
@[simp] theorem noClient_nil : noClient [] = true := rfl

theorem isStr_notClient (t : Tok) (h : t.isStr = true) : t.notClient = true := by
  cases t with
  | str s => rfl
  | addr a => cases h

/-- a text without any address has no client address -/
theorem noClient_of_noAddr (ts : List Tok) (h : noAddr ts = true) : noClient ts = true := by
  induction ts with
  | nil => rfl
  | cons t ts ih =>
    rw [noAddr_cons, Bool.and_eq_true] at h
    rw [noClient_cons, Bool.and_eq_true]
    exact ⟨isStr_notClient t h.1, ih h.2⟩

/-- when the opaque parts are clean, addresses enter an error text only through a `*net.OpError` in the chain -/
theorem text_noAddr_of_not_hasOp (e : Err) (hc : e.opaqueClean = true) (h : e.hasOp = false) :
    noAddr e.text = true := by
  induction e with
  | errno n msg => rfl
  | syscallErr c inner ih =>
    simp only [Err.hasOp] at h
    simp only [Err.opaqueClean] at hc
    simp only [Err.text, noAddr_cons, Tok.isStr, Bool.true_and]
    exact ih hc h
  | opError op net src dst inner ih => simp [Err.hasOp] at h
  | eof => rfl
  | netClosed => rfl
  | osClosed => rfl
  | deadline => rfl
  | wrapped t inner ih =>
    simp only [Err.hasOp] at h
    simp only [Err.opaqueClean, Bool.and_eq_true] at hc
    simp only [Err.text, noAddr_append, Bool.and_eq_true]
    exact ⟨hc.1, ih hc.2 h⟩
  | other t => simpa [Err.opaqueClean, Err.text] using hc
  | netErr t b => simpa [Err.opaqueClean, Err.text] using hc

/-- the text of an operation error without endpoints is address-free when its cause is -/
theorem opError_bare_text (op net : String) (inner : Err) (h : noAddr inner.text = true) :
    noAddr (Err.opError op net none none inner).text = true := by
  simp only [Err.text, List.append_nil]
  split <;> simp [noAddr_cons, Tok.isStr, h]

/-- **`strip` removes every address** of an error whose opaque parts are clean -/
theorem strip_noAddr (e : Err) (hc : e.opaqueClean = true) : noAddr e.strip.text = true := by
  induction e with
  | errno n msg => rfl
  | syscallErr c inner ih =>
    simp only [Err.opaqueClean] at hc
    simp only [Err.strip]
    split
    · exact ih hc
    · rename_i hno
      simp only [Err.text, noAddr_cons, Tok.isStr, Bool.true_and]
      exact text_noAddr_of_not_hasOp inner hc (by simpa using hno)
  | opError op net src dst inner ih =>
    simp only [Err.opaqueClean] at hc
    simp only [Err.strip]
    exact opError_bare_text op net _ (ih hc)
  | eof => rfl
  | netClosed => rfl
  | osClosed => rfl
  | deadline => rfl
  | wrapped t inner ih =>
    simp only [Err.opaqueClean, Bool.and_eq_true] at hc
    simp only [Err.strip]
    split
    · exact ih hc.2
    · rename_i hno
      simp only [Err.text, noAddr_append, Bool.and_eq_true]
      exact ⟨hc.1, text_noAddr_of_not_hasOp inner hc.2 (by simpa using hno)⟩
  | other t => simpa [Err.opaqueClean, Err.strip, Err.text] using hc
  | netErr t b => simpa [Err.opaqueClean, Err.strip, Err.text] using hc

/-- the reduction never *adds* an address: an address token of the reduced text is a token of the
original text (so whatever leaks through an opaque part was in the error to begin with) -/
theorem strip_text_sub (e : Err) : ∀ t ∈ e.strip.text, t.isStr = false → t ∈ e.text := by
  induction e with
  | errno n msg => intro t ht _; exact ht
  | syscallErr c inner ih =>
    intro t ht hs
    simp only [Err.strip] at ht
    split at ht
    · simp only [Err.text, List.mem_cons]; exact Or.inr (ih t ht hs)
    · exact ht
  | opError op net src dst inner ih =>
    intro t ht hs
    simp only [Err.strip, Err.text, List.append_nil, List.mem_append, List.mem_cons, List.not_mem_nil, or_false] at ht
    simp only [Err.text, List.mem_append]
    rcases ht with ((h | h) | h) | h
    · subst h; simp [Tok.isStr] at hs
    · split at h
      · simp at h
      · simp only [List.mem_cons, List.not_mem_nil, or_false] at h; subst h; simp [Tok.isStr] at hs
    · subst h; simp [Tok.isStr] at hs
    · exact Or.inr (ih t h hs)
  | eof => intro t ht _; exact ht
  | netClosed => intro t ht _; exact ht
  | osClosed => intro t ht _; exact ht
  | deadline => intro t ht _; exact ht
  | wrapped p inner ih =>
    intro t ht hs
    simp only [Err.strip] at ht
    split at ht
    · simp only [Err.text, List.mem_append]; exact Or.inr (ih t ht hs)
    · exact ht
  | other t => intro t ht _; exact ht
  | netErr t b => intro t ht _; exact ht

/-- an error without an operation error in its chain is returned as it is (station-internal sentinels
such as `transports.ErrTryAgain` keep their identity) -/
theorem strip_id_of_not_hasOp (e : Err) (h : e.hasOp = false) : e.strip = e := by
  cases e with
  | syscallErr c inner => simp only [Err.hasOp] at h; simp [Err.strip, h]
  | wrapped t inner => simp only [Err.hasOp] at h; simp [Err.strip, h]
  | opError op net src dst inner => simp [Err.hasOp] at h
  | _ => rfl

/-- whatever `generalize` returns for an error with clean opaque parts has an address-free text -/
theorem generalize_noAddr (app : Bool) (e r : Err) (hc : e.opaqueClean = true) (h : generalize app e = some r) :
    noAddr r.text = true := by
  unfold generalize at h
  split at h
  · split at h
    · cases h; rfl
    · cases h
  · split at h
    · cases h; rfl
    · split at h
      · cases h; rfl
      · split at h
        · cases h; rfl
        · split at h
          · cases h; rfl
          · split at h
            · cases h; rfl
            · cases h; exact strip_noAddr e hc

theorem generalizedText_noAddr (app : Bool) (e : Err) (hc : e.opaqueClean = true) :
    noAddr (generalizedText app e) = true := by
  unfold generalizedText
  cases h : generalize app e with
  | none => rfl
  | some r => exact generalize_noAddr app e r hc h

/-- `generalize` never adds an address: an address token of its result's text is a token of the error's text -/
theorem generalize_sub (app : Bool) (e r : Err) (h : generalize app e = some r) :
    ∀ t ∈ r.text, t.isStr = false → t ∈ e.text := by
  intro t ht hs
  have hsent : ∀ x : String, t ∈ (Err.other [Tok.str x]).text → False := by
    intro x hx
    simp only [Err.text, List.mem_cons, List.not_mem_nil, or_false] at hx
    subst hx; simp [Tok.isStr] at hs
  unfold generalize at h
  split at h
  · split at h
    · cases h; exact (hsent _ ht).elim
    · cases h
  · split at h
    · cases h; exact (hsent _ ht).elim
    · split at h
      · cases h; exact (hsent _ ht).elim
      · split at h
        · cases h; exact (hsent _ ht).elim
        · split at h
          · cases h; exact (hsent _ ht).elim
          · split at h
            · cases h; exact (hsent _ ht).elim
            · cases h; exact strip_text_sub e t ht hs

theorem generalizedText_sub (app : Bool) (e : Err) :
    ∀ t ∈ generalizedText app e, t.isStr = false → t ∈ e.text := by
  intro t ht hs
  unfold generalizedText at ht
  cases h : generalize app e with
  | none =>
    simp only [h, List.mem_cons, List.not_mem_nil, or_false] at ht
    subst ht; simp [Tok.isStr] at hs
  | some r =>
    simp only [h] at ht
    exact generalize_sub app e r h t ht hs

theorem statText_noAddr (e : Option Err) (hc : ∀ x, e = some x → x.opaqueClean = true) :
    noAddr (statText e) = true := by
  unfold statText
  cases e with
  | none => rfl
  | some e =>
    simp only
    cases h : generalize false e with
    | none => rfl
    | some r => exact generalize_noAddr false e r (hc e rfl) h


/-! ### the same with "no client address" in place of "no address" -/

theorem isStr_imp_notClient_all (ts : List Tok) (h : noAddr ts = true) : noClient ts = true :=
  noClient_of_noAddr ts h

/-- an error whose text names no client has no client in its opaque parts -/
theorem opaqueNoClient_of_text (e : Err) (h : noClient e.text = true) : e.opaqueNoClient = true := by
  induction e with
  | errno n msg => rfl
  | syscallErr c inner ih =>
    simp only [Err.text, noClient_cons, Bool.and_eq_true] at h
    exact ih h.2
  | opError op net src dst inner ih =>
    simp only [Err.text, noClient_append, Bool.and_eq_true] at h
    exact ih h.2
  | eof => rfl
  | netClosed => rfl
  | osClosed => rfl
  | deadline => rfl
  | wrapped t inner ih =>
    simp only [Err.text, noClient_append, Bool.and_eq_true] at h
    simp only [Err.opaqueNoClient, Bool.and_eq_true]
    exact ⟨h.1, ih h.2⟩
  | other t => simpa [Err.opaqueNoClient, Err.text] using h
  | netErr t b => simpa [Err.opaqueNoClient, Err.text] using h

theorem text_noClient_of_not_hasOp (e : Err) (hc : e.opaqueNoClient = true) (h : e.hasOp = false) :
    noClient e.text = true := by
  induction e with
  | errno n msg => rfl
  | syscallErr c inner ih =>
    simp only [Err.hasOp] at h
    simp only [Err.opaqueNoClient] at hc
    simp only [Err.text, noClient_cons, Tok.notClient, Bool.true_and]
    exact ih hc h
  | opError op net src dst inner ih => simp [Err.hasOp] at h
  | eof => rfl
  | netClosed => rfl
  | osClosed => rfl
  | deadline => rfl
  | wrapped t inner ih =>
    simp only [Err.hasOp] at h
    simp only [Err.opaqueNoClient, Bool.and_eq_true] at hc
    simp only [Err.text, noClient_append, Bool.and_eq_true]
    exact ⟨hc.1, ih hc.2 h⟩
  | other t => simpa [Err.opaqueNoClient, Err.text] using hc
  | netErr t b => simpa [Err.opaqueNoClient, Err.text] using hc

theorem opError_bare_text_noClient (op net : String) (inner : Err) (h : noClient inner.text = true) :
    noClient (Err.opError op net none none inner).text = true := by
  simp only [Err.text, List.append_nil]
  split <;> simp [noClient_cons, Tok.notClient, h]

/-- `strip` removes every client address of an error whose opaque parts name no client -/
theorem strip_noClient (e : Err) (hc : e.opaqueNoClient = true) : noClient e.strip.text = true := by
  induction e with
  | errno n msg => rfl
  | syscallErr c inner ih =>
    simp only [Err.opaqueNoClient] at hc
    simp only [Err.strip]
    split
    · exact ih hc
    · rename_i hno
      simp only [Err.text, noClient_cons, Tok.notClient, Bool.true_and]
      exact text_noClient_of_not_hasOp inner hc (by simpa using hno)
  | opError op net src dst inner ih =>
    simp only [Err.opaqueNoClient] at hc
    simp only [Err.strip]
    exact opError_bare_text_noClient op net _ (ih hc)
  | eof => rfl
  | netClosed => rfl
  | osClosed => rfl
  | deadline => rfl
  | wrapped t inner ih =>
    simp only [Err.opaqueNoClient, Bool.and_eq_true] at hc
    simp only [Err.strip]
    split
    · exact ih hc.2
    · rename_i hno
      simp only [Err.text, noClient_append, Bool.and_eq_true]
      exact ⟨hc.1, text_noClient_of_not_hasOp inner hc.2 (by simpa using hno)⟩
  | other t => simpa [Err.opaqueNoClient, Err.strip, Err.text] using hc
  | netErr t b => simpa [Err.opaqueNoClient, Err.strip, Err.text] using hc

theorem generalize_noClient (app : Bool) (e r : Err) (hc : e.opaqueNoClient = true) (h : generalize app e = some r) :
    noClient r.text = true := by
  unfold generalize at h
  split at h
  · split at h
    · cases h; rfl
    · cases h
  · split at h
    · cases h; rfl
    · split at h
      · cases h; rfl
      · split at h
        · cases h; rfl
        · split at h
          · cases h; rfl
          · split at h
            · cases h; rfl
            · cases h; exact strip_noClient e hc

/-- **what `generalizeErr` returns for an error that names clients only through operation errors prints no
client address** (the station, phantom or covert may still be named in opaque text) -/
theorem generalizedText_noClient (app : Bool) (e : Err) (hc : e.opaqueNoClient = true) :
    noClient (generalizedText app e) = true := by
  unfold generalizedText
  cases h : generalize app e with
  | none => rfl
  | some r => exact generalize_noClient app e r hc h

/-! ### classes -/

theorem inCls_structured_of_clean (e : Err) (h : e.inCls .clean) : e.inCls .structured :=
  opaqueNoClient_of_text e h

/-- wrapping with `%w` and a client-free prefix keeps an error within its class -/
theorem wrapped_inCls (c : Cls) (pre : List Tok) (e : Err) (hp : noClient pre = true) (h : e.inCls c) :
    (Err.wrapped pre e).inCls c := by
  cases c with
  | clean => simp only [Err.inCls, Err.text, noClient_append, Bool.and_eq_true]; exact ⟨hp, h⟩
  | structured => simp only [Err.inCls, Err.opaqueNoClient, Bool.and_eq_true]; exact ⟨hp, h⟩
  | leaky => trivial

/-- flattening (`fmt.Errorf("pre %v post", e)`): the new error is an opaque value whose text contains the
text of `e`; it is within `c.flat` -/
theorem flattened_inCls (c : Cls) (pre post : List Tok) (e : Err) (hp : noClient pre = true)
    (hq : noClient post = true) (h : e.inCls c) : (Err.other (pre ++ e.text ++ post)).inCls c.flat := by
  cases c with
  | clean =>
    simp only [Cls.flat, Err.inCls, Err.text, noClient_append, Bool.and_eq_true]
    exact ⟨⟨hp, h⟩, hq⟩
  | structured => trivial
  | leaky => trivial

/-- `generalizeErr` takes an error of class `c` to text within `c.gen` -/
theorem gen_inCls (app : Bool) (c : Cls) (e : Err) (h : e.inCls c) (hc : c.gen = .clean) :
    noClient (generalizedText app e) = true := by
  cases c with
  | clean => exact generalizedText_noClient app e (inCls_structured_of_clean e h)
  | structured => exact generalizedText_noClient app e h
  | leaky => cases hc

/-! ### call sites -/

theorem src_ok_noClient (known : List Cls) (env : Env) (hok : env.Ok known) (s : Src)
    (h : siteSrcCls known s = .clean) : noClient (srcText env s) = true := by
  cases s with
  | tainted w => simp [siteSrcCls, srcCls, rsrcCls, Src.resolve] at h
  | err flat gen o =>
    have hr := hok.raw_ok o
    simp only [originCls] at hr
    simp only [siteSrcCls, srcCls, rsrcCls, Src.resolve, Bool.false_eq_true, if_false] at h
    generalize (viaFns known known.length o.fnsR).max o.leafR = c at h hr
    cases gen with
    | true =>
      simp only [srcText, if_true]
      simp only [if_true] at h
      have hg : c.gen = .clean := by
        cases flat with
        | true =>
          simp only [if_true] at h
          cases hgc : c.gen with
          | clean => rfl
          | structured => rw [hgc] at h; cases h
          | leaky => rw [hgc] at h; cases h
        | false => simpa using h
      exact gen_inCls env.app _ _ hr hg
    | false =>
      simp only [srcText, Bool.false_eq_true, if_false]
      simp only [Bool.false_eq_true, if_false] at h
      have hc : c = .clean := by
        cases flat with
        | true =>
          simp only [if_true] at h
          cases c with
          | clean => rfl
          | structured => cases h
          | leaky => cases h
        | false => simpa using h
      rw [hc] at hr
      exact hr

theorem arg_ok_noClient (known : List Cls) (env : Env) (hok : env.Ok known) (a : Arg) (h : a.ok known = true) :
    noClient (renderArg env a) = true := by
  cases a with
  | lit => rfl
  | num => rfl
  | err s =>
    simp only [Arg.ok, beq_iff_eq] at h
    exact src_ok_noClient known env hok s h
  | typeOf s => rfl
  | expr s =>
    simp only [Arg.ok] at h
    cases hl : lookupRole s exprRoles with
    | none => simp [hl] at h
    | some r =>
      apply hok.expr_ok s r hl
      intro hr
      subst hr
      simp [hl] at h

theorem args_ok_noClient (known : List Cls) (env : Env) (hok : env.Ok known) (l : List Arg)
    (hl : ∀ a ∈ l, a.ok known = true) : noClient (l.flatMap (renderArg env)) = true := by
  induction l with
  | nil => rfl
  | cons a l ih =>
    rw [List.flatMap_cons, noClient_append, Bool.and_eq_true]
    exact ⟨arg_ok_noClient known env hok a (hl a (by simp)), ih (fun x hx => hl x (by simp [hx]))⟩

/-- a site that passes the table check, is emitted and is not exempt renders no client address -/
theorem site_ok_noClient (tbl : List (Level × Bool)) (known : List Cls) (s : Site) (h : s.ok tbl known = true)
    (hem : emittedBy tbl s.level = true)
    (hex : s.exempt = false) (env : Env) (hok : env.Ok known) :
    noClient (renderSite env s) = true := by
  simp only [Site.ok, hem, hex, Bool.not_true, Bool.false_or, List.all_eq_true] at h
  exact args_ok_noClient known env hok s.args h

theorem deadlineError_noClient (net : String) (local_ : Addr) (cause : Err)
    (hl : local_.role ≠ .client) (hc : noClient cause.text = true) :
    noClient (deadlineError net local_ cause).text = true := by
  have hl' : (local_.role != Role.client) = true := by simpa using hl
  simp only [deadlineError, Err.text, Option.isSome_none, Bool.false_eq_true, if_false]
  split <;> simp [noClient_cons, Tok.notClient, hl', hc]

theorem flowDescription_placeholder (client phantom : Addr) (hp : phantom.role ≠ .client) :
    noClient (flowDescription false client phantom) = true := by
  have : (phantom.role != Role.client) = true := by simpa using hp
  simp [flowDescription, noClient, Tok.notClient, this]

theorem flowDescription_logging (client phantom : Addr) (hc : client.role = .client) :
    noClient (flowDescription true client phantom) = false := by
  simp [flowDescription, noClient, Tok.notClient, hc]

/-- the errors recorded in a tunnel name endpoints only through operation errors -/
def Tunnel.clean (t : Tunnel) : Prop :=
  (∀ x, t.dialErr = some x → x.opaqueClean = true) ∧ (∀ x, t.covertErr = some x → x.opaqueClean = true) ∧
  (∀ x, t.clientErr = some x → x.opaqueClean = true)

theorem tunnelSummary_noClient (t : Tunnel) (hp : t.phantom.role ≠ .client) (hc : t.clean) :
    noClient (tunnelSummary t) = true := by
  have hp' : (t.phantom.role != Role.client) = true := by simpa using hp
  have h1 := noClient_of_noAddr _ (statText_noAddr t.dialErr hc.1)
  have h2 := noClient_of_noAddr _ (statText_noAddr t.covertErr hc.2.1)
  have h3 := noClient_of_noAddr _ (statText_noAddr t.clientErr hc.2.2)
  simp [tunnelSummary, noClient_append, noClient_cons, Tok.notClient, h1, h2, h3, hp']

theorem digests_noClient (r : RegInfo) (hp : r.phantom.role ≠ .client) (hc : r.covert.role ≠ .client) :
    noClient (regDigest r) = true ∧ noClient (expireRecord r) = true ∧ noClient (droppingRegLine r) = true := by
  have hp' : (r.phantom.role != Role.client) = true := by simpa using hp
  have hc' : (r.covert.role != Role.client) = true := by simpa using hc
  simp [regDigest, expireRecord, droppingRegLine, noClient, Tok.notClient, hp', hc']

end CJ.LogTaint
