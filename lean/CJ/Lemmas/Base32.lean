import CJ.Model.Base32
/-! Lemmas about the base32 model: symbols, one quantum, the round trip, lengths. -/
namespace CJ.Base32

theorem ofNat_eq_iff (n : Nat) (b : UInt8) : UInt8.ofNat n = b ↔ n % 256 = b.toNat := by
  constructor
  · intro h; subst h; simp
  · intro h
    apply UInt8.toNat_inj.mp
    simp [h]

theorem encChar_toNat (v : Nat) : (encChar v).toNat = if v % 32 < 26 then 65 + v % 32 else 24 + v % 32 := by
  unfold encChar
  split <;> simp <;> omega

theorem decVal_encChar (v : Nat) : decVal (encChar v) = some (v % 32) := by
  unfold decVal
  rw [encChar_toNat]
  have : v % 32 < 32 := Nat.mod_lt _ (by omega)
  by_cases hv : v % 32 < 26
  · simp only [hv, if_true]
    rw [if_pos (by omega)]
    simp
  · simp only [hv, if_false]
    rw [if_neg (by omega), if_pos (by omega)]
    simp

theorem encChar_ne (v : Nat) : encChar v ≠ 255 ∧ encChar v ≠ 13 ∧ encChar v ≠ 10 ∧
    ¬ (97 ≤ encChar v ∧ encChar v ≤ 122) := by
  have h := encChar_toNat v
  have : v % 32 < 32 := Nat.mod_lt _ (by omega)
  refine ⟨?_, ?_, ?_, ?_⟩
  · intro e; rw [e] at h; split at h <;> simp at h <;> omega
  · intro e; rw [e] at h; split at h <;> simp at h <;> omega
  · intro e; rw [e] at h; split at h <;> simp at h <;> omega
  · rw [UInt8.le_iff_toNat_le, UInt8.le_iff_toNat_le, h]
    split <;> simp <;> omega

/-- the inner loop over symbols the encoder wrote: their values, whatever follows -/
theorem readQuantum_syms (vs : List Nat) : ∀ (k : Nat) (acc : List Nat) (rest : Bytes), vs.length ≤ k →
    readQuantum k acc (vs.map encChar ++ rest) = readQuantum (k - vs.length) (acc ++ vs.map (· % 32)) rest := by
  induction vs with
  | nil => intro k acc rest _; simp
  | cons v vs ih =>
    intro k acc rest hk
    obtain ⟨k', rfl⟩ : ∃ k', k = k' + 1 := ⟨k - 1, by simp at hk; omega⟩
    simp only [List.map_cons, List.cons_append, readQuantum]
    rw [if_neg (fun h => (encChar_ne v).1 h.1), decVal_encChar]
    simp only
    rw [ih k' _ rest (by simp at hk; omega)]
    simp [List.append_assoc]

theorem readQuantum_full (vs : List Nat) (rest : Bytes) (h : vs.length = 8) :
    readQuantum 8 [] (vs.map encChar ++ rest) = .full (vs.map (· % 32)) := by
  rw [readQuantum_syms vs 8 [] rest (by omega), h]
  simp [readQuantum]

theorem readQuantum_last (vs : List Nat) (h : vs.length < 8) :
    readQuantum 8 [] (vs.map encChar) = .last (vs.map (· % 32)) := by
  have := readQuantum_syms vs 8 [] [] (by omega)
  rw [List.append_nil] at this
  rw [this]
  obtain ⟨k, hk⟩ : ∃ k, 8 - vs.length = k + 1 := ⟨8 - vs.length - 1, by omega⟩
  rw [hk]
  simp [readQuantum]

theorem mem_encode (p : Bytes) : ∀ b ∈ encode p, ∃ v, b = encChar v := by
  induction p using encode.induct with
  | case1 b0 b1 b2 b3 b4 rest ih =>
    intro b hb
    simp only [encode, List.mem_append, List.mem_map] at hb
    rcases hb with ⟨v, _, rfl⟩ | hb
    · exact ⟨v, rfl⟩
    · exact ih b hb
  | case2 b0 b1 b2 b3 => intro b hb; simp only [encode, List.mem_map] at hb; obtain ⟨v, _, rfl⟩ := hb; exact ⟨v, rfl⟩
  | case3 b0 b1 b2 => intro b hb; simp only [encode, List.mem_map] at hb; obtain ⟨v, _, rfl⟩ := hb; exact ⟨v, rfl⟩
  | case4 b0 b1 => intro b hb; simp only [encode, List.mem_map] at hb; obtain ⟨v, _, rfl⟩ := hb; exact ⟨v, rfl⟩
  | case5 b0 => intro b hb; simp only [encode, List.mem_map] at hb; obtain ⟨v, _, rfl⟩ := hb; exact ⟨v, rfl⟩
  | case6 => intro b hb; simp [encode] at hb

theorem stripNewlines_encode (p : Bytes) : stripNewlines (encode p) = encode p := by
  unfold stripNewlines
  rw [List.filter_eq_self]
  intro b hb
  obtain ⟨v, rfl⟩ := mem_encode p b hb
  have := encChar_ne v
  simp [this.2.1, this.2.2.1]

theorem decodeQuanta_encode (p : Bytes) : decodeQuanta (encode p) = some p := by
  induction p using encode.induct with
  | case1 b0 b1 b2 b3 b4 rest ih =>
    rw [decodeQuanta, encode]
    have h0 := b0.toNat_lt; have h1 := b1.toNat_lt; have h2 := b2.toNat_lt
    have h3 := b3.toNat_lt; have h4 := b4.toNat_lt
    rw [dif_neg (by simp [groups])]
    rw [readQuantum_full _ _ (by simp [groups])]
    have hd : List.drop 8 (List.map encChar (groups b0.toNat b1.toNat b2.toNat b3.toNat b4.toNat) ++ encode rest)
        = encode rest := by simp [groups]
    simp only [hd, ih]
    simp only [groups, List.map_cons, List.map_nil, pack, Option.map_some, Option.some.injEq, List.cons_append,
      List.nil_append, List.cons.injEq, and_true, ofNat_eq_iff]
    refine ⟨?_, ?_, ?_, ?_, ?_⟩ <;> omega
  | case2 b0 b1 b2 b3 =>
    rw [decodeQuanta, encode]
    have h0 := b0.toNat_lt; have h1 := b1.toNat_lt; have h2 := b2.toNat_lt; have h3 := b3.toNat_lt
    rw [dif_neg (by simp [groups])]
    rw [readQuantum_last _ (by simp [groups])]
    simp only [groups, List.take, List.map_cons, List.map_nil, pack, Option.some.injEq, List.cons.injEq, and_true,
      ofNat_eq_iff]
    refine ⟨?_, ?_, ?_, ?_⟩ <;> omega
  | case3 b0 b1 b2 =>
    rw [decodeQuanta, encode]
    have h0 := b0.toNat_lt; have h1 := b1.toNat_lt; have h2 := b2.toNat_lt
    rw [dif_neg (by simp [groups])]
    rw [readQuantum_last _ (by simp [groups])]
    simp only [groups, List.take, List.map_cons, List.map_nil, pack, Option.some.injEq, List.cons.injEq, and_true,
      ofNat_eq_iff]
    refine ⟨?_, ?_, ?_⟩ <;> omega
  | case4 b0 b1 =>
    rw [decodeQuanta, encode]
    have h0 := b0.toNat_lt; have h1 := b1.toNat_lt
    rw [dif_neg (by simp [groups])]
    rw [readQuantum_last _ (by simp [groups])]
    simp only [groups, List.take, List.map_cons, List.map_nil, pack, Option.some.injEq, List.cons.injEq, and_true,
      ofNat_eq_iff]
    refine ⟨?_, ?_⟩ <;> omega
  | case5 b0 =>
    rw [decodeQuanta, encode]
    have h0 := b0.toNat_lt
    rw [dif_neg (by simp [groups])]
    rw [readQuantum_last _ (by simp [groups])]
    simp only [groups, List.take, List.map_cons, List.map_nil, pack, Option.some.injEq, List.cons.injEq, and_true,
      ofNat_eq_iff]
    omega
  | case6 => rw [decodeQuanta, encode]; simp

/-- **round trip**: `Decode` inverts `Encode` on every byte string -/
theorem decode_encode (p : Bytes) : decode (encode p) = some p := by
  unfold decode
  rw [stripNewlines_encode, decodeQuanta_encode]

/-- `EncodedLen` is the length of what `Encode` writes -/
theorem length_encode (p : Bytes) : (encode p).length = encodedLen p.length := by
  induction p using encode.induct with
  | case1 b0 b1 b2 b3 b4 rest ih =>
    simp only [encode, List.length_append, List.length_map, groups, List.length_cons, List.length_nil, ih]
    unfold encodedLen; omega
  | case2 b0 b1 b2 b3 => simp [encode, groups, encodedLen]
  | case3 b0 b1 b2 => simp [encode, groups, encodedLen]
  | case4 b0 b1 => simp [encode, groups, encodedLen]
  | case5 b0 => simp [encode, groups, encodedLen]
  | case6 => simp [encode, encodedLen]

/-- the unpadded length as the usual ceiling: ⌈8n/5⌉ -/
theorem encodedLen_eq (n : Nat) : encodedLen n = (8 * n + 4) / 5 := by unfold encodedLen; omega

/-- `DecodedLen (EncodedLen n) = n`: the responder's buffer is exactly as long as the packet -/
theorem decodedLen_encodedLen (n : Nat) : decodedLen (encodedLen n) = n := by
  unfold decodedLen encodedLen; omega

end CJ.Base32
