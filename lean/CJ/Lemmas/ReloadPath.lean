import CJ.Model.ReloadPath
/-! Lemmas about the reload goroutine's model (`CJ/Model/ReloadPath.lean`). -/
namespace CJ.ReloadPath

theorem run_cons (n : New) (c : Cfg) (e : Eff) (r : List Eff) : run n c (e :: r) = run n (applyEff n c e) r := rfl

/-- When every generation write of a round comes after a selector write, every prefix of the round leaves the
configuration consistent - provided the new ClientConf generation and the generations in force are all in the
new subnet file. `seen`: a selector write has already happened (then the installed set is the new one). -/
theorem prefixes_consistent (n : New) (hn : n.gen ∈ n.sel) :
    ∀ (effs : List Eff) (seen : Bool) (c : Cfg), genAfterSelFrom seen effs = true →
      Consistent c → c.apiGen ∈ n.sel → c.dnsGen ∈ n.sel → (seen = true → c.sel = n.sel) →
      ∀ k, Consistent (run n c (effs.take k)) := by
  intro effs
  induction effs with
  | nil => intro seen c _ hc _ _ _ k; simpa [run] using hc
  | cons e r ih =>
    intro seen c hok hc ha hd hs k
    cases k with
    | zero => simpa [run] using hc
    | succ k =>
      rw [List.take_succ_cons, run_cons]
      cases e with
      | lk m o =>
        simp only [genAfterSelFrom] at hok
        exact ih seen c hok hc ha hd hs k
      | wr f =>
        simp only [genAfterSelFrom] at hok
        by_cases h1 : f = selectorField
        · rw [if_pos h1] at hok
          have he : applyEff n c (.wr f) = { c with sel := n.sel } := by
            simp only [applyEff]; rw [if_pos h1]
          rw [he]
          exact ih true { c with sel := n.sel } hok ⟨ha, hd⟩ ha hd (fun _ => rfl) k
        · rw [if_neg h1] at hok
          by_cases h2 : f = apiGenField
          · rw [if_pos (Or.inl h2), Bool.and_eq_true] at hok
            have hsel := hs hok.1
            have he : applyEff n c (.wr f) = { c with apiGen := n.gen } := by
              simp only [applyEff]; rw [if_neg h1, if_pos h2]
            rw [he]
            refine ih seen { c with apiGen := n.gen } hok.2 ⟨?_, hc.2⟩ hn hd (fun h => hs h) k
            show n.gen ∈ c.sel
            rw [hsel]; exact hn
          · by_cases h3 : f = dnsGenField
            · rw [if_pos (Or.inr h3), Bool.and_eq_true] at hok
              have hsel := hs hok.1
              have he : applyEff n c (.wr f) = { c with dnsGen := n.gen } := by
                simp only [applyEff]; rw [if_neg h1, if_neg h2, if_pos h3]
              rw [he]
              refine ih seen { c with dnsGen := n.gen } hok.2 ⟨hc.1, ?_⟩ ha hn (fun h => hs h) k
              show n.gen ∈ c.sel
              rw [hsel]; exact hn
            · have hno : ¬(f = apiGenField ∨ f = dnsGenField) := fun h => h.elim h2 h3
              rw [if_neg hno] at hok
              have he : applyEff n c (.wr f) = c := by
                simp only [applyEff]; rw [if_neg h1, if_neg h2, if_neg h3]
              rw [he]
              exact ih seen c hok hc ha hd hs k

/-- a loop that no path leaves serves every reload signal -/
theorem served_all (leaves : Nat → Bool) (h : ∀ i, leaves i = false) :
    ∀ (sigs : List Bool) (i : Nat), served leaves i sigs = sigs.count true := by
  intro sigs
  induction sigs with
  | nil => intro i; rfl
  | cons s r ih =>
    intro i
    simp only [served, h i, Bool.false_eq_true, if_false, ih (i + 1)]
    cases s <;> simp <;> omega

end CJ.ReloadPath
