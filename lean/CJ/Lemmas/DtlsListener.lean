import CJ.Model.DtlsListener
/-! Invariant of the listener model and its preservation by every atomic step. -/
namespace CJ.DtlsListener

/-- the acceptor is between a successful `registerCert` and its `removeCert` -/
def holdsCert : APc → Bool
  | .start => false
  | .regChan => true
  | .waiting => true
  | .rmChan _ => true
  | .rmCert _ => true
  | .rmCertErr => true
  | .done _ => false
  | .failed => false

/-- the acceptor is between a successful `registerChannel` and its `removeChannel` -/
def holdsChan : APc → Bool
  | .start => false
  | .regChan => false
  | .waiting => true
  | .rmChan _ => true
  | .rmCert _ => false
  | .rmCertErr => false
  | .done _ => false
  | .failed => false

/-- the connection an acceptor has taken from its channel -/
def got : APc → Option Hs
  | .start => none
  | .regChan => none
  | .waiting => none
  | .rmChan r => r
  | .rmCert r => r
  | .rmCertErr => none
  | .done r => r
  | .failed => none

structure Inv (s : St) : Prop where
  c1 : ∀ id a, s.certs id = some a → s.accId a = some id ∧ ∃ pc, s.apc a = some pc ∧ holdsCert pc = true
  c2 : ∀ a id pc, s.accId a = some id → s.apc a = some pc → holdsCert pc = true → s.certs id = some a
  h1 : ∀ id a, s.chans id = some a → s.accId a = some id ∧ ∃ pc, s.apc a = some pc ∧ holdsChan pc = true
  h2 : ∀ a id pc, s.accId a = some id → s.apc a = some pc → holdsChan pc = true → s.chans id = some a
  b1 : ∀ a c, s.buf a = some c → ∃ id, s.hs c = some ⟨id, id, .delivered a⟩ ∧ s.accId a = some id
  s1 : ∀ h rnd cert ch, s.hs h = some ⟨rnd, cert, .send ch⟩ → cert = rnd ∧ s.accId ch = some rnd
  s2 : ∀ h rnd cert ch, s.hs h = some ⟨rnd, cert, .delivered ch⟩ → cert = rnd ∧ s.accId ch = some rnd
  s3 : ∀ h rnd cert, s.hs h = some ⟨rnd, cert, .route⟩ → cert = rnd
  r1 : ∀ a c pc, s.apc a = some pc → got pc = some c →
        ∃ id, s.hs c = some ⟨id, id, .delivered a⟩ ∧ s.accId a = some id
  a1 : ∀ a id, s.accId a = some id → ∃ pc, s.apc a = some pc

theorem inv_init : Inv {} := by
  constructor <;> intros <;> simp_all [Map.empty]

theorem inv_accStart (s : St) (a : Acc) (id : Id) (h : Inv s) : Inv (step s (.accStart a id)) := by
  simp only [step]
  split
  · exact h
  · rename_i hn
    have hn' : s.apc a = none := by
      cases hx : s.apc a with
      | none => rfl
      | some v => simp [Map.has, hx] at hn
    have hid : s.accId a = none := by
      cases hx : s.accId a with
      | none => rfl
      | some v => obtain ⟨pc, hpc⟩ := h.a1 a v hx; rw [hn'] at hpc; cases hpc
    constructor <;> simp only [Map.set] <;> intros <;> grind [Inv, holdsCert, holdsChan, got]


theorem has_false {α : Type} (m : Map α) (k : Nat) (h : ¬ m.has k = true) : m k = none := by
  cases hx : m k with
  | none => rfl
  | some v => simp [Map.has, hx] at h

theorem has_true {α : Type} (m : Map α) (k : Nat) (h : m.has k = true) : ∃ v, m k = some v := by
  cases hx : m k with
  | none => simp [Map.has, hx] at h
  | some v => exact ⟨v, rfl⟩

macro "inv_auto" : tactic =>
  `(tactic| (constructor <;> simp only [Map.set, Map.del] <;> intros <;> grind [Inv, holdsCert, holdsChan, got]))

theorem inv_accStep (s : St) (a : Acc) (h : Inv s) : Inv (accStep s a) := by
  unfold accStep
  split
  · -- registerCert
    rename_i id hpc hid
    split
    · inv_auto
    · rename_i hn
      have hc := has_false _ _ hn
      inv_auto
  · -- registerChannel
    rename_i id hpc hid
    split
    · inv_auto
    · rename_i hn
      have hc := has_false _ _ hn
      inv_auto
  · -- select
    rename_i id hpc hid
    split
    · rename_i c hb
      inv_auto
    · exact h
  · rename_i r id hpc hid
    inv_auto
  · rename_i r id hpc hid
    inv_auto
  · rename_i id hpc hid
    inv_auto
  · exact h

theorem inv_accCancel (s : St) (a : Acc) (h : Inv s) : Inv (step s (.accCancel a)) := by
  simp only [step]
  split
  · rename_i hpc
    inv_auto
  · exact h

theorem inv_hsStart (s : St) (x : Hs) (rnd cert : Id) (h : Inv s) : Inv (step s (.hsStart x rnd cert)) := by
  simp only [step]
  split
  · exact h
  · rename_i hn
    have hc := has_false _ _ hn
    inv_auto

theorem inv_hsStep (s : St) (x : Hs) (h : Inv s) : Inv (hsStep s x) := by
  unfold hsStep
  split
  · rename_i rnd cert hx
    inv_auto
  · rename_i rnd cert shown hx
    split
    · rename_i hc
      simp only [Bool.and_eq_true, beq_iff_eq] at hc
      inv_auto
    · inv_auto
  · rename_i rnd cert hx
    split
    · rename_i ch hch
      inv_auto
    · inv_auto
  · rename_i rnd cert ch hx
    split
    · exact h
    · rename_i hn
      have hc := has_false _ _ hn
      inv_auto
  · exact h

theorem inv_hsTimeout (s : St) (x : Hs) (h : Inv s) : Inv (step s (.hsTimeout x)) := by
  simp only [step]
  split
  · rename_i rnd cert ch hx
    inv_auto
  · exact h

theorem inv_step (s : St) (op : Op) (h : Inv s) : Inv (step s op) := by
  cases op with
  | accStart a id => exact inv_accStart s a id h
  | accStep a => exact inv_accStep s a h
  | accCancel a => exact inv_accCancel s a h
  | hsStart x rnd cert => exact inv_hsStart s x rnd cert h
  | hsStep x => exact inv_hsStep s x h
  | hsTimeout x => exact inv_hsTimeout s x h

theorem inv_run (ops : List Op) (s : St) (h : Inv s) : Inv (run ops s) := by
  induction ops generalizing s with
  | nil => exact h
  | cons o os ih => exact ih _ (inv_step s o h)

end CJ.DtlsListener
