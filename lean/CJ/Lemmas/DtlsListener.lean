import CJ.Model.DtlsListener
/-! Invariant of the listener model and its preservation by every atomic step. -/
namespace CJ.DtlsListener

/-- the acceptor is between a successful `registerCert` and its `removeCert` -/
def holdsCert : APc → Bool
  | .start => false
  | .regChan => true
  | .waiting => true
  | .rmChan _ => true
  | .rmCert _ => true
  | .rmCertErr => true
  | .done _ => false
  | .failed => false

/-- the acceptor is between a successful `registerChannel` and its `removeChannel` -/
def holdsChan : APc → Bool
  | .start => false
  | .regChan => false
  | .waiting => true
  | .rmChan _ => true
  | .rmCert _ => false
  | .rmCertErr => false
  | .done _ => false
  | .failed => false

/-- the connection an acceptor has taken from its channel -/
def got : APc → Option Hs
  | .start => none
  | .regChan => none
  | .waiting => none
  | .rmChan r => r
  | .rmCert r => r
  | .rmCertErr => none
  | .done r => r
  | .failed => none

structure Inv (s : St) : Prop where
  c1 : ∀ id a, s.certs id = some a → s.accId a = some id ∧ ∃ pc, s.apc a = some pc ∧ holdsCert pc = true
  c2 : ∀ a id pc, s.accId a = some id → s.apc a = some pc → holdsCert pc = true → s.certs id = some a
  h1 : ∀ id a, s.chans id = some a → s.accId a = some id ∧ ∃ pc, s.apc a = some pc ∧ holdsChan pc = true
  h2 : ∀ a id pc, s.accId a = some id → s.apc a = some pc → holdsChan pc = true → s.chans id = some a
  b1 : ∀ a c, s.buf a = some c → ∃ id, s.hs c = some ⟨id, id, .delivered a⟩ ∧ s.accId a = some id
  s1 : ∀ h rnd cert ch, s.hs h = some ⟨rnd, cert, .send ch⟩ → cert = rnd ∧ s.accId ch = some rnd
  s2 : ∀ h rnd cert ch, s.hs h = some ⟨rnd, cert, .delivered ch⟩ → cert = rnd ∧ s.accId ch = some rnd
  s3 : ∀ h rnd cert, s.hs h = some ⟨rnd, cert, .route⟩ → cert = rnd
  r1 : ∀ a c pc, s.apc a = some pc → got pc = some c →
        ∃ id, s.hs c = some ⟨id, id, .delivered a⟩ ∧ s.accId a = some id
  a1 : ∀ a id, s.accId a = some id → ∃ pc, s.apc a = some pc

theorem inv_init : Inv {} := by
  constructor <;> intros <;> simp_all [Map.empty]

theorem has_false {α : Type} (m : Map α) (k : Nat) (h : ¬ m.has k = true) : m k = none := by
  cases hx : m k with
  | none => rfl
  | some v => simp [Map.has, hx] at h

macro "inv_auto" : tactic =>
  `(tactic| (constructor <;> simp only [Map.set, Map.del] <;> intros <;> grind [holdsCert, holdsChan, got]))

theorem inv_accStart (s : St) (a : Acc) (id : Id) (h : Inv s) : Inv (step s (.accStart a id)) := by
  simp only [step]
  split
  · exact h
  · rename_i hn
    have hn' : s.apc a = none := has_false _ _ hn
    have hid : s.accId a = none := by
      cases hx : s.accId a with
      | none => rfl
      | some v => obtain ⟨pc, hpc⟩ := h.a1 a v hx; rw [hn'] at hpc; cases hpc
    obtain ⟨c1, c2, h1, h2, b1, s1, s2, s3, r1, a1⟩ := h
    inv_auto

/-! one lemma per branch of `accStep` (each keeps the elaboration small) -/

theorem inv_regCert_dup (s : St) (a : Acc) (h : Inv s) (hpc : s.apc a = some .start) :
    Inv { s with apc := s.apc.set a .failed } := by
  obtain ⟨c1, c2, h1, h2, b1, s1, s2, s3, r1, a1⟩ := h
  inv_auto

theorem inv_regCert_ok (s : St) (a : Acc) (id : Id) (h : Inv s) (hpc : s.apc a = some .start)
    (hid : s.accId a = some id) (hc : s.certs id = none) :
    Inv { s with certs := s.certs.set id a, apc := s.apc.set a .regChan } := by
  obtain ⟨c1, c2, h1, h2, b1, s1, s2, s3, r1, a1⟩ := h
  inv_auto

theorem inv_regChan_dup (s : St) (a : Acc) (h : Inv s) (hpc : s.apc a = some .regChan) :
    Inv { s with apc := s.apc.set a .rmCertErr } := by
  obtain ⟨c1, c2, h1, h2, b1, s1, s2, s3, r1, a1⟩ := h
  inv_auto

theorem inv_regChan_ok (s : St) (a : Acc) (id : Id) (h : Inv s) (hpc : s.apc a = some .regChan)
    (hid : s.accId a = some id) (hc : s.chans id = none) :
    Inv { s with chans := s.chans.set id a, apc := s.apc.set a .waiting } := by
  obtain ⟨c1, c2, h1, h2, b1, s1, s2, s3, r1, a1⟩ := h
  inv_auto

theorem inv_recv (s : St) (a : Acc) (c : Hs) (h : Inv s) (hpc : s.apc a = some .waiting)
    (hb : s.buf a = some c) :
    Inv { s with buf := s.buf.del a, apc := s.apc.set a (.rmChan (some c)) } := by
  obtain ⟨c1, c2, h1, h2, b1, s1, s2, s3, r1, a1⟩ := h
  inv_auto

theorem inv_rmChan (s : St) (a : Acc) (id : Id) (r : Option Hs) (h : Inv s) (hpc : s.apc a = some (.rmChan r))
    (hid : s.accId a = some id) :
    Inv { s with chans := s.chans.del id, apc := s.apc.set a (.rmCert r) } := by
  obtain ⟨c1, c2, h1, h2, b1, s1, s2, s3, r1, a1⟩ := h
  inv_auto

theorem inv_rmCert (s : St) (a : Acc) (id : Id) (r : Option Hs) (h : Inv s) (hpc : s.apc a = some (.rmCert r))
    (hid : s.accId a = some id) :
    Inv { s with certs := s.certs.del id, apc := s.apc.set a (.done r) } := by
  obtain ⟨c1, c2, h1, h2, b1, s1, s2, s3, r1, a1⟩ := h
  inv_auto

theorem inv_rmCertErr (s : St) (a : Acc) (id : Id) (h : Inv s) (hpc : s.apc a = some .rmCertErr)
    (hid : s.accId a = some id) :
    Inv { s with certs := s.certs.del id, apc := s.apc.set a .failed } := by
  obtain ⟨c1, c2, h1, h2, b1, s1, s2, s3, r1, a1⟩ := h
  inv_auto

theorem inv_accStep (s : St) (a : Acc) (h : Inv s) : Inv (accStep s a) := by
  unfold accStep
  split
  · rename_i id hpc hid
    split
    · exact inv_regCert_dup s a h hpc
    · rename_i hn
      exact inv_regCert_ok s a id h hpc hid (has_false _ _ hn)
  · rename_i id hpc hid
    split
    · exact inv_regChan_dup s a h hpc
    · rename_i hn
      exact inv_regChan_ok s a id h hpc hid (has_false _ _ hn)
  · rename_i id hpc hid
    split
    · rename_i c hb
      exact inv_recv s a c h hpc hb
    · exact h
  · rename_i r id hpc hid
    exact inv_rmChan s a id r h hpc hid
  · rename_i r id hpc hid
    exact inv_rmCert s a id r h hpc hid
  · rename_i id hpc hid
    exact inv_rmCertErr s a id h hpc hid
  · exact h

theorem inv_accCancel (s : St) (a : Acc) (h : Inv s) : Inv (step s (.accCancel a)) := by
  simp only [step]
  split
  · rename_i hpc
    obtain ⟨c1, c2, h1, h2, b1, s1, s2, s3, r1, a1⟩ := h
    inv_auto
  · exact h

theorem inv_hsStart (s : St) (x : Hs) (rnd cert : Id) (h : Inv s) : Inv (step s (.hsStart x rnd cert)) := by
  simp only [step]
  split
  · exact h
  · rename_i hn
    have hc := has_false _ _ hn
    obtain ⟨c1, c2, h1, h2, b1, s1, s2, s3, r1, a1⟩ := h
    inv_auto

theorem inv_hs_set (s : St) (x : Hs) (rnd cert : Id) (pc pc' : HPc) (h : Inv s)
    (hx : s.hs x = some ⟨rnd, cert, pc⟩)
    (hpc : ∀ ch, pc ≠ .delivered ch)
    (h1' : ∀ ch, pc' = .send ch → cert = rnd ∧ s.accId ch = some rnd)
    (h2' : ∀ ch, pc' ≠ .delivered ch)
    (h3' : pc' = .route → cert = rnd) :
    Inv { s with hs := s.hs.set x ⟨rnd, cert, pc'⟩ } := by
  obtain ⟨c1, c2, h1, h2, b1, s1, s2, s3, r1, a1⟩ := h
  inv_auto

theorem inv_hs_deliver (s : St) (x : Hs) (rnd cert : Id) (ch : Acc) (h : Inv s)
    (hx : s.hs x = some ⟨rnd, cert, .send ch⟩) (hb : s.buf ch = none) :
    Inv { s with buf := s.buf.set ch x, hs := s.hs.set x ⟨rnd, cert, .delivered ch⟩ } := by
  obtain ⟨c1, c2, h1, h2, b1, s1, s2, s3, r1, a1⟩ := h
  inv_auto

theorem inv_hsStep (s : St) (x : Hs) (h : Inv s) : Inv (hsStep s x) := by
  unfold hsStep
  split
  · rename_i rnd cert hx
    exact inv_hs_set s x rnd cert _ _ h hx (by intro ch h; cases h) (by intro ch h; cases h)
      (by intro ch h; cases h) (by intro h; cases h)
  · rename_i rnd cert shown hx
    split
    · rename_i hc
      simp only [Bool.and_eq_true, beq_iff_eq] at hc
      exact inv_hs_set s x rnd cert _ _ h hx (by intro ch h; cases h) (by intro ch h; cases h)
        (by intro ch h; cases h) (fun _ => hc.1.2)
    · exact inv_hs_set s x rnd cert _ _ h hx (by intro ch h; cases h) (by intro ch h; cases h)
        (by intro ch h; cases h) (by intro h; cases h)
  · rename_i rnd cert hx
    split
    · rename_i ch hch
      have hcr := h.s3 x rnd cert hx
      have hacc := (h.h1 rnd ch hch).1
      exact inv_hs_set s x rnd cert _ _ h hx (by intro ch h; cases h)
        (by intro ch' h'; cases h'; exact ⟨hcr, hacc⟩) (by intro ch h; cases h) (by intro h; cases h)
    · exact inv_hs_set s x rnd cert _ _ h hx (by intro ch h; cases h) (by intro ch h; cases h)
        (by intro ch h; cases h) (by intro h; cases h)
  · rename_i rnd cert ch hx
    split
    · exact h
    · rename_i hn
      exact inv_hs_deliver s x rnd cert ch h hx (has_false _ _ hn)
  · exact h

theorem inv_hsTimeout (s : St) (x : Hs) (h : Inv s) : Inv (step s (.hsTimeout x)) := by
  simp only [step]
  split
  · rename_i rnd cert ch hx
    exact inv_hs_set s x rnd cert _ _ h hx (by intro ch h; cases h) (by intro ch h; cases h)
      (by intro ch h; cases h) (by intro h; cases h)
  · exact h

theorem inv_step (s : St) (op : Op) (h : Inv s) : Inv (step s op) := by
  cases op with
  | accStart a id => exact inv_accStart s a id h
  | accStep a => exact inv_accStep s a h
  | accCancel a => exact inv_accCancel s a h
  | hsStart x rnd cert => exact inv_hsStart s x rnd cert h
  | hsStep x => exact inv_hsStep s x h
  | hsTimeout x => exact inv_hsTimeout s x h

theorem inv_run (ops : List Op) (s : St) (h : Inv s) : Inv (run ops s) := by
  induction ops generalizing s with
  | nil => exact h
  | cons o os ih => exact ih _ (inv_step s o h)

end CJ.DtlsListener
