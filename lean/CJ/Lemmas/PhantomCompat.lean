import CJ.Lemmas.Phantom
/-!
The station's legacy selectors (library versions 0 / 1) against the frozen clients of those versions
(`internal/compatability/v0|v1`): a simulation of the two programs over one math/rand implementation.
-/
namespace CJ.Phantom

theorem Prog.run_bind {α β : Type} (R : Rng) (p : Prog α) (f : α → Prog β) (g : R.G) :
    (p.bind f).run R g = (f (p.run R g).1).run R (p.run R g).2 := by
  induction p generalizing g with
  | done a => rfl
  | seed s k ih => exact ih _
  | intn n k ih => exact ih _ _
  | read n k ih => exact ih _ _

/-- strip the port flag (the frozen clients do not know it) -/
def Net.noRP (n : Net) : Net := { n with randPort := false }

theorem parseNets_false (rp : Bool) (l : List (Option RawNet)) :
    parseNets false l = match parseNets rp l with
      | .ok n => .ok (n.map Net.noRP)
      | .err e => .err e
      | .panic w => .panic w := by
  induction l with
  | nil => rfl
  | cons x rest ih =>
    cases x with
    | none => rfl
    | some r =>
      simp only [parseNets, ih]
      cases parseNets rp rest <;> rfl

theorem count_noRP (n : Net) : count n.noRP = count n := rfl

theorem famFilter_noRP (v6 : Bool) (l : List Net) :
    famFilter v6 (l.map Net.noRP) = (famFilter v6 l).map Net.noRP := by
  unfold famFilter v6Only v4Only
  cases v6 <;> simp [List.filter_map, Function.comp_def, Net.noRP]

def noRPe (e : Nat × Nat × Net) : Nat × Nat × Net := (e.1, e.2.1, e.2.2.noRP)

theorem idNets_noRP (l : List Net) (acc : Nat) : idNets (l.map Net.noRP) acc = (idNets l acc).map noRPe := by
  induction l generalizing acc with
  | nil => rfl
  | cons n rest ih => simp [idNets, ih, count_noRP, noRPe]

theorem idNetsV0_noRP (l : List Net) (acc : Nat) : idNetsV0 (l.map Net.noRP) acc = (idNetsV0 l acc).map noRPe := by
  induction l generalizing acc with
  | nil => rfl
  | cons n rest ih => simp [idNetsV0, ih, count_noRP, noRPe]

theorem addressTotal_noRP (l : List Net) : addressTotal (l.map Net.noRP) = addressTotal l := by
  unfold addressTotal
  simp [List.map_map, Function.comp_def, count_noRP]

theorem addressTotalV0_noRP (l : List Net) (acc : Nat) : addressTotalV0 (l.map Net.noRP) acc = addressTotalV0 l acc := by
  induction l generalizing acc with
  | nil => rfl
  | cons n rest ih => simp [addressTotalV0, ih, count_noRP]

end CJ.Phantom

namespace CJ.Phantom

theorem natBytes_eq_fixed {val L : Nat} (h : (natBytes val).length = L) (hL : 0 < L) :
    natBytes val = beFixed L val := by
  unfold natBytes at h ⊢
  split at h
  · simp at h; omega
  · rename_i hv
    rw [if_neg hv]
    rw [beFixed_length] at h; rw [h]

/-- the address value both legacy implementations compute for subnet `n` from the seed's draws -/
def valOf (R : Rng) (seedInt : Int) (n : RawNet) : Nat :=
  n.base + (beNat (R.read (R.seed seedInt) (n.bits / 8)).1 &&& ((2 ^ n.bits - 1) >>> n.ones))

/-- contract of `net.ParseCIDR`: the whole subnet fits into the address length of its family -/
def RawNet.Fits (n : RawNet) : Prop := n.base + 2 ^ (n.bits - n.ones) ≤ 256 ^ famLen n.v4

theorem valOf_lt (R : Rng) (seedInt : Int) (n : RawNet) (h : n.Fits) : valOf R seedInt n < 256 ^ famLen n.v4 := by
  unfold valOf
  have h1 : beNat (R.read (R.seed seedInt) (n.bits / 8)).1 &&& ((2 ^ n.bits - 1) >>> n.ones) ≤ (2 ^ n.bits - 1) >>> n.ones :=
    Nat.and_le_right
  have h2 := hostMask_lt n.bits n.ones
  unfold RawNet.Fits at h
  omega

theorem run_selectAddrFromSubnet (R : Rng) (seed : Bytes) (n : RawNet) (g : R.G) (hk : (varint seed).2 ≠ 0)
    (hf : n.Fits) :
    ((selectAddrFromSubnet seed n).run R g).1 = .ok (beFixed (famLen n.v4) (valOf R (varint seed).1 n)) := by
  unfold selectAddrFromSubnet
  simp only
  rw [if_neg hk]
  simp only [Prog.bind_eq, Prog.pure_eq, drawRead, Prog.bind, Prog.run, addrFromRand, encodeAddr, fillBytes]
  have := valOf_lt R (varint seed).1 n hf
  unfold valOf at this
  rw [if_pos this]
  rfl

theorem run_compatSelectAddr (R : Rng) (v0 : Bool) (seed : Bytes) (n : RawNet) (g : R.G)
    (hk : ¬ ((varint seed).2 = 0 ∨ (v0 = true ∧ (varint seed).2 < 0))) :
    ((compatSelectAddr v0 seed n).run R g).1 = .ok (natBytes (valOf R (varint seed).1 n)) := by
  unfold compatSelectAddr
  simp only
  rw [if_neg hk]
  simp only [Prog.bind_eq, Prog.pure_eq, drawRead, Prog.bind, Prog.run, addrFromRandCompat]
  rfl

/-- the two search loops stay in step -/
def AccRel (R : Rng) (seedInt : Int) (Q : Net → Prop) (rS : Option Addr) (rC : Option Bytes) : Prop :=
  (rS = none ∧ rC = none) ∨ ∃ n : Net, Q n ∧
    rS = some ⟨beFixed (famLen n.v4) (valOf R seedInt n.toRawNet), n.randPort⟩ ∧
    rC = some (natBytes (valOf R seedInt n.toRawNet))

theorem find_sim (R : Rng) (v0 : Bool) (seed : Bytes) (Q : Net → Prop)
    (hk : ¬ ((varint seed).2 = 0 ∨ (v0 = true ∧ (varint seed).2 < 0)))
    (lS : List (Nat × Nat × Net)) (hl : ∀ e ∈ lS, e.2.2.toRawNet.Fits ∧ Q e.2.2) (id : Nat) :
    ∀ (rS : Option Addr) (rC : Option Bytes) (g g' : R.G), AccRel R (varint seed).1 Q rS rC →
      ∃ rS' rC', ((findLegacy v0 seed lS id rS).run R g).1 = .ok rS' ∧
        ((compatFind v0 seed (lS.map noRPe) id rC).run R g').1 = .ok rC' ∧ AccRel R (varint seed).1 Q rS' rC' := by
  have hk0 : (varint seed).2 ≠ 0 := fun h => hk (Or.inl h)
  induction lS with
  | nil => intro rS rC g g' h; exact ⟨rS, rC, rfl, rfl, h⟩
  | cons e rest ih =>
    obtain ⟨mn, mx, n⟩ := e
    have hn := hl (mn, mx, n) (List.mem_cons_self ..)
    have ih' := ih (fun e he => hl e (List.mem_cons_of_mem _ he))
    intro rS rC g g' hacc
    simp only [List.map_cons, noRPe, findLegacy, compatFind]
    split
    · simp only [Prog.bind_eq, Prog.run_bind]
      have e1 := run_selectAddrFromSubnet R seed n.toRawNet g hk0 hn.1
      have e2 := run_compatSelectAddr R v0 seed n.noRP.toRawNet g' hk
      rw [e1, e2]
      simp only
      exact ih' _ _ _ _ (Or.inr ⟨n, hn.2, rfl, rfl⟩)
    · exact ih' _ _ _ _ hacc

end CJ.Phantom

namespace CJ.Phantom

/-- the draw both legacy implementations make to pick a group -/
def pickDraw (R : Rng) (seedInt : Int) (max : Nat) : Nat := (R.intn (R.seed seedInt) max).1

theorem compatGetSubnets_run (R : Rng) (v0 : Bool) (gc : GenCfg) (seed : Bytes) (g : R.G)
    (hne : ((compatGetSubnets v0 gc seed).run R g).1 ≠ []) :
    ¬ ((varint seed).2 = 0 ∨ (v0 = true ∧ (varint seed).2 < 0)) ∧
    ∃ ch grp, newChooser (gc.groups.filter (! ·.isNil)) = .ok ch ∧
      ch.at (pickDraw R (varint seed).1 ch.max) = .ok grp ∧
      ((compatGetSubnets v0 gc seed).run R g).1 = grp.nets := by
  unfold compatGetSubnets at hne ⊢
  simp only at hne ⊢
  by_cases hk : (varint seed).2 = 0 ∨ (v0 = true ∧ (varint seed).2 < 0)
  · rw [if_pos hk] at hne; exact absurd rfl hne
  · rw [if_neg hk] at hne ⊢
    refine ⟨hk, ?_⟩
    simp only [Prog.run] at hne ⊢
    by_cases hn : gc.groupsNil = true
    · rw [if_pos hn] at hne; exact absurd rfl hne
    · rw [if_neg hn] at hne ⊢
      cases hch : newChooser (gc.groups.filter (! ·.isNil)) with
      | ok ch =>
        rw [hch] at hne
        simp only [Prog.run] at hne ⊢
        cases hat : ch.at (R.intn (R.seed (varint seed).1) ch.max).1 with
        | ok grp =>
          rw [hat] at hne
          exact ⟨ch, grp, rfl, hat, by simp [Prog.run]⟩
        | err e => rw [hat] at hne; exact absurd rfl hne
        | panic w => rw [hat] at hne; exact absurd rfl hne
      | err e => rw [hch] at hne; exact absurd rfl hne
      | panic w => rw [hch] at hne; exact absurd rfl hne

theorem getSubnetsVarint_run (R : Rng) (gc : GenCfg) (seed : Bytes) (g : R.G) (ch : Chooser)
    (hk : (varint seed).2 ≠ 0) (hch : newChooser gc.groups = .ok ch) :
    ((getSubnetsVarint gc seed).run R g).1 = (ch.at (pickDraw R (varint seed).1 ch.max)).bind parseGroup := by
  unfold getSubnetsVarint
  simp only
  rw [if_neg hk, hch]
  rfl

end CJ.Phantom

namespace CJ.Phantom

theorem optBytes_ok {bug : Err} {o : Outcome (Option Bytes)} {b : Bytes} (h : optBytes bug o = .ok b) :
    o = .ok (some b) := by
  unfold optBytes at h
  split at h <;> simp_all

theorem famLen_pos (v4 : Bool) : 0 < famLen v4 := by cases v4 <;> decide

/-- **Legacy agreement** (library versions 0 and 1).  If the frozen client of that version derives a
well-formed address from a configuration in which every group lists subnets, the station selects
exactly that address — whatever the math/rand implementation and whatever state it is in on either
side. -/
theorem stationSelect_compat (R : Rng) (g g' : R.G) (h : Hk) (cfg : Cfg) (gc : GenCfg) (seed : Bytes)
    (gen ver : Nat) (v6 : Bool) (b : Bytes)
    (hg : cfg.lookup gen = some gc) (hv : ver < hkdfMinVersion)
    (hnil : ∀ grp ∈ gc.groups, grp.isNil = false)
    (hfit : ∀ grp ∈ gc.groups, ∀ r, some r ∈ grp.nets → r.Fits)
    (hc : ((compatSelect (decide (ver < selectionMinGeneration)) gc seed v6).run R g).1 = .ok b)
    (hlen : b.length = famLen (!v6)) :
    ∃ rp, ((stationSelect h cfg seed gen ver v6).run R g').1 = .ok ⟨b, rp⟩ := by
  -- the client side, step 1: the subnet strings
  unfold compatSelect at hc
  rw [Prog.bind_eq, Prog.run_bind] at hc
  by_cases hemp : ((compatGetSubnets (decide (ver < selectionMinGeneration)) gc seed).run R g).1 = []
  · rw [hemp] at hc; simp [Prog.pure_eq, Prog.run] at hc
  obtain ⟨hk, ch, grp, hch, hat, hstr⟩ := compatGetSubnets_run R _ gc seed g hemp
  have hk0 : (varint seed).2 ≠ 0 := fun h => hk (Or.inl h)
  have hfil : gc.groups.filter (! ·.isNil) = gc.groups := by
    apply List.filter_eq_self.mpr
    intro a ha; simp [hnil a ha]
  rw [hfil] at hch
  have hgrp : grp ∈ gc.groups := by
    have := Chooser.at_mem hat
    rwa [(newChooser_ok hch).1, mem_sortByWeight] at this
  rw [hstr] at hc
  have hne : grp.nets.isEmpty = false := by
    cases hh : grp.nets.isEmpty with
    | false => rfl
    | true => rw [List.isEmpty_iff] at hh; rw [hstr] at hemp; exact absurd hh hemp
  rw [hne] at hc
  simp only [Bool.false_eq_true, if_false] at hc
  -- the station side up to the parsed subnets
  unfold stationSelect
  rw [hg]
  simp only [Prog.bind_eq, Prog.run_bind, subnetsByVersion, if_pos hv]
  rw [getSubnetsVarint_run R gc seed g' ch hk0 hch, hat]
  simp only [Outcome.bind, parseGroup, hne, Bool.false_eq_true, if_false]
  rw [parseNets_false grp.randPort] at hc
  cases hp : parseNets grp.randPort grp.nets with
  | err e => rw [hp] at hc; simp [Prog.pure_eq, Prog.run] at hc
  | panic w => rw [hp] at hc; simp [Prog.pure_eq, Prog.run] at hc
  | ok netsS =>
    rw [hp] at hc
    simp only at hc ⊢
    rw [famFilter_noRP] at hc
    have hQ : ∀ n ∈ famFilter v6 netsS, n.toRawNet.Fits ∧ n.v4 = (!v6) := by
      intro n hn
      obtain ⟨hm, hf⟩ := mem_famFilter hn
      exact ⟨hfit grp hgrp _ (parseNets_ok hp n hm).1, hf⟩
    have fin : ∀ (rS' : Option Addr) (rC' : Option Bytes) (bug bug' : Err),
        AccRel R (varint seed).1 (fun n => n.v4 = (!v6)) rS' rC' → optBytes bug (.ok rC') = .ok b →
        ∃ rp, optResult bug' (.ok rS') = .ok ⟨b, rp⟩ := by
      intro rS' rC' bug bug' hacc hb
      have := optBytes_ok hb
      cases this
      rcases hacc with ⟨_, h2⟩ | ⟨n, hq, h1, h2⟩
      · cases h2
      · cases h2
        subst h1
        have hl : (natBytes (valOf R (varint seed).1 n.toRawNet)).length = famLen n.v4 := by rw [hlen, hq]
        rw [natBytes_eq_fixed hl (famLen_pos _)]
        exact ⟨n.randPort, rfl⟩
    by_cases hv0 : ver < selectionMinGeneration
    · -- version 0
      simp only [hv0, decide_true, if_true] at hc ⊢
      rw [addressTotalV0_noRP, idNetsV0_noRP] at hc
      unfold selectV0
      simp only
      by_cases ht : addressTotalV0 (famFilter v6 netsS) 0 = 0
      · rw [if_pos ht] at hc; simp [Prog.pure_eq, Prog.run] at hc
      · rw [if_neg ht] at hc ⊢
        simp only [Prog.bind_eq, Prog.run_bind, Prog.pure_eq, Prog.run] at hc ⊢
        generalize (Prog.run R (compatGetSubnets true gc seed) g).2 = gC at hc
        generalize (Prog.run R (getSubnetsVarint gc seed) g').2 = gS
        have hk' : ¬ ((varint seed).2 = 0 ∨ (true = true ∧ (varint seed).2 < 0)) := by
          intro hh; apply hk
          rcases hh with hh | ⟨_, hh⟩
          · exact Or.inl hh
          · exact Or.inr ⟨by simp [hv0], hh⟩
        obtain ⟨rS', rC', e1, e2, hacc⟩ := find_sim R true seed (fun n => n.v4 = (!v6)) hk'
          (idNetsV0 (famFilter v6 netsS) 0) (fun e he => hQ _ (mem_idNetsV0 he))
          (if beNat seed > addressTotalV0 (famFilter v6 netsS) 0 then beNat seed % addressTotalV0 (famFilter v6 netsS) 0 else beNat seed)
          none none gS gC (Or.inl ⟨rfl, rfl⟩)
        rw [e2] at hc
        rw [e1]
        exact fin _ _ _ _ hacc hc
    · -- version 1
      have hdf : decide False = false := rfl
      simp only [if_false, hv0] at hc ⊢
      simp only [hdf, Bool.false_eq_true, if_false] at hc
      rw [addressTotal_noRP, idNets_noRP] at hc
      unfold selectVarint
      simp only
      by_cases ht : addressTotal (famFilter v6 netsS) = 0
      · rw [if_pos ht] at hc; simp [Prog.pure_eq, Prog.run] at hc
      · rw [if_neg ht] at hc ⊢
        simp only [Prog.bind_eq, Prog.run_bind, Prog.pure_eq, Prog.run] at hc ⊢
        generalize (Prog.run R (compatGetSubnets false gc seed) g).2 = gC at hc
        generalize (Prog.run R (getSubnetsVarint gc seed) g').2 = gS
        have hk' : ¬ ((varint seed).2 = 0 ∨ (false = true ∧ (varint seed).2 < 0)) := by
          intro hh
          rcases hh with hh | ⟨hh, _⟩
          · exact hk0 hh
          · cases hh
        obtain ⟨rS', rC', e1, e2, hacc⟩ := find_sim R false seed (fun n => n.v4 = (!v6)) hk'
          (idNets (famFilter v6 netsS) 0) (fun e he => hQ _ (mem_idNets he))
          (if beNat seed ≥ addressTotal (famFilter v6 netsS) then beNat seed % addressTotal (famFilter v6 netsS) else beNat seed)
          none none gS gC (Or.inl ⟨rfl, rfl⟩)
        rw [e2] at hc
        rw [e1]
        exact fin _ _ _ _ hacc hc

end CJ.Phantom

namespace CJ.Phantom

/-- contract of `net.ParseCIDR` for one parsed subnet: it gets no more ids than it has addresses
(IPv4: mask of 32 bits, or the IPv4-mapped notation with `ones ≥ 96`), and all its addresses fit the
address length of its family -/
def RawNet.Conforms (r : RawNet) : Prop :=
  (if r.v4 then 2 ^ (32 - r.ones) else 2 ^ (128 - r.ones)) ≤ 2 ^ (r.bits - r.ones) ∧ r.Fits

def Net.WF (n : Net) : Prop := n.toRawNet.Conforms

theorem count_pos (n : Net) : 0 < count n := by
  unfold count; split <;> exact Nat.two_pow_pos _

theorem offset_ok {n : Net} (hn : n.WF) {off : Nat} (h : off < count n) :
    ∃ a, selectAddrFromSubnetOffset n off = .ok a := by
  unfold selectAddrFromSubnetOffset encodeAddr fillBytes
  simp only
  have hc : count n ≤ 2 ^ (n.bits - n.ones) := hn.1
  have h1 : ¬ 2 ^ (n.bits - n.ones) ≤ off := by omega
  rw [if_neg h1]
  have h2 : n.base + off < 256 ^ famLen n.v4 := by
    have := hn.2; unfold RawNet.Fits at this; omega
  rw [if_pos h2]
  exact ⟨_, rfl⟩

/-- with conforming subnets the search loop cannot fail, and keeps a result it already has -/
theorem findHkdf_total (nets : List Net) (hw : ∀ n ∈ nets, n.WF) (acc id : Nat) (r : Option Addr) :
    ∃ r', findHkdf (idNets nets acc) id r = .ok r' ∧ (r.isSome = true → r'.isSome = true) ∧
      (acc ≤ id → id < acc + addressTotal nets → r'.isSome = true) := by
  induction nets generalizing acc r with
  | nil => exact ⟨r, rfl, fun h => h, fun h1 h2 => by simp [addressTotal] at h2; omega⟩
  | cons n rest ih =>
    have hn := hw n (List.mem_cons_self ..)
    have hrest : ∀ m ∈ rest, m.WF := fun m hm => hw m (List.mem_cons_of_mem _ hm)
    have hc := count_pos n
    simp only [idNets, findHkdf]
    have htot : addressTotal (n :: rest) = count n + addressTotal rest := by simp [addressTotal]
    split
    · rename_i hhit
      obtain ⟨a, ha⟩ := offset_ok hn (off := id - acc) (by omega)
      rw [ha]
      simp only
      obtain ⟨r', h1, h2, _⟩ := ih hrest (acc + count n) (some a)
      exact ⟨r', h1, fun _ => h2 rfl, fun _ _ => h2 rfl⟩
    · rename_i hmiss
      obtain ⟨r', h1, h2, h3⟩ := ih hrest (acc + count n) r
      refine ⟨r', h1, h2, ?_⟩
      intro hlo hhi
      apply h3 <;> omega

theorem randIntLoop_err {s : Stream} {lim k b max fuel pos : Nat} {e : Err}
    (h : randIntLoop s lim k b max fuel pos = .err e) : e = .entropy := by
  induction fuel generalizing pos with
  | zero => simp [randIntLoop] at h; exact h.symm
  | succ f ih =>
    simp only [randIntLoop] at h
    split at h
    · cases h; rfl
    · split at h
      · cases h
      · exact ih h

/-- the only error of `rand.Int` is the reader's -/
theorem randInt_err {s : Stream} {lim max : Nat} {e : Err} (h : randInt s lim max = .err e) : e = .entropy := by
  unfold randInt at h
  split at h
  · cases h
  · simp only at h
    split at h
    · cases h
    · exact randIntLoop_err h

/-- **No "impossible" errors**: on subnets that conform to `net.ParseCIDR`'s contract the HKDF
selector ends in an address, `ErrMissingAddrs` (nothing to select from) or the reader's entropy limit —
never in "nil result", "offset too big" or an address that does not fit. -/
theorem selectHkdf_total (s : Stream) (lim : Nat) (nets : List Net) (hw : ∀ n ∈ nets, n.WF) :
    (∃ a, selectHkdf s lim nets = .ok a) ∨ selectHkdf s lim nets = .err .noAddrs ∨
      selectHkdf s lim nets = .err .entropy := by
  unfold selectHkdf
  simp only
  split
  · exact Or.inr (Or.inl rfl)
  · rename_i htot
    cases hr : randInt s lim (addressTotal nets) with
    | ok id =>
      simp only
      obtain ⟨r', h1, _, h3⟩ := findHkdf_total nets hw 0 id none
      rw [h1]
      have := h3 (Nat.zero_le _) (by have := randInt_lt hr; omega)
      cases r' with
      | none => cases this
      | some a => exact Or.inl ⟨a, rfl⟩
    | err e =>
      simp only
      right; right
      rw [randInt_err hr]
    | panic w => exact absurd hr (randInt_not_panic htot w)

end CJ.Phantom

namespace CJ.Phantom

theorem parseNets_err {rp : Bool} {l : List (Option RawNet)} {e : Err} (h : parseNets rp l = .err e) : e = .parse := by
  induction l with
  | nil => simp [parseNets] at h
  | cons x rest ih =>
    cases x with
    | none => simp [parseNets] at h; exact h.symm
    | some r =>
      simp only [parseNets] at h
      split at h
      · cases h
      · cases h; exact ih ‹_›
      · cases h

theorem parseGroup_err {g : Group} {e : Err} (h : parseGroup g = .err e) : e = .emptyGroup ∨ e = .parse := by
  unfold parseGroup at h
  split at h
  · cases h; exact Or.inl rfl
  · exact Or.inr (parseNets_err h)

theorem concatAll_err {gs : List Group} {e : Err} (h : concatAll gs = .err e) : e = .emptyGroup ∨ e = .parse := by
  induction gs with
  | nil => simp [concatAll] at h
  | cons g rest ih =>
    simp only [concatAll] at h
    split at h
    · split at h
      · cases h
      · cases h; exact ih ‹_›
      · cases h
    · cases h; exact parseGroup_err ‹_›
    · cases h

theorem getSubnetsHkdf_err {s : Stream} {lim : Nat} {c : GenCfg} {e : Err} (h : getSubnetsHkdf s lim c = .err e) :
    e = .zeroWeight ∨ e = .entropy ∨ e = .emptyGroup ∨ e = .parse := by
  unfold getSubnetsHkdf at h
  split at h
  · cases h
  · simp only at h
    split at h
    · cases h; exact Or.inl rfl
    · split at h
      · split at h
        · exact Or.inr (Or.inr (parseGroup_err h))
        · exact Or.inr (Or.inr (concatAll_err h))
      · cases h; exact Or.inr (Or.inl (randInt_err ‹_›))
      · cases h

/-- versions ≥ 2: the station's selection *is* the client's `SelectPhantom` on that generation -/
theorem stationSelect_eq_client {h : Hk} {cfg : Cfg} {gc : GenCfg} (seed : Bytes) {gen ver : Nat} (v6 : Bool)
    (hg : cfg.lookup gen = some gc) (hv : hkdfMinVersion ≤ ver) :
    stationSelect h cfg seed gen ver v6 = .done (clientSelect h gc seed v6) := by
  unfold stationSelect clientSelect
  have h2 : ¬ ver < hkdfMinVersion := by omega
  have h1 : ¬ ver < selectionMinGeneration := by
    unfold hkdfMinVersion at hv; unfold selectionMinGeneration; omega
  rw [hg]
  simp only [subnetsByVersion, if_neg h2, if_neg h1, Prog.bind_eq, Prog.bind]
  cases getSubnetsHkdf (h.hk seed labelSubnet) h.lim gc <;> rfl

/-- `SelectPhantom` on a configuration whose subnets conform to `net.ParseCIDR`'s contract: the only
errors are the ones a configuration or the reader can cause -/
theorem clientSelect_errors {h : Hk} {gc : GenCfg} {seed : Bytes} {v6 : Bool} {e : Err}
    (hw : ∀ grp ∈ gc.groups, ∀ r, some r ∈ grp.nets → r.Conforms)
    (he : clientSelect h gc seed v6 = .err e) :
    e = .zeroWeight ∨ e = .entropy ∨ e = .emptyGroup ∨ e = .parse ∨ e = .noAddrs := by
  unfold clientSelect at he
  split at he
  · rename_i nets hn
    have hwf : ∀ n ∈ famFilter v6 nets, n.WF := by
      intro n hm
      obtain ⟨grp, hg, hmem, _⟩ := getSubnetsHkdf_ok hn n (mem_famFilter hm).1
      exact hw grp hg _ hmem
    rcases selectHkdf_total (h.hk seed labelAddr) h.lim _ hwf with ⟨a, ha⟩ | h1 | h1
    · rw [ha] at he; cases he
    · rw [h1] at he; cases he; simp
    · rw [h1] at he; cases he; simp
  · cases he
    rcases getSubnetsHkdf_err ‹_› with h1 | h1 | h1 | h1 <;> simp [h1]
  · cases he

end CJ.Phantom
