import CJ.Lemmas.ConnHandler
import CJ.Model.Wrap
/-!
# The concrete wrapping transports as classifiers of the connection handler (C03, C04)

`CJ/Model/Wrap.lean` (C02) models `WrapConnection` of min, prefix and obfs4 as functions of the
buffered bytes; `CJ/Model/ConnHandler.lean` is parametric in abstract classifiers.  This file plugs the
former into the latter (`cls`) and proves, about the concrete matchers:

* they answer an error only when a **registered** identifier was revealed (`prefix_err_needs_registered_tag`;
  min and obfs4 never answer an error: `min_ne_err`, `obfs4_ne_err`) — so an untagged stream is `Quiet`
  for all three (`untagged_quiet`), which is the `NoMatch` hypothesis of C03;
* on an untagged buffer of at least `B` bytes, `B` a bound on the table's decision lengths and the obfs4
  maximum handshake length, all three answer not-transport (`untagged_long_notT`);
* they are `Genuine` on the flights of their clients (`min_genuine`, `prefix_genuine`, `obfs4_genuine`),
  prefix for every table entry whose decision lengths are exactly `offset + 64`, for every iteration order
  of the table, whatever the other entries are — the hypotheses of C04.

Cryptography stays an oracle (`reveal`, `marks`), as in the C02 model.  The order in which the Go map
of supported prefixes is iterated may differ from call to call: `table d` is the order used for the
call that sees the buffer `d`.
-/
namespace CJ.WrapCls
open CJ.ConnHandler
open CJ.Wrap (RegView PrefixEntry PLoop findReg toHex window staticOk prefixIter prefixLoop wrapMin wrapPrefix wrapObfs4)

/-- the three wrapping transports the station enables -/
inductive Tr | min | prefix | obfs4
deriving DecidableEq, Repr

/-- what the handler makes of a transport's answer: anything that is not try-again, not-transport or a
registration is "an unexpected error" (a Go panic of the slice expression included) -/
def conv : CJ.Wrap.Verdict → Verdict Nat
  | .tryAgain => .tryAgain
  | .notTransport => .notT
  | .errIncorrectTransport => .err
  | .errIncorrectPrefix => .err
  | .found rid k => .found rid k
  | .panic => .err

structure Env where
  /-- the valid registrations tracked for the connection's phantom -/
  regs : List RegView
  /-- iteration order of the supported-prefix map at the call that sees this buffer -/
  table : Bytes → List PrefixEntry
  /-- `TagObfuscator.TryReveal` under the station's keys -/
  reveal : Bytes → Option String
  /-- obfs4 registrations whose mark is located in this buffer -/
  marks : Bytes → List Nat

def cls (w : Env) : Tr → Bytes → Verdict Nat
  | .min, d => conv (wrapMin w.regs d)
  | .prefix, d => conv (wrapPrefix (w.table d) w.reveal w.regs d)
  | .obfs4, d => conv (wrapObfs4 (w.marks d) w.regs d)

/-! ## untagged buffers -/

/-- the first 32 bytes are not a registered identifier -/
def MinUntagged (regs : List RegView) (d : Bytes) : Prop :=
  ∀ r ∈ regs, r.ident ≠ toHex (d.take 32)

/-- no tag window of a supported prefix reveals a registered identifier -/
def PrefixUntagged (table : List PrefixEntry) (reveal : Bytes → Option String) (regs : List RegView)
    (d : Bytes) : Prop :=
  ∀ e ∈ table, ∀ r ∈ regs, reveal (window d e.offset) ≠ some r.ident

/-- no registered obfs4 mark is located in the buffer -/
def Obfs4Untagged (marks : List Nat) (regs : List RegView) : Prop :=
  ∀ r ∈ regs, r.rid ∉ marks

/-- slices stay in range (C02 proves it for the generated table; restated here over any table) -/
def EntryWf (e : PrefixEntry) : Prop := e.offset + 64 ≤ max e.minLen e.maxLen

theorem findReg_none {regs : List RegView} {id : String} (h : ∀ r ∈ regs, r.ident ≠ id) :
    findReg regs id = none := by
  unfold findReg
  rw [List.find?_eq_none]
  intro r hr hp
  exact h r hr (by simpa using hp)

theorem findReg_some {regs : List RegView} {id : String} {r : RegView} (h : findReg regs id = some r) :
    r ∈ regs ∧ r.ident = id := by
  unfold findReg at h
  exact ⟨List.mem_of_find?_eq_some h, by simpa using List.find?_some h⟩

/-! ### min -/

theorem min_ne_err (regs : List RegView) (d : Bytes) : conv (wrapMin regs d) ≠ .err := by
  unfold wrapMin
  split
  · simp [conv]
  · split <;> simp [conv]

theorem min_found_needs_tag (regs : List RegView) (d : Bytes) (rid k : Nat)
    (h : conv (wrapMin regs d) = .found rid k) :
    ∃ r ∈ regs, r.rid = rid ∧ r.ident = toHex (d.take 32) ∧ k = 32 := by
  unfold wrapMin at h
  split at h
  · simp [conv] at h
  · split at h
    · rename_i r hr
      obtain ⟨hm, hi⟩ := findReg_some hr
      simp only [conv, Verdict.found.injEq] at h
      exact ⟨r, hm, h.1, hi, h.2.symm⟩
    · simp [conv] at h

theorem min_untagged (regs : List RegView) (d : Bytes) (hu : MinUntagged regs d) :
    conv (wrapMin regs d) = (if d.length < 32 then .tryAgain else .notT) := by
  unfold wrapMin
  simp only [CJ.Wrap.minTagLen]
  by_cases h : d.length < 32
  · simp [h, conv]
  · simp [h, findReg_none hu, conv]

/-! ### prefix -/

/-- One iteration never returns, and never raises the wrong-prefix flag, unless the tag window — in
range — reveals a registered identifier. -/
theorem prefixIter_untagged (reveal : Bytes → Option String) (regs : List RegView) (d : Bytes) (st : PLoop)
    (e : PrefixEntry) (hwf : EntryWf e) (hu : ∀ r ∈ regs, reveal (window d e.offset) ≠ some r.ident) :
    ∃ st', prefixIter reveal regs d st e = .inr st' ∧ st'.wrong = st.wrong ∧
      (e.minLen ≤ d.length → e.maxLen ≤ d.length → st' = st) := by
  unfold prefixIter
  split; · exact ⟨st, rfl, rfl, fun _ _ => rfl⟩
  split
  · rename_i h; exact ⟨_, rfl, rfl, fun h1 _ => by omega⟩
  split
  · rename_i h
    simp only [Bool.and_eq_true, decide_eq_true_eq] at h
    exact ⟨_, rfl, rfl, fun _ h2 => by omega⟩
  split; · exact ⟨st, rfl, rfl, fun _ _ => rfl⟩
  split
  · rename_i hmin _ hmax hoff
    exfalso
    unfold EntryWf at hwf
    simp only [CJ.Wrap.prefixTagLen] at hoff
    have : max e.minLen e.maxLen ≤ d.length := Nat.max_le.mpr ⟨by omega, by omega⟩
    omega
  · split
    · exact ⟨st, rfl, rfl, fun _ _ => rfl⟩
    · rename_i id hrev
      split
      · exact ⟨st, rfl, rfl, fun _ _ => rfl⟩
      · rename_i r hr
        obtain ⟨hm, hi⟩ := findReg_some hr
        exact absurd (by rw [hrev, hi]) (hu r hm)

theorem prefixLoop_untagged (reveal : Bytes → Option String) (regs : List RegView) (d : Bytes) :
    ∀ (table : List PrefixEntry) (st : PLoop), (∀ e ∈ table, EntryWf e) →
      PrefixUntagged table reveal regs d → st.wrong = false →
      (prefixLoop reveal regs d st table = .tryAgain ∨ prefixLoop reveal regs d st table = .notTransport) ∧
      ((∀ e ∈ table, e.minLen ≤ d.length ∧ e.maxLen ≤ d.length) → st.tryAgain = false →
        prefixLoop reveal regs d st table = .notTransport) := by
  intro table
  induction table with
  | nil =>
    intro st _ _ hw
    simp only [prefixLoop, hw, Bool.and_false]
    constructor
    · cases st.tryAgain <;> simp
    · intro _ ht; simp [ht]
  | cons e es ih =>
    intro st hwf hu hw
    obtain ⟨st', h1, h2, h3⟩ := prefixIter_untagged reveal regs d st e (hwf e (List.mem_cons_self ..))
      (hu e (List.mem_cons_self ..))
    simp only [prefixLoop, h1]
    have := ih st' (fun e' he' => hwf e' (List.mem_cons_of_mem _ he'))
      (fun e' he' => hu e' (List.mem_cons_of_mem _ he')) (by rw [h2, hw])
    refine ⟨this.1, ?_⟩
    intro hlen ht
    have hst : st' = st := h3 (hlen e (List.mem_cons_self ..)).1 (hlen e (List.mem_cons_self ..)).2
    exact this.2 (fun e' he' => hlen e' (List.mem_cons_of_mem _ he')) (by rw [hst, ht])

theorem prefix_untagged (table : List PrefixEntry) (reveal : Bytes → Option String) (regs : List RegView)
    (d : Bytes) (hwf : ∀ e ∈ table, EntryWf e) (hu : PrefixUntagged table reveal regs d) :
    (conv (wrapPrefix table reveal regs d) = .tryAgain ∨ conv (wrapPrefix table reveal regs d) = .notT) ∧
    (64 ≤ d.length → (∀ e ∈ table, e.minLen ≤ d.length ∧ e.maxLen ≤ d.length) →
      conv (wrapPrefix table reveal regs d) = .notT) := by
  unfold wrapPrefix
  simp only [CJ.Wrap.prefixTagLen]
  by_cases hl : d.length < 64
  · simp only [hl, if_true]
    exact ⟨Or.inl rfl, fun h => by omega⟩
  · simp only [hl, if_false]
    have := prefixLoop_untagged reveal regs d table {} hwf hu rfl
    constructor
    · rcases this.1 with h | h <;> simp [h, conv]
    · intro _ hlen
      rw [this.2 hlen rfl]; rfl

/-- **The prefix transport answers an error only after a registered identifier was revealed** — from
the tag window of one of its supported prefixes, under a station key.  (`ErrIncorrectTransport`,
`ErrIncorrectPrefix`; an out-of-range slice is excluded by the table's well-formedness.) -/
theorem prefix_err_needs_registered_tag (table : List PrefixEntry) (reveal : Bytes → Option String)
    (regs : List RegView) (d : Bytes) (hwf : ∀ e ∈ table, EntryWf e)
    (h : conv (wrapPrefix table reveal regs d) = .err) :
    ∃ e ∈ table, ∃ r ∈ regs, reveal (window d e.offset) = some r.ident := by
  apply Classical.byContradiction
  intro hn
  have hu : PrefixUntagged table reveal regs d := by
    intro e he r hr hrev
    exact hn ⟨e, he, r, hr, hrev⟩
  rcases (prefix_untagged table reveal regs d hwf hu).1 with h' | h' <;> (rw [h'] at h; cases h)

/-- likewise a match -/
theorem prefix_found_needs_registered_tag (table : List PrefixEntry) (reveal : Bytes → Option String)
    (regs : List RegView) (d : Bytes) (hwf : ∀ e ∈ table, EntryWf e) (rid k : Nat)
    (h : conv (wrapPrefix table reveal regs d) = .found rid k) :
    ∃ e ∈ table, ∃ r ∈ regs, reveal (window d e.offset) = some r.ident := by
  apply Classical.byContradiction
  intro hn
  have hu : PrefixUntagged table reveal regs d := by
    intro e he r hr hrev
    exact hn ⟨e, he, r, hr, hrev⟩
  rcases (prefix_untagged table reveal regs d hwf hu).1 with h' | h' <;> (rw [h'] at h; cases h)

/-! ### obfs4 -/

theorem obfs4_ne_err (marks : List Nat) (regs : List RegView) (d : Bytes) :
    conv (wrapObfs4 marks regs d) ≠ .err := by
  unfold wrapObfs4
  split
  · simp [conv]
  · split
    · simp [conv]
    · split <;> simp [conv]

theorem obfs4_untagged (marks : List Nat) (regs : List RegView) (d : Bytes) (hu : Obfs4Untagged marks regs) :
    conv (wrapObfs4 marks regs d) = (if d.length < 8192 then .tryAgain else .notT) := by
  have hnone : (regs.filter (fun r => r.ident.length == CJ.Wrap.obfs4IdentHexLen)).find?
      (fun r => marks.contains r.rid) = none := by
    rw [List.find?_eq_none]
    intro r hr hp
    exact hu r (List.mem_filter.mp hr).1 (by simpa using hp)
  unfold wrapObfs4
  simp only [CJ.Wrap.obfs4MinHandshake, CJ.Wrap.obfs4MaxHandshake, hnone]
  by_cases h1 : d.length < 64
  · have : d.length < 8192 := by omega
    simp [h1, this, conv]
  · by_cases h2 : d.length < 8192 <;> simp [h1, h2, conv]

theorem obfs4_found_needs_mark (marks : List Nat) (regs : List RegView) (d : Bytes) (rid k : Nat)
    (h : conv (wrapObfs4 marks regs d) = .found rid k) : ∃ r ∈ regs, r.rid = rid ∧ rid ∈ marks := by
  unfold wrapObfs4 at h
  split at h
  · simp [conv] at h
  · split at h
    · rename_i r' hr'
      have h1 := List.mem_of_find?_eq_some hr'
      have h2 := List.find?_some hr'
      simp only [conv, Verdict.found.injEq] at h
      exact ⟨r', (List.mem_filter.mp h1).1, h.1, by rw [← h.1]; simpa using h2⟩
    · split at h <;> simp [conv] at h

/-! ## an untagged stream is quiet for all three transports (`NoMatch` of C03) -/

/-- the table used at every call is well formed -/
def TableWf (w : Env) : Prop := ∀ d, ∀ e ∈ w.table d, EntryWf e

/-- no prefix of the stream presents a registered tag to any transport -/
def Untagged (w : Env) (S : Bytes) : Prop :=
  ∀ n, MinUntagged w.regs (S.take n) ∧
    PrefixUntagged (w.table (S.take n)) w.reveal w.regs (S.take n) ∧
    Obfs4Untagged (w.marks (S.take n)) w.regs

theorem min_quiet (w : Env) (S : Bytes) (hu : ∀ n, MinUntagged w.regs (S.take n)) :
    Quiet (cls w) .min S := by
  intro n
  simp only [cls, min_untagged _ _ (hu n)]
  split <;> simp

theorem prefix_quiet (w : Env) (hwf : TableWf w) (S : Bytes)
    (hu : ∀ n, PrefixUntagged (w.table (S.take n)) w.reveal w.regs (S.take n)) :
    Quiet (cls w) .prefix S := by
  intro n
  exact (prefix_untagged _ _ _ _ (hwf _) (hu n)).1

theorem obfs4_quiet (w : Env) (S : Bytes) (hu : ∀ n, Obfs4Untagged (w.marks (S.take n)) w.regs) :
    Quiet (cls w) .obfs4 S := by
  intro n
  simp only [cls, obfs4_untagged _ _ _ (hu n)]
  split <;> simp

theorem untagged_quiet (w : Env) (hwf : TableWf w) (S : Bytes) (hu : Untagged w S) (t : Tr) :
    Quiet (cls w) t S := by
  cases t
  · exact min_quiet w S (fun n => (hu n).1)
  · exact prefix_quiet w hwf S (fun n => (hu n).2.1)
  · exact obfs4_quiet w S (fun n => (hu n).2.2)

/-- **Give-up bound.**  On an untagged buffer of at least 8192 bytes — given that no decision length of
the prefix table exceeds its length — every transport answers not-transport. -/
theorem untagged_long_notT (w : Env) (hwf : TableWf w) (d : Bytes)
    (hmin : MinUntagged w.regs d) (hpre : PrefixUntagged (w.table d) w.reveal w.regs d)
    (hobf : Obfs4Untagged (w.marks d) w.regs) (hlen : 8192 ≤ d.length)
    (hb : ∀ e ∈ w.table d, e.minLen ≤ d.length ∧ e.maxLen ≤ d.length) (t : Tr) :
    cls w t d = .notT := by
  cases t
  · simp only [cls, min_untagged _ _ hmin]
    have : ¬ d.length < 32 := by omega
    simp [this]
  · exact (prefix_untagged _ _ _ _ (hwf d) hpre).2 (by omega) hb
  · simp only [cls, obfs4_untagged _ _ _ hobf]
    have : ¬ d.length < 8192 := by omega
    simp [this]

/-! ## the matchers are genuine on the flights of their clients (hypotheses of C04) -/

/-- **min**: the flight is the 32-byte identifier of a registration visible on the phantom; below 32
buffered bytes try-again, from 32 on that registration, consuming exactly the identifier. -/
theorem min_genuine (w : Env) (tag early : Bytes) (r : RegView) (htag : tag.length = 32)
    (hr : findReg w.regs (toHex tag) = some r) :
    Genuine (cls w) .min r.rid 32 (tag ++ early) := by
  constructor
  · intro n hn
    have hlt : ((tag ++ early).take n).length < 32 := by rw [List.length_take]; omega
    simp only [cls, wrapMin, CJ.Wrap.minTagLen, hlt, if_true, conv]
  · intro n hk hn
    have hge : ¬ ((tag ++ early).take n).length < 32 := by rw [List.length_take]; omega
    have h3 : ((tag ++ early).take n).take 32 = tag := by
      rw [List.take_take, Nat.min_eq_left hk, List.take_left' htag]
    simp only [cls, wrapMin, CJ.Wrap.minTagLen, hge, if_false, h3, hr, conv]

/-- decision lengths of a table entry are exactly `offset + 64`: below try-again, from there on the tag
is looked up.  With `maxLen > offset + 64` the code answers neither for lengths in between and the
station would drop the transport in the middle of a flight. -/
def EntryExact (e : PrefixEntry) : Prop := e.minLen = e.offset + 64 ∧ e.maxLen = e.offset + 64

/-- an iteration over another entry does not return: its window is out of range, or reveals nothing
registered, or reveals a prefix registration of another prefix id (which only raises the wrong-prefix flag) -/
def PassesBy (reveal : Bytes → Option String) (regs : List RegView) (d : Bytes) (e : PrefixEntry) : Prop :=
  e.offset + 64 ≤ d.length → ∀ id r, reveal (window d e.offset) = some id → findReg regs id = some r →
    r.transport = 4 ∧ r.prefixParam ≠ some (some e.id)

theorem prefixIter_passesBy (reveal : Bytes → Option String) (regs : List RegView) (d : Bytes) (st : PLoop)
    (e : PrefixEntry) (hwf : EntryWf e) (hp : PassesBy reveal regs d e) :
    ∃ st', prefixIter reveal regs d st e = .inr st' ∧ (st.tryAgain = true → st'.tryAgain = true) := by
  unfold prefixIter
  split; · exact ⟨st, rfl, id⟩
  split; · exact ⟨_, rfl, fun _ => rfl⟩
  split; · exact ⟨_, rfl, fun _ => rfl⟩
  split; · exact ⟨st, rfl, id⟩
  split
  · rename_i hmin _ hmax hoff
    exfalso
    unfold EntryWf at hwf
    simp only [CJ.Wrap.prefixTagLen] at hoff
    have : max e.minLen e.maxLen ≤ d.length := Nat.max_le.mpr ⟨by omega, by omega⟩
    omega
  · rename_i hoff
    simp only [CJ.Wrap.prefixTagLen] at hoff
    split
    · exact ⟨st, rfl, id⟩
    · rename_i id' hrev
      split
      · exact ⟨st, rfl, id⟩
      · rename_i r hr
        obtain ⟨h4, hne⟩ := hp (by omega) id' r hrev hr
        have h4' : (r.transport != 4) = false := by simp [h4]
        have hne' : (r.prefixParam != some (some e.id)) = true := by simpa using hne
        simp only [h4', hne', if_true, Bool.false_eq_true, if_false]
        exact ⟨_, rfl, id⟩

theorem prefixIter_short (reveal : Bytes → Option String) (regs : List RegView) (d : Bytes) (st : PLoop)
    (e : PrefixEntry) (hs : staticOk e d = true) (hl : d.length < e.minLen) :
    prefixIter reveal regs d st e = .inr { st with tryAgain := true } := by
  unfold prefixIter
  simp [hs, hl]

theorem prefixIter_hit (reveal : Bytes → Option String) (regs : List RegView) (d : Bytes) (st : PLoop)
    (e : PrefixEntry) (r : RegView) (hex : EntryExact e) (hs : staticOk e d = true)
    (hl : e.offset + 64 ≤ d.length) (hrev : reveal (window d e.offset) = some r.ident)
    (hfind : findReg regs r.ident = some r) (htr : r.transport = 4)
    (hpp : r.prefixParam = some (some e.id)) :
    prefixIter reveal regs d st e = .inl (.found r.rid (e.offset + 64)) := by
  unfold prefixIter
  obtain ⟨h1, h2⟩ := hex
  have a1 : ¬ d.length < e.minLen := by omega
  have a2 : ¬ d.length < e.maxLen := by omega
  simp [hs, a1, a2, hl, hrev, hfind, htr, hpp, CJ.Wrap.prefixTagLen]

/-- below the threshold: some entry whose static bytes lead the buffer still waits for bytes, no entry
returns ⇒ try-again, in whatever order the table is iterated -/
theorem prefixLoop_tryAgain (reveal : Bytes → Option String) (regs : List RegView) (d : Bytes) :
    ∀ (table : List PrefixEntry) (st : PLoop), (∀ e ∈ table, EntryWf e) →
      (∀ e ∈ table, PassesBy reveal regs d e) →
      (st.tryAgain = true ∨ ∃ e ∈ table, staticOk e d = true ∧ d.length < e.minLen) →
      prefixLoop reveal regs d st table = .tryAgain := by
  intro table
  induction table with
  | nil =>
    intro st _ _ h
    rcases h with h | ⟨e, he, _⟩
    · simp [prefixLoop, h]
    · cases he
  | cons e' es ih =>
    intro st hwf hp h
    have hwf' : ∀ e ∈ es, EntryWf e := fun e he => hwf e (List.mem_cons_of_mem _ he)
    have hp' : ∀ e ∈ es, PassesBy reveal regs d e := fun e he => hp e (List.mem_cons_of_mem _ he)
    obtain ⟨st', h1, h2⟩ := prefixIter_passesBy reveal regs d st e' (hwf e' (List.mem_cons_self ..))
      (hp e' (List.mem_cons_self ..))
    rcases h with h | ⟨e, he, hs, hl⟩
    · simp only [prefixLoop, h1]
      exact ih st' hwf' hp' (Or.inl (h2 h))
    · rcases List.mem_cons.mp he with rfl | he
      · simp only [prefixLoop, prefixIter_short reveal regs d st e hs hl]
        exact ih _ hwf' hp' (Or.inl rfl)
      · simp only [prefixLoop, h1]
        exact ih st' hwf' hp' (Or.inr ⟨e, he, hs, hl⟩)

/-- from the threshold on: the client's entry returns the registration; every other entry passes by ⇒
found, in whatever order the table is iterated -/
theorem prefixLoop_found (reveal : Bytes → Option String) (regs : List RegView) (d : Bytes)
    (e : PrefixEntry) (v : CJ.Wrap.Verdict) (hit : ∀ st, prefixIter reveal regs d st e = .inl v) :
    ∀ (table : List PrefixEntry) (st : PLoop), (∀ e' ∈ table, EntryWf e') →
      (∀ e' ∈ table, e' ≠ e → PassesBy reveal regs d e') → e ∈ table →
      prefixLoop reveal regs d st table = v := by
  intro table
  induction table with
  | nil => intro _ _ _ h; cases h
  | cons e' es ih =>
    intro st hwf hp hin
    by_cases hee : e' = e
    · subst hee
      simp only [prefixLoop, hit st]
    · obtain ⟨st', h1, _⟩ := prefixIter_passesBy reveal regs d st e' (hwf e' (List.mem_cons_self ..))
        (hp e' (List.mem_cons_self ..) hee)
      simp only [prefixLoop, h1]
      refine ih st' (fun x hx => hwf x (List.mem_cons_of_mem _ hx))
        (fun x hx => hp x (List.mem_cons_of_mem _ hx)) ?_
      rcases List.mem_cons.mp hin with h | h
      · exact absurd h.symm hee
      · exact h

theorem staticOk_of_prefix (e : PrefixEntry) (rest : Bytes) (n : Nat) :
    staticOk e ((e.static ++ rest).take n) = true := by
  unfold staticOk
  simp only [Bool.or_eq_true, beq_iff_eq]
  right
  have hd : ((e.static ++ rest).take n).length = min n (e.static.length + rest.length) := by
    rw [List.length_take, List.length_append]
  have hm : Nat.min e.static.length ((e.static ++ rest).take n).length ≤ n := by
    rw [hd]; simp only [Nat.min_def]; split <;> split <;> omega
  have hm2 : Nat.min e.static.length ((e.static ++ rest).take n).length ≤ e.static.length :=
    Nat.min_le_left ..
  rw [List.take_take, Nat.min_eq_left hm, List.take_append_of_le_length hm2]

/-- the first flight of a prefix client: static bytes of the prefix (plus `fill` up to the tag offset),
the 64-byte tag, then early data -/
def prefixFlight (e : PrefixEntry) (fill tag early : Bytes) : Bytes := e.static ++ fill ++ tag ++ early

/-- What makes `e.static ++ fill ++ tag ++ early` the flight of the client that registered `r` with
prefix `e`, on a station whose table (in any order, at every call) contains `e` once per id:
the tag reveals `r`'s identifier, `r` is a prefix registration for `e.id`, and no *other* 64-byte window
of the stream reveals a registered identifier (`NoAccidentalMatch`, an HMAC/Elligator idealisation). -/
structure PrefixClient (w : Env) (e : PrefixEntry) (r : RegView) (fill tag early : Bytes) : Prop where
  exact : EntryExact e
  off : e.offset = e.static.length + fill.length
  tagLen : tag.length = 64
  reveals : w.reveal tag = some r.ident
  registered : findReg w.regs r.ident = some r
  isPrefix : r.transport = 4
  sameId : r.prefixParam = some (some e.id)
  inTable : ∀ d, e ∈ w.table d
  idsUnique : ∀ d, ∀ e' ∈ w.table d, e'.id = e.id → e' = e
  noAccident : ∀ n, ∀ e' ∈ w.table ((prefixFlight e fill tag early).take n),
    window ((prefixFlight e fill tag early).take n) e'.offset ≠ tag →
    ∀ r' ∈ w.regs, w.reveal (window ((prefixFlight e fill tag early).take n) e'.offset) ≠ some r'.ident

theorem PrefixClient.passesBy {w : Env} {e : PrefixEntry} {r : RegView} {fill tag early : Bytes}
    (c : PrefixClient w e r fill tag early) (n : Nat)
    (e' : PrefixEntry) (he' : e' ∈ w.table ((prefixFlight e fill tag early).take n)) (hne : e' ≠ e) :
    PassesBy w.reveal w.regs ((prefixFlight e fill tag early).take n) e' := by
  intro _ id r' hrev hfind
  obtain ⟨hm, hi⟩ := findReg_some hfind
  by_cases hw : window ((prefixFlight e fill tag early).take n) e'.offset = tag
  · rw [hw, c.reveals] at hrev
    have hid : r.ident = id := by simpa using hrev
    rw [← hid, c.registered] at hfind
    have hrr : r = r' := by simpa using hfind
    subst hrr
    refine ⟨c.isPrefix, ?_⟩
    rw [c.sameId]
    intro h
    have : e.id = e'.id := by simpa using h
    exact hne (c.idsUnique _ e' he' this.symm)
  · exact absurd (by rw [hrev, hi]) (c.noAccident n e' he' hw r' hm)

/-- **prefix**: for every table entry with exact decision lengths, every iteration order, every
co-entries: below `offset + 64` buffered bytes try-again, from there on the client's registration,
consuming exactly prefix and tag. -/
theorem prefix_genuine (w : Env) (hwf : TableWf w) (e : PrefixEntry) (r : RegView) (fill tag early : Bytes)
    (c : PrefixClient w e r fill tag early) :
    Genuine (cls w) .prefix r.rid (e.offset + 64) (prefixFlight e fill tag early) := by
  have hS : prefixFlight e fill tag early = e.static ++ (fill ++ tag ++ early) := by
    simp [prefixFlight, List.append_assoc]
  have hlenS : (prefixFlight e fill tag early).length = e.offset + 64 + early.length := by
    simp only [prefixFlight, List.length_append, c.off, c.tagLen]
  constructor
  · intro n hn
    have hdl : ((prefixFlight e fill tag early).take n).length < e.offset + 64 := by
      rw [List.length_take]; omega
    simp only [cls, wrapPrefix, CJ.Wrap.prefixTagLen]
    by_cases h64 : ((prefixFlight e fill tag early).take n).length < 64
    · simp only [h64, if_true, conv]
    · simp only [h64, if_false]
      rw [prefixLoop_tryAgain w.reveal w.regs _ _ {} (hwf _)]
      · rfl
      · intro e' he'
        by_cases hee : e' = e
        · subst hee
          intro hl; omega
        · exact c.passesBy n e' he' hee
      · refine Or.inr ⟨e, c.inTable _, ?_, by rw [c.exact.1]; exact hdl⟩
        rw [hS]; exact staticOk_of_prefix e _ n
  · intro n hk hn
    have hdl : ((prefixFlight e fill tag early).take n).length = n := by
      rw [List.length_take]; omega
    have h64 : ¬ ((prefixFlight e fill tag early).take n).length < 64 := by omega
    have hwin : window ((prefixFlight e fill tag early).take n) e.offset = tag := by
      obtain ⟨m, rfl⟩ : ∃ m, n = (e.static ++ fill).length + m :=
        ⟨n - e.offset, by rw [List.length_append, ← c.off]; omega⟩
      have hm : 64 ≤ m := by rw [List.length_append, ← c.off] at hk; omega
      have hoff : e.offset = (e.static ++ fill).length := by rw [List.length_append, c.off]
      unfold window prefixFlight
      rw [hoff, List.append_assoc (e.static ++ fill), List.take_length_add_append, List.drop_left,
        List.take_take, CJ.Wrap.prefixTagLen, Nat.min_eq_left hm, List.take_left' c.tagLen]
    simp only [cls, wrapPrefix, CJ.Wrap.prefixTagLen, h64, if_false]
    rw [prefixLoop_found w.reveal w.regs _ e (.found r.rid (e.offset + 64)) ?_ _ {} (hwf _)
      (fun e' he' hne => c.passesBy n e' he' hne) (c.inTable _)]
    · rfl
    · intro st
      refine prefixIter_hit w.reveal w.regs _ st e r c.exact ?_ (by omega) (by rw [hwin]; exact c.reveals)
        c.registered c.isPrefix c.sameId
      rw [hS]; exact staticOk_of_prefix e _ n

/-- **obfs4**: the stream of the theorem is the client handshake alone (the client waits for the
server's reply before it sends anything else).  The mark of `r` is located once the whole handshake is
buffered and not before; the classifier itself consumes nothing (the obfs4 library reads the handshake
from the prepended buffer). -/
theorem obfs4_genuine (w : Env) (S : Bytes) (r : RegView) (hmin : 64 ≤ S.length) (hmax : S.length ≤ 8192)
    (hr : r ∈ w.regs) (hid : r.ident.length = 104) (hmark : r.rid ∈ w.marks S)
    (honly : ∀ r' ∈ w.regs, r'.rid ∈ w.marks S → r'.rid = r.rid)
    (hbelow : ∀ n, n < S.length → Obfs4Untagged (w.marks (S.take n)) w.regs) :
    GenuineAt (cls w) .obfs4 r.rid S.length 0 S := by
  refine ⟨Nat.zero_le _, ?_, ?_⟩
  · intro n hn
    simp only [cls, obfs4_untagged _ _ _ (hbelow n hn)]
    have : (S.take n).length < 8192 := by rw [List.length_take]; omega
    rw [if_pos this]
  · intro n hk hn
    have hn' : n = S.length := by omega
    subst hn'
    rw [List.take_length]
    simp only [cls, wrapObfs4, CJ.Wrap.obfs4MinHandshake]
    have h64 : ¬ S.length < 64 := by omega
    simp only [h64, if_false]
    have hsome : ((w.regs.filter (fun r => r.ident.length == CJ.Wrap.obfs4IdentHexLen)).find?
        (fun r => (w.marks S).contains r.rid)).isSome = true := by
      rw [List.find?_isSome]
      exact ⟨r, List.mem_filter.mpr ⟨hr, by simp [CJ.Wrap.obfs4IdentHexLen, hid]⟩, by simpa using hmark⟩
    cases hf : (w.regs.filter (fun r => r.ident.length == CJ.Wrap.obfs4IdentHexLen)).find?
        (fun r => (w.marks S).contains r.rid) with
    | none => rw [hf] at hsome; cases hsome
    | some r' =>
      have h1 := (List.mem_filter.mp (List.mem_of_find?_eq_some hf)).1
      have h2 : r'.rid ∈ w.marks S := by simpa using List.find?_some hf
      simp only [conv, honly r' h1 h2]

end CJ.WrapCls
