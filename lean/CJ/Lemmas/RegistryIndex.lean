import CJ.Model.RegistryIndex
import CJ.Lemmas.Registry
/-! The string-indexed registry is abstracted exactly by the pair-keyed one (simulation `R`). -/
open Std

namespace CJ.RegistryIndex
open CJ.Registry

/-! ### the index function -/

theorem join_inj (p p' i i' : List Nat) (hp : sep ∉ p) (hp' : sep ∉ p')
    (h : join p i = join p' i') : p = p' ∧ i = i' := by
  unfold join at h
  induction p generalizing p' with
  | nil =>
    cases p' with
    | nil => simp at h; exact ⟨rfl, h⟩
    | cons b q =>
      simp at h
      exact absurd (h.1 ▸ List.mem_cons_self) hp'
  | cons a q ih =>
    cases p' with
    | nil =>
      simp at h
      exact absurd (h.1 ▸ List.mem_cons_self) hp
    | cons b q' =>
      simp only [List.cons_append, List.cons.injEq] at h
      have hq : sep ∉ q := fun m => hp (List.mem_cons_of_mem _ m)
      have hq' : sep ∉ q' := fun m => hp' (List.mem_cons_of_mem _ m)
      obtain ⟨e1, e2⟩ := ih q' hq hq' h.2
      exact ⟨by rw [h.1, e1], e2⟩

theorem units_inj (a b : String) (h : units a = units b) : a = b := by
  unfold units at h
  have := (List.map_inj_right (f := Char.toNat) (fun x y e => Char.toNat_inj.mp e)).mp h
  exact String.toList_inj.mp this

theorem idx_inj (k k' : Key) (hk : sepFree k) (hk' : sepFree k') (h : idx k = idx k') : k = k' := by
  obtain ⟨e1, e2⟩ := join_inj _ _ _ _ hk hk' h
  exact Prod.ext (units_inj _ _ e1) (units_inj _ _ e2)

theorem idx_ne (k k' : Key) (hk : sepFree k) (hk' : sepFree k') (h : k ≠ k') : ¬ (idx k == idx k') = true := by
  intro e; exact h (idx_inj k k' hk hk' (by simpa using e))

theorem splitFirst_join (p i : List Nat) (hp : sep ∉ p) : splitFirst (join p i) = some (p, i) := by
  unfold join
  induction p with
  | nil => simp [splitFirst]
  | cons a q ih =>
    have ha : a ≠ sep := fun e => hp (e ▸ List.mem_cons_self)
    have hq : sep ∉ q := fun m => hp (List.mem_cons_of_mem _ m)
    simp [splitFirst, ha, ih hq]

/-! ### the simulation -/

def lift (k : Key) (t : TO) : KTO := ⟨k.1, k.2, t.time, t.used⟩

theorem lift_to (k : Key) (t : TO) : (lift k t).to = t := by cases t; rfl
theorem lift_key (k : Key) (t : TO) : (lift k t).key = k := by cases k; rfl

structure R (ks : KSt) (s : St) : Prop where
  dec : ∀ k : Key, ks.decoys[k]? = s.decoys[k]?
  fwd : ∀ k : Key, sepFree k → ks.timeouts[idx k]? = (s.timeouts[k]?).map (lift k)
  back : ∀ (i : Index) (t : KTO), ks.timeouts[i]? = some t → sepFree t.key ∧ idx t.key = i
  dom : ∀ (k : Key) (t : TO), s.timeouts[k]? = some t → sepFree k

theorem R_init : R kinit init := by
  constructor <;> intros <;> simp_all [kinit, init]

theorem R_congr {ks : KSt} {s s' : St} (h : R ks s)
    (e : ∀ k : Key, s'.decoys[k]? = s.decoys[k]? ∧ s'.timeouts[k]? = s.timeouts[k]?) : R ks s' := by
  refine ⟨fun k => by rw [h.dec, (e k).1], fun k hk => by rw [h.fwd k hk, (e k).2], h.back, ?_⟩
  intro k t ht; rw [(e k).2] at ht; exact h.dom k t ht

/-- inserting a fresh record under `idx k` / `k` keeps the simulation -/
theorem R_insert {ks : KSt} {s : St} (h : R ks s) (k : Key) (hk : sepFree k) (r : Reg) (t : TO) :
    R { decoys := ks.decoys.insert k r, timeouts := ks.timeouts.insert (idx k) (lift k t) }
      { decoys := s.decoys.insert k r, timeouts := s.timeouts.insert k t } := by
  constructor
  · intro k'; simp only [HashMap.getElem?_insert, h.dec k']
  · intro k' hk'
    simp only [HashMap.getElem?_insert]
    by_cases e : k = k'
    · subst e; simp
    · have e1 : ¬ (k == k') = true := by simpa using e
      simp only [idx_ne k k' hk hk' e, e1, if_false]
      exact h.fwd k' hk'
  · intro i t' ht
    simp only [HashMap.getElem?_insert] at ht
    by_cases e : (idx k == i) = true
    · simp only [e, if_true, Option.some.injEq] at ht
      subst ht
      rw [lift_key]; exact ⟨hk, by simpa using e⟩
    · simp only [e, if_false] at ht
      exact h.back i t' ht
  · intro k' t' ht
    simp only [HashMap.getElem?_insert] at ht
    by_cases e : (k == k') = true
    · have : k = k' := by simpa using e
      subst this; exact hk
    · simp only [e, if_false] at ht
      exact h.dom k' t' ht

/-- only the registration object changes -/
theorem R_decoys {ks : KSt} {s : St} (h : R ks s) (k : Key) (r : Reg) :
    R { ks with decoys := ks.decoys.insert k r } { s with decoys := s.decoys.insert k r } := by
  refine ⟨?_, h.fwd, h.back, h.dom⟩
  intro k'; simp only [HashMap.getElem?_insert, h.dec k']

theorem ktrack_R (c : Cfg) {ks : KSt} {s : St} (h : R ks s) (k : Key) (hk : sepFree k) (tr now : Nat) :
    R (ktrack c ks k tr now).1 (track c s k tr now).1 ∧ (ktrack c ks k tr now).2 = (track c s k tr now).2 := by
  unfold ktrack track
  rw [h.dec k]
  cases he : c.enabled.contains tr
  · exact ⟨h, by first | rfl | trivial⟩
  · simp only [Bool.not_true, Bool.false_eq_true, ↓reduceIte]
    cases hd : s.decoys[k]? with
    | some r => exact ⟨R_decoys h k _, by first | rfl | trivial⟩
    | none => exact ⟨R_insert h k hk ⟨tr, false, 1⟩ ⟨now, false⟩, by first | rfl | trivial⟩

theorem kregister_R (c : Cfg) {ks : KSt} {s : St} (h : R ks s) (k : Key) (hk : sepFree k) (tr now : Nat) :
    R (kregister c ks k tr now).1 (register c s k tr now).1 ∧
      (kregister c ks k tr now).2 = (register c s k tr now).2 := by
  unfold kregister register
  rw [h.dec k]
  cases he : c.enabled.contains tr
  · exact ⟨h, by first | rfl | trivial⟩
  · simp only [Bool.not_true, Bool.false_eq_true, ↓reduceIte]
    cases hd : s.decoys[k]? with
    | some r =>
      dsimp only
      cases hv : r.valid
      · exact ⟨R_decoys h k _, by first | rfl | trivial⟩
      · exact ⟨h, by first | rfl | trivial⟩
    | none => exact ⟨R_insert h k hk ⟨tr, true, 1⟩ ⟨now, false⟩, by first | rfl | trivial⟩

theorem kmarkActive_R (c : Cfg) {ks : KSt} {s : St} (h : R ks s) (k : Key) (hk : sepFree k) (tr : Nat) :
    R (kmarkActive c ks k tr).1 (markActive c s k tr).1 ∧
      (kmarkActive c ks k tr).2 = (markActive c s k tr).2 := by
  unfold kmarkActive markActive
  rw [h.fwd k hk]
  cases he : c.enabled.contains tr
  · exact ⟨h, by first | rfl | trivial⟩
  · simp only [Bool.not_true, Bool.false_eq_true, ↓reduceIte]
    cases hs : s.timeouts[k]? with
    | none => exact ⟨h, by first | rfl | trivial⟩
    | some t =>
      simp only [Option.map_some]
      refine ⟨⟨h.dec, ?_, ?_, ?_⟩, by first | rfl | trivial⟩
      · intro k' hk'
        simp only [HashMap.getElem?_insert]
        by_cases e : k = k'
        · subst e; simp [lift]
        · have e1 : ¬ (k == k') = true := by simpa using e
          simp only [idx_ne k k' hk hk' e, e1, if_false]
          exact h.fwd k' hk'
      · intro i t' ht
        simp only [HashMap.getElem?_insert] at ht
        by_cases e : (idx k == i) = true
        · simp only [e, if_true, Option.some.injEq] at ht
          subst ht
          exact ⟨by simpa [KTO.key, lift] using hk, by simpa [KTO.key, lift] using e⟩
        · simp only [e, if_false] at ht
          exact h.back i t' ht
      · intro k' t' ht
        simp only [HashMap.getElem?_insert] at ht
        by_cases e : (k == k') = true
        · have : k = k' := by simpa using e
          subst this; exact hk
        · simp only [e, if_false] at ht
          exact h.dom k' t' ht

theorem kremove_R (c : Cfg) (now : Nat) {ks : KSt} {s : St} (h : R ks s) (k : Key) (hk : sepFree k) :
    R (kremove c now ks (idx k)).1 (remove c now s k).1 ∧
      (kremove c now ks (idx k)).2 = (remove c now s k).2 := by
  unfold kremove remove
  rw [h.fwd k hk]
  cases hs : s.timeouts[k]? with
  | none => exact ⟨h, by first | rfl | trivial⟩
  | some t =>
    simp only [Option.map_some, lift_to, lift_key]
    cases hx : expired c now t
    · exact ⟨h, by first | rfl | trivial⟩
    · rw [h.dec k]
      cases hd : s.decoys[k]? with
      | none => exact ⟨h, by first | rfl | trivial⟩
      | some r =>
        refine ⟨⟨?_, ?_, ?_, ?_⟩, by first | rfl | trivial⟩ <;> simp only [↓reduceIte]
        · intro k'; simp only [HashMap.getElem?_erase, h.dec k']
        · intro k' hk'
          simp only [HashMap.getElem?_erase]
          by_cases e : k = k'
          · subst e; simp
          · have e1 : ¬ (k == k') = true := by simpa using e
            simp only [idx_ne k k' hk hk' e, e1, if_false]
            exact h.fwd k' hk'
        · intro i t' ht
          simp only [HashMap.getElem?_erase] at ht
          by_cases e : (idx k == i) = true
          · simp [e] at ht
          · simp only [e, if_false] at ht
            exact h.back i t' ht
        · intro k' t' ht
          simp only [HashMap.getElem?_erase] at ht
          by_cases e : (k == k') = true
          · simp [e] at ht
          · simp only [e, if_false] at ht
            exact h.dom k' t' ht

/-- an index under which nothing is stored: `removeRegistration` does nothing -/
theorem kremove_absent (c : Cfg) (now : Nat) (ks : KSt) (i : Index) (h : ks.timeouts[i]? = none) :
    kremove c now ks i = (ks, none) := by
  unfold kremove; rw [h]

/-- the key a stored index belongs to (read from the record, as the code does) -/
def keyOf (ks : KSt) (i : Index) : Key :=
  match ks.timeouts[i]? with
  | some t => t.key
  | none => ("", "")

def kremoveAllS (c : Cfg) (now : Nat) (is : List Index) (s : KSt) : KSt :=
  is.foldl (fun s i => (kremove c now s i).1) s

theorem kremoveAll_fst (c : Cfg) (now : Nat) (is : List Index) (s : KSt) (n : Nat) :
    (is.foldl (fun (acc : KSt × Nat) i =>
      let (s', r) := kremove c now acc.1 i
      (s', if r = some true then acc.2 + 1 else acc.2)) (s, n)).1 = kremoveAllS c now is s := by
  induction is generalizing s n with
  | nil => rfl
  | cons a is ih => simp only [List.foldl_cons, kremoveAllS]; rw [ih]; rfl

theorem ksweep_fst (c : Cfg) (now : Nat) (s : KSt) :
    (ksweep c now s).1 = kremoveAllS c now (kcollect c now s) s := by
  unfold ksweep kremoveAll
  exact kremoveAll_fst c now _ s 0

/-- removing index by index is removing key by key, whatever the two lists are, as long as they
correspond position by position -/
theorem kremoveAllS_R (c : Cfg) (now : Nat) (is : List Index) (f : Index → Key)
    (hf : ∀ i ∈ is, sepFree (f i) ∧ idx (f i) = i) {ks : KSt} {s : St} (h : R ks s) :
    R (kremoveAllS c now is ks) (removeAllS c now (is.map f) s) := by
  induction is generalizing ks s with
  | nil => exact h
  | cons a is ih =>
    simp only [kremoveAllS, removeAllS, List.map_cons, List.foldl_cons]
    obtain ⟨h1, h2⟩ := hf a List.mem_cons_self
    have := (kremove_R c now h (f a) h1).1
    rw [h2] at this
    exact ih (fun i hi => hf i (List.mem_cons_of_mem _ hi)) this

theorem mem_kcollect (c : Cfg) (now : Nat) (s : KSt) (i : Index) :
    i ∈ kcollect c now s ↔ ∃ t, s.timeouts[i]? = some t ∧ expired c now t.to = true := by
  unfold kcollect
  simp only [List.mem_map, List.mem_filter]
  constructor
  · rintro ⟨⟨i', t⟩, ⟨hm, he⟩, rfl⟩
    exact ⟨t, HashMap.mem_toList_iff_getElem?_eq_some.mp hm, he⟩
  · rintro ⟨t, hm, he⟩
    exact ⟨(i, t), ⟨HashMap.mem_toList_iff_getElem?_eq_some.mpr hm, he⟩, rfl⟩

/-- the whole sweep -/
theorem ksweep_R (c : Cfg) (now : Nat) {ks : KSt} {s : St} (h : R ks s) (hi : Inv s) :
    R (ksweep c now ks).1 (sweep c now s).1 := by
  rw [ksweep_fst]
  have hf : ∀ i ∈ kcollect c now ks, sepFree (keyOf ks i) ∧ idx (keyOf ks i) = i := by
    intro i him
    obtain ⟨t, ht, _⟩ := (mem_kcollect c now ks i).mp him
    have := h.back i t ht
    unfold keyOf; rw [ht]; exact this
  have h1 := kremoveAllS_R c now (kcollect c now ks) (keyOf ks) hf h
  apply R_congr h1
  intro k
  have ha := sweep_get c now s hi k
  have hb := removeAllS_get c now ((kcollect c now ks).map (keyOf ks)) s hi k
  by_cases hx : ∃ t, s.timeouts[k]? = some t ∧ expired c now t = true
  · have hmem : k ∈ (kcollect c now ks).map (keyOf ks) := by
      obtain ⟨t, ht, he⟩ := hx
      have hk := h.dom k t ht
      have hfw := h.fwd k hk
      rw [ht] at hfw
      simp only [Option.map_some] at hfw
      refine List.mem_map.mpr ⟨idx k, (mem_kcollect c now ks _).mpr ⟨lift k t, hfw, by rw [lift_to]; exact he⟩, ?_⟩
      simp only [keyOf, hfw, lift_key]
    rw [if_pos hx] at ha
    rw [if_pos ⟨hmem, hx⟩] at hb
    exact ⟨(congrArg Prod.fst ha).trans (congrArg Prod.fst hb).symm,
           (congrArg Prod.snd ha).trans (congrArg Prod.snd hb).symm⟩
  · rw [if_neg hx] at ha
    rw [if_neg (fun hh => hx hh.2)] at hb
    exact ⟨(congrArg Prod.fst ha).trans (congrArg Prod.fst hb).symm,
           (congrArg Prod.snd ha).trans (congrArg Prod.snd hb).symm⟩

/-- one operation of the string-indexed registry is at most one operation of the pair-keyed one -/
theorem kstep_R (c : Cfg) {ks : KSt} {s : St} (h : R ks s) (hi : Inv s) (op : KOp) (hop : op.sepFree) :
    ∃ os : List Op, os.length ≤ 1 ∧ R (kstep c ks op).1 (run c os s) := by
  cases op with
  | track k tr now => exact ⟨[.track k tr now], by simp, (ktrack_R c h k hop tr now).1⟩
  | register k tr now => exact ⟨[.register k tr now], by simp, (kregister_R c h k hop tr now).1⟩
  | markActive k tr => exact ⟨[.markActive k tr], by simp, (kmarkActive_R c h k hop tr).1⟩
  | collect now => exact ⟨[], by simp, h⟩
  | removeIdx i now =>
    cases ht : ks.timeouts[i]? with
    | none =>
      refine ⟨[], by simp, ?_⟩
      simp only [kstep, kremove_absent c now ks i ht]; exact h
    | some t =>
      obtain ⟨h1, h2⟩ := h.back i t ht
      refine ⟨[.remove t.key now], by simp, ?_⟩
      have := (kremove_R c now h t.key h1).1
      rw [h2] at this
      exact this
  | sweep now => exact ⟨[.sweep now], by simp, ksweep_R c now h hi⟩
  | lookup p => exact ⟨[], by simp, h⟩
  | total => exact ⟨[], by simp, h⟩
  | totalTimeouts => exact ⟨[], by simp, h⟩

theorem run_append (c : Cfg) (a b : List Op) (s : St) : run c (a ++ b) s = run c b (run c a s) := by
  simp [run, List.foldl_append]

/-- every history of the string-indexed registry is simulated by a history of the pair-keyed one -/
theorem krun_R (c : Cfg) (kops : List KOp) (hs : ∀ op ∈ kops, op.sepFree) :
    ∃ ops : List Op, R (krun c kops) (run c ops) := by
  suffices H : ∀ (ks : KSt) (ops0 : List Op), R ks (run c ops0) →
      ∃ ops : List Op, R (krun c kops ks) (run c ops) from H kinit [] R_init
  induction kops with
  | nil => intro ks ops0 h; exact ⟨ops0, h⟩
  | cons o rest ih =>
    intro ks ops0 h
    have hi : Inv (run c ops0) := inv_run c ops0 init inv_init
    obtain ⟨os, _, h'⟩ := kstep_R c h hi o (hs o List.mem_cons_self)
    rw [← run_append] at h'
    have := ih (fun op hm => hs op (List.mem_cons_of_mem _ hm)) (kstep c ks o).1 (ops0 ++ os) h'
    simpa [krun] using this

end CJ.RegistryIndex
