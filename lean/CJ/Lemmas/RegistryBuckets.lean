import CJ.Lemmas.RegistryConc
/-! Helper lemmas about the per-phantom buckets (`BSt`, `bstep`): the registry part of `bstep` is
`step`, and the stored buckets are exactly the phantoms that have a tracked registration. -/
open Std

namespace CJ.Registry

/-- the stored buckets are duplicate-free and are exactly the phantoms with a tracked registration -/
def BInv (b : BSt) : Prop :=
  b.buckets.Nodup ∧ ∀ p, p ∈ b.buckets ↔ ∃ i, b.st.decoys.contains (p, i) = true

theorem binv_init : BInv binit := by
  refine ⟨by simp [binit], ?_⟩
  intro p; simp [binit]

theorem mem_addBucket (p q : String) (l : List String) : q ∈ addBucket p l ↔ q = p ∨ q ∈ l := by
  unfold addBucket
  by_cases h : p ∈ l
  · simp only [List.contains_eq_mem, h, decide_true, if_true]
    constructor
    · exact Or.inr
    · rintro (rfl | h')
      · exact h
      · exact h'
  · simp [h]

theorem nodup_addBucket (p : String) (l : List String) (h : l.Nodup) : (addBucket p l).Nodup := by
  unfold addBucket
  by_cases hc : p ∈ l
  · simp only [List.contains_eq_mem, hc, decide_true, if_true]; exact h
  · simp only [List.contains_eq_mem, hc, decide_false, Bool.false_eq_true, if_false]
    exact List.nodup_cons.mpr ⟨hc, h⟩

theorem count_eq_zero_iff (s : St) (p : String) :
    count s p = 0 ↔ ∀ i, s.decoys.contains (p, i) = false := by
  unfold count
  rw [List.length_eq_zero_iff, List.filter_eq_nil_iff]
  constructor
  · intro h i
    cases hc : s.decoys.contains (p, i) with
    | false => rfl
    | true =>
      exfalso
      rw [HashMap.contains_eq_isSome_getElem?] at hc
      cases hg : s.decoys[(p, i)]? with
      | none => rw [hg] at hc; cases hc
      | some r =>
        have hm : ((p, i), r) ∈ s.decoys.toList := HashMap.mem_toList_iff_getElem?_eq_some.mpr hg
        exact h _ hm (by simp)
  · rintro h ⟨⟨p', i⟩, r⟩ hm hp
    have hp' : p' = p := by simpa using hp
    subst hp'
    have hg := HashMap.mem_toList_iff_getElem?_eq_some.mp hm
    have := h i
    rw [contains_of_getElem? _ _ _ hg] at this; cases this

/-! ### the registry part of `bstep` is `step` -/

theorem bremove_fst (c : Cfg) (now : Nat) (b : BSt) (k : Key) :
    (bremove c now b k).1.st = (remove c now b.st k).1 ∧ (bremove c now b k).2 = (remove c now b.st k).2 := by
  unfold bremove
  split <;> rename_i h <;> simp [h]

theorem bremoveAll_fst (c : Cfg) (now : Nat) (ks : List Key) (b : BSt) (n : Nat) :
    let r := ks.foldl (fun (acc : BSt × Nat) k =>
      let (b', r) := bremove c now acc.1 k
      (b', if r = some true then acc.2 + 1 else acc.2)) (b, n)
    let r' := ks.foldl (fun (acc : St × Nat) k =>
      let (s', r) := remove c now acc.1 k
      (s', if r = some true then acc.2 + 1 else acc.2)) (b.st, n)
    r.1.st = r'.1 ∧ r.2 = r'.2 := by
  induction ks generalizing b n with
  | nil => exact ⟨rfl, rfl⟩
  | cons a ks ih =>
    simp only [List.foldl_cons]
    have h := bremove_fst c now b a
    have := ih (bremove c now b a).1 (if (bremove c now b a).2 = some true then n + 1 else n)
    simp only [h.1] at this
    rw [h.2] at this ⊢
    exact this

theorem bstep_st (c : Cfg) (b : BSt) (op : Op) :
    (bstep c b op).1.st = (step c b.st op).1 ∧ (bstep c b op).2 = (step c b.st op).2 := by
  cases op with
  | track k tr now => exact ⟨rfl, rfl⟩
  | register k tr now => exact ⟨rfl, rfl⟩
  | markActive k tr => exact ⟨rfl, rfl⟩
  | collect now => exact ⟨rfl, rfl⟩
  | remove k now =>
    have h := bremove_fst c now b k
    simp only [bstep, step]
    exact ⟨h.1, by rw [h.2]⟩
  | sweep now =>
    have h := bremoveAll_fst c now (collect c now b.st) b 0
    simp only [bstep, step, sweep, bremoveAll, removeAll] at h ⊢
    exact ⟨h.1, by rw [h.2]⟩
  | lookup p => exact ⟨rfl, rfl⟩
  | exists_ k tr => exact ⟨rfl, rfl⟩
  | count p => exact ⟨rfl, rfl⟩
  | total => exact ⟨rfl, rfl⟩

theorem brun_st (c : Cfg) (ops : List Op) (b : BSt) : (brun c ops b).st = run c ops b.st := by
  unfold brun run
  induction ops generalizing b with
  | nil => rfl
  | cons o ops ih =>
    simp only [List.foldl_cons]
    rw [ih, (bstep_st c b o).1]

/-! ### preservation of `BInv` -/

theorem track_contains (c : Cfg) (s : St) (k k' : Key) (tr now : Nat) :
    (track c s k tr now).1.decoys.contains k' = ((creates c s k tr && k == k') || s.decoys.contains k') := by
  unfold track creates
  by_cases he : c.enabled.contains tr = true
  · simp only [he, Bool.not_true, Bool.false_eq_true, if_false, Bool.true_and]
    split
    · rename_i r hr
      have hc := contains_of_getElem? _ _ _ hr
      simp only [contains_insert', hc, Bool.not_true, Bool.false_and, Bool.false_or]
      by_cases e : k = k'
      · subst e; simp [hc]
      · simp [e]
    · rename_i hr
      have hc := not_contains_of_getElem? _ _ hr
      simp only [contains_insert', hc, Bool.not_false, Bool.true_and]
  · have he' : ¬ tr ∈ c.enabled := by simpa using he
    simp [he']

theorem register_contains (c : Cfg) (s : St) (k k' : Key) (tr now : Nat) :
    (register c s k tr now).1.decoys.contains k' = ((creates c s k tr && k == k') || s.decoys.contains k') := by
  unfold register creates
  by_cases he : c.enabled.contains tr = true
  · simp only [he, Bool.not_true, Bool.false_eq_true, if_false, Bool.true_and]
    split
    · rename_i r hr
      have hc := contains_of_getElem? _ _ _ hr
      split
      · simp [hc]
      · simp only [contains_insert', hc, Bool.not_true, Bool.false_and, Bool.false_or]
        by_cases e : k = k'
        · subst e; simp [hc]
        · simp [e]
    · rename_i hr
      have hc := not_contains_of_getElem? _ _ hr
      simp only [contains_insert', hc, Bool.not_false, Bool.true_and]
  · have he' : ¬ tr ∈ c.enabled := by simpa using he
    simp [he']

/-- adding a bucket when (and only when) a registration is stored keeps the invariant -/
theorem binv_store (b : BSt) (s' : St) (k : Key) (cr : Bool) (hb : BInv b)
    (hc : ∀ k', s'.decoys.contains k' = ((cr && k == k') || b.st.decoys.contains k')) :
    BInv { st := s', buckets := if cr then addBucket k.1 b.buckets else b.buckets } := by
  obtain ⟨hn, hm⟩ := hb
  cases cr with
  | false =>
    refine ⟨hn, ?_⟩
    intro p
    simp only [Bool.false_eq_true, if_false]
    rw [hm p]
    constructor <;> (rintro ⟨i, hi⟩; exact ⟨i, by simpa [hc] using hi⟩)
  | true =>
    refine ⟨nodup_addBucket _ _ hn, ?_⟩
    intro p
    simp only [if_true]
    rw [mem_addBucket, hm p]
    constructor
    · rintro (rfl | ⟨i, hi⟩)
      · exact ⟨k.2, by simp [hc]⟩
      · exact ⟨i, by simp [hc, hi]⟩
    · rintro ⟨i, hi⟩
      rw [hc] at hi
      simp only [Bool.true_and, Bool.or_eq_true, beq_iff_eq] at hi
      rcases hi with rfl | hi
      · exact Or.inl rfl
      · exact Or.inr ⟨i, hi⟩

/-- `remove` either changes nothing and reports nothing, or erases exactly `k` from the decoys and
reports the validity of what it erased -/
theorem remove_cases (c : Cfg) (now : Nat) (s : St) (k : Key) :
    ((remove c now s k).1 = s ∧ (remove c now s k).2 = none) ∨
    (∃ r, s.decoys[k]? = some r ∧ (remove c now s k).1.decoys = s.decoys.erase k ∧
      (remove c now s k).2 = some r.valid) := by
  unfold remove
  split
  · exact Or.inl ⟨rfl, rfl⟩
  · split
    · split
      · exact Or.inl ⟨rfl, rfl⟩
      · rename_i r hr
        exact Or.inr ⟨r, hr, rfl, rfl⟩
    · exact Or.inl ⟨rfl, rfl⟩

theorem binv_bremove (c : Cfg) (now : Nat) (b : BSt) (k : Key) (hb : BInv b) :
    BInv (bremove c now b k).1 := by
  obtain ⟨hn, hm⟩ := hb
  unfold bremove
  rcases remove_cases c now b.st k with ⟨h1, h2⟩ | ⟨r, hr, h1, h2⟩
  · -- nothing was deleted
    split
    · rename_i s' heq
      have hs : s' = b.st := by rw [← h1, heq]
      subst hs
      exact ⟨hn, hm⟩
    · rename_i s' v heq
      rw [heq] at h2; cases h2
  · split
    · rename_i s' heq
      rw [heq] at h2; cases h2
    · rename_i s' v heq
      have hd : s'.decoys = b.st.decoys.erase k := by rw [← h1, heq]
      have hce : ∀ k', s'.decoys.contains k' = (!(k == k') && b.st.decoys.contains k') := by
        intro k'; rw [hd, HashMap.contains_erase]
      by_cases hz : count s' k.1 = 0
      · simp only [hz, if_true]
        refine ⟨hn.erase _, ?_⟩
        intro p
        show p ∈ b.buckets.erase k.1 ↔ ∃ i, s'.decoys.contains (p, i) = true
        rw [hn.mem_erase_iff, hm p]
        have hz' := (count_eq_zero_iff s' k.1).mp hz
        constructor
        · rintro ⟨hne, i, hi⟩
          refine ⟨i, ?_⟩
          rw [hce]
          have : ¬ k = (p, i) := by rintro rfl; exact hne rfl
          simp [this, hi]
        · rintro ⟨i, hi⟩
          have hne : p ≠ k.1 := by
            rintro rfl
            rw [hz' i] at hi; cases hi
          rw [hce] at hi
          simp only [Bool.and_eq_true] at hi
          exact ⟨hne, i, hi.2⟩
      · simp only [hz, if_false]
        refine ⟨hn, ?_⟩
        intro p
        show p ∈ b.buckets ↔ ∃ i, s'.decoys.contains (p, i) = true
        rw [hm p]
        constructor
        · rintro ⟨i, hi⟩
          by_cases e : k = (p, i)
          · -- the deleted key itself: some other registration of the phantom remains
            subst e
            have : ¬ ∀ j, s'.decoys.contains (p, j) = false := fun h => hz ((count_eq_zero_iff s' p).mpr h)
            rcases Classical.not_forall.mp this with ⟨j, hj⟩
            exact ⟨j, by simpa using hj⟩
          · exact ⟨i, by rw [hce]; simp [e, hi]⟩
        · rintro ⟨i, hi⟩
          rw [hce] at hi
          simp only [Bool.and_eq_true] at hi
          exact ⟨i, hi.2⟩

theorem binv_bremoveAll (c : Cfg) (now : Nat) (ks : List Key) (b : BSt) (n : Nat) (hb : BInv b) :
    BInv (ks.foldl (fun (acc : BSt × Nat) k =>
      let (b', r) := bremove c now acc.1 k
      (b', if r = some true then acc.2 + 1 else acc.2)) (b, n)).1 := by
  induction ks generalizing b n with
  | nil => exact hb
  | cons a ks ih =>
    simp only [List.foldl_cons]
    exact ih _ _ (binv_bremove c now b a hb)

theorem binv_bstep (c : Cfg) (b : BSt) (op : Op) (hb : BInv b) : BInv (bstep c b op).1 := by
  cases op with
  | track k tr now =>
    exact binv_store b _ k (creates c b.st k tr) hb (fun k' => track_contains c b.st k k' tr now)
  | register k tr now =>
    exact binv_store b _ k (creates c b.st k tr) hb (fun k' => register_contains c b.st k k' tr now)
  | markActive k tr =>
    obtain ⟨hn, hm⟩ := hb
    refine ⟨hn, ?_⟩
    intro p
    show p ∈ b.buckets ↔ ∃ i, (markActive c b.st k tr).1.decoys.contains (p, i) = true
    rw [markActive_decoys]; exact hm p
  | collect now => exact hb
  | remove k now => exact binv_bremove c now b k hb
  | sweep now => exact binv_bremoveAll c now _ b 0 hb
  | lookup p => exact hb
  | exists_ k tr => exact hb
  | count p => exact hb
  | total => exact hb

theorem binv_brun (c : Cfg) (ops : List Op) (b : BSt) (hb : BInv b) : BInv (brun c ops b) := by
  unfold brun
  induction ops generalizing b with
  | nil => exact hb
  | cons o ops ih => simp only [List.foldl_cons]; exact ih _ (binv_bstep c b o hb)

end CJ.Registry
