import CJ.Model.Alive
/-! Lemmas for `CJ/Model/Alive.lean`. -/
namespace CJ.Alive
variable {α β : Type}

/-- with fresh objects: the caller holds objects `0 … n-1` and object `j` holds the encoding of value `j` -/
structure Inv (enc : α → β) (s : St β α) (xs : List α) : Prop where
  held : s.held = List.range xs.length
  heap : s.heap = xs.map enc

theorem decode_held (enc : α → β) (dec : β → Option α) (xs : List α) (j : Nat) :
    (((List.range xs.length)[j]?).bind fun b => ((xs.map enc)[b]?).bind dec) = (xs[j]?).bind fun x => dec (enc x) := by
  by_cases h : j < xs.length
  · simp [List.getElem?_map, h]
  · have h1 : (List.range xs.length)[j]? = none := by simp; omega
    have h2 : xs[j]? = none := by simp; omega
    simp [h1, h2]

theorem runFrom_fresh (enc : α → β) (dec : β → Option α) (ops : List (Op α)) :
    ∀ (s : St β α) (xs : List α), Inv enc s xs →
      (runFrom .fresh enc dec s ops).out = specFrom enc dec xs s.out ops := by
  induction ops with
  | nil => intro s xs _; rfl
  | cons o r ih =>
    intro s xs inv
    cases o with
    | enc x =>
      have inv' : Inv enc (step .fresh enc dec s (.enc x)) (xs ++ [x]) := by
        constructor
        · simp [step, inv.held, inv.heap, List.range_succ]
        · simp [step, inv.heap]
      have := ih _ _ inv'
      simpa [runFrom, List.foldl, specFrom, step] using this
    | dec j =>
      have inv' : Inv enc (step .fresh enc dec s (.dec j)) xs := ⟨by simp [step, inv.held], by simp [step, inv.heap]⟩
      have := ih _ _ inv'
      have hd := decode_held enc dec xs j
      simp only [runFrom, List.foldl, specFrom] at this ⊢
      rw [this]
      simp only [step, inv.held, inv.heap, hd]

end CJ.Alive
